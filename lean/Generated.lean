import Generated.Consts
import Generated.Tables
