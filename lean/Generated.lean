import Generated.Consts
