import Model.Topic
import Model.TopicSpec
