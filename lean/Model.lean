import Model.Topic
import Model.TopicSpec
import Model.CommitLog
import Model.CommitLogSpec
import Model.Router.Types
import Model.Router.Step
import Model.Router.Monitors
