/-
Handler `clog` (C13). For every line of `vh clog` it
  (i)  steps the Lean model (`Model/CommitLog.lean`) and compares with the implementation's output;
  (ii) evaluates the C13 monitor on the IMPLEMENTATION's output against a ghost history that is
       built only from the op lines (appended ids) and the implementation's own answers
       (append results = which segment received which offset, reported head):
         append : result = (tail, history length), tail grows by at most one, segment count
                  ≤ configured maximum and = tail - head + 1, head never moves back
         readv  : from a cursor of issued shape (segment s ever created, first(s) ≤ o ≤ next(s)):
                  entries are hist[a], hist[a+1], … with a = o, or the oldest retained offset
                  if s was discarded; exactly min n (remaining) of them; each tagged with its own
                  (segment, offset); continuation = (issued-shape cursor at a + k); Done iff nothing
                  remains; from any other cursor: no panic and the entries are a correct run
         any panic of append/readv/next_offset/last is a monitor failure.
  `--selftest-wrong`: the model applies retention one segment too late.
-/
import Model.CommitLog
import Driver.Common
namespace Driver.CommitLogD
open Driver CommitLog

structure St where
  log : Option (Log Nat) := none
  dead : Bool := false
  maxSegs : Nat := 0
  /-- ghost: appended ids, index = absolute offset -/
  hist : Array Nat := #[]
  /-- ghost: segment that received each offset (from the implementation's append results) -/
  segOf : Array Nat := #[]
  /-- ghost: first offset of each segment id ever created -/
  segStart : Array Nat := #[0]
  /-- the implementation's reported head -/
  head : Nat := 0

def nat? (s : String) : Option Nat := s.toNat?

def showCur (c : Cursor) : String := s!"{c.1} {c.2}"

def showRead (r : List (Entry Nat) × Position) : String :=
  let k := if r.2.isDone then "D" else "N"
  let hd := s!"{k} {showCur r.2.start} {showCur r.2.end_} {r.1.length}"
  r.1.foldl (fun acc e => acc ++ s!" {e.1}:{e.2.1}:{e.2.2}") hd

def panicName : Panic → String
  | .subOverflow => "subOverflow" | .addOverflow => "addOverflow" | .indexOob => "indexOob"
  | .sliceRange => "sliceRange" | .unwrapNone => "unwrapNone" | .config => "config"

/-- parsed `readv` answer of the implementation -/
structure ReadOut where
  done : Bool
  start : Cursor
  end_ : Cursor
  entries : List (Entry Nat)

def parseEntry (s : String) : Option (Entry Nat) :=
  match s.splitOn ":" with
  | [a, b, c] => do
    let a ← nat? a; let b ← nat? b; let c ← nat? c
    some (a, (b, c))
  | _ => none

def parseRead (out : String) : Option ReadOut :=
  match out.splitOn " " with
  | k :: a :: b :: c :: d :: n :: es => do
    let done ← (if k = "D" then some true else if k = "N" then some false else none)
    let a ← nat? a; let b ← nat? b; let c ← nat? c; let d ← nat? d; let n ← nat? n
    let es ← es.mapM parseEntry
    if es.length ≠ n then none else
    some { done := done, start := (a, b), end_ := (c, d), entries := es }
  | _ => none

/-- ghost: last segment id created so far -/
def St.tail (st : St) : Nat := st.segStart.size - 1
/-- ghost: next offset of segment `s` -/
def St.segEnd (st : St) (s : Nat) : Nat :=
  if s + 1 < st.segStart.size then st.segStart[s + 1]! else st.hist.size
/-- cursor of the shape the log hands out (tail at some moment, entry tag, append result, continuation) -/
def St.issuedShape (st : St) (c : Cursor) : Bool :=
  c.1 < st.segStart.size && st.segStart[c.1]! ≤ c.2 && c.2 ≤ st.segEnd c.1

/-- entries are `hist[a], hist[a+1], …`, each tagged with its own segment and offset -/
def checkRun (st : St) : Nat → List (Entry Nat) → Option (String × String)
  | _, [] => none
  | a, e :: r =>
    if e.2.2 ≠ a then some ("gap-or-repeat", s!"expected offset {a} got {e.2.2}")
    else if a ≥ st.hist.size then some ("entry-tag", s!"offset {a} was never appended")
    else if st.hist[a]! ≠ e.1 then some ("entry-tag", s!"offset {a} holds id {st.hist[a]!} not {e.1}")
    else if st.segOf[a]! ≠ e.2.1 then some ("entry-tag", s!"offset {a} lives in segment {st.segOf[a]!} not {e.2.1}")
    else checkRun st (a + 1) r

/-- the C13 monitor for one `readv` answer of the implementation -/
def monitorRead (st : St) (c : Cursor) (n : Nat) (r : ReadOut) : Option (String × String) :=
  let total := st.hist.size
  let retStart := if st.head < st.segStart.size then st.segStart[st.head]! else total
  let k := r.entries.length
  if k > n then some ("count-exceeds-n", s!"{k} > {n}") else
  if st.issuedShape c then
    let stale := decide (c.1 < st.head)
    let a := if stale then retStart else c.2
    match checkRun st a r.entries with
    | some (t, d) =>
      -- a wrong first offset is reported under its own tag
      match r.entries with
      | e :: _ => if e.2.2 ≠ a then some (if stale then "stale-resume" else "start-position", s!"must start at {a}: {d}") else some (t, d)
      | [] => some (t, d)
    | none =>
      if k < min n (total - a) then some ("short-read", s!"{k} entries, {min n (total - a)} available and requested")
      else if r.end_.2 ≠ a + k then some ("continuation", s!"continuation offset {r.end_.2}, read stopped at {a + k}")
      else if !(st.issuedShape r.end_ && decide (st.head ≤ r.end_.1)) then
        some ("continuation", s!"continuation ({r.end_.1},{r.end_.2}) is not a position of a retained segment")
      else if r.done ≠ decide (a + k = total) then
        some ("done-iff", s!"done={r.done} but {total - (a + k)} entries remain")
      else none
  else
    -- fabricated cursor: whatever is returned must still be a correct run of retained entries
    match r.entries with
    | [] => none
    | e :: _ =>
      if e.2.2 < retStart then some ("entry-tag", s!"offset {e.2.2} was discarded") else
      checkRun st e.2.2 r.entries

def stepNew (wrong : Bool) (a b : Nat) (out : String) : St × Verdict :=
  let m : Except Panic (Log Nat) := Log.new a (if wrong then b + 1 else b)
  match m, out with
  | .ok l, "ok" => ({ log := some l, maxSegs := b }, .ok)
  | .error _, "PANIC" => ({ dead := true }, .ok)      -- the two documented `panic!`s of `new`
  | .ok _, _ => ({ dead := true }, .diverge "ok" out)
  | .error e, _ => ({ dead := true }, .diverge s!"PANIC({panicName e})" out)

def stepAppend (st : St) (l : Log Nat) (id size : Nat) (out : String) : St × Verdict :=
  let m := l.append id size
  if out = "PANIC" then
    ({ st with dead := true }, .monitorFail "panic" "append panicked")
  else
  match (out.splitOn " ").mapM nat? with
  | some [s, o, h, t, cnt] =>
    -- ghost update from the implementation's answer
    let tail := st.tail
    let hist := st.hist.push id
    let st' : St := { st with hist := hist, segOf := st.segOf.push s,
                               segStart := if s = tail + 1 then st.segStart.push st.hist.size else st.segStart,
                               head := h }
    let mon : Option (String × String) :=
      if o ≠ hist.size then some ("append-offset", s!"returned offset {o}, history length {hist.size}")
      else if s ≠ tail ∧ s ≠ tail + 1 then some ("append-offset", s!"segment {s} after tail {tail}")
      else if t ≠ s then some ("append-offset", s!"tail {t} but entry went to segment {s}")
      else if cnt > st.maxSegs then some ("retention-bound", s!"{cnt} segments > {st.maxSegs}")
      else if h + cnt ≠ t + 1 then some ("retention-bound", s!"head {h} tail {t} count {cnt}")
      else if h < st.head then some ("retention-whole-oldest", s!"head moved back {st.head} -> {h}")
      else none
    match m with
    | .error e => ({ st' with dead := true }, .diverge s!"PANIC({panicName e})" out)
    | .ok (l', c) =>
      let st' := { st' with log := some l' }
      match mon with
      | some (t, d) => (st', .monitorFail t d)
      | none =>
        let hc := l'.headTailCount
        let ms := s!"{c.1} {c.2} {hc.1} {hc.2.1} {hc.2.2}"
        if ms = out then (st', .ok) else (st', .diverge ms out)
  | _ => ({ st with dead := true }, .bad "unparsable append output")

def stepRead (st : St) (l : Log Nat) (c : Cursor) (n : Nat) (out : String) : St × Verdict :=
  let m := l.readv c n
  if out = "PANIC" then
    let tag := match m with
      | .error .addOverflow => "panic-len-overflow"
      | _ => "panic"
    ({ st with dead := true }, .monitorFail tag s!"readv panicked; model: {match m with | .ok _ => "ok" | .error e => panicName e}")
  else
  match parseRead out with
  | none => (st, .bad "unparsable readv output")
  | some r =>
    match monitorRead st c n r with
    | some (t, d) => (st, .monitorFail t d)
    | none =>
      match m with
      | .error e => (st, .diverge s!"PANIC({panicName e})" out)
      | .ok mr =>
        let ms := showRead mr
        -- Everything the property determines uniquely (entries, continuation offset, Done flag,
        -- relative to the implementation's own segment structure and head) was checked by
        -- `monitorRead`; a remaining difference (e.g. another roll policy, or (s, next(s)) instead
        -- of (s+1, next(s)) as continuation) only breaks the tie between model and code.
        if ms = out then (st, .ok) else (st, .diverge ms out)

def step (wrong : Bool) (st : St) (op : List String) (out : String) : St × Verdict :=
  match op with
  | ["new", a, b] =>
    match nat? a, nat? b with
    | some a, some b => stepNew wrong a b out
    | _, _ => (st, .bad "unparsable op")
  | _ =>
    if st.dead then (st, if out = "SKIP" then .ok else .bad "op after the case ended") else
    match st.log with
    | none => (st, .bad "op before new")
    | some l =>
      match op with
      | ["append", id, size] =>
        match nat? id, nat? size with
        | some id, some size => stepAppend st l id size out
        | _, _ => (st, .bad "unparsable op")
      | ["readv", s, o, n] =>
        match nat? s, nat? o, nat? n with
        | some s, some o, some n => stepRead st l (s, o) n out
        | _, _, _ => (st, .bad "unparsable op")
      | ["next_offset"] =>
        if out = "PANIC" then ({ st with dead := true }, .monitorFail "panic" "next_offset panicked") else
        match l.nextOffset with
        | .error e => (st, .diverge s!"PANIC({panicName e})" out)
        | .ok c =>
          -- monitor: the tail cursor is (last segment, history length)
          if out ≠ s!"{st.tail} {st.hist.size}" then (st, .monitorFail "tail-cursor" s!"expected {st.tail} {st.hist.size}")
          else if showCur c = out then (st, .ok) else (st, .diverge (showCur c) out)
      | ["last"] =>
        if out = "PANIC" then ({ st with dead := true }, .monitorFail "panic" "last panicked") else
        match l.last with
        | .error e => (st, .diverge s!"PANIC({panicName e})" out)
        | .ok x =>
          let ms := match x with | some v => toString v | none => "none"
          if ms = out then (st, .ok) else (st, .diverge ms out)
      | _ => (st, .bad "unknown op")

def handler (wrong : Bool) : Handler St where
  init := {}
  step := step wrong

end Driver.CommitLogD
