import Model.Stack
import Model.AdmissionSpec
import Driver.Common
import Driver.CodecD
import Driver.AdmitD
/-
`mdriver stack`: lines produced by `vh stack` (real per-connection tasks + real router thread).
For every op (a) the packet-level model `Model/Stack.lean` predicts the observable (diverge if the
implementation differs) and (b) monitors — written against the property texts, independent of that
model — are evaluated on the IMPLEMENTATION's observables:
  c20-encode-panic / c20-encode-error   a connection task died / a write failed on a notification the router emits
  c20-content                           a subscriber did not get exactly the accepted matching publishes (topic, payload)
  c20-props-not-dropped / c20-props-not-preserved
  c16-will-missing / c16-will-twice / c16-will-after-disconnect
  c19-over-limit / c19-two-sessions / c19-admitted-invalid / c19-rejected-effect / c19-admission-panic / c19-slot-lost
-/
namespace Driver.StackD
open Driver Codec Admission

/-! ### parsing -/

def pkt? (t : List String) : Option Packet := (CodecD.pPacket t).map CodecD.normPacket

structure Items where
  status : String
  items : List (Option Packet)     -- `none` = undecodable
  raw : List String

/-- `ok|eof <n> { | <CTF>}` -/
def parseItems (out : String) : Option Items :=
  match out.splitOn " | " with
  | [] => none
  | head :: rest =>
    match (head.trimAscii.toString.splitOn " ").filter (· ≠ "") with
    | [st, n] =>
      if n.toNat? ≠ some rest.length then none else
      some { status := st, raw := rest,
             items := rest.map (fun i => pkt? ((i.trimAscii.toString.splitOn " ").filter (· ≠ ""))) }
    | _ => none

def showPackets (ps : List Packet) : String :=
  if ps.isEmpty then "" else " | " ++ " | ".intercalate (ps.map CodecD.sPacket)

def parseVer : String → Option Version
  | "4" => some .v4 | "5" => some .v5 | _ => none

/-! ### spec-level bookkeeping for the monitors (from ops and implementation outputs only) -/

structure WillSpec where
  topic : Bytes
  payload : Bytes
  deriving BEq, Repr

structure MConn where
  ver : Version
  cid : Bytes
  clean : Bool
  will : Option WillSpec
  delay : Nat                     -- seconds, `min(session expiry, will delay)`
  admitted : Bool                 -- the implementation answered with a successful CONNACK
  alive : Bool                    -- … and has not closed the stream since (as far as observed)
  subs : List String := []
  sentDisconnect : Bool := false
  endedAt : Option Nat := none    -- virtual time at which the stream was seen closed / known to end
  takenOver : Bool := false
  cancelled : Bool := false       -- a session-resuming reconnect arrived within the will delay
  aliasIn : List (Nat × Bytes) := []     -- publisher side
  aliasOut : List (Nat × Bytes) := []    -- what this client learnt from the broker's aliases
  pending : List (Bytes × Bytes × Props × Bool) := []  -- expected publishes: topic, payload, pass-through props, had props
  order : Nat := 0                -- admission order
  cleanReconnectNewWill : Bool := false  -- a clean-start reconnect carrying a will arrived within the will delay
  taskFate : String := "-"        -- what `join` reported for the connection task
  lastSync : Nat := 0             -- op index of the last barrier this stream answered
  deriving Repr

structure Mon where
  maxConn : Nat := 0
  auth : AuthConfig := {}
  now : Nat := 0
  conns : List (Option MConn) := []
  round : List Nat := []          -- streams that answered a liveness probe since the last non-probe op
  willSeen : List (Nat × WillSpec) := []     -- (subscriber stream, will) publications observed
  admissions : Nat := 0
  rejectedSends : List (Bytes × Bytes) := []  -- publishes written on streams that never became sessions
  opIx : Nat := 0                 -- ops seen in this case
  lastEvent : Nat := 0            -- index of the last op that can cause a delivery (anything but sync / join / wills / end)

def Mon.conn? (m : Mon) (c : Nat) : Option MConn := (m.conns[c]?).bind id

def Mon.setConn (m : Mon) (c : Nat) (x : MConn) : Mon :=
  let conns := if c < m.conns.length then m.conns else m.conns ++ List.replicate (c + 1 - m.conns.length) none
  { m with conns := conns.set c (some x) }

def isWill (m : Mon) (topic payload : Bytes) : Bool :=
  m.conns.any (fun c => match c with
    | some x => x.admitted && x.will == some ⟨topic, payload⟩
    | none => false)

def passThrough (props : Option Props) : Props :=
  match props with
  | none => []
  | some ps => CodecD.normO V5.publishSpec (some (ps.filter (fun p => p.id != 35 && p.id != 11))) |>.getD []

abbrev Fail := Option (String × String)

def first (a b : Fail) : Fail := match a with | some x => some x | none => b

/-- a publish received by subscriber `c`: will bookkeeping or content check against the expectations -/
def Mon.received (m : Mon) (c : Nat) (p : Packet) : Mon × Fail :=
  match m.conn? c, p with
  | some x, .publish _ _ _ topic _ payload props =>
    -- resolve the broker's topic alias as a client does
    let alias := match Stack.propVal props 35 with | some (.u16 a) => some a | _ => none
    let (x, topic) := match alias with
      | some a =>
        if topic.isEmpty then (x, (Router.nlookup a x.aliasOut).getD [])
        else ({ x with aliasOut := Router.ninsert a topic x.aliasOut }, topic)
      | none => (x, topic)
    if isWill m topic payload then
      ({ (m.setConn c x) with willSeen := m.willSeen ++ [(c, ⟨topic, payload⟩)] }, none)
    else
      match x.pending with
      | [] =>
        let tag := if m.rejectedSends.contains (topic, payload) then "c19-rejected-effect" else "c20-content"
        (m.setConn c x, some (tag, s!"unexpected publish topic={hex topic} payload={hex payload} at stream {c}"))
      | (et, ep, eprops, had) :: rest =>
        let m := m.setConn c { x with pending := rest }
        if et ≠ topic || ep ≠ payload then
          -- MQTT 5 property bytes in front of the payload of a 3.1.1 PUBLISH?
          let tag := if x.ver == .v4 && had && et == topic && ep.length < payload.length
                        && payload.drop (payload.length - ep.length) == ep
                     then "c20-props-not-dropped" else "c20-content"
          (m, some (tag, s!"stream {c} expected topic={hex et} payload={hex ep} got topic={hex topic} payload={hex payload}"))
        else if x.ver == .v5 && passThrough props ≠ eprops then
          (m, some ("c20-props-not-preserved",
            s!"stream {c} topic={hex topic} expected={CodecD.sProps (some eprops)} got={CodecD.sProps props}"))
        else if x.ver == .v4 && props.isSome then
          (m, some ("c20-props-not-dropped", s!"stream {c} topic={hex topic} got={CodecD.sProps props}"))
        else (m, none)
  | _, _ => (m, none)

def Mon.receivedAll (m : Mon) (c : Nat) (ps : List (Option Packet)) : Mon × Fail :=
  ps.foldl (fun (acc : Mon × Fail) p =>
    match p with
    | some pk => let (m, f) := acc.1.received c pk; (m, first acc.2 f)
    | none => (acc.1, first acc.2 (some ("c20-content", s!"stream {c}: bytes the client crate cannot decode"))))
    (m, none)

/-- the stream of `c` was seen closed -/
def Mon.closed (m : Mon) (c : Nat) : Mon × Fail :=
  match m.conn? c with
  | some x =>
    if !x.alive then (m, none) else
    let m := m.setConn c { x with alive := false, endedAt := some m.now }
    if x.pending.isEmpty then (m, none)
    else
      let props := x.pending.any (fun e => e.2.2.2)
      (m.setConn c { x with alive := false, endedAt := some m.now, pending := [] },
       some ("c20-content", s!"subscriber-connection-lost stream={c} ver={if x.ver == .v4 then 4 else 5} pending={x.pending.length} props={if props then 1 else 0}"))
  | none => (m, none)

/-- probe answered: still alive; everything expected must have arrived -/
def Mon.probed (m : Mon) (c : Nat) : Mon × Fail :=
  match m.conn? c with
  | some x =>
    let f1 : Fail := if x.pending.isEmpty then none else
      some ("c20-content", s!"missing stream={c} pending={x.pending.length} first-topic={hex (x.pending.head?.map (·.1) |>.getD [])}")
    let m := m.setConn c { x with pending := [], lastSync := m.opIx }
    let x := { x with lastSync := m.opIx }
    if !x.admitted then (m, f1) else
    let round := if m.round.contains c then m.round else m.round ++ [c]
    let m := { m with round := round }
    let f2 : Fail := if round.length > m.maxConn then
      some ("c19-over-limit", s!"live={round} max={m.maxConn}") else none
    let dup := round.any (fun d => d ≠ c && (match m.conn? d with
      | some y => y.cid == x.cid && !x.cid.isEmpty
      | none => false))
    let f3 : Fail := if dup then some ("c19-two-sessions", s!"client id {hex x.cid} live on two streams {round}") else none
    (m, first f1 (first f2 f3))
  | none => (m, none)

def connectFields : Packet → Option Connect
  | .connect lv ka cid cl pr w l => some ⟨lv, ka, cid, cl, pr, w, l⟩
  | _ => none

/-- CONNECT sent on a fresh stream; `res` = first packet read back (`none` = EOF) -/
def Mon.connected (m : Mon) (c : Nat) (ver : Version) (p : Packet) (res : Option Packet) : Mon × Fail :=
  match connectFields p with
  | none => (m, none)
  | some co =>
    let success := match res with | some (.connack _ .Success _) => true | _ => false
    let delay := min (Stack.propU32 co.props 17) (Stack.propU32 (co.will.bind (·.props)) 24)
    let x : MConn := { ver := ver, cid := co.clientId, clean := co.clean,
                       will := co.will.map (fun w => ⟨w.topic, w.message⟩), delay := delay,
                       admitted := success, alive := success, order := m.admissions }
    let m := { m with admissions := m.admissions + 1 }
    -- the rule: may this CONNECT become a session at all?
    let cfg : Config := { version := ver, auth := m.auth, maxPayload := Stack.maxPayload }
    let bytes := (Stack.clientEncode ver p).getD []
    let idOk := match Stack.str? co.clientId with | some s => Router.validClientId s | none => false
    let f1 : Fail :=
      if success && !(AdmissionSpec.mayProceed cfg bytes co && AdmissionSpec.wireVersionOk cfg bytes && idOk) then
        some ("c19-admitted-invalid", s!"stream {c}: CONNACK Success for level={co.level} keepalive={co.keepAlive} id={hex co.clientId} clean={co.clean} credentials={AdmissionSpec.credentialsAccepted m.auth co.login co.clientId}")
      else none
    -- a connection slot must not be lost: a CONNECT that satisfies every condition is refused
    -- although fewer than max_connections clients are really connected (other client ids)
    let others := (m.conns.filter (fun d => match d with
      | some y => y.admitted && y.alive && (y.cid != co.clientId || co.clientId.isEmpty)
      | none => false)).length
    let f2 : Fail :=
      if !success && AdmissionSpec.mayProceed cfg bytes co && idOk && others < m.maxConn then
        some ("c19-slot-lost", s!"stream {c}: admissible CONNECT id={hex co.clientId} refused with {others} of {m.maxConn} clients connected")
      else none
    let f1 := first f1 f2
    -- reconnects and takeovers of the same client id
    let m := if !success || co.clientId.isEmpty then m else
      (List.range m.conns.length).foldl (fun m d =>
        match m.conn? d with
        | some y =>
          if d ≠ c && y.admitted && y.cid == co.clientId then
            if y.alive then m.setConn d { y with takenOver := true }
            else match y.endedAt with
              | some e =>
                if m.now < e + y.delay * 1000 then
                  if !co.clean then m.setConn d { y with cancelled := true }
                  else m.setConn d { y with cleanReconnectNewWill := co.will.isSome }
                else m
              | none => m
          else m
        | none => m) m
    (m.setConn c x, f1)

/-- CONNECT written, then the peer is gone before the broker can answer (`connclose`): nothing is
    observed on that stream. For the will bookkeeping the connection counts as one that registered
    its will and ended without DISCONNECT iff the CONNECT had to be accepted (every condition met,
    room below `max_connections`). -/
def Mon.connectedGone (m : Mon) (c : Nat) (ver : Version) (p : Packet) : Mon × Fail :=
  match connectFields p with
  | none => (m, none)
  | some co =>
    let cfg : Config := { version := ver, auth := m.auth, maxPayload := Stack.maxPayload }
    let bytes := (Stack.clientEncode ver p).getD []
    let idOk := match Stack.str? co.clientId with | some s => Router.validClientId s | none => false
    let others := (m.conns.filter (fun d => match d with
      | some y => y.admitted && y.alive
      | none => false)).length
    let due := AdmissionSpec.mayProceed cfg bytes co && idOk && others < m.maxConn
    let delay := min (Stack.propU32 co.props 17) (Stack.propU32 (co.will.bind (·.props)) 24)
    let x : MConn := { ver := ver, cid := co.clientId, clean := co.clean,
                       will := co.will.map (fun w => ⟨w.topic, w.message⟩), delay := delay,
                       admitted := due, alive := false, endedAt := some m.now, order := m.admissions,
                       taskFate := "peer-gone-before-connack" }
    ({ (m.setConn c x) with admissions := m.admissions + 1 }, none)

/-- a client packet was written successfully on stream `c` -/
def Mon.sent (m : Mon) (c : Nat) (p : Packet) : Mon :=
  match m.conn? c with
  | none => m
  | some x =>
    match p with
    | .subscribe _ _ filters =>
      if !x.admitted then m else
      let fresh := (filters.filterMap (fun f => Stack.str? f.path)).filter (fun f => !x.subs.contains f)
      m.setConn c { x with subs := x.subs ++ fresh.eraseDups }
    | .disconnect _ _ => m.setConn c { x with sentDisconnect := true }
    | .unsubscribe _ _ filters =>
      let gone := filters.filterMap Stack.str?
      m.setConn c { x with subs := x.subs.filter (fun f => !gone.contains f) }
    | .publish _ _ _ topic _ payload props =>
      if !x.admitted || !x.alive then m else
      -- a client must not send subscription identifiers; the alias must be in range / known
      if (Stack.propVal props 11).isSome then m else
      let r : Option (MConn × Bytes) := match Stack.propVal props 35 with
        | some (.u16 a) =>
          if a = 0 || a > 4096 then none
          else if topic.isEmpty then (Router.nlookup a x.aliasIn).map (fun t => (x, t))
          else some ({ x with aliasIn := Router.ninsert a topic x.aliasIn }, topic)
        | _ => some (x, topic)
      match r with
      | none => m
      | some (x, topic) =>
        let m := m.setConn c x
        (List.range m.conns.length).foldl (fun m d =>
          match m.conn? d with
          | some y =>
            if y.admitted && y.alive then
              let n := (y.subs.filter (fun f => Stack.topicMatches topic f)).length
              if n = 0 then m else
              m.setConn d { y with pending := y.pending ++ List.replicate n (topic, payload, passThrough props, props.isSome) }
            else m
          | none => m) m
    | _ => m

/-- end of the case: every will is accounted for at every subscriber that was there throughout -/
def Mon.atEnd (m : Mon) : Fail :=
  let wills : List WillSpec := m.conns.foldl (fun acc c => match c with
    | some x => (match x.will with
      | some w => if x.admitted && !acc.contains w then acc ++ [w] else acc
      | none => acc)
    | none => acc) []
  -- only subscribers that answered a barrier after the last op that can cause a delivery have
  -- seen everything (matters for shrunk replays, where barriers may have been deleted)
  let subs := (List.range m.conns.length).filter (fun s => match m.conn? s with
    | some y => y.admitted && y.alive && !y.subs.isEmpty && y.lastSync > m.lastEvent
    | none => false)
  wills.foldl (fun (acc : Fail) w =>
    match acc with
    | some f => some f
    | none =>
      -- owners of this will, with how often it is owed
      let owners := m.conns.filterMap (fun c => match c with
        | some x => if x.admitted && x.will == some w then some x else none
        | none => none)
      let lo := (owners.filter (fun x => !x.alive && !x.sentDisconnect && !x.takenOver && !x.cancelled)).length
      let hi := (owners.filter (fun x => !x.alive && !x.sentDisconnect)).length
      let anyDisc := owners.any (·.sentDisconnect)
      let ctx := owners.foldl (fun s x => s ++ s!"[ver={if x.ver == .v4 then 4 else 5} delay={x.delay} disc={x.sentDisconnect} takeover={x.takenOver} cancelled={x.cancelled} ended={x.endedAt.isSome} clean-reconnect-new-will={x.cleanReconnectNewWill} task={x.taskFate}]") ""
      subs.foldl (fun (acc : Fail) s =>
        match acc, m.conn? s with
        | some f, _ => some f
        | none, some y =>
          if !y.subs.any (fun f => Stack.topicMatches w.topic f) then none else
          -- the subscriber must have been there before the first owner was admitted
          if owners.any (fun x => x.order < y.order) then none else
          let n := (m.willSeen.filter (fun e => e.1 == s && e.2 == w)).length
          if n < lo then some ("c16-will-missing", s!"will topic={hex w.topic} owed={lo} seen={n} subscriber={s} owners={ctx}")
          else if n > hi then
            some (if anyDisc && hi = 0 then "c16-will-after-disconnect" else "c16-will-twice",
                  s!"will topic={hex w.topic} allowed={hi} seen={n} subscriber={s} owners={ctx}")
          else none
        | none, none => none) none) none

/-! ### the pure sweep -/

def dnotifOf (kind : String) (p : Packet) : Option Encode.DNotif :=
  match kind, p with
  | "fwd", .publish d q r t id pl pr => some (.forward d q r t id pl pr)
  | "disc", .disconnect r pr => some (.disconnect r pr)
  | "ack", .connack sp code pr => some (.deviceAck (.connAck sp code pr))
  | "ack", .puback k r none => some (.deviceAck (.pubAck k r))
  | "ack", .pubrec k r none => some (.deviceAck (.pubRec k r))
  | "ack", .pubrel k r none => some (.deviceAck (.pubRel k r))
  | "ack", .pubcomp k r none => some (.deviceAck (.pubComp k r))
  | "ack", .suback k none cs => some (.deviceAck (.subAck k cs))
  | "ack", .unsuback k none rs => some (.deviceAck (.unsubAck k rs))
  | "ack", .pingresp => some (.deviceAck .pingResp)
  | "ackp", .puback k r (some ps) => some (.deviceAck (.pubAckWithProperties k r ps))
  | "ackp", .pubrec k r (some ps) => some (.deviceAck (.pubRecWithProperties k r ps))
  | "ackp", .pubrel k r (some ps) => some (.deviceAck (.pubRelWithProperties k r ps))
  | "ackp", .pubcomp k r (some ps) => some (.deviceAck (.pubCompWithProperties k r ps))
  | "ackp", .suback k (some ps) cs => some (.deviceAck (.subAckWithProperties k cs ps))
  | _, _ => none

/-- is this a form the routing core emits towards a connection of version `v`?
    (the executable `Emittable` on the detailed form: router acks carry no properties and only
    success codes, CONNACK has its fixed properties, forwards to v4 have no alias / subscription id) -/
def routerEmits (v : Version) : Encode.DNotif → Bool
  | .forward _ qos _ topic pkid _ props =>
    decide (pkid < 65536) && decide (qos ≠ .q0 → pkid ≠ 0) && decide (topic.length ≤ 65535) &&
    (match v with
     | .v4 => (Stack.propVal props 35).isNone && (Stack.propVal props 11).isNone
     | .v5 => true)
  | .deviceAck (.connAck _ .Success _) => true
  | .deviceAck (.pubAck _ .Success) | .deviceAck (.pubRec _ .Success) => true
  | .deviceAck (.pubRel _ .Success) | .deviceAck (.pubComp _ .Success) => true
  | .deviceAck (.subAck _ cs) => cs.all (fun c => c == .QoS0 || c == .QoS1 || c == .QoS2)
  | .deviceAck (.unsubAck _ rs) => rs.all (fun r => r == .Success || r == .NoSubscriptionExisted)
  | .deviceAck .pingResp => true
  | .unschedule => true
  | .shadow => true
  | .disconnect r none => r == .ProtocolError || r == .MalformedPacket || r == .TopicAliasInvalid
  | _ => false

def encOut (v : Version) (n : Encode.DNotif) : String :=
  match n.toPacket with
  | none => "-"
  | some _ =>
    match Encode.write v n with
    | .ok bs => "W" ++ hex bs
    | .error .panic => "P"
    | .error _ => "E"

/-- content of the bytes `Protocol::write` produced for a forward, read back with the CLIENT crate's
    codec (model): exactly one PUBLISH with the forward's topic, payload and QoS; towards MQTT 5 the
    forward's properties, towards 3.1.1 none. `none` = fine. -/
def sweepContent (v : Version) (n : Encode.DNotif) (bytes : Bytes) : Option String :=
  match n with
  | .forward _ qos _ topic _ payload props =>
    let want : Option Props := match v with
      | .v4 => none
      | .v5 => (match CodecD.normO V5.publishSpec props with | some [] => none | x => x)
    match Stack.clientDecode v bytes with
    | some (.publish _ q _ t _ pl pr) =>
      if t ≠ topic then some s!"topic differs (written {topic.length} bytes, read {t.length})"
      else if pl ≠ payload then some s!"payload differs (written {payload.length} bytes, read {pl.length})"
      else if q ≠ qos then some "QoS differs"
      else if CodecD.normO V5.publishSpec pr ≠ want then some s!"properties differ: read {CodecD.sProps pr}"
      else none
    | some _ => some "the bytes decode to another packet type"
    | none => some s!"the {bytes.length} bytes are not exactly one decodable frame (announced length wrong / stream desynchronised)"
  | _ => none

/-! ### the handler -/

structure DState where
  s : Stack.State := {}
  m : Mon := {}
  dead : Bool := false      -- after a divergence the model state is no longer meaningful
  wrong : Bool := false
  prop : String := ""       -- `C16` / `C19` / `C20`: only that property's monitors report ("" = all)

/-- `c20-content` belongs to C20, … -/
def relevant (prop tag : String) : Bool :=
  prop.isEmpty || tag.startsWith (prop.toLower ++ "-") || tag == "nondeterministic-case"

def verdict (st : DState) (modelOut implOut : String) (same : Bool) (mon : Fail) : DState × Verdict :=
  let mon := match mon with
    | some (t, d) => if relevant st.prop t then some (t, d) else none
    | none => none
  match mon with
  | some (t, d) => ({ st with dead := st.dead || !same }, .monitorFail t d)
  | none =>
    if st.dead || same then (st, .ok)
    else ({ st with dead := true }, .diverge modelOut implOut)

def nat? (s : String) : Option Nat := s.toNat?

def step (st : DState) (op : List String) (out : String) : DState × Verdict :=
  let out := out.trimAscii.toString
  let ix := st.m.opIx + 1
  let passive := match op with
    | "sync" :: _ | "join" :: _ | ["wills"] | ["end"] | "note" :: _ => true
    | _ => false
  let st := { st with m := { st.m with opIx := ix, lastEvent := if passive then st.m.lastEvent else ix } }
  match op with
  | ["new", mc, auth] =>
    match nat? mc, AdmitD.parseAuth auth with
    | some mc, some a =>
      ({ st with s := { maxConn := mc, auth := a }, m := { maxConn := mc, auth := a }, dead := false }, .ok)
    | _, _ => (st, .bad "new")
  | "nondet" :: _ => (st, .monitorFail "nondeterministic-case" out)
  | ["note", _] => (st, .ok)
  | ["end"] => verdict st "ok" out true st.m.atEnd
  | "enc" :: v :: kind :: rest =>
    match parseVer v with
    | none => (st, .bad "enc version")
    | some ver =>
      let n? : Option Encode.DNotif :=
        if kind == "unsched" then some .unschedule else (pkt? rest).bind (dnotifOf kind)
      match n? with
      | none => if out == "U" then (st, .ok) else (st, .bad "enc form")
      | some n =>
        let mon : Fail :=
          if !routerEmits ver n then none
          else if out == "P" then some ("c20-encode-panic", s!"Protocol::write panicked: enc {v} {kind} {" ".intercalate rest}")
          else if out == "E" then some ("c20-encode-error", s!"Protocol::write failed: enc {v} {kind} {" ".intercalate rest}")
          else if out.startsWith "W" then
            match CodecD.unhex (out.drop 1).toString with
            | none => none
            | some bytes =>
              (sweepContent ver n bytes).map (fun why => ("c20-content", s!"sweep enc {v} {kind}: {why}"))
          else none
        let mo := if st.wrong && out.startsWith "W" then "W00" else encOut ver n
        verdict { st with dead := false } mo out (mo == out) mon
  | "conn" :: c :: v :: rest =>
    match nat? c, parseVer v, pkt? rest with
    | some c, some ver, some p =>
      let res : Option Packet := if out == "eof" then none else pkt? ((out.splitOn " ").filter (· ≠ ""))
      if out ≠ "eof" && res.isNone then (st, .bad "conn output") else
      let (m, f) := st.m.connected c ver p res
      let m := { m with round := [] }
      -- model
      let s := st.s.connect c ver p
      let (s, mo) : Stack.State × Option Packet := match s.conn? c with
        | some x => (match x.queue with
          | q :: qs => (s.setConn c { x with queue := qs }, some (CodecD.normPacket q))
          | [] => (s, none))
        | none => (s, none)
      -- self-test variant: the model predicts a refused connection everywhere
      let mo := if st.wrong then none else mo
      let same := mo == res
      verdict { st with s := s, m := m } (match mo with | some q => CodecD.sPacket q | none => "eof") out same f
    | _, _, _ => (st, .bad "conn")
  | "send" :: c :: rest =>
    match nat? c, pkt? rest with
    | some c, some p =>
      let m := { st.m with round := [] }
      let m := match p, st.m.conn? c with
        | .publish _ _ _ topic _ payload _, some x =>
          if x.admitted then m else { m with rejectedSends := m.rejectedSends ++ [(topic, payload)] }
        | _, _ => m
      let m := if out == "ok" then m.sent c p else m
      let isOpen := match st.s.conn? c with | some x => x.isOpen | none => false
      let mo := if isOpen then "ok" else "closed"
      let s := if isOpen then (st.s.clientPacket c p).settle else st.s
      verdict { st with s := s, m := m } mo out (mo == out) none
    | _, _ => (st, .bad "send")
  | ["raw", c, h] =>
    match nat? c, CodecD.unhex h with
    | some c, some bytes =>
      let isOpen := match st.s.conn? c with | some x => x.isOpen | none => false
      let mo := if isOpen then "ok" else "closed"
      let s := if isOpen then st.s.rawBytes c bytes else st.s
      -- what the client really sent, packet by packet (spec-level bookkeeping: a DISCONNECT in
      -- front of undecodable bytes was sent first)
      let m := { st.m with round := [] }
      let m := if out ≠ "ok" then m else
        match m.conn? c with
        | some x => (Stack.decodeStream x.ver (bytes.length + 1) bytes []).1.foldl (fun m p => m.sent c p) m
        | none => m
      verdict { st with s := s, m := m } mo out (mo == out) none
    | _, _ => (st, .bad "raw")
  | "connclose" :: c :: v :: rest =>
    match nat? c, parseVer v, pkt? rest with
    | some c, some ver, some p =>
      let (m, f) := st.m.connectedGone c ver p
      let s := st.s.connectGone c ver p
      verdict { st with s := s, m := { m with round := [] } } "ok" out (out == "ok") f
    | _, _, _ => (st, .bad "connclose")
  | ["recv", c] =>
    match nat? c with
    | some c =>
      let res : Option Packet := if out == "eof" then none else pkt? ((out.splitOn " ").filter (· ≠ ""))
      if out ≠ "eof" && res.isNone then verdict st "" out true (some ("c20-content", s!"stream {c}: {out}")) else
      let (m, f) := match res with
        | some p => st.m.received c p
        | none => st.m.closed c
      let (s, mo) : Stack.State × Option Packet := match st.s.conn? c with
        | some x => (match x.queue with
          | q :: qs => (st.s.setConn c { x with queue := qs }, some (CodecD.normPacket q))
          | [] => (st.s, none))
        | none => (st.s, none)
      verdict { st with s := s, m := { m with round := [] } }
        (match mo with | some q => CodecD.sPacket q | none => "eof") out (mo == res) f
    | none => (st, .bad "recv")
  | ["advance", ms] =>
    match nat? ms with
    | some ms =>
      let s := st.s.advance ms
      verdict { st with s := s, m := { st.m with now := st.m.now + ms, round := [] } } "ok" out (out == "ok") none
    | none => (st, .bad "advance")
  | [kind, c] =>
    match nat? c with
    | none => (st, .bad "stream id")
    | some c =>
      if kind == "sync" || kind == "eof" then
        match parseItems out with
        | none => (st, .bad "items")
        | some it =>
          let (m, f1) := st.m.receivedAll c it.items
          let (m, f2) := if it.status == "eof" then m.closed c else m.probed c
          let m := if kind == "eof" then { m with round := [] } else m
          -- model
          match st.s.conn? c with
          | none => verdict { st with m := m } "noconn" out false (first f1 f2)
          | some x =>
            let q := x.queue.map CodecD.normPacket
            let status := if x.isOpen then (if kind == "eof" then "open" else "ok") else "eof"
            let x := { x with queue := [], kaDeadline := if x.isOpen then st.s.now + x.keepAlive * 1500 else x.kaDeadline }
            let s := st.s.setConn c x
            let same := status == it.status && it.items == q.map some
            verdict { st with s := s, m := m } s!"{status} {q.length}{showPackets q}" out same (first f1 f2)
      else if kind == "shut" then
        let s := (st.s.linkEnds c .peerClosed).settle
        verdict { st with s := s, m := { st.m with round := [] } } "ok" out (out == "ok") none
      else if kind == "join" then
        let mo := st.s.joinResult c
        let admitted := match st.m.conn? c with | some x => x.admitted | none => false
        let f : Fail :=
          if out.startsWith "panic:v4-write" || out.startsWith "panic:unreachable" || out.startsWith "panic:other" then
            some ("c20-encode-panic", s!"connection task of stream {c} panicked ({out}) admitted={admitted}")
          else if out.startsWith "panic:will-handler" then
            some ("c19-admission-panic", s!"connection task of stream {c} panicked ({out}) admitted={admitted}")
          else none
        let m := match st.m.conn? c with
          | some x => st.m.setConn c { x with taskFate := out }
          | none => st.m
        verdict { st with m := m } mo out (mo == out) f
      else (st, .bad "op")
  | ["wills"] =>
    let mo := toString st.s.sw.handlers.length
    verdict st mo out (mo == out) none
  | _ => (st, .bad "unknown op")

def handler (prop : String) (wrong : Bool) : Handler DState where
  init := { wrong := wrong, prop := prop }
  step := step

end Driver.StackD
