import Model.Admission
import Model.AdmissionSpec
import Driver.Common
import Driver.CodecD
/-
`mdriver admit`: lines `adm <4|5> <auth> <first bytes> <eof|idle> => <written> <class> [<CONNECT CTF>]`
produced by `vh admit` (the real `mqtt_connect`). Model = `Admission.admit`; monitor = the
admission rule of `AdmissionSpec` evaluated on the implementation's answer.
-/
namespace Driver.AdmitD
open Driver Admission Codec

/-- `admit::MAX_PAYLOAD` of the harness -/
def maxPayload : Nat := 2048

def parsePairs (s : String) : Option (List (Bytes × Bytes)) :=
  if s == "." then some [] else
  (s.splitOn ",").mapM fun p =>
    match p.splitOn "=" with
    | [u, v] => do some (← CodecD.unhex u, ← CodecD.unhex v)
    | _ => none

def parseExt (s : String) : Option (Bytes → Bytes → Bytes → Bool) :=
  let (pair, cid) := match s.splitOn "@" with
    | [p, c] => (p, some c)
    | _ => (s, none)
  match parsePairs pair, (match cid with | some c => (CodecD.unhex c).map some | none => some none) with
  | some [(u, p)], some cidReq =>
    some fun cid user pass => user == u && pass == p && (match cidReq with | some c => cid == c | none => true)
  | _, _ => none

def parseAuth (s : String) : Option AuthConfig :=
  if s == "none" then some {}
  else if s.startsWith "static:" then (parsePairs (s.drop 7).toString).map fun ps => { static := some ps }
  else if s.startsWith "ext:" then (parseExt (s.drop 4).toString).map fun f => { external := some f }
  else if s.startsWith "both:" then
    match ((s.drop 5).toString).splitOn "|" with
    | [a, b] => do
      let ps ← parsePairs a
      let f ← parseExt b
      some { static := some ps, external := some f }
    | _ => none
  else none

def parseVersion : String → Option Version
  | "4" => some .v4 | "5" => some .v5 | _ => none

def className : Reject → String
  | .network => "network" | .io => "io" | .timeout => "timeout" | .notConnect => "notconnect"
  | .invalidAuth => "invalidauth" | .zeroKeepAlive => "zerokeepalive"
  | .invalidClientId => "invalidclientid"

structure Impl where
  written : Bytes
  cls : String
  packet : Option Packet

def parseImpl (out : String) : Option Impl :=
  match (out.splitOn " ").filter (· ≠ "") with
  | w :: cls :: rest => do
    let wb ← CodecD.unhex w
    if rest.isEmpty then some ⟨wb, cls, none⟩
    else some ⟨wb, cls, some (← CodecD.pPacket rest)⟩
  | _ => none

def connectOf : Packet → Option Connect
  | .connect lv ka cid cl pr w l => some ⟨lv, ka, cid, cl, pr, w, l⟩
  | _ => none

/-- self-test variant: the model forgets the keep-alive rule -/
def admitWrong (cfg : Config) (bytes : Bytes) (tail : Tail) : Outcome :=
  match admit cfg bytes tail with
  | .reject none .zeroKeepAlive => .reject none .network
  | o => o

def handler (wrong : Bool) : Handler Unit where
  init := ()
  step := fun _ op out =>
    match op with
    | ["adm", v, auth, bytes, tail] =>
      match parseVersion v, parseAuth auth, CodecD.unhex bytes, parseImpl out with
      | some ver, some a, some bs, some impl =>
        let cfg : Config := { version := ver, auth := a, maxPayload := maxPayload }
        -- monitor on the implementation's answer (independent of `Admission.admit`)
        let mon : Option (String × String) :=
          if impl.cls == "PANIC" then some ("c19-admit-panic", "mqtt_connect panicked")
          else if impl.cls == "ok" then
            match impl.packet.bind connectOf with
            | none => some ("c19-admitted-invalid", "Ok(_) without a CONNECT")
            | some c =>
              if !AdmissionSpec.wireVersionOk cfg bs then
                some ("c19-admitted-invalid",
                  s!"the CONNECT on the wire is not of the listener's protocol version: name/level={(AdmissionSpec.wireNameLevel bs).map (fun p => (hex p.1, p.2))} listener={cfg.version.level}")
              else if !AdmissionSpec.mayProceed cfg bs c then
                some ("c19-admitted-invalid",
                  s!"connect={AdmissionSpec.startsWithConnect bs} level={c.level} keepalive={c.keepAlive} emptyid={c.clientId.isEmpty} clean={c.clean} credentials={AdmissionSpec.credentialsAccepted a c.login c.clientId}")
              else none
          else if AdmissionSpec.successConnack impl.written then
            some ("c19-connack-on-reject", s!"class={impl.cls}")
          else none
        match mon with
        | some (t, d) => ((), .monitorFail t d)
        | none =>
          let tl := if tail == "idle" then Tail.idle else Tail.eof
          let o := if wrong then admitWrong cfg bs tl else admit cfg bs tl
          let mw := match written cfg o with | some w => hex w | none => "ENCODER-ERROR"
          match o with
          | .reject _ why =>
            let m := s!"{mw} {className why}"
            if impl.packet.isNone && s!"{hex impl.written} {impl.cls}" == m then ((), .ok)
            else ((), .diverge m out)
          | .proceed c =>
            if impl.cls == "ok" && impl.written.isEmpty && impl.packet == some c.toPacket then ((), .ok)
            else ((), .diverge s!"{mw} ok {CodecD.sPacket c.toPacket}" out)
      | _, _, _, _ => ((), .bad "unparsable adm line")
    | _ => ((), .bad "unknown op")

end Driver.AdmitD
