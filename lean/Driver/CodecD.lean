import Model.Codec.V5
import Driver.Common
/-
C04 driver. Lines (harness/src/codec.rs):
  `<copy> <packet in canonical text form> => <enc>|<size>|<self>|<cross>`
  `dec <copy> <hex> => D<consumed> <packet> | DE | DP`
For each line: parse the packet, run the model's encoder / size / decoders (same copy and other
crate), compare with the implementation (`diverge`), and evaluate the property directly on the
implementation's outputs for well-formed values (`monitorFail`).
-/
namespace Driver.CodecD
open Driver Codec

/-! ### names of enum values (Rust `{:?}`) -/

def lastComponent (s : String) : String :=
  match (s.splitOn ".").getLast? with
  | some x => x
  | none => s

def nameOf {α} [Repr α] (a : α) : String := lastComponent (reprStr a)

def allConnCodes : List ConnCode :=
  [.Success, .RefusedProtocolVersion, .BadClientId, .ServiceUnavailable, .UnspecifiedError,
   .MalformedPacket, .ProtocolError, .ImplementationSpecificError, .UnsupportedProtocolVersion,
   .ClientIdentifierNotValid, .BadUserNamePassword, .NotAuthorized, .ServerUnavailable, .ServerBusy,
   .Banned, .BadAuthenticationMethod, .TopicNameInvalid, .PacketTooLarge, .QuotaExceeded,
   .PayloadFormatInvalid, .RetainNotSupported, .QoSNotSupported, .UseAnotherServer, .ServerMoved,
   .ConnectionRateExceeded]
def allAckReasons : List AckReason :=
  [.Success, .NoMatchingSubscribers, .UnspecifiedError, .ImplementationSpecificError, .NotAuthorized,
   .TopicNameInvalid, .PacketIdentifierInUse, .QuotaExceeded, .PayloadFormatInvalid]
def allRelReasons : List RelReason := [.Success, .PacketIdentifierNotFound]
def allUnsubReasons : List UnsubReason :=
  [.Success, .NoSubscriptionExisted, .UnspecifiedError, .ImplementationSpecificError, .NotAuthorized,
   .TopicFilterInvalid, .PacketIdentifierInUse]
def allDiscReasons : List DiscReason :=
  [.NormalDisconnection, .DisconnectWithWillMessage, .UnspecifiedError, .MalformedPacket,
   .ProtocolError, .ImplementationSpecificError, .NotAuthorized, .ServerBusy, .ServerShuttingDown,
   .KeepAliveTimeout, .SessionTakenOver, .TopicFilterInvalid, .TopicNameInvalid,
   .ReceiveMaximumExceeded, .TopicAliasInvalid, .PacketTooLarge, .MessageRateTooHigh, .QuotaExceeded,
   .AdministrativeAction, .PayloadFormatInvalid, .RetainNotSupported, .QoSNotSupported,
   .UseAnotherServer, .ServerMoved, .SharedSubscriptionNotSupported, .ConnectionRateExceeded,
   .MaximumConnectTime, .SubscriptionIdentifiersNotSupported, .WildcardSubscriptionsNotSupported]

def byName {α} [Repr α] (all : List α) (s : String) : Option α := all.find? (fun a => nameOf a == s)

def subCodeName : SubCode → String
  | .Success .q0 => "Success0" | .Success .q1 => "Success1" | .Success .q2 => "Success2"
  | c => nameOf c

def allSubCodes : List SubCode :=
  [.Success .q0, .Success .q1, .Success .q2, .Failure, .QoS0, .QoS1, .QoS2, .Unspecified,
   .ImplementationSpecific, .NotAuthorized, .TopicFilterInvalid, .PkidInUse, .QuotaExceeded,
   .SharedSubscriptionsNotSupported, .SubscriptionIdNotSupported, .WildcardSubscriptionsNotSupported]

def subCodeByName (s : String) : Option SubCode := allSubCodes.find? (fun c => subCodeName c == s)

/-! ### canonical text form: parsing -/

def hexNib (b : UInt8) : Option UInt8 :=
  if 48 ≤ b && b ≤ 57 then some (b - 48)
  else if 97 ≤ b && b ≤ 102 then some (b - 87)
  else if 65 ≤ b && b ≤ 70 then some (b - 55)
  else none

/-- same function as `Driver.unhex`, walking the UTF-8 bytes from the end (payloads of several
    MiB occur) -/
def unhex (s : String) : Option (List UInt8) :=
  if s = "-" then some [] else
  let a := s.toUTF8
  if a.size % 2 ≠ 0 then none else
  let rec go (i : Nat) (acc : List UInt8) : Option (List UInt8) :=
    match i with
    | 0 => some acc
    | j + 1 =>
      match hexNib (a.get! (2 * j)), hexNib (a.get! (2 * j + 1)) with
      | some x, some y => go j ((x * 16 + y) :: acc)
      | _, _ => none
  go (a.size / 2) []

def pBool : String → Option Bool
  | "0" => some false | "1" => some true | _ => none

def pQoS : String → Option QoS
  | "0" => some .q0 | "1" => some .q1 | "2" => some .q2 | _ => none

def pRule : String → Option Rule
  | "0" => some .OnEverySubscribe | "1" => some .OnNewSubscribe | "2" => some .Never | _ => none

def pItem (s : String) : Option Property :=
  match s.splitOn "=" with
  | [ids, kv] => do
    let id ← ids.toNat?
    let k := kv.front
    let v := (kv.drop 1).toString
    match k with
    | 'b' => do some ⟨id, .u8 (← v.toNat?)⟩
    | 'w' => do some ⟨id, .u16 (← v.toNat?)⟩
    | 'd' => do some ⟨id, .u32 (← v.toNat?)⟩
    | 'v' => do some ⟨id, .var (← v.toNat?)⟩
    | 's' => do some ⟨id, .str (← unhex v)⟩
    | 'x' => do some ⟨id, .bin (← unhex v)⟩
    | 'p' =>
      match v.splitOn ":" with
      | [a, b] => do some ⟨id, .pair (← unhex a) (← unhex b)⟩
      | _ => none
    | _ => none
  | _ => none

/-- `N` | `S[item;item;…]` -/
def pProps (s : String) : Option (Option Props) :=
  if s == "N" then some none
  else if s.startsWith "S[" && s.endsWith "]" then
    let inner := ((s.drop 2).dropEnd 1).toString
    if inner.isEmpty then some (some []) else
    match (inner.splitOn ";").mapM pItem with
    | some ps => some (some ps)
    | none => none
  else none

def pWill (s : String) : Option (Option Will) :=
  if s == "-" then some none
  else if s.startsWith "W" then
    match ((s.drop 1).toString).splitOn "," with
    | [t, m, q, r, p] => do
      some (some ⟨← unhex t, ← unhex m, ← pQoS q, ← pBool r, ← pProps p⟩)
    | _ => none
  else none

def pLogin (s : String) : Option (Option Login) :=
  if s == "-" then some none
  else if s.startsWith "L" then
    match ((s.drop 1).toString).splitOn "," with
    | [u, p] => do some (some ⟨← unhex u, ← unhex p⟩)
    | _ => none
  else none

def pList {α} (f : String → Option α) (s : String) : Option (List α) :=
  if s == "." then some [] else (s.splitOn ",").mapM f

def pFilter (s : String) : Option Filter :=
  match s.splitOn "/" with
  | [p, q, nl, pr, r] => do some ⟨← unhex p, ← pQoS q, ← pBool nl, ← pBool pr, ← pRule r⟩
  | _ => none

def pPacket : List String → Option Packet
  | ["connect", lv, ka, cid, cl, pr, w, l] => do
    some (.connect (← lv.toNat?) (← ka.toNat?) (← unhex cid) (← pBool cl) (← pProps pr) (← pWill w)
      (← pLogin l))
  | ["connack", sp, code, pr] => do
    some (.connack (← pBool sp) (← byName allConnCodes code) (← pProps pr))
  | ["publish", d, q, r, t, id, pl, pr] => do
    some (.publish (← pBool d) (← pQoS q) (← pBool r) (← unhex t) (← id.toNat?) (← unhex pl)
      (← pProps pr))
  | ["puback", id, rs, pr] => do some (.puback (← id.toNat?) (← byName allAckReasons rs) (← pProps pr))
  | ["pubrec", id, rs, pr] => do some (.pubrec (← id.toNat?) (← byName allAckReasons rs) (← pProps pr))
  | ["pubrel", id, rs, pr] => do some (.pubrel (← id.toNat?) (← byName allRelReasons rs) (← pProps pr))
  | ["pubcomp", id, rs, pr] => do
    some (.pubcomp (← id.toNat?) (← byName allRelReasons rs) (← pProps pr))
  | ["subscribe", id, pr, fs] => do some (.subscribe (← id.toNat?) (← pProps pr) (← pList pFilter fs))
  | ["suback", id, pr, cs] => do some (.suback (← id.toNat?) (← pProps pr) (← pList subCodeByName cs))
  | ["unsubscribe", id, pr, ts] => do some (.unsubscribe (← id.toNat?) (← pProps pr) (← pList unhex ts))
  | ["unsuback", id, pr, rs] => do
    some (.unsuback (← id.toNat?) (← pProps pr) (← pList (byName allUnsubReasons) rs))
  | ["pingreq"] => some .pingreq
  | ["pingresp"] => some .pingresp
  | ["disconnect", rs, pr] => do some (.disconnect (← byName allDiscReasons rs) (← pProps pr))
  | _ => none

/-! ### canonical text form: printing (for verdict lines) -/

def shortHex (bs : Bytes) : String :=
  if bs.length ≤ 48 then hex bs else s!"{hex (bs.take 40)}..({bs.length}B)"

def sBool (b : Bool) : String := if b then "1" else "0"

def sItem (p : Property) : String :=
  s!"{p.id}=" ++ (match p.val with
    | .u8 v => s!"b{v}" | .u16 v => s!"w{v}" | .u32 v => s!"d{v}" | .var n => s!"v{n}"
    | .str s => s!"s{shortHex s}" | .bin b => s!"x{shortHex b}"
    | .pair a b => s!"p{shortHex a}:{shortHex b}")

def sProps : Option Props → String
  | none => "N"
  | some ps => "S[" ++ ";".intercalate (ps.map sItem) ++ "]"

def sList {α} (f : α → String) (xs : List α) : String :=
  if xs.isEmpty then "." else ",".intercalate (xs.map f)

def sPacket : Packet → String
  | .connect lv ka cid cl pr w l =>
    s!"connect {lv} {ka} {shortHex cid} {sBool cl} {sProps pr} " ++
    (match w with
     | none => "-"
     | some w => s!"W{shortHex w.topic},{shortHex w.message},{w.qos.toNat},{sBool w.retain},{sProps w.props}")
    ++ " " ++ (match l with | none => "-" | some l => s!"L{shortHex l.username},{shortHex l.password}")
  | .connack sp c pr => s!"connack {sBool sp} {nameOf c} {sProps pr}"
  | .publish d q r t id pl pr =>
    s!"publish {sBool d} {q.toNat} {sBool r} {shortHex t} {id} {shortHex pl} {sProps pr}"
  | .puback id r pr => s!"puback {id} {nameOf r} {sProps pr}"
  | .pubrec id r pr => s!"pubrec {id} {nameOf r} {sProps pr}"
  | .pubrel id r pr => s!"pubrel {id} {nameOf r} {sProps pr}"
  | .pubcomp id r pr => s!"pubcomp {id} {nameOf r} {sProps pr}"
  | .subscribe id pr fs =>
    s!"subscribe {id} {sProps pr} " ++ sList (fun (f : Filter) =>
      s!"{shortHex f.path}/{f.qos.toNat}/{sBool f.nolocal}/{sBool f.preserveRetain}/" ++
      (match f.rule with | .OnEverySubscribe => "0" | .OnNewSubscribe => "1" | .Never => "2")) fs
  | .suback id pr cs => s!"suback {id} {sProps pr} {sList subCodeName cs}"
  | .unsubscribe id pr ts => s!"unsubscribe {id} {sProps pr} {sList shortHex ts}"
  | .unsuback id pr rs => s!"unsuback {id} {sProps pr} {sList nameOf rs}"
  | .pingreq => "pingreq"
  | .pingresp => "pingresp"
  | .disconnect r pr => s!"disconnect {nameOf r} {sProps pr}"

/-! ### the four copies -/

structure CopyId where
  v5 : Bool
  k : Copy

def pCopy : String → Option CopyId
  | "c4" => some ⟨false, .client⟩ | "b4" => some ⟨false, .broker⟩
  | "c5" => some ⟨true, .client⟩ | "b5" => some ⟨true, .broker⟩
  | _ => none

def CopyId.other (c : CopyId) : CopyId :=
  ⟨c.v5, match c.k with | .client => .broker | .broker => .client⟩

def normO (spec : V5.PropSpec) : Option Props → Option Props
  | none => none
  | some ps => some (V5.normalize spec ps)

/-- bring every property list into the order of the struct's writer (the harness prints the fields
    in declaration order; the model represents a struct by the writer-order list) -/
def normPacket : Packet → Packet
  | .connect lv ka cid cl pr w l =>
    .connect lv ka cid cl (normO V5.connectSpec pr)
      (match w with | none => none | some w => some { w with props := normO V5.willSpec w.props }) l
  | .connack sp c pr => .connack sp c (normO V5.connackSpec pr)
  | .publish d q r t id pl pr => .publish d q r t id pl (normO V5.publishSpec pr)
  | .puback id r pr => .puback id r (normO V5.ackSpec pr)
  | .pubrec id r pr => .pubrec id r (normO V5.ackSpec pr)
  | .pubrel id r pr => .pubrel id r (normO V5.ackSpec pr)
  | .pubcomp id r pr => .pubcomp id r (normO V5.ackSpec pr)
  | .subscribe id pr fs => .subscribe id (normO V5.subscribeSpec pr) fs
  | .suback id pr cs => .suback id (normO V5.ackSpec pr) cs
  | .unsubscribe id pr ts => .unsubscribe id (normO V5.unsubscribeSpec pr) ts
  | .unsuback id pr rs => .unsuback id (normO V5.ackSpec pr) rs
  | .disconnect r pr => .disconnect r (normO V5.disconnectSpec pr)
  | p => p

def mRepresentable (c : CopyId) (p : Packet) : Bool :=
  if c.v5 then V5.representable c.k p else V4.representable c.k p

def mEncodeRet (c : CopyId) (p : Packet) : Except Err (Bytes × Nat) :=
  if c.v5 then V5.encodeRet c.k p
  else
    match V4.encode c.k p, V4.writeReturn c.k p with
    | .ok bs, .ok n => .ok (bs, n)
    | .error e, _ => .error e
    | _, .error e => .error e

def mSize (c : CopyId) (p : Packet) : Nat := if c.v5 then V5.size c.k p else V4.size c.k p

def maxSize : Nat := 1073741824

def mDecode (c : CopyId) (bs : Bytes) : DecodeResult :=
  if c.v5 then V5.decode c.k maxSize bs else V4.decode c.k maxSize bs

/-- well-formed in the sense of the property text (monitor precondition) -/
def mWfSpec (c : CopyId) (p : Packet) : Bool := if c.v5 then V5.wf c.k p else V4.wf c.k p

def mToOther (c : CopyId) (p : Packet) : Packet :=
  match c.v5, c.k with
  | false, .client => V4.toBroker p
  | false, .broker => V4.toClient p
  | true, .client => V5.toBroker p
  | true, .broker => V5.toClient p

def trailer : Bytes := [0xC0, 0x00]

/-! ### implementation outputs -/

inductive EncOut | unrep | err | panic | ok (ret : Nat) (bytes : Bytes)
inductive DecOut | skipped | err | panic | ok (consumed : Nat) (p : Packet)
  deriving DecidableEq

def sDecOut : DecOut → String
  | .skipped => "-" | .err => "E" | .panic => "P" | .ok c p => s!"{c} {sPacket p}"

def pEncOut (s : String) : Option EncOut :=
  if s == "U" then some .unrep else if s == "E" then some .err else if s == "P" then some .panic
  else if s.startsWith "W" then
    match ((s.drop 1).toString).splitOn ":" with
    | [n, h] => do some (.ok (← n.toNat?) (← unhex h))
    | _ => none
  else none

/-- `D<consumed> <packet|=>` | `DE` | `DP` | `D-` (first letter already removed) -/
def pDecOut (input : Option Packet) (s : String) : Option DecOut :=
  if s == "-" then some .skipped else if s == "E" then some .err else if s == "P" then some .panic
  else
    match (s.splitOn " ").filter (· ≠ "") with
    | n :: rest => do
      let c ← n.toNat?
      if rest == ["="] then
        match input with
        | some p => some (.ok c p)
        | none => none
      else some (.ok c (normPacket (← pPacket rest)))
    | [] => none

def modelDec (c : CopyId) (bytes : Bytes) : DecOut :=
  let input := bytes ++ trailer
  match mDecode c input with
  | .packet p rest => .ok (input.length - rest.length) p
  | .error .panic => .panic
  | .error _ => .err

def sEnc : Except Err (Bytes × Nat) → String
  | .ok (bs, n) => s!"W{n}:{shortHex bs}"
  | .error .panic => "P"
  | .error _ => "E"

/-- property monitor on the implementation's outputs for one packet value of copy `c` -/
def monitor (c : CopyId) (p : Packet) (enc : EncOut) (size : Option Nat) (self cross : DecOut) :
    Option (String × String) :=
  if !mWfSpec c p then none else
  match enc with
  | .unrep => none
  | .panic => some ("encode-panic", "well-formed packet, encoder panicked")
  | .err => some ("encode-rejected", "well-formed packet, encoder returned Err")
  | .ok ret bytes =>
    let n := bytes.length
    if ret ≠ n then some ("write-return-mismatch", s!"returned={ret} written={n}")
    else if (match size with | some z => z != n | none => false) then
      some ("size-mismatch", s!"size={size.getD 0} written={n}")
    else
      match self with
      | .panic => some ("decode-panic", "decoder of the same copy panicked on its own output")
      | .err => some ("decode-failed", "decoder of the same copy rejected its own output")
      | .skipped => some ("decode-missing", "no decode result")
      | .ok cons q =>
        if q ≠ p then some ("roundtrip-mismatch", s!"decoded={sPacket q}")
        else if cons ≠ n then some ("consumed-mismatch", s!"consumed={cons} written={n}")
        else
          let o := c.other
          let po := mToOther c p
          if !mWfSpec o po then none else
          match cross with
          | .panic => some ("interop-panic", "the other crate's decoder panicked")
          | .err => some ("interop-decode-failed", "the other crate's decoder rejected the bytes")
          | .skipped => some ("interop-missing", "no cross decode result")
          | .ok cons' q' =>
            if q' ≠ po then some ("interop-mismatch", s!"decoded={sPacket q'}")
            else if cons' ≠ n then some ("interop-consumed-mismatch", s!"consumed={cons'} written={n}")
            else none

/-- how a packet line relates to the theorems' precondition (coverage accounting) -/
def wfClass (c : CopyId) (p : Packet) : String :=
  let tag := (if c.v5 then "5" else "4")
  let tag := (match c.k with | .client => "c" | .broker => "b") ++ tag
  if !mWfSpec c p then s!"precondition/{tag}/outside-wf"
  else if mWfSpec c.other (mToOther c p) then s!"precondition/{tag}/wf-both-crates"
  else s!"precondition/{tag}/wf-this-copy-only"

def stepPacketV (wrong : Bool) (c : CopyId) (p : Packet) (out : String) : Verdict :=
    match out.splitOn "|" with
    | [encS] =>
      if encS == "U" then
        if mRepresentable c p then .bad "harness could not build a value the model calls representable"
        else .ok
      else .bad "unparsable output"
    | [encS, sizeS, selfS, crossS] =>
      match pEncOut encS, pDecOut (some p) ((selfS.drop 1).toString),
            pDecOut (some p) ((crossS.drop 1).toString) with
      | some enc, some self, some cross =>
        let size : Option Nat := ((sizeS.drop 1).toString).toNat?
        if !mRepresentable c p then .bad "model: value not representable in this copy" else
        match monitor c p enc size self cross with
        | some (tag, d) => .monitorFail tag d
        | none =>
          -- model vs implementation
          let menc := mEncodeRet c p
          let menc := if wrong then (match menc, p with
              | .ok (bs, n), .publish .. => .ok (bs, n + 1) | e, _ => e) else menc
          let encAgree : Bool :=
            match menc, enc with
            | .ok (bs, n), .ok ret bytes => bs == bytes && n == ret
            | .error .panic, .panic => true
            | .error .panic, _ => false
            | .error _, .err => true
            | _, _ => false
          if !encAgree then .diverge s!"enc={sEnc menc}" s!"enc={encS.take 120}" else
          if sizeS == "ZP" then .diverge "size=total" "size=panic" else
          if (match size with | some z => z != mSize c p | none => false) then
            .diverge s!"size={mSize c p}" s!"size={sizeS}" else
          match enc with
          | .ok _ bytes =>
            let mself := modelDec c bytes
            if mself ≠ self then .diverge s!"self={sDecOut mself}" s!"self={sDecOut self}" else
            let mcross := modelDec c.other bytes
            if mcross ≠ cross then .diverge s!"cross={sDecOut mcross}" s!"cross={sDecOut cross}"
            else .ok
          | _ => .ok
      | _, _, _ => .bad "unparsable output section"
    | _ => .bad "unparsable output"

def isConnect : Packet → Bool
  | .connect .. => true
  | _ => false

/-- fifth output section: the value written behind a non-empty buffer (the framing loops of both crates append
    reply after reply). The model's encoder is a function of the value alone, so anything but `A=` for a
    well-formed value breaks the tie. CONNECT is exempt: it is the first packet of a connection, written into an
    empty buffer, and the unchanged code patches its flags byte at an index counted from the start of the
    buffer (all four copies; recorded as an observation in DESIGN 11.4, not a violation of the C04 text). -/
def stepPacketA (wrong : Bool) (c : CopyId) (p : Packet) (out : String) : Verdict :=
  match out.splitOn "|" with
  | [encS, sizeS, selfS, crossS, appS] =>
    match stepPacketV wrong c p ("|".intercalate [encS, sizeS, selfS, crossS]) with
    | .ok =>
      if appS == "A=" || appS == "A-" || isConnect p || !mWfSpec c p then .ok
      else .monitorFail "append-differs" s!"written behind a non-empty buffer the encoder's output differs from the write into an empty buffer ({appS}: ! = other bytes / count / prefix overwritten, E = Err, P = panic)"
    | v => v
  | _ => stepPacketV wrong c p out

def stepPacket (wrong : Bool) (c : CopyId) (toks : List String) (out : String) : Verdict × String :=
  match pPacket toks with
  | none => (.bad "unparsable packet", "precondition/unparsable")
  | some p0 =>
    let p := normPacket p0
    (stepPacketA wrong c p out, wfClass c p)

def stepDec (c : CopyId) (h : String) (out : String) : Verdict :=
  match unhex h, pDecOut none ((out.drop 1).toString) with
  | some bytes, some impl =>
    let m := modelDec c bytes
    if m = impl then .ok else .diverge s!"dec={sDecOut m}" s!"dec={sDecOut impl}"
  | _, _ => .bad "unparsable dec line"

def bump (sig : String) : List (String × Nat) → Nat × List (String × Nat)
  | [] => (1, [(sig, 1)])
  | (s, n) :: rest =>
    if s == sig then (n + 1, (s, n + 1) :: rest)
    else
      match bump sig rest with
      | (m, rest') => (m, (s, n) :: rest')

/-- state = coverage counters (how many lines satisfied the theorems' precondition, per copy) -/
def handler (wrong : Bool) : Handler (List (String × Nat)) where
  init := []
  step := fun st op out =>
    match op with
    | ["dec", cs, h] =>
      (match pCopy cs with
       | some c => ((bump "precondition/dec-probe" st).2, stepDec c h out)
       | none => (st, .bad "unknown copy"))
    | cs :: toks =>
      (match pCopy cs with
       | some c =>
         match stepPacket wrong c toks out with
         | (v, cls) => ((bump cls st).2, v)
       | none => (st, .bad "unknown copy"))
    | [] => (st, .bad "empty op")

/-! ### run loop
Same line formats as `Driver.runHandler`, but the number of printed verdict lines is capped per
*signature* (verdict kind, tag, copy, packet kind) instead of globally: one defect typically
fails thousands of generated packets of one kind, which must not use up the report budget and
hide a different violation further down the stream. -/

def signature (kind tag : String) (op : List String) : String :=
  s!"{kind}/{tag}/{op.headD ""}/{(op.drop 1).headD ""}"

def perSignature : Nat := 4

partial def loopC (h : Handler (List (String × Nat))) (inp : IO.FS.Stream) (st : List (String × Nat))
    (t : Totals) (seen : List (String × Nat)) :
    IO (Totals × List (String × Nat) × List (String × Nat)) := do
  let line ← inp.getLine
  if line.isEmpty then return (t, seen, st)
  let (op, out) := splitLine line
  match op with
  | [] => loopC h inp st t seen
  | _ =>
    let (st, v) := h.step st op out
    let t := { t with lines := t.lines + 1 }
    let opS := " ".intercalate op   -- complete: ./check cuts the replay op list out of this line
    let outS := if out.length > 600 then (out.take 600).toString ++ "…" else out
    match v with
    | .ok => loopC h inp st t seen
    | .diverge m i =>
      let (n, seen) := bump (signature "diverge" ((m.splitOn "=").headD "") op) seen
      if n ≤ perSignature then
        IO.println s!"diverge case=- line={t.lines} op={opS} model={m} impl={i}"
      loopC h inp st { t with diverge := t.diverge + 1 } seen
    | .monitorFail tag d =>
      let (n, seen) := bump (signature "monitor-fail" tag op) seen
      if n ≤ perSignature then
        IO.println s!"monitor-fail case=- line={t.lines} tag={tag} op={opS} impl={outS} detail={d}"
      loopC h inp st { t with monitorFail := t.monitorFail + 1 } seen
    | .bad why =>
      let (n, seen) := bump (signature "bad" why op) seen
      if n ≤ perSignature then
        IO.println s!"bad-line case=- line={t.lines} op={opS} why={why}"
      loopC h inp st { t with bad := t.bad + 1 } seen

def run (wrong : Bool) : IO UInt32 := do
  let inp ← IO.getStdin
  let (t, seen, st) ← loopC (handler wrong) inp [] {} []
  for (s, n) in seen ++ st do
    IO.println s!"count {s} {n}"
  IO.println s!"summary lines={t.lines} cases={t.cases} diverge={t.diverge} monitor_fail={t.monitorFail} bad={t.bad}"
  return (if t.diverge + t.monitorFail + t.bad = 0 then 0 else 3)

end Driver.CodecD
