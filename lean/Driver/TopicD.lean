import Model.Topic
import Driver.Common
namespace Driver.TopicD
open Driver Topic

def b2s (b : Bool) : String := if b then "T" else "F"

/-- model output for the three copies (client v4, client v5, broker) -/
def modelOut (op : List String) (wrong : Bool) : Option String :=
  match op with
  | ["m", t, f] => do
    let t ← unhexStr t; let f ← unhexStr f
    let r := matchesImpl t.toList f.toList
    -- `wrong` = self-test variant: `+` also matches the empty remainder
    let r := if wrong && f.toList.getLast? = some '+' && t.isEmpty then !r else r
    some s!"{b2s r} {b2s r} {b2s r}"
  | ["vf", f] => do
    let f ← unhexStr f
    some s!"{b2s (validFilterC f.toList)} {b2s (validFilterC f.toList)} {b2s (validFilterB f.toList)}"
  | ["vt", t] => do
    let t ← unhexStr t
    let r := validTopic t.toList
    some s!"{b2s r} {b2s r} {b2s r}"
  | ["hw", t] => do
    let t ← unhexStr t
    let r := hasWildcards t.toList
    some s!"{b2s r} {b2s r} {b2s r}"
  | _ => none

/-- inputs on which the theorems pin the answer to the MQTT rules -/
def specDefined (op : List String) : Bool :=
  match op with
  | ["m", t, f] =>
    match unhexStr t, unhexStr f with
    | some t, some f => validTopic t.toList && validFilterB f.toList
    | _, _ => false
  | ["vf", _] => true
  | ["vt", _] => true
  | ["hw", _] => true
  | _ => false

def handler (wrong : Bool) : Handler Unit where
  init := ()
  step := fun _ op out =>
    -- monitor on the implementation output: never a panic (C12 "never panic on any string"),
    -- the three copies agree
    if out.contains 'P' then ((), .monitorFail "panic" "a copy panicked") else
    match out.splitOn " " with
    | [a, b, c] =>
      if a ≠ b || b ≠ c then ((), .monitorFail "copies-disagree" out) else
      match modelOut op wrong with
      | some m =>
        if m = out then ((), .ok)
        else if !wrong && specDefined op then
          -- the model is proved equal to the MQTT rules on these inputs (C12.matches_spec,
          -- validFilter_*_spec, validTopic_spec): a different answer is a wrong answer
          ((), .monitorFail "wrong-answer" s!"rules={m}")
        else ((), .diverge m out)
      | none => ((), .bad "unparsable op")
    | _ => ((), .bad "unparsable output")

end Driver.TopicD
