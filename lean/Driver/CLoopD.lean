/-
Driver handler `cloop`: replays the ops of `vh cloop` on the loop model (`Client.Loop` +
`Client.Timer`), compares every observation of the real `EventLoop` (virtual ms + packet seen on
the wire by the scripted broker, notification / error class returned by `poll()`, snapshot of
`pending.len()` / inflight / collision / await_pingresp, the `pending` list after an error) with
the model's prediction (`diverge`), and evaluates the C18 / loop monitors of
`Client.LoopSpec` on the IMPLEMENTATION's trace (`monitorFail`).

`MqttState` stand-in: `Mini` below is a small executable copy of the packet-id / window /
acknowledgement bookkeeping of rumqttc's `MqttState` (v4 and v5, as repaired: `clean()` returns
the stored publishes oldest-sent first (v4) / by id (v5), then the releases, then the parked
publish unnumbered; publishes released from the collision slot are stored), used ONLY to predict
the wire in the correspondence; no theorem depends on it (they hold for every `StateOps`). The
full state machine is `Model/Client/State.lean` (cstate slice).

Simultaneity: when two branches of `select!` are ready at the same virtual instant tokio picks
one at random. The model's `run` takes a priority order over {net, req, timer} as oracle; the
handler accepts the implementation's line if ANY of the six orders predicts it (and continues
from that order's state). This only matters for the `race` schedules (PINGRESP written at
exactly `t + k` before the loop is polled; requests queued while the transport is closed).
-/
import Model.Client.Timer
import Model.Client.Loop
import Model.Client.LoopSpec
import Driver.Common
namespace Driver.CLoopD
open Driver Client.Loop Client.LoopSpec
open Client.Timer (Ver TState)

/-! ### stand-in for `MqttState` -/

structure Pub where
  qos : Nat
  pkid : Nat
  tag : String
deriving Repr, BEq

structure Mini where
  ver : Ver := .v4
  lastPkid : Nat := 0
  lastPuback : Nat := 0
  inflight : Nat := 0
  /-- v4 `max_inflight`, v5 `max_outgoing_inflight` (after receive-maximum) -/
  maxInflight : Nat := 100
  /-- highest index of the id tables (v4 `max_inflight`, v5 the configured upper limit) -/
  size : Nat := 100
  outPub : List Pub := []
  outRel : List Nat := []
  inPub : List Nat := []
  collision : Option Pub := none
  collisionPings : Nat := 0
  manualAcks : Bool := false
  /-- self-test variant: window check off by one -/
  wrong : Bool := false
deriving Repr

def Mini.nextPkid (m : Mini) : Mini × Nat :=
  match m.ver with
  | .v4 =>
    let n := m.lastPkid + 1
    if n == m.maxInflight then ({ m with lastPkid := 0 }, n) else ({ m with lastPkid := n }, n)
  | .v5 =>
    -- wraps with `>=` (the receive maximum may have been lowered below `last_pkid`)
    let last := if m.lastPkid ≥ m.maxInflight then 0 else m.lastPkid
    let n := last + 1
    if n ≥ m.maxInflight then ({ m with lastPkid := 0 }, n) else ({ m with lastPkid := n }, n)

def insertSorted (x : Nat) : List Nat → List Nat
  | [] => [x]
  | y :: ys => if x < y then x :: y :: ys else if x == y then y :: ys else y :: insertSorted x ys

def Mini.handleOutgoing (m : Mini) (r : Req) : Res Mini :=
  match r with
  | .publish q pkid tag =>
    if q == 0 then
      { st := m, events := [.outgoing (.publish pkid)], out := some (.publish 0 pkid false tag) }
    else
      let (m1, id) := if pkid == 0 then m.nextPkid else (m, pkid)
      if id > m1.size then { st := m1, err := some .unsolicited }
      -- an id is occupied by a stored publish or by a release that awaits its PUBCOMP
      else if m1.outPub.any (·.pkid == id) || m1.outRel.contains id then
        { st := { m1 with collision := some ⟨q, id, tag⟩ }, events := [.outgoing (.awaitAck id)] }
      else
        { st := { m1 with outPub := m1.outPub ++ [⟨q, id, tag⟩], inflight := m1.inflight + 1 },
          events := [.outgoing (.publish id)], out := some (.publish q id false tag) }
  | .pubrel pkid =>
    let (m1, id) := if pkid == 0 then m.nextPkid else (m, pkid)
    { st := { m1 with outRel := insertSorted id m1.outRel, inflight := m1.inflight + 1 },
      events := [.outgoing (.pubrel id)], out := some (.pubrel id) }
  | .puback id => { st := m, events := [.outgoing (.puback id)], out := some (.puback id) }
  | .pubrec id => { st := m, events := [.outgoing (.pubrec id)], out := some (.pubrec id) }
  | .subscribe =>
    let (m1, id) := m.nextPkid
    { st := m1, events := [.outgoing (.subscribe id)], out := some (.subscribe id) }
  | .unsubscribe =>
    let (m1, id) := m.nextPkid
    { st := m1, events := [.outgoing (.unsubscribe id)], out := some (.unsubscribe id) }
  | .disconnect => { st := m, events := [.outgoing .disconnect], out := some .disconnect }

def Mini.takeCollision (m : Mini) (id : Nat) : Option Pub :=
  match m.collision with
  | some p => if p.pkid == id then some p else none
  | none => none

def Mini.handleIncoming (m : Mini) (p : Pkt) : Res Mini :=
  let ev : List Event := [.incoming p]
  match p with
  | .pingresp => { st := m, events := ev }
  | .suback _ => { st := m, events := ev }
  | .unsuback _ => { st := m, events := ev }
  | .connack _ _ =>
    match m.ver with
    | .v5 => { st := m, events := ev }
    | .v4 => { st := m, events := ev, err := some .wrongPacket }
  | .publish q id _ _ =>
    if q == 0 then { st := m, events := ev }
    else if q == 1 then
      if m.manualAcks then { st := m, events := ev }
      else { st := m, events := ev ++ [.outgoing (.puback id)], out := some (.puback id) }
    else
      let m1 := { m with inPub := insertSorted id m.inPub }
      if m.manualAcks then { st := m1, events := ev }
      else { st := m1, events := ev ++ [.outgoing (.pubrec id)], out := some (.pubrec id) }
  | .puback id =>
    if id > m.size then { st := m, events := ev, err := some .unsolicited } else
    let m0 := match m.ver with
      | .v4 => { m with lastPuback := id }
      | .v5 => m
    if !(m0.outPub.any (·.pkid == id)) then { st := m0, events := ev, err := some .unsolicited } else
    let m1 := { m0 with outPub := m0.outPub.filter (·.pkid != id), inflight := m0.inflight - 1 }
    match m1.takeCollision id with
    | some c =>
      { st := { m1 with collision := none, outPub := m1.outPub ++ [c], inflight := m1.inflight + 1, collisionPings := 0 },
        events := ev ++ [.outgoing (.publish id)], out := some (.publish c.qos id false c.tag) }
    | none => { st := m1, events := ev }
  | .pubrec id =>
    if id > m.size then { st := m, events := ev, err := some .unsolicited } else
    if !(m.outPub.any (·.pkid == id)) then { st := m, events := ev, err := some .unsolicited } else
    { st := { m with outPub := m.outPub.filter (·.pkid != id), outRel := insertSorted id m.outRel },
      events := ev ++ [.outgoing (.pubrel id)], out := some (.pubrel id) }
  | .pubrel id =>
    if !(m.inPub.contains id) then { st := m, events := ev, err := some .unsolicited } else
    { st := { m with inPub := m.inPub.filter (· != id) },
      events := ev ++ [.outgoing (.pubcomp id)], out := some (.pubcomp id) }
  | .pubcomp id =>
    -- both versions: unsolicited check first; a publish released from the collision slot is
    -- stored and counted like one released by PUBACK
    if !(m.outRel.contains id) then { st := m, events := ev, err := some .unsolicited } else
    let m1 := { m with outRel := m.outRel.filter (· != id), inflight := m.inflight - 1 }
    match m1.takeCollision id with
    | some c =>
      { st := { m1 with collision := none, outPub := m1.outPub ++ [c], inflight := m1.inflight + 1, collisionPings := 0 },
        events := ev ++ [.outgoing (.publish id)], out := some (.publish c.qos id false c.tag) }
    | none => { st := m1, events := ev }
  | .disconnect =>
    match m.ver with
    | .v5 => { st := m, events := ev, err := some (.other "serverdisconnect") }
    | .v4 => { st := m, events := ev, err := some .wrongPacket }
  | _ => { st := m, events := ev, err := some .wrongPacket }

def Mini.pingPre (m : Mini) : Mini × Option Err :=
  if m.collision.isSome then
    let m1 := { m with collisionPings := m.collisionPings + 1 }
    if m1.collisionPings ≥ 2 then (m1, some .collisionTimeout) else (m1, none)
  else (m, none)

def sortPubs (ps : List Pub) : List Pub :=
  let ids := ps.foldl (fun acc p => insertSorted p.pkid acc) []
  ids.filterMap (fun i => ps.find? (·.pkid == i))

def Mini.clean (m : Mini) : Mini × List Req :=
  -- v4: oldest-sent first (`outgoing_order` stamps; `outPub` is kept in the order of storing, which
  -- is the order of the stamps); v5: by packet id. Then the pending releases, then — last and
  -- unnumbered — the publish parked on a collision, whose slot is emptied.
  let ordered : List Pub := match m.ver with
    | .v4 => m.outPub
    | .v5 => sortPubs m.outPub
  let parked : List Req := match m.collision with
    | some c => [Req.publish c.qos 0 c.tag]
    | none => []
  let reqs := ordered.map (fun (p : Pub) => Req.publish p.qos p.pkid p.tag) ++ m.outRel.map Req.pubrel ++ parked
  ({ m with outPub := [], outRel := [], inPub := [], inflight := 0, collisionPings := 0, collision := none }, reqs)

def miniOps : StateOps Mini where
  handleOutgoing := Mini.handleOutgoing
  handleIncoming := Mini.handleIncoming
  pingPre := Mini.pingPre
  clean := Mini.clean
  inflight := fun m => m.inflight
  maxInflight := fun m => if m.wrong then m.maxInflight + 1 else m.maxInflight
  collision := fun m => m.collision.isSome

/-! ### printing (must match harness/src/cloop.rs) -/

def b01 (b : Bool) : String := if b then "1" else "0"

def showPkt : Pkt → String
  | .connect k c => s!"connect({k},{b01 c})"
  | .connack sp code => s!"connack({b01 sp},{code})"
  | .publish q id dup tag => s!"publish({q},{id},{b01 dup},{tag})"
  | .puback id => s!"puback({id})"
  | .pubrec id => s!"pubrec({id})"
  | .pubrel id => s!"pubrel({id})"
  | .pubcomp id => s!"pubcomp({id})"
  | .subscribe id => s!"subscribe({id})"
  | .suback id => s!"suback({id})"
  | .unsubscribe id => s!"unsubscribe({id})"
  | .unsuback id => s!"unsuback({id})"
  | .pingreq => "pingreq"
  | .pingresp => "pingresp"
  | .disconnect => "disconnect"

def showOut : OutKind → String
  | .publish id => s!"publish({id})"
  | .subscribe id => s!"subscribe({id})"
  | .unsubscribe id => s!"unsubscribe({id})"
  | .puback id => s!"puback({id})"
  | .pubrec id => s!"pubrec({id})"
  | .pubrel id => s!"pubrel({id})"
  | .pubcomp id => s!"pubcomp({id})"
  | .pingreq => "pingreq"
  | .pingresp => "pingresp"
  | .disconnect => "disconnect"
  | .awaitAck id => s!"awaitack({id})"

def showEvent : Event → String
  | .incoming p => "in:" ++ showPkt p
  | .outgoing o => "out:" ++ showOut o

def showErr : Err → String
  | .awaitPingResp => "awaitpingresp"
  | .collisionTimeout => "collisiontimeout"
  | .unsolicited => "unsolicited"
  | .wrongPacket => "wrongpacket"
  | .emptySub => "emptysub"
  | .aborted => "aborted"
  | .deser => "deser"
  | .timeout => "timeout"
  | .ioRefused => "io-connectionrefused"
  | .refused c => s!"refused({c})"
  | .notConnAck => "notconnack"
  | .other n => n

/-! ### parsing -/

def kvOf (toks : List String) (k : String) : Option String :=
  toks.findSome? fun t => if t.startsWith (k ++ "=") then some (t.drop (k.length + 1)).toString else none

def kvNat (toks : List String) (k : String) (d : Nat) : Nat :=
  match kvOf toks k with
  | some v => v.toNat?.getD d
  | none => d

/-- `name(a,b,c)` → (name, [a,b,c]) -/
def splitCall (s : String) : String × List String :=
  match s.splitOn "(" with
  | [n] => (n, [])
  | n :: rest =>
    let inner := "(".intercalate rest
    let inner := if inner.endsWith ")" then (inner.dropEnd 1).toString else inner
    (n, inner.splitOn ",")
  | [] => ("", [])

def natArg (as : List String) (i : Nat) : Nat := (as[i]?.bind (·.toNat?)).getD 0

def parsePkt (s : String) : Option Pkt :=
  let (n, as) := splitCall s
  match n with
  | "connect" => some (.connect (natArg as 0) (natArg as 1 == 1))
  | "connack" => some (.connack (natArg as 0 == 1) (natArg as 1))
  | "publish" => some (.publish (natArg as 0) (natArg as 1) (natArg as 2 == 1) (as[3]?.getD ""))
  | "puback" => some (.puback (natArg as 0))
  | "pubrec" => some (.pubrec (natArg as 0))
  | "pubrel" => some (.pubrel (natArg as 0))
  | "pubcomp" => some (.pubcomp (natArg as 0))
  | "subscribe" => some (.subscribe (natArg as 0))
  | "suback" => some (.suback (natArg as 0))
  | "unsubscribe" => some (.unsubscribe (natArg as 0))
  | "unsuback" => some (.unsuback (natArg as 0))
  | "pingreq" => some .pingreq
  | "pingresp" => some .pingresp
  | "disconnect" => some .disconnect
  | _ => none

def parseOut (s : String) : Option OutKind :=
  let (n, as) := splitCall s
  match n with
  | "publish" => some (.publish (natArg as 0))
  | "subscribe" => some (.subscribe (natArg as 0))
  | "unsubscribe" => some (.unsubscribe (natArg as 0))
  | "puback" => some (.puback (natArg as 0))
  | "pubrec" => some (.pubrec (natArg as 0))
  | "pubrel" => some (.pubrel (natArg as 0))
  | "pubcomp" => some (.pubcomp (natArg as 0))
  | "pingreq" => some .pingreq
  | "pingresp" => some .pingresp
  | "disconnect" => some .disconnect
  | "awaitack" => some (.awaitAck (natArg as 0))
  | _ => none

def parseReqShown (s : String) : Option Req :=
  let (n, as) := splitCall s
  match n with
  | "publish" => some (.publish (natArg as 0) (natArg as 1) (as[2]?.getD ""))
  | "pubrel" => some (.pubrel (natArg as 0))
  | "puback" => some (.puback (natArg as 0))
  | "pubrec" => some (.pubrec (natArg as 0))
  | "subscribe" => some .subscribe
  | "unsubscribe" => some .unsubscribe
  | "disconnect" => some .disconnect
  | _ => none

def parseErr (s : String) : Err :=
  match s with
  | "awaitpingresp" => .awaitPingResp
  | "collisiontimeout" => .collisionTimeout
  | "unsolicited" => .unsolicited
  | "wrongpacket" => .wrongPacket
  | "emptysub" => .emptySub
  | "aborted" => .aborted
  | "deser" => .deser
  | "timeout" => .timeout
  | "io-connectionrefused" => .ioRefused
  | "notconnack" => .notConnAck
  | _ =>
    let (n, as) := splitCall s
    if n == "refused" then .refused (natArg as 0) else .other s

/-- packet written by the scripted broker: `in <kind> …` tokens -/
def parseBrokerPkt (t : List String) : Option (Pkt × Option Nat) :=
  match t with
  | "connack" :: rest =>
    some (.connack (kvOf rest "sp" == some "1") (kvNat rest "code" 0), (kvOf rest "ska").bind (·.toNat?))
  | ["pingresp"] => some (.pingresp, none)
  | ["puback", id] => some (.puback (id.toNat?.getD 0), none)
  | ["pubrec", id] => some (.pubrec (id.toNat?.getD 0), none)
  | ["pubrel", id] => some (.pubrel (id.toNat?.getD 0), none)
  | ["pubcomp", id] => some (.pubcomp (id.toNat?.getD 0), none)
  | ["suback", id] => some (.suback (id.toNat?.getD 0), none)
  | ["unsuback", id] => some (.unsuback (id.toNat?.getD 0), none)
  | "publish" :: q :: id :: rest =>
    -- a QoS 0 publish carries no packet id on the wire
    let q := q.toNat?.getD 0
    some (.publish q (if q == 0 then 0 else id.toNat?.getD 0) false (rest.headD "x"), none)
  | ["pingreq"] => some (.pingreq, none)
  | ["disconnect"] => some (.disconnect, none)
  | _ => none

def parseUserReq (t : List String) : Option Req :=
  match t with
  | ["pub", q, tag] => some (.publish (q.toNat?.getD 0) 0 tag)
  | ["sub", _] => some .subscribe
  | ["unsub"] => some .unsubscribe
  | ["disc"] => some .disconnect
  | ["ack", q, id] => if q == "1" then some (.puback (id.toNat?.getD 0)) else if q == "2" then some (.pubrec (id.toNat?.getD 0)) else none
  | _ => none

/-! ### the model of a session -/

structure DState where
  started : Bool := false
  ls : LState Mini := { ver := .v4, st := {}, timer := Client.Timer.idle .v4 0 0 }
  ct : Nat := 5000
  thr : Nat := 0
  cap : Nat := 10
  cleanFlag : Bool := false
  /-- transports queued through the hook, `true` = a duplex, `false` = refusal -/
  xports : List Bool := []
  /-- connection attempt in progress since (CONNECT written) -/
  attempt : Option Nat := none
  /-- what the broker wrote on the transport of the attempt in progress -/
  cnet : Net := {}
  cska : Option Nat := none
  crmax : Option Nat := none
  /-- the broker's end of the current transport is open (it will see the client's EOF) -/
  brokerOpen : Bool := false
  /-- the throttle sleep of `next_request` runs from this instant -/
  throttleFrom : Nat := 0
  mon : MonState := {}
  /-- the model lost track of the implementation in this case: compare nothing further -/
  lost : Bool := false

def DState.now (d : DState) : Nat := d.ls.timer.now
def DState.setNow (d : DState) (t : Nat) : DState :=
  { d with ls := { d.ls with timer := { d.ls.timer with now := t } } }

def snapStr (d : DState) (withList : Bool) : String :=
  let base := s!"{d.now}:s:{d.ls.pending.length}/{miniOps.inflight d.ls.st}/{b01 (d.ls.st.collision.isSome)}/{b01 d.ls.timer.awaitPingresp}"
  if withList then d.ls.pending.foldl (fun acc r => acc ++ "/" ++ showReq r) base else base

/-- render the observations of one `poll()`; `.dropped` shows as `w:eof` while the broker still
    holds its end -/
def renderObs (d0 d : DState) (obs : List Obs) : List String × Bool × Bool :=
  -- returns (tokens, error seen, broker end still open)
  let t := d.now
  obs.foldl (fun (acc : List String × Bool × Bool) o =>
    match o with
    | .wire p => (acc.1 ++ [s!"{t}:w:{showPkt p}"], acc.2.1, acc.2.2)
    | .event e => (acc.1 ++ [s!"{t}:e:{showEvent e}"], acc.2.1, acc.2.2)
    | .error e => (acc.1 ++ [s!"{t}:x:{showErr e}"], true, acc.2.2)
    | .dropped => if acc.2.2 then (acc.1 ++ [s!"{t}:w:eof"], acc.2.1, false) else acc)
    ([], false, d0.brokerOpen)

/-- which branches of `select!` are ready now -/
def readyBranches (d : DState) : List Branch :=
  match d.ls.net with
  | none => []
  | some n =>
    (if netReady n then [Branch.net] else []) ++
    (if selectEnabled miniOps d.ls &&
        ((!d.ls.pending.isEmpty && decide (d.throttleFrom + d.thr ≤ d.now)) ||
         (d.ls.pending.isEmpty && !d.ls.channel.isEmpty)) then [Branch.req] else []) ++
    (if Client.Timer.due d.ls.timer then [Branch.timer] else [])

/-- next instant at which something inside the loop becomes ready by itself -/
def nextWake (d : DState) : Option Nat :=
  let t1 := if Client.Timer.armed d.ls.timer.ver d.ls.timer.keepAlive && d.ls.timer.connected then d.ls.timer.deadline else none
  let t2 := if d.ls.net.isSome && !d.ls.pending.isEmpty && selectEnabled miniOps d.ls then some (d.throttleFrom + d.thr) else none
  match t1, t2 with
  | some a, some b => some (min a b)
  | some a, none => some a
  | none, some b => some b
  | none, none => none

def firstOf (prio : List Branch) (ready : List Branch) : Option Branch :=
  prio.find? (fun b => ready.contains b)

/-- the first packet of the broker in `mqtt_connect` -/
def firstInput (n : Net) : Option (First × Net) :=
  match n.rx with
  | .connack sp code :: rest => some (.connack sp code, { n with rx := rest })
  | _ :: rest => some (.otherPacket, { n with rx := rest })
  | [] => if n.peerClosed then some (if n.rxPartial then .garbage else .eof, n) else none

/-- `run until` on the model: observation tokens and new state -/
partial def runModel (prio : List Branch) (until_ : Nat) (d : DState) (acc : List String) (fuel : Nat) :
    DState × List String :=
  if fuel == 0 then (d, acc ++ [s!"{d.now}:livelock"]) else
  match d.ls.net with
  | none =>
    match d.attempt with
    | none =>
      match d.xports with
      | [] => (if d.now < until_ then d.setNow until_ else d, acc)   -- nobody polls: time just passes
      | false :: rest =>
        let d1 := { d with xports := rest }
        (d1, acc ++ [s!"{d.now}:x:io-connectionrefused", snapStr d1 true])
      | true :: rest =>
        let k := d.ls.timer.keepAlive / 1000
        let d1 := { d with xports := rest, attempt := some d.now, cnet := {}, cska := none, crmax := none, brokerOpen := true }
        runModel prio until_ d1 (acc ++ [s!"{d.now}:w:{showPkt (.connect k d.cleanFlag)}"]) (fuel - 1)
    | some a =>
      match firstInput d.cnet with
      | some (f, n) =>
        let st0 := match d.crmax, d.ls.ver, f with
          | some r, .v5, .connack _ 0 => { d.ls.st with maxInflight := min r d.ls.st.size }
          | _, _, _ => d.ls.st
        let (ls1, obs) := connectDone miniOps { d.ls with st := st0 } f d.cska n
        let d1 := { d with ls := ls1, attempt := none, throttleFrom := d.now }
        let (toks, err, bo) := renderObs d d1 obs
        let d2 := { d1 with brokerOpen := bo }
        if err then (d2, acc ++ toks ++ [snapStr d2 true])
        else runModel prio until_ d2 (acc ++ toks ++ [snapStr d2 false]) (fuel - 1)
      | none =>
        let dl := a + d.ct
        if dl ≤ until_ then
          let d1 := (d.setNow (max dl d.now))
          let d2 := { d1 with attempt := none, brokerOpen := false }
          (d2, acc ++ (if d.brokerOpen then [s!"{d1.now}:w:eof"] else []) ++ [s!"{d1.now}:x:timeout", snapStr d2 true])
        else (d.setNow (max until_ d.now), acc)
  | some _ =>
    if !d.ls.events.isEmpty then
      match pollConnected miniOps d.ls .net with
      | some (ls1, obs) =>
        let d1 := { d with ls := ls1 }
        let (toks, _, _) := renderObs d d1 obs
        runModel prio until_ d1 (acc ++ toks ++ [snapStr d1 false]) (fuel - 1)
      | none => (d, acc ++ ["model-stuck"])
    else
      match firstOf prio (readyBranches d) with
      | some b =>
        match pollConnected miniOps d.ls b with
        | some (ls1, obs) =>
          let d1 := { d with ls := ls1, throttleFrom := d.now }
          let (toks, err, bo) := renderObs d d1 obs
          let d2 := { d1 with brokerOpen := bo }
          if err then (d2, acc ++ toks ++ [snapStr d2 true])
          else runModel prio until_ d2 (acc ++ toks ++ [snapStr d2 false]) (fuel - 1)
        | none => (d, acc ++ ["model-stuck"])
      | none =>
        match nextWake d with
        | some w =>
          if w ≤ until_ && d.now < w then runModel prio until_ (d.setNow w) acc (fuel - 1)
          else (d.setNow (max until_ d.now), acc)
        | none => (d.setNow (max until_ d.now), acc)

def allPrios : List (List Branch) :=
  [[.net, .req, .timer], [.timer, .net, .req], [.req, .net, .timer],
   [.net, .timer, .req], [.req, .timer, .net], [.timer, .req, .net]]

/-! ### implementation trace → monitor items -/

def parseObsTok (tok : String) : List Item :=
  match tok.splitOn ":" with
  | t :: kind :: rest =>
    let t := t.toNat?.getD 0
    let body := ":".intercalate rest
    match kind with
    | "w" =>
      if body == "eof" then [.wireEof t]
      else match parsePkt body with
        | some p => [.wire t p]
        | none => []
    | "e" =>
      if body.startsWith "in:" then
        match parsePkt (body.drop 3).toString with
        | some p => [.event t (.incoming p)]
        | none => []
      else if body.startsWith "out:" then
        match parseOut (body.drop 4).toString with
        | some o => [.event t (.outgoing o)]
        | none => []
      else []
    | "s" =>
      match body.splitOn "/" with
      | p :: i :: c :: a :: _ => [.snap t (p.toNat?.getD 0) (i.toNat?.getD 0) (c == "1") (a == "1")]
      | _ => []
    | _ => []
  | _ => []

/-- error token + the snapshot that follows it → `Item.error` with the pending list -/
def obsToItems (toks : List String) : List Item :=
  let rec go : List String → List Item
    | [] => []
    | tok :: rest =>
      match tok.splitOn ":" with
      | t :: "x" :: cls =>
        let t := t.toNat?.getD 0
        let e := parseErr (":".intercalate cls)
        let pend : List Req := match rest with
          | s :: _ =>
            match s.splitOn ":" with
            | _ :: "s" :: body => ((":".intercalate body).splitOn "/").drop 4 |>.filterMap parseReqShown
            | _ => []
          | [] => []
        .error t e pend :: go rest
      | _ => parseObsTok tok ++ go rest
  go toks

def failsToVerdict (fs : Fails) : Option Verdict :=
  match fs with
  | [] => none
  | (tag, detail) :: more =>
    -- one verdict per line: the first failure gives the tag, the others are appended in full
    some (.monitorFail tag (detail ++ more.foldl (fun acc f => acc ++ s!" ;; also tag={f.1}: {f.2}") ""))

/-! ### the handler -/

def initState (toks : List String) (wrong : Bool) : DState :=
  let ver : Ver := if toks[1]? == some "v5" then .v5 else .v4
  let ka := kvNat toks "ka" 60
  -- the v5 setter rejects < 5 s: the harness then leaves the default of 60 s
  let kaMs := match ver with
    | .v5 => if ka < 5 then 60000 else ka * 1000
    | .v4 => ka * 1000
  let max := kvNat toks "max" 100
  let mini : Mini := { ver := ver, maxInflight := max, size := max, manualAcks := kvNat toks "ma" 0 == 1, wrong := wrong }
  { started := true
    ls := { ver := ver, st := mini, timer := Client.Timer.idle ver kaMs 0 }
    ct := kvNat toks "ct" 5 * 1000
    thr := kvNat toks "thr" 0
    cap := kvNat toks "cap" 10
    cleanFlag := kvNat toks "clean" 0 == 1
    mon := (monStep {} (.start ver kaMs (kvNat toks "ct" 5 * 1000) max)).1 }

def stepOp (wrong : Bool) (d : DState) (op : List String) (out : String) : DState × Verdict :=
  match op with
  | "new" :: _ =>
    let d1 := initState op wrong
    (d1, if out == "ok" then .ok else .bad s!"new => {out}")
  | ["xport", kind] =>
    ({ d with xports := d.xports ++ [kind == "ok"] }, if out == "ok" then .ok else .bad out)
  | ["wait", t] =>
    let t := t.toNat?.getD 0
    (d.setNow (max t d.now), if out == "ok" then .ok else .bad out)
  | "in" :: rest =>
    if out != "ok" then (d, .ok) else   -- no transport: nothing was written
    match parseBrokerPkt rest with
    | none => (d, .bad "unparsable broker packet")
    | some (p, ska) =>
      let rmax := (kvOf rest "rmax").bind (·.toNat?)
      let (mon, fs) := monStep d.mon (.brokerWrite d.now p ska)
      -- MQTT 5: a successful CONNACK's receive_maximum lowers the limit the gate monitor judges by
      let mon := match d.ls.ver, p, rmax with
        | .v5, .connack _ 0, some r => (monStep mon (.receiveMax r)).1
        | _, _, _ => mon
      let d := { d with mon := mon }
      let d := match d.ls.net with
        | some n => { d with ls := { d.ls with net := some { n with rx := n.rx ++ [p] } } }
        | none =>
          if d.attempt.isSome then
            { d with cnet := { d.cnet with rx := d.cnet.rx ++ [p] },
                     cska := if d.cska.isSome then d.cska else ska,
                     crmax := if d.crmax.isSome then d.crmax else rmax }
          else d
      (d, (failsToVerdict fs).getD .ok)
  | ["inraw", _] =>
    if out != "ok" then (d, .ok) else
    let d := match d.ls.net with
      | some n => { d with ls := { d.ls with net := some { n with rxPartial := true } } }
      | none => { d with cnet := { d.cnet with rxPartial := true } }
    (d, .ok)
  | ["close"] =>
    let (mon, _) := monStep d.mon (.brokerClose d.now)
    let d := { d with mon := mon, brokerOpen := false }
    let d := match d.ls.net with
      | some n => { d with ls := { d.ls with net := some { n with peerClosed := true } } }
      | none => { d with cnet := { d.cnet with peerClosed := true } }
    (d, .ok)
  | "req" :: rest =>
    match parseUserReq rest with
    | none => (d, .bad "unparsable request")
    | some r =>
      if out == "ok" then
        let (mon, _) := monStep d.mon (.userReq d.now r)
        ({ d with mon := mon, ls := { d.ls with channel := d.ls.channel ++ [r] } }, .ok)
      else (d, .ok)
  | ["run", u] =>
    let until_ := u.toNat?.getD 0
    let implToks := if out == "-" then [] else (out.splitOn " ").filter (· ≠ "")
    -- monitors on the implementation's observations
    let items := obsToItems implToks
    let endT := max until_ d.now
    let errored := implToks.any (fun t => (t.splitOn ":")[1]? == some "x")
    let items := if errored then items else items ++ [.runEnd endT]
    let (mon, fs) := monRun d.mon items
    -- model
    if d.lost then ({ d with mon := mon }, (failsToVerdict fs).getD .ok) else
    let cands := allPrios.map (fun pr => runModel pr until_ d [] 4000)
    let hit := cands.find? (fun c => c.2 == implToks)
    match hit with
    | some (d1, _) => ({ d1 with mon := mon }, (failsToVerdict fs).getD .ok)
    | none =>
      let (d1, toks) := cands.headD (d, [])
      let mstr := if toks.isEmpty then "-" else " ".intercalate toks
      -- a monitor failure on the line where model and implementation part ways: keep the fact of the
      -- divergence in the verdict (a property this run is attached to may not count the monitor's tag)
      let v : Verdict := match failsToVerdict fs with
        | some (.monitorFail t dt) => .monitorFail t (dt ++ " ;; also-diverged: model=" ++ mstr)
        | some v => v
        | none => .diverge mstr out
      ({ d1 with mon := mon, lost := true }, v)
  | _ => (d, .bad "unknown op")

def handler (wrong : Bool) : Handler DState where
  init := {}
  step := fun d op out =>
    if out.startsWith "PANIC" then (d, .monitorFail "impl-panic" out) else
    if out.startsWith "NONDET" then (d, .monitorFail "harness-nondeterministic" out) else
    stepOp wrong d op out

end Driver.CLoopD
