import Driver.Common
import Driver.TopicD
import Driver.RouterD
import Driver.CommitLogD
import Driver.FrameD
import Driver.CodecD
import Driver.CStateD
import Driver.CLoopD
import Driver.AdmitD
import Driver.StackD

def main (args : List String) : IO UInt32 := do
  match args with
  | ["topic"] => Driver.runHandler (Driver.TopicD.handler false)
  | ["topic", "--selftest-wrong"] => Driver.runHandler (Driver.TopicD.handler true)
  | ["frame"] => Driver.runHandler (Driver.FrameD.handler false)
  | ["frame", "--selftest-wrong"] => Driver.runHandler (Driver.FrameD.handler true)
  | ["codec"] => Driver.CodecD.run false
  | ["codec", "--selftest-wrong"] => Driver.CodecD.run true
  | ["cstate"] => Driver.CStateD.run false Driver.CStateD.allFocus
  | ["cstate", "--selftest-wrong"] => Driver.CStateD.run true Driver.CStateD.allFocus
  | ["cstate-C07"] => Driver.CStateD.run false ["C07"]
  | ["cstate-C02"] => Driver.CStateD.run false ["C02"]
  | ["cstate-C10"] => Driver.CStateD.run false ["C10"]
  | ["cstate-C11"] => Driver.CStateD.run false ["C11"]
  | ["cstate-C18"] => Driver.CStateD.run false ["C18"]
  | ["cstate-C07", "--selftest-wrong"] => Driver.CStateD.run true ["C07"]
  | ["cstate-C02", "--selftest-wrong"] => Driver.CStateD.run true ["C02"]
  | ["cstate-C10", "--selftest-wrong"] => Driver.CStateD.run true ["C10"]
  | ["cstate-C11", "--selftest-wrong"] => Driver.CStateD.run true ["C11"]
  | ["cloop"] => Driver.runHandler (Driver.CLoopD.handler false)
  | ["cloop", "--selftest-wrong"] => Driver.runHandler (Driver.CLoopD.handler true)
  | ["stack"] => Driver.runHandler (Driver.StackD.handler "" false)
  | ["stack", prop] => Driver.runHandler (Driver.StackD.handler prop false)
  | ["stack", prop, "--selftest-wrong"] => Driver.runHandler (Driver.StackD.handler prop true)
  | ["admit"] => Driver.runHandler (Driver.AdmitD.handler false)
  | ["admit", "--selftest-wrong"] => Driver.runHandler (Driver.AdmitD.handler true)
  | ["clog"] => Driver.runHandler (Driver.CommitLogD.handler false)
  | ["clog", "--selftest-wrong"] => Driver.runHandler (Driver.CommitLogD.handler true)
  | ["router", prop] => Driver.runHandler (Driver.RouterD.handler prop false)
  | ["router", prop, "--selftest-wrong"] => Driver.runHandler (Driver.RouterD.handler prop true)
  | _ =>
    IO.eprintln "usage: mdriver <topic|...> [--selftest-wrong] < lines"
    return 2
