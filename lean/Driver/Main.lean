import Driver.Common
import Driver.TopicD

def main (args : List String) : IO UInt32 := do
  match args with
  | ["topic"] => Driver.runHandler (Driver.TopicD.handler false)
  | ["topic", "--selftest-wrong"] => Driver.runHandler (Driver.TopicD.handler true)
  | _ =>
    IO.eprintln "usage: mdriver <topic|...> [--selftest-wrong] < lines"
    return 2
