import Driver.Common
import Driver.TopicD
import Driver.RouterD
import Driver.CommitLogD

def main (args : List String) : IO UInt32 := do
  match args with
  | ["topic"] => Driver.runHandler (Driver.TopicD.handler false)
  | ["topic", "--selftest-wrong"] => Driver.runHandler (Driver.TopicD.handler true)
  | ["clog"] => Driver.runHandler (Driver.CommitLogD.handler false)
  | ["clog", "--selftest-wrong"] => Driver.runHandler (Driver.CommitLogD.handler true)
  | ["router", prop] => Driver.runHandler (Driver.RouterD.handler prop false)
  | ["router", prop, "--selftest-wrong"] => Driver.runHandler (Driver.RouterD.handler prop true)
  | _ =>
    IO.eprintln "usage: mdriver <topic|...> [--selftest-wrong] < lines"
    return 2
