import Driver.Common
import Driver.TopicD
import Driver.RouterD
import Driver.CommitLogD
import Driver.FrameD
import Driver.CodecD

def main (args : List String) : IO UInt32 := do
  match args with
  | ["topic"] => Driver.runHandler (Driver.TopicD.handler false)
  | ["topic", "--selftest-wrong"] => Driver.runHandler (Driver.TopicD.handler true)
  | ["frame"] => Driver.runHandler (Driver.FrameD.handler false)
  | ["frame", "--selftest-wrong"] => Driver.runHandler (Driver.FrameD.handler true)
  | ["codec"] => Driver.CodecD.run false
  | ["codec", "--selftest-wrong"] => Driver.CodecD.run true
  | ["clog"] => Driver.runHandler (Driver.CommitLogD.handler false)
  | ["clog", "--selftest-wrong"] => Driver.runHandler (Driver.CommitLogD.handler true)
  | ["router", prop] => Driver.runHandler (Driver.RouterD.handler prop false)
  | ["router", prop, "--selftest-wrong"] => Driver.runHandler (Driver.RouterD.handler prop true)
  | _ =>
    IO.eprintln "usage: mdriver <topic|...> [--selftest-wrong] < lines"
    return 2
