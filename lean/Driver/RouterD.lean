import Model.Router.Step
import Model.Router.Monitors
import Driver.Common
namespace Driver.RouterD
open Driver Router

def nat? (s : String) : Option Nat := s.toNat?

def optNat? (s : String) : Option (Option Nat) := if s = "-" then some none else (s.toNat?).map some

def parsePacket (t : List String) : Option Packet :=
  match t with
  | ["pub", q, id, r, d, topic, payload, alias, sid, props] => do
    let q ← nat? q; let id ← nat? id
    let topic ← unhex topic; let payload ← unhex payload
    let alias ← optNat? alias; let sid ← optNat? sid
    let has := props = "1" || alias.isSome || sid.isSome
    some (.publish { qos := q, pkid := id, retain := r = "1", dup := d = "1", topic, payload,
                     alias, subIds := sid.toList, hasProps := has })
  | "sub" :: pkid :: sid :: n :: rest => do
    let pkid ← nat? pkid; let sid ← optNat? sid; let n ← nat? n
    let rec go : Nat → List String → List SubFilter → Option (List SubFilter)
      | 0, _, acc => some acc.reverse
      | k + 1, f :: q :: r, acc => do
        let f ← unhexStr f; let q ← nat? q
        go k r ({ path := f, qos := q } :: acc)
      | _, _, _ => none
    let fs ← go n rest []
    some (.subscribe pkid sid fs)
  | "unsub" :: pkid :: _n :: rest => do
    let pkid ← nat? pkid
    let fs ← rest.mapM unhexStr
    some (.unsubscribe pkid fs)
  | ["puback", p] => (nat? p).map .puback
  | ["pubrec", p] => (nat? p).map .pubrec
  | ["pubrel", p] => (nat? p).map (.pubrel · false)
  | ["pubrelp", p] => (nat? p).map (.pubrel · true)
  | ["pubcomp", p] => (nat? p).map .pubcomp
  | ["ping"] => some .pingreq
  | ["disc"] => some .disconnect
  | ["pingresp"] => some .other
  | ["connack"] => some .other
  | ["connectpkt"] => some .other
  | ["suback", _] => some .other
  | ["unsuback", _] => some .other
  | _ => none

def parseStrategy (s : String) : Strategy :=
  if s = "rr" then .roundRobin else if s = "rnd" then .random else .sticky

def parseOp (t : List String) : Option Op :=
  match t with
  | "connect" :: l :: cid :: clean :: dyn :: alias :: will => do
    let l ← nat? l; let cid ← unhexStr cid; let alias ← nat? alias
    let w ← match will with
      | ["-"] => some none
      | [t, p, q, r] => do
        let t ← unhex t; let p ← unhex p; let q ← nat? q
        some (some ({ topic := t, payload := p, qos := q, retain := r = "1" } : Will))
      | _ => none
    some (.connect { link := l, clientId := cid, clean := clean = "1", dynamicFilters := dyn = "1",
                     aliasMax := alias, will := w })
  | "push" :: l :: pkt => do
    let l ← nat? l; let p ← parsePacket pkt
    some (.push l p)
  | ["ev", id, "data"] => (nat? id).map (.event · .deviceData)
  | ["ev", id, "ready"] => (nat? id).map (.event · .ready)
  | ["ev", id, "disc"] => (nat? id).map (.event · .disconnect)
  | ["ev", id, "will", c] => do let id ← nat? id; let c ← unhexStr c; some (.event id (.publishWill c))
  | ["ev", id, "shadow", f] => do let id ← nat? id; let f ← unhexStr f; some (.event id (.shadow f))
  | ["ev", id, "meters"] => (nat? id).map (.event · .sendMeters)
  | ["ev", id, "alerts"] => (nat? id).map (.event · .sendAlerts)
  | ["consume"] => some .consume
  | ["drain", l] => (nat? l).map .drain
  | _ => none

def showOptNat : Option Nat → String
  | none => "-"
  | some n => toString n

def showNotif : Notif → String
  | .forward p _ =>
    let sids := if p.subIds.isEmpty then "-" else ",".intercalate (p.subIds.map toString)
    s!"fwd {p.qos} {p.pkid} {if p.retain then 1 else 0} {if p.dup then 1 else 0} {hex p.topic} {hex p.payload} {showOptNat p.alias} {sids} {if p.hasProps then 1 else 0}"
  | .ack (.connack id sp) => s!"connack {id} {if sp then 1 else 0} Success"
  | .ack (.puback p) => s!"puback {p}"
  | .ack (.pubrec p) => s!"pubrec {p}"
  | .ack (.pubrel p) => s!"pubrel {p}"
  | .ack (.pubcomp p) => s!"pubcomp {p}"
  | .ack (.suback p codes) =>
    s!"suback {p} {if codes.isEmpty then "-" else ",".intercalate (codes.map toString)}"
  | .ack (.unsuback p rs) =>
    s!"unsuback {p} {if rs.isEmpty then "-" else String.ofList (rs.map (fun b => if b then 'S' else 'N'))}"
  | .ack .pingresp => "pingresp"
  | .unschedule => "unsched"
  | .disconnect r => s!"disconnect {r}"
  | .shadow t p => s!"shadow {hex t} {hex p}"

def showOut : Out → String
  | .ok => "ok"
  | .len n => toString n
  | .consumed b => if b then "1" else "0"
  | .drained tok ns =>
    let head := s!"tok={if tok then 1 else 0} n={ns.length}"
    if ns.isEmpty then head else head ++ " | " ++ " | ".intercalate (ns.map showNotif)
  | .nolink => "nolink"

/-- `[1, 0]` / `["a", "b"]` as printed by Rust's `{:?}` for Vec<usize> / Vec<&str> -/
def parseNatList (s : String) : Option (List Nat) :=
  let inner := (s.trimAscii.toString.drop 1).dropEnd 1 |>.toString
  if inner.trimAscii.toString.isEmpty then some [] else
  (inner.splitOn ",").mapM (fun x => x.trimAscii.toString.toNat?)

/-- Rust debug-printed string list; topics used by the generators contain no `"` or `\`
    except through escapes of non-ASCII which `{:?}` leaves as is -/
def parseStrList (s : String) : Option (List String) :=
  let inner := (s.trimAscii.toString.drop 1).dropEnd 1 |>.toString
  if inner.trimAscii.toString.isEmpty then some [] else
  some ((inner.splitOn "\", \"").map (fun x =>
    let x := if x.startsWith "\"" then (x.drop 1).toString else x
    if x.endsWith "\"" then (x.dropEnd 1).toString else x))

def parseNotif (t : List String) : Option Notif :=
  match t with
  | ["fwd", q, id, r, d, topic, payload, alias, sids, props] => do
    let q ← nat? q; let id ← nat? id
    let topic ← unhex topic; let payload ← unhex payload
    let alias ← optNat? alias
    let sids ← if sids = "-" then some [] else (sids.splitOn ",").mapM nat?
    some (.forward { qos := q, pkid := id, retain := r = "1", dup := d = "1", topic, payload,
                     alias, subIds := sids, hasProps := props = "1" } none)
  | ["connack", id, sp, _] => do let id ← nat? id; some (.ack (.connack id (sp = "1")))
  | ["puback", p] => (nat? p).map (fun p => .ack (.puback p))
  | ["pubrec", p] => (nat? p).map (fun p => .ack (.pubrec p))
  | ["pubrel", p] => (nat? p).map (fun p => .ack (.pubrel p))
  | ["pubcomp", p] => (nat? p).map (fun p => .ack (.pubcomp p))
  | ["suback", p, codes] => do
    let p ← nat? p
    let cs ← if codes = "-" then some [] else (codes.splitOn ",").mapM nat?
    some (.ack (.suback p cs))
  | ["unsuback", p, rs] => (nat? p).map (fun p => .ack (.unsuback p (if rs = "-" then [] else rs.toList.map (· == 'S'))))
  | ["pingresp"] => some (.ack .pingresp)
  | ["unsched"] => some .unschedule
  | ["disconnect", r] => some (.disconnect r)
  | ["shadow", t, p] => do let t ← unhex t; let p ← unhex p; some (.shadow t p)
  | _ => none

/-- the implementation's observable output, typed -/
def parseObs (op : Op) (res : String) : Option Monitors.Obs :=
  if res.startsWith "PANIC" then some .panic else
  if res.startsWith "HANG" then some .hang else
  match op with
  | .connect _ => if res = "ok" then some (.out .ok) else none
  | .event _ _ => if res = "ok" then some (.out .ok) else none
  | .push _ _ => if res = "nolink" then some (.out .nolink) else (res.toNat?).map (fun n => .out (.len n))
  | .consume => if res = "1" then some (.out (.consumed true)) else if res = "0" then some (.out (.consumed false)) else none
  | .drain _ =>
    if res = "nolink" then some (.out .nolink) else
    match res.splitOn " | " with
    | [] => none
    | head :: items =>
      let tok := head.startsWith "tok=1"
      match items.mapM (fun i => parseNotif ((i.trimAscii.toString.splitOn " ").filter (· ≠ ""))) with
      | some ns => some (.out (.drained tok ns))
      | none => none

def parseChoice (s : String) : Option Choice :=
  let s := s.trimAscii.toString
  if s.startsWith "matches " then (parseNatList (s.drop 8).toString).map .matches
  else if s.startsWith "retained " then (parseStrList (s.drop 9).toString).map .retained
  else if s.startsWith "random " then ((s.drop 7).toString.trimAscii.toString.toNat?).map .random
  else none

/-- the machine-readable tail `Router.choiceHint` puts on a `badChoice` message -/
def parseHint (msg : String) : Option (Nat × Bool × Choice) :=
  match msg.splitOn " ##hint " with
  | [_, h] =>
    match h.splitOn " " with
    | unread :: same :: rest =>
      let toks := (" ".intercalate rest).splitOn "\t"
      match unread.toNat?, toks with
      | some u, "matches" :: xs => (xs.mapM (fun (x : String) => x.toNat?)).map (fun v => (u, same == "1", Choice.matches v))
      | some u, "retained" :: xs => some (u, same == "1", Choice.retained xs)
      | some u, ["random", n] => (String.toNat? n).map (fun n => (u, same == "1", Choice.random n))
      | _, _ => none
    | _ => none
  | _ => none

/-- the recorded choice is inadmissible or missing (the implementation's hash map held something
    else than the model's, or it never drew): after that disagreement is reported the model goes
    on with its own admissible choice, so that the monitors can still find a concrete violation in
    what the implementation sends afterwards. At most `fuel` choices are replaced per op. -/
def stepRepair (s : RState) (choices : List Choice) (o : Op) : Nat → M (RState × Out)
  | 0 => step { s with oracle := choices, ghost := [] } o
  | fuel + 1 =>
    match step { s with oracle := choices, ghost := [] } o with
    | .error (.badChoice msg) =>
      match parseHint msg with
      | some (unread, same, fix) =>
        let pos := choices.length - unread
        stepRepair s (choices.take pos ++ [fix] ++ (if same then choices.drop (pos + 1) else choices.drop pos)) o fuel
      | none => .error (.badChoice msg)
    | r => r

inductive MState
  | none
  | live (s : RState)
  | dead                 -- both sides panicked: rest of the case is skipped

structure DState where
  m : MState := .none
  mon : Monitors.MonState := {}
  prop : String
  wrong : Bool
  /-- model and implementation already disagreed in this case: the first disagreement was
      reported; the model keeps stepping so that the monitors can still look for a concrete
      property violation in the implementation's outputs (reported with a marker) -/
  diverged : Bool := false
  /-- the implementation's own account of idleness: since the last op that can create work its
      `consume` returned "nothing to do" … -/
  quiet : Bool := false
  /-- … and these links were drained and had nothing (since that `consume`) -/
  drainedEmpty : List Nat := []

def splitOut (out : String) : String × List String :=
  match out.splitOn " ; " with
  | [] => ("", [])
  | r :: cs => (r, cs)

def handler (prop : String) (wrong : Bool) : Handler DState where
  init := { prop, wrong }
  step := fun st op out =>
    let (res, choiceStrs) := splitOut out
    let st : DState := match op with
      | ["consume"] => if res == "0" then { st with quiet := true, drainedEmpty := [] } else { st with quiet := false, drainedEmpty := [] }
      | ["drain", l] =>
        if res == "nolink" then st
        else if res.endsWith " n=0" then (match l.toNat? with | some l => if st.quiet then { st with drainedEmpty := st.drainedEmpty ++ [l] } else st | none => st)
        else { st with quiet := false, drainedEmpty := [] }
      | ["idle"] => st
      | "note" :: _ => st
      | ["snap"] => st
      | _ => { st with quiet := false, drainedEmpty := [] }
    match op with
    | ["new", mc, ss, sc, mo, strat] =>
      match nat? mc, nat? ss, nat? sc, nat? mo with
      | some mc, some ss, some sc, some mo =>
        let cfg : Config := { maxConnections := mc, maxSegmentSize := ss, maxSegmentCount := sc,
                              maxOutgoingPacketCount := mo, strategy := parseStrategy strat }
        ({ st with m := .live (init cfg), mon := Monitors.MonState.init cfg, diverged := false }, .ok)
      | _, _, _, _ => (st, .bad "new")
    | ["note", "adv", l] =>
      match l.toNat? with
      | some l => ({ st with mon := Monitors.markAdversary st.mon l }, .ok)
      | none => (st, .bad "note adv")
    | ["note", _] => (st, .ok)
    | ["snap"] =>
      -- debugging aid (replay files only): print the model's view next to the implementation's
      match st.m with
      | .live s =>
        let groups := s.shared.map (fun (n, g) => s!"{n}:clients={g.clients},idx={g.idx},cursor={g.cursor}")
        let trk := (s.conns.entries.zipIdx).filterMap (fun (c, i) => c.map (fun c =>
          s!"{i}:{repr c.tracker.status}:{c.tracker.requests.map (fun r => (r.filter, r.cursor))}:inflight={c.out.inflight.length}"))
        let mons := (st.mon.links.zipIdx).map (fun (lm, i) =>
          s!"L{i}:{lm.clientId}:subs={lm.subs.map (fun (s : Monitors.Sub) => (s.path, s.qos, s.start, s.closedAt))}:configs={lm.configs.take 4}:pending={lm.pendingAcks.map (fun (p : Monitors.Pending) => (p.pkid, p.subIx, p.abs))}:win={lm.window}:amb={lm.ambiguous}")
        (st, .bad s!"SNAP ready={s.readyqueue} groups={groups} trackers={trk} heads={st.mon.heads} mon={mons} sessions={st.mon.sessions.map (fun x => (x.clientId, x.fuzzy, x.subs.map (fun (s : Monitors.Sub) => (s.path, s.start))))} mongroups={st.mon.groups.map (fun (g : Monitors.GroupMon) => (g.name, g.idx, g.delivered.length, g.earlier.length, g.rewinds, g.fuzzy))}")
      | _ => (st, .ok)
    | ["idle"] =>
      match st.m with
      | .live s =>
        -- `idle` is the generator's claim that nothing is left to do; a replay that was cut or
        -- shrunk may carry the claim into a state where it is false, so it is re-established on
        -- the model: no runnable connection, nothing unread in either direction of a live link
        -- (established on what the IMPLEMENTATION showed — its consume returned "nothing to do" and
        -- every live link was drained empty afterwards — not on the model's state: a lost wake-up
        -- is exactly the case in which the implementation is idle and the model is not)
        let _ := s
        let quiescent := st.quiet &&
          (st.mon.links.zipIdx).all (fun (lm, l) => !lm.live || st.drainedEmpty.contains l)
        -- ... and every live link has acknowledged every QoS>0 forward it was handed (what the
        -- link saw and pushed, not what the router believes)
        let acked := st.mon.links.all (fun lm => !lm.live || lm.window.isEmpty)
        if !(quiescent && acked) then (st, .ok) else
        match Monitors.atIdle st.prop st.mon with
        | some (tag, d) => (st, .monitorFail tag (if st.diverged then d ++ " [found after the model/implementation divergence reported earlier in this case]" else d))
        | none => (st, .ok)
      | _ => (st, .ok)
    | _ =>
      match st.m with
      | .none => (st, .bad "op before new")
      | .dead =>
        -- the model has stopped: only the checks that need no state still run
        let op' := match op.getLast? with
          | some t => if t.startsWith "@" then op.dropLast else op
          | none => op
        match parseOp op' with
        | some o =>
          match parseObs o res with
          | some obs => (st, match Monitors.stateless st.prop o obs with | some (t, d) => .monitorFail t (d ++ " [model stopped earlier in this case]") | none => .ok)
          | none => (st, .ok)
        | none => (st, .ok)
      | .live s =>
        -- optional last token `@L`: the link on whose behalf the signal is sent
        let behalf : Option Nat := match op.getLast? with
          | some t => if t.startsWith "@" then (t.drop 1).toString.toNat? else none
          | none => none
        let op := if behalf.isSome then op.dropLast else op
        match parseOp op with
        | none => (st, .bad "unparsable op")
        | some o =>
          match choiceStrs.mapM parseChoice with
          | none => (st, .bad "unparsable choice")
          | some choices =>
            -- monitor on the implementation's output first
            match parseObs o res with
            | none => (st, .bad "unparsable output")
            | some obs =>
            let implPanic := res.startsWith "PANIC"
            let stepped0 := step { s with oracle := choices, ghost := [] } o
            let choiceErr : Option String := match stepped0 with | .error (.badChoice msg) => some msg | _ => none
            let stepped := if choiceErr.isSome then stepRepair s choices o 16 else stepped0
            let ghosts := match stepped with | .ok (s', _) => s'.ghost | .error _ => []
            let (mon, mv) := Monitors.observe st.prop st.mon o obs ghosts behalf
            let st := { st with mon := mon }
            match stepped with
            | .error (.panic msg) =>
              if implPanic then
                ({ st with m := .dead }, match mv with | some (t, d) => .monitorFail t d | none => .ok)
              else ({ st with m := .dead }, if st.diverged then .ok else .diverge s!"PANIC {msg}" res)
            | .error (.badChoice msg) => ({ st with m := .dead }, if st.diverged then .ok else .diverge s!"bad-choice {(msg.splitOn " ##hint ").headD msg}" out)
            | .ok (s', mo) =>
              let mo := if st.wrong then
                  (match mo with | .drained t ns => Out.drained t ns.reverse | x => x) else mo
              let ms := showOut mo
              -- a check on the router's own bookkeeping (the model's, which is the implementation's
              -- while they agree): only a sweep by a member (consume) hands entries of a shared
              -- group out; any other op that moves a group's cursor FORWARD skips entries that
              -- no member has been given
              let skipped : Option (String × String) :=
                match o with
                | .consume => none
                | _ => s'.shared.findSome? (fun (name, g') =>
                    match alookup name s.shared with
                    | some g => if g'.cursor.2 > g.cursor.2 && Monitors.relevant st.prop "c17-group-cursor-skipped" then
                        some ("c17-group-cursor-skipped", s!"group {name}: cursor moved from {g.cursor} to {g'.cursor} by an op that forwards nothing: the entries in between were never handed to a member through the group (a member left whose other subscription on the same path had an unacknowledged forward further on: the window entry records the log, not the subscription)")
                      else none
                    | none => none)
              let mv := if mv.isSome then mv else skipped
              let mark (v : Option (String × String)) : Verdict := match v with
                | some (t, d) => .monitorFail t (if st.diverged then d ++ " [found after the model/implementation divergence reported earlier in this case]" else d)
                | none => .ok
              if implPanic then
                ({ st with m := .dead },
                 match mv with | some _ => mark mv | none => if st.diverged then .ok else .diverge ms res)
              else if let some msg := choiceErr then
                ({ st with m := .live { s' with oracle := [] }, diverged := true },
                 match mv with | some _ => mark mv | none => if st.diverged then .ok else .diverge s!"bad-choice {(msg.splitOn " ##hint ").headD msg}" out)
              else if !s'.oracle.isEmpty then
                -- the implementation consulted a hash map / drew a number the model did not
                ({ st with m := .live { s' with oracle := [] }, diverged := true },
                 match mv with | some _ => mark mv | none => if st.diverged then .ok else .diverge "unused-choices" out)
              else if ms ≠ res then
                -- keep going on the model's own state; later disagreements are not reported again
                ({ st with m := .live s', diverged := true },
                 match mv with | some _ => mark mv | none => if st.diverged then .ok else .diverge ms res)
              else
                ({ st with m := .live s' }, mark mv)

end Driver.RouterD
