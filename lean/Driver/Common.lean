/-
Line-protocol plumbing for `mdriver`. Each input line is `<op tokens> => <impl output>`;
a handler steps the model on the op, compares with the implementation's output and may
evaluate a monitor on the implementation's output. Import-free (links natively).
-/
namespace Driver

def hexVal (c : Char) : Option Nat :=
  if '0' ≤ c ∧ c ≤ '9' then some (c.toNat - '0'.toNat)
  else if 'a' ≤ c ∧ c ≤ 'f' then some (c.toNat - 'a'.toNat + 10)
  else if 'A' ≤ c ∧ c ≤ 'F' then some (c.toNat - 'A'.toNat + 10)
  else none

/-- hex string (or `-` for empty) to bytes -/
def unhex (s : String) : Option (List UInt8) :=
  if s = "-" then some [] else
  let rec go : List Char → List UInt8 → Option (List UInt8)
    | [], acc => some acc.reverse
    | [_], _ => none
    | a :: b :: r, acc =>
      match hexVal a, hexVal b with
      | some x, some y => go r (UInt8.ofNat (x * 16 + y) :: acc)
      | _, _ => none
  go s.toList []

def hexDigit (n : Nat) : Char :=
  if n < 10 then Char.ofNat (n + '0'.toNat) else Char.ofNat (n - 10 + 'a'.toNat)

def hex (bs : List UInt8) : String :=
  if bs.isEmpty then "-" else
  String.ofList (bs.flatMap fun b => [hexDigit (b.toNat / 16), hexDigit (b.toNat % 16)])

/-- hex-encoded UTF-8 to a string -/
def unhexStr (s : String) : Option String := do
  let bs ← unhex s
  String.fromUTF8? (ByteArray.mk bs.toArray)

def hexStr (s : String) : String := hex s.toUTF8.toList

/-- verdict for one line -/
inductive Verdict
  | ok
  | diverge (model impl : String)
  | monitorFail (tag detail : String)
  | bad (why : String)

structure Handler (σ : Type) where
  init : σ
  /-- `step state opTokens implOut` -/
  step : σ → List String → String → σ × Verdict

structure Totals where
  lines : Nat := 0
  cases : Nat := 0
  diverge : Nat := 0
  monitorFail : Nat := 0
  bad : Nat := 0
  reported : Nat := 0
  /-- monitor failures printed so far, per shape (tag + the detail with its numbers blanked): a
      shape that occurs thousands of times (a recorded finding, a systematic divergence) must not
      use up the report budget and hide another shape further down -/
  shapes : List (String × Nat) := []

def splitLine (line : String) : List String × String :=
  match line.splitOn " => " with
  | [op] => ((op.trimAscii.toString.splitOn " ").filter (· ≠ ""), "")
  | op :: rest => ((op.trimAscii.toString.splitOn " ").filter (· ≠ ""), (" => ".intercalate rest).trimAscii.toString)
  | [] => ([], "")

partial def loop {σ} (h : Handler σ) (inp : IO.FS.Stream) (st : σ) (t : Totals) (caseId : String) :
    IO Totals := do
  let line ← inp.getLine
  if line.isEmpty then return t
  let (op, out) := splitLine line
  match op with
  | [] => loop h inp st t caseId
  | "case" :: rest =>
    loop h inp h.init { t with cases := t.cases + 1 } (" ".intercalate rest)
  | _ =>
    let (st', v) := h.step st op out
    let t := { t with lines := t.lines + 1 }
    let maxReport := 200
    match v with
    | .ok => loop h inp st' t caseId
    | .diverge m i =>
      if t.reported < maxReport then
        IO.println s!"diverge case={caseId} line={t.lines} op={" ".intercalate op} model={m} impl={i}"
      loop h inp st' { t with diverge := t.diverge + 1, reported := t.reported + 1 } caseId
    | .monitorFail tag d =>
      let shape := tag ++ "|" ++ String.ofList (((d.toList.map (fun c => if c.isDigit then '#' else c)).take 70))
      let seen := (t.shapes.find? (·.1 == shape)).map (·.2) |>.getD 0
      if seen < 25 && t.shapes.length < 400 then
        IO.println s!"monitor-fail case={caseId} line={t.lines} tag={tag} op={" ".intercalate op} impl={out} detail={d}"
      let shapes := if seen == 0 then t.shapes ++ [(shape, 1)] else t.shapes.map (fun p => if p.1 == shape then (p.1, p.2 + 1) else p)
      loop h inp st' { t with monitorFail := t.monitorFail + 1, shapes := shapes } caseId
    | .bad why =>
      if t.reported < maxReport then
        IO.println s!"bad-line case={caseId} line={t.lines} op={" ".intercalate op} why={why}"
      loop h inp st' { t with bad := t.bad + 1, reported := t.reported + 1 } caseId

def runHandler {σ} (h : Handler σ) : IO UInt32 := do
  let inp ← IO.getStdin
  let t ← loop h inp h.init {} "-"
  IO.println s!"summary lines={t.lines} cases={t.cases} diverge={t.diverge} monitor_fail={t.monitorFail} bad={t.bad}"
  return (if t.diverge + t.monitorFail + t.bad = 0 then 0 else 3)

end Driver
