/-
C05 driver handler `frame`: replays `vh frame` lines on `Model/Frame.lean` and monitors the
implementation's outputs against the property.

  dec <copy|all> <max|none> <bytes>        => P c | N n c | L c | M c | X c     (all: 4 outcomes, ` | `)
  stream <copy> <max|none> <k> <chunk>...  => <chunked run> // <one-chunk run>

The body readers are not modelled: where the model's dispatch says "a body reader runs" both `P`
(with exactly the frame consumed) and `M` are accepted from the implementation; for streams the
model's `body` parameter is instantiated from what the implementation's bare decoder answered per
frame (`walk` section), so the comparison is exact. No failure shape is expected on the current
/repo: the former b5 `unreachable!()` and the v5 `InsufficientBytes` on complete frames are repaired
and reported like any other violation (`panic`, `needmore-on-complete-frame`,
`chunking-dependent`) should they reappear.
Import-free (Model + Driver.Common only).
-/
import Model.Frame
import Model.FrameSpec
import Driver.Common
namespace Driver.FrameD
open Driver Frame

/-- `<hex>[+z<n>]` -/
def parseBytes (tok : String) : Option (List UInt8) :=
  match tok.splitOn "+z" with
  | [h] => unhex h
  | [h, n] =>
    match unhex h, n.toNat? with
    | some b, some k => some (b ++ List.replicate k 0)
    | _, _ => none
  | _ => none

def parseMax (s : String) : Option Limit :=
  if s = "none" then some none else
  match s.toNat? with
  | some n => some (some n)
  | none => none

def parseCopy (s : String) : Option Copy :=
  match s with
  | "c4" => some .c4 | "c5" => some .c5 | "b4" => some .b4 | "b5" => some .b5
  | _ => none

def copyName : Copy → String
  | .c4 => "c4" | .c5 => "c5" | .b4 => "b4" | .b5 => "b5"

/-- `--selftest-wrong`: a deliberately wrong model that compares the limit with the frame length
    instead of the remaining length. -/
def shapeW (wrong : Bool) (max : Limit) (bs : List UInt8) : Shape :=
  let s := shape max bs
  if !wrong then s else
  match s with
  | .complete fh => if exceeds max fh.frameLen then .oversize fh.remainingLen else s
  | .frameIncomplete fl _ => if exceeds max fl then .oversize fl else s
  | _ => s

/-- what the implementation's bare decoder did with one frame (from the `walk` section) -/
inductive Seen where
  | ok | bad | insuf (n : Nat)
deriving DecidableEq

/-- the model's `body` parameter instantiated from the implementation's observed answers -/
def bodyFrom (table : List (List UInt8 × Seen)) : FixedHeader → List UInt8 → Except (BodyErr Unit) Unit :=
  fun _ fr =>
    match table.lookup fr with
    | some (.insuf n) => .error (.insufficient n)
    | some .bad => .error (.malformed ())
    | _ => .ok ()

/-- a short description of the frame at the front of `bs` for monitor details -/
def describe (c : Copy) (max : Limit) (bs : List UInt8) : String :=
  let m := match max with | none => "none" | some x => toString x
  let st := match shape max bs with
    | .headerIncomplete _ => "header-incomplete"
    | .badLength => "malformed-length"
    | .oversize _ => "oversize"
    | .frameIncomplete _ _ => "frame-incomplete"
    | .complete _ => "complete"
  match parseFixedHeader bs with
  | .ok fh => s!"copy={copyName c} type={fh.typeNibble} remaining={fh.remainingLen} frame={fh.frameLen} have={bs.length} max={m} state={st}"
  | .insufficient n => s!"copy={copyName c} need={n} have={bs.length} max={m} state={st}"
  | .malformedLen => s!"copy={copyName c} have={bs.length} max={m} state={st}"

/-- least number of bytes that are certainly still missing while the header is incomplete -/
def headerMinMissing (bs : List UInt8) : Nat := if bs.length < 2 then 2 - bs.length else 1

/-- what the model predicts for one decoder call, as text -/
def modelDec (c : Copy) (max : Limit) (bs : List UInt8) (wrong : Bool) : String :=
  match shapeW wrong max bs with
  | .headerIncomplete n => s!"N {n} 0"
  | .badLength => "M"
  | .oversize _ => "L"
  | .frameIncomplete _ missing => s!"N {missing} 0"
  | .complete fh =>
    match dispatch c fh.typeNibble fh.flags fh.remainingLen with
    | .reject => "M"
    | .unreachable => "X"
    | .accept => s!"P {fh.frameLen}"
    | .read => s!"P|M {fh.frameLen}"

/-- leading natural number of a string and the rest -/
def leadNat (cs : List Char) : Option Nat × List Char :=
  let ds := cs.takeWhile Char.isDigit
  if ds.isEmpty then (none, cs) else ((String.ofList ds).toNat?, cs.drop ds.length)

/-- outcome tokens without allocation-heavy splitting: class letter and up to two numbers -/
def parseOutcome (out : String) : Option (Char × Option Nat × Option Nat) :=
  match out.toList with
  | [] => none
  | c :: r =>
    let r1 := r.dropWhile (· = ' ')
    let a := leadNat r1
    let r2 := a.2.dropWhile (· = ' ')
    let b := leadNat r2
    some (c, a.1, b.1)

/-- one decoder outcome of the implementation against the property (monitor) and the model.
    Strings are only built on the failure paths. -/
def judgeDecS (c : Copy) (max : Limit) (bs : List UInt8) (sh shw : Shape) (out : String)
    (wrong : Bool) : Verdict :=
  let d := fun (_ : Unit) => describe c max bs
  let model := fun (_ : Unit) => modelDec c max bs wrong
  match parseOutcome out with
  | some ('X', _, _) => .monitorFail "panic" (d ())
  | some ('P', some k, _) =>
    (match sh with
     | .complete fh =>
       if k ≠ fh.frameLen then .monitorFail "consumed-not-frame-length" s!"{d ()} consumed={k}"
       else
         match shw with
         | .complete fh' =>
           (match dispatch c fh'.typeNibble fh'.flags fh'.remainingLen with
            | .accept => .ok
            | .read => .ok
            | _ => .diverge (model ()) out)
         | _ => .diverge (model ()) out
     | .oversize _ => .monitorFail "accepted-oversize" s!"{d ()} consumed={k}"
     | .badLength => .monitorFail "accepted-malformed-length" s!"{d ()} consumed={k}"
     | _ => .monitorFail "accepted-incomplete-frame" s!"{d ()} consumed={k}")
  | some ('N', some n, some k) =>
    (match sh with
     | .complete _ => .monitorFail "needmore-on-complete-frame" s!"{d ()} asked={n} consumed={k}"
     | .oversize _ =>
       if k ≠ 0 then .monitorFail "needmore-consumed" s!"{d ()} consumed={k}"
       else .monitorFail "needmore-on-oversize" s!"{d ()} asked={n}"
     | .badLength =>
       if k ≠ 0 then .monitorFail "needmore-consumed" s!"{d ()} consumed={k}"
       else .monitorFail "needmore-on-malformed-length" s!"{d ()} asked={n}"
     | .frameIncomplete _ missing =>
       if k ≠ 0 then .monitorFail "needmore-consumed" s!"{d ()} consumed={k}"
       else if n > missing then .monitorFail "needmore-overasks" s!"{d ()} asked={n} missing={missing}"
       else
         (match shw with
          | .frameIncomplete _ m' => if n = m' then .ok else .diverge (model ()) out
          | _ => .diverge (model ()) out)
     | .headerIncomplete hn =>
       if k ≠ 0 then .monitorFail "needmore-consumed" s!"{d ()} consumed={k}"
       else if n > headerMinMissing bs then
         .monitorFail "needmore-overasks" s!"{d ()} asked={n} missing>={headerMinMissing bs}"
       else if n = hn then .ok else .diverge (model ()) out)
  | some ('L', _, _) =>
    (match shw with
     | .oversize _ => .ok
     | _ => .diverge (model ()) out)
  | some ('M', _, _) =>
    (match shw with
     | .badLength => .ok
     | .complete fh =>
       (match dispatch c fh.typeNibble fh.flags fh.remainingLen with
        | .reject => .ok
        | .read => .ok
        | _ =>
          -- C05.canonical_bodiless_accepted: here the model is the MQTT rule, so a different
          -- answer is a wrong answer, not just a divergence
          if fh.remainingLen = 0 && canonicalBodiless fh.byte1 then
            .monitorFail "wrong-answer" s!"{d ()} rejected-canonical-bodiless-packet"
          else .diverge (model ()) out)
     | _ => .diverge (model ()) out)
  | _ => .bad s!"unparsable outcome '{out}'"

def judgeDec (c : Copy) (max : Limit) (bs : List UInt8) (out : String) (wrong : Bool) : Verdict :=
  judgeDecS c max bs (shape max bs) (shapeW wrong max bs) out wrong

/-! streams -/

def isPkt (t : String) : Bool := t.startsWith "P"

/-- consumed length inside a client token `P<consumed>:<hash>` -/
def pktConsumed (t : String) : Option Nat := (leadNat (t.toList.drop 1)).1

/-- headers and bytes of the frames the bare decoder went through (complete and within the limit),
    in order -/
def frameWalk (max : Limit) : Nat → List UInt8 → List (FixedHeader × List UInt8)
  | 0, _ => []
  | f + 1, bs =>
    match check max bs with
    | .ok fh => (fh, bs.take fh.frameLen) :: frameWalk max f (bs.drop fh.frameLen)
    | _ => []

def finalClass : Final → String
  | .eofClean => "E"
  | .eofPartial => "R"
  | .error .panic => "X"
  | .error _ => "M"        -- L and M are one class at loop level (readv erases the kind)

def normTerminal (t : String) : String := if t = "L" then "M" else t

/-- split a run into (packet tokens without `|`, batch sizes, terminal) -/
def splitRun (toks : List String) : List String × List Nat × String :=
  let term := toks.getLast?.getD ""
  let body := toks.dropLast
  let pk := body.filter isPkt
  let segs := (body.foldl (fun (acc : List Nat × Nat) t =>
      if t = "|" then (acc.1 ++ [acc.2], 0) else (acc.1, acc.2 + 1)) ([], 0))
  let sizes := if segs.2 > 0 then segs.1 ++ [segs.2] else segs.1
  (pk, sizes, term)

structure StreamModel where
  pkts : Nat
  final : String

/-- run the model loop of the copy on the given chunks -/
def runModel (c : Copy) (body : FixedHeader → List UInt8 → Except (BodyErr Unit) Unit) (max : Limit)
    (k : Nat) (chunks : List (List UInt8)) : StreamModel :=
  let r : List Unit × Final :=
    match c with
    | .c4 => codecLoop c body max chunks
    | .c5 => codecLoop c body max chunks
    | _ => netLoop c body max k (chunks.filter (· ≠ []))
  { pkts := r.1.length, final := finalClass r.2 }

/-- walk token → what was seen: `P<c>`, `S<n>:<c>`, `M<c>`, `X<c>`, `L`, `N` -/
def seenOf (t : String) : Option Seen :=
  match t.toList with
  | 'P' :: _ => some .ok
  | 'S' :: r => (leadNat r).1.map Seen.insuf
  | 'M' :: _ => some .bad
  | _ => none

def judgeStream (c : Copy) (max : Limit) (k : Nat) (chunks : List (List UInt8)) (out : String)
    (wrong : Bool) : Verdict :=
  match out.splitOn " // " with
  | [a, b, w] =>
    let ta := (a.splitOn " ").filter (· ≠ "")
    let tb := (b.splitOn " ").filter (· ≠ "")
    let tw := (w.splitOn " ").filter (· ≠ "")
    let ra := splitRun ta
    let rb := splitRun tb
    let bs := chunks.flatten
    let frames := frameWalk max (bs.length + 1) bs
    let isClient := c == .c4 || c == .c5
    let cn := copyName c
    -- what the bare decoder did with each frame it went through
    let seen : List ((FixedHeader × List UInt8) × Seen) :=
      (frames.zip tw).filterMap (fun (fr, t) => (seenOf t).map (fun s => (fr, s)))
    let table : List (List UInt8 × Seen) := seen.filterMap (fun (fr, s) =>
      match s with
      | .ok => some (fr.2, .ok)
      | .insuf n => some (fr.2, .insuf n)
      | .bad =>
        -- only a rejection by a body reader instantiates `body`
        if dispatch c fr.1.typeNibble fr.1.flags fr.1.remainingLen == .read then some (fr.2, .bad) else none)
    let swallowed := seen.filter (fun (_, s) => match s with | .insuf _ => true | _ => false)
    let swTypes := swallowed.map (fun (fr, _) => fr.1.typeNibble)
    -- (1) panic
    if ra.2.2 = "X" || rb.2.2 = "X" || tw.getLast? = some "X" || (tw.getLast?.getD "").startsWith "X" then
      let done := (seen.filter (fun (_, s) => s ≠ .bad)).map (fun (fr, _) => fr.2) |>.flatten
      .monitorFail "panic" (describe c max (bs.drop done.length))
    else
      let body := bodyFrom table
      let max' : Limit := if wrong then max.map (· - 2) else max
      let ma := runModel c body max' k chunks
      let mb := runModel c body max' k [bs]
      let showM (m : StreamModel) := s!"packets={m.pkts} end={m.final}"
      let implA := s!"packets={ra.1.length} end={normTerminal ra.2.2}"
      let implB := s!"packets={rb.1.length} end={normTerminal rb.2.2}"
      let explained := showM ma = implA && showM mb = implB
      let dependent := ra.1 ≠ rb.1 || normTerminal ra.2.2 ≠ normTerminal rb.2.2
      -- (2) the result must not depend on the chunking
      if dependent then
        let cause := if swallowed.isEmpty then "cause=unknown" else s!"cause=insufficient-bytes-from-body types={swTypes}"
        .monitorFail "chunking-dependent" s!"copy={cn} {cause} chunked=[{a}] whole=[{b}] model-chunked=[{showM ma}] model-whole=[{showM mb}]"
      else
        -- (3) a wait for more bytes on a complete frame (seen by the bare decoder in this stream)
        match swallowed.head? with
        | some (fr, s) =>
          let n := match s with | .insuf n => n | _ => 0
          .monitorFail "needmore-on-complete-frame" s!"copy={cn} type={fr.1.typeNibble} remaining={fr.1.remainingLen} frame={fr.1.frameLen} state=complete asked={n} consumed={fr.1.frameLen} in-stream"
        | none =>
        if !explained then
          .diverge s!"chunked: {showM ma} whole: {showM mb}" s!"chunked: {implA} whole: {implB}"
        else
        -- (4) every packet consumed exactly its frame (client tokens carry the consumed length)
        let okFrames := (seen.filter (fun (_, s) => s == .ok)).map (·.1.1)
        let consumedBad : Option String :=
          if !isClient then none else
          (ra.1.zip okFrames).findSome? (fun (t, fh) =>
            match pktConsumed t with
            | some n => if n = fh.frameLen then none else some s!"copy={cn} type={fh.typeNibble} frame={fh.frameLen} consumed={n}"
            | none => some "unparsable packet token")
        match consumedBad with
        | some dtl => .monitorFail "consumed-not-frame-length" dtl
        | none =>
          if ra.1.length > frames.length then
            .monitorFail "accepted-beyond-frames" s!"copy={cn} packets={ra.1.length} complete-frames-within-limit={frames.length}"
          else
            -- (5) batch boundaries of the one-chunk run (broker; buffer capacity is 10 KiB)
            let mbatch := (linkBatches c body max' k (bs.length + 1) bs).1.map List.length
            if !isClient && bs.length ≤ 8000 && mbatch ≠ rb.2.1 then
              .diverge s!"batches={mbatch}" s!"batches={rb.2.1}"
            else .ok
  | _ => .bad "unparsable stream output"

/-- the shape key of a monitor failure, for rate limiting: tag, copy, packet type -/
def failKey (tag detail : String) : String :=
  let words := detail.splitOn " "
  let pick (pre : String) := (words.find? (·.startsWith pre)).getD ""
  s!"{tag} {pick "copy="} {pick "type="} {pick "types="} {pick "cause="}"

/-- every distinct failure shape is reported at most this many times (the driver prints at most
    200 verdict lines in total; a frequent known shape must not crowd out a new one) -/
def perShape : Nat := 3

def limit (st : List (String × Nat)) (v : Verdict) : List (String × Nat) × Verdict :=
  match v with
  | .monitorFail tag d =>
    let key := failKey tag d
    let n := (st.lookup key).getD 0
    if n ≥ perShape then (st, .ok)
    else ((key, n + 1) :: st.filter (·.1 ≠ key), v)
  | _ => (st, v)

def stepV (wrong : Bool) (op : List String) (out : String) : Verdict :=
  match op with
  | ["dec", cp, m, b] =>
    (match parseMax m, parseBytes b with
     | some max, some bs =>
       if cp = "all" then
         match out.splitOn " | " with
         | [o1, o2, o3, o4] =>
           let sh := shape max bs
           let shw := shapeW wrong max bs
           -- one verdict per line: a monitor failure (the implementation violates the property)
           -- before a divergence from the model
           let cs := [(Copy.c4, o1), (Copy.c5, o2), (Copy.b4, o3), (Copy.b5, o4)]
           let vs := cs.map (fun (c, o) => judgeDecS c max bs sh shw o wrong)
           let isMF (v : Verdict) := match v with | .monitorFail _ _ => true | _ => false
           let isDv (v : Verdict) := match v with | .diverge _ _ => true | .bad _ => true | _ => false
           ((vs.find? isMF).orElse fun _ => vs.find? isDv).getD .ok
         | _ => .bad "expected four outcomes"
       else
         match parseCopy cp with
         | some c => judgeDec c max bs out wrong
         | none => .bad "unknown copy"
     | _, _ => .bad "unparsable dec op")
  | "stream" :: cp :: m :: ks :: chunkToks =>
    (match parseCopy cp, parseMax m, ks.toNat?, chunkToks.mapM parseBytes with
     | some c, some max, some k, some chunks => judgeStream c max k chunks out wrong
     | _, _, _, _ => .bad "unparsable stream op")
  | _ => .bad "unknown op"

def handler (wrong : Bool) : Handler (List (String × Nat)) where
  init := []
  step := fun st op out => limit st (stepV wrong op out)

end Driver.FrameD
