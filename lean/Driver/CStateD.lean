/-
Driver handler `cstate`: replays the op lines of `vh cstate` on the model (Model/Client/State.lean),
compares every observable (returned packet | error class | PANIC, drained events, `clean()` of a
clone, collision, inflight(), await_pingresp) and evaluates the monitors of Model/Client/Spec.lean
on the IMPLEMENTATION's observations.
-/
import Model.Client.Spec
import Driver.Common
namespace Driver.CStateD
open Driver Client Client.Spec

/-! ### rendering (must agree with harness/src/cstate.rs to the character) -/
def rOptNat : Option Nat → String
  | some n => toString n
  | none => "-"

def rPub (p : Pub) : String := s!"Publish({p.qos},{p.pkid},{p.tag},{rOptNat p.alias})"

def rPacket : Packet → String
  | .publish p => rPub p
  | .puback i => s!"PubAck({i})"
  | .pubrec i => s!"PubRec({i})"
  | .pubrel i => s!"PubRel({i})"
  | .pubcomp i => s!"PubComp({i})"
  | .subscribe i => s!"Subscribe({i})"
  | .unsubscribe i => s!"Unsubscribe({i})"
  | .pingreq => "PingReq"
  | .disconnect r => s!"Disconnect({r})"

def rErr : Err → String
  | .unsolicited i => s!"Unsolicited({i})"
  | .awaitPingResp => "AwaitPingResp"
  | .collisionTimeout => "CollisionTimeout"
  | .emptySubscription => "EmptySubscription"
  | .wrongPacket => "WrongPacket"
  | .invalidAlias => "InvalidAlias"
  | .serverDisconnect => "ServerDisconnect"
  | .connFail => "ConnFail"

def rBool (b : Bool) : String := if b then "1" else "0"

def rIncoming : Incoming → String
  | .connect => "connect"
  | .connack ok sp rm am => s!"connack({if ok then 0 else 1},{rBool sp},{rOptNat rm},{rOptNat am})"
  | .publish p => s!"publish({p.qos},{p.pkid},{p.tag},{if p.topicEmpty then "e" else "t"},{rOptNat p.alias})"
  | .puback i r => s!"puback({i},{r})"
  | .pubrec i r => s!"pubrec({i},{r})"
  | .pubrel i r => s!"pubrel({i},{r})"
  | .pubcomp i r => s!"pubcomp({i},{r})"
  | .subscribe => "subscribe"
  | .suback i => s!"suback({i})"
  | .unsubscribe => "unsubscribe"
  | .unsuback i => s!"unsuback({i})"
  | .pingreq => "pingreq"
  | .pingresp => "pingresp"
  | .disconnect r => s!"disconnect({r})"
  | .auth => "auth"

def rOutgoing : Outgoing → String
  | .publish i => s!"Publish({i})"
  | .subscribe i => s!"Subscribe({i})"
  | .unsubscribe i => s!"Unsubscribe({i})"
  | .puback i => s!"PubAck({i})"
  | .pubrec i => s!"PubRec({i})"
  | .pubrel i => s!"PubRel({i})"
  | .pubcomp i => s!"PubComp({i})"
  | .pingreq => "PingReq"
  | .pingresp => "PingResp"
  | .disconnect => "Disconnect"
  | .awaitAck i => s!"AwaitAck({i})"

def rEvent : Event → String
  | .incoming p => "I:" ++ rIncoming p
  | .outgoing o => "O:" ++ rOutgoing o

def rList (f : α → String) (l : List α) : String :=
  if l.isEmpty then "-" else ";".intercalate (l.map f)

def rRequest : Request → String
  | .publish p => rPub p
  | .pubrel i => s!"PubRel({i})"
  | _ => "Other"

def rOutcome (o : Obs) : String :=
  match o.op, o.outcome with
  | _, .panic => "PANIC"
  | .clean, _ => "reqs:" ++ rList rRequest o.cleaned
  | _, .ok none => "ok:-"
  | _, .ok (some p) => "ok:" ++ rPacket p
  | _, .err e => "err:" ++ rErr e

def rObs (o : Obs) : String :=
  match o.outcome with
  | .panic => "PANIC"
  | _ =>
    match o.op with
    | .drop => "-"
    | .inflight => toString o.inf
    | _ =>
      s!"{rOutcome o} | ev={rList rEvent o.events} | clean={rList rRequest o.view} | col={match o.col with | some p => rPub p | none => "-"} | inf={o.inf} | ping={rBool o.ping}"

/-! ### parsing -/
def pNat (s : String) : Option Nat := s.toNat?
def pOptNat (s : String) : Option (Option Nat) := if s = "-" then some none else (pNat s).map some

/-- `Name(a,b,c)` → (Name, [a,b,c]); `Name` → (Name, []) -/
def pCall (s : String) : String × List String :=
  match s.splitOn "(" with
  | [n] => (n, [])
  | n :: rest =>
    let inner := ("(".intercalate rest)
    let inner := if inner.endsWith ")" then (inner.dropEnd 1).toString else inner
    (n, inner.splitOn ",")
  | [] => ("", [])

def pPub (args : List String) : Option Pub :=
  match args with
  | [q, i, t, a] => do
    let q ← pNat q; let i ← pNat i; let t ← pNat t; let a ← pOptNat a
    some { qos := q, pkid := i, tag := t, alias := a }
  | _ => none

def pPacket (s : String) : Option Packet :=
  match pCall s with
  | ("Publish", args) => (pPub args).map .publish
  | ("PubAck", [i]) => (pNat i).map .puback
  | ("PubRec", [i]) => (pNat i).map .pubrec
  | ("PubRel", [i]) => (pNat i).map .pubrel
  | ("PubComp", [i]) => (pNat i).map .pubcomp
  | ("Subscribe", [i]) => (pNat i).map .subscribe
  | ("Unsubscribe", [i]) => (pNat i).map .unsubscribe
  | ("PingReq", []) => some .pingreq
  | ("Disconnect", [r]) => (pNat r).map .disconnect
  | _ => none

def pErr (s : String) : Option Err :=
  match pCall s with
  | ("Unsolicited", [i]) => (pNat i).map .unsolicited
  | ("AwaitPingResp", []) => some .awaitPingResp
  | ("CollisionTimeout", []) => some .collisionTimeout
  | ("EmptySubscription", []) => some .emptySubscription
  | ("WrongPacket", []) => some .wrongPacket
  | ("InvalidAlias", []) => some .invalidAlias
  | ("ServerDisconnect", []) => some .serverDisconnect
  | ("ConnFail", []) => some .connFail
  | _ => none

def pIncomingCanon (s : String) : Option Incoming :=
  match pCall s with
  | ("connect", []) => some .connect
  | ("connack", [c, sp, rm, am]) => do
    let c ← pNat c; let sp ← pNat sp; let rm ← pOptNat rm; let am ← pOptNat am
    some (.connack (c == 0) (sp != 0) rm am)
  | ("publish", [q, i, t, e, a]) => do
    let q ← pNat q; let i ← pNat i; let t ← pNat t; let a ← pOptNat a
    some (.publish { qos := q, pkid := i, tag := t, topicEmpty := e == "e", alias := a })
  | ("puback", [i, r]) => do let i ← pNat i; let r ← pNat r; some (.puback i r)
  | ("pubrec", [i, r]) => do let i ← pNat i; let r ← pNat r; some (.pubrec i r)
  | ("pubrel", [i, r]) => do let i ← pNat i; let r ← pNat r; some (.pubrel i r)
  | ("pubcomp", [i, r]) => do let i ← pNat i; let r ← pNat r; some (.pubcomp i r)
  | ("subscribe", []) => some .subscribe
  | ("suback", [i]) => (pNat i).map .suback
  | ("unsubscribe", []) => some .unsubscribe
  | ("unsuback", [i]) => (pNat i).map .unsuback
  | ("pingreq", []) => some .pingreq
  | ("pingresp", []) => some .pingresp
  | ("disconnect", [r]) => (pNat r).map .disconnect
  | ("auth", []) => some .auth
  | _ => none

def pOutgoing (s : String) : Option Outgoing :=
  match pCall s with
  | ("Publish", [i]) => (pNat i).map .publish
  | ("Subscribe", [i]) => (pNat i).map .subscribe
  | ("Unsubscribe", [i]) => (pNat i).map .unsubscribe
  | ("PubAck", [i]) => (pNat i).map .puback
  | ("PubRec", [i]) => (pNat i).map .pubrec
  | ("PubRel", [i]) => (pNat i).map .pubrel
  | ("PubComp", [i]) => (pNat i).map .pubcomp
  | ("PingReq", []) => some .pingreq
  | ("PingResp", []) => some .pingresp
  | ("Disconnect", []) => some .disconnect
  | ("AwaitAck", [i]) => (pNat i).map .awaitAck
  | _ => none

def pEvent (s : String) : Option Event :=
  if s.startsWith "I:" then (pIncomingCanon (s.drop 2).toString).map .incoming
  else if s.startsWith "O:" then (pOutgoing (s.drop 2).toString).map .outgoing
  else none

def pList (f : String → Option α) (s : String) : Option (List α) :=
  if s = "-" then some [] else (s.splitOn ";").mapM f

def pRequest (s : String) : Option Request :=
  match pCall s with
  | ("Publish", args) => (pPub args).map .publish
  | ("PubRel", [i]) => (pNat i).map .pubrel
  | ("Other", []) => some .other
  | _ => none

def stripPrefix (p s : String) : Option String :=
  if s.startsWith p then some (s.drop p.length).toString else none

/-- the implementation's output line → observation -/
def pObs (op : SOp) (out : String) : Option Obs :=
  if out = "PANIC" then
    some { op, outcome := .panic, cleaned := [], events := [], view := [], col := none, inf := 0, ping := false }
  else if op == .inflight || op == .drop then none
  else
  match out.splitOn " | " with
  | [oc, ev, cl, col, inf, ping] => do
    let ev ← stripPrefix "ev=" ev; let cl ← stripPrefix "clean=" cl
    let col ← stripPrefix "col=" col; let inf ← stripPrefix "inf=" inf; let ping ← stripPrefix "ping=" ping
    let events ← pList pEvent ev
    let view ← pList pRequest cl
    let col ← if col = "-" then some none else
      (match pCall col with
       | ("Publish", args) => (pPub args).map some
       | _ => none)
    let inf ← pNat inf
    let ping ← pNat ping
    let (outcome, cleaned) ←
      if oc = "ok:-" then some (Outcome.ok none, [])
      else if oc.startsWith "ok:" then (pPacket (oc.drop 3).toString).map (fun p => (Outcome.ok (some p), []))
      else if oc.startsWith "err:" then
        some (match pErr (oc.drop 4).toString with
              | some e => (Outcome.err e, [])
              | none => (Outcome.err .wrongPacket, []))   -- classes the model never produces
      else if oc.startsWith "reqs:" then (pList pRequest (oc.drop 5).toString).map (fun l => (Outcome.ok none, l))
      else none
    some { op, outcome, cleaned, events, view, col, inf, ping := ping != 0 }
  | _ => none

def pAlias (l : List String) : Option (Option Nat) :=
  match l with
  | [] => some none
  | [a] => pOptNat a
  | _ => none

def pOp (t : List String) : Option SOp :=
  match t with
  | "out" :: "pub" :: q :: tag :: rest => do
    let q ← pNat q; let tag ← pNat tag; let a ← pAlias rest
    some (.out (.publish { qos := q, pkid := 0, tag, alias := a }))
  | "out" :: "repub" :: q :: i :: tag :: rest => do
    let q ← pNat q; let i ← pNat i; let tag ← pNat tag; let a ← pAlias rest
    some (.out (.publish { qos := q, pkid := i, tag, alias := a }))
  | ["out", "pubrel", i] => (pNat i).map (fun i => .out (.pubrel i))
  | ["out", "sub", n] => (pNat n).map (fun n => .out (.subscribe n))
  | ["out", "unsub"] => some (.out .unsubscribe)
  | ["out", "ping"] => some (.out .pingreq)
  | ["out", "disconnect"] => some (.out .disconnect)
  | ["out", "puback", i] => (pNat i).map (fun i => .out (.puback i))
  | ["out", "pubrec", i] => (pNat i).map (fun i => .out (.pubrec i))
  | ["out", "other"] => some (.out .other)
  | ["in", "connect"] => some (.inc .connect)
  | ["in", "connack", c, sp, rm, am] => do
    let c ← pNat c; let sp ← pNat sp; let rm ← pOptNat rm; let am ← pOptNat am
    some (.inc (.connack (c == 0) (sp != 0) rm am))
  | ["in", "publish", q, i, tag, e, a] => do
    let q ← pNat q; let i ← pNat i; let tag ← pNat tag; let a ← pOptNat a
    some (.inc (.publish { qos := q, pkid := i, tag, topicEmpty := e == "e", alias := a }))
  | ["in", "puback", i, r] => do let i ← pNat i; let r ← pNat r; some (.inc (.puback i r))
  | ["in", "pubrec", i, r] => do let i ← pNat i; let r ← pNat r; some (.inc (.pubrec i r))
  | ["in", "pubrel", i, r] => do let i ← pNat i; let r ← pNat r; some (.inc (.pubrel i r))
  | ["in", "pubcomp", i, r] => do let i ← pNat i; let r ← pNat r; some (.inc (.pubcomp i r))
  | ["in", "subscribe"] => some (.inc .subscribe)
  | ["in", "suback", i] => (pNat i).map (fun i => .inc (.suback i))
  | ["in", "unsubscribe"] => some (.inc .unsubscribe)
  | ["in", "unsuback", i] => (pNat i).map (fun i => .inc (.unsuback i))
  | ["in", "pingreq"] => some (.inc .pingreq)
  | ["in", "pingresp"] => some (.inc .pingresp)
  | ["in", "disconnect", r] => (pNat r).map (fun r => .inc (.disconnect r))
  | ["in", "auth"] => some (.inc .auth)
  | ["clean"] => some .clean
  | ["drop"] => some .drop
  | ["inflight"] => some .inflight
  | _ => none

/-! ### handler -/
structure St where
  st : Option State := none
  g : Ghost := Ghost.init .v4 0 false
  d : Diag := {}
  dead : Bool := false
  diverged : Bool := false
  /-- a monitor already failed in this case: later failures would not be independent -/
  failed : Bool := false
  /-- a divergence seen on a line that also carried a monitor failure; reported on the next line -/
  owed : Option (String × String) := none
  /-- ids whose QoS 2 flow is open BY THE PROTOCOL, whatever the client did: a PUBREC with a reason
      below 0x80 arrived for an unacknowledged id and no PUBCOMP since (reset with the connection).
      `Ghost.rels` records an id only once the client itself wrote the PUBREL; a client that wrongly
      treats such a PUBREC as a refusal would otherwise be judged by its own account -/
  specRels : List Nat := []
  /-- C18 at the state level: a PINGREQ was written on this connection and no PINGRESP has arrived since -/
  pingOut : Bool := false

/-- protocol-level bookkeeping of open QoS 2 flows, from the incoming packets only -/
def specRelsStep (g : Ghost) (l : List Nat) (o : Obs) : List Nat :=
  match o.op with
  | .inc (.pubrec i r) => if (alookup g.unacked i).isSome && decide (r < 128) then addRel l i else l
  | .inc (.pubcomp i _) => l.filter (· != i)
  | .clean => (match o.outcome with | .ok _ => [] | _ => l)
  | _ => l

/-- C07 clause 2 at protocol level: the client puts a PUBLISH on the wire under an id whose QoS 2
    flow is still open (PUBREC accepted by the broker, PUBCOMP not yet received) -/
def specReuse (g' : Ghost) (l' : List Nat) (o : Obs) : Option (String × String) :=
  if !g'.gated then none else
  match o.outcome with
  | .ok (some (.publish q)) =>
    if q.qos != 0 && l'.contains q.pkid then
      some ("c07-dup-id", s!"dup=reused-while-awaiting-pubcomp(protocol-level: PUBREC with a reason below 0x80 keeps the flow open) id={q.pkid} awaiting-comp={l'}")
    else none
  | _ => none

/-- C18 "a silent broker is detected no later than the second interval": the keep-alive timer asks for a
    ping while the previous PINGREQ is still unanswered — the state machine must refuse (an error ends the
    connection), whatever else is pending (a parked collision included); it must not write another PINGREQ -/
def pingFail (pingOut : Bool) (o : Obs) : Option (String × String) :=
  match o.op, o.outcome with
  | .out .pingreq, .ok _ =>
    if pingOut then some ("c18-ping-forgiven", s!"a PINGREQ was requested while the previous one was unanswered and the state machine accepted it (col={match o.col with | some p => rPub p | none => "-"} inf={o.inf})")
    else none
  | _, _ => none

def pingOutStep (pingOut : Bool) (o : Obs) : Bool :=
  match o.op, o.outcome with
  | .out .pingreq, .ok (some .pingreq) => true
  | .inc .pingresp, _ => false
  | .clean, .ok _ => false
  | _, _ => pingOut

def checksFor (focus : List String) : List Check :=
  (if focus.contains "C07" then [C07.checks] else []) ++
  (if focus.contains "C02" then [C02.checks] else []) ++
  (if focus.contains "C10" then [C10.checks] else []) ++
  (if focus.contains "C11" then [C11.checks] else [])

def allFocus : List String := ["C07", "C02", "C10", "C11"]

/-- `--selftest-wrong`: a model whose PUBACK handler forgets to release a parked publish -/
def wrongify (wrong : Bool) (o : Obs) : Obs :=
  if !wrong then o else
  match o.op, o.outcome with
  | .inc (.puback _ _), .ok (some (.publish _)) => { o with outcome := .ok none }
  | _, _ => o

def step (wrong : Bool) (focus : List String) (σ : St) (op : List String) (out : String) : St × Driver.Verdict :=
  match op with
  | ["new", v, max, man] =>
    match (if v = "v4" then some Version.v4 else if v = "v5" then some Version.v5 else none), pNat max, pNat man with
    | some ver, some max, some man =>
      ({ st := some (State.new ver max (man != 0)), g := Ghost.init ver max (man != 0) },
        if out = "ok" then .ok else .bad "new: expected ok")
    | _, _, _ => ({}, .bad "unparsable new")
  | _ =>
  match σ.st with
  | none => (σ, .bad "op before new")
  | some s =>
  if σ.dead then (σ, .bad "op after PANIC in the same case") else
  match pOp op with
  | none => (σ, .bad "unparsable op")
  | some sop =>
    let m := wrongify wrong (sstepObs s sop)
    let s' := sstepSt s sop
    let mstr := rObs m
    let same := mstr == out
    match (if same then some m else pObs sop out) with
    | none => ({ σ with st := some s' }, .bad "unparsable output")
    | some io =>
      let g' := σ.g.step io
      let d' := σ.d.step σ.g io g'
      let rels' := specRelsStep σ.g σ.specRels io
      let fails := if σ.failed then [] else (checksFor focus).filterMap (fun c => c σ.g σ.d io g' d')
      let fails := if σ.failed || !fails.isEmpty || !focus.contains "C07" then fails else
        (match specReuse g' rels' io with | some f => [f] | none => [])
      let fails := if σ.failed || !fails.isEmpty || !focus.contains "C18" then fails else
        (match pingFail σ.pingOut io with | some f => [f] | none => [])
      let dead := io.outcome == .panic
      let newDiv : Option (String × String) :=
        if same || σ.diverged then none else some (mstr, out)
      let σ' : St := { st := some s', g := g', d := d', dead, diverged := σ.diverged || !same, owed := none, failed := σ.failed || !fails.isEmpty, specRels := rels', pingOut := pingOutStep σ.pingOut io }
      match fails with
      | (tag, d) :: _ =>
        ({ σ' with owed := match newDiv with | some x => some x | none => σ.owed }, .monitorFail tag d)
      | [] =>
        match newDiv, σ.owed with
        | some (a, b), _ => (σ', .diverge a b)
        | none, some (a, b) => (σ', .diverge (a ++ " (previous line)") b)
        | none, none => (σ', .ok)

def handler (wrong : Bool) (focus : List String) : Handler St where
  init := {}
  step := step wrong focus


/-! ### runner with per-shape report budget
The generic `Driver.loop` prints the first 200 failing lines; here thousands of lines are instances
of a handful of recorded findings, which would use up that budget and hide a new shape further down.
This runner prints at most `perShape` lines per shape (tag + detail/op with digits blanked) and
counts everything in the summary. Same line formats as `Driver.loop`. -/

def blankDigits (s : String) : String :=
  String.ofList (s.toList.foldr (fun c acc =>
    if c.isDigit then (match acc with
      | '#' :: _ => acc
      | _ => '#' :: acc)
    else c :: acc) [])

def shapeKey (kind tag : String) (op : List String) (detail : String) : String :=
  kind ++ "|" ++ tag ++ "|" ++ " ".intercalate (op.take 2) ++ "|" ++ blankDigits detail

def bump (k : String) : List (String × Nat) → List (String × Nat) × Nat
  | [] => ([(k, 1)], 1)
  | (a, n) :: r =>
    if a == k then ((a, n + 1) :: r, n + 1)
    else
      let (r', c) := bump k r
      ((a, n) :: r', c)

partial def loopDedup (h : Handler St) (inp : IO.FS.Stream) (st : St) (t : Totals) (caseId : String)
    (seen : List (String × Nat)) (perShape : Nat) : IO Totals := do
  let line ← inp.getLine
  if line.isEmpty then return t
  let (op, out) := splitLine line
  match op with
  | [] => loopDedup h inp st t caseId seen perShape
  | "case" :: rest =>
    loopDedup h inp h.init { t with cases := t.cases + 1 } (" ".intercalate rest) seen perShape
  | _ =>
    let (st', v) := h.step st op out
    let t := { t with lines := t.lines + 1 }
    match v with
    | .ok => loopDedup h inp st' t caseId seen perShape
    | .diverge m i =>
      let (seen', c) := bump (shapeKey "diverge" "" op m) seen
      if c ≤ perShape then
        IO.println s!"diverge case={caseId} line={t.lines} op={" ".intercalate op} model={m} impl={i}"
      loopDedup h inp st' { t with diverge := t.diverge + 1, reported := t.reported + 1 } caseId seen' perShape
    | .monitorFail tag d =>
      let (seen', c) := bump (shapeKey "monitor" tag op d) seen
      if c ≤ perShape then
        IO.println s!"monitor-fail case={caseId} line={t.lines} tag={tag} op={" ".intercalate op} impl={out} detail={d}"
      loopDedup h inp st' { t with monitorFail := t.monitorFail + 1, reported := t.reported + 1 } caseId seen' perShape
    | .bad why =>
      let (seen', c) := bump (shapeKey "bad" "" op why) seen
      if c ≤ perShape then
        IO.println s!"bad-line case={caseId} line={t.lines} op={" ".intercalate op} why={why}"
      loopDedup h inp st' { t with bad := t.bad + 1, reported := t.reported + 1 } caseId seen' perShape

def run (wrong : Bool) (focus : List String) : IO UInt32 := do
  let inp ← IO.getStdin
  let h := handler wrong focus
  let t ← loopDedup h inp h.init {} "-" [] 3
  IO.println s!"summary lines={t.lines} cases={t.cases} diverge={t.diverge} monitor_fail={t.monitorFail} bad={t.bad}"
  return (if t.diverge + t.monitorFail + t.bad = 0 then 0 else 3)

end Driver.CStateD
