import Driver.Main
