import Proofs.Props.C12
import Proofs.Props.C13
