import Proofs.Props.C12
