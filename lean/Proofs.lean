import Proofs.Props.C12
import Proofs.Props.C13
import Proofs.Props.C05
import Proofs.Props.C04
