/-
Framing layer of the four decoder copies and of the loops that drive them:

  copy  decoder                                      source
  c4    rumqttc::mqttbytes::v4::Packet::read         rumqttc/src/mqttbytes/{mod.rs, v4/mod.rs}
  c5    rumqttc::v5::mqttbytes::v5::Packet::read     rumqttc/src/v5/mqttbytes/v5/mod.rs
  b4    rumqttd::protocol::v4::V4::read_mut          rumqttd/src/protocol/v4/mod.rs
  b5    rumqttd::protocol::v5::V5::read_mut          rumqttd/src/protocol/v5/mod.rs

`check`, `parse_fixed_header`, `length` are textually identical in the four files except that c5
takes `max_packet_size: Option<u32>` (`None` = no limit). What differs is the packet-type
dispatch at the top of `read`/`read_mut` (`dispatch` below) and what happens to a body reader's
error (`sealed` below).

The packet *body* readers are not modelled here (C04): `body` is an arbitrary parameter that gets
the fixed header and exactly the bytes of the frame (`stream.split_to(frame_length)`). One thing
about them is visible to the framing loops and therefore part of this model: a body reader's error
can itself be `Error::InsufficientBytes(n)` (`BodyErr.insufficient`) — the v5 readers answer that
whenever `length()` is called on a property-length field cut off by the end of the frame.
  * c5 / b5 (since 5359110): `read`/`read_mut` run the body through `read_frame(..)` and map an
    `InsufficientBytes` raised inside the complete frame to `MalformedPacket` (`sealed c = true`).
  * c4 / b4: the body reader's error is propagated unchanged by `?` (`sealed c = false`). The v4
    readers never call `length()` (only `read_u8/u16/mqtt_bytes/mqtt_string`), so they never answer
    `InsufficientBytes`; if one did, `Codec::decode`, `Network::read` and `readv` could not tell it
    from the framing layer's "wait for more bytes" although the frame is already removed from the
    buffer (`Step.swallowed`). That is why theorems about the v4 copies keep the hypothesis
    `Honest body`.
History: before c0aab5e b5 had no arm for CONNACK / UNSUBACK (`unreachable!()`); before 5359110 the
v5 copies were not sealed; before 86cba48 c5 answered `PayloadRequired` for a bodiless DISCONNECT.
Loops: `tokio_util::codec::Decoder::decode` driven as `Framed` does (`feed`, client),
`rumqttd::link::network::Network::{read, read_bytes, readv}` (`netRun`, `linkRun`, broker).
Import-free (only Model.*): compiled into the native driver.
-/
import Model.Basic.Bytes
import Model.Basic.VarInt
namespace Frame
open Bytes VarInt

/-- which of the four copies -/
inductive Copy where
  | c4 | c5 | b4 | b5
deriving DecidableEq, Repr

/-- the configured maximum: `usize` for c4/b4/b5 (always `some`), `Option<u32>` for c5 -/
abbrev Limit := Option Nat

/-- `FixedHeader { byte1, fixed_header_len, remaining_len }` -/
structure FixedHeader where
  byte1 : UInt8
  fixedHeaderLen : Nat
  remainingLen : Nat
deriving DecidableEq, Repr

/-- `frame_length()` -/
def FixedHeader.frameLen (fh : FixedHeader) : Nat := fh.fixedHeaderLen + fh.remainingLen

/-- `byte1 >> 4` -/
def FixedHeader.typeNibble (fh : FixedHeader) : Nat := fh.byte1.toNat / 16

/-- `byte1 & 0x0F` -/
def FixedHeader.flags (fh : FixedHeader) : Nat := fh.byte1.toNat % 16

inductive HdrResult where
  | ok (fh : FixedHeader)
  | insufficient (n : Nat)
  | malformedLen
deriving DecidableEq, Repr

/-- `parse_fixed_header`: fewer than two bytes → `InsufficientBytes(2 - len)`; otherwise the first
    byte and `length(rest)`; `FixedHeader::new(byte1, len_len, len)` stores `len_len + 1`. -/
def parseFixedHeader (bs : ByteList) : HdrResult :=
  if bs.length < 2 then .insufficient (2 - bs.length) else
  match bs with
  | [] => .insufficient 2
  | b :: rest =>
    match VarInt.length rest with
    | .ok ll l => .ok ⟨b, ll + 1, l⟩
    | .insufficient n => .insufficient n
    | .malformed => .malformedLen

/-- `remaining_len > max_packet_size` (c5: only `if let Some(max)`) -/
def exceeds (max : Limit) (remaining : Nat) : Bool :=
  match max with
  | none => false
  | some m => decide (remaining > m)

inductive CheckResult where
  | ok (fh : FixedHeader)
  | insufficient (n : Nat)
  | tooLarge (remaining : Nat)
  | malformedLen
deriving DecidableEq, Repr

/-- `check(stream, max)`: header first, then the size limit (on `remaining_len`, before any wait
    for the body), then `InsufficientBytes(frame_length - stream_len)`. -/
def check (max : Limit) (bs : ByteList) : CheckResult :=
  match parseFixedHeader bs with
  | .insufficient n => .insufficient n
  | .malformedLen => .malformedLen
  | .ok fh =>
    if exceeds max fh.remainingLen then .tooLarge fh.remainingLen
    else if bs.length < fh.frameLen then .insufficient (fh.frameLen - bs.length)
    else .ok fh

/-- what the `match packet_type` at the top of `read`/`read_mut` does before a body reader runs -/
inductive Dispatch where
  /-- an error without looking at the body: `InvalidPacketType`, `PayloadRequired`,
      b4 `InvalidProtocol` for a DISCONNECT with a body -/
  | reject
  /-- a packet without looking at the body (PINGREQ, PINGRESP, bodiless DISCONNECT) -/
  | accept
  /-- a body reader is called -/
  | read
  /-- `_ => unreachable!()`: b4 still has such an arm after all fourteen packet types (dead);
      b5 had a live one until c0aab5e. No copy's dispatch reaches it (`dispatch_ne_unreachable`). -/
  | unreachable
deriving DecidableEq, Repr

/-- per-copy dispatch on `(byte1 >> 4, byte1 & 0x0F, remaining_len)`. For remaining length 0 the
    outcome is a function of the first byte alone in every copy: c5 (since 86cba48) hands a bodiless
    DISCONNECT to `Disconnect::read`, which for an empty body checks nothing but the flags
    (`flags != 0 → MalformedPacket`, else `Ok(NormalDisconnection)`); the other copies do not look
    at the flags. -/
def dispatch (c : Copy) (ty flags rl : Nat) : Dispatch :=
  if ty = 0 ∨ ty ≥ 15 then .reject                     -- packet_type()? : InvalidPacketType
  else if rl = 0 then
    if ty = 12 ∨ ty = 13 then .accept
    else if ty = 14 then
      (match c with | .c5 => if flags = 0 then .accept else .reject | _ => .accept)
    else .reject                                       -- PayloadRequired
  else if ty = 12 ∨ ty = 13 then .accept
  else if ty = 14 then
    (match c with | .c4 => .accept | .c5 => .read | .b4 => .reject | .b5 => .read)
  else .read

/-- does `read`/`read_mut` turn an `InsufficientBytes` raised by a body reader into
    `MalformedPacket` (`read_frame(..).map_err(..)`, v5 copies) or propagate it (`?`, v4 copies) -/
def sealed : Copy → Bool
  | .c4 => false
  | .c5 => true
  | .b4 => false
  | .b5 => true

/-- outcome of one `Packet::read` / `read_mut` call on the buffer `bs` -/
inductive Step (Pkt : Type) where
  /-- `Ok(packet)`; `rest` is what is left in the buffer -/
  | packet (p : Pkt) (rest : ByteList)
  /-- `Err(InsufficientBytes(n))`; buffer untouched -/
  | needMore (n : Nat)
  /-- `Err(PayloadSizeLimitExceeded)`; buffer untouched -/
  | tooLarge
  /-- `Err(MalformedRemainingLength)`; buffer untouched -/
  | badLength
  /-- any other error; the frame has already been split off the buffer -/
  | malformed (rest : ByteList)
  /-- `unreachable!()` reached; the frame has already been split off the buffer -/
  | panic (rest : ByteList)
  /-- `Err(InsufficientBytes(n))` coming out of a *body reader* of an unsealed copy: the frame has
      already been split off the buffer, yet every loop treats the error as "wait for more bytes" -/
  | swallowed (n : Nat) (rest : ByteList)
deriving Repr, DecidableEq

/-- error of a body reader: anything (`malformed`), or `InsufficientBytes(n)` -/
inductive BodyErr (ε : Type) where
  | malformed (e : ε)
  | insufficient (n : Nat)
deriving Repr

section
variable {Pkt ε : Type}

/-- a body reader that never answers `InsufficientBytes` (true of the v4 readers by inspection:
    they only use `read_u8/u16/mqtt_bytes/mqtt_string`, whose errors are `MalformedPacket`,
    `BoundaryCrossed`, `TopicNotUtf8`, …) -/
def Honest (body : FixedHeader → ByteList → Except (BodyErr ε) Pkt) : Prop :=
  ∀ fh fr n, body fh fr ≠ .error (.insufficient n)

/-- a body reader's `InsufficientBytes` cannot reach the framing loops: the copy seals it (c5, b5)
    or the reader never produces it (what the v4 copies rely on) -/
def Guarded (c : Copy) (body : FixedHeader → ByteList → Except (BodyErr ε) Pkt) : Prop :=
  sealed c = true ∨ Honest body

/-- what becomes of a body reader's result: unsealed copies propagate its error unchanged (`?`),
    sealed ones map `InsufficientBytes` to `MalformedPacket` -/
def fromBody (isSealed : Bool) (r : Except (BodyErr ε) Pkt) (rest : ByteList) : Step Pkt :=
  match r with
  | .ok p => .packet p rest
  | .error (.malformed _) => .malformed rest
  | .error (.insufficient n) => if isSealed then .malformed rest else .swallowed n rest

/-- the part of `read`/`read_mut` after `stream.split_to(frame_length)`: `frame` is the split-off
    frame, `rest` what stays in the buffer -/
def deliver (c : Copy) (body : FixedHeader → ByteList → Except (BodyErr ε) Pkt) (fh : FixedHeader)
    (frame rest : ByteList) : Step Pkt :=
  match dispatch c fh.typeNibble fh.flags fh.remainingLen with
  | .reject => .malformed rest
  | .unreachable => .panic rest
  | .accept => fromBody (sealed c) (body fh frame) rest
  | .read => fromBody (sealed c) (body fh frame) rest

/-- `Packet::read(stream, max)` / `Protocol::read_mut(stream, max)`. -/
def decode1 (c : Copy) (body : FixedHeader → ByteList → Except (BodyErr ε) Pkt) (max : Limit)
    (bs : ByteList) : Step Pkt :=
  match check max bs with
  | .insufficient n => .needMore n
  | .tooLarge _ => .tooLarge
  | .malformedLen => .badLength
  | .ok fh => deliver c body fh (bs.take fh.frameLen) (bs.drop fh.frameLen)

/-- the same outcome with `x` appended to what is left in the buffer -/
def Step.extend (x : ByteList) : Step Pkt → Step Pkt
  | .packet p rest => .packet p (rest ++ x)
  | .needMore n => .needMore n
  | .tooLarge => .tooLarge
  | .badLength => .badLength
  | .malformed rest => .malformed (rest ++ x)
  | .panic rest => .panic (rest ++ x)
  | .swallowed n rest => .swallowed n (rest ++ x)

/-- error classes that end a stream -/
inductive ErrKind where
  | tooLarge | badLength | malformed | panic
deriving DecidableEq, Repr

/-- how a decoding run over a buffer ends: waiting for more bytes with `buf` retained, or an error -/
inductive Tail where
  | more (buf : ByteList)
  | error (e : ErrKind)
deriving DecidableEq, Repr

def consP (p : Pkt) (r : List Pkt × Tail) : List Pkt × Tail := (p :: r.1, r.2)

/-- repeated `decode` on one buffer until it asks for more bytes or fails (what `Framed` does
    between two socket reads, what `readv` does without its cut). -/
def drain (c : Copy) (body : FixedHeader → ByteList → Except (BodyErr ε) Pkt) (max : Limit) :
    Nat → ByteList → List Pkt × Tail
  | 0, buf => ([], .more buf)
  | f + 1, buf =>
    match decode1 c body max buf with
    | .packet p rest => consP p (drain c body max f rest)
    | .needMore _ => ([], .more buf)
    | .tooLarge => ([], .error .tooLarge)
    | .badLength => ([], .error .badLength)
    | .malformed _ => ([], .error .malformed)
    | .panic _ => ([], .error .panic)
    | .swallowed _ rest => ([], .more rest)

/-- decode everything that is in `bs` (every frame has at least two bytes, so `length + 1`
    iterations always suffice: `Proofs/Lemmas/Frame.lean`, `drain_fuel`). -/
def decodeAll (c : Copy) (body : FixedHeader → ByteList → Except (BodyErr ε) Pkt) (max : Limit)
    (bs : ByteList) : List Pkt × Tail :=
  drain c body max (bs.length + 1) bs

/-- the client loop: `Framed` appends every socket read to the buffer and calls
    `Decoder::decode` until it returns `Ok(None)`; an `Err` ends the stream. -/
def feed (c : Copy) (body : FixedHeader → ByteList → Except (BodyErr ε) Pkt) (max : Limit) :
    ByteList → List ByteList → List Pkt × Tail
  | buf, [] => ([], .more buf)
  | buf, ch :: chs =>
    match (decodeAll c body max (buf ++ ch)).2 with
    | .more buf' =>
      ((decodeAll c body max (buf ++ ch)).1 ++ (feed c body max buf' chs).1,
       (feed c body max buf' chs).2)
    | .error e => ((decodeAll c body max (buf ++ ch)).1, .error e)

/-- how a connection's inbound stream ends -/
inductive Final where
  /-- peer closed between frames (Framed: stream ends; Network: `ConnectionAborted`) -/
  | eofClean
  /-- peer closed inside a frame (Framed: "bytes remaining on stream"; Network: `ConnectionReset`) -/
  | eofPartial
  | error (e : ErrKind)
deriving DecidableEq, Repr

def finish : Tail → Final
  | .more [] => .eofClean
  | .more (_ :: _) => .eofPartial
  | .error e => .error e

/-- reference semantics of a byte stream: the frames of the concatenation, then how it ends -/
def decodeStream (c : Copy) (body : FixedHeader → ByteList → Except (BodyErr ε) Pkt) (max : Limit)
    (bs : ByteList) : List Pkt × Final :=
  ((decodeAll c body max bs).1, finish (decodeAll c body max bs).2)

def consF (p : Pkt) (r : List Pkt × Final) : List Pkt × Final := (p :: r.1, r.2)

/-- end of stream in `Framed`: `decode_eof` (= `decode`, and `Ok(None)` with a non-empty buffer
    becomes the io error "bytes remaining on stream") is called until it returns `None`/`Err`. -/
def eofDrain (c : Copy) (body : FixedHeader → ByteList → Except (BodyErr ε) Pkt) (max : Limit) :
    Nat → ByteList → List Pkt × Final
  | 0, buf => ([], finish (.more buf))
  | f + 1, buf =>
    match decode1 c body max buf with
    | .packet p rest => consF p (eofDrain c body max f rest)
    | .needMore _ => ([], finish (.more buf))
    | .tooLarge => ([], .error .tooLarge)
    | .badLength => ([], .error .badLength)
    | .malformed _ => ([], .error .malformed)
    | .panic _ => ([], .error .panic)
    | .swallowed _ rest => ([], finish (.more rest))

/-- the client loop run to end of stream -/
def codecLoop (c : Copy) (body : FixedHeader → ByteList → Except (BodyErr ε) Pkt) (max : Limit)
    (chunks : List ByteList) : List Pkt × Final :=
  match (feed c body max [] chunks).2 with
  | .more buf =>
    ((feed c body max [] chunks).1 ++ (eofDrain c body max (buf.length + 1) buf).1,
     (eofDrain c body max (buf.length + 1) buf).2)
  | .error e => ((feed c body max [] chunks).1, .error e)

/-- result of `Network::read_bytes(required)` -/
inductive PullResult where
  /-- a socket read returned 0 (no chunk left, or an empty one); buffer content at that time -/
  | closed (buf : ByteList)
  | got (buf : ByteList) (chunks : List ByteList)
deriving DecidableEq, Repr

/-- `read_bytes(required)`: `read_buf` appends one chunk per call; a read of 0 bytes is an error;
    returns once `total_read >= required`. -/
def pull (need : Nat) : Nat → ByteList → List ByteList → PullResult
  | _, buf, [] => .closed buf
  | total, buf, ch :: chs =>
    if ch.isEmpty then .closed buf
    else if total + ch.length ≥ need then .got (buf ++ ch) chs
    else pull need (total + ch.length) (buf ++ ch) chs

/-- the broker link loop (`RemoteLink::start`): `Network::read()`, then `readv` into the drained
    shared buffer, again and again. `mode = none`: inside `read()` — `read_mut`; on
    `InsufficientBytes(n)` (from the framing layer *or* leaked by a body reader after the frame is
    gone) `read_bytes(n)` and retry. `mode = some held`: inside `readv` with `held` packets in the
    shared buffer — `read_mut` until `InsufficientBytes` (return `Ok`, the link calls `read()`
    again on the same buffer), an error, or `held + 1 >= k` after a push. -/
def netRun (c : Copy) (body : FixedHeader → ByteList → Except (BodyErr ε) Pkt) (max : Limit)
    (k : Nat) : Nat → Option Nat → ByteList → List ByteList → List Pkt × Final
  | 0, _, _, _ => ([], .eofPartial)
  | f + 1, none, buf, chunks =>
    (match decode1 c body max buf with
     | .packet p rest => consF p (netRun c body max k f (some 1) rest chunks)
     | .needMore n =>
       (match pull n 0 buf chunks with
        | .closed b => ([], if b.isEmpty then .eofClean else .eofPartial)
        | .got b chs => netRun c body max k f none b chs)
     | .swallowed n rest =>
       (match pull n 0 rest chunks with
        | .closed b => ([], if b.isEmpty then .eofClean else .eofPartial)
        | .got b chs => netRun c body max k f none b chs)
     | .tooLarge => ([], .error .tooLarge)
     | .badLength => ([], .error .badLength)
     | .malformed _ => ([], .error .malformed)
     | .panic _ => ([], .error .panic))
  | f + 1, some held, buf, chunks =>
    (match decode1 c body max buf with
     | .packet p rest =>
       if held + 1 ≥ k then consF p (netRun c body max k f none rest chunks)
       else consF p (netRun c body max k f (some (held + 1)) rest chunks)
     | .needMore _ => netRun c body max k f none buf chunks
     | .swallowed _ rest => netRun c body max k f none rest chunks
     | .tooLarge => ([], .error .tooLarge)
     | .badLength => ([], .error .badLength)
     | .malformed _ => ([], .error .malformed)
     | .panic _ => ([], .error .panic))

/-- fuel that always suffices for `netRun`: every iteration removes a frame (≥ 2 bytes) from the
    buffer, or takes ≥ 1 chunk from the socket, or leaves `readv` -/
def netFuel (buf : ByteList) (chunks : List ByteList) : Nat :=
  2 * (buf.length + chunks.flatten.length + chunks.length) + 2

def netLoop (c : Copy) (body : FixedHeader → ByteList → Except (BodyErr ε) Pkt) (max : Limit)
    (k : Nat) (chunks : List ByteList) : List Pkt × Final :=
  netRun c body max k (netFuel [] chunks) none [] chunks

/-- `Network::readv(packets)` on a buffer: `read_mut` until `InsufficientBytes` (→ `Ok`), an error,
    or `packets.len() >= max_connection_buffer_len` *after* a push. Returns the packets appended,
    the buffer left, and the error if any. -/
def readv (c : Copy) (body : FixedHeader → ByteList → Except (BodyErr ε) Pkt) (max : Limit) (k : Nat) :
    Nat → Nat → ByteList → List Pkt × ByteList × Option ErrKind
  | 0, _, buf => ([], buf, none)
  | f + 1, held, buf =>
    match decode1 c body max buf with
    | .packet p rest =>
      if held + 1 ≥ k then ([p], rest, none)
      else
        ((p :: (readv c body max k f (held + 1) rest).1),
         (readv c body max k f (held + 1) rest).2)
    | .needMore _ => ([], buf, none)
    | .tooLarge => ([], buf, some .tooLarge)
    | .badLength => ([], buf, some .badLength)
    | .malformed rest => ([], rest, some .malformed)
    | .panic rest => ([], rest, some .panic)
    | .swallowed _ rest => ([], rest, none)

/-- `RemoteLink::start`: `read()` one packet, push it into the (drained) shared buffer, `readv`
    the rest of what is buffered; one list per iteration. With everything delivered in one chunk
    this is what the broker link does with a burst. -/
def linkBatches (c : Copy) (body : FixedHeader → ByteList → Except (BodyErr ε) Pkt) (max : Limit) (k : Nat) :
    Nat → ByteList → List (List Pkt) × Tail
  | 0, buf => ([], .more buf)
  | f + 1, buf =>
    match decode1 c body max buf with
    | .packet p rest =>
      (match (readv c body max k (rest.length + 1) 1 rest).2.2 with
       | none =>
         (((p :: (readv c body max k (rest.length + 1) 1 rest).1) ::
            (linkBatches c body max k f (readv c body max k (rest.length + 1) 1 rest).2.1).1),
          (linkBatches c body max k f (readv c body max k (rest.length + 1) 1 rest).2.1).2)
       | some e => ([p :: (readv c body max k (rest.length + 1) 1 rest).1], .error e))
    | .needMore _ => ([], .more buf)
    | .tooLarge => ([], .error .tooLarge)
    | .badLength => ([], .error .badLength)
    | .malformed _ => ([], .error .malformed)
    | .panic _ => ([], .error .panic)
    | .swallowed _ rest => ([], .more rest)

/-- client `Network::readb` (rumqttc/src/framed.rs, v5/framed.rs): `count` starts at 1, is
    incremented after every handled packet and the loop breaks at `count >= max_readb_count`
    (field initialised to 10): one call hands at most `max (max_readb_count - 1) 1` = 9 of the
    packets `Framed` has ready to the state machine, the rest stay for the next call. -/
def readbTake (maxReadbCount : Nat) (ready : List Pkt) : List Pkt × List Pkt :=
  (ready.take (Nat.max (maxReadbCount - 1) 1), ready.drop (Nat.max (maxReadbCount - 1) 1))

/-- repeated `readb` calls over a burst of ready packets -/
def readbBatches (maxReadbCount : Nat) : Nat → List Pkt → List (List Pkt)
  | 0, _ => []
  | _ + 1, [] => []
  | f + 1, p :: ps =>
    (readbTake maxReadbCount (p :: ps)).1 :: readbBatches maxReadbCount f (readbTake maxReadbCount (p :: ps)).2

end

/-! ### Executable monitor vocabulary (used by the driver on the implementation's outputs) -/

/-- framing facts about a buffer that do not depend on the copy or the body reader -/
inductive Shape where
  /-- header incomplete; the code asks for `n` more bytes -/
  | headerIncomplete (n : Nat)
  /-- four continuation bytes: malformed remaining length -/
  | badLength
  /-- header complete, remaining length above the limit -/
  | oversize (remaining : Nat)
  /-- header complete, within the limit, `missing` bytes of the frame not yet there -/
  | frameIncomplete (frameLen missing : Nat)
  /-- the whole frame is in the buffer -/
  | complete (fh : FixedHeader)
deriving DecidableEq, Repr

def shape (max : Limit) (bs : ByteList) : Shape :=
  match parseFixedHeader bs with
  | .insufficient n => .headerIncomplete n
  | .malformedLen => .badLength
  | .ok fh =>
    if exceeds max fh.remainingLen then .oversize fh.remainingLen
    else if bs.length < fh.frameLen then .frameIncomplete fh.frameLen (fh.frameLen - bs.length)
    else .complete fh

end Frame
