/-
The MQTT topic rules, written independently of the code (levels, not strings).
Used by the C12 theorems; import-free.
-/
import Model.Topic
namespace Topic

/-- a level without wildcard characters -/
def LevelPlain (l : Level) : Prop := '+' ∉ l ∧ '#' ∉ l

/-- MQTT matching on level lists: `#` (last) matches the parent and any number of levels,
    `+` exactly one level, anything else literally. -/
inductive Matches : List Level → List Level → Prop
  | hash (ts : List Level) : Matches ts [['#']]
  | nil : Matches [] []
  | plus {t : Level} {ts fs : List Level} : Matches ts fs → Matches (t :: ts) (['+'] :: fs)
  | lit {l : Level} {ts fs : List Level} : l ≠ ['+'] → l ≠ ['#'] → Matches ts fs →
      Matches (l :: ts) (l :: fs)

/-- wildcards only as whole levels, `#` only last -/
def FilterLevelsOk : List Level → Prop
  | [] => True
  | [l] => LevelPlain l ∨ l = ['+'] ∨ l = ['#']
  | l :: ls => (LevelPlain l ∨ l = ['+']) ∧ FilterLevelsOk ls

def ValidFilter (f : Str) : Prop := f ≠ [] ∧ FilterLevelsOk (splitLevels f)

def ValidTopic (t : Str) : Prop := ∀ l ∈ splitLevels t, LevelPlain l

/-- the rule of the MQTT spec plus this code base's documented stricter `$` rule -/
def MatchesSpec (t f : Str) : Prop :=
  t.head? ≠ some '$' ∧ Matches (splitLevels t) (splitLevels f)

end Topic
