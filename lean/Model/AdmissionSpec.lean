/-
C19 (network part) — the admission rule stated independently of `Admission.mqttConnect`:
"a network connection becomes a session only if its first packet is a CONNECT of the listener's
protocol version with a non-zero keep-alive, a client id that is non-empty unless clean-session,
and, when the listener has credentials or an authentication callback configured, credentials
that the configuration accepts".
Executable (the driver's monitor evaluates it on the implementation's answers).
-/
import Model.Admission

namespace AdmissionSpec
open Admission Codec

/-- credentials that the configuration accepts: nothing configured — anything goes; a callback —
    it decides on (client id, user, password); else the static table contains the pair -/
def credentialsAccepted (a : AuthConfig) (login : Option Login) (clientId : Bytes) : Bool :=
  match a.external, a.static, login with
  | none, none, _ => true
  | _, _, none => false
  | some f, _, some l => f clientId l.username l.password
  | none, some pairs, some l => pairs.any (fun kv => kv.1 == l.username && kv.2 == l.password)

/-- first byte of a CONNECT frame: packet type 1 -/
def startsWithConnect (bytes : Bytes) : Bool :=
  match bytes with
  | b :: _ => b.toNat / 16 == 1
  | [] => false

/-- protocol name and level as they stand on the wire in a CONNECT frame: fixed-header byte,
    remaining length (1–4 bytes), 16-bit length + name, level byte -/
def wireNameLevel (bytes : Bytes) : Option (Bytes × Nat) :=
  match bytes with
  | _ :: r =>
    let body := (r.dropWhile (fun b => b.toNat ≥ 128)).drop 1
    match body with
    | hi :: lo :: r' =>
      let n := hi.toNat * 256 + lo.toNat
      (match (r'.drop n).head? with
       | some lv => if r'.length > n then some (r'.take n, lv.toNat) else none
       | none => none)
    | _ => none
  | [] => none

/-- "a CONNECT of the listener's protocol version": the level byte ON THE WIRE is the listener's
    (4 for `V4`, 5 for `V5`) and the protocol name is `MQTT` -/
def wireVersionOk (cfg : Config) (bytes : Bytes) : Bool :=
  wireNameLevel bytes == some ([77, 81, 84, 84], cfg.version.level)

/-- the conditions under which a connection may proceed to the routing core -/
def mayProceed (cfg : Config) (bytes : Bytes) (c : Connect) : Bool :=
  startsWithConnect bytes && c.level == cfg.version.level && c.keepAlive != 0
    && (!c.clientId.isEmpty || c.clean) && credentialsAccepted cfg.auth c.login c.clientId

/-- a CONNACK frame with return / reason code 0 at the head of what was written back -/
def successConnack (written : Bytes) : Bool :=
  match written with
  | b0 :: _ :: _ :: code :: _ => b0.toNat == 0x20 && code.toNat == 0
  | _ => false

end AdmissionSpec
