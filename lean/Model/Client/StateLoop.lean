/-
The pieces of the event loop (/repo/rumqttc/src/eventloop.rs, v5/eventloop.rs) that the
client-state properties C07/C02/C10/C11 mention:

* `selectEnabled` — the guard of the request branch of `select!`:
    `pending_ready || (self.pending.is_empty() && !inflight_full && !collision)` with
    `inflight_full = state.inflight >= <limit>` (v4: `mqtt_options.inflight`, the value the state
    was created with; v5: `state.max_outgoing_inflight`), `collision = state.collision.is_some()`
    and `pending_ready` = the head of `pending` owns a packet id (a retransmission: never held
    back) or the window is open (a request without an id obeys flow control like the channel);
* `loopClean` — `EventLoop::clean`: what `state.clean()` returns is put IN FRONT of what was still
    waiting in `pending`, then the requests still in the channel are appended, `Request::PubAck`
    dropped (`PubRec` is NOT dropped);
* `sstep` — one operation on the bare state machine as the harness `vh cstate` performs it
    (call, drain `events`, look at `clean()` of a clone, `collision`, `inflight()`): produces the
    observation `Obs` the monitors of `Model/Client/Spec.lean` read;
* `lstep` — the loop's use of the state machine: `next_request` prefers `pending` (its head is
    taken when `pending_ready`), a user request is taken from the channel only when `pending` is
    empty and the window is open, pings and incoming packets are not gated, a connection error
    runs `clean`, a CONNACK without `session_present` clears `pending`. (Timing, batching, the channel and the reconnect handshake
    belong to the later event-loop slice.)
Import-free apart from the state model.
-/
import Model.Client.State
namespace Client

/-- `!inflight_full && !collision`: a NEW request may be taken -/
def windowOpen (s : State) : Bool := !decide (s.inflight ≥ s.maxInflight) && !s.collision.isSome

/-- `pending_ready`: the head of `pending` is a retransmission (owns a packet id: never held back)
    or the window is open -/
def pendingReady (s : State) : List Request → Bool
  | [] => false
  | .publish p :: _ => p.pkid != 0 || windowOpen s
  | .pubrel _ :: _ => true
  | _ :: _ => windowOpen s

/-- guard of the request branch in `EventLoop::select` -/
def selectEnabled (s : State) (pending : List Request) : Bool :=
  pendingReady s pending || (pending.isEmpty && windowOpen s)

def keepOnClean : Request → Bool
  | .puback _ => false
  | _ => true

/-- `EventLoop::clean` (`none` = `state.clean()` panicked) -/
def loopClean (s : State) (pending channel : List Request) : Option (State × List Request) :=
  match clean s with
  | none => none
  | some r => some (r.1, r.2 ++ pending ++ channel.filter keepOnClean)

/-- operations of the correspondence harness on the bare state machine -/
inductive SOp
  | out (r : Request)
  | inc (p : Incoming)
  | clean
  /-- `pending.clear()` of a reconnect without `session_present`; no call on the state -/
  | drop
  | inflight
  deriving DecidableEq, Repr, Inhabited

/-- what is observed of one operation through the public API -/
structure Obs where
  op : SOp
  outcome : Outcome
  /-- the list returned by the `clean` op (empty for other ops) -/
  cleaned : List Request
  /-- `events` drained after the op -/
  events : List Event
  /-- `clean()` of a clone after the op -/
  view : List Request
  col : Option Pub
  inf : Nat
  ping : Bool
  deriving DecidableEq, Repr, Inhabited

def mkObs (op : SOp) (o : Outcome) (cleaned : List Request) (evs : List Event) (s : State) : Obs :=
  { op, outcome := o, cleaned, events := evs, view := cleanRequests s, col := s.collision,
    inf := s.inflight, ping := s.awaitPingresp }

/-- state after one harness operation (events drained) -/
def sstepSt (s : State) (op : SOp) : State :=
  match op with
  | .out r => drainEvents (handleOutgoing s r).1
  | .inc p => drainEvents (handleIncoming s p).1
  | .clean => if cleanPanics s then s else cleanState s
  | .drop => s
  | .inflight => s

def sstepObs (s : State) (op : SOp) : Obs :=
  match op with
  | .out r => mkObs op (handleOutgoing s r).2 [] (handleOutgoing s r).1.events (sstepSt s op)
  | .inc p => mkObs op (handleIncoming s p).2 [] (handleIncoming s p).1.events (sstepSt s op)
  | .clean =>
    if cleanPanics s then mkObs op .panic [] [] s
    else mkObs op (.ok none) (cleanRequests s) [] (sstepSt s op)
  | .drop => mkObs op (.ok none) [] [] s
  | .inflight => mkObs op (.ok none) [] [] s

def sstep (s : State) (op : SOp) : State × Obs := (sstepSt s op, sstepObs s op)

/-! ### the loop's use of the state machine -/

/-- requests a user can put into the channel through `AsyncClient` (fresh publishes carry no id;
    v5 topic aliases on outgoing publishes are left out of the theorems' scope) -/
inductive UserReq
  | publish (qos tag : Nat)
  | subscribe (nfilters : Nat)
  | unsubscribe
  | disconnect
  | puback (pkid : Nat)
  | pubrec (pkid : Nat)
  deriving DecidableEq, Repr, Inhabited

def UserReq.toRequest : UserReq → Request
  | .publish q t => .publish { qos := q, pkid := 0, tag := t }
  | .subscribe n => .subscribe n
  | .unsubscribe => .unsubscribe
  | .disconnect => .disconnect
  | .puback i => .puback i
  | .pubrec i => .pubrec i

inductive LOp
  /-- a request waits in the channel; taken iff `pending` is empty and the gate is open -/
  | user (u : UserReq)
  /-- `next_request` pops the head of `pending` (no-op when empty or not `pending_ready`) -/
  | pend
  /-- keep-alive timer fires -/
  | ping
  | inc (p : Incoming)
  /-- connection error: `EventLoop::clean` (channel empty at this level) -/
  | fail
  /-- reconnect, CONNACK without `session_present`: `pending.clear()` -/
  | newSession
  deriving DecidableEq, Repr, Inhabited

structure LState where
  st : State
  pending : List Request
  deriving Repr, Inhabited

/-- the state-machine operation the loop performs for `op`; `none` = branch disabled -/
def lop? (l : LState) : LOp → Option SOp
  | .user u => if l.pending.isEmpty && selectEnabled l.st l.pending then some (.out u.toRequest) else none
  | .pend =>
    (match l.pending with
     | [] => none
     | r :: _ => if pendingReady l.st l.pending then some (.out r) else none)
  | .ping => some (.out .pingreq)
  | .inc p => some (.inc p)
  | .fail => some .clean
  | .newSession => some .drop

def lpending (l : LState) (op : LOp) (o : Obs) : List Request :=
  match op with
  | .pend => l.pending.tail
  | .fail => o.cleaned ++ l.pending
  | .newSession => []
  | _ => l.pending

def lstep (l : LState) (op : LOp) : LState × Option Obs :=
  match lop? l op with
  | none => (l, none)
  | some sop => ({ st := sstepSt l.st sop, pending := lpending l op (sstepObs l.st sop) }, some (sstepObs l.st sop))

def LState.new (ver : Version) (max : Nat) (manualAcks : Bool) : LState :=
  { st := State.new ver max manualAcks, pending := [] }

def lrun (l : LState) (ops : List LOp) : LState := ops.foldl (fun l op => (lstep l op).1) l

/-- the observations produced along a run -/
def ltrace : LState → List LOp → List Obs
  | _, [] => []
  | l, op :: ops =>
    match (lstep l op).2 with
    | none => ltrace (lstep l op).1 ops
    | some o => o :: ltrace (lstep l op).1 ops

end Client
