/-
Client.LoopSpec — independent, executable statements of what C18 and the loop-level clauses of
C02 / C07 / C10 / C11 demand of an *observed* session of the event loop, written over a trace
of timestamped items (what the scripted broker wrote and read, what the user requested, what
`poll()` returned) — nothing here refers to the loop model. The driver evaluates `monStep` on the
IMPLEMENTATION's trace; the theorems in Proofs/Props/C18.lean and CLoop.lean prove the
corresponding facts for the model (`Client.Timer`, `Client.Loop`).

Readings (DESIGN 7.0): a PINGREQ is "answered within the interval" when the broker writes a
PINGRESP after it and strictly before `t + k`; "unacknowledged" = the broker has not yet written
the final acknowledgement (PUBACK for QoS 1, PUBCOMP for QoS 2); original order = order of the
first transmission of each message (identified by its content tag).
-/
import Model.Client.Loop
namespace Client.LoopSpec
open Client.Loop Client.Timer

/-! ### what a read batch must amount to (C10): the packets handled one after the other -/

structure Fold (σ : Type) where
  st : σ
  events : List Event
  replies : List Pkt

/-- hand the packets to the state machine in wire order, notifications and replies concatenated
    in that order; `none` if one of them is rejected -/
def foldIn {σ} (ops : StateOps σ) (st : σ) : List Pkt → Option (Fold σ)
  | [] => some ⟨st, [], []⟩
  | p :: ps =>
    match (ops.handleIncoming st p).err with
    | some _ => none
    | none =>
      match foldIn ops (ops.handleIncoming st p).st ps with
      | none => none
      | some f => some ⟨f.st, (ops.handleIncoming st p).events ++ f.events,
                        (ops.handleIncoming st p).out.toList ++ f.replies⟩

/-- packets one `readb` can surface: the counter starts at 1 and stops the loop at `max_readb_count` -/
def batchMax : Nat := maxReadbCount - 1

/-- one item of an observed session (times in virtual ms) -/
inductive Item where
  /-- session parameters: version, keep-alive (ms), connection timeout (ms), inflight limit -/
  | start (ver : Ver) (keepAlive ct max : Nat)
  /-- input: the scripted broker wrote a complete packet -/
  | brokerWrite (t : Nat) (p : Pkt) (serverKeepAlive : Option Nat)
  /-- input: the broker dropped the connection -/
  | brokerClose (t : Nat)
  /-- input: a user request was accepted by the channel -/
  | userReq (t : Nat) (r : Req)
  /-- the broker read a packet from the wire -/
  | wire (t : Nat) (p : Pkt)
  /-- the broker saw the client drop the transport -/
  | wireEof (t : Nat)
  /-- `poll()` returned `Ok(event)` -/
  | event (t : Nat) (e : Event)
  /-- `poll()` returned `Err`; `pending` is `EventLoop.pending` after the call -/
  | error (t : Nat) (e : Err) (pending : List Req)
  /-- `pending.len()`, `inflight`, collision, `await_pingresp` when `poll()` returned -/
  | snap (t : Nat) (pending inflight : Nat) (collision awaitPing : Bool)
  /-- a `run` of the harness ended with the loop idle at time `t` -/
  | runEnd (t : Nat)
  /-- input (MQTT 5): the CONNACK just written carries `receive_maximum = n` -/
  | receiveMax (n : Nat)
deriving Repr

/-- a message the broker has seen and not finally acknowledged -/
structure Unacked where
  tag : String
  qos : Nat
  pkid : Nat
  /-- position in the order of first transmissions -/
  ord : Nat
  /-- the broker wrote PUBREC for it (QoS 2) -/
  recd : Bool := false
  /-- it was parked on an id collision and written by the PUBCOMP handler -/
  viaComp : Bool := false
deriving Repr

structure MonState where
  ver : Ver := .v4
  k : Nat := 0
  ct : Nat := 0
  /-- the inflight limit in force: the configured one, lowered by an MQTT 5 `receive_maximum` -/
  max : Nat := 0
  /-- the client's configured inflight limit -/
  cfgMax : Nat := 0
  -- C18 --------------------------------------------------------------------------------
  connected : Bool := false
  /-- time of the CONNACK notification or of the last firing of the keep-alive branch -/
  lastFire : Nat := 0
  /-- time of the CONNACK notification or of the last PINGRESP the broker wrote -/
  lastResp : Nat := 0
  /-- PINGREQ not yet answered: time it was written -/
  outstanding : Option Nat := none
  /-- every PINGREQ so far was answered strictly before its interval ended -/
  hypOk : Bool := true
  /-- connection attempt in progress: time the CONNECT was seen -/
  attempt : Option Nat := none
  /-- a complete CONNACK was written for the attempt at this time -/
  connackAt : Option Nat := none
  -- loop clauses ----------------------------------------------------------------------
  /-- ghost wire view: messages seen on the wire without final acknowledgement written -/
  unacked : List Unacked := []
  nextOrd : Nat := 0
  /-- the broker wrote its PUBACKs in the order of first transmission so far -/
  acksInOrder : Bool := true
  /-- `pending` reported by the last failure, still to be seen on the wire after a resume -/
  expect : List Req := []
  /-- the current connection resumed a session (`session_present`) -/
  resumed : Bool := false
  /-- tags carried over WITH a packet id by the last failure: the client had accepted (and, as far
      as it knows, sent) them on the failed connection, even if the broker never saw them -/
  carriedReplay : List String := []
  /-- messages written (again or for the first time) on the current connection -/
  reSent : List String := []
  /-- `ord` of the last retransmitted QoS 1 publish on this connection -/
  lastReOrd : Option Nat := none
  /-- the previous connection failed while carried-over requests were still waiting -/
  replayInterrupted : Bool := false
  /-- tags retransmitted so far on this connection / carried over by the last failure -/
  carried : List String := []
  /-- packets the broker wrote on this connection and the loop has not surfaced yet -/
  toSurface : List Pkt := []
  /-- the same for the previous connection: what its last `readb` handled before the error is
      surfaced (in order) by the first polls after the reconnect -/
  staleSurface : List Pkt := []
  /-- last snapshot: pending.len(), inflight, collision -/
  snapPending : Nat := 0
  snapInflight : Nat := 0
  snapCollision : Bool := false
  /-- id parked by the last `AwaitAck` notification (until the ack handler writes the parked
      publish, or `clean()` moves it into `pending`) -/
  parked : Option Nat := none
  /-- the broker released the parked id with a PUBCOMP (not a PUBACK) -/
  parkedByComp : Bool := false
  /-- the broker completed a QoS 2 flow (wrote a PUBCOMP) in this session -/
  pubcompSeen : Bool := false
  /-- a SUBSCRIBE / UNSUBSCRIBE was written (it consumes a packet id of the publish window) -/
  subIdSeen : Bool := false
deriving Repr

abbrev Fails := List (String × String)

def reqTagOf : Req → Option String
  | .publish _ _ tag => some tag
  | _ => none

/-- does `pending` hold message `u` (as the publish itself, or as its release once PUBREC was written) -/
def heldIn (pending : List Req) (u : Unacked) : Bool :=
  pending.any fun r =>
    match r with
    | .publish _ _ tag => tag == u.tag
    | .pubrel id => u.recd && id == u.pkid
    | _ => false

/-- request-type packets (what `pending` can produce on the wire) -/
def wireAsReq : Pkt → Option Req
  | .publish q id _ tag => some (.publish q id tag)
  | .pubrel id => some (.pubrel id)
  | .subscribe _ => some .subscribe
  | .unsubscribe _ => some .unsubscribe
  | .disconnect => some .disconnect
  | _ => none

/-- `carried` (an entry of `pending`) against what was written; a carried-over publish that was
    never sent has no packet id yet (0) and gets one when it is written -/
def sameReq : Req → Req → Bool
  | .publish q i t, .publish q' i' t' => q == q' && (i == i' || i == 0) && t == t'
  | .pubrel i, .pubrel i' => i == i'
  | .pubrec i, .pubrec i' => i == i'
  | .puback i, .puback i' => i == i'
  | .subscribe, .subscribe => true
  | .unsubscribe, .unsubscribe => true
  | .disconnect, .disconnect => true
  | _, _ => false

def showReq : Req → String
  | .publish q i t => s!"publish({q},{i},{t})"
  | .pubrel i => s!"pubrel({i})"
  | .puback i => s!"puback({i})"
  | .pubrec i => s!"pubrec({i})"
  | .subscribe => "subscribe"
  | .unsubscribe => "unsubscribe"
  | .disconnect => "disconnect"

def armedM (m : MonState) : Bool := armed m.ver m.k

/-- keep-alive branch fired at `t` (PINGREQ or AwaitPingResp): at most `k` after the previous one -/
def checkFire (m : MonState) (t : Nat) : Fails :=
  if m.connected && armedM m && decide (m.lastFire + m.k < t) then
    [("c18-ping-late", s!"fired at {t}, previous firing / CONNACK at {m.lastFire}, keep-alive {m.k}")]
  else []

/-- the loop is idle at `t`: the next PINGREQ must not be overdue, a silent broker must have been
    detected, an unanswered connection attempt must have timed out -/
def checkIdle (m : MonState) (t : Nat) : Fails :=
  (if m.connected && armedM m && decide (m.lastFire + m.k < t) then
    [("c18-ping-late", s!"no PINGREQ by {t}, previous firing / CONNACK at {m.lastFire}, keep-alive {m.k}")] else []) ++
  (if m.connected && armedM m && decide (0 < m.k) && decide (m.lastResp + 2 * m.k < t) then
    [("c18-silent-not-detected", s!"still connected at {t}, last answer at {m.lastResp}, keep-alive {m.k}")] else []) ++
  (match m.attempt with
   | some a =>
     if m.connackAt.isNone && decide (a + m.ct < t) then
       [("c18-timeout", s!"attempt started at {a} unanswered, no timeout by {t}, connection timeout {m.ct}")] else []
   | none => [])

def verName : Ver → String
  | .v4 => "v4"
  | .v5 => "v5"

def monStep (m : MonState) : Item → MonState × Fails
  | .start ver k ct max => ({ ver := ver, k := k, ct := ct, max := max, cfgMax := max }, [])
  | .brokerWrite t p ska =>
    match p with
    | .pingresp =>
      let m1 := { m with lastResp := t, toSurface := m.toSurface ++ [p] }
      match m.outstanding with
      | some tp =>
        if t < tp + m.k then ({ m1 with outstanding := none }, [])
        else ({ m1 with outstanding := none, hypOk := false }, [])
      | none => (m1, [])
    | .connack _ code =>
      let m1 := { m with connackAt := if m.connackAt.isNone then some t else m.connackAt }
      -- v5: `server_keep_alive` replaces the configured keep-alive
      let m2 := match m.ver, ska with
        | .v5, some s => if code == 0 then { m1 with k := s * 1000 } else m1
        | _, _ => m1
      (m2, [])
    | .puback id =>
      -- final acknowledgement of a QoS 1 message; in order = it is the oldest unacked QoS 1
      let oldest := (m.unacked.filter (·.qos == 1)).foldl (fun a u => match a with
        | none => some u.ord
        | some o => some (min o u.ord)) none
      let hit := m.unacked.find? (fun u => u.qos == 1 && u.pkid == id)
      -- a PUBACK for nothing outstanding (duplicate / unsolicited) is not "acknowledging in order"
      let ordered := match hit, oldest with
        | some u, some o => u.ord == o
        | _, _ => false
      ({ m with unacked := m.unacked.filter (fun u => !(u.qos == 1 && u.pkid == id)),
                acksInOrder := m.acksInOrder && ordered,
                toSurface := m.toSurface ++ [p] }, [])
    | .pubrec id =>
      ({ m with unacked := m.unacked.map (fun u => if u.qos == 2 && u.pkid == id then { u with recd := true } else u),
                toSurface := m.toSurface ++ [p] }, [])
    | .pubcomp id =>
      ({ m with unacked := m.unacked.filter (fun u => !(u.qos == 2 && u.pkid == id && u.recd)),
                toSurface := m.toSurface ++ [p], pubcompSeen := true,
                parkedByComp := if m.parked == some id then true else m.parkedByComp }, [])
    | _ => ({ m with toSurface := m.toSurface ++ [p] }, [])
  | .brokerClose _ => (m, [])
  | .userReq _ _ => (m, [])
  | .wire t p =>
    match p with
    | .connect _ _ =>
      ({ m with attempt := some t, connackAt := none, toSurface := [] }, [])
    | .pingreq =>
      let f1 := checkFire m t
      let f2 := if m.k == 0 then
        [("c18-zero-pings", s!"PINGREQ at {t} with keep-alive 0 ver={verName m.ver}")] else []
      -- a ping while the previous one is unanswered and its interval is over: the hypothesis of
      -- "no false alarm" is gone for this connection
      let hyp := m.hypOk && m.outstanding.isNone
      ({ m with lastFire := t, outstanding := some t, hypOk := hyp }, f1 ++ f2)
    | .publish q id _ tag =>
      let known := m.unacked.find? (·.tag == tag)
      -- C07 select gate: a publish that appears for the first time was taken from the channel
      -- (unless it is the one parked by AwaitAck, written by the ack handler)
      let fresh := known.isNone && !(m.carried.contains tag)
      -- the publish parked by the last AwaitAck (first time on the wire, on the parked id); it may be
      -- a carried-over request that was parked again during the replay: it left `expect` when it
      -- was handed over (AwaitAck), the ack handler writes it
      let isParked := known.isNone && m.parked == some id
      let gateFail : Fails :=
        if fresh && !isParked && m.expect.isEmpty && m.snapPending == 0 &&
            (decide (m.snapInflight ≥ m.max) || m.snapCollision) then
          [("loop-gate", s!"request {tag} taken at {t} with inflight={m.snapInflight} max={m.max} collision={m.snapCollision} (limit in force: configured {m.cfgMax}, negotiated {m.max})")]
        else []
      -- C11/C02 resume: carried-over requests first, in the order `clean` kept them
      -- (the publish parked by AwaitAck before the failure is older than anything merely queued:
      -- the ack handler writing it ahead of carried-over new requests is the original order)
      let (expect', orderFail) : List Req × Fails :=
        match m.expect with
        | e :: es =>
          if isParked then (m.expect, [])
          else if sameReq e (.publish q id tag) then (es, [])
          else if m.expect.any (sameReq (.publish q id tag)) then
            (m.expect.filter (fun r => !sameReq r (.publish q id tag)),
             [("loop-order", s!"{showReq (.publish q id tag)} written before carried-over {showReq e} replay-interrupted={m.replayInterrupted}")])
          else (m.expect, [("loop-order", s!"new request {tag} written before carried-over {showReq e} replay-interrupted={m.replayInterrupted}")])
        | [] => ([], [])
      -- C11 original order of retransmitted QoS 1 publishes (v4, broker acknowledged in order)
      let (lastRe, origFail) : Option Nat × Fails :=
        match known with
        | some u =>
          if u.qos == 1 && m.resumed then
            match m.lastReOrd with
            | some o =>
              if m.ver == .v4 && m.acksInOrder && decide (u.ord < o) then
                (some u.ord, [("loop-order", s!"retransmission of {tag} (sent {u.ord}th) after a message sent {o}th replay-interrupted={m.replayInterrupted} pubcomp-seen={m.pubcompSeen} sub-id-seen={m.subIdSeen}")])
              else (some u.ord, [])
            | none => (some u.ord, [])
          else (m.lastReOrd, [])
        | none => (m.lastReOrd, [])
      -- C11: a request that was never on the wire (issued after those) is not written on a resumed
      -- connection while a PUBLISH the broker has not acknowledged at all (no PUBACK / PUBREC written)
      -- still waits for its retransmission. (A QoS 2 message whose PUBREC was written only has its
      -- release outstanding; `clean()` lists releases behind all publishes, which the statement —
      -- "every publish left unacknowledged" — does not rule out.)
      let laterFail : Fails :=
        if known.isNone && m.resumed && !(m.carriedReplay.contains tag) then
          match m.unacked.find? (fun u => !u.recd && !(m.reSent.contains u.tag)) with
          | some u => [("loop-order", s!"request {tag} (never sent before) written at {t} before unacknowledged {u.tag} (id {u.pkid}) was retransmitted")]
          | none => []
        else []
      -- no session: a carried-over message must not be written
      let nosessFail : Fails :=
        if !m.resumed && m.carried.contains tag then
          [("loop-nosession", s!"carried-over {tag} written although the broker reported no session")] else []
      let unacked' :=
        if q == 0 then m.unacked
        else match known with
          | some _ => m.unacked.map (fun u => if u.tag == tag then { u with pkid := id } else u)
          | none => m.unacked ++ [{ tag := tag, qos := q, pkid := id, ord := m.nextOrd,
                                    viaComp := isParked && m.parkedByComp }]
      ({ m with unacked := unacked', nextOrd := if known.isNone && q != 0 then m.nextOrd + 1 else m.nextOrd,
                expect := expect', lastReOrd := lastRe,
                reSent := if q != 0 then m.reSent ++ [tag] else m.reSent,
                parked := if isParked then none else m.parked,
                parkedByComp := if isParked then false else m.parkedByComp },
       gateFail ++ orderFail ++ origFail ++ laterFail ++ nosessFail)
    | _ =>
      let isSub := match p with
        | .subscribe _ => true
        | .unsubscribe _ => true
        | _ => false
      -- C07: SUBSCRIBE / UNSUBSCRIBE read from the channel obey the same gate as publishes
      let subFails : Fails :=
        if isSub then
          -- … and so do those carried over in `pending`: a SUBSCRIBE / UNSUBSCRIBE never owns a packet id there,
          -- it is a new request whichever queue it waits in (repair 0971f35; wave-5 change C07-5 / C02-4)
          (if decide (m.snapInflight ≥ m.max) || m.snapCollision then
            [("loop-gate", s!"request {repr p} taken at {t} with inflight={m.snapInflight} max={m.max} collision={m.snapCollision} (limit in force: configured {m.cfgMax}, negotiated {m.max}) from={if m.expect.isEmpty && m.snapPending == 0 then "channel" else "pending"}")] else []) ++
          (if m.resumed then
            match m.unacked.find? (fun u => !u.recd && !(m.reSent.contains u.tag)) with
            | some u => [("loop-order", s!"request {repr p} written at {t} before unacknowledged {u.tag} (id {u.pkid}) was retransmitted")]
            | none => []
           else [])
        else []
      let m := match p with
        | .subscribe _ => { m with subIdSeen := true }
        | .unsubscribe _ => { m with subIdSeen := true }
        -- the release of a QoS 2 message is its retransmission once the PUBREC was written
        | .pubrel id => { m with reSent := m.reSent ++ (m.unacked.filter (fun (u : Unacked) => u.qos == 2 && u.pkid == id)).map (fun (u : Unacked) => u.tag) }
        | _ => m
      let r0 : MonState × Fails := (
        -- manual acknowledgements travel through `pending` too; an automatic reply of the same
        -- kind is not a request, so these only ever consume a matching head of `expect`
        let ackReq : Option Req := match p with
          | .pubrec id => some (.pubrec id)
          | .puback id => some (.puback id)
          | _ => none
        match ackReq, m.expect with
        | some a, e :: es => if sameReq e a then ({ m with expect := es }, []) else (m, [])
        | some _, [] => (m, [])
        | none, _ =>
        match wireAsReq p with
        | some r =>
          match m.expect with
          | e :: es =>
            if sameReq e r then ({ m with expect := es }, [])
            else if m.expect.any (sameReq r) then
              ({ m with expect := m.expect.filter (fun x => !sameReq x r) },
               [("loop-order", s!"{showReq r} written before carried-over {showReq e} replay-interrupted={m.replayInterrupted}")])
            else (m, [("loop-order", s!"new request {showReq r} written before carried-over {showReq e} replay-interrupted={m.replayInterrupted}")])
          | [] => (m, [])
        | none => (m, []))
      (r0.1, subFails ++ r0.2)
  | .wireEof _ => (m, [])
  | .event t e =>
    match e with
    | .incoming (.connack sp _) =>
      let m1 := { m with connected := true, lastFire := t, lastResp := t, outstanding := none, hypOk := true,
                         attempt := none, resumed := sp, lastReOrd := none, reSent := [],
                         expect := if sp then m.expect else [],
                         -- without a session the broker has forgotten everything
                         unacked := if sp then m.unacked else [] }
      (m1, [])
    | .incoming p =>
      -- C10: surfaced exactly once, in wire order
      match m.toSurface, m.staleSurface with
      | q :: qs, st =>
        if q == p then ({ m with toSurface := qs }, [])
        else match st with
          | q' :: qs' =>
            if q' == p then ({ m with staleSurface := qs' }, [])
            else (m, [("loop-batch-order", s!"surfaced {repr p} while the next packet on the wire was {repr q}")])
          | [] => (m, [("loop-batch-order", s!"surfaced {repr p} while the next packet on the wire was {repr q}")])
      | [], q' :: qs' =>
        if q' == p then ({ m with staleSurface := qs' }, [])
        else (m, [("loop-batch-order", s!"surfaced {repr p} while the next packet on the old wire was {repr q'}")])
      | [], [] => (m, [("loop-batch-order", s!"surfaced {repr p} which the broker never wrote")])
    | .outgoing (.awaitAck id) =>
      -- C02: `MqttState.collision` holds ONE publish; a second publish parked while the first is
      -- still waiting replaces it, and the first is never transmitted
      let lostFail : Fails :=
        if m.snapCollision then
          [("loop-lost", s!"publish parked on id {id} at {t} while another publish was still parked: collision slot overwritten, the earlier publish is dropped during-replay={!m.expect.isEmpty || m.snapPending != 0}")]
        else []
      let gateFail : Fails :=
        if m.expect.isEmpty && m.snapPending == 0 && (decide (m.snapInflight ≥ m.max) || m.snapCollision) then
          [("loop-gate", s!"request parked on id {id} taken at {t} with inflight={m.snapInflight} max={m.max} collision={m.snapCollision} (limit in force: configured {m.cfgMax}, negotiated {m.max})")]
        else []
      ({ m with parked := some id, parkedByComp := false, snapCollision := true,
                expect := match m.expect with
                  | (.publish _ _ _) :: es => es   -- the head of `pending` was handed over (and parked)
                  | es => es },
       lostFail ++ gateFail)
    | _ => (m, [])
  | .error t e pending =>
    let m0 := m
    -- C18 -----------------------------------------------------------------------------
    let f18 : Fails :=
      match e with
      | .awaitPingResp =>
        checkFire m t ++
        (if m.connected && decide (m.lastResp + 2 * m.k < t) then
          [("c18-silent-not-detected", s!"AwaitPingResp only at {t}, last answer at {m.lastResp}, keep-alive {m.k}")] else []) ++
        (let early := match m.outstanding with
            | some tp => decide (t < tp + m.k)
            | none => true
         if m.hypOk && early then
          [("c18-false-alarm", s!"AwaitPingResp at {t} although every PINGREQ was answered within {m.k} ms")] else [])
      | .timeout =>
        match m.attempt with
        | some a =>
          (if t != a + m.ct then
            [("c18-timeout", s!"timeout reported at {t}, attempt started at {a}, connection timeout {m.ct}")] else []) ++
          (match m.connackAt with
           | some c => if decide (c < a + m.ct) then
               [("c18-timeout", s!"timeout reported at {t} although the CONNACK was written at {c}")] else []
           | none => [])
        | none => [("c18-timeout", s!"timeout reported at {t} outside a connection attempt")]
      | _ =>
        -- an unanswered attempt may only end early for a reason other than the timer
        match m.attempt with
        | some a => if m.connackAt.isNone && decide (a + m.ct < t) then
            [("c18-timeout", s!"attempt started at {a} ended at {t} with {repr e}, connection timeout {m.ct}")] else []
        | none => []
    -- C02: everything unacknowledged is held for retransmission ------------------------
    let lost := m.unacked.filter (fun u => !heldIn pending u)
    let fLost : Fails := lost.map fun u =>
      ("loop-lost", s!"{u.tag} (qos {u.qos}, id {u.pkid}) unacknowledged at the failure at {t} but not in pending written-by-pubcomp-handler={u.viaComp}")
    let carried := pending.filterMap reqTagOf
    let carriedReplay := pending.filterMap (fun r => match r with
      | .publish _ pkid tag => if pkid != 0 then some tag else none
      | _ => none)
    ({ m0 with connected := false, attempt := none, connackAt := none, outstanding := none,
               expect := pending, carried := carried, carriedReplay := carriedReplay, toSurface := [],
               staleSurface := if m.connected then m.toSurface else m.staleSurface,
               replayInterrupted := if m.connected then !m.expect.isEmpty else m.replayInterrupted,
               -- `clean()` empties the collision slot (the parked publish is carried over in `pending`)
               parked := if m.connected then none else m.parked,
               parkedByComp := if m.connected then false else m.parkedByComp },
     f18 ++ fLost)
  | .snap _ p i c _ => ({ m with snapPending := p, snapInflight := i, snapCollision := c }, [])
  | .receiveMax n => ({ m with max := min n m.cfgMax }, [])
  | .runEnd t => (m, checkIdle m t)

def monRun (m : MonState) : List Item → MonState × Fails
  | [] => (m, [])
  | i :: is =>
    let r := monStep m i
    let r2 := monRun r.1 is
    (r2.1, r.2 ++ r2.2)

end Client.LoopSpec
