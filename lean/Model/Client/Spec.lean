/-
Ghost wire view and executable monitors for C07 / C02 / C10 / C11 (state-machine part).

A trace is the list of observations `Obs` of Model/Client/StateLoop.lean — op, returned packet or
error, drained events, `clean()` of a clone, `collision`, `inflight()` — produced either by the
model (`ltrace`, theorems in Proofs/Props) or by the real `MqttState` through `vh cstate`
(Driver/CStateD.lean). From the trace alone (never from the internal tables) `Ghost.step` maintains

* `unacked`  : the QoS>0 publishes put on the wire on the current connection whose PUBACK / PUBREC
               has not arrived, as `(pkid, tag)` in send order;
* `rels`     : ids whose PUBREL is on the wire of the current connection (PUBREC arrived, or the
               release was retransmitted) and whose PUBCOMP has not arrived; across a connection
               failure the release obligation is carried by `pending` (the `PubRel` requests);
               "unacknowledged" in C07's sense (final ack = PUBACK resp. PUBCOMP) = `unacked ++ rels`;
* `accepted` : tags of fresh QoS>0 publishes for which `handle_outgoing_packet` returned `Ok`
               (including `Ok(None)` = parked on a collision);
* `done`     : tags whose content acknowledgement (PUBACK, or PUBREC which hands the flow over to
               `rels`) arrived, or that were discarded by design (`drop` = session not present);
* `pending`  : requests returned by `clean` and not yet replayed (the loop's `pending`);
* `held`     : read off the observation: tags in `clean()`-of-a-clone, the collision slot, `pending`.

Readings: DESIGN.md 7.0. Import-free apart from the model.
-/
import Model.Client.StateLoop
namespace Client.Spec
open Client

/-! ### measures on the tables (used in theorem statements) -/

/-- number of occupied slots of `outgoing_pub` -/
def occ (l : List (Option Pub)) : Nat := l.countP Option.isSome
/-- number of bits set in `outgoing_rel` -/
def relCount (l : List Bool) : Nat := l.countP id
/-- slot `i` of `outgoing_pub` holds a publish -/
def occAt (s : State) (i : Nat) : Bool :=
  match s.outgoingPub[i]? with
  | some (some _) => true
  | _ => false
def slotTag (s : State) (i : Nat) : Option Nat :=
  match s.outgoingPub[i]? with
  | some (some p) => some p.tag
  | _ => none

/-! ### association-list helpers -/

def alookup (l : List (Nat × Nat)) (k : Nat) : Option Nat :=
  match l with
  | [] => none
  | (a, b) :: r => if a = k then some b else alookup r k

def aerase (l : List (Nat × Nat)) (k : Nat) : List (Nat × Nat) :=
  match l with
  | [] => []
  | (a, b) :: r => if a = k then r else (a, b) :: aerase r k

/-- remove the first element equal to `x` -/
def eraseFirst (l : List Request) (x : Request) : List Request :=
  match l with
  | [] => []
  | a :: r => if a = x then r else a :: eraseFirst r x

def pubTags (l : List Request) : List Nat :=
  l.filterMap (fun r => match r with | .publish p => some p.tag | _ => none)

def pubIds (l : List Request) : List Nat :=
  l.filterMap (fun r => match r with | .publish p => some p.pkid | _ => none)

def isUserRequest : Request → Bool
  | .publish p => p.pkid == 0
  | .subscribe _ => true
  | .unsubscribe => true
  | .disconnect => true
  | .puback _ => true
  | .pubrec _ => true
  | _ => false

/-- diagnostics only: why a clause fails (printed in the verdict detail so that a recorded finding
    can be pinned to its shape). Never read by a predicate. -/
structure Diag where
  /-- a CONNACK lowered the limit while publishes were outstanding / waiting for retransmission -/
  lowered : Bool := false
  deriving Repr, Inhabited

def Diag.causes (d : Diag) : List String :=
  if d.lowered then ["connack-lowered"] else []

structure Ghost where
  ver : Version
  upper : Nat
  /-- current inflight limit (v5: lowered by CONNACK receive_max) -/
  limit : Nat
  manual : Bool
  unacked : List (Nat × Nat)
  rels : List Nat
  accepted : List Nat
  done : List Nat
  pending : List Request
  /-- incoming QoS 2 ids received and not yet released (this connection) -/
  inQos2 : List Nat
  /-- v5 topic aliases the broker has registered (PUBLISH with a topic and an alias) -/
  aliases : List Nat
  /-- every user request so far was issued while the gate, computed from observables, was open -/
  gated : Bool
  /-- C11's hypothesis so far: only QoS ≤ 1 publishes sent, every PUBACK was for the oldest
      unacknowledged id, no PUBREC / PUBCOMP / release replay seen -/
  inOrder : Bool
  pView : List Request
  pCol : Option Pub
  pInf : Nat
  deriving Repr, Inhabited

def Ghost.init (ver : Version) (max : Nat) (manual : Bool) : Ghost :=
  { ver, upper := max, limit := max, manual, unacked := [], rels := [], accepted := [], done := [],
    pending := [], inQos2 := [], aliases := [], gated := true, inOrder := true, pView := [], pCol := none, pInf := 0 }

/-- `!inflight_full && !collision` as the loop evaluates it, from what was observable before the op -/
def Ghost.windowOpen (g : Ghost) : Bool := decide (g.pInf < g.limit) && g.pCol.isNone

/-- the gate for a request from the channel -/
def Ghost.gateOpen (g : Ghost) : Bool := g.pending.isEmpty && g.windowOpen

def addRel (l : List Nat) (i : Nat) : List Nat := if l.contains i then l else l ++ [i]

/-- requests the loop itself issues whatever the window says: the keep-alive ping and the head of
    `pending` when it is a retransmission (owns a packet id); a head of `pending` without an id
    obeys flow control. Anything else is a user request and must have found the gate open. -/
def Ghost.loopOwn (g : Ghost) : Request → Bool
  | .pingreq => true
  | .publish p => g.pending.head? == some (.publish p) && (p.pkid != 0 || g.windowOpen)
  | .pubrel i => g.pending.head? == some (.pubrel i)
  | _ => false

/-- wire bookkeeping for an `out` op -/
def Ghost.stepOut (g : Ghost) (r : Request) (o : Outcome) : Ghost :=
  let g := { g with gated := g.gated && (g.loopOwn r || (isUserRequest r && g.gateOpen)) }
  match r with
  | .publish p =>
    let fresh := p.pkid == 0
    let g := { g with pending := eraseFirst g.pending (.publish p),
                      inOrder := g.inOrder && decide (p.qos ≤ 1) }
    (match o with
     | .ok (some (.publish q)) =>
       if q.qos = 0 then g else
       { g with unacked := g.unacked ++ [(q.pkid, q.tag)],
                accepted := if fresh then q.tag :: g.accepted else g.accepted }
     | .ok none =>
       if p.qos = 0 then g else
       { g with accepted := if fresh then p.tag :: g.accepted else g.accepted }
     | _ => g)
  | .pubrel i =>
    let g := { g with pending := eraseFirst g.pending (.pubrel i), inOrder := false }
    (match o with
     | .ok (some (.pubrel j)) => { g with rels := addRel g.rels j }
     | _ => g)
  | _ => g

/-- MQTT 5: a PUBLISH with an empty topic and a topic alias that was never registered -/
def protocolError (g : Ghost) (q : InPub) : Bool :=
  match g.ver, q.alias with
  | .v5, some a => q.topicEmpty && !g.aliases.contains a
  | _, _ => false

/-- wire bookkeeping for an `in` op (independent of what the client answered) -/
def Ghost.stepIn (g : Ghost) (p : Incoming) : Ghost :=
  match p with
  | .puback i _ =>
    let ord := match g.unacked with
      | (j, _) :: _ => decide (j = i)
      | [] => false
    (match alookup g.unacked i with
     | some t => { g with unacked := aerase g.unacked i, done := t :: g.done, inOrder := g.inOrder && ord }
     | none => { g with inOrder := false })
  | .pubrec i _ =>
    (match alookup g.unacked i with
     | some t => { g with unacked := aerase g.unacked i, done := t :: g.done, inOrder := false }
     | none => { g with inOrder := false })
  | .pubcomp i _ => { g with rels := g.rels.filter (· != i), inOrder := false }
  | .publish q =>
    if protocolError g q then g else
    let g := match g.ver, q.alias with
      | .v5, some a => if q.topicEmpty then g else { g with aliases := addRel g.aliases a }
      | _, _ => g
    if q.qos = 0 || q.qos = 1 then g else { g with inQos2 := addRel g.inQos2 q.pkid }
  | .pubrel i _ => { g with inQos2 := g.inQos2.filter (· != i) }
  | .connack ok _ rm _ =>
    (match g.ver, ok, rm with
     | .v5, true, some m => { g with limit := min m g.upper }
     | _, _, _ => g)
  | _ => g

/-- packets an `in` op puts on the wire that open a flow: a parked publish released by the ack
    that freed its id; the PUBREL answering a PUBREC -/
def Ghost.released (g : Ghost) (o : Outcome) : Ghost :=
  match o with
  | .ok (some (.publish q)) => if q.qos = 0 then g else { g with unacked := g.unacked ++ [(q.pkid, q.tag)] }
  | .ok (some (.pubrel j)) => { g with rels := addRel g.rels j }
  | _ => g

/-- the ghost after one observation (diagnostics apart) -/
def Ghost.core (g : Ghost) (o : Obs) : Ghost :=
  let g1 := match o.op with
    | .out r => g.stepOut r o.outcome
    | .inc p => (g.stepIn p).released o.outcome
    | .clean =>
      (match o.outcome with
       | .ok _ => { g with pending := o.cleaned ++ g.pending, unacked := [], rels := [], inQos2 := [] }
       | _ => g)
    | .drop => { g with done := pubTags g.pending ++ g.done, pending := [] }
    | .inflight => g
  { g1 with pView := o.view, pCol := o.col, pInf := o.inf }

/-! ### predicates evaluated after every step (`g` before, `g'` after) -/

/-- packet ids the client chose itself: QoS>0 PUBLISH, SUBSCRIBE, UNSUBSCRIBE -/
def chosenId : Packet → Option Nat
  | .publish p => if p.qos = 0 then none else some p.pkid
  | .subscribe i => some i
  | .unsubscribe i => some i
  | _ => none

def unackedIds (g : Ghost) : List Nat := g.unacked.map (·.1) ++ g.rels

def colTag (c : Option Pub) : List Nat := match c with | some p => [p.tag] | none => []

/-- tags held for retransmission as visible through the API (DESIGN 7.0) -/
def heldTags (g' : Ghost) (o : Obs) : List Nat := pubTags o.view ++ colTag o.col ++ pubTags g'.pending

/-! ### diagnostics (shape of a failure) -/

def addCause (l : List String) (c : String) : List String := if l.contains c then l else l ++ [c]

def Diag.step (d : Diag) (g : Ghost) (o : Obs) (g' : Ghost) : Diag :=
  match o.op with
  | .inc (.connack _ _ _ _) =>
    if decide (g'.limit < g.limit) && (!(unackedIds g).isEmpty || !g.pending.isEmpty || g.pCol.isSome || g'.limit == 0)
    then { d with lowered := true } else d
  | _ => d

/-- the ghost after one observation; the diagnostics `Diag` are threaded separately -/
def Ghost.step (g : Ghost) (o : Obs) : Ghost := g.core o

/-- `g`, `d` before the step, `o` the observation, `g'`, `d'` after -/
abbrev Check := Ghost → Diag → Obs → Ghost → Diag → Option (String × String)

def chk (ok : Bool) (tag : String) (detail : String) : Option (String × String) :=
  if ok then none else some (tag, detail)

def firstFail (cs : List (Option (String × String))) : Option (String × String) :=
  cs.findSome? id

/-! #### C07 -/
def C07.range (g : Ghost) (o : Obs) (g' : Ghost) : Bool :=
  -- an id injected by a caller that is not the loop (`gated = false`) is not the client's choice
  !g'.gated ||
  match o.outcome with
  | .ok (some pkt) =>
    (match chosenId pkt with
     | some i => decide (1 ≤ i) && decide (i ≤ g.limit)
     | none => true)
  | _ => true

def C07.dupId (g' : Ghost) : Bool := !g'.gated || decide (unackedIds g').Nodup
def C07.window (g' : Ghost) : Bool := !g'.gated || decide ((unackedIds g').length ≤ g'.limit)
/-- flow resumes: window not full, no collision, nothing pending ⇒ the gate is open -/
def C07.resumes (g' : Ghost) (o : Obs) : Bool :=
  !g'.gated || !(o.col.isNone && g'.pending.isEmpty && decide ((unackedIds g').length < g'.limit))
    || decide (o.inf < g'.limit)
/-- a pending collision's id is held by an unacknowledged publish of the connection -/
def C07.resolvable (g' : Ghost) (o : Obs) : Bool :=
  !g'.gated ||
  match o.col with
  | some c => (unackedIds g').contains c.pkid
  | none => true

def dupKind (g' : Ghost) : String :=
  if !decide (g'.unacked.map (·.1)).Nodup then "unacked-twice"
  else if !decide g'.rels.Nodup then "release-twice"
  else "reused-while-awaiting-pubcomp"

def C07.checks : Check := fun g _ o g' d' => firstFail [
  chk (C07.range g o g') "c07-range" s!"limit={g.limit} causes={d'.causes}",
  chk (C07.dupId g') "c07-dup-id" s!"dup={dupKind g'} unacked={g'.unacked.map (·.1)} awaiting-comp={g'.rels} causes={d'.causes}",
  chk (C07.window g') "c07-window" s!"unacked={(unackedIds g').length} limit={g'.limit} causes={d'.causes}",
  chk (C07.resumes g' o) "c07-stuck" s!"unacked={(unackedIds g').length} limit={g'.limit} inflight={o.inf} causes={d'.causes}",
  chk (C07.resolvable g' o) "c07-collision-orphan" s!"unacked={unackedIds g'} causes={d'.causes}"]

/-! #### C02 -/
def C02.noLoss (g' : Ghost) (o : Obs) : Bool :=
  !g'.gated || g'.accepted.all (fun t => g'.done.contains t || (heldTags g' o).contains t)
def C02.relHeld (g' : Ghost) (o : Obs) : Bool :=
  !g'.gated || g'.rels.all (fun i => o.view.contains (.pubrel i))
/-- `clean()` hands over exactly what it held and leaves nothing behind -/
def C02.cleanExact (g : Ghost) (o : Obs) : Bool :=
  match o.op, o.outcome with
  | .clean, .ok _ => o.cleaned == g.pView && o.view.isEmpty && o.inf == 0
  | _, _ => true

/-- the PUBREC reason codes below 0x80 (MQTT 5, 3.5.2.1: 0x00 Success, 0x10 No matching
    subscribers): the broker has accepted the message and waits for the PUBREL; MQTT 3.1.1 has
    no reason code -/
def pubrecAccepts (ver : Version) (r : Nat) : Bool := decide (ver = .v4) || r == 0 || r == 16

/-- a PUBREC that accepts a publish of this connection is answered by PUBREL (which `relHeld` then
    requires to be held until PUBCOMP): the release obligation starts with the broker's answer,
    not with what the client makes of it -/
def C02.relAnswered (g : Ghost) (o : Obs) (g' : Ghost) : Bool :=
  !g'.gated ||
  match o.outcome with
  | .panic => true
  | _ =>
    match o.op with
    | .inc (.pubrec i r) =>
      if (alookup g.unacked i).isSome && pubrecAccepts g.ver r then o.outcome == .ok (some (.pubrel i)) else true
    | _ => true

def lostTags (g' : Ghost) (o : Obs) : List Nat :=
  g'.accepted.filter (fun t => !(g'.done.contains t || (heldTags g' o).contains t))

def C02.checks : Check := fun g _ o g' d' => firstFail [
  chk (C02.noLoss g' o) "c02-lost" s!"tags={lostTags g' o} causes={d'.causes}",
  chk (C02.relAnswered g o g') "c02-no-pubrel" "PUBREC with a non-error reason code not answered by PUBREL: the release is neither sent nor held",
  chk (C02.relHeld g' o) "c02-rel-lost" s!"awaiting-comp={g'.rels}",
  chk (C02.cleanExact g o) "c02-clean" "clean() differs from what it held or left something behind"]

/-! #### C10 -/
def isIncomingEv : Event → Bool | .incoming _ => true | _ => false

def C10.noPanic (o : Obs) : Bool :=
  match o.op, o.outcome with
  | .inc _, .panic => false
  | _, _ => true

/-- the received packet is surfaced exactly once, first; an `out` op surfaces none -/
def C10.order (o : Obs) : Bool :=
  match o.outcome with
  | .panic => true
  | _ =>
    match o.op with
    | .inc p =>
      (match o.events with
       | e :: rest => e == .incoming p && rest.all (fun e => !isIncomingEv e)
       | [] => false)
    | _ => o.events.all (fun e => !isIncomingEv e)

/-- answers: QoS1 → PUBACK(id), QoS2 → PUBREC(id), release of a known id → PUBCOMP(id);
    none of the first two on its own with manual acks -/
def C10.ack (g : Ghost) (o : Obs) : Bool :=
  match o.outcome with
  | .panic => true
  | _ =>
    match o.op with
    | .inc (.publish q) =>
      -- a protocol error is answered by DISCONNECT (reason 0x82), not by an acknowledgement
      if protocolError g q then o.outcome == .ok (some (.disconnect 130))
      else if q.qos = 0 then o.outcome == .ok none
      else if g.manual then o.outcome == .ok none
      else if q.qos = 1 then o.outcome == .ok (some (.puback q.pkid))
      else o.outcome == .ok (some (.pubrec q.pkid))
    | .inc (.pubrel i r) =>
      if g.inQos2.contains i then
        -- v5 release carrying a failure reason: judged by `C10.relAnswered`
        (if g.ver = .v5 && r != 0 then true else o.outcome == .ok (some (.pubcomp i)))
      else true
    | _ => true

/-- MQTT 5: a release of a known id is answered by PUBCOMP whatever its reason code -/
def C10.relAnswered (g : Ghost) (o : Obs) : Bool :=
  match o.outcome with
  | .panic => true
  | _ =>
    match o.op with
    | .inc (.pubrel i r) =>
      if g.inQos2.contains i && g.ver = .v5 && r != 0 then o.outcome == .ok (some (.pubcomp i)) else true
    | _ => true

/-- is this `in` op an acknowledgement the wire never solicited? -/
def unsolicitedAck (g : Ghost) : SOp → Option Nat
  | .inc (.puback i _) => if (alookup g.unacked i).isNone then some i else none
  | .inc (.pubrec i _) => if (alookup g.unacked i).isNone then some i else none
  | .inc (.pubcomp i _) => if g.rels.contains i then none else some i
  | _ => none

def C10.unsolicitedErr (g : Ghost) (o : Obs) : Bool :=
  match o.outcome with
  | .panic => true
  | _ =>
    match unsolicitedAck g o.op with
    | some i => o.outcome == .err (.unsolicited i)
    | none => true

def sameMultiset (a b : List Request) : Bool :=
  a.length == b.length && a.all (fun x => a.count x == b.count x)

/-- … and the observable bookkeeping is what it was before (7.0: inflight(), collision,
    `clean()` of a clone as a multiset) -/
def C10.unsolicitedKeeps (g : Ghost) (o : Obs) : Bool :=
  match o.outcome with
  | .panic => true
  | _ =>
    match unsolicitedAck g o.op with
    | some _ => o.inf == g.pInf && o.col == g.pCol && sameMultiset o.view g.pView
    | none => true

def outgoingOf : Packet → Outgoing
  | .publish p => .publish p.pkid
  | .puback i => .puback i
  | .pubrec i => .pubrec i
  | .pubrel i => .pubrel i
  | .pubcomp i => .pubcomp i
  | .subscribe i => .subscribe i
  | .unsubscribe i => .unsubscribe i
  | .pingreq => .pingreq
  | .disconnect _ => .disconnect

def isAwaitAck : Event → Bool | .outgoing (.awaitAck _) => true | _ => false

/-- the `Outgoing` notifications of one op, the `AwaitAck` marker excepted -/
def announced (evs : List Event) : List Event :=
  evs.filter (fun e => !isIncomingEv e && !isAwaitAck e)

/-- every written packet announced exactly once with matching kind and id; nothing else announced -/
def C10.notify (o : Obs) : Bool :=
  match o.outcome with
  | .panic => true
  | .ok (some pkt) => announced o.events == [.outgoing (outgoingOf pkt)]
  | _ => announced o.events == []

def C10.checks : Check := fun g _ o _ _ => firstFail [
  chk (C10.noPanic o) "c10-panic" "incoming packet made the state machine panic",
  chk (C10.order o) "c10-order" "incoming packet not surfaced exactly once and first",
  chk (C10.ack g o) "c10-ack" "wrong or missing answer",
  chk (C10.relAnswered g o) "c10-no-pubcomp" "release of a known id not answered by PUBCOMP",
  chk (C10.unsolicitedErr g o) "c10-unsolicited-accepted" "unsolicited acknowledgement not reported as error",
  chk (C10.unsolicitedKeeps g o) "c10-corrupt" s!"bookkeeping changed by an unsolicited ack: inflight {g.pInf}->{o.inf}",
  chk (C10.notify o) "c10-notify" "Outgoing notifications do not match the packet written"]

/-! #### C11 -/
/-- the publishes of a `clean()` list that have been on the wire (a publish parked on a collision
    is returned unnumbered, last) -/
def sentPubs (l : List Request) : List Request :=
  l.filter (fun r => match r with | .publish p => p.pkid != 0 | _ => false)

/-- v4, in-order acks so far: `clean()` would return the unacknowledged publishes in send order -/
def C11.order (g' : Ghost) (o : Obs) : Bool :=
  !(g'.ver = .v4 && g'.gated && g'.inOrder) ||
  match o.op with
  | .clean => true
  | _ => pubTags (sentPubs o.view) == g'.unacked.map (·.2) && pubIds (sentPubs o.view) == g'.unacked.map (·.1)

/-- the list `clean` returns is the view it had (so the order statement transfers), and a
    retransmitted publish goes to the wire with its original id and content -/
def C11.retransmitSame (o : Obs) : Bool :=
  match o.op, o.outcome with
  | .out (.publish p), .ok (some (.publish q)) => p.pkid == 0 || q == p
  | _, _ => true

def C11.checks : Check := fun _ _ o g' d' => firstFail [
  chk (C11.order g' o) "c11-order" s!"clean-order={pubIds (sentPubs o.view)} send-order={g'.unacked.map (·.1)} causes={d'.causes}",
  chk (C11.retransmitSame o) "c11-retransmit-changed" "retransmitted publish differs from the stored one"]

/-! ### trigger: the one corner case in which a clause is still violated. It originates in the
event loop (`eventloop.rs`), not in the state machine; the `_partial` theorems assume exactly that
it does not occur along the run (`Avoids`). -/

/-- #17 (v5, residual): a CONNACK lowers `max_outgoing_inflight` while more than that many messages
    are outstanding or waiting in `pending` (the loop replays `pending` without looking at the new
    limit), or to 0. Lowering is harmless when nothing is in use (the normal first CONNACK). -/
def unsafeConnack (l : LState) : LOp → Prop
  | .inc (.connack true _ (some m) _) =>
    l.st.ver = .v5 ∧
    ¬ (1 ≤ min m l.st.upperLimit ∧
        (l.st.maxInflight ≤ min m l.st.upperLimit ∨
          (l.st.inflight = 0 ∧ l.pending = [] ∧ l.st.collision = none)))
  | _ => False

/-- a run avoids a trigger -/
def Avoids (trig : LState → LOp → Prop) : LState → List LOp → Prop
  | _, [] => True
  | l, op :: ops => ¬ trig l op ∧ Avoids trig (lstep l op).1 ops

/-! ### monitors over a whole trace -/

inductive Verdict
  | ok
  | fail (step : Nat) (tag detail : String)
  deriving DecidableEq, Repr, Inhabited

def runChecks (c : Check) : Ghost → Diag → Nat → List Obs → Verdict
  | _, _, _, [] => .ok
  | g, d, n, o :: os =>
    match c g d o (g.step o) (d.step g o (g.step o)) with
    | some (t, dt) => .fail n t dt
    | none => runChecks c (g.step o) (d.step g o (g.step o)) (n + 1) os

def C07.check (g : Ghost) (t : List Obs) : Verdict := runChecks C07.checks g {} 0 t
def C02.check (g : Ghost) (t : List Obs) : Verdict := runChecks C02.checks g {} 0 t
def C10.check (g : Ghost) (t : List Obs) : Verdict := runChecks C10.checks g {} 0 t
def C11.check (g : Ghost) (t : List Obs) : Verdict := runChecks C11.checks g {} 0 t

end Client.Spec
