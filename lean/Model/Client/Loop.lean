/-
Client.Loop — `rumqttc::EventLoop::{poll, select, clean}`, `next_request`, `connect` /
`mqtt_connect` (eventloop.rs and its MQTT 5 twin v5/eventloop.rs) and
`framed::Network::{readb, write, flush}` (framed.rs, v5/framed.rs). Import-free apart from
`Model.Client.Timer`.

`MqttState` is NOT modelled here: the loop is parametric in a record of operations
(`StateOps σ`): `handleOutgoing`, `handleIncoming`, `clean`, the three values the select gate
reads (`inflight`, `maxInflight`, `collision`) and the keep-alive entry `outgoingPing`. Every
theorem in Proofs/Props/CLoop.lean holds for an arbitrary `StateOps`; the full client state
machine (`Model/Client/State.lean`, another slice) plugs in as one instance.

One `poll()` of a connected loop = `pollConnected s b`, where `b : Branch` is the `select!`
choice (an oracle: tokio picks randomly among the ready branches). `none` = that branch is
disabled or not ready in `s`. Time, the throttle sleep and readiness of the network are the
business of the caller (the driver's `run until`); the keep-alive part is `Client.Timer`.
-/
import Model.Client.Timer
namespace Client.Loop
open Client.Timer (Ver TState)

/-- requests that travel through the channel / `pending` -/
inductive Req where
  | publish (qos pkid : Nat) (tag : String)
  | pubrel (pkid : Nat)
  | puback (pkid : Nat)
  | pubrec (pkid : Nat)
  | subscribe
  | unsubscribe
  | disconnect
deriving DecidableEq, Repr

/-- packets on the wire (kind, id and a content tag: codecs are C04/C05's business) -/
inductive Pkt where
  | connect (keepAliveSecs : Nat) (clean : Bool)
  | connack (sp : Bool) (code : Nat)
  | publish (qos pkid : Nat) (dup : Bool) (tag : String)
  | puback (pkid : Nat)
  | pubrec (pkid : Nat)
  | pubrel (pkid : Nat)
  | pubcomp (pkid : Nat)
  | subscribe (pkid : Nat)
  | suback (pkid : Nat)
  | unsubscribe (pkid : Nat)
  | unsuback (pkid : Nat)
  | pingreq
  | pingresp
  | disconnect
deriving DecidableEq, Repr

/-- `Outgoing` notifications -/
inductive OutKind where
  | publish (pkid : Nat) | subscribe (pkid : Nat) | unsubscribe (pkid : Nat)
  | puback (pkid : Nat) | pubrec (pkid : Nat) | pubrel (pkid : Nat) | pubcomp (pkid : Nat)
  | pingreq | pingresp | disconnect | awaitAck (pkid : Nat)
deriving DecidableEq, Repr

inductive Event where
  | incoming (p : Pkt)
  | outgoing (o : OutKind)
deriving DecidableEq, Repr

/-- error classes of `ConnectionError` / `StateError` -/
inductive Err where
  | awaitPingResp | collisionTimeout | unsolicited | wrongPacket | emptySub
  /-- `StateError::ConnectionAborted`: EOF on a frame boundary -/
  | aborted
  /-- `StateError::Deserialization`: malformed frame, EOF inside a frame, and (through the
      codec's `From<io::Error>`) every write/flush error on the transport -/
  | deser
  /-- v4 `NetworkTimeout`, v5 `Timeout(Elapsed)` -/
  | timeout
  /-- the transport could not be opened (`io::ErrorKind::ConnectionRefused`) -/
  | ioRefused
  /-- CONNACK with a non-zero return code -/
  | refused (code : Nat)
  | notConnAck
  | other (name : String)
deriving DecidableEq, Repr

/-- what a call into the state machine yields: new state, notifications appended to
    `state.events` (also on the error path: `Event::Incoming` is pushed before dispatch),
    packet for the wire, error -/
structure Res (σ : Type) where
  st : σ
  events : List Event := []
  out : Option Pkt := none
  err : Option Err := none

/-- the part of `MqttState` the loop uses -/
structure StateOps (σ : Type) where
  handleOutgoing : σ → Req → Res σ
  handleIncoming : σ → Pkt → Res σ
  /-- `outgoing_ping` minus the `await_pingresp` flag (which lives in `Client.Timer`):
      the collision counter, `some e` = error before the flag is looked at -/
  pingPre : σ → σ × Option Err
  /-- `MqttState::clean`: new state and the retransmission list -/
  clean : σ → σ × List Req
  inflight : σ → Nat
  maxInflight : σ → Nat
  collision : σ → Bool

/-- `Network`: frames received and not yet handed to the state machine, EOF, peer gone -/
structure Net where
  /-- complete frames buffered in `Framed` -/
  rx : List Pkt := []
  /-- trailing bytes of an incomplete frame -/
  rxPartial : Bool := false
  /-- the peer closed: reads return EOF after `rx`, writes fail -/
  peerClosed : Bool := false
deriving Repr

structure LState (σ : Type) where
  ver : Ver
  st : σ
  /-- `EventLoop.pending` -/
  pending : List Req := []
  /-- requests sitting in the flume channel, oldest first -/
  channel : List Req := []
  /-- `state.events` -/
  events : List Event := []
  /-- `EventLoop.network` -/
  net : Option Net := none
  /-- keep-alive timer, `await_pingresp`, clock -/
  timer : TState
  /-- ghost: requests handed to `handle_outgoing_packet` so far, `true` = taken from `pending` -/
  taken : List (Bool × Req) := []

/-- observations of one `poll()` -/
inductive Obs where
  | wire (p : Pkt)
  | event (e : Event)
  | error (e : Err)
  /-- the client dropped the transport -/
  | dropped
deriving DecidableEq, Repr

inductive Branch where
  | net | req | timer
deriving DecidableEq, Repr

def isPubAck : Req → Bool
  | .puback _ => true
  | _ => false

/-- flow-control condition for NEW requests (`!inflight_full && !collision`) -/
def gateOpen {σ} (ops : StateOps σ) (st : σ) : Bool :=
  decide (ops.inflight st < ops.maxInflight st) && !ops.collision st

/-- a carried-over request that already owns a packet id: an unacknowledged publish or a pending
    release (`Request::Publish(p) if p.pkid != 0`, `Request::PubRel(_)`); everything else in
    `pending` was merely queued in the channel when the connection failed -/
def isReplay : Req → Bool
  | .publish _ pkid _ => pkid != 0
  | .pubrel _ => true
  | _ => false

/-- guard of the request branch: `pending_ready || (pending.is_empty() && !inflight_full && !collision)`
    where `pending_ready` = the head of `pending` is a retransmission, or it is a new request and
    flow control admits it. Retransmissions are never held back (the acknowledgements that reopen
    the window or resolve a collision may depend on them); new requests obey flow control whether
    they come from `pending` or from the channel. -/
def selectEnabled {σ} (ops : StateOps σ) (s : LState σ) : Bool :=
  match s.pending with
  | q :: _ => isReplay q || gateOpen ops s.st
  | [] => gateOpen ops s.st

/-- `EventLoop::clean`: network and timer dropped; what the state machine holds
    (`state.clean()`: sent or re-sent on the connection that failed) goes IN FRONT of the requests
    still waiting in `pending`; then the channel is drained behind them without the `PubAck`s -/
def loopClean {σ} (ops : StateOps σ) (s : LState σ) : LState σ :=
  { s with
    net := none
    timer := Client.Timer.clean s.timer
    st := (ops.clean s.st).1
    pending := (ops.clean s.st).2 ++ s.pending ++ s.channel.filter (fun r => !isPubAck r)
    channel := [] }

/-- error path of `poll()`: `clean()` then `Err(e)` -/
def failWith {σ} (ops : StateOps σ) (s : LState σ) (pre : List Obs) (e : Err) : LState σ × List Obs :=
  (loopClean ops s, pre ++ [.dropped, .error e])

/-- `Network::flush` of the replies written since the last flush -/
def flushOk (n : Net) (outs : List Pkt) : Bool := outs.isEmpty || !n.peerClosed

/-- `max_readb_count` of `Network::new` -/
def maxReadbCount : Nat := 10

/-- result of `Network::readb` -/
structure Batch (σ : Type) where
  st : σ
  events : List Event
  replies : List Pkt
  rest : List Pkt
  err : Option Err

/-- the loop of `readb` after the first `framed.next().await`: `count` as in the Rust text
    (starts at 1, incremented after every handled packet, `break` when `count >= max`),
    then `framed.next().now_or_never()` -/
def readbLoop {σ} (ops : StateOps σ) (n : Net) : Nat → Nat → σ → List Pkt → List Event → List Pkt → Batch σ
  | 0, _, st, rx, evs, outs => ⟨st, evs, outs, rx, none⟩
  | fuel + 1, count, st, rx, evs, outs =>
    match rx with
    | [] =>
      -- nothing complete is buffered: EOF ⇒ error, otherwise the read is pending ⇒ `break`
      if n.peerClosed then ⟨st, evs, outs, [], some (if n.rxPartial then .deser else .aborted)⟩
      else ⟨st, evs, outs, [], none⟩
    | p :: rest =>
      let r := ops.handleIncoming st p
      let evs := evs ++ r.events
      let outs := outs ++ r.out.toList
      match r.err with
      | some e => ⟨r.st, evs, outs, rest, some e⟩
      | none =>
        if count + 1 ≥ maxReadbCount then ⟨r.st, evs, outs, rest, none⟩
        else readbLoop ops n fuel (count + 1) r.st rest evs outs

def readb {σ} (ops : StateOps σ) (n : Net) (st : σ) : Batch σ :=
  readbLoop ops n maxReadbCount 1 st n.rx [] []

/-- is the network branch ready (a complete frame, or EOF) -/
def netReady (n : Net) : Bool := !n.rx.isEmpty || n.peerClosed

/-- pop the notification `poll()` returns after a branch ran (`events.pop_front().unwrap()`) -/
def popEvent {σ} (s : LState σ) (pre : List Obs) : LState σ × List Obs :=
  match s.events with
  | e :: es => ({ s with events := es }, pre ++ [.event e])
  | [] => (s, pre)   -- `unwrap()` on an empty queue would panic; unreachable: every branch pushes

/-- one `poll()` on a connected loop with `select!` choosing branch `b` -/
def pollConnected {σ} (ops : StateOps σ) (s : LState σ) (b : Branch) : Option (LState σ × List Obs) :=
  match s.net with
  | none => none
  | some n =>
    match s.events with
    | e :: es => some ({ s with events := es }, [.event e])   -- buffered notifications first
    | [] =>
      match b with
      | .net =>
        if !netReady n then none else
        let r := readb ops n s.st
        -- `handle_incoming_pingresp` clears `await_pingresp` (the flag lives in `Client.Timer`)
        let handled := n.rx.take (n.rx.length - r.rest.length)
        let t1 := if handled.any (· == .pingresp) then (Client.Timer.step s.timer .pingresp).1 else s.timer
        let s1 := { s with st := r.st, events := r.events, net := some { n with rx := r.rest }, timer := t1 }
        match r.err with
        | some e => some (failWith ops s1 [] e)
        | none =>
          if flushOk n r.replies then some (popEvent s1 (r.replies.map .wire))
          else some (failWith ops s1 [] .deser)
      | .req =>
        if !selectEnabled ops s then none else
        match s.pending with
        | q :: ps =>
          let r := ops.handleOutgoing s.st q
          let s1 := { s with st := r.st, events := r.events, pending := ps, taken := s.taken ++ [(true, q)] }
          match r.err with
          | some e => some (failWith ops s1 [] e)
          | none =>
            if flushOk n r.out.toList then some (popEvent s1 (r.out.toList.map .wire))
            else some (failWith ops s1 [] .deser)
        | [] =>
          match s.channel with
          | [] => none
          | q :: cs =>
            let r := ops.handleOutgoing s.st q
            let s1 := { s with st := r.st, events := r.events, channel := cs, taken := s.taken ++ [(false, q)] }
            match r.err with
            | some e => some (failWith ops s1 [] e)
            | none =>
              if flushOk n r.out.toList then some (popEvent s1 (r.out.toList.map .wire))
              else some (failWith ops s1 [] .deser)
      | .timer =>
        if !Client.Timer.due s.timer then none else
        -- `reset(now + keep_alive)` happens before `outgoing_ping`
        let pp := ops.pingPre s.st
        let tReset : TState := { s.timer with deadline := some (s.timer.now + s.timer.keepAlive) }
        match pp.2 with
        | some e => some (failWith ops { s with st := pp.1, timer := tReset } [] e)
        | none =>
          let f := Client.Timer.fire s.timer
          match f.2 with
          | some .ping =>
            let s1 := { s with st := pp.1, timer := f.1, events := [.outgoing .pingreq] }
            if flushOk n [.pingreq] then some (popEvent s1 [.wire .pingreq])
            else some (failWith ops s1 [] .deser)
          | _ => some (failWith ops { s with st := pp.1 } [] .awaitPingResp)

/-! ### connecting: `poll()` with `network == None` -/

/-- outcome of reading the broker's first packet in `mqtt_connect` -/
inductive First where
  | connack (sp : Bool) (code : Nat)
  | otherPacket
  | eof
  | garbage

/-- `poll()` after `connect()` returned `(network, connack)`; v5 first overwrites
    `options.keep_alive` with the CONNACK's `server_keep_alive` (inside `mqtt_connect`) and routes
    the CONNACK through `state.handle_incoming_packet` + the notification queue, v4 returns it
    directly. `pending` is cleared unless the broker reports the session as present. -/
def established {σ} (ops : StateOps σ) (s : LState σ) (sp : Bool) (serverKeepAlive : Option Nat)
    (n : Net) : LState σ × List Obs :=
  let k := match s.ver with
    | .v4 => s.timer.keepAlive
    | .v5 => Client.Timer.effectiveV5 s.timer.keepAlive serverKeepAlive
  let t := (Client.Timer.step { s.timer with keepAlive := k } .connack).1
  let s1 := { s with pending := if sp then s.pending else [], net := some n, timer := t }
  match s.ver with
  | .v4 => (s1, [.event (.incoming (.connack sp 0))])
  | .v5 =>
    -- (`handle_incoming_connack` can only fail for a non-zero code, which `mqtt_connect` has
    -- already turned into `ConnectionRefused`)
    let r := ops.handleIncoming s1.st (.connack sp 0)
    popEvent { s1 with st := r.st, events := s1.events ++ r.events } []

/-- connection attempt finished by the broker's first packet (errors here do not call `clean()`) -/
def connectDone {σ} (ops : StateOps σ) (s : LState σ) (f : First) (serverKeepAlive : Option Nat)
    (n : Net) : LState σ × List Obs :=
  match f with
  | .connack sp 0 => established ops s sp serverKeepAlive n
  | .connack _ code => (s, [.dropped, .error (.refused code)])
  | .otherPacket => (s, [.dropped, .error .notConnAck])
  | .eof => (s, [.dropped, .error .aborted])
  | .garbage => (s, [.dropped, .error .deser])

/-! ### the connection timeout as a timed automaton (`time::timeout(connection_timeout, connect(..))`) -/

inductive CEv where
  | advance (dt : Nat)
  /-- the handshake completes (successfully or not) through the broker's first packet / EOF -/
  | complete
  /-- bytes that do not complete the CONNACK frame -/
  | partialBytes
  /-- tokio's `Timeout` fires (no-op before the deadline or after the attempt finished) -/
  | deadline
deriving DecidableEq, Repr

inductive COutcome where
  | completed (at_ : Nat)
  | timedOut (at_ : Nat)
deriving DecidableEq, Repr

structure CState where
  now : Nat
  start : Nat
  /-- connection timeout in ms -/
  ct : Nat
  outcome : Option COutcome := none
deriving DecidableEq, Repr

def cstep (s : CState) : CEv → CState
  | .advance dt => { s with now := s.now + dt }
  | .complete => if s.outcome.isNone then { s with outcome := some (.completed s.now) } else s
  | .partialBytes => s
  | .deadline =>
    if s.outcome.isNone && decide (s.start + s.ct ≤ s.now) then { s with outcome := some (.timedOut s.now) } else s

def crun (s : CState) : List CEv → CState
  | [] => s
  | e :: es => crun (cstep s e) es

/-- tokio fires the timeout when it is due: time does not run past the deadline of an unfinished attempt -/
def CTimely (s : CState) : List CEv → Prop
  | [] => True
  | .advance dt :: es => (s.outcome = none → s.now + dt ≤ s.start + s.ct) ∧ CTimely (cstep s (.advance dt)) es
  | e :: es => CTimely (cstep s e) es

def noComplete : List CEv → Bool
  | [] => true
  | .complete :: _ => false
  | _ :: es => noComplete es

/-! ### sequences of polls -/

/-- run a list of `select!` choices; a disabled choice is skipped (the branch was not ready);
    stops being productive once the connection failed (`net = none`) -/
def polls {σ} (ops : StateOps σ) (s : LState σ) : List Branch → LState σ
  | [] => s
  | b :: bs =>
    match pollConnected ops s b with
    | some r => polls ops r.1 bs
    | none => polls ops s bs

end Client.Loop
