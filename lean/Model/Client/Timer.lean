/-
Client.Timer — the keep-alive timer of `rumqttc::EventLoop` (v4: rumqttc/src/eventloop.rs,
v5: rumqttc/src/v5/eventloop.rs) together with `MqttState::outgoing_ping` /
`handle_incoming_pingresp` (state.rs), as a timed transition system over `Nat` milliseconds
(virtual time = what `tokio::time::pause` gives the real code). Import-free.

What the code does (read off the text, confirmed on the real loop by `vh cloop`):
* `poll()` creates `keepalive_timeout = sleep(keep_alive)` when the connection is established
  (CONNACK read), the field is `None` and `keep_alive != 0`; the keep-alive branch of `select!`
  carries the same `!keep_alive.is_zero()` guard. Both loops (v5's `keep_alive` is first
  overwritten by the CONNACK's `server_keep_alive`; until the repair "the MQTT 5 client pinged
  and failed at once when the broker set the keep alive to zero" the v5 loop lacked the guard).
* the timer branch of `select!` is the ONLY place that moves the deadline:
  `reset(Instant::now() + keep_alive)`; neither outgoing requests nor incoming packets touch it
  ("We generate pings irrespective of network activity").
* the branch then calls `outgoing_ping`: `await_pingresp` set ⇒ `StateError::AwaitPingResp`
  (→ `poll()` returns the error after `clean()`), otherwise the flag is set and PINGREQ written.
* `handle_incoming_pingresp` clears the flag, nothing else does (except `clean()`).
* `EventLoop::clean` (every error from `select`) drops network and timer and `MqttState::clean`
  clears the flag.
-/
namespace Client.Timer

inductive Ver where
  | v4 | v5
deriving DecidableEq, Repr

/-- the timer is armed (and its branch enabled) only for a non-zero keep-alive, in both loops -/
def armed (_ver : Ver) (k : Nat) : Bool := k != 0

structure TState where
  ver : Ver
  /-- effective keep-alive in ms (`mqtt_options.keep_alive`; v5: after the CONNACK override) -/
  keepAlive : Nat
  now : Nat
  /-- `EventLoop.keepalive_timeout`: deadline of the pinned `Sleep`, `none` = no timer -/
  deadline : Option Nat
  /-- `MqttState.await_pingresp` -/
  awaitPingresp : Bool
  /-- `EventLoop.network.is_some()` -/
  connected : Bool
deriving DecidableEq, Repr

inductive Ev where
  /-- virtual time passes while the loop is idle -/
  | advance (dt : Nat)
  /-- a PINGRESP is read from the network -/
  | pingresp
  /-- any other packet is read from the network -/
  | other
  /-- a user request is written to the network -/
  | request
  /-- the keep-alive branch of `select!` is taken (no-op unless the timer is due) -/
  | fire
  /-- a (re)connection completes: CONNACK read -/
  | connack
  /-- any other error ends the connection (`clean()`) -/
  | fail
deriving DecidableEq, Repr

inductive Lab where
  /-- PINGREQ written -/
  | ping
  /-- `poll()` returned `StateError::AwaitPingResp` -/
  | err
  /-- PINGRESP read (an input, recorded so that hypotheses about the broker can be stated) -/
  | resp
deriving DecidableEq, Repr

/-- is the keep-alive branch ready? (`keepalive_timeout` elapsed; guard `!keep_alive.is_zero()`) -/
def due (s : TState) : Bool :=
  s.connected && armed s.ver s.keepAlive &&
  match s.deadline with
  | some d => decide (d ≤ s.now)
  | none => false

/-- `EventLoop::clean` + `MqttState::clean`, timer part -/
def clean (s : TState) : TState :=
  { s with connected := false, deadline := none, awaitPingresp := false }

/-- the keep-alive branch: reset the deadline from *now*, then `outgoing_ping` -/
def fire (s : TState) : TState × Option Lab :=
  if due s then
    if s.awaitPingresp then (clean s, some .err)
    else ({ s with deadline := some (s.now + s.keepAlive), awaitPingresp := true }, some .ping)
  else (s, none)

def step (s : TState) : Ev → TState × Option Lab
  | .advance dt => ({ s with now := s.now + dt }, none)
  | .pingresp => if s.connected then ({ s with awaitPingresp := false }, some .resp) else (s, none)
  | .other => (s, none)
  | .request => (s, none)
  | .fire => fire s
  | .connack =>
    if s.connected then (s, none)
    else ({ s with connected := true,
                   deadline := if armed s.ver s.keepAlive then some (s.now + s.keepAlive) else none }, none)
  | .fail => if s.connected then (clean s, none) else (s, none)

/-- timed trace of labels (time = `now` when the event was processed) -/
def trace (s : TState) : List Ev → List (Nat × Lab)
  | [] => []
  | e :: es =>
    match (step s e).2 with
    | some l => ((step s e).1.now, l) :: trace (step s e).1 es
    | none => trace (step s e).1 es

def run (s : TState) : List Ev → TState
  | [] => s
  | e :: es => run (step s e).1 es

/-- state right after the CONNACK of a connection established at time `t0` -/
def fresh (ver : Ver) (k t0 : Nat) : TState :=
  { ver := ver, keepAlive := k, now := t0,
    deadline := if armed ver k then some (t0 + k) else none,
    awaitPingresp := false, connected := true }

/-- state of a loop that is not connected -/
def idle (ver : Ver) (k t0 : Nat) : TState :=
  { ver := ver, keepAlive := k, now := t0, deadline := none, awaitPingresp := false, connected := false }

/-- Prompt polling / urgency of the tokio timer: time never runs past a due deadline without the
    timer branch being taken (the application keeps calling `poll()`; under paused time the
    clock jumps exactly to the next timer). -/
def Timely (s : TState) : List Ev → Prop
  | [] => True
  | .advance dt :: es =>
    (∀ d, s.connected = true → s.deadline = some d → s.now + dt ≤ d) ∧ Timely (step s (.advance dt)).1 es
  | e :: es => Timely (step s e).1 es

/-- single connection: no reconnect and no foreign failure in the event list -/
def oneConn : List Ev → Bool
  | [] => true
  | .connack :: _ => false
  | .fail :: _ => false
  | _ :: es => oneConn es

/-! ### options: how a keep-alive value gets into the loop -/

/-- v4 `MqttOptions::set_keep_alive`: `assert!(duration.is_zero() || duration >= 1 s)`; `none` = panic -/
def setKeepAliveV4 (ms : Nat) : Option Nat :=
  if ms = 0 ∨ 1000 ≤ ms then some ms else none

/-- v5 `MqttOptions::set_keep_alive`: `assert!(duration.as_secs() >= 5)`; `none` = panic -/
def setKeepAliveV5 (ms : Nat) : Option Nat :=
  if 5000 ≤ ms then some ms else none

/-- v5 `mqtt_connect`: `if let Some(k) = props.server_keep_alive { options.keep_alive = k s }` -/
def effectiveV5 (configured : Nat) (serverKeepAlive : Option Nat) : Nat :=
  match serverKeepAlive with
  | some s => s * 1000
  | none => configured

/-! ### executable specs (also the monitors the driver runs on implementation traces) -/

def hasLab (l : Lab) (tr : List (Nat × Lab)) : Bool := tr.any (fun x => x.2 == l)

/-- is there a PINGRESP before `t + k` in `tr` (`tr` = what follows the PINGREQ written at `t`,
    so its times are `≥ t`) -/
def respWithin (t k : Nat) (tr : List (Nat × Lab)) : Bool :=
  tr.any (fun x => x.2 == .resp && decide (x.1 < t + k))

/-- "the broker answers each PINGREQ within the interval": every PINGREQ written at `t` is
    followed by a PINGRESP at some `t' < t+k`, unless the observation ends before `t+k` -/
def answeredWithin (k endT : Nat) : List (Nat × Lab) → Bool
  | [] => true
  | (t, .ping) :: rest => (respWithin t k rest || decide (endT < t + k)) && answeredWithin k endT rest
  | _ :: rest => answeredWithin k endT rest

/-- times at which the keep-alive branch produced something (PINGREQ or the error) -/
def fireTimes (tr : List (Nat × Lab)) : List Nat :=
  (tr.filter (fun x => x.2 != .resp)).map (·.1)

/-- `t0+k, t0+2k, …` -/
def schedule (t0 k : Nat) : Nat → List Nat
  | 0 => []
  | n + 1 => (t0 + k) :: schedule (t0 + k) k n

/-- gaps between consecutive firings (starting from `last`) never exceed `k` -/
def gapsLe (k last : Nat) : List Nat → Bool
  | [] => true
  | t :: ts => decide (t ≤ last + k) && gapsLe k t ts

def lastOr (d : Nat) : List Nat → Nat
  | [] => d
  | t :: ts => lastOr t ts

/-- time of the last PINGRESP in the trace, `t0` if none -/
def lastResp (t0 : Nat) : List (Nat × Lab) → Nat
  | [] => t0
  | (t, .resp) :: rest => lastResp t rest
  | _ :: rest => lastResp t0 rest

end Client.Timer
