/-
Executable model of the client's protocol state machine
  rumqttc::MqttState        (/repo/rumqttc/src/state.rs,    `Version.v4`)
  rumqttc::v5::MqttState    (/repo/rumqttc/src/v5/state.rs, `Version.v5`)
following the Rust text handler by handler. One model; where the two files differ there is an
explicit `s.ver` branch (v5: reason codes on acks, receive-maximum via CONNACK, topic aliases,
server DISCONNECT, handle_protocol_error, no `last_puback` rotation).

Integers are `Nat`; every Rust operation that can panic in the dev profile (u16 `+ 1`
overflow, `inflight -= 1` underflow, `FixedBitSet::insert` out of bounds, slice index,
`split_at_mut` past the end, `unimplemented!()`) is an explicit `Outcome.panic`.
A publish carries a ghost `tag` (stands for topic+payload) so identity survives renumbering.
Import-free.
-/
namespace Client

inductive Version | v4 | v5
  deriving DecidableEq, Repr, Inhabited

def u16Max : Nat := 65535

/-- an outgoing PUBLISH (request, stored copy, wire packet: the Rust uses one struct) -/
structure Pub where
  qos : Nat
  pkid : Nat
  tag : Nat
  /-- v5 `properties.topic_alias` of an outgoing publish -/
  alias : Option Nat := none
  deriving DecidableEq, Repr, Inhabited

/-- a PUBLISH received from the broker -/
structure InPub where
  qos : Nat
  pkid : Nat
  tag : Nat
  /-- v5: `publish.topic.is_empty()` -/
  topicEmpty : Bool := false
  /-- v5: `properties.topic_alias` -/
  alias : Option Nat := none
  deriving DecidableEq, Repr, Inhabited

/-- packets the state machine returns for the wire -/
inductive Packet
  | publish (p : Pub)
  | puback (pkid : Nat)
  | pubrec (pkid : Nat)
  | pubrel (pkid : Nat)
  | pubcomp (pkid : Nat)
  | subscribe (pkid : Nat)
  | unsubscribe (pkid : Nat)
  | pingreq
  /-- v5 carries a reason code (0 normal, 130 protocol error); v4 always 0 -/
  | disconnect (reason : Nat)
  deriving DecidableEq, Repr, Inhabited

/-- packets read from the broker (all packet types; only what the handlers look at) -/
inductive Incoming
  | connect
  /-- `codeOk` = `ConnectReturnCode::Success`; v5 properties `receive_max`, `topic_alias_max` -/
  | connack (codeOk : Bool) (sessionPresent : Bool) (recvMax : Option Nat) (aliasMax : Option Nat)
  | publish (p : InPub)
  | puback (pkid : Nat) (reason : Nat)
  | pubrec (pkid : Nat) (reason : Nat)
  | pubrel (pkid : Nat) (reason : Nat)
  | pubcomp (pkid : Nat) (reason : Nat)
  | subscribe
  | suback (pkid : Nat)
  | unsubscribe
  | unsuback (pkid : Nat)
  | pingreq
  | pingresp
  | disconnect (reason : Nat)
  /-- v5 only -/
  | auth
  deriving DecidableEq, Repr, Inhabited

inductive Outgoing
  | publish (pkid : Nat)
  | subscribe (pkid : Nat)
  | unsubscribe (pkid : Nat)
  | puback (pkid : Nat)
  | pubrec (pkid : Nat)
  | pubrel (pkid : Nat)
  | pubcomp (pkid : Nat)
  | pingreq
  | pingresp
  | disconnect
  | awaitAck (pkid : Nat)
  deriving DecidableEq, Repr, Inhabited

inductive Event
  | incoming (p : Incoming)
  | outgoing (o : Outgoing)
  deriving DecidableEq, Repr, Inhabited

/-- `Request` as far as `handle_outgoing_packet` distinguishes -/
inductive Request
  /-- `pkid = 0`: fresh user publish; `pkid ≠ 0`: retransmission returned by `clean()` -/
  | publish (p : Pub)
  | pubrel (pkid : Nat)
  | subscribe (nfilters : Nat)
  | unsubscribe
  | pingreq
  | disconnect
  | puback (pkid : Nat)
  | pubrec (pkid : Nat)
  /-- PubComp / PingResp / SubAck / UnsubAck requests: `_ => unimplemented!()` -/
  | other
  deriving DecidableEq, Repr, Inhabited

inductive Err
  | unsolicited (pkid : Nat)
  | awaitPingResp
  | collisionTimeout
  | emptySubscription
  | wrongPacket
  | invalidAlias
  | serverDisconnect
  | connFail
  deriving DecidableEq, Repr, Inhabited

inductive Outcome
  | ok (p : Option Packet)
  | err (e : Err)
  | panic
  deriving DecidableEq, Repr, Inhabited

structure State where
  ver : Version
  awaitPingresp : Bool
  collisionPingCount : Nat
  lastPkid : Nat
  inflight : Nat
  /-- v4 `max_inflight`; v5 `max_outgoing_inflight` (lowered by CONNACK receive_max) -/
  maxInflight : Nat
  /-- v5 `max_outgoing_inflight_upper_limit`; the tables have `upperLimit + 1` slots -/
  upperLimit : Nat
  /-- index = packet id, slot 0 unused -/
  outgoingPub : List (Option Pub)
  /-- v4 `outgoing_order`: for every slot the value of `outgoing_count` when it was filled.
      (The v5 state has no such field; the model keeps the stamps for both versions, v5 never reads them.) -/
  outgoingOrder : List Nat
  /-- v4 `outgoing_count` (u64 in the Rust; 2^64 stored publishes are out of reach, not modelled as a panic) -/
  outgoingCount : Nat
  /-- `FixedBitSet::with_capacity(max + 1)` -/
  outgoingRel : List Bool
  /-- `FixedBitSet` of capacity 65536 as the list of set bits (ids are u16, so never out of bounds) -/
  incomingPub : List Nat
  collision : Option Pub
  events : List Event
  manualAcks : Bool
  /-- v5 `topic_alises`: the aliases that have a topic registered -/
  aliases : List Nat
  /-- v5 `broker_topic_alias_max` -/
  brokerAliasMax : Nat
  deriving Repr, Inhabited

/-- `MqttState::new(max_inflight, manual_acks)` -/
def State.new (ver : Version) (max : Nat) (manualAcks : Bool) : State :=
  { ver, awaitPingresp := false, collisionPingCount := 0, lastPkid := 0,
    inflight := 0, maxInflight := max, upperLimit := max,
    outgoingPub := List.replicate (max + 1) none,
    outgoingOrder := List.replicate (max + 1) 0, outgoingCount := 0,
    outgoingRel := List.replicate (max + 1) false,
    incomingPub := [], collision := none, events := [], manualAcks,
    aliases := [], brokerAliasMax := 0 }

def State.pushEv (s : State) (e : Event) : State := { s with events := s.events ++ [e] }
def State.pushOut (s : State) (o : Outgoing) : State := s.pushEv (.outgoing o)

/-- `FixedBitSet::contains` (false when out of bounds) -/
def relContains (s : State) (i : Nat) : Bool := s.outgoingRel[i]?.getD false

/-- ids set in `outgoing_rel`, ascending (`ones()`) -/
def relOnesFrom : List Bool → Nat → List Nat
  | [], _ => []
  | b :: bs, i => if b then i :: relOnesFrom bs (i + 1) else relOnesFrom bs (i + 1)
def relOnes (s : State) : List Nat := relOnesFrom s.outgoingRel 0

/-! ### `next_pkid` — value, new state and the overflow panic separately (no tuples) -/

/-- v5: `if self.last_pkid >= self.max_outgoing_inflight { self.last_pkid = 0 }` (the limit may have
    been lowered by a CONNACK); v4 has no such line -/
def nextPkidBase (s : State) : Nat :=
  match s.ver with
  | .v4 => s.lastPkid
  | .v5 => if s.lastPkid ≥ s.maxInflight then 0 else s.lastPkid

/-- `self.last_pkid + 1` overflows u16 -/
def nextPkidPanics (s : State) : Bool := decide (nextPkidBase s ≥ u16Max)
def nextPkidVal (s : State) : Nat := nextPkidBase s + 1
/-- wrap test: `==` in v4, `>=` in v5 -/
def nextPkidWraps (s : State) : Bool :=
  match s.ver with
  | .v4 => decide (nextPkidVal s = s.maxInflight)
  | .v5 => decide (nextPkidVal s ≥ s.maxInflight)
def nextPkidSt (s : State) : State :=
  if nextPkidWraps s then { s with lastPkid := 0 } else { s with lastPkid := nextPkidVal s }

/-- PubAck/PubRec reasons that count as success: `Success` (0) and `NoMatchingSubscribers` (16) -/
def ackOk (reason : Nat) : Bool := reason == 0 || reason == 16

/-! ### outgoing -/

/-- a publish is remembered until acknowledged: slot of its id, send stamp (`sent_now`), counter -/
def storePub (s : State) (p : Pub) : State :=
  { s with outgoingPub := s.outgoingPub.set p.pkid (some p),
           outgoingOrder := s.outgoingOrder.set p.pkid s.outgoingCount,
           outgoingCount := s.outgoingCount + 1,
           inflight := s.inflight + 1 }

/-- tail of `outgoing_publish`: event, packet -/
def publishTail (s : State) (p : Pub) : State × Outcome :=
  (s.pushOut (.publish p.pkid), .ok (some (.publish p)))

/-- `outgoing_publish` for QoS 1/2 once the packet id is fixed: the id is in use while a publish
    is stored under it or its release is pending -/
def publishWithId (s : State) (p : Pub) : State × Outcome :=
  match s.outgoingPub[p.pkid]? with
  | none => (s, .err (.unsolicited p.pkid))
  | some slot =>
    if slot.isSome || relContains s p.pkid then
      ({ s with collision := some p }.pushOut (.awaitAck p.pkid), .ok none)
    else if s.inflight ≥ u16Max then (s, .panic)
    else publishTail (storePub s p) p

/-- v5: the topic alias is validated before anything is recorded -/
def aliasTooLarge (s : State) (p : Pub) : Bool :=
  match s.ver, p.alias with
  | .v5, some a => decide (a > s.brokerAliasMax)
  | _, _ => false

def outgoingPublish (s : State) (p : Pub) : State × Outcome :=
  if aliasTooLarge s p then (s, .err .invalidAlias)
  else if p.qos = 0 then publishTail s p
  else if p.pkid = 0 then
    if nextPkidPanics s then (s, .panic)
    else publishWithId (nextPkidSt s) { p with pkid := nextPkidVal s }
  else publishWithId s p

/-- `outgoing_pubrel` + `save_pubrel` -/
def pubrelWithId (s : State) (pkid : Nat) : State × Outcome :=
  if pkid < s.outgoingRel.length then
    if s.inflight ≥ u16Max then (s, .panic) else
    ({ s with outgoingRel := s.outgoingRel.set pkid true, inflight := s.inflight + 1 }.pushOut (.pubrel pkid),
      .ok (some (.pubrel pkid)))
  else (s, .panic)   -- FixedBitSet::insert out of bounds

def outgoingPubrel (s : State) (pkid : Nat) : State × Outcome :=
  if pkid = 0 then
    if nextPkidPanics s then (s, .panic) else pubrelWithId (nextPkidSt s) (nextPkidVal s)
  else pubrelWithId s pkid

def outgoingSubscribe (s : State) (nfilters : Nat) : State × Outcome :=
  if nfilters = 0 then (s, .err .emptySubscription)
  else if nextPkidPanics s then (s, .panic)
  else ((nextPkidSt s).pushOut (.subscribe (nextPkidVal s)), .ok (some (.subscribe (nextPkidVal s))))

def outgoingUnsubscribe (s : State) : State × Outcome :=
  if nextPkidPanics s then (s, .panic)
  else ((nextPkidSt s).pushOut (.unsubscribe (nextPkidVal s)), .ok (some (.unsubscribe (nextPkidVal s))))

def outgoingPing (s : State) : State × Outcome :=
  let s1 := if s.collision.isSome then { s with collisionPingCount := s.collisionPingCount + 1 } else s
  if s.collision.isSome && decide (s1.collisionPingCount ≥ 2) then (s1, .err .collisionTimeout)
  else if s1.awaitPingresp then (s1, .err .awaitPingResp)
  else ({ s1 with awaitPingresp := true }.pushOut .pingreq, .ok (some .pingreq))

def outgoingDisconnect (s : State) (reason : Nat) : State × Outcome :=
  (s.pushOut .disconnect, .ok (some (.disconnect reason)))

def outgoingPuback (s : State) (pkid : Nat) : State × Outcome :=
  (s.pushOut (.puback pkid), .ok (some (.puback pkid)))

def outgoingPubrec (s : State) (pkid : Nat) : State × Outcome :=
  (s.pushOut (.pubrec pkid), .ok (some (.pubrec pkid)))

/-- `handle_outgoing_packet` -/
def handleOutgoing (s : State) (r : Request) : State × Outcome :=
  match r with
  | .publish p => outgoingPublish s p
  | .pubrel pkid => outgoingPubrel s pkid
  | .subscribe n => outgoingSubscribe s n
  | .unsubscribe => outgoingUnsubscribe s
  | .pingreq => outgoingPing s
  | .disconnect => outgoingDisconnect s 0
  | .puback pkid => outgoingPuback s pkid
  | .pubrec pkid => outgoingPubrec s pkid
  | .other => (s, .panic)

/-! ### incoming -/

/-- `check_collision(pkid).map(..)`: the packet id `pkid` has just been freed; a publish parked on it
    is stored, counted, announced and returned for the wire (same on every path that frees an id) -/
def release (s : State) (pkid : Nat) : State × Outcome :=
  match s.collision with
  | some c =>
    if c.pkid = pkid then
      ((storePub { s with collision := none, collisionPingCount := 0 } c).pushOut (.publish c.pkid),
        .ok (some (.publish c)))
    else (s, .ok none)
  | none => (s, .ok none)

/-- `handle_incoming_puback` (v5: a failure reason is only logged) -/
def handlePuback (s : State) (pkid : Nat) : State × Outcome :=
  match s.outgoingPub[pkid]? with
  | none => (s, .err (.unsolicited pkid))
  | some none => (s, .err (.unsolicited pkid))
  | some (some _) =>
    if s.inflight = 0 then (s, .panic) else
    release { s with outgoingPub := s.outgoingPub.set pkid none, inflight := s.inflight - 1 } pkid

def handlePubrec (s : State) (pkid reason : Nat) : State × Outcome :=
  match s.outgoingPub[pkid]? with
  | none => (s, .err (.unsolicited pkid))
  | some none => (s, .err (.unsolicited pkid))
  | some (some _) =>
    let s1 := { s with outgoingPub := s.outgoingPub.set pkid none }
    if s.ver = .v5 && !ackOk reason then
      -- refused: the flow ends here
      if s1.inflight = 0 then (s1, .panic) else release { s1 with inflight := s1.inflight - 1 } pkid
    else if pkid < s1.outgoingRel.length then
      ({ s1 with outgoingRel := s1.outgoingRel.set pkid true }.pushOut (.pubrel pkid), .ok (some (.pubrel pkid)))
    else (s1, .panic)   -- FixedBitSet::insert out of bounds (tables have the same length, unreachable)

/-- `handle_incoming_pubrel` ([MQTT-4.3.3-11]: answered whatever the v5 reason code says) -/
def handlePubrel (s : State) (pkid : Nat) : State × Outcome :=
  if s.incomingPub.contains pkid then
    ({ s with incomingPub := s.incomingPub.filter (· != pkid) }.pushOut (.pubcomp pkid), .ok (some (.pubcomp pkid)))
  else (s, .err (.unsolicited pkid))

/-- `handle_incoming_pubcomp` (both versions: checks first, then the flow is over whatever the v5
    reason code says, then a publish parked on the id is released) -/
def handlePubcomp (s : State) (pkid : Nat) : State × Outcome :=
  if relContains s pkid then
    if s.inflight = 0 then ({ s with outgoingRel := s.outgoingRel.set pkid false }, .panic) else
    release { s with outgoingRel := s.outgoingRel.set pkid false, inflight := s.inflight - 1 } pkid
  else (s, .err (.unsolicited pkid))

/-- v5 topic-alias prefix of `handle_incoming_publish` (v4: nothing). `none` = empty topic with an
    alias nobody registered: protocol error -/
def publishAlias (s : State) (p : InPub) : Option State :=
  match s.ver with
  | .v4 => some s
  | .v5 =>
    match p.alias with
    | none => some s
    | some a =>
      if !p.topicEmpty then
        some (if s.aliases.contains a then s else { s with aliases := a :: s.aliases })
      else if s.aliases.contains a then some s
      else none

def handlePublish (s0 : State) (p : InPub) : State × Outcome :=
  match publishAlias s0 p with
  | none => outgoingDisconnect s0 130   -- `return self.handle_protocol_error()`
  | some s =>
    if p.qos = 0 then (s, .ok none)
    else if p.qos = 1 then
      if !s.manualAcks then outgoingPuback s p.pkid else (s, .ok none)
    else
      let s1 := if s.incomingPub.contains p.pkid then s else { s with incomingPub := p.pkid :: s.incomingPub }
      if !s1.manualAcks then outgoingPubrec s1 p.pkid else (s1, .ok none)

/-- v5 `handle_incoming_connack` -/
def handleConnack (s : State) (codeOk : Bool) (recvMax aliasMax : Option Nat) : State × Outcome :=
  if !codeOk then (s, .err .connFail) else
  let s1 := match aliasMax with
    | some a => { s with brokerAliasMax := a }
    | none => s
  let s2 := match recvMax with
    | some m => { s1 with maxInflight := min m s1.upperLimit }
    | none => s1
  (s2, .ok none)

/-- `handle_incoming_packet`: the `Incoming` event is pushed first, whatever happens next -/
def handleIncoming (s0 : State) (pkt : Incoming) : State × Outcome :=
  let s := s0.pushEv (.incoming pkt)
  match pkt with
  | .pingresp => ({ s with awaitPingresp := false }, .ok none)
  | .publish p => handlePublish s p
  | .suback _ => (s, .ok none)
  | .unsuback _ => (s, .ok none)
  | .puback pkid _ => handlePuback s pkid
  | .pubrec pkid r => handlePubrec s pkid r
  | .pubrel pkid _ => handlePubrel s pkid
  | .pubcomp pkid _ => handlePubcomp s pkid
  | .connack ok _ rm am =>
    (match s.ver with
     | .v4 => (s, .err .wrongPacket)
     | .v5 => handleConnack s ok rm am)
  | .disconnect _ =>
    (match s.ver with
     | .v4 => (s, .err .wrongPacket)
     | .v5 => (s, .err .serverDisconnect))
  | .connect => (s, .err .wrongPacket)
  | .subscribe => (s, .err .wrongPacket)
  | .unsubscribe => (s, .err .wrongPacket)
  | .pingreq => (s, .err .wrongPacket)
  | .auth => (s, .err .wrongPacket)

/-! ### clean -/

/-- stored publishes with their send stamps, in table order (`iter_mut().zip(&outgoing_order)`) -/
def stamped (pubs : List (Option Pub)) (ord : List Nat) : List (Nat × Pub) :=
  (pubs.zip ord).filterMap (fun x => x.1.map (fun p => (x.2, p)))

/-- insertion into a list sorted by stamp (stable) -/
def insertStamp (x : Nat × Pub) : List (Nat × Pub) → List (Nat × Pub)
  | [] => [x]
  | y :: ys => if x.1 ≤ y.1 then x :: y :: ys else y :: insertStamp x ys

/-- `sort_by_key(|(order, _)| *order)` -/
def sortStamped (l : List (Nat × Pub)) : List (Nat × Pub) := l.foldr insertStamp []

def pubRequests (l : List (Option Pub)) : List Request :=
  l.filterMap (fun o => o.map Request.publish)

/-- the publishes `clean()` collects: v4 oldest first (by send stamp), v5 in table order -/
def cleanPubs (s : State) : List Request :=
  match s.ver with
  | .v4 => (sortStamped (stamped s.outgoingPub s.outgoingOrder)).map (fun x => Request.publish x.2)
  | .v5 => pubRequests s.outgoingPub

/-- the publish parked on a collision goes back last and unnumbered -/
def cleanParked (s : State) : List Request :=
  match s.collision with
  | some c => [Request.publish { c with pkid := 0 }]
  | none => []

/-- what `clean()` returns -/
def cleanRequests (s : State) : List Request :=
  cleanPubs s ++ (relOnes s).map Request.pubrel ++ cleanParked s

/-- no panic site is left in `clean()` (the `split_at_mut` of the rotation is gone) -/
def cleanPanics (_ : State) : Bool := false

/-- the state `clean()` leaves behind (`last_pkid`, the send counter, `events`, the alias map and
    the negotiated limit are NOT reset) -/
def cleanState (s : State) : State :=
  { s with outgoingPub := s.outgoingPub.map (fun _ => none),
           outgoingRel := s.outgoingRel.map (fun _ => false),
           incomingPub := [], awaitPingresp := false, collisionPingCount := 0, inflight := 0,
           collision := none }

/-- `clean()`; `none` = panic -/
def clean (s : State) : Option (State × List Request) :=
  if cleanPanics s then none else some (cleanState s, cleanRequests s)

/-- `inflight()` -/
def inflightOf (s : State) : Nat := s.inflight

/-- drain `events` (what the event loop / the harness does with the public `events` queue) -/
def drainEvents (s : State) : State := { s with events := [] }

end Client
