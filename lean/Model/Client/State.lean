/-
Executable model of the client's protocol state machine
  rumqttc::MqttState        (/repo/rumqttc/src/state.rs,    `Version.v4`)
  rumqttc::v5::MqttState    (/repo/rumqttc/src/v5/state.rs, `Version.v5`)
following the Rust text handler by handler. One model; where the two files differ there is an
explicit `s.ver` branch (v5: reason codes on acks, receive-maximum via CONNACK, topic aliases,
server DISCONNECT, handle_protocol_error, no `last_puback` rotation).

Integers are `Nat`; every Rust operation that can panic in the dev profile (u16 `+ 1`
overflow, `inflight -= 1` underflow, `FixedBitSet::insert` out of bounds, slice index,
`split_at_mut` past the end, `unimplemented!()`) is an explicit `Outcome.panic`.
A publish carries a ghost `tag` (stands for topic+payload) so identity survives renumbering.
Import-free.
-/
namespace Client

inductive Version | v4 | v5
  deriving DecidableEq, Repr, Inhabited

def u16Max : Nat := 65535

/-- an outgoing PUBLISH (request, stored copy, wire packet: the Rust uses one struct) -/
structure Pub where
  qos : Nat
  pkid : Nat
  tag : Nat
  /-- v5 `properties.topic_alias` of an outgoing publish -/
  alias : Option Nat := none
  deriving DecidableEq, Repr, Inhabited

/-- a PUBLISH received from the broker -/
structure InPub where
  qos : Nat
  pkid : Nat
  tag : Nat
  /-- v5: `publish.topic.is_empty()` -/
  topicEmpty : Bool := false
  /-- v5: `properties.topic_alias` -/
  alias : Option Nat := none
  deriving DecidableEq, Repr, Inhabited

/-- packets the state machine returns for the wire -/
inductive Packet
  | publish (p : Pub)
  | puback (pkid : Nat)
  | pubrec (pkid : Nat)
  | pubrel (pkid : Nat)
  | pubcomp (pkid : Nat)
  | subscribe (pkid : Nat)
  | unsubscribe (pkid : Nat)
  | pingreq
  /-- v5 carries a reason code (0 normal, 130 protocol error); v4 always 0 -/
  | disconnect (reason : Nat)
  deriving DecidableEq, Repr, Inhabited

/-- packets read from the broker (all packet types; only what the handlers look at) -/
inductive Incoming
  | connect
  /-- `codeOk` = `ConnectReturnCode::Success`; v5 properties `receive_max`, `topic_alias_max` -/
  | connack (codeOk : Bool) (sessionPresent : Bool) (recvMax : Option Nat) (aliasMax : Option Nat)
  | publish (p : InPub)
  | puback (pkid : Nat) (reason : Nat)
  | pubrec (pkid : Nat) (reason : Nat)
  | pubrel (pkid : Nat) (reason : Nat)
  | pubcomp (pkid : Nat) (reason : Nat)
  | subscribe
  | suback (pkid : Nat)
  | unsubscribe
  | unsuback (pkid : Nat)
  | pingreq
  | pingresp
  | disconnect (reason : Nat)
  /-- v5 only -/
  | auth
  deriving DecidableEq, Repr, Inhabited

inductive Outgoing
  | publish (pkid : Nat)
  | subscribe (pkid : Nat)
  | unsubscribe (pkid : Nat)
  | puback (pkid : Nat)
  | pubrec (pkid : Nat)
  | pubrel (pkid : Nat)
  | pubcomp (pkid : Nat)
  | pingreq
  | pingresp
  | disconnect
  | awaitAck (pkid : Nat)
  deriving DecidableEq, Repr, Inhabited

inductive Event
  | incoming (p : Incoming)
  | outgoing (o : Outgoing)
  deriving DecidableEq, Repr, Inhabited

/-- `Request` as far as `handle_outgoing_packet` distinguishes -/
inductive Request
  /-- `pkid = 0`: fresh user publish; `pkid ≠ 0`: retransmission returned by `clean()` -/
  | publish (p : Pub)
  | pubrel (pkid : Nat)
  | subscribe (nfilters : Nat)
  | unsubscribe
  | pingreq
  | disconnect
  | puback (pkid : Nat)
  | pubrec (pkid : Nat)
  /-- PubComp / PingResp / SubAck / UnsubAck requests: `_ => unimplemented!()` -/
  | other
  deriving DecidableEq, Repr, Inhabited

inductive Err
  | unsolicited (pkid : Nat)
  | awaitPingResp
  | collisionTimeout
  | emptySubscription
  | wrongPacket
  | invalidAlias
  | serverDisconnect
  | connFail
  deriving DecidableEq, Repr, Inhabited

inductive Outcome
  | ok (p : Option Packet)
  | err (e : Err)
  | panic
  deriving DecidableEq, Repr, Inhabited

structure State where
  ver : Version
  awaitPingresp : Bool
  collisionPingCount : Nat
  lastPkid : Nat
  /-- v4 only (`last_puback`); stays 0 in v5 -/
  lastPuback : Nat
  inflight : Nat
  /-- v4 `max_inflight`; v5 `max_outgoing_inflight` (lowered by CONNACK receive_max) -/
  maxInflight : Nat
  /-- v5 `max_outgoing_inflight_upper_limit`; the tables have `upperLimit + 1` slots -/
  upperLimit : Nat
  /-- index = packet id, slot 0 unused -/
  outgoingPub : List (Option Pub)
  /-- `FixedBitSet::with_capacity(max + 1)` -/
  outgoingRel : List Bool
  /-- `FixedBitSet` of capacity 65536 as the list of set bits (ids are u16, so never out of bounds) -/
  incomingPub : List Nat
  collision : Option Pub
  events : List Event
  manualAcks : Bool
  /-- v5 `topic_alises`: the aliases that have a topic registered -/
  aliases : List Nat
  /-- v5 `broker_topic_alias_max` -/
  brokerAliasMax : Nat
  deriving Repr, Inhabited

/-- `MqttState::new(max_inflight, manual_acks)` -/
def State.new (ver : Version) (max : Nat) (manualAcks : Bool) : State :=
  { ver, awaitPingresp := false, collisionPingCount := 0, lastPkid := 0, lastPuback := 0,
    inflight := 0, maxInflight := max, upperLimit := max,
    outgoingPub := List.replicate (max + 1) none,
    outgoingRel := List.replicate (max + 1) false,
    incomingPub := [], collision := none, events := [], manualAcks,
    aliases := [], brokerAliasMax := 0 }

def State.pushEv (s : State) (e : Event) : State := { s with events := s.events ++ [e] }
def State.pushOut (s : State) (o : Outgoing) : State := s.pushEv (.outgoing o)

/-- `FixedBitSet::contains` (false when out of bounds) -/
def relContains (s : State) (i : Nat) : Bool := s.outgoingRel[i]?.getD false

/-- ids set in `outgoing_rel`, ascending (`ones()`) -/
def relOnesFrom : List Bool → Nat → List Nat
  | [], _ => []
  | b :: bs, i => if b then i :: relOnesFrom bs (i + 1) else relOnesFrom bs (i + 1)
def relOnes (s : State) : List Nat := relOnesFrom s.outgoingRel 0

/-! ### `next_pkid` — value, new state and the overflow panic separately (no tuples) -/

/-- `self.last_pkid + 1` overflows u16 -/
def nextPkidPanics (s : State) : Bool := decide (s.lastPkid ≥ u16Max)
def nextPkidVal (s : State) : Nat := s.lastPkid + 1
def nextPkidSt (s : State) : State :=
  if s.lastPkid + 1 = s.maxInflight then { s with lastPkid := 0 } else { s with lastPkid := s.lastPkid + 1 }

/-- PubAck/PubRec reasons that count as success: `Success` (0) and `NoMatchingSubscribers` (16) -/
def ackOk (reason : Nat) : Bool := reason == 0 || reason == 16

/-! ### outgoing -/

/-- tail of `outgoing_publish`: v5 alias check (after the bookkeeping!), event, packet -/
def publishTail (s : State) (p : Pub) : State × Outcome :=
  match s.ver, p.alias with
  | .v5, some a =>
    if a > s.brokerAliasMax then (s, .err .invalidAlias)
    else (s.pushOut (.publish p.pkid), .ok (some (.publish p)))
  | _, _ => (s.pushOut (.publish p.pkid), .ok (some (.publish p)))

/-- `outgoing_publish` for QoS 1/2 once the packet id is fixed -/
def publishWithId (s : State) (p : Pub) : State × Outcome :=
  match s.outgoingPub[p.pkid]? with
  | none => (s, .err (.unsolicited p.pkid))
  | some (some _) =>
    ({ s with collision := some p }.pushOut (.awaitAck p.pkid), .ok none)
  | some none =>
    if s.inflight ≥ u16Max then (s, .panic) else
    publishTail { s with outgoingPub := s.outgoingPub.set p.pkid (some p), inflight := s.inflight + 1 } p

def outgoingPublish (s : State) (p : Pub) : State × Outcome :=
  if p.qos = 0 then publishTail s p
  else if p.pkid = 0 then
    if nextPkidPanics s then (s, .panic)
    else publishWithId (nextPkidSt s) { p with pkid := nextPkidVal s }
  else publishWithId s p

/-- `outgoing_pubrel` + `save_pubrel` -/
def pubrelWithId (s : State) (pkid : Nat) : State × Outcome :=
  if pkid < s.outgoingRel.length then
    if s.inflight ≥ u16Max then (s, .panic) else
    ({ s with outgoingRel := s.outgoingRel.set pkid true, inflight := s.inflight + 1 }.pushOut (.pubrel pkid),
      .ok (some (.pubrel pkid)))
  else (s, .panic)   -- FixedBitSet::insert out of bounds

def outgoingPubrel (s : State) (pkid : Nat) : State × Outcome :=
  if pkid = 0 then
    if nextPkidPanics s then (s, .panic) else pubrelWithId (nextPkidSt s) (nextPkidVal s)
  else pubrelWithId s pkid

def outgoingSubscribe (s : State) (nfilters : Nat) : State × Outcome :=
  if nfilters = 0 then (s, .err .emptySubscription)
  else if nextPkidPanics s then (s, .panic)
  else ((nextPkidSt s).pushOut (.subscribe (nextPkidVal s)), .ok (some (.subscribe (nextPkidVal s))))

def outgoingUnsubscribe (s : State) : State × Outcome :=
  if nextPkidPanics s then (s, .panic)
  else ((nextPkidSt s).pushOut (.unsubscribe (nextPkidVal s)), .ok (some (.unsubscribe (nextPkidVal s))))

def outgoingPing (s : State) : State × Outcome :=
  let s1 := if s.collision.isSome then { s with collisionPingCount := s.collisionPingCount + 1 } else s
  if s.collision.isSome && decide (s1.collisionPingCount ≥ 2) then (s1, .err .collisionTimeout)
  else if s1.awaitPingresp then (s1, .err .awaitPingResp)
  else ({ s1 with awaitPingresp := true }.pushOut .pingreq, .ok (some .pingreq))

def outgoingDisconnect (s : State) (reason : Nat) : State × Outcome :=
  (s.pushOut .disconnect, .ok (some (.disconnect reason)))

def outgoingPuback (s : State) (pkid : Nat) : State × Outcome :=
  (s.pushOut (.puback pkid), .ok (some (.puback pkid)))

def outgoingPubrec (s : State) (pkid : Nat) : State × Outcome :=
  (s.pushOut (.pubrec pkid), .ok (some (.pubrec pkid)))

/-- `handle_outgoing_packet` -/
def handleOutgoing (s : State) (r : Request) : State × Outcome :=
  match r with
  | .publish p => outgoingPublish s p
  | .pubrel pkid => outgoingPubrel s pkid
  | .subscribe n => outgoingSubscribe s n
  | .unsubscribe => outgoingUnsubscribe s
  | .pingreq => outgoingPing s
  | .disconnect => outgoingDisconnect s 0
  | .puback pkid => outgoingPuback s pkid
  | .pubrec pkid => outgoingPubrec s pkid
  | .other => (s, .panic)

/-! ### incoming -/

/-- the continuation of a PUBACK after the slot was freed: `check_collision` and re-registration -/
def pubackCollision (s : State) (pkid : Nat) : State × Outcome :=
  match s.collision with
  | some c =>
    if c.pkid = pkid then
      ({ s with collision := none, outgoingPub := s.outgoingPub.set c.pkid (some c),
                inflight := s.inflight + 1, collisionPingCount := 0 }.pushOut (.publish c.pkid),
        .ok (some (.publish c)))
    else (s, .ok none)
  | none => (s, .ok none)

def handlePuback (s : State) (pkid reason : Nat) : State × Outcome :=
  match s.outgoingPub[pkid]? with
  | none => (s, .err (.unsolicited pkid))
  | some slot =>
    -- v4 moves the rotation point before it looks at the slot
    let s1 := if s.ver = .v4 then { s with lastPuback := pkid } else s
    match slot with
    | none => (s1, .err (.unsolicited pkid))
    | some _ =>
      if s1.inflight = 0 then (s1, .panic) else
      let s2 := { s1 with outgoingPub := s1.outgoingPub.set pkid none, inflight := s1.inflight - 1 }
      if s.ver = .v5 && !ackOk reason then (s2, .ok none)
      else pubackCollision s2 pkid

def handlePubrec (s : State) (pkid reason : Nat) : State × Outcome :=
  match s.outgoingPub[pkid]? with
  | none => (s, .err (.unsolicited pkid))
  | some none => (s, .err (.unsolicited pkid))
  | some (some _) =>
    let s1 := { s with outgoingPub := s.outgoingPub.set pkid none }
    if s.ver = .v5 && !ackOk reason then (s1, .ok none)
    else if pkid < s1.outgoingRel.length then
      ({ s1 with outgoingRel := s1.outgoingRel.set pkid true }.pushOut (.pubrel pkid), .ok (some (.pubrel pkid)))
    else (s1, .panic)   -- FixedBitSet::insert out of bounds (tables have the same length, unreachable)

def handlePubrel (s : State) (pkid reason : Nat) : State × Outcome :=
  if s.incomingPub.contains pkid then
    let s1 := { s with incomingPub := s.incomingPub.filter (· != pkid) }
    if s.ver = .v5 && reason != 0 then (s1, .ok none)
    else (s1.pushOut (.pubcomp pkid), .ok (some (.pubcomp pkid)))
  else (s, .err (.unsolicited pkid))

/-- v4 `handle_incoming_pubcomp` -/
def handlePubcompV4 (s : State) (pkid : Nat) : State × Outcome :=
  if relContains s pkid then
    if s.inflight = 0 then ({ s with outgoingRel := s.outgoingRel.set pkid false }, .panic) else
    let s1 := { s with outgoingRel := s.outgoingRel.set pkid false, inflight := s.inflight - 1 }
    match s1.collision with
    | some c =>
      if c.pkid = pkid then
        -- the collided publish goes to the wire but is NOT stored in `outgoing_pub`
        ({ s1 with collision := none, collisionPingCount := 0 }.pushOut (.publish c.pkid), .ok (some (.publish c)))
      else (s1, .ok none)
    | none => (s1, .ok none)
  else (s, .err (.unsolicited pkid))

/-- v5 `check_collision(pkid).map(..)` executed first in `handle_incoming_pubcomp` -/
def pubcompTakeCollision (s : State) (pkid : Nat) : State :=
  match s.collision with
  | some c =>
    if c.pkid = pkid then { s with collision := none, collisionPingCount := 0 }.pushOut (.publish c.pkid)
    else s
  | none => s

def pubcompTaken (s : State) (pkid : Nat) : Option Packet :=
  match s.collision with
  | some c => if c.pkid = pkid then some (.publish c) else none
  | none => none

/-- v5 `handle_incoming_pubcomp`: collision taken first, then the unsolicited check -/
def handlePubcompV5 (s : State) (pkid reason : Nat) : State × Outcome :=
  let s1 := pubcompTakeCollision s pkid
  if relContains s1 pkid then
    let s2 := { s1 with outgoingRel := s1.outgoingRel.set pkid false }
    if reason != 0 then (s2, .ok none)
    else if s2.inflight = 0 then (s2, .panic)
    else ({ s2 with inflight := s2.inflight - 1 }, .ok (pubcompTaken s pkid))
  else (s1, .err (.unsolicited pkid))

def handlePubcomp (s : State) (pkid reason : Nat) : State × Outcome :=
  match s.ver with
  | .v4 => handlePubcompV4 s pkid
  | .v5 => handlePubcompV5 s pkid reason

/-- v5 topic-alias prefix of `handle_incoming_publish` (v4: identity). An unknown alias calls
    `handle_protocol_error()?`: the `Outgoing::Disconnect` event is pushed, the returned
    DISCONNECT packet is discarded by `?;` and processing continues. -/
def publishAlias (s : State) (p : InPub) : State :=
  match s.ver with
  | .v4 => s
  | .v5 =>
    match p.alias with
    | none => s
    | some a =>
      if !p.topicEmpty then
        (if s.aliases.contains a then s else { s with aliases := a :: s.aliases })
      else if s.aliases.contains a then s
      else s.pushOut .disconnect

def handlePublish (s0 : State) (p : InPub) : State × Outcome :=
  let s := publishAlias s0 p
  if p.qos = 0 then (s, .ok none)
  else if p.qos = 1 then
    if !s.manualAcks then outgoingPuback s p.pkid else (s, .ok none)
  else
    let s1 := if s.incomingPub.contains p.pkid then s else { s with incomingPub := p.pkid :: s.incomingPub }
    if !s1.manualAcks then outgoingPubrec s1 p.pkid else (s1, .ok none)

/-- v5 `handle_incoming_connack` -/
def handleConnack (s : State) (codeOk : Bool) (recvMax aliasMax : Option Nat) : State × Outcome :=
  if !codeOk then (s, .err .connFail) else
  let s1 := match aliasMax with
    | some a => { s with brokerAliasMax := a }
    | none => s
  let s2 := match recvMax with
    | some m => { s1 with maxInflight := min m s1.upperLimit }
    | none => s1
  (s2, .ok none)

/-- `handle_incoming_packet`: the `Incoming` event is pushed first, whatever happens next -/
def handleIncoming (s0 : State) (pkt : Incoming) : State × Outcome :=
  let s := s0.pushEv (.incoming pkt)
  match pkt with
  | .pingresp => ({ s with awaitPingresp := false }, .ok none)
  | .publish p => handlePublish s p
  | .suback _ => (s, .ok none)
  | .unsuback _ => (s, .ok none)
  | .puback pkid r => handlePuback s pkid r
  | .pubrec pkid r => handlePubrec s pkid r
  | .pubrel pkid r => handlePubrel s pkid r
  | .pubcomp pkid r => handlePubcomp s pkid r
  | .connack ok _ rm am =>
    (match s.ver with
     | .v4 => (s, .err .wrongPacket)
     | .v5 => handleConnack s ok rm am)
  | .disconnect _ =>
    (match s.ver with
     | .v4 => (s, .err .wrongPacket)
     | .v5 => (s, .err .serverDisconnect))
  | .connect => (s, .err .wrongPacket)
  | .subscribe => (s, .err .wrongPacket)
  | .unsubscribe => (s, .err .wrongPacket)
  | .pingreq => (s, .err .wrongPacket)
  | .auth => (s, .err .wrongPacket)

/-! ### clean -/

def pubRequests (l : List (Option Pub)) : List Request :=
  l.filterMap (fun o => o.map Request.publish)

/-- the publishes `clean()` collects, in its iteration order: v4 rotates at `last_puback + 1`
    (`second_half.chain(first_half)`), v5 iterates from index 0 -/
def cleanPubs (s : State) : List Request :=
  match s.ver with
  | .v4 => pubRequests (s.outgoingPub.drop (s.lastPuback + 1) ++ s.outgoingPub.take (s.lastPuback + 1))
  | .v5 => pubRequests s.outgoingPub

/-- what `clean()` returns -/
def cleanRequests (s : State) : List Request :=
  cleanPubs s ++ (relOnes s).map Request.pubrel

/-- `split_at_mut(last_puback + 1)` panics when `mid > len` -/
def cleanPanics (s : State) : Bool :=
  match s.ver with
  | .v4 => decide (s.lastPuback + 1 > s.outgoingPub.length)
  | .v5 => false

/-- the state `clean()` leaves behind (note: `collision`, `last_pkid`, `last_puback`, `events`,
    the alias map and the negotiated limit are NOT reset) -/
def cleanState (s : State) : State :=
  { s with outgoingPub := s.outgoingPub.map (fun _ => none),
           outgoingRel := s.outgoingRel.map (fun _ => false),
           incomingPub := [], awaitPingresp := false, collisionPingCount := 0, inflight := 0 }

/-- `clean()`; `none` = panic -/
def clean (s : State) : Option (State × List Request) :=
  if cleanPanics s then none else some (cleanState s, cleanRequests s)

/-- `inflight()` -/
def inflightOf (s : State) : Nat := s.inflight

/-- drain `events` (what the event loop / the harness does with the public `events` queue) -/
def drainEvents (s : State) : State := { s with events := [] }

end Client
