/-
Model of rumqttd/src/segments/{mod.rs, segment.rs}: `CommitLog<T>` and `Segment<T>`.
u64/usize as Nat. This file is the version used by the router model; the C13 slice states and
proves the read/retention theorems about it.
-/
namespace CLog

structure Seg (α : Type) where
  data : List α
  size : Nat
  abs : Nat
deriving Repr

def Seg.next {α} (s : Seg α) : Nat := s.abs + s.data.length

structure Log (α : Type) where
  head : Nat
  tail : Nat
  maxSize : Nat
  maxSegs : Nat
  segs : List (Seg α)      -- oldest first; last = active
deriving Repr

inductive SPos | next (o : Nat) | done (o : Nat)
deriving Repr, DecidableEq

abbrev Cursor := Nat × Nat

inductive Pos | next (s e : Cursor) | done (s e : Cursor)
deriving Repr, DecidableEq

/-- tag the entries with their own (segment, offset) -/
def tagFrom {α} (seg : Nat) : Nat → List α → List (α × Cursor)
  | _, [] => []
  | o, a :: as => (a, (seg, o)) :: tagFrom seg (o + 1) as

/-- `Segment::readv` -/
def Seg.readv {α} (s : Seg α) (cur : Cursor) (len : Nat) : List (α × Cursor) × SPos :=
  let idx := cur.2 - s.abs
  if idx ≥ s.data.length then ([], .done s.next)
  else
    let limit := idx + len
    if limit ≥ s.data.length then
      (tagFrom cur.1 cur.2 (s.data.drop idx), .done s.next)
    else
      (tagFrom cur.1 cur.2 ((s.data.drop idx).take len), .next (s.abs + limit))

/-- the `while cursor.0 < tail` walk of `CommitLog::readv`, structurally over the remaining
    segment list (`segs` = current segment :: later ones; the last one is the active segment),
    followed by the separate read of the active segment. -/
def walk {α} (start : Cursor) : List (Seg α) → (cur : Cursor) → (len : Nat) →
    List (α × Cursor) → List (α × Cursor) × Pos
  | [], cur, _, out => (out, .done start cur)   -- unreachable (segs nonempty)
  | [act], cur, len, out =>
      if act.next ≤ cur.2 then (out, .done start cur)
      else match act.readv cur len with
        | (o, .next v) => (out ++ o, .next start (cur.1, v))
        | (o, .done v) => (out ++ o, .done start (cur.1, v))
  | s :: r :: rest, cur, len, out =>
      match s.readv cur len with
      | (o, .next off) => (out ++ o, .next start (cur.1, off))
      | (o, .done nxt) =>
          let len' := if nxt ≥ cur.2 then len - (nxt - cur.2) else len
          let cur' := (cur.1 + 1, nxt)
          if len' = 0 then (out ++ o, .next start cur')
          else walk start (r :: rest) cur' len' (out ++ o)

/-- `CommitLog::readv` -/
def Log.readv {α} (l : Log α) (start : Cursor) (len : Nat) : List (α × Cursor) × Pos :=
  if start.1 > l.tail then ([], .done start start) else
  let start := if start.1 < l.head then (l.head, (l.segs.head?.map (·.abs)).getD 0) else start
  let segs := l.segs.drop (start.1 - l.head)
  match segs with
  | [] => ([], .done start start)
  | s :: _ =>
    let start := if s.abs > start.2 then (start.1, s.abs) else start
    walk start segs start len []

/-- `apply_retention` -/
def Log.applyRetention {α} (l : Log α) : Log α :=
  match l.segs.getLast? with
  | none => l
  | some act =>
    if act.size ≥ l.maxSize then
      let nxt := act.next
      let segs := if l.segs.length ≥ l.maxSegs then l.segs.drop 1 else l.segs
      let head := if l.segs.length ≥ l.maxSegs then l.head + 1 else l.head
      { l with segs := segs ++ [({ data := [], size := 0, abs := nxt } : Seg α)], head := head,
               tail := l.tail + 1 }
    else l

/-- `append` (size = `Storage::size` of the item) -/
def Log.append {α} (l : Log α) (x : α) (sz : Nat) : Log α × Cursor :=
  let l := l.applyRetention
  match l.segs.getLast? with
  | none => (l, (l.tail, 0))
  | some act =>
    let act' : Seg α := { act with data := act.data ++ [x], size := act.size + sz }
    ({ l with segs := l.segs.dropLast ++ [act'] }, (l.tail, act'.next))

def Log.new {α} (maxSize maxSegs : Nat) : Log α :=
  { head := 0, tail := 0, maxSize, maxSegs, segs := [{ data := [], size := 0, abs := 0 }] }

/-- `next_offset` -/
def Log.nextOffset {α} (l : Log α) : Cursor :=
  (l.tail, (l.segs.getLast?.map (·.next)).getD 0)

/-- `last` -/
def Log.last {α} (l : Log α) : Option α :=
  l.segs.getLast?.bind (·.data.getLast?)

end CLog
