/-
Model of the broker commit log:
  rumqttd/src/segments/mod.rs     (`CommitLog::{new, next_offset, append, apply_retention, last, readv}`)
  rumqttd/src/segments/segment.rs (`Segment::{new, with_offset, next_offset, push, readv, last}`)

The text of the Rust functions is followed statement by statement. `u64`/`usize` are `Nat`.
Everything that can panic in the dev profile is an explicit `Except.error`:
  * `a - b` on unsigned integers        -> `subOverflow`   (`cursor.1 - absolute_offset`, `cursor.0 - head`, `len -= ..`)
  * `idx + len` (`len` is caller input) -> `addOverflow`   (checked against `U64 = 2^64`)
  * `self.segments[idx]`                -> `indexOob`
  * `self.data[idx..limit]`             -> `sliceRange`
  * `front()/back().unwrap()`           -> `unwrapNone`
  * the two `panic!`s in `new`          -> `config`
Additions that only involve the log's own counters (`absolute_offset + len`, `tail += 1`,
`head += 1`, `total_size += size`, `cursor.1 + limit` with `cursor.1 < next_offset`,
`cursor.0 + 1` with `cursor.0 < tail`) stay in `Nat`: they need about 2^63 appended entries
or bytes to wrap (listed as an assumption in the manifest).
`Vec`/`VecDeque` are lists (oldest first; the last element is the active segment);
`T: Storage` is an arbitrary `α` whose `size()` is passed to `append` (it is evaluated once, in `push`).
The `while cursor.0 < self.tail` loop is `walk`, structurally recursive on `fuel = tail - cursor.0`
(`cursor.0` grows by exactly one per iteration, so `fuel = 0` is exactly the loop exit).
Import-free: compiled into the native driver.
-/
namespace CommitLog

/-- `u64::MAX + 1` (= `usize::MAX + 1` on the 64-bit targets the broker is built for) -/
def U64 : Nat := 18446744073709551616

inductive Panic
  | subOverflow | addOverflow | indexOob | sliceRange | unwrapNone | config
  deriving DecidableEq, Repr

/-- `(segment index, absolute offset)` — `Cursor` and `Offset` in `lib.rs` -/
abbrev Cursor := Nat × Nat
/-- an element of the `out` vector of `readv` -/
abbrev Entry (α : Type) := α × Cursor

structure Seg (α : Type) where
  data : List α
  totalSize : Nat
  abs : Nat
  deriving Repr

/-- `SegmentPosition` -/
inductive SegPos
  | next (o : Nat)
  | done (o : Nat)
  deriving DecidableEq, Repr

/-- `Position` -/
inductive Position
  | next (start end_ : Cursor)
  | done (start end_ : Cursor)
  deriving DecidableEq, Repr

def Position.isDone : Position → Bool
  | .next _ _ => false
  | .done _ _ => true
def Position.start : Position → Cursor
  | .next s _ => s
  | .done s _ => s
def Position.end_ : Position → Cursor
  | .next _ e => e
  | .done _ e => e

variable {α : Type}

/-- the panic of a result, if any (`Except` has no `DecidableEq`; used for concrete witnesses) -/
def panicOf {β : Type} : Except Panic β → Option Panic
  | .ok _ => none
  | .error e => some e

/-- `Segment::new` -/
def Seg.new : Seg α := { data := [], totalSize := 0, abs := 0 }
/-- `Segment::with_offset` -/
def Seg.withOffset (absoluteOffset : Nat) : Seg α := { data := [], totalSize := 0, abs := absoluteOffset }
/-- `Segment::len` -/
def Seg.len (s : Seg α) : Nat := s.data.length
/-- `Segment::next_offset` -/
def Seg.next (s : Seg α) : Nat := s.abs + s.len
/-- `Segment::push` -/
def Seg.push (s : Seg α) (x : α) (size : Nat) : Seg α :=
  { s with data := s.data ++ [x], totalSize := s.totalSize + size }
/-- `Segment::last` -/
def Seg.last (s : Seg α) : Option α := s.data.getLast?

/-- `self.data[idx..limit].iter().cloned().zip(repeat(cursor.0).zip(cursor.1..cursor.1 + limit))` -/
def Seg.slice (s : Seg α) (cur : Cursor) (idx limit : Nat) : List (Entry α) :=
  (((s.data.drop idx).take (limit - idx)).zip (List.range' cur.2 limit)).map
    fun p => (p.1, (cur.1, p.2))

/-- `Segment::readv`; returns what is appended to `out` and the segment position. -/
def Seg.readv (s : Seg α) (cur : Cursor) (len : Nat) : Except Panic (List (Entry α) × SegPos) :=
  if cur.2 < s.abs then .error .subOverflow else          -- let idx = cursor.1 - self.absolute_offset;
  let idx := cur.2 - s.abs
  if idx ≥ s.len then .ok ([], .done s.next)              -- ret = None, nothing read
  else if idx + len ≥ U64 then .error .addOverflow        -- let mut limit = idx + len;
  else
    let limit0 := idx + len
    if limit0 ≥ s.len then
      -- ret = None; limit = self.len()
      if s.len < idx then .error .sliceRange              -- data[idx..limit] needs idx <= limit <= len
      else .ok (s.slice cur idx s.len, .done s.next)
    else
      -- ret = Some(limit)
      if limit0 < idx ∨ s.len < limit0 then .error .sliceRange
      else .ok (s.slice cur idx limit0, .next (s.abs + limit0))

structure Log (α : Type) where
  head : Nat
  tail : Nat
  maxSegmentSize : Nat
  maxMemSegments : Nat
  segments : List (Seg α)
  deriving Repr

/-- `CommitLog::new` -/
def Log.new (maxSegmentSize maxMemSegments : Nat) : Except Panic (Log α) :=
  if maxSegmentSize < 1024 then .error .config
  else if maxMemSegments < 1 then .error .config
  else .ok { head := 0, tail := 0, maxSegmentSize := maxSegmentSize,
             maxMemSegments := maxMemSegments, segments := [Seg.new] }

/-- `active_segment()` = `self.segments.back().unwrap()` -/
def Log.activeSegment (l : Log α) : Except Panic (Seg α) :=
  match l.segments.getLast? with
  | none => .error .unwrapNone
  | some s => .ok s

/-- `CommitLog::next_offset` -/
def Log.nextOffset (l : Log α) : Except Panic Cursor :=
  match l.activeSegment with
  | .error e => .error e
  | .ok a => .ok (l.tail, a.next)

/-- `CommitLog::last` -/
def Log.last (l : Log α) : Except Panic (Option α) :=
  match l.activeSegment with
  | .error e => .error e
  | .ok a => .ok a.last

/-- `CommitLog::_head_and_tail` and `memory_segments_count` (printed by the harness after appends) -/
def Log.headTailCount (l : Log α) : Nat × Nat × Nat := (l.head, l.tail, l.segments.length)

/-- `apply_retention` -/
def Log.applyRetention (l : Log α) : Except Panic (Log α) :=
  match l.activeSegment with
  | .error e => .error e
  | .ok act =>
    if act.totalSize ≥ l.maxSegmentSize then
      let absoluteOffset := act.next
      if l.segments.length ≥ l.maxMemSegments then
        -- self.segments.pop_front(); self.head += 1; push_back(with_offset); self.tail += 1
        .ok { l with segments := l.segments.drop 1 ++ [Seg.withOffset absoluteOffset],
                     head := l.head + 1, tail := l.tail + 1 }
      else
        .ok { l with segments := l.segments ++ [Seg.withOffset absoluteOffset], tail := l.tail + 1 }
    else .ok l

/-- `active_segment_mut().push(message)` -/
def Log.pushActive (l : Log α) (x : α) (size : Nat) : Except Panic (Log α) :=
  match l.segments.getLast? with
  | none => .error .unwrapNone
  | some act => .ok { l with segments := l.segments.dropLast ++ [act.push x size] }

/-- `CommitLog::append` (size = `message.size()`) -/
def Log.append (l : Log α) (x : α) (size : Nat) : Except Panic (Log α × Cursor) :=
  match l.applyRetention with
  | .error e => .error e
  | .ok l1 =>
    match l1.pushActive x size with
    | .error e => .error e
    | .ok l2 =>
      match l2.nextOffset with
      | .error e => .error e
      | .ok c => .ok (l2, c)

/-- a sequence of appends -/
def Log.appends (l : Log α) : List (α × Nat) → Except Panic (Log α)
  | [] => .ok l
  | p :: ps =>
    match l.append p.1 p.2 with
    | .error e => .error e
    | .ok r => Log.appends r.1 ps

/-- the part of `readv` after the `while` loop: the separate read of the active segment -/
def readActive (start : Cursor) (curr : Seg α) (cur : Cursor) (len : Nat) (out : List (Entry α)) :
    Except Panic (List (Entry α) × Position) :=
  if curr.next ≤ cur.2 then .ok (out, .done start cur) else
  match curr.readv cur len with
  | .error e => .error e
  | .ok (o, .next v) => .ok (out ++ o, .next start (cur.1, v))
  | .ok (o, .done v) => .ok (out ++ o, .done start (cur.1, v))

/-- `len -= next_offset - cursor.1` guarded by `if next_offset >= cursor.1` -/
def decLen (len nxt c2 : Nat) : Except Panic Nat :=
  if nxt ≥ c2 then
    if len < nxt - c2 then .error .subOverflow else .ok (len - (nxt - c2))
  else .ok len

/-- the `while cursor.0 < self.tail` loop followed by the active-segment read.
    `fuel = tail - cursor.0`, `curr = segments[idx]`. -/
def Log.walk (l : Log α) (start : Cursor) :
    Nat → Nat → Seg α → Cursor → Nat → List (Entry α) → Except Panic (List (Entry α) × Position)
  | 0, _, curr, cur, len, out => readActive start curr cur len out
  | fuel + 1, idx, curr, cur, len, out =>
    match curr.readv cur len with
    | .error e => .error e
    | .ok (o, .next off) => .ok (out ++ o, .next start (cur.1, off))
    | .ok (o, .done nxt) =>
      match decLen len nxt cur.2 with
      | .error e => .error e
      | .ok len' =>
        if len' = 0 then .ok (out ++ o, .next start (cur.1 + 1, nxt))
        else
          match l.segments[idx + 1]? with            -- idx += 1; curr_segment = &self.segments[idx];
          | none => .error .indexOob
          | some curr' => Log.walk l start fuel (idx + 1) curr' (cur.1 + 1, nxt) len' (out ++ o)

/-- `if cursor.0 < self.head { cursor = (head, front().unwrap().absolute_offset); start = cursor }` -/
def Log.headJump (l : Log α) (c : Cursor) : Except Panic Cursor :=
  if c.1 < l.head then
    match l.segments.head? with
    | none => .error .unwrapNone
    | some f => .ok (l.head, f.abs)
  else .ok c

/-- `if curr_segment.absolute_offset > cursor.1 { start.1 = ..; cursor.1 = .. }` -/
def offsetJump (curr : Seg α) (c : Cursor) : Cursor :=
  if curr.abs > c.2 then (c.1, curr.abs) else c

/-- `CommitLog::readv` (the entries appended to `out`, and the returned `Position`) -/
def Log.readv (l : Log α) (start : Cursor) (len : Nat) : Except Panic (List (Entry α) × Position) :=
  if start.1 > l.tail then .ok ([], .done start start) else
  match l.headJump start with
  | .error e => .error e
  | .ok c1 =>
    if c1.1 < l.head then .error .subOverflow else        -- (cursor.0 - self.head) as usize
    let idx := c1.1 - l.head
    match l.segments[idx]? with                           -- &self.segments[idx]
    | none => .error .indexOob
    | some curr =>
      let c2 := offsetJump curr c1
      Log.walk l c2 (l.tail - c2.1) idx curr c2 len []

end CommitLog

/-
The totalised copy used by the router model (`Model/Router/*`; kept verbatim from the router
slice): the same functions without the panic branches (`Nat` subtraction truncates, a missing
segment yields an empty answer). `Proofs/Lemmas/CommitLogBridge.lean` proves that on every
well-formed log it computes exactly what the panic-explicit model above computes
(`C13.router_copy_*`), so the C13 theorems hold for the router's commit logs as well.
-/
namespace CLog

structure Seg (α : Type) where
  data : List α
  size : Nat
  abs : Nat
deriving Repr

def Seg.next {α} (s : Seg α) : Nat := s.abs + s.data.length

structure Log (α : Type) where
  head : Nat
  tail : Nat
  maxSize : Nat
  maxSegs : Nat
  segs : List (Seg α)      -- oldest first; last = active
deriving Repr

inductive SPos | next (o : Nat) | done (o : Nat)
deriving Repr, DecidableEq

abbrev Cursor := Nat × Nat

inductive Pos | next (s e : Cursor) | done (s e : Cursor)
deriving Repr, DecidableEq

/-- tag the entries with their own (segment, offset) -/
def tagFrom {α} (seg : Nat) : Nat → List α → List (α × Cursor)
  | _, [] => []
  | o, a :: as => (a, (seg, o)) :: tagFrom seg (o + 1) as

/-- `Segment::readv` -/
def Seg.readv {α} (s : Seg α) (cur : Cursor) (len : Nat) : List (α × Cursor) × SPos :=
  let idx := cur.2 - s.abs
  if idx ≥ s.data.length then ([], .done s.next)
  else
    let limit := idx + len
    if limit ≥ s.data.length then
      (tagFrom cur.1 cur.2 (s.data.drop idx), .done s.next)
    else
      (tagFrom cur.1 cur.2 ((s.data.drop idx).take len), .next (s.abs + limit))

/-- the `while cursor.0 < tail` walk of `CommitLog::readv`, structurally over the remaining
    segment list (`segs` = current segment :: later ones; the last one is the active segment),
    followed by the separate read of the active segment. -/
def walk {α} (start : Cursor) : List (Seg α) → (cur : Cursor) → (len : Nat) →
    List (α × Cursor) → List (α × Cursor) × Pos
  | [], cur, _, out => (out, .done start cur)   -- unreachable (segs nonempty)
  | [act], cur, len, out =>
      if act.next ≤ cur.2 then (out, .done start cur)
      else match act.readv cur len with
        | (o, .next v) => (out ++ o, .next start (cur.1, v))
        | (o, .done v) => (out ++ o, .done start (cur.1, v))
  | s :: r :: rest, cur, len, out =>
      match s.readv cur len with
      | (o, .next off) => (out ++ o, .next start (cur.1, off))
      | (o, .done nxt) =>
          let len' := if nxt ≥ cur.2 then len - (nxt - cur.2) else len
          let cur' := (cur.1 + 1, nxt)
          if len' = 0 then (out ++ o, .next start cur')
          else walk start (r :: rest) cur' len' (out ++ o)

/-- `CommitLog::readv` -/
def Log.readv {α} (l : Log α) (start : Cursor) (len : Nat) : List (α × Cursor) × Pos :=
  if start.1 > l.tail then ([], .done start start) else
  let start := if start.1 < l.head then (l.head, (l.segs.head?.map (·.abs)).getD 0) else start
  let segs := l.segs.drop (start.1 - l.head)
  match segs with
  | [] => ([], .done start start)
  | s :: _ =>
    let start := if s.abs > start.2 then (start.1, s.abs) else start
    walk start segs start len []

/-- `apply_retention` -/
def Log.applyRetention {α} (l : Log α) : Log α :=
  match l.segs.getLast? with
  | none => l
  | some act =>
    if act.size ≥ l.maxSize then
      let nxt := act.next
      let segs := if l.segs.length ≥ l.maxSegs then l.segs.drop 1 else l.segs
      let head := if l.segs.length ≥ l.maxSegs then l.head + 1 else l.head
      { l with segs := segs ++ [({ data := [], size := 0, abs := nxt } : Seg α)], head := head,
               tail := l.tail + 1 }
    else l

/-- `append` (size = `Storage::size` of the item) -/
def Log.append {α} (l : Log α) (x : α) (sz : Nat) : Log α × Cursor :=
  let l := l.applyRetention
  match l.segs.getLast? with
  | none => (l, (l.tail, 0))
  | some act =>
    let act' : Seg α := { act with data := act.data ++ [x], size := act.size + sz }
    ({ l with segs := l.segs.dropLast ++ [act'] }, (l.tail, act'.next))

def Log.new {α} (maxSize maxSegs : Nat) : Log α :=
  { head := 0, tail := 0, maxSize, maxSegs, segs := [{ data := [], size := 0, abs := 0 }] }

/-- `next_offset` -/
def Log.nextOffset {α} (l : Log α) : Cursor :=
  (l.tail, (l.segs.getLast?.map (·.next)).getD 0)

/-- `last` -/
def Log.last {α} (l : Log α) : Option α :=
  l.segs.getLast?.bind (·.data.getLast?)

end CLog
