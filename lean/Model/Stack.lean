/-
Packet-level model of the broker as the full-stack harness (`vh stack`) sees it: listeners of both
versions, the per-connection tasks (`remote()`), the routing core at the granularity of whole
client packets, composed from the pieces the property theorems are about:
  `Admission.admit`            first packet → session?            (C19 network part)
  `ServerWill.World`           will-handler map, will delay, Disconnect / PublishWill events (C16 server part)
  `Encode.write`               Notification → Packet → `Protocol::write` of the subscriber's listener (C20)
  `Topic.matchesImpl`          which subscriptions a publish reaches
  `Codec.V4/V5` client copies  what the client crate reads from the bytes (C04)
and the router's bookkeeping that these scenarios touch (client-id validation, takeover,
`max_connections`, `last_wills`, saved sessions, per-connection packet ids and broker aliases).
Scope (= what the generators produce): QoS 0/1, no retained messages, no shared subscriptions,
no redelivery to resumed sessions, small messages. Import-free apart from Model files.
-/
import Model.Admission
import Model.ServerWill
import Model.Encode

namespace Stack
open Codec Admission

structure Sub where
  filter : String
  qos : Nat
  subId : Option Nat
  deriving Repr

/-- a will as `last_wills` stores it: `LastWill` + the will properties that become publish properties -/
structure WillRec where
  topic : Bytes
  payload : Bytes
  qos : Nat
  retain : Bool
  props : Option Props
  deriving Repr

/-- one stream: the client end of a duplex pipe and the `remote()` task behind it -/
structure Conn where
  ver : Version
  /-- the broker has not dropped its end of the stream -/
  isOpen : Bool := true
  /-- packets the broker has written and the client has not read yet (as the client crate decodes them) -/
  queue : List Packet := []
  task : Option Nat := none
  /-- a session exists in the router (also for a connection whose task died without telling the router) -/
  registered : Bool := false
  cid : String := ""
  clean : Bool := true
  keepAlive : Nat := 0
  kaDeadline : Nat := 0
  subs : List Sub := []
  aliasMax : Nat := 0
  aliases : List (String × Nat) := []
  /-- `BrokerAliases.used_aliases` (a slab whose slot 0 is taken): freed numbers, most recent first,
      and the next never-used number -/
  aliasFree : List Nat := []
  aliasHigh : Nat := 1
  inAliases : List (Nat × Bytes) := []
  lastPkid : Nat := 0
  /-- set when the task is over without a `ServerWill` task (rejected by `mqtt_connect`) or panicked outside it -/
  joinOverride : Option String := none
  deriving Repr

structure State where
  maxConn : Nat := 0
  auth : AuthConfig := {}
  conns : List (Option Conn) := []
  /-- streams that occupy a slot of the router's connection slab -/
  routerLive : List Nat := []
  lastWills : List (String × WillRec) := []
  saved : List String := []
  /-- every filter that ever got a log (`DataLog.filter_indexes`): a publish matching none of them
      is an error that disconnects the publisher -/
  filters : List String := []
  sw : ServerWill.World := {}
  /-- how many entries of `sw.log` have been delivered to the router -/
  swSeen : Nat := 0

def maxPayload : Nat := 1048576
def maxDecode : Nat := 1073741824

def str? (b : Bytes) : Option String := String.fromUTF8? (ByteArray.mk b.toArray)

def State.conn? (s : State) (c : Nat) : Option Conn := (s.conns[c]?).bind id

def State.setConn (s : State) (c : Nat) (x : Conn) : State :=
  let conns := if c < s.conns.length then s.conns else s.conns ++ List.replicate (c + 1 - s.conns.length) none
  { s with conns := conns.set c (some x) }

def State.now (s : State) : Nat := s.sw.now

/-- what the client crate reads from bytes the broker wrote -/
def clientDecode (v : Version) (bs : Bytes) : Option Packet :=
  match (match v with | .v4 => V4.decode .client maxDecode bs | .v5 => V5.decode .client maxDecode bs) with
  | .packet p [] => some p
  | _ => none

/-- bytes the client crate writes -/
def clientEncode (v : Version) (p : Packet) : Option Bytes :=
  match (match v with | .v4 => V4.encode .client p | .v5 => V5.encode .client p) with
  | .ok bs => some bs
  | .error _ => none

inductive Delivery
  | packet (p : Packet)      -- written; this is what the client decodes
  | nothing                  -- no packet for this notification
  | panic                    -- `Protocol::write` panicked: the connection task dies
  | error                    -- `Protocol::write` returned `Err`: the link ends
  | garbled                  -- written, but the client crate cannot decode it

def deliver (v : Version) (n : Encode.DNotif) : Delivery :=
  match n.toPacket with
  | none => .nothing
  | some _ =>
    match Encode.write v n with
    | .ok bs => (match clientDecode v bs with | some p => .packet p | none => .garbled)
    | .error .panic => .panic
    | .error _ => .error

def propVal (ps : Option Props) (id : Nat) : Option PVal :=
  match ps with
  | none => none
  | some l => (l.find? (fun p => p.id == id)).map (·.val)

def propU32 (ps : Option Props) (id : Nat) : Nat :=
  match propVal ps id with
  | some (.u32 v) => v
  | _ => 0

/-- append one packet to a stream's queue, or kill the connection task if the encoder panics -/
def State.push (s : State) (c : Nat) (n : Encode.DNotif) : State :=
  match s.conn? c with
  | none => s
  | some x =>
    if !x.isOpen then s else
    match deliver x.ver n with
    | .packet p => s.setConn c { x with queue := x.queue ++ [p], kaDeadline := s.now + x.keepAlive * 1500 }
    | .nothing => s
    | .garbled => s.setConn c { x with queue := x.queue ++ [.pingreq] }   -- marker: never produced
    | .panic =>
      -- the task unwinds: stream dropped, router not told (its slot stays occupied), handler stays
      let sw := match x.task with | some t => s.sw.panicLink t | none => s.sw
      let s := s.setConn c { x with isOpen := false, joinOverride := some "panic:v4-write-properties" }
      { s with sw := sw }
    | .error =>
      let sw := match x.task with | some t => s.sw.endLink t .encodeError | none => s.sw
      let s := s.setConn c { x with isOpen := false }
      { s with sw := sw }

/-- `handle_disconnection`: the router forgets the connection; a non-clean session is saved -/
def State.routerRemove (s : State) (c : Nat) : State :=
  match s.conn? c with
  | none => s
  | some x =>
    if !x.registered then s else
    let s := { s with routerLive := s.routerLive.filter (· ≠ c),
                      saved := if x.clean then s.saved.filter (· ≠ x.cid)
                               else if s.saved.contains x.cid then s.saved else s.saved ++ [x.cid] }
    s.setConn c { x with registered := false }

/-- the router closes a connection (DISCONNECT packet, protocol violation, takeover): optional
    DISCONNECT packet with a reason, the link ends with `Error::Link` -/
def State.routerClose (s : State) (c : Nat) (reason : Option DiscReason) : State :=
  let s := match reason with
    | some r => s.push c (.disconnect r none)
    | none => s
  let s := s.routerRemove c
  match s.conn? c with
  | none => s
  | some x =>
    if !x.isOpen then s else
    let sw := match x.task with | some t => s.sw.endLink t .routerClosed | none => s.sw
    let s := s.setConn c { x with isOpen := false }
    { s with sw := sw }

/-- the link of stream `c` ends on the server side (EOF, keep-alive, malformed packet): the stream
    is dropped, `Event::Disconnect` follows through the `ServerWill` log -/
def State.linkEnds (s : State) (c : Nat) (cause : ServerWill.Cause) : State :=
  match s.conn? c with
  | none => s
  | some x =>
    if !x.isOpen then s else
    let sw := match x.task with | some t => s.sw.endLink t cause | none => s.sw
    let s := s.setConn c { x with isOpen := false }
    { s with sw := sw }

def streamOfTask (s : State) (t : Nat) : Option Nat :=
  (List.range s.conns.length).find? (fun c => match s.conn? c with | some x => x.task == some t | none => false)

def topicMatches (topic : Bytes) (filter : String) : Bool :=
  match str? topic with
  | some t => Topic.matchesImpl t.toList filter.toList
  | none => false

/-- broker alias towards a subscriber: keyed by the filter, used for filters without wildcards -/
def useAlias (x : Conn) (filter : String) : Conn × Option Nat × Bool :=
  -- an alias stands for one topic: only filters without wildcards get one
  if x.aliasMax = 0 || Topic.hasWildcards filter.toList then (x, none, false) else
  match Router.alookup filter x.aliases with
  | some a => (x, some a, true)
  | none =>
    -- `set_new_alias`: `used_aliases.insert(())`, given back at once if above the client's maximum
    let (k, free, high) := match x.aliasFree with
      | k :: r => (k, r, x.aliasHigh)
      | [] => (x.aliasHigh, [], x.aliasHigh + 1)
    if k > x.aliasMax then ({ x with aliasFree := k :: free, aliasHigh := high }, none, false)
    else ({ x with aliases := x.aliases ++ [(filter, k)], aliasFree := free, aliasHigh := high }, some k, false)

/-- `BrokerAliases::remove_alias(filter)` on UNSUBSCRIBE -/
def dropAlias (x : Conn) (filter : String) : Conn :=
  match Router.alookup filter x.aliases with
  | some a => { x with aliases := Router.aremove filter x.aliases, aliasFree := a :: x.aliasFree }
  | none => x

/-- forwards of one accepted publish (or fired will) to every session with a matching subscription.
    `props` = the stored properties (`none` / `some passThrough`), as `forward_device_data` builds them. -/
def State.route (s : State) (topic payload : Bytes) (props : Option Props) : State :=
  s.routerLive.foldl (fun s c =>
    match s.conn? c with
    | none => s
    | some x =>
      x.subs.foldl (fun s sub =>
        if !topicMatches topic sub.filter then s else
        match s.conn? c with
        | none => s
        | some x =>
          let (x, alias, existed) := useAlias x sub.filter
          let pkid := if sub.qos = 0 then 0 else x.lastPkid + 1
          let x := if sub.qos = 0 then x else { x with lastPkid := if pkid = 100 then 0 else pkid }
          let hasProps := props.isSome || alias.isSome || sub.subId.isSome
          let p : Router.Pub :=
            { qos := sub.qos, pkid := pkid, retain := false, dup := false,
              topic := if existed then [] else topic, payload := payload,
              alias := alias, subIds := sub.subId.toList, hasProps := hasProps }
          let s := s.setConn c x
          s.push c (Encode.ofNotif (props.getD []) (.forward p none))) s) s

/-- deliver the not yet seen `ServerWill` events to the router -/
def State.pump (s : State) : Nat → State
  | 0 => s
  | fuel + 1 =>
    match s.sw.log[s.swSeen]? with
    | none => s
    | some ev =>
      let s := { s with swSeen := s.swSeen + 1 }
      let s := match ev with
        | .connect _ _ => s
        | .disconnect t =>
          (match streamOfTask s t with
           | some c => s.routerRemove c
           | none => s)
        | .publishWill _ cid =>
          (match Router.alookup cid s.lastWills with
           | none => s
           | some w =>
             let s := { s with lastWills := Router.aremove cid s.lastWills }
             if s.filters.any (fun f => topicMatches w.topic f) then s.route w.topic w.payload w.props else s)
      s.pump fuel

def State.settle (s : State) : State := s.pump (s.sw.log.length + 8)

/-- the publish properties the router stores: the publisher's without its topic alias -/
def storedProps (props : Option Props) : Option Props :=
  props.map (fun ps => ps.filter (fun p => p.id != 35))

def willOf (w : Will) : WillRec :=
  { topic := w.topic, payload := w.message, qos := w.qos.toNat, retain := w.retain,
    props := w.props.map (fun ps => ps.filter (fun p => p.id != 24)) }

/-- `conn`: a new stream on a `ver` listener whose client sends `p` first. Returns the state and
    whether the client reads EOF instead of a packet. -/
def State.connect (s : State) (c : Nat) (ver : Version) (p : Packet) : State :=
  let x : Conn := { ver := ver }
  match clientEncode ver p with
  | none => s.setConn c { x with isOpen := false, joinOverride := some "unencodable" }
  | some bytes =>
    let cfg : Config := { version := ver, auth := s.auth, maxPayload := maxPayload }
    match admit cfg bytes .idle with
    | .reject none _ => s.setConn c { x with isOpen := false, joinOverride := some "done" }
    | .reject (some code) _ =>
      let q := match connackBytes ver code with
        | some bs => (match clientDecode ver bs with | some pk => [pk] | none => [])
        | none => []
      s.setConn c { x with isOpen := false, queue := q, joinOverride := some "done" }
    | .proceed co =>
      let assigned := co.clientId.isEmpty
      let cid := if assigned then s!"rumqtt-{c}" else (str? co.clientId).getD ""
      let delay := min (propU32 co.props 17) (propU32 (co.will.bind (·.props)) 24)
      match s.sw.handlerStep cid co.clean delay with
      | (sw, t) =>
        let s := { s with sw := sw }
        let x := { x with task := some t, cid := cid, clean := co.clean, keepAlive := co.keepAlive,
                          kaDeadline := s.now + co.keepAlive * 1500, aliasMax := topicAliasMax co.props }
        -- `handle_new_connection`
        if !Router.validClientId cid then
          let s := s.setConn c { x with isOpen := false }
          let s := { s with sw := s.sw.linkStep t false }
          s.settle
        else
          -- takeover: the old connection is removed first (no DISCONNECT packet, no will handling)
          let old := s.routerLive.find? (fun o => match s.conn? o with | some y => y.cid == cid | none => false)
          let s := match old with
            | some o => s.routerRemove o
            | none => s
          if s.routerLive.length ≥ s.maxConn then
            let s := s.setConn c { x with isOpen := false }
            let s := { s with sw := s.sw.linkStep t false }
            -- the old link notices that the router dropped it
            let s := match old with | some o => s.routerClose o none | none => s
            s.settle
          else
            let sessionPresent := !co.clean && s.saved.contains cid
            let s := { s with saved := s.saved.filter (· ≠ cid), routerLive := s.routerLive ++ [c],
                              lastWills := match co.will with
                                | some w => Router.ainsert cid (willOf w) s.lastWills
                                | none => s.lastWills }
            let s := s.setConn c { x with registered := true }
            let s := { s with sw := s.sw.linkStep t true }
            let ckProps : Props := (if assigned then [⟨18, .str [0x2a]⟩] else []) ++ [⟨34, .u16 Router.TOPIC_ALIAS_MAX⟩]
            let s := s.push c (.deviceAck (.connAck sessionPresent .Success (some ckProps)))
            -- the blocked thread is released: tasks signalled by the handler step run, the old
            -- link of a takeover notices that the router dropped it
            let s := { s with sw := s.sw.wake s.sw.tasks.length }
            let s := match old with | some o => s.routerClose o none | none => s
            s.settle

/-- one packet from the client of stream `c`, handled by the router (`handle_device_payload`) -/
def State.clientPacket (s : State) (c : Nat) (p : Packet) : State :=
  match s.conn? c with
  | none => s
  | some x =>
    if !x.isOpen || !x.registered then s else
    let x := { x with kaDeadline := s.now + x.keepAlive * 1500 }
    let s := s.setConn c x
    match p with
    | .subscribe pkid props filters =>
      let subId := match propVal props 11 with | some (.var n) => some n | _ => none
      let subs := filters.foldl (fun (acc : List Sub) f =>
        match str? f.path with
        | some path => acc.filter (·.filter ≠ path) ++ [{ filter := path, qos := f.qos.toNat, subId := subId }]
        | none => acc) x.subs
      let fs := filters.filterMap (fun f => str? f.path)
      let s := { s with filters := fs.foldl (fun acc f => if acc.contains f then acc else acc ++ [f]) s.filters }
      let s := s.setConn c { x with subs := subs }
      s.push c (.deviceAck (.subAck pkid (filters.map (fun f => Encode.subCodeOf f.qos.toNat))))
    | .publish _ qos _ topic pkid payload props =>
      if (propVal props 11).isSome then s.routerClose c (some .MalformedPacket) else
      -- inbound topic alias
      let r : Except DiscReason (Conn × Bytes) :=
        match propVal props 35 with
        | some (.u16 a) =>
          if a = 0 || a > Router.TOPIC_ALIAS_MAX then .error .TopicAliasInvalid
          else if topic.isEmpty then
            (match Router.nlookup a x.inAliases with
             | some t => .ok (x, t)
             | none => .error .ProtocolError)
          else .ok ({ x with inAliases := Router.ninsert a topic x.inAliases }, topic)
        | _ => .ok (x, topic)
      match r with
      | .error reason => s.routerClose c (some reason)
      | .ok (x, topic) =>
        let s := s.setConn c x
        if !s.filters.any (fun f => topicMatches topic f) then s.routerClose c none else
        let s := if qos = .q1 then s.push c (.deviceAck (.pubAck pkid .Success)) else s
        s.route topic payload (storedProps props)
    | .unsubscribe pkid _ filters =>
      -- one reason per filter; a subscribed filter is removed together with its broker alias
      let (x, reasons) := filters.foldl (fun (acc : Conn × List UnsubReason) f =>
        match str? f with
        | some path =>
          if acc.1.subs.any (·.filter == path) then
            (dropAlias { acc.1 with subs := acc.1.subs.filter (·.filter ≠ path) } path, acc.2 ++ [.Success])
          else (acc.1, acc.2 ++ [.NoSubscriptionExisted])
        | none => (acc.1, acc.2 ++ [.NoSubscriptionExisted])) (x, [])
      let s := s.setConn c x
      s.push c (.deviceAck (.unsubAck pkid reasons))
    | .puback _ _ _ => s.routerClose c none        -- the generators only send unsolicited ones
    | .disconnect _ _ =>
      let s := { s with lastWills := Router.aremove x.cid s.lastWills }
      s.routerClose c none
    | _ => s

/-- bytes from the client that the listener's decoder refuses -/
def State.malformed (s : State) (c : Nat) : State := (s.linkEnds c .protocolError).settle

/-- what the listener's decoder makes of bytes the client wrote: the packets in front, and whether
    the decoder then refuses what follows (an incomplete frame at the end is just waited for) -/
def decodeStream (v : Version) : Nat → Bytes → List Packet → List Packet × Bool
  | 0, _, acc => (acc, false)
  | fuel + 1, bs, acc =>
    if bs.isEmpty then (acc, false) else
    match (match v with | .v4 => V4.decode .broker maxPayload bs | .v5 => V5.decode .broker maxPayload bs) with
    | .packet p rest => decodeStream v fuel rest (acc ++ [p])
    | .error .insufficient => (acc, false)
    | .error _ => (acc, true)

/-- raw bytes from the client of stream `c` (`RemoteLink::start`: `read` + `readv`): the packets
    decoded before a malformed frame are handed to the router first, then the link ends with the
    decoder's error -/
def State.rawBytes (s : State) (c : Nat) (bytes : Bytes) : State :=
  match s.conn? c with
  | none => s
  | some x =>
    let (ps, bad) := decodeStream x.ver (bytes.length + 1) bytes []
    let s := ps.foldl (fun s p => (s.clientPacket c p).settle) s
    if bad then s.malformed c else s

/-- `connclose`: CONNECT, then the peer is gone before the CONNACK can be written: if the router
    registers the connection, `start()` fails on the CONNACK and the link ends like any broken
    link (`Event::Disconnect`, will wait); nothing the broker writes is read by anybody -/
def State.connectGone (s : State) (c : Nat) (ver : Version) (p : Packet) : State :=
  let s := s.connect c ver p
  match s.conn? c with
  | none => s
  | some x =>
    let s := s.setConn c { x with queue := [] }
    if x.isOpen then (s.linkEnds c .ioError).settle else s

/-- keep-alive timers that have run out -/
def State.expireKeepAlive (s : State) : State :=
  (List.range s.conns.length).foldl (fun s c =>
    match s.conn? c with
    | some x =>
      if x.isOpen && x.task.isSome && x.joinOverride.isNone && x.kaDeadline ≤ s.now && x.keepAlive ≠ 0
      then s.linkEnds c .keepAlive else s
    | none => s) s

def State.advance (s : State) (ms : Nat) : State :=
  let s := { s with sw := { s.sw with now := s.sw.now + ms } }
  let s := s.expireKeepAlive
  let s := { s with sw := s.sw.expire s.sw.tasks.length }
  s.settle

def State.joinResult (s : State) (c : Nat) : String :=
  match s.conn? c with
  | none => "noconn"
  | some x =>
    match x.joinOverride with
    | some r => r
    | none =>
      match x.task.bind s.sw.task? with
      | some t =>
        (match t.phase with
         | .finished => "done"
         | .panicked => "panic:other"
         | _ => "running")
      | none => "running"

end Stack
