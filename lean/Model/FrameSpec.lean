/-
The MQTT framing rules written independently of the code (MQTT 3.1.1 §2.2.3 / MQTT 5 §1.5.5, §2.1.4):
a control packet starts with one byte, followed by the remaining length as a variable byte
integer of 1–4 bytes (7 data bits each, least significant group first, bit 7 = "more follows"),
followed by exactly that many bytes. Used by the C05 theorems; import-free.
-/
import Model.Frame
namespace Frame

/-- number of leading bytes with the continuation bit set -/
def contLen (bs : List UInt8) : Nat := (bs.takeWhile (fun b => decide (128 ≤ b.toNat))).length

/-- value of a variable byte integer: little-endian base 128 on the low seven bits -/
def varIntValue : List UInt8 → Nat
  | [] => 0
  | d :: ds => d.toNat % 128 + 128 * varIntValue ds

/-- decoding rule for a variable byte integer at the front of `bs`: four continuation bytes are
    malformed (no fifth byte may follow); otherwise the integer ends at the first byte without
    continuation bit; if there is none yet, more bytes are needed. -/
def lengthSpec (bs : List UInt8) : VarInt.LenResult :=
  if 4 ≤ contLen bs then .malformed
  else if contLen bs < bs.length then
    .ok (contLen bs + 1) (varIntValue (bs.take (contLen bs + 1)))
  else .insufficient 1

/-- what the first bytes of a buffer say about the frame at its front -/
inductive HeaderStatus where
  /-- cannot tell yet: fewer than two bytes, or every length byte so far has the continuation bit -/
  | incomplete
  /-- four length bytes with continuation bit -/
  | malformed
  /-- fixed header of `hdrLen` bytes declaring `remaining` more bytes -/
  | complete (hdrLen remaining : Nat)
deriving DecidableEq, Repr

def headerStatus (bs : List UInt8) : HeaderStatus :=
  match bs with
  | [] => .incomplete
  | [_] => .incomplete
  | _ :: rest =>
    if 4 ≤ contLen rest then .malformed
    else if contLen rest < rest.length then
      .complete (contLen rest + 2) (varIntValue (rest.take (contLen rest + 1)))
    else .incomplete

/-- the number `InsufficientBytes` carries while the header is incomplete: what is missing to two
    bytes, else one (the next length byte) -/
def headerAsk (bs : List UInt8) : Nat := if bs.length < 2 then 2 - bs.length else 1

/-- the frame declared by the header of `bs` is completely contained in `bs` -/
def FrameComplete (bs : List UInt8) : Prop :=
  ∃ h r, headerStatus bs = .complete h r ∧ h + r ≤ bs.length

/-- a size limit is exceeded by the declared remaining length -/
def Oversize (max : Limit) (bs : List UInt8) : Prop :=
  ∃ h r m, headerStatus bs = .complete h r ∧ max = some m ∧ m < r

/-- the three packets that consist of a fixed header only, in their one valid encoding
    (MQTT 3.1.1 and 5, §3.12 PINGREQ `C0 00`, §3.13 PINGRESP `D0 00`, §3.14 DISCONNECT `E0 00`):
    type 12 / 13 / 14, flags 0, remaining length 0 -/
def canonicalBodiless (b0 : UInt8) : Bool := b0 == 0xC0 || b0 == 0xD0 || b0 == 0xE0

end Frame
