/-
C04 — MQTT 3.1.1 codecs, both copies:
  client  rumqttc/src/mqttbytes/v4/*.rs   (`Packet::{read, write, size}`)
  broker  rumqttd/src/protocol/v4/*.rs    (`impl Protocol for V4 { read_mut, write }`)
The two texts are near copies; the model is one set of functions with the copy `k` as a parameter
wherever the sources differ (every such place is marked DEV and cites the source).
For each packet the model gives: the header byte, the remaining length the code *claims*
(`len()`), the bytes written after the fixed header, and the body decoder.
Import-free.
-/
import Model.Codec.Packet
namespace Codec.V4

def mqttName : Bytes := [77, 81, 84, 84]   -- "MQTT"

/-- what the writer produces: first byte, claimed remaining length, bytes after the fixed header -/
structure Enc where
  byte1 : Nat
  len : Nat
  body : Bytes

/-! ### CONNECT (v4/connect.rs in both crates) -/

def willLen (w : Will) : Nat := 2 + w.topic.length + 2 + w.message.length

def loginLen (l : Login) : Nat :=
  (if l.username.isEmpty then 0 else 2 + l.username.length)
  + (if l.password.isEmpty then 0 else 2 + l.password.length)

def optLen {α} (f : α → Nat) : Option α → Nat
  | none => 0
  | some a => f a

def connectLen (clientId : Bytes) (will : Option Will) (login : Option Login) : Nat :=
  2 + 4 + 1 + 1 + 2 + (2 + clientId.length) + optLen willLen will + optLen loginLen login

/-- `0x04 | qos << 3 | 0x20 if retain` (disjoint bits, so `|` is `+`) -/
def willFlags (w : Will) : Nat := 4 + w.qos.toNat * 8 + (if w.retain then 32 else 0)

/-- `Login::write`: a field is written (and its flag set) only when non-empty -/
def loginFlags (l : Login) : Nat :=
  (if l.username.isEmpty then 0 else 128) + (if l.password.isEmpty then 0 else 64)

def encWill (w : Will) : Bytes := encBytes16 w.topic ++ encBytes16 w.message

def encLogin (l : Login) : Bytes :=
  (if l.username.isEmpty then [] else encBytes16 l.username)
  ++ (if l.password.isEmpty then [] else encBytes16 l.password)

def optBytes {α} (f : α → Bytes) : Option α → Bytes
  | none => []
  | some a => f a

def connectFlags (clean : Bool) (will : Option Will) (login : Option Login) : Nat :=
  (if clean then 2 else 0) + optLen willFlags will + optLen loginFlags login

/-- DEV: the client writes `self.protocol` (V4 → 0x04, V5 → 0x05); the broker writes the
    constant 0x04 (rumqttd v4/connect.rs `buffer.put_u8(0x04)`) -/
def levelByte (k : Copy) (level : Nat) : Nat :=
  match k with
  | .client => level
  | .broker => 4

def encConnect (k : Copy) (level keepAlive : Nat) (clientId : Bytes) (clean : Bool)
    (will : Option Will) (login : Option Login) : Enc :=
  { byte1 := 0x10
    len := connectLen clientId will login
    body := encBytes16 mqttName ++ [u8 (levelByte k level)] ++ [u8 (connectFlags clean will login)]
            ++ encU16 keepAlive ++ encBytes16 clientId ++ optBytes encWill will
            ++ optBytes encLogin login }

/-- `LastWill::read` / `will::read`. DEV: the client's will topic is a `String`
    (`read_mqtt_string`), the broker's is `Bytes` (`read_mqtt_bytes`). -/
def decWill (k : Copy) (flags : Nat) (bs : Bytes) : Except Err (Option Will × Bytes) :=
  if flags / 4 % 2 = 0 then
    if flags / 8 % 8 ≠ 0 then .error .malformed else .ok (none, bs)
  else
    match decStr16 (k == .client) bs with
    | .error e => .error e
    | .ok (topic, r1) =>
      match decBytes16 r1 with
      | .error e => .error e
      | .ok (msg, r2) =>
        match qosOfNat (flags / 8 % 4) with
        | none => .error .malformed
        | some q => .ok (some ⟨topic, msg, q, flags / 32 % 2 ≠ 0, none⟩, r2)

/-- `Login::read` / `login::read` -/
def decLogin (flags : Nat) (bs : Bytes) : Except Err (Option Login × Bytes) :=
  match (if flags / 128 % 2 = 0 then Except.ok (([] : Bytes), bs) else decStr16 true bs) with
  | .error e => .error e
  | .ok (user, r1) =>
    match (if flags / 64 % 2 = 0 then Except.ok (([] : Bytes), r1) else decStr16 true r1) with
    | .error e => .error e
    | .ok (pass, r2) =>
      if user.isEmpty && pass.isEmpty then .ok (none, r2) else .ok (some ⟨user, pass⟩, r2)

def willHasProps : Option Will → Bool
  | some w => w.props.isSome
  | none => false

/-- DEV: the client accepts protocol levels 4 and 5 (`Protocol::V4 | V5`), the broker only 4 -/
def levelOk (k : Copy) (level : Nat) : Bool :=
  match k with
  | .client => level == 4 || level == 5
  | .broker => level == 4

def decConnect (k : Copy) (body : Bytes) : Except Err Packet :=
  match decStr16 true body with
  | .error e => .error e
  | .ok (name, r1) =>
    match decU8 r1 with
    | .error e => .error e
    | .ok (level, r2) =>
      if name ≠ mqttName then .error .malformed
      else if !levelOk k level then .error .malformed
      else
        match decU8 r2 with
        | .error e => .error e
        | .ok (flags, r3) =>
          match decU16 r3 with
          | .error e => .error e
          | .ok (keepAlive, r4) =>
            match decStr16 true r4 with
            | .error e => .error e
            | .ok (clientId, r5) =>
              match decWill k flags r5 with
              | .error e => .error e
              | .ok (will, r6) =>
                match decLogin flags r6 with
                | .error e => .error e
                | .ok (login, _) =>
                  .ok (.connect level keepAlive clientId (flags / 2 % 2 ≠ 0) none will login)

/-! ### CONNACK (v4/connack.rs) -/

/-- client: `self.code as u8` on the six-variant enum; broker: `connect_code`, `unreachable!()`
    for every v5-only variant of the shared enum (`none` = that panic / not representable).
    DEV: return code 2 is `BadClientId` in the client and `ClientIdentifierNotValid` in the broker. -/
def connCodeByte (k : Copy) : ConnCode → Option Nat
  | .Success => some 0
  | .RefusedProtocolVersion => some 1
  | .BadClientId => (match k with | .client => some 2 | .broker => none)
  | .ClientIdentifierNotValid => (match k with | .client => none | .broker => some 2)
  | .ServiceUnavailable => some 3
  | .BadUserNamePassword => some 4
  | .NotAuthorized => some 5
  | _ => none

/-- `connect_return` -/
def connCodeOfByte (k : Copy) : Nat → Option ConnCode
  | 0 => some .Success
  | 1 => some .RefusedProtocolVersion
  | 2 => some (match k with | .client => .BadClientId | .broker => .ClientIdentifierNotValid)
  | 3 => some .ServiceUnavailable
  | 4 => some .BadUserNamePassword
  | 5 => some .NotAuthorized
  | _ => none

/-- the broker ignores the properties of a v4 ConnAck (`Packet::ConnAck(connack, _)`) -/
def encConnAck (k : Copy) (sp : Bool) (code : ConnCode) : Except Err Enc :=
  match connCodeByte k code with
  | none => .error .panic
  | some c => .ok { byte1 := 0x20, len := 2, body := [u8 (boolBit sp), u8 c] }

def decConnAck (k : Copy) (body : Bytes) : Except Err Packet :=
  match decU8 body with
  | .error e => .error e
  | .ok (flags, r1) =>
    match decU8 r1 with
    | .error e => .error e
    | .ok (rc, _) =>
      match connCodeOfByte k rc with
      | none => .error .malformed
      | some code => .ok (.connack (flags % 2 = 1) code none)

/-! ### PUBLISH (v4/publish.rs; the broker's `write` uses `Publish::len` of protocol/mod.rs) -/

/-- client `Publish::len`: `+2` iff `qos != AtMostOnce && pkid != 0`;
    DEV broker `Publish::len` (protocol/mod.rs): `+2` iff `qos != AtMostOnce`.
    Both agree whenever `write` succeeds (it refuses `pkid == 0` with `qos != 0`). -/
def publishLen (k : Copy) (qos : QoS) (topic : Bytes) (pkid : Nat) (payload : Bytes) : Nat :=
  let len := 2 + topic.length + payload.length
  match k with
  | .client => if qos ≠ .q0 ∧ pkid ≠ 0 then len + 2 else len
  | .broker => if qos = .q0 then len else len + 2

def publishByte1 (dup : Bool) (qos : QoS) (retain : Bool) : Nat :=
  0x30 + boolBit retain + qos.toNat * 2 + boolBit dup * 8

def encPublish (k : Copy) (dup : Bool) (qos : QoS) (retain : Bool) (topic : Bytes) (pkid : Nat)
    (payload : Bytes) : Except Err Enc :=
  if qos ≠ .q0 ∧ pkid = 0 then .error .malformed   -- `Err(PacketIdZero)` (after partial output)
  else .ok
    { byte1 := publishByte1 dup qos retain
      len := publishLen k qos topic pkid payload
      body := encBytes16 topic ++ (if qos ≠ .q0 then encU16 pkid else []) ++ payload }

/-- DEV: the client's topic is a `String` (`read_mqtt_string`), the broker's is `Bytes` -/
def decPublish (k : Copy) (byte1 : Nat) (body : Bytes) : Except Err Packet :=
  match qosOfNat (byte1 / 2 % 4) with
  | none => .error .malformed
  | some qos =>
    match decStr16 (k == .client) body with
    | .error e => .error e
    | .ok (topic, r1) =>
      match qos with
      | .q0 => .ok (.publish (byte1 / 8 % 2 ≠ 0) qos (byte1 % 2 ≠ 0) topic 0 r1 none)
      | _ =>
        match decU16 r1 with
        | .error e => .error e
        | .ok (pkid, r2) =>
          if pkid = 0 then .error .malformed
          else .ok (.publish (byte1 / 8 % 2 ≠ 0) qos (byte1 % 2 ≠ 0) topic pkid r2 none)

/-! ### PUBACK / PUBREC / PUBREL / PUBCOMP -/

def encAck (byte1 : Nat) (pkid : Nat) : Enc := { byte1 := byte1, len := 2, body := encU16 pkid }

/-- reads the packet id; extra bytes are ignored. DEV: the broker's `puback::read` rejects
    `remaining_len != 2` (the other three acks, and all four in the client, do not). -/
def decAckPkid (strict : Bool) (remaining : Nat) (body : Bytes) : Except Err Nat :=
  if strict && remaining ≠ 2 then .error .malformed
  else
    match decU16 body with
    | .error e => .error e
    | .ok (pkid, _) => .ok pkid

/-! ### SUBSCRIBE -/

def filterLen (f : Filter) : Nat := 2 + f.path.length + 1

def subscribeLen (fs : List Filter) : Nat := 2 + (fs.map filterLen).sum

/-- v4 writes only the QoS into the options byte -/
def encFilter (f : Filter) : Bytes := encBytes16 f.path ++ [u8 f.qos.toNat]

def encFilters : List Filter → Bytes
  | [] => []
  | f :: fs => encFilter f ++ encFilters fs

def encSubscribe (pkid : Nat) (fs : List Filter) : Enc :=
  { byte1 := 0x82, len := subscribeLen fs, body := encU16 pkid ++ encFilters fs }

def decFilter (bs : Bytes) : Except Err (Filter × Bytes) :=
  match decStr16 true bs with
  | .error e => .error e
  | .ok (path, r1) =>
    match decU8 r1 with
    | .error e => .error e
    | .ok (opts, r2) =>
      match qosOfNat (opts % 4) with
      | none => .error .malformed
      | some q => .ok (⟨path, q, false, false, .OnEverySubscribe⟩, r2)

/-- `while bytes.has_remaining()`; `fuel` only makes the recursion structural -/
def decFilters : Nat → Bytes → Except Err (List Filter)
  | 0, _ => .ok []
  | fuel + 1, bs =>
    if bs.isEmpty then .ok [] else
    match decFilter bs with
    | .error e => .error e
    | .ok (f, r) =>
      match decFilters fuel r with
      | .error e => .error e
      | .ok fs => .ok (f :: fs)

def decSubscribe (body : Bytes) : Except Err Packet :=
  match decU16 body with
  | .error e => .error e
  | .ok (pkid, r1) =>
    match decFilters r1.length r1 with
    | .error e => .error e
    | .ok fs => if fs.isEmpty then .error .malformed else .ok (.subscribe pkid none fs)

/-! ### SUBACK -/

/-- client: `Success(qos) => qos as u8, Failure => 0x80` (other variants do not exist there);
    broker `code()`: total on the shared enum. -/
def subCodeByte (k : Copy) : SubCode → Option Nat
  | .Success q => some q.toNat
  | .Failure => some 0x80
  | c =>
    match k with
    | .client => none
    | .broker =>
      match c with
      | .QoS0 => some 0 | .QoS1 => some 1 | .QoS2 => some 2
      | .Unspecified => some 128 | .ImplementationSpecific => some 131 | .NotAuthorized => some 135
      | .TopicFilterInvalid => some 143 | .PkidInUse => some 145 | .QuotaExceeded => some 151
      | .SharedSubscriptionsNotSupported => some 158 | .SubscriptionIdNotSupported => some 161
      | .WildcardSubscriptionsNotSupported => some 162
      | .Success q => some q.toNat
      | .Failure => some 0x80

/-- `TryFrom<u8>` (client) / `reason` (broker): the same four values in both -/
def subCodeOfByte : Nat → Option SubCode
  | 0 => some (.Success .q0)
  | 1 => some (.Success .q1)
  | 2 => some (.Success .q2)
  | 128 => some .Failure
  | _ => none

def encCodes (k : Copy) : List SubCode → Option Bytes
  | [] => some []
  | c :: cs =>
    match subCodeByte k c, encCodes k cs with
    | some b, some bs => some (u8 b :: bs)
    | _, _ => none

def encSubAck (k : Copy) (pkid : Nat) (codes : List SubCode) : Except Err Enc :=
  match encCodes k codes with
  | none => .error .panic      -- not representable in the client's enum
  | some bs => .ok { byte1 := 0x90, len := 2 + codes.length, body := encU16 pkid ++ bs }

def decCodes : Bytes → Except Err (List SubCode)
  | [] => .ok []
  | b :: r =>
    match subCodeOfByte b.toNat with
    | none => .error .malformed
    | some c =>
      match decCodes r with
      | .error e => .error e
      | .ok cs => .ok (c :: cs)

def decSubAck (body : Bytes) : Except Err Packet :=
  match decU16 body with
  | .error e => .error e
  | .ok (pkid, r1) =>
    if r1.isEmpty then .error .malformed else
    match decCodes r1 with
    | .error e => .error e
    | .ok cs => .ok (.suback pkid none cs)

/-! ### UNSUBSCRIBE / UNSUBACK -/

def encTopics : List Bytes → Bytes
  | [] => []
  | t :: ts => encBytes16 t ++ encTopics ts

def unsubscribeLen (ts : List Bytes) : Nat := 2 + (ts.map fun t => t.length + 2).sum

def encUnsubscribe (pkid : Nat) (ts : List Bytes) : Enc :=
  { byte1 := 0xA2, len := unsubscribeLen ts, body := encU16 pkid ++ encTopics ts }

/-- `while payload_bytes > 0 { read_mqtt_string; payload_bytes -= len + 2 }` — `payload_bytes`
    starts as the number of body bytes after the packet id and every string is cut from those same
    bytes, so the counter is exactly the number of bytes left (no underflow is reachable) -/
def decTopics : Nat → Bytes → Except Err (List Bytes)
  | 0, _ => .ok []
  | fuel + 1, bs =>
    if bs.isEmpty then .ok [] else
    match decStr16 true bs with
    | .error e => .error e
    | .ok (t, r) =>
      match decTopics fuel r with
      | .error e => .error e
      | .ok ts => .ok (t :: ts)

def decUnsubscribe (body : Bytes) : Except Err Packet :=
  match decU16 body with
  | .error e => .error e
  | .ok (pkid, r1) =>
    match decTopics r1.length r1 with
    | .error e => .error e
    | .ok ts => .ok (.unsubscribe pkid none ts)

def decUnsubAck (remaining : Nat) (body : Bytes) : Except Err Packet :=
  if remaining ≠ 2 then .error .malformed else
  match decU16 body with
  | .error e => .error e
  | .ok (pkid, _) => .ok (.unsuback pkid none [])

/-! ### the packet as a whole -/

/-- values the copy's Rust type can hold at all (the harness's `to_K` is defined exactly here).
    Client v4 structs have no property fields, no ack reasons, no v5 filter options, a six-value
    return code and a two-shape SubAck code; the broker's shared enum holds everything except the
    client-only name `BadClientId`, and has no protocol-level field (it is 4 by construction). -/
def representable (k : Copy) : Packet → Bool
  | .connect level _ _ _ props will _ =>
    (match k with
     | .client => (level == 4 || level == 5) && props.isNone && !willHasProps will
     | .broker => level == 4)
  | .connack _ code props =>
    (match k with
     | .client => props.isNone && (connCodeByte .client code).isSome
     | .broker => code != .BadClientId)
  | .publish _ _ _ _ _ _ props => (match k with | .client => props.isNone | .broker => true)
  | .puback _ reason props | .pubrec _ reason props =>
    (match k with | .client => reason == .Success && props.isNone | .broker => true)
  | .pubrel _ reason props | .pubcomp _ reason props =>
    (match k with | .client => reason == .Success && props.isNone | .broker => true)
  | .subscribe _ props fs =>
    (match k with
     | .client => props.isNone &&
        fs.all (fun f => !f.nolocal && !f.preserveRetain && f.rule == .OnEverySubscribe)
     | .broker => true)
  | .suback _ props codes =>
    (match k with
     | .client => props.isNone && codes.all (fun c => (subCodeByte .client c).isSome)
     | .broker => true)
  | .unsubscribe _ props _ => (match k with | .client => props.isNone | .broker => true)
  | .unsuback _ props reasons =>
    (match k with | .client => props.isNone && reasons.isEmpty | .broker => true)
  | .pingreq => true
  | .pingresp => true
  | .disconnect reason props =>
    (match k with | .client => reason == .NormalDisconnection && props.isNone | .broker => true)

/-- `Packet::write` dispatch / `V4::write` match. DEV: in the broker every arm except ConnAck and
    Publish (whose properties are ignored) requires the properties to be `None`; anything else
    falls into `_ => unreachable!()`. -/
def encParts (k : Copy) : Packet → Except Err Enc
  | .connect level keepAlive clientId clean props will login =>
    if props.isSome || willHasProps will then .error .panic else .ok (encConnect k level keepAlive clientId clean will login)
  | .connack sp code _ => encConnAck k sp code
  | .publish dup qos retain topic pkid payload props =>
    -- broker: `Packet::Publish(publish, _)` — MQTT 5 properties are dropped towards a 3.1.1
    -- connection; the client's struct cannot hold any (not representable)
    if props.isSome && k == .client then .error .panic else encPublish k dup qos retain topic pkid payload
  | .puback pkid _ props => if props.isSome then .error .panic else .ok (encAck 0x40 pkid)
  | .pubrec pkid _ props => if props.isSome then .error .panic else .ok (encAck 0x50 pkid)
  | .pubrel pkid _ props => if props.isSome then .error .panic else .ok (encAck 0x62 pkid)
  | .pubcomp pkid _ props => if props.isSome then .error .panic else .ok (encAck 0x70 pkid)
  | .subscribe pkid props fs =>
    if props.isSome then .error .panic else .ok (encSubscribe pkid fs)
  | .suback pkid props codes => if props.isSome then .error .panic else encSubAck k pkid codes
  | .unsubscribe pkid props ts =>
    if props.isSome then .error .panic else .ok (encUnsubscribe pkid ts)
  | .unsuback pkid props _ =>
    -- `put_slice(&[0xB0, 0x02]); put_u16(pkid)`; the reasons are not written
    if props.isSome then .error .panic else .ok (encAck 0xB0 pkid)
  | .pingreq => .ok { byte1 := 0xC0, len := 0, body := [] }
  | .pingresp => .ok { byte1 := 0xD0, len := 0, body := [] }
  | .disconnect _ props =>
    -- `put_slice(&[0xE0, 0x00])`; the reason code is not written
    if props.isSome then .error .panic else .ok { byte1 := 0xE0, len := 0, body := [] }

/-- bytes produced by `write` -/
def encode (k : Copy) (p : Packet) : Except Err Bytes :=
  match encParts k p with
  | .error e => .error e
  | .ok e => frame e.byte1 e.len e.body

/-- the value `write` returns on success: `1 + count + len` -/
def writeReturn (k : Copy) (p : Packet) : Except Err Nat :=
  match encParts k p with
  | .error e => .error e
  | .ok e =>
    match encVarint e.len with
    | .error er => .error er
    | .ok l => .ok (1 + l.length + e.len)

/-- client `Packet::size()`: `1 + len_len(len) + len` (constants 2 and 4 for the fixed packets,
    which is the same number). It never fails: for `qos != 0 && pkid == 0` it uses the client's
    `len()` that omits the packet id. -/
def size (k : Copy) : Packet → Nat
  | .publish _ qos _ topic pkid payload _ => sizeOfLen (publishLen k qos topic pkid payload)
  | .connect level keepAlive clientId clean _ will login =>
    sizeOfLen (encConnect k level keepAlive clientId clean will login).len
  | .connack .. => sizeOfLen 2
  | .puback .. | .pubrec .. | .pubrel .. | .pubcomp .. | .unsuback .. => sizeOfLen 2
  | .subscribe _ _ fs => sizeOfLen (subscribeLen fs)
  | .suback _ _ codes => sizeOfLen (2 + codes.length)
  | .unsubscribe _ _ ts => sizeOfLen (unsubscribeLen ts)
  | .pingreq | .pingresp | .disconnect .. => 2

/-- body decoders by packet-type nibble. DEV (remaining_len ≠ 0): client `Disconnect` with a body
    is accepted as `Disconnect`; the broker answers `Err(InvalidProtocol)`. -/
def decBody (k : Copy) (ty byte1 remaining : Nat) (body : Bytes) : Except Err Packet :=
  match ty with
  | 1 => decConnect k body
  | 2 => decConnAck k body
  | 3 => decPublish k byte1 body
  | 4 =>
    (match decAckPkid (k == .broker) remaining body with
     | .error e => .error e | .ok pkid => .ok (.puback pkid .Success none))
  | 5 =>
    (match decAckPkid false remaining body with
     | .error e => .error e | .ok pkid => .ok (.pubrec pkid .Success none))
  | 6 =>
    (match decAckPkid false remaining body with
     | .error e => .error e | .ok pkid => .ok (.pubrel pkid .Success none))
  | 7 =>
    (match decAckPkid false remaining body with
     | .error e => .error e | .ok pkid => .ok (.pubcomp pkid .Success none))
  | 8 => decSubscribe body
  | 9 => decSubAck body
  | 10 => decUnsubscribe body
  | 11 => decUnsubAck remaining body
  | 12 => .ok .pingreq
  | 13 => .ok .pingresp
  | 14 => (match k with | .client => .ok (.disconnect .NormalDisconnection none) | .broker => .error .malformed)
  | _ => .error .malformed

/-- the part of `Packet::read` / `V4::read_mut` after the frame has been split off -/
def decodeFrame (k : Copy) (s : Split) : DecodeResult :=
  let ty := s.byte1 / 16
  if ty = 0 ∨ ty = 15 then .error .malformed
  else if s.remaining = 0 then
    match ty with
    | 12 => .packet .pingreq s.rest
    | 13 => .packet .pingresp s.rest
    | 14 => .packet (.disconnect .NormalDisconnection none) s.rest
    | _ => .error .malformed
  else
    match decBody k ty s.byte1 s.remaining s.body with
    | .error e => .error e
    | .ok p => .packet p s.rest

/-- `Packet::read` / `V4::read_mut` -/
def decode (k : Copy) (max : Nat) (bs : Bytes) : DecodeResult :=
  match splitFrame max bs with
  | .error e => .error e
  | .ok s => decodeFrame k s

/-! ### well-formedness (the explicit precondition of the round-trip theorems) -/

/-- a length-prefixed field: fits the 16-bit prefix; `utf8` = the Rust field is a `String` -/
def strOk (utf8 : Bool) (s : Bytes) : Bool := s.length ≤ 65535 && (!utf8 || validUtf8 s)

def willOk (k : Copy) (w : Will) : Bool :=
  strOk (k == .client) w.topic && strOk false w.message && w.props.isNone

def loginOk (l : Login) : Bool :=
  strOk true l.username && strOk true l.password && !(l.username.isEmpty && l.password.isEmpty)

def optAll {α} (f : α → Bool) : Option α → Bool
  | none => true
  | some a => f a

/-- Well-formed MQTT 3.1.1 packet values of copy `k` (see Proofs/Props/C04.lean for the list of
    exclusions and their reasons). -/
def wf (k : Copy) : Packet → Bool
  | .connect level keepAlive clientId _ props will login =>
    levelOk k level && keepAlive < 65536 && strOk true clientId && props.isNone
      && optAll (willOk k) will && optAll loginOk login
  | .connack _ code props => props.isNone && (connCodeByte k code).isSome
  | .publish _ qos _ topic pkid payload props =>
    props.isNone && pkid < 65536 && decide (qos = .q0 ↔ pkid = 0) && strOk (k == .client) topic
      && publishLen k qos topic pkid payload ≤ remainingLimit
  | .puback pkid reason props | .pubrec pkid reason props =>
    pkid < 65536 && reason == .Success && props.isNone
  | .pubrel pkid reason props | .pubcomp pkid reason props =>
    pkid < 65536 && reason == .Success && props.isNone
  | .subscribe pkid props fs =>
    pkid < 65536 && props.isNone && !fs.isEmpty
      && fs.all (fun f => strOk true f.path && !f.nolocal && !f.preserveRetain
                          && f.rule == .OnEverySubscribe)
      && subscribeLen fs ≤ remainingLimit
  | .suback pkid props codes =>
    pkid < 65536 && props.isNone && !codes.isEmpty
      && codes.all (fun c => match c with | .Success _ => true | .Failure => true | _ => false)
      && 2 + codes.length ≤ remainingLimit
  | .unsubscribe pkid props ts =>
    pkid < 65536 && props.isNone && ts.all (strOk true) && unsubscribeLen ts ≤ remainingLimit
  | .unsuback pkid props reasons => pkid < 65536 && props.isNone && reasons.isEmpty
  | .pingreq => true
  | .pingresp => true
  | .disconnect reason props => reason == .NormalDisconnection && props.isNone

/-- field-wise map client value → broker value (same content): only the name of return code 2
    differs between the crates -/
def toBroker : Packet → Packet
  | .connack sp .BadClientId props => .connack sp .ClientIdentifierNotValid props
  | p => p

/-- field-wise map broker value → client value -/
def toClient : Packet → Packet
  | .connack sp .ClientIdentifierNotValid props => .connack sp .BadClientId props
  | p => p

end Codec.V4
