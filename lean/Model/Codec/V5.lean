/-
C04 — MQTT 5 codecs, both copies:
  client  rumqttc/src/v5/mqttbytes/v5/*.rs   (`Packet::{read, write, size}`; `Auth` not modelled: it
          has a writer but `Packet::read` has no arm for it)
  broker  rumqttd/src/protocol/v5/*.rs       (`impl Protocol for V5 { read_mut, write }`)
Same layout as V4.lean: one model, the copy `k` is a parameter where the sources differ (DEV).
The property block follows the code: the writer emits the present properties in its fixed order,
the reader is the `while cursor < properties_len` loop over whatever order arrives, with the
cursor accounting of the source (after a5a3ef5 every arm adds exactly the bytes it consumed).
Import-free.
-/
import Model.Codec.V4
namespace Codec.V5
open Codec.V4 (Enc optLen optBytes optAll strOk mqttName loginLen loginFlags encLogin decLogin
  loginOk willFlags connectFlags publishByte1 encTopics decTopics)

/-! ### property blocks -/

/-- one entry per field of a `…Properties` struct, in the order of the struct's `write`:
    identifier, wire kind, `true` for `Vec` fields -/
abbrev PropSpec := List (Nat × Kind × Bool)

def connectSpec : PropSpec :=
  [(17, .u32, false), (33, .u16, false), (39, .u32, false), (34, .u16, false), (25, .u8, false),
   (23, .u8, false), (38, .pair, true), (21, .str, false), (22, .bin, false)]
def willSpec : PropSpec :=
  [(24, .u32, false), (1, .u8, false), (2, .u32, false), (3, .str, false), (8, .str, false),
   (9, .bin, false), (38, .pair, true)]
def connackSpec : PropSpec :=
  [(17, .u32, false), (33, .u16, false), (36, .u8, false), (37, .u8, false), (39, .u32, false),
   (18, .str, false), (34, .u16, false), (31, .str, false), (38, .pair, true), (40, .u8, false),
   (41, .u8, false), (42, .u8, false), (19, .u16, false), (26, .str, false), (28, .str, false),
   (21, .str, false), (22, .bin, false)]
def publishSpec : PropSpec :=
  [(1, .u8, false), (2, .u32, false), (35, .u16, false), (8, .str, false), (9, .bin, false),
   (38, .pair, true), (11, .var, true), (3, .str, false)]
/-- PubAck, PubRec, PubRel, PubComp, SubAck, UnsubAck -/
def ackSpec : PropSpec := [(31, .str, false), (38, .pair, true)]
def subscribeSpec : PropSpec := [(11, .var, false), (38, .pair, true)]
def unsubscribeSpec : PropSpec := [(38, .pair, true)]
def disconnectSpec : PropSpec :=
  [(17, .u32, false), (31, .str, false), (38, .pair, true), (28, .str, false)]

/-- the arm of the reader's `match property(prop)?` for this identifier (`none` = the `_ =>
    InvalidPropertyType` arm or `property()` itself failing) -/
def kindOf (spec : PropSpec) (id : Nat) : Option Kind :=
  match spec.find? (fun e => e.1 == id) with
  | some e => some e.2.1
  | none => none

/-- what the reader's local variables hold after the loop, as a properties value: for an `Option`
    field the last occurrence, for a `Vec` field all occurrences in order of arrival -/
def normalize (spec : PropSpec) (ps : Props) : Props :=
  spec.flatMap fun e =>
    let xs := ps.filter (fun p => p.id == e.1)
    if e.2.2 then xs else
    match xs.getLast? with
    | some x => [x]
    | none => []

def encPVal : PVal → Bytes
  | .u8 v => [u8 v]
  | .u16 v => encU16 v
  | .u32 v => encU32 v
  | .str s => encBytes16 s
  | .bin b => encBytes16 b
  | .pair k v => encBytes16 k ++ encBytes16 v
  | .var n => encVarintLoop n

def encProperty (p : Property) : Bytes := u8 p.id :: encPVal p.val

def encPropList : Props → Bytes
  | [] => []
  | p :: ps => encProperty p ++ encPropList ps

/-- the struct's `len()`: `1 + 2 + s.len()`, `1 + len_len(id)`, … -/
def pvalLen : PVal → Nat
  | .u8 _ => 1
  | .u16 _ => 2
  | .u32 _ => 4
  | .str s => 2 + s.length
  | .bin b => 2 + b.length
  | .pair k v => 2 + k.length + 2 + v.length
  | .var n => lenLen n

def propListLen : Props → Nat
  | [] => 0
  | p :: ps => 1 + pvalLen p.val + propListLen ps

/-- `write_remaining_length(id)?` fails above the limit -/
def varsFit : Props → Bool
  | [] => true
  | p :: ps => (match p.val with | .var n => decide (n ≤ remainingLimit) | _ => true) && varsFit ps

/-- `len_len(properties_len) + properties_len`, or the single zero byte for `None` -/
def propsLen : Option Props → Nat
  | none => 1
  | some ps => lenLen (propListLen ps) + propListLen ps

/-- `properties.write(buffer)?` or `write_remaining_length(buffer, 0)` -/
def encProps : Option Props → Except Err Bytes
  | none => .ok [u8 0]
  | some ps =>
    if propListLen ps > remainingLimit || !varsFit ps then .error .malformed
    else .ok (encVarintLoop (propListLen ps) ++ encPropList ps)

/-- value reader of one `match` arm; returns the value, what the arm adds to `cursor` (the number
    of value bytes; for a subscription identifier `id_len`), the rest. -/
def decPVal (k : Kind) (bs : Bytes) : Except Err (PVal × Nat × Bytes) :=
  match k with
  | .u8 => (match decU8 bs with | .error e => .error e | .ok (v, r) => .ok (.u8 v, 1, r))
  | .u16 => (match decU16 bs with | .error e => .error e | .ok (v, r) => .ok (.u16 v, 2, r))
  | .u32 => (match decU32 bs with | .error e => .error e | .ok (v, r) => .ok (.u32 v, 4, r))
  | .str =>
    (match decStr16 true bs with
     | .error e => .error e | .ok (s, r) => .ok (.str s, 2 + s.length, r))
  | .bin =>
    (match decBytes16 bs with
     | .error e => .error e | .ok (s, r) => .ok (.bin s, 2 + s.length, r))
  | .pair =>
    (match decStr16 true bs with
     | .error e => .error e
     | .ok (a, r) =>
       match decStr16 true r with
       | .error e => .error e
       | .ok (b, r') => .ok (.pair a b, 2 + a.length + 2 + b.length, r'))
  | .var =>
    (match decVarint bs with
     | .error e => .error e | .ok (n, idLen, r) => .ok (.var n, idLen, r))

/-- `while cursor < properties_len { let prop = read_u8(bytes)?; cursor += 1; match … }`;
    `fuel` only makes the recursion structural (every iteration consumes at least one byte) -/
def propLoop (spec : PropSpec) (plen : Nat) : Nat → Nat → Bytes → Props → Except Err (Props × Bytes)
  | 0, _, _, _ => .error .malformed
  | fuel + 1, cursor, bs, acc =>
    if cursor < plen then
      match bs with
      | [] => .error .malformed
      | id :: r =>
        match kindOf spec id.toNat with
        | none => .error .malformed
        | some k =>
          match decPVal k r with
          | .error e => .error e
          | .ok (v, inc, r') => propLoop spec plen fuel (cursor + 1 + inc) r' (acc ++ [⟨id.toNat, v⟩])
    else .ok (acc, bs)

/-- `XxxProperties::read` / `properties::read` -/
def decProps (spec : PropSpec) (bs : Bytes) : Except Err (Option Props × Bytes) :=
  match decVarint bs with
  | .error e => .error e
  | .ok (plen, _, r) =>
    if plen = 0 then .ok (none, r) else
    match propLoop spec plen (r.length + 1) 0 r [] with
    | .error e => .error e
    | .ok (ps, r') => .ok (some (normalize spec ps), r')

/-! ### reason-code tables -/

/-- `connect_code` (connack.rs): the three v3-only names hit `_ => unreachable!()`
    (`BadClientId` does not exist in the broker's enum) -/
def connCodeByte : ConnCode → Option Nat
  | .Success => some 0 | .UnspecifiedError => some 128 | .MalformedPacket => some 129
  | .ProtocolError => some 130 | .ImplementationSpecificError => some 131
  | .UnsupportedProtocolVersion => some 132 | .ClientIdentifierNotValid => some 133
  | .BadUserNamePassword => some 134 | .NotAuthorized => some 135 | .ServerUnavailable => some 136
  | .ServerBusy => some 137 | .Banned => some 138 | .BadAuthenticationMethod => some 140
  | .TopicNameInvalid => some 144 | .PacketTooLarge => some 149 | .QuotaExceeded => some 151
  | .PayloadFormatInvalid => some 153 | .RetainNotSupported => some 154
  | .QoSNotSupported => some 155 | .UseAnotherServer => some 156 | .ServerMoved => some 157
  | .ConnectionRateExceeded => some 159
  | .RefusedProtocolVersion => none | .BadClientId => none | .ServiceUnavailable => none

/-- `connect_return` -/
def connCodeOfByte : Nat → Option ConnCode
  | 0 => some .Success | 128 => some .UnspecifiedError | 129 => some .MalformedPacket
  | 130 => some .ProtocolError | 131 => some .ImplementationSpecificError
  | 132 => some .UnsupportedProtocolVersion | 133 => some .ClientIdentifierNotValid
  | 134 => some .BadUserNamePassword | 135 => some .NotAuthorized | 136 => some .ServerUnavailable
  | 137 => some .ServerBusy | 138 => some .Banned | 140 => some .BadAuthenticationMethod
  | 144 => some .TopicNameInvalid | 149 => some .PacketTooLarge | 151 => some .QuotaExceeded
  | 153 => some .PayloadFormatInvalid | 154 => some .RetainNotSupported
  | 155 => some .QoSNotSupported | 156 => some .UseAnotherServer | 157 => some .ServerMoved
  | 159 => some .ConnectionRateExceeded
  | _ => none

/-- PubAck / PubRec `code` -/
def ackReasonByte : AckReason → Nat
  | .Success => 0 | .NoMatchingSubscribers => 16 | .UnspecifiedError => 128
  | .ImplementationSpecificError => 131 | .NotAuthorized => 135 | .TopicNameInvalid => 144
  | .PacketIdentifierInUse => 145 | .QuotaExceeded => 151 | .PayloadFormatInvalid => 153

def ackReasonOfByte : Nat → Option AckReason
  | 0 => some .Success | 16 => some .NoMatchingSubscribers | 128 => some .UnspecifiedError
  | 131 => some .ImplementationSpecificError | 135 => some .NotAuthorized
  | 144 => some .TopicNameInvalid | 145 => some .PacketIdentifierInUse | 151 => some .QuotaExceeded
  | 153 => some .PayloadFormatInvalid
  | _ => none

/-- PubRel / PubComp -/
def relReasonByte : RelReason → Nat
  | .Success => 0 | .PacketIdentifierNotFound => 146

def relReasonOfByte : Nat → Option RelReason
  | 0 => some .Success | 146 => some .PacketIdentifierNotFound | _ => none

/-- suback.rs `code`. DEV: the client's enum has `Success(QoS)` and no `QoS0..2`; the broker's
    shared enum has both. `none` = not a value of the copy's enum. -/
def subCodeByte (k : Copy) : SubCode → Option Nat
  | .Success q => some q.toNat
  | .Failure => some 0x80
  | .QoS0 => (match k with | .client => none | .broker => some 0)
  | .QoS1 => (match k with | .client => none | .broker => some 1)
  | .QoS2 => (match k with | .client => none | .broker => some 2)
  | .Unspecified => some 128 | .ImplementationSpecific => some 131 | .NotAuthorized => some 135
  | .TopicFilterInvalid => some 143 | .PkidInUse => some 145 | .QuotaExceeded => some 151
  | .SharedSubscriptionsNotSupported => some 158 | .SubscriptionIdNotSupported => some 161
  | .WildcardSubscriptionsNotSupported => some 162

/-- suback.rs `reason`. DEV: 0/1/2 read as `Success(q)` in the client, `QoS0/1/2` in the broker. -/
def subCodeOfByte (k : Copy) : Nat → Option SubCode
  | 0 => some (match k with | .client => .Success .q0 | .broker => .QoS0)
  | 1 => some (match k with | .client => .Success .q1 | .broker => .QoS1)
  | 2 => some (match k with | .client => .Success .q2 | .broker => .QoS2)
  | 128 => some .Unspecified | 131 => some .ImplementationSpecific | 135 => some .NotAuthorized
  | 143 => some .TopicFilterInvalid | 145 => some .PkidInUse | 151 => some .QuotaExceeded
  | 158 => some .SharedSubscriptionsNotSupported | 161 => some .SubscriptionIdNotSupported
  | 162 => some .WildcardSubscriptionsNotSupported
  | _ => none

def unsubReasonByte : UnsubReason → Nat
  | .Success => 0x00 | .NoSubscriptionExisted => 0x11 | .UnspecifiedError => 0x80
  | .ImplementationSpecificError => 0x83 | .NotAuthorized => 0x87 | .TopicFilterInvalid => 0x8F
  | .PacketIdentifierInUse => 0x91

def unsubReasonOfByte : Nat → Option UnsubReason
  | 0x00 => some .Success | 0x11 => some .NoSubscriptionExisted | 0x80 => some .UnspecifiedError
  | 0x83 => some .ImplementationSpecificError | 0x87 => some .NotAuthorized
  | 0x8F => some .TopicFilterInvalid | 0x91 => some .PacketIdentifierInUse
  | _ => none

def discReasonByte : DiscReason → Nat
  | .NormalDisconnection => 0x00 | .DisconnectWithWillMessage => 0x04 | .UnspecifiedError => 0x80
  | .MalformedPacket => 0x81 | .ProtocolError => 0x82 | .ImplementationSpecificError => 0x83
  | .NotAuthorized => 0x87 | .ServerBusy => 0x89 | .ServerShuttingDown => 0x8B
  | .KeepAliveTimeout => 0x8D | .SessionTakenOver => 0x8E | .TopicFilterInvalid => 0x8F
  | .TopicNameInvalid => 0x90 | .ReceiveMaximumExceeded => 0x93 | .TopicAliasInvalid => 0x94
  | .PacketTooLarge => 0x95 | .MessageRateTooHigh => 0x96 | .QuotaExceeded => 0x97
  | .AdministrativeAction => 0x98 | .PayloadFormatInvalid => 0x99 | .RetainNotSupported => 0x9A
  | .QoSNotSupported => 0x9B | .UseAnotherServer => 0x9C | .ServerMoved => 0x9D
  | .SharedSubscriptionNotSupported => 0x9E | .ConnectionRateExceeded => 0x9F
  | .MaximumConnectTime => 0xA0 | .SubscriptionIdentifiersNotSupported => 0xA1
  | .WildcardSubscriptionsNotSupported => 0xA2

def discReasonOfByte : Nat → Option DiscReason
  | 0x00 => some .NormalDisconnection | 0x04 => some .DisconnectWithWillMessage
  | 0x80 => some .UnspecifiedError | 0x81 => some .MalformedPacket | 0x82 => some .ProtocolError
  | 0x83 => some .ImplementationSpecificError | 0x87 => some .NotAuthorized
  | 0x89 => some .ServerBusy | 0x8B => some .ServerShuttingDown | 0x8D => some .KeepAliveTimeout
  | 0x8E => some .SessionTakenOver | 0x8F => some .TopicFilterInvalid
  | 0x90 => some .TopicNameInvalid | 0x93 => some .ReceiveMaximumExceeded
  | 0x94 => some .TopicAliasInvalid | 0x95 => some .PacketTooLarge
  | 0x96 => some .MessageRateTooHigh | 0x97 => some .QuotaExceeded
  | 0x98 => some .AdministrativeAction | 0x99 => some .PayloadFormatInvalid
  | 0x9A => some .RetainNotSupported | 0x9B => some .QoSNotSupported
  | 0x9C => some .UseAnotherServer | 0x9D => some .ServerMoved
  | 0x9E => some .SharedSubscriptionNotSupported | 0x9F => some .ConnectionRateExceeded
  | 0xA0 => some .MaximumConnectTime | 0xA1 => some .SubscriptionIdentifiersNotSupported
  | 0xA2 => some .WildcardSubscriptionsNotSupported
  | _ => none

/-! ### CONNECT (connect.rs) -/

def willLen (w : Will) : Nat := propsLen w.props + 2 + w.topic.length + 2 + w.message.length

def connectLen (props : Option Props) (clientId : Bytes) (will : Option Will)
    (login : Option Login) : Nat :=
  2 + 4 + 1 + 1 + 2 + propsLen props + (2 + clientId.length) + optLen willLen will
    + optLen loginLen login

def encWill (w : Will) : Except Err Bytes :=
  match encProps w.props with
  | .error e => .error e
  | .ok pb => .ok (pb ++ encBytes16 w.topic ++ encBytes16 w.message)

def encOptWill : Option Will → Except Err Bytes
  | none => .ok []
  | some w => encWill w

def encConnect (keepAlive : Nat) (clientId : Bytes) (clean : Bool) (props : Option Props)
    (will : Option Will) (login : Option Login) : Except Err Enc :=
  match encProps props with
  | .error e => .error e
  | .ok pb =>
    match encOptWill will with
    | .error e => .error e
    | .ok wb =>
      .ok { byte1 := 0x10
            len := connectLen props clientId will login
            body := encBytes16 mqttName ++ [u8 5] ++ [u8 (connectFlags clean will login)]
                    ++ encU16 keepAlive ++ pb ++ encBytes16 clientId ++ wb
                    ++ optBytes encLogin login }

/-- `LastWill::read` / `will::read`: properties first, topic and message are `Bytes` in both copies -/
def decWill (flags : Nat) (bs : Bytes) : Except Err (Option Will × Bytes) :=
  if flags / 4 % 2 = 0 then
    if flags / 8 % 8 ≠ 0 then .error .malformed else .ok (none, bs)
  else
    match decProps willSpec bs with
    | .error e => .error e
    | .ok (wp, r0) =>
      match decBytes16 r0 with
      | .error e => .error e
      | .ok (topic, r1) =>
        match decBytes16 r1 with
        | .error e => .error e
        | .ok (msg, r2) =>
          match qosOfNat (flags / 8 % 4) with
          | none => .error .malformed
          | some q => .ok (some ⟨topic, msg, q, flags / 32 % 2 ≠ 0, wp⟩, r2)

def decConnect (body : Bytes) : Except Err Packet :=
  match decStr16 true body with
  | .error e => .error e
  | .ok (name, r1) =>
    match decU8 r1 with
    | .error e => .error e
    | .ok (level, r2) =>
      if name ≠ mqttName then .error .malformed
      else if level ≠ 5 then .error .malformed
      else
        match decU8 r2 with
        | .error e => .error e
        | .ok (flags, r3) =>
          match decU16 r3 with
          | .error e => .error e
          | .ok (keepAlive, r4) =>
            match decProps connectSpec r4 with
            | .error e => .error e
            | .ok (props, r4') =>
              match decStr16 true r4' with
              | .error e => .error e
              | .ok (clientId, r5) =>
                match decWill flags r5 with
                | .error e => .error e
                | .ok (will, r6) =>
                  match decLogin flags r6 with
                  | .error e => .error e
                  | .ok (login, _) =>
                    .ok (.connect 5 keepAlive clientId (flags / 2 % 2 ≠ 0) props will login)

/-! ### CONNACK -/

def encConnAck (sp : Bool) (code : ConnCode) (props : Option Props) : Except Err Enc :=
  match connCodeByte code with
  | none => .error .panic
  | some c =>
    match encProps props with
    | .error e => .error e
    | .ok pb => .ok { byte1 := 0x20, len := 2 + propsLen props, body := [u8 (boolBit sp), u8 c] ++ pb }

def decConnAck (body : Bytes) : Except Err Packet :=
  match decU8 body with
  | .error e => .error e
  | .ok (flags, r1) =>
    match decU8 r1 with
    | .error e => .error e
    | .ok (rc, r2) =>
      match decProps connackSpec r2 with
      | .error e => .error e
      | .ok (props, _) =>
        match connCodeOfByte rc with
        | none => .error .malformed
        | some code => .ok (.connack (flags % 2 = 1) code props)

/-! ### PUBLISH -/

/-- both copies: `+2` iff `qos != AtMostOnce && pkid != 0` -/
def publishLen (qos : QoS) (topic : Bytes) (pkid : Nat) (payload : Bytes) (props : Option Props) :
    Nat :=
  2 + topic.length + (if qos ≠ .q0 ∧ pkid ≠ 0 then 2 else 0) + propsLen props + payload.length

def encPublish (dup : Bool) (qos : QoS) (retain : Bool) (topic : Bytes) (pkid : Nat)
    (payload : Bytes) (props : Option Props) : Except Err Enc :=
  if qos ≠ .q0 ∧ pkid = 0 then .error .malformed
  else
    match encProps props with
    | .error e => .error e
    | .ok pb => .ok
      { byte1 := publishByte1 dup qos retain
        len := publishLen qos topic pkid payload props
        body := encBytes16 topic ++ (if qos ≠ .q0 then encU16 pkid else []) ++ pb ++ payload }

/-- the topic is `Bytes` in both v5 copies (`read_mqtt_bytes`) -/
def decPublish (byte1 : Nat) (body : Bytes) : Except Err Packet :=
  match qosOfNat (byte1 / 2 % 4) with
  | none => .error .malformed
  | some qos =>
    match decBytes16 body with
    | .error e => .error e
    | .ok (topic, r1) =>
      match (match qos with
             | .q0 => Except.ok (0, r1)
             | _ => (match decU16 r1 with
                     | .error e => Except.error e
                     | .ok (pkid, r2) => if pkid = 0 then .error .malformed else .ok (pkid, r2))) with
      | .error e => .error e
      | .ok (pkid, r2) =>
        match decProps publishSpec r2 with
        | .error e => .error e
        | .ok (props, r3) =>
          .ok (.publish (byte1 / 8 % 2 ≠ 0) qos (byte1 % 2 ≠ 0) topic pkid r3 props)

/-! ### PUBACK / PUBREC / PUBREL / PUBCOMP (one shape) -/

/-- `reason == Success && properties.is_none()` → two-byte body, `write` returns 4;
    otherwise `pkid, code, properties` -/
def encAck (byte1 pkid : Nat) (isSuccess : Bool) (code : Nat) (props : Option Props) :
    Except Err Enc :=
  if isSuccess && props.isNone then .ok { byte1 := byte1, len := 2, body := encU16 pkid }
  else
    match encProps props with
    | .error e => .error e
    | .ok pb => .ok { byte1 := byte1, len := 3 + propsLen props, body := encU16 pkid ++ [u8 code] ++ pb }

/-- returns pkid, reason byte (`none` = the short form), properties -/
def decAck (remaining : Nat) (body : Bytes) : Except Err (Nat × Option Nat × Option Props) :=
  match decU16 body with
  | .error e => .error e
  | .ok (pkid, r1) =>
    if remaining = 2 then .ok (pkid, none, none) else
    match decU8 r1 with
    | .error e => .error e
    | .ok (rc, r2) =>
      if remaining < 4 then .ok (pkid, some rc, none) else
      match decProps ackSpec r2 with
      | .error e => .error e
      | .ok (props, _) => .ok (pkid, some rc, props)

/-! ### SUBSCRIBE -/

def filterLen (f : Filter) : Nat := 2 + f.path.length + 1

def subscribeLen (props : Option Props) (fs : List Filter) : Nat :=
  2 + (fs.map filterLen).sum + propsLen props

def ruleBits : Rule → Nat
  | .OnEverySubscribe => 0 | .OnNewSubscribe => 16 | .Never => 32

def filterOpts (f : Filter) : Nat :=
  f.qos.toNat + (if f.nolocal then 4 else 0) + (if f.preserveRetain then 8 else 0) + ruleBits f.rule

def encFilter (f : Filter) : Bytes := encBytes16 f.path ++ [u8 (filterOpts f)]

def encFilters : List Filter → Bytes
  | [] => []
  | f :: fs => encFilter f ++ encFilters fs

def encSubscribe (pkid : Nat) (props : Option Props) (fs : List Filter) : Except Err Enc :=
  match encProps props with
  | .error e => .error e
  | .ok pb => .ok { byte1 := 0x82, len := subscribeLen props fs, body := encU16 pkid ++ pb ++ encFilters fs }

def ruleOfNat : Nat → Option Rule
  | 0 => some .OnEverySubscribe | 1 => some .OnNewSubscribe | 2 => some .Never | _ => none

def decFilter (bs : Bytes) : Except Err (Filter × Bytes) :=
  match decStr16 true bs with
  | .error e => .error e
  | .ok (path, r1) =>
    match decU8 r1 with
    | .error e => .error e
    | .ok (opts, r2) =>
      match ruleOfNat (opts / 16 % 4) with
      | none => .error .malformed
      | some rule =>
        match qosOfNat (opts % 4) with
        | none => .error .malformed
        | some q => .ok (⟨path, q, opts / 4 % 2 ≠ 0, opts / 8 % 2 ≠ 0, rule⟩, r2)

def decFilters : Nat → Bytes → Except Err (List Filter)
  | 0, _ => .ok []
  | fuel + 1, bs =>
    if bs.isEmpty then .ok [] else
    match decFilter bs with
    | .error e => .error e
    | .ok (f, r) =>
      match decFilters fuel r with
      | .error e => .error e
      | .ok fs => .ok (f :: fs)

def decSubscribe (body : Bytes) : Except Err Packet :=
  match decU16 body with
  | .error e => .error e
  | .ok (pkid, r1) =>
    match decProps subscribeSpec r1 with
    | .error e => .error e
    | .ok (props, r2) =>
      match decFilters r2.length r2 with
      | .error e => .error e
      | .ok fs => if fs.isEmpty then .error .malformed else .ok (.subscribe pkid props fs)

/-! ### SUBACK / UNSUBACK -/

def encCodes (k : Copy) : List SubCode → Option Bytes
  | [] => some []
  | c :: cs =>
    match subCodeByte k c, encCodes k cs with
    | some b, some bs => some (u8 b :: bs)
    | _, _ => none

def encSubAck (k : Copy) (pkid : Nat) (props : Option Props) (codes : List SubCode) :
    Except Err Enc :=
  match encCodes k codes with
  | none => .error .panic
  | some bs =>
    match encProps props with
    | .error e => .error e
    | .ok pb => .ok { byte1 := 0x90, len := 2 + codes.length + propsLen props,
                      body := encU16 pkid ++ pb ++ bs }

def decCodes (k : Copy) : Bytes → Except Err (List SubCode)
  | [] => .ok []
  | b :: r =>
    match subCodeOfByte k b.toNat with
    | none => .error .malformed
    | some c =>
      match decCodes k r with
      | .error e => .error e
      | .ok cs => .ok (c :: cs)

def decSubAck (k : Copy) (body : Bytes) : Except Err Packet :=
  match decU16 body with
  | .error e => .error e
  | .ok (pkid, r1) =>
    match decProps ackSpec r1 with
    | .error e => .error e
    | .ok (props, r2) =>
      if r2.isEmpty then .error .malformed else
      match decCodes k r2 with
      | .error e => .error e
      | .ok cs => .ok (.suback pkid props cs)

def encUnsubAck (pkid : Nat) (props : Option Props) (reasons : List UnsubReason) : Except Err Enc :=
  match encProps props with
  | .error e => .error e
  | .ok pb => .ok { byte1 := 0xB0, len := 2 + reasons.length + propsLen props,
                    body := encU16 pkid ++ pb ++ reasons.map (fun x => u8 (unsubReasonByte x)) }

def decReasons : Bytes → Except Err (List UnsubReason)
  | [] => .ok []
  | b :: r =>
    match unsubReasonOfByte b.toNat with
    | none => .error .malformed
    | some c =>
      match decReasons r with
      | .error e => .error e
      | .ok cs => .ok (c :: cs)

def decUnsubAck (body : Bytes) : Except Err Packet :=
  match decU16 body with
  | .error e => .error e
  | .ok (pkid, r1) =>
    match decProps ackSpec r1 with
    | .error e => .error e
    | .ok (props, r2) =>
      if r2.isEmpty then .error .malformed else
      match decReasons r2 with
      | .error e => .error e
      | .ok rs => .ok (.unsuback pkid props rs)

/-! ### UNSUBSCRIBE -/

def unsubscribeLen (props : Option Props) (ts : List Bytes) : Nat :=
  2 + (ts.map fun t => t.length + 2).sum + propsLen props

def encUnsubscribe (pkid : Nat) (props : Option Props) (ts : List Bytes) : Except Err Enc :=
  match encProps props with
  | .error e => .error e
  | .ok pb => .ok { byte1 := 0xA2, len := unsubscribeLen props ts, body := encU16 pkid ++ pb ++ encTopics ts }

def decUnsubscribe (body : Bytes) : Except Err Packet :=
  match decU16 body with
  | .error e => .error e
  | .ok (pkid, r1) =>
    match decProps unsubscribeSpec r1 with
    | .error e => .error e
    | .ok (props, r2) =>
      match decTopics r2.length r2 with
      | .error e => .error e
      | .ok ts => .ok (.unsubscribe pkid props ts)

/-! ### DISCONNECT (disconnect.rs) -/

/-- `len()`: `2` ("packet type + 0x00", i.e. the whole packet) for the plain form; otherwise the
    remaining length: `1 + len_len(p) + p` with properties, `2` (reason code + empty property
    length, c89564d) without. -/
def disconnectLen (reason : DiscReason) (props : Option Props) : Nat :=
  if reason = .NormalDisconnection ∧ props.isNone then 2
  else match props with
    | some ps => 1 + (lenLen (propListLen ps) + propListLen ps)
    | none => 2

/-- `is_plain()` (client) / the same condition spelled out in the broker (95ce8d5) -/
def disconnectPlain (reason : DiscReason) (props : Option Props) : Bool :=
  reason == .NormalDisconnection && props.isNone

/-- `write`: the plain form is the two bytes `e0 00` (returns `Ok(length)` = 2); every other value
    is `e0, remaining length, reason code, property block` (a zero length byte for `None`).
    Returns (bytes, return value). -/
def encDisconnect (reason : DiscReason) (props : Option Props) : Except Err (Bytes × Nat) :=
  let length := disconnectLen reason props
  if disconnectPlain reason props then .ok ([u8 0xE0, u8 0], length)
  else
    match encVarint length with
    | .error e => .error e
    | .ok l =>
      match encProps props with
      | .error e => .error e
      | .ok pb => .ok (u8 0xE0 :: (l ++ [u8 (discReasonByte reason)] ++ pb), 1 + l.length + length)

/-- client `size()` -/
def disconnectSize (reason : DiscReason) (props : Option Props) : Nat :=
  let len := disconnectLen reason props
  if disconnectPlain reason props then len else 1 + lenLen len + len

/-- `Disconnect::read` / `disconnect::read` for a non-empty body -/
def decDisconnect (byte1 : Nat) (body : Bytes) : Except Err Packet :=
  if byte1 % 16 ≠ 0 then .error .malformed else
  match decU8 body with
  | .error e => .error e
  | .ok (rc, r1) =>
    match discReasonOfByte rc with
    | none => .error .malformed
    | some reason =>
      match decProps disconnectSpec r1 with
      | .error e => .error e
      | .ok (props, _) => .ok (.disconnect reason props)

/-! ### the packet as a whole -/

/-- values the copy's Rust types can hold (= where the harness's `to_K` is defined) -/
def representable (k : Copy) : Packet → Bool
  | .connect level _ _ _ _ _ _ => level == 5
  | .connack _ code _ => (match k with | .client => true | .broker => code != .BadClientId)
  | .suback _ _ codes => codes.all (fun c => (subCodeByte k c).isSome)
  | _ => true

/-- the arms of `Packet::write` / `V5::write` that follow the common scheme
    (header byte, `write_remaining_length(len)`, body); Disconnect is separate -/
def encParts (k : Copy) : Packet → Except Err Enc
  | .connect _ keepAlive clientId clean props will login =>
    encConnect keepAlive clientId clean props will login
  | .connack sp code props => encConnAck sp code props
  | .publish dup qos retain topic pkid payload props =>
    encPublish dup qos retain topic pkid payload props
  | .puback pkid reason props =>
    encAck 0x40 pkid (reason == .Success) (ackReasonByte reason) props
  | .pubrec pkid reason props =>
    encAck 0x50 pkid (reason == .Success) (ackReasonByte reason) props
  | .pubrel pkid reason props =>
    encAck 0x62 pkid (reason == .Success) (relReasonByte reason) props
  | .pubcomp pkid reason props =>
    encAck 0x70 pkid (reason == .Success) (relReasonByte reason) props
  | .subscribe pkid props fs => encSubscribe pkid props fs
  | .suback pkid props codes => encSubAck k pkid props codes
  | .unsubscribe pkid props ts => encUnsubscribe pkid props ts
  | .unsuback pkid props reasons => encUnsubAck pkid props reasons
  | .pingreq => .ok { byte1 := 0xC0, len := 0, body := [] }
  | .pingresp => .ok { byte1 := 0xD0, len := 0, body := [] }
  | .disconnect .. => .error .malformed

/-- `Packet::write` / `V5::write`; result: produced bytes and the returned count -/
def encodeRet (k : Copy) : Packet → Except Err (Bytes × Nat)
  | .disconnect reason props => encDisconnect reason props
  | p =>
    match encParts k p with
    | .error e => .error e
    | .ok e =>
      match encVarint e.len with
      | .error er => .error er
      | .ok l => .ok (u8 e.byte1 :: (l ++ e.body), 1 + l.length + e.len)

def encode (k : Copy) (p : Packet) : Except Err Bytes :=
  match encodeRet k p with
  | .error e => .error e
  | .ok (bs, _) => .ok bs

def writeReturn (k : Copy) (p : Packet) : Except Err Nat :=
  match encodeRet k p with
  | .error e => .error e
  | .ok (_, n) => .ok n

/-- client `Packet::size()` -/
def size (_k : Copy) : Packet → Nat
  | .connect _ _ clientId _ props will login => sizeOfLen (connectLen props clientId will login)
  | .connack _ _ props => sizeOfLen (2 + propsLen props)
  | .publish _ qos _ topic pkid payload props => sizeOfLen (publishLen qos topic pkid payload props)
  | .puback _ reason props | .pubrec _ reason props =>
    if reason == .Success && props.isNone then 4 else sizeOfLen (3 + propsLen props)
  | .pubrel _ reason props | .pubcomp _ reason props =>
    if reason == .Success && props.isNone then 4 else sizeOfLen (3 + propsLen props)
  | .subscribe _ props fs => sizeOfLen (subscribeLen props fs)
  | .suback _ props codes => sizeOfLen (2 + codes.length + propsLen props)
  | .unsubscribe _ props ts => sizeOfLen (unsubscribeLen props ts)
  | .unsuback _ props reasons => sizeOfLen (2 + reasons.length + propsLen props)
  | .pingreq | .pingresp => 2
  | .disconnect reason props => disconnectSize reason props

/-- shared shape of the four ack readers: short form = `Success`, no properties -/
def decAckWith {ρ : Type} (ofByte : Nat → Option ρ) (success : ρ)
    (mk : Nat → ρ → Option Props → Packet) (remaining : Nat) (body : Bytes) : Except Err Packet :=
  match decAck remaining body with
  | .error e => .error e
  | .ok (pkid, rc, props) =>
    match rc with
    | none => .ok (mk pkid success none)
    | some c =>
      match ofByte c with
      | none => .error .malformed
      | some r => .ok (mk pkid r props)

/-- body decoders (remaining_len ≠ 0), `read_frame` of both copies -/
def decBody (k : Copy) (ty byte1 remaining : Nat) (body : Bytes) : Except Err Packet :=
  match ty with
  | 1 => decConnect body
  | 2 => decConnAck body
  | 3 => decPublish byte1 body
  | 4 => decAckWith ackReasonOfByte .Success .puback remaining body
  | 5 => decAckWith ackReasonOfByte .Success .pubrec remaining body
  | 6 => decAckWith relReasonOfByte .Success .pubrel remaining body
  | 7 => decAckWith relReasonOfByte .Success .pubcomp remaining body
  | 8 => decSubscribe body
  | 9 => decSubAck k body
  | 10 => decUnsubscribe body
  | 11 => decUnsubAck body
  | 12 => .ok .pingreq
  | 13 => .ok .pingresp
  | 14 => decDisconnect byte1 body
  | _ => .error .malformed

/-- `read_frame` after the frame split. DEV (remaining_len = 0): the client hands an empty
    DISCONNECT to `Disconnect::read`, which refuses non-zero flag bits; the broker's arm returns
    `NormalDisconnection` without looking at the flags. A body reader that runs out of bytes inside
    the complete frame (`InsufficientBytes`) is reported as `MalformedPacket` (5359110). -/
def decodeFrame (k : Copy) (s : Split) : DecodeResult :=
  let ty := s.byte1 / 16
  if ty = 0 ∨ ty = 15 then .error .malformed
  else if s.remaining = 0 then
    match ty with
    | 12 => .packet .pingreq s.rest
    | 13 => .packet .pingresp s.rest
    | 14 =>
      (match k with
       | .client =>
         if s.byte1 % 16 ≠ 0 then .error .malformed
         else .packet (.disconnect .NormalDisconnection none) s.rest
       | .broker => .packet (.disconnect .NormalDisconnection none) s.rest)
    | _ => .error .malformed
  else
    match decBody k ty s.byte1 s.remaining s.body with
    | .error .insufficient => .error .malformed
    | .error e => .error e
    | .ok p => .packet p s.rest

/-- `Packet::read` / `V5::read_mut` -/
def decode (k : Copy) (max : Nat) (bs : Bytes) : DecodeResult :=
  match splitFrame max bs with
  | .error e => .error e
  | .ok s => decodeFrame k s


/-! ### well-formedness -/

/-- value ranges of one property and agreement of its wire kind with the struct's field -/
def propOk (spec : PropSpec) (p : Property) : Bool :=
  kindOf spec p.id == some p.val.kind && p.id < 256 &&
  (match p.val with
   | .u8 v => decide (v < 256)
   | .u16 v => decide (v < 65536)
   | .u32 v => decide (v < 4294967296)
   | .str s => strOk true s
   | .bin b => strOk false b
   | .pair a b => strOk true a && strOk true b
   | .var n => decide (n ≤ remainingLimit))

/-- well-formedness of a properties value for the struct described by `spec`: a canonical
    (writer-order, `Option` fields at most once), non-empty list of in-range values.
    `Some(struct with every field empty)` is excluded: it is written as length 0 and read back as
    `None` (second representation of one wire value). -/
def propsOk (spec : PropSpec) : Option Props → Bool
  | none => true
  | some ps =>
    !ps.isEmpty && ps.all (propOk spec) && decide (normalize spec ps = ps)
      && propListLen ps ≤ remainingLimit

def willOk (w : Will) : Bool :=
  strOk false w.topic && strOk false w.message && propsOk willSpec w.props

def filterOk (f : Filter) : Bool := strOk true f.path

/-- Well-formed MQTT 5 packet values of copy `k`: the precondition of the theorems and, the same
    predicate, the precondition of the monitor in the correspondence run. Exclusions are listed
    with their reasons in Proofs/Props/C04.lean. -/
def wf (k : Copy) : Packet → Bool
  | .connect level keepAlive clientId _ props will login =>
    level == 5 && keepAlive < 65536 && strOk true clientId && propsOk connectSpec props
      && optAll willOk will && optAll loginOk login
      && connectLen props clientId will login ≤ remainingLimit
  | .connack _ code props =>
    (connCodeByte code).isSome && (match k with | .client => true | .broker => code != .BadClientId)
      && propsOk connackSpec props && 2 + propsLen props ≤ remainingLimit
  | .publish _ qos _ topic pkid payload props =>
    pkid < 65536 && decide (qos = .q0 ↔ pkid = 0) && strOk false topic
      && propsOk publishSpec props && publishLen qos topic pkid payload props ≤ remainingLimit
  | .puback pkid _ props | .pubrec pkid _ props | .pubrel pkid _ props | .pubcomp pkid _ props =>
    pkid < 65536 && propsOk ackSpec props && 3 + propsLen props ≤ remainingLimit
  | .subscribe pkid props fs =>
    pkid < 65536 && !fs.isEmpty && fs.all filterOk && propsOk subscribeSpec props
      && subscribeLen props fs ≤ remainingLimit
  | .suback pkid props codes =>
    pkid < 65536 && !codes.isEmpty
      && codes.all (fun c => match subCodeByte k c with
                             | some b => subCodeOfByte k b == some c
                             | none => false)
      && propsOk ackSpec props && 2 + codes.length + propsLen props ≤ remainingLimit
  | .unsubscribe pkid props ts =>
    pkid < 65536 && ts.all (strOk true) && propsOk unsubscribeSpec props
      && unsubscribeLen props ts ≤ remainingLimit
  | .unsuback pkid props reasons =>
    pkid < 65536 && !reasons.isEmpty && propsOk ackSpec props
      && 2 + reasons.length + propsLen props ≤ remainingLimit
  | .pingreq => true
  | .pingresp => true
  | .disconnect _ props => propsOk disconnectSpec props && 1 + propsLen props ≤ remainingLimit

def toBrokerCode : SubCode → SubCode
  | .Success .q0 => .QoS0 | .Success .q1 => .QoS1 | .Success .q2 => .QoS2 | c => c

def toClientCode : SubCode → SubCode
  | .QoS0 => .Success .q0 | .QoS1 => .Success .q1 | .QoS2 => .Success .q2 | c => c

/-- field-wise map client value → broker value: only the spelling of the granted-QoS SubAck
    codes differs (`Success(q)` in rumqttc, `QoS0/1/2` in rumqttd) -/
def toBroker : Packet → Packet
  | .suback pkid props codes => .suback pkid props (codes.map toBrokerCode)
  | p => p

def toClient : Packet → Packet
  | .suback pkid props codes => .suback pkid props (codes.map toClientCode)
  | p => p

end Codec.V5
