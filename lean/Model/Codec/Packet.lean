/-
C04 — packet values. One Lean type is the union of what the four copies can hold:
  client v4  `rumqttc::mqttbytes::v4::Packet`
  client v5  `rumqttc::v5::mqttbytes::v5::Packet`   (the write-only `Auth` packet is not modelled)
  broker     `rumqttd::protocol::Packet` (one enum shared by `V4` and `V5`)
A copy that lacks a field holds the canonical default there (client v4 acks: reason `Success`,
properties `none`; client v4 filters: no v5 options; …) — the field-wise maps the harness applies
(`from_K` in harness/src/codec.rs) are exactly these. Enum constructors carry the Rust variant names.
A v5 properties struct is represented by the list of its present properties in the order the
copy's writer emits them (`Option<String>` = at most one entry, `Vec<…>` = one entry per element);
`PropSpec.normalize` is the bijection between arbitrary lists and that canonical form.
Import-free.
-/
import Model.Codec.Wire
namespace Codec

inductive Copy | client | broker
  deriving DecidableEq, Repr

inductive QoS | q0 | q1 | q2
  deriving DecidableEq, Repr

def QoS.toNat : QoS → Nat | .q0 => 0 | .q1 => 1 | .q2 => 2

/-- `qos(num)` (all copies) -/
def qosOfNat : Nat → Option QoS
  | 0 => some .q0 | 1 => some .q1 | 2 => some .q2 | _ => none

/-- wire kinds of MQTT-5 properties -/
inductive Kind | u8 | u16 | u32 | str | bin | pair | var
  deriving DecidableEq, Repr

inductive PVal
  | u8 (v : Nat) | u16 (v : Nat) | u32 (v : Nat)
  | str (s : Bytes) | bin (b : Bytes) | pair (k v : Bytes)
  | var (n : Nat)
  deriving DecidableEq, Repr

def PVal.kind : PVal → Kind
  | .u8 _ => .u8 | .u16 _ => .u16 | .u32 _ => .u32 | .str _ => .str | .bin _ => .bin
  | .pair _ _ => .pair | .var _ => .var

structure Property where
  id : Nat
  val : PVal
  deriving DecidableEq, Repr

abbrev Props := List Property

structure Will where
  topic : Bytes
  message : Bytes
  qos : QoS
  retain : Bool
  props : Option Props
  deriving DecidableEq, Repr

structure Login where
  username : Bytes
  password : Bytes
  deriving DecidableEq, Repr

/-- union of `ConnectReturnCode` of the three crates' enums -/
inductive ConnCode
  | Success | RefusedProtocolVersion | BadClientId | ServiceUnavailable | UnspecifiedError
  | MalformedPacket | ProtocolError | ImplementationSpecificError | UnsupportedProtocolVersion
  | ClientIdentifierNotValid | BadUserNamePassword | NotAuthorized | ServerUnavailable | ServerBusy
  | Banned | BadAuthenticationMethod | TopicNameInvalid | PacketTooLarge | QuotaExceeded
  | PayloadFormatInvalid | RetainNotSupported | QoSNotSupported | UseAnotherServer | ServerMoved
  | ConnectionRateExceeded
  deriving DecidableEq, Repr

/-- `PubAckReason` = `PubRecReason` (same variants) -/
inductive AckReason
  | Success | NoMatchingSubscribers | UnspecifiedError | ImplementationSpecificError | NotAuthorized
  | TopicNameInvalid | PacketIdentifierInUse | QuotaExceeded | PayloadFormatInvalid
  deriving DecidableEq, Repr

/-- `PubRelReason` = `PubCompReason` -/
inductive RelReason | Success | PacketIdentifierNotFound
  deriving DecidableEq, Repr

/-- union of the `SubscribeReasonCode` enums (`Success0` = `Success(QoS::AtMostOnce)` …) -/
inductive SubCode
  | Success (q : QoS) | Failure | QoS0 | QoS1 | QoS2 | Unspecified | ImplementationSpecific
  | NotAuthorized | TopicFilterInvalid | PkidInUse | QuotaExceeded
  | SharedSubscriptionsNotSupported | SubscriptionIdNotSupported | WildcardSubscriptionsNotSupported
  deriving DecidableEq, Repr

inductive UnsubReason
  | Success | NoSubscriptionExisted | UnspecifiedError | ImplementationSpecificError | NotAuthorized
  | TopicFilterInvalid | PacketIdentifierInUse
  deriving DecidableEq, Repr

inductive DiscReason
  | NormalDisconnection | DisconnectWithWillMessage | UnspecifiedError | MalformedPacket
  | ProtocolError | ImplementationSpecificError | NotAuthorized | ServerBusy | ServerShuttingDown
  | KeepAliveTimeout | SessionTakenOver | TopicFilterInvalid | TopicNameInvalid
  | ReceiveMaximumExceeded | TopicAliasInvalid | PacketTooLarge | MessageRateTooHigh | QuotaExceeded
  | AdministrativeAction | PayloadFormatInvalid | RetainNotSupported | QoSNotSupported
  | UseAnotherServer | ServerMoved | SharedSubscriptionNotSupported | ConnectionRateExceeded
  | MaximumConnectTime | SubscriptionIdentifiersNotSupported | WildcardSubscriptionsNotSupported
  deriving DecidableEq, Repr

/-- `RetainForwardRule`: 0 = OnEverySubscribe, 1 = OnNewSubscribe, 2 = Never -/
inductive Rule | OnEverySubscribe | OnNewSubscribe | Never
  deriving DecidableEq, Repr

structure Filter where
  path : Bytes
  qos : QoS
  nolocal : Bool
  preserveRetain : Bool
  rule : Rule
  deriving DecidableEq, Repr

inductive Packet
  | connect (level keepAlive : Nat) (clientId : Bytes) (clean : Bool) (props : Option Props)
      (will : Option Will) (login : Option Login)
  | connack (sessionPresent : Bool) (code : ConnCode) (props : Option Props)
  | publish (dup : Bool) (qos : QoS) (retain : Bool) (topic : Bytes) (pkid : Nat) (payload : Bytes)
      (props : Option Props)
  | puback (pkid : Nat) (reason : AckReason) (props : Option Props)
  | pubrec (pkid : Nat) (reason : AckReason) (props : Option Props)
  | pubrel (pkid : Nat) (reason : RelReason) (props : Option Props)
  | pubcomp (pkid : Nat) (reason : RelReason) (props : Option Props)
  | subscribe (pkid : Nat) (props : Option Props) (filters : List Filter)
  | suback (pkid : Nat) (props : Option Props) (codes : List SubCode)
  | unsubscribe (pkid : Nat) (props : Option Props) (filters : List Bytes)
  | unsuback (pkid : Nat) (props : Option Props) (reasons : List UnsubReason)
  | pingreq
  | pingresp
  | disconnect (reason : DiscReason) (props : Option Props)
  deriving DecidableEq, Repr

/-- outcome of decoding one packet from a stream -/
inductive DecodeResult
  | packet (p : Packet) (rest : Bytes)
  | error (e : Err)
  deriving DecidableEq, Repr

def boolBit (b : Bool) : Nat := if b then 1 else 0

end Codec
