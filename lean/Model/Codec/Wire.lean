/-
C04 — wire-level primitives shared by the four codec copies
  rumqttc/src/mqttbytes/mod.rs, rumqttc/src/v5/mqttbytes/v5/mod.rs,
  rumqttd/src/protocol/v4/mod.rs, rumqttd/src/protocol/v5/mod.rs
(`read_u8/u16/u32`, `read_mqtt_bytes/string`, `write_mqtt_bytes/string`, `length`,
`write_remaining_length`, `len_len`); the four texts are identical, so there is one model.
Each primitive has `enc…`, `dec…` and (where the Rust computes one) a size; the round-trip and
size lemmas are in Proofs/Lemmas/Codec/Wire.lean.
Integers are `Nat`; the width of a field is part of the well-formedness predicate.
Import-free: compiled into the native driver.
-/
namespace Codec

abbrev Bytes := List UInt8

/-- error classes of the decoders / encoders (the correspondence compares only ok / error / panic) -/
inductive Err
  | insufficient          -- `InsufficientBytes`
  | malformed             -- every other `Err(_)`
  | panic                 -- `unreachable!()`, arithmetic overflow, … (Rust panics)
  deriving DecidableEq, Repr

def u8 (n : Nat) : UInt8 := UInt8.ofNat n

/-- `put_u8` -/
def encU8 (n : Nat) : Bytes := [u8 n]
/-- `put_u16` (big endian) -/
def encU16 (n : Nat) : Bytes := [u8 (n / 256), u8 (n % 256)]
/-- `put_u32` (big endian) -/
def encU32 (n : Nat) : Bytes :=
  [u8 (n / 16777216), u8 (n / 65536 % 256), u8 (n / 256 % 256), u8 (n % 256)]

/-- `read_u8` -/
def decU8 : Bytes → Except Err (Nat × Bytes)
  | [] => .error .malformed
  | a :: r => .ok (a.toNat, r)

/-- `read_u16` -/
def decU16 : Bytes → Except Err (Nat × Bytes)
  | a :: b :: r => .ok (a.toNat * 256 + b.toNat, r)
  | _ => .error .malformed

/-- `read_u32` -/
def decU32 : Bytes → Except Err (Nat × Bytes)
  | a :: b :: c :: d :: r =>
    .ok (a.toNat * 16777216 + b.toNat * 65536 + c.toNat * 256 + d.toNat, r)
  | _ => .error .malformed

/-- `write_mqtt_bytes`: `put_u16(len as u16)` then the bytes. The `as u16` cast truncates, which
    is why well-formedness demands `len ≤ 65535`. -/
def encBytes16 (s : Bytes) : Bytes := encU16 (s.length % 65536) ++ s

/-- `read_mqtt_bytes` -/
def decBytes16 (bs : Bytes) : Except Err (Bytes × Bytes) :=
  match decU16 bs with
  | .error e => .error e
  | .ok (n, r) => if n > r.length then .error .malformed else .ok (r.take n, r.drop n)

/-! ### UTF-8 validity (`String::from_utf8` / `str::from_utf8` acceptance)
Executable DFA following the Unicode "well-formed UTF-8 byte sequences" table (no overlongs, no
surrogates, nothing above U+10FFFF). The theorems use it only through the hypothesis
`validUtf8 s = true`; the correspondence run ties it to Rust's std on every generated string. -/

def isCont (b : UInt8) : Bool := 0x80 ≤ b.toNat && b.toNat ≤ 0xBF

def validUtf8 : Bytes → Bool
  | [] => true
  | a :: r =>
    let x := a.toNat
    if x < 0x80 then validUtf8 r
    else if 0xC2 ≤ x && x ≤ 0xDF then
      match r with
      | b :: r' => isCont b && validUtf8 r'
      | _ => false
    else if 0xE0 ≤ x && x ≤ 0xEF then
      match r with
      | b :: c :: r' =>
        let y := b.toNat
        let lo := if x = 0xE0 then 0xA0 else 0x80
        let hi := if x = 0xED then 0x9F else 0xBF
        decide (lo ≤ y) && decide (y ≤ hi) && isCont c && validUtf8 r'
      | _ => false
    else if 0xF0 ≤ x && x ≤ 0xF4 then
      match r with
      | b :: c :: d :: r' =>
        let y := b.toNat
        let lo := if x = 0xF0 then 0x90 else 0x80
        let hi := if x = 0xF4 then 0x8F else 0xBF
        decide (lo ≤ y) && decide (y ≤ hi) && isCont c && isCont d && validUtf8 r'
      | _ => false
    else false

/-- `read_mqtt_string` when `utf8 = true` (`String::from_utf8` / `str::from_utf8`), plain
    `read_mqtt_bytes` when the Rust field is `Bytes`. -/
def decStr16 (utf8 : Bool) (bs : Bytes) : Except Err (Bytes × Bytes) :=
  match decBytes16 bs with
  | .error e => .error e
  | .ok (s, r) => if utf8 && !validUtf8 s then .error .malformed else .ok (s, r)

/-! ### variable-byte integer -/

/-- the limit in `write_remaining_length` (checked against `Generated.REMAINING_LIMIT_*`) -/
def remainingLimit : Nat := 268435455

/-- the `while !done` loop of `write_remaining_length` -/
def encVarintLoop (x : Nat) : Bytes :=
  if h : x / 128 > 0 then u8 (x % 128 + 128) :: encVarintLoop (x / 128)
  else [u8 (x % 128)]
termination_by x
decreasing_by omega

/-- `write_remaining_length`: `Err(PayloadTooLong)` above the limit -/
def encVarint (n : Nat) : Except Err Bytes :=
  if n > remainingLimit then .error .malformed else .ok (encVarintLoop n)

/-- `length(stream)`: at most four bytes; a fourth byte with the continuation bit is
    `MalformedRemainingLength`; running out of bytes is `InsufficientBytes(1)`.
    Returns (value, number of bytes, rest). -/
def decVarint : Bytes → Except Err (Nat × Nat × Bytes)
  | [] => .error .insufficient
  | b0 :: r0 =>
    if b0.toNat < 128 then .ok (b0.toNat, 1, r0) else
    match r0 with
    | [] => .error .insufficient
    | b1 :: r1 =>
      if b1.toNat < 128 then .ok (b0.toNat % 128 + b1.toNat * 128, 2, r1) else
      match r1 with
      | [] => .error .insufficient
      | b2 :: r2 =>
        if b2.toNat < 128 then
          .ok (b0.toNat % 128 + b1.toNat % 128 * 128 + b2.toNat * 16384, 3, r2) else
        match r2 with
        | [] => .error .insufficient
        | b3 :: r3 =>
          if b3.toNat < 128 then
            .ok (b0.toNat % 128 + b1.toNat % 128 * 128 + b2.toNat % 128 * 16384
                  + b3.toNat * 2097152, 4, r3)
          else .error .malformed

/-- `len_len` (thresholds checked against `Generated.LEN_LEN_THRESHOLDS_*`) -/
def lenLen (len : Nat) : Nat :=
  if len ≥ 2097152 then 4 else if len ≥ 16384 then 3 else if len ≥ 128 then 2 else 1

/-- what a `size()` function computes from the `len()` of a packet -/
def sizeOfLen (len : Nat) : Nat := 1 + lenLen len + len

/-! ### frame assembly / splitting (`Packet::read`, `Protocol::read_mut`, `check`) -/

/-- header byte, then `write_remaining_length(len)`, then the body whose length the `len()`
    function claims to be `len` (they are proved equal for well-formed packets; the model keeps
    the claim separate because in one place the code's claim is wrong). -/
def frame (byte1 : Nat) (len : Nat) (body : Bytes) : Except Err Bytes :=
  match encVarint len with
  | .error e => .error e
  | .ok l => .ok (u8 byte1 :: (l ++ body))

/-- result of splitting one frame off a stream -/
structure Split where
  byte1 : Nat
  remaining : Nat
  body : Bytes
  rest : Bytes
  consumed : Nat

/-- `check` + `split_to(frame_length)` -/
def splitFrame (max : Nat) (bs : Bytes) : Except Err Split :=
  match bs with
  | [] => .error .insufficient
  | [_] => .error .insufficient
  | b :: r =>
    match decVarint r with
    | .error e => .error e
    | .ok (len, ll, r') =>
      if len > max then .error .malformed
      else if r'.length < len then .error .insufficient
      else .ok ⟨b.toNat, len, r'.take len, r'.drop len, 1 + ll + len⟩

end Codec
