/-
C04 — Rust variant names (`{:?}`) of the enum values, and the variant lists of each copy's enums.
Used to state `model function = table` against Generated/Tables.lean (tables produced by executing
the real code). Import-free.
-/
import Model.Codec.Packet
namespace Codec

def QoS.name : QoS → String
  | .q0 => "AtMostOnce" | .q1 => "AtLeastOnce" | .q2 => "ExactlyOnce"

def ConnCode.name : ConnCode → String
  | .Success => "Success" | .RefusedProtocolVersion => "RefusedProtocolVersion"
  | .BadClientId => "BadClientId" | .ServiceUnavailable => "ServiceUnavailable"
  | .UnspecifiedError => "UnspecifiedError" | .MalformedPacket => "MalformedPacket"
  | .ProtocolError => "ProtocolError" | .ImplementationSpecificError => "ImplementationSpecificError"
  | .UnsupportedProtocolVersion => "UnsupportedProtocolVersion"
  | .ClientIdentifierNotValid => "ClientIdentifierNotValid"
  | .BadUserNamePassword => "BadUserNamePassword" | .NotAuthorized => "NotAuthorized"
  | .ServerUnavailable => "ServerUnavailable" | .ServerBusy => "ServerBusy" | .Banned => "Banned"
  | .BadAuthenticationMethod => "BadAuthenticationMethod" | .TopicNameInvalid => "TopicNameInvalid"
  | .PacketTooLarge => "PacketTooLarge" | .QuotaExceeded => "QuotaExceeded"
  | .PayloadFormatInvalid => "PayloadFormatInvalid" | .RetainNotSupported => "RetainNotSupported"
  | .QoSNotSupported => "QoSNotSupported" | .UseAnotherServer => "UseAnotherServer"
  | .ServerMoved => "ServerMoved" | .ConnectionRateExceeded => "ConnectionRateExceeded"

def allConnCodes : List ConnCode :=
  [.Success, .RefusedProtocolVersion, .BadClientId, .ServiceUnavailable, .UnspecifiedError,
   .MalformedPacket, .ProtocolError, .ImplementationSpecificError, .UnsupportedProtocolVersion,
   .ClientIdentifierNotValid, .BadUserNamePassword, .NotAuthorized, .ServerUnavailable, .ServerBusy,
   .Banned, .BadAuthenticationMethod, .TopicNameInvalid, .PacketTooLarge, .QuotaExceeded,
   .PayloadFormatInvalid, .RetainNotSupported, .QoSNotSupported, .UseAnotherServer, .ServerMoved,
   .ConnectionRateExceeded]

/-- `ConnectReturnCode` of rumqttc::mqttbytes::v4 -/
def connCodesC4 : List ConnCode :=
  [.Success, .RefusedProtocolVersion, .BadClientId, .ServiceUnavailable, .BadUserNamePassword,
   .NotAuthorized]
/-- `ConnectReturnCode` of rumqttc::v5 (all names) -/
def connCodesC5 : List ConnCode := allConnCodes
/-- `ConnectReturnCode` of rumqttd::protocol (no `BadClientId`) -/
def connCodesB : List ConnCode := allConnCodes.filter (· != .BadClientId)

def AckReason.name : AckReason → String
  | .Success => "Success" | .NoMatchingSubscribers => "NoMatchingSubscribers"
  | .UnspecifiedError => "UnspecifiedError"
  | .ImplementationSpecificError => "ImplementationSpecificError" | .NotAuthorized => "NotAuthorized"
  | .TopicNameInvalid => "TopicNameInvalid" | .PacketIdentifierInUse => "PacketIdentifierInUse"
  | .QuotaExceeded => "QuotaExceeded" | .PayloadFormatInvalid => "PayloadFormatInvalid"

def allAckReasons : List AckReason :=
  [.Success, .NoMatchingSubscribers, .UnspecifiedError, .ImplementationSpecificError, .NotAuthorized,
   .TopicNameInvalid, .PacketIdentifierInUse, .QuotaExceeded, .PayloadFormatInvalid]

def RelReason.name : RelReason → String
  | .Success => "Success" | .PacketIdentifierNotFound => "PacketIdentifierNotFound"

def allRelReasons : List RelReason := [.Success, .PacketIdentifierNotFound]

def SubCode.name : SubCode → String
  | .Success .q0 => "Success0" | .Success .q1 => "Success1" | .Success .q2 => "Success2"
  | .Failure => "Failure" | .QoS0 => "QoS0" | .QoS1 => "QoS1" | .QoS2 => "QoS2"
  | .Unspecified => "Unspecified" | .ImplementationSpecific => "ImplementationSpecific"
  | .NotAuthorized => "NotAuthorized" | .TopicFilterInvalid => "TopicFilterInvalid"
  | .PkidInUse => "PkidInUse" | .QuotaExceeded => "QuotaExceeded"
  | .SharedSubscriptionsNotSupported => "SharedSubscriptionsNotSupported"
  | .SubscriptionIdNotSupported => "SubscriptionIdNotSupported"
  | .WildcardSubscriptionsNotSupported => "WildcardSubscriptionsNotSupported"

def allSubCodes : List SubCode :=
  [.Success .q0, .Success .q1, .Success .q2, .Failure, .QoS0, .QoS1, .QoS2, .Unspecified,
   .ImplementationSpecific, .NotAuthorized, .TopicFilterInvalid, .PkidInUse, .QuotaExceeded,
   .SharedSubscriptionsNotSupported, .SubscriptionIdNotSupported, .WildcardSubscriptionsNotSupported]

def subCodesC4 : List SubCode := [.Success .q0, .Success .q1, .Success .q2, .Failure]
def subCodesC5 : List SubCode :=
  allSubCodes.filter (fun c => c != .QoS0 && c != .QoS1 && c != .QoS2)
def subCodesB : List SubCode := allSubCodes

def UnsubReason.name : UnsubReason → String
  | .Success => "Success" | .NoSubscriptionExisted => "NoSubscriptionExisted"
  | .UnspecifiedError => "UnspecifiedError"
  | .ImplementationSpecificError => "ImplementationSpecificError" | .NotAuthorized => "NotAuthorized"
  | .TopicFilterInvalid => "TopicFilterInvalid" | .PacketIdentifierInUse => "PacketIdentifierInUse"

def allUnsubReasons : List UnsubReason :=
  [.Success, .NoSubscriptionExisted, .UnspecifiedError, .ImplementationSpecificError, .NotAuthorized,
   .TopicFilterInvalid, .PacketIdentifierInUse]

def DiscReason.name : DiscReason → String
  | .NormalDisconnection => "NormalDisconnection"
  | .DisconnectWithWillMessage => "DisconnectWithWillMessage"
  | .UnspecifiedError => "UnspecifiedError" | .MalformedPacket => "MalformedPacket"
  | .ProtocolError => "ProtocolError" | .ImplementationSpecificError => "ImplementationSpecificError"
  | .NotAuthorized => "NotAuthorized" | .ServerBusy => "ServerBusy"
  | .ServerShuttingDown => "ServerShuttingDown" | .KeepAliveTimeout => "KeepAliveTimeout"
  | .SessionTakenOver => "SessionTakenOver" | .TopicFilterInvalid => "TopicFilterInvalid"
  | .TopicNameInvalid => "TopicNameInvalid" | .ReceiveMaximumExceeded => "ReceiveMaximumExceeded"
  | .TopicAliasInvalid => "TopicAliasInvalid" | .PacketTooLarge => "PacketTooLarge"
  | .MessageRateTooHigh => "MessageRateTooHigh" | .QuotaExceeded => "QuotaExceeded"
  | .AdministrativeAction => "AdministrativeAction" | .PayloadFormatInvalid => "PayloadFormatInvalid"
  | .RetainNotSupported => "RetainNotSupported" | .QoSNotSupported => "QoSNotSupported"
  | .UseAnotherServer => "UseAnotherServer" | .ServerMoved => "ServerMoved"
  | .SharedSubscriptionNotSupported => "SharedSubscriptionNotSupported"
  | .ConnectionRateExceeded => "ConnectionRateExceeded" | .MaximumConnectTime => "MaximumConnectTime"
  | .SubscriptionIdentifiersNotSupported => "SubscriptionIdentifiersNotSupported"
  | .WildcardSubscriptionsNotSupported => "WildcardSubscriptionsNotSupported"

def allDiscReasons : List DiscReason :=
  [.NormalDisconnection, .DisconnectWithWillMessage, .UnspecifiedError, .MalformedPacket,
   .ProtocolError, .ImplementationSpecificError, .NotAuthorized, .ServerBusy, .ServerShuttingDown,
   .KeepAliveTimeout, .SessionTakenOver, .TopicFilterInvalid, .TopicNameInvalid,
   .ReceiveMaximumExceeded, .TopicAliasInvalid, .PacketTooLarge, .MessageRateTooHigh, .QuotaExceeded,
   .AdministrativeAction, .PayloadFormatInvalid, .RetainNotSupported, .QoSNotSupported,
   .UseAnotherServer, .ServerMoved, .SharedSubscriptionNotSupported, .ConnectionRateExceeded,
   .MaximumConnectTime, .SubscriptionIdentifiersNotSupported, .WildcardSubscriptionsNotSupported]

/-- a decoder over all byte values, as a table of variant names -/
def decTable {α} (name : α → String) (f : Nat → Option α) : List (Option String) :=
  (List.range 256).map fun b => (f b).map name

/-- an encoder over a variant list (`none` = the writer panics) -/
def encTable {α} (name : α → String) (all : List α) (f : α → Option Nat) :
    List (String × Option Nat) :=
  all.map fun a => (name a, f a)

end Codec
