/-
C19 (network part) — model of the admission path of a remote connection:
  rumqttd/src/link/remote.rs   `mqtt_connect`, `handle_auth`
  rumqttd/src/link/network.rs  `Network::read` (first frame through the listener's `Protocol::read_mut`)
  rumqttd/src/server/broker.rs `remote()` up to `RemoteLink::new` (assigned client id, `Event::Connect`)
composed with the router part `Router.handleNewConnection` (client-id validation, takeover,
`max_connections`).

The first packet is given as the bytes the peer sends plus what the peer does afterwards
(`Tail`); they go through the codec model of the listener's decoder (`Codec.V4/V5.decode .broker`),
so "which CONNECT does each listener accept" is not a parameter here: it is what the decoder
model (tied to the code by C04/C05) says.
The external authentication callback is a parameter `clientId → username → password → Bool`.
Strings are byte lists (`Codec.Bytes`); the decoders only let valid UTF-8 through for the fields
that are Rust `String`s, and `HashMap<String,String>::get` / `ct_eq` are equality of the bytes.
Import-free apart from other Model files.
-/
import Model.Codec.V4
import Model.Codec.V5
import Model.Router.Step

namespace Admission
open Codec

/-- protocol of the listener: `Server<V4>` / `Server<V5>` -/
inductive Version | v4 | v5
  deriving DecidableEq, Repr

def Version.level : Version → Nat
  | .v4 => 4
  | .v5 => 5

/-- `ConnectionSettings.auth` (a `HashMap`: keys are unique, `lookup` = `get`) and
    `ConnectionSettings.external_auth` -/
structure AuthConfig where
  static : Option (List (Bytes × Bytes)) := none
  external : Option (Bytes → Bytes → Bytes → Bool) := none

structure Config where
  version : Version
  auth : AuthConfig := {}
  /-- `max_payload_size` handed to `Network::new` -/
  maxPayload : Nat

/-- the fields of `Packet::Connect(connect, props, last_will, last_will_props, login)` -/
structure Connect where
  level : Nat
  keepAlive : Nat
  clientId : Bytes
  clean : Bool
  props : Option Props
  will : Option Will
  login : Option Login
  deriving DecidableEq, Repr

def Connect.toPacket (c : Connect) : Packet :=
  .connect c.level c.keepAlive c.clientId c.clean c.props c.will c.login

/-- the `Err(_)` classes of `mqtt_connect` -/
inductive Reject
  | network          -- `Error::Network(Protocol(_))`: the decoder refused the bytes
  | io               -- `Error::Network(Io(_))`: stream closed before a frame was complete
  | timeout          -- `Error::Timeout`: no complete frame within `connection_timeout_ms`
  | notConnect       -- `Error::NotConnectPacket`
  | invalidAuth      -- `Error::InvalidAuth`
  | zeroKeepAlive    -- `Error::ZeroKeepAlive`
  | invalidClientId  -- `Error::InvalidClientId` (after CONNACK ClientIdentifierNotValid)
  deriving DecidableEq, Repr

inductive Outcome
  /-- `Err(_)`; `connack?` = the return code of the CONNACK written before returning, if any -/
  | reject (connack? : Option ConnCode) (why : Reject)
  /-- `Ok(packet)` -/
  | proceed (c : Connect)
  deriving DecidableEq, Repr

/-- what the peer does after the given bytes: closes its side / stays silent -/
inductive Tail | eof | idle
  deriving DecidableEq, Repr

/-- `pairs.get(username)` -/
def lookup (k : Bytes) : List (Bytes × Bytes) → Option Bytes
  | [] => none
  | (k', v) :: r => if k' = k then some v else lookup k r

def AuthConfig.configured (a : AuthConfig) : Bool := a.static.isSome || a.external.isSome

/-- `handle_auth(config, login, client_id)`: `true` = `Ok(())`, `false` = `Err(InvalidAuth)` -/
def handleAuth (a : AuthConfig) (login : Option Login) (clientId : Bytes) : Bool :=
  -- if config.auth.is_none() && config.external_auth.is_none() { return Ok(()) }
  if !a.configured then true else
  -- let Some(login) = login else { return Err(InvalidAuth) }
  match login with
  | none => false
  | some l =>
    -- if let Some(auth) = &config.external_auth { return auth(client_id, username, password) }
    match a.external with
    | some f => f clientId l.username l.password
    | none =>
      -- if let Some(pairs) = &config.auth { pairs.get(username) ct_eq password }
      match a.static with
      | some pairs =>
        (match lookup l.username pairs with
         | some stored => stored == l.password
         | none => false)
      | none => false

/-- `mqtt_connect` after `network.read()` returned a packet -/
def mqttConnect (cfg : Config) (p : Packet) : Outcome :=
  match p with
  | .connect level keepAlive clientId clean props will login =>
    if !handleAuth cfg.auth login clientId then .reject none .invalidAuth
    else if keepAlive = 0 then .reject none .zeroKeepAlive
    else if clientId.isEmpty && !clean then .reject (some .ClientIdentifierNotValid) .invalidClientId
    else .proceed ⟨level, keepAlive, clientId, clean, props, will, login⟩
  | _ => .reject none .notConnect

/-- `Protocol::read_mut` of the listener -/
def decodeFirst (cfg : Config) (bytes : Bytes) : DecodeResult :=
  match cfg.version with
  | .v4 => V4.decode .broker cfg.maxPayload bytes
  | .v5 => V5.decode .broker cfg.maxPayload bytes

/-- `mqtt_connect(config, network)` on a stream that starts with `bytes` -/
def admit (cfg : Config) (bytes : Bytes) (tail : Tail) : Outcome :=
  match decodeFirst cfg bytes with
  | .packet p _ => mqttConnect cfg p
  | .error .insufficient =>
    -- `read_bytes` waits for more: the peer's close is an I/O error, silence runs into the timeout
    (match tail with | .eof => .reject none .io | .idle => .reject none .timeout)
  | .error _ => .reject none .network

/-- the bytes `mqtt_connect` writes back (`network.write(Packet::ConnAck(ack, None))`);
    `none` = the listener's encoder would fail (it does not: `connack_is_encodable`) -/
def connackBytes (v : Version) (code : ConnCode) : Option Bytes :=
  match (match v with
         | .v4 => V4.encode .broker (.connack false code none)
         | .v5 => V5.encode .broker (.connack false code none)) with
  | .ok bs => some bs
  | .error _ => none

def written (cfg : Config) : Outcome → Option Bytes
  | .reject (some code) _ => connackBytes cfg.version code
  | _ => some []

/-! ### composition with the router part (`remote()` → `RemoteLink::new` → `Event::Connect`) -/

/-- `props.topic_alias_max` (property 34) -/
def topicAliasMax (props : Option Props) : Nat :=
  match props with
  | none => 0
  | some ps =>
    match ps.find? (fun p => p.id == 34) with
    | some ⟨_, .u16 v⟩ => v
    | _ => 0

/-- the client id the router sees: `rumqtt-<uuid>` when the CONNECT's is empty (then clean = true).
    `none` = the bytes are not UTF-8 (excluded by the decoder). -/
def effectiveClientId (c : Connect) (assigned : String) : Option String :=
  if c.clientId.isEmpty then some assigned else Router.utf8? c.clientId

def toSpec (link : Nat) (dynamicFilters : Bool) (assigned : String) (c : Connect) :
    Option Router.ConnectSpec :=
  match effectiveClientId c assigned with
  | none => none
  | some cid =>
    some { link := link, clientId := cid, clean := c.clean, dynamicFilters := dynamicFilters,
           aliasMax := topicAliasMax c.props,
           will := c.will.map (fun w => { topic := w.topic, payload := w.message,
                                          qos := w.qos.toNat, retain := w.retain }) }

/-- does the router answer `Event::Connect` with a CONNACK on that link? -/
def registered (s' : Router.RState) (link : Nat) : Bool :=
  match (Router.getLink s' link).obuf with
  | .ack (.connack _ _) :: _ => true
  | _ => false

/-- one network connection from accept to session: `remote()` up to and including
    `RemoteLink::new`. Returns the router state, the admission outcome and whether a session exists.
    On `reject` no `Event::Connect` is sent: the router state is returned untouched. -/
def establish (cfg : Config) (dynamicFilters : Bool) (assigned : String) (s : Router.RState) (link : Nat)
    (bytes : Bytes) (tail : Tail) : Router.M (Router.RState × Outcome × Bool) :=
  match admit cfg bytes tail with
  | .reject ck why => .ok (s, .reject ck why, false)
  | .proceed c =>
    match toSpec link dynamicFilters assigned c with
    | none => .ok (s, .proceed c, false)
    | some spec =>
      match Router.handleNewConnection s spec with
      | .error e => .error e
      | .ok s' => .ok (s', .proceed c, registered s' link)

end Admission
