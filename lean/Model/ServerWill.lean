/-
C16 (server part) — the will bookkeeping of the per-connection task
  rumqttd/src/server/broker.rs  `remote()`:  will-handler map (`AwaitingWill::{Fire, Cancel}`),
  `Event::Disconnect`, will delay (`timeout(will_delay_interval, will_rx.recv_async())`),
  `Event::PublishWill`.

One `Task` = one `remote()` call that got past `mqtt_connect`. The shared state is the map
`will_handlers : Mutex<HashMap<client id, Sender<AwaitingWill>>>`. The channel is
`flume::bounded(1)`; its receiver lives in the task and is dropped when the task returns. No step
of `remote()` panics while the map's guard is alive (the previous sender is taken out of the map
first and signalled with `try_send(..).ok()`), so the mutex is never poisoned.
Rust panics are explicit (`Phase.panicked`). Time is in milliseconds; the delay in seconds
(`Duration::from_secs(will_delay_interval)`). Import-free apart from Model files.
-/
import Model.Router.Types

namespace ServerWill
open Router (alookup aremove ainsert)

/-- `AwaitingWill` -/
inductive Signal | fire | cancel
  deriving DecidableEq, Repr

/-- how `link.start()` returned -/
inductive Cause
  | peerClosed        -- `Network(Io(ConnectionAborted))`: EOF between packets
  | ioError           -- any other I/O error (EOF inside a frame, write to a closed stream)
  | keepAlive         -- `Network(KeepAlive)`: nothing read for 1.5 x keep-alive
  | protocolError     -- `Network(Protocol(_))` / `Io(InvalidData)`: the decoder refused the bytes
  | encodeError       -- `Network(Protocol(_))` from `writev`: the encoder refused a packet
  | routerClosed      -- `Error::Link(_)`: the router dropped the connection (DISCONNECT packet,
                      --   protocol violation seen by the router, takeover by a newer connection)
  deriving DecidableEq, Repr

/-- `send_disconnect`: false only for `Err(remote::Error::Link(_))` -/
def Cause.sendDisconnect : Cause → Bool
  | .routerClosed => false
  | _ => true

/-- events a task sends to the router -/
inductive Ev
  | connect (task : Nat) (cid : String)
  | disconnect (task : Nat)
  | publishWill (task : Nat) (cid : String)
  deriving DecidableEq, Repr

inductive Phase
  | running                   -- between `RemoteLink::new` and the return of `link.start()`
  | waiting (deadline : Nat)  -- in `timeout(will_delay, will_rx.recv_async())`
  | finished                  -- `remote()` returned; the receiver is dropped
  | panicked                  -- the task panicked; the receiver is dropped
  deriving DecidableEq, Repr

/-- why a task's will wait ended (ghost: no influence on behaviour) -/
inductive Resolution
  | signalled (s : Signal)
  | timedOut
  deriving DecidableEq, Repr

structure Task where
  cid : String
  clean : Bool
  delay : Nat                       -- `will_delay_interval = min(session_expiry, will delay)`, seconds
  phase : Phase
  inbox : Option Signal := none     -- content of the bounded(1) channel
  linked : Bool := false            -- `RemoteLink::new` succeeded (`Event::Connect` answered by a CONNACK)
  endedAt : Option Nat := none      -- ghost: time `link.start()` returned
  cause : Option Cause := none      -- ghost: how it returned
  resolution : Option Resolution := none   -- ghost
  deriving Repr

def Task.receiverAlive (t : Task) : Bool :=
  match t.phase with
  | .running => true
  | .waiting _ => true
  | _ => false

structure World where
  now : Nat := 0
  handlers : List (String × Nat) := []
  tasks : List Task := []
  log : List Ev := []
  deriving Repr

def World.task? (w : World) (t : Nat) : Option Task := w.tasks[t]?

def World.setTask (w : World) (t : Nat) (x : Task) : World := { w with tasks := w.tasks.set t x }

def World.emit (w : World) (e : Ev) : World := { w with log := w.log ++ [e] }

/-- the receiving side of the will wait gets `s`: `Ok(w) => w.is_ok_and(|k| k == Fire)` -/
def World.resolveSignal (w : World) (t : Nat) (x : Task) (s : Signal) : World :=
  let w := w.setTask t { x with phase := .finished, inbox := none, resolution := some (.signalled s) }
  match s with
  | .fire => w.emit (.publishWill t x.cid)
  | .cancel => w

/-- the `Err(_)` arm: `will_handlers.lock().unwrap().remove(&client_id)`, then publish -/
def World.resolveTimeout (w : World) (t : Nat) (x : Task) : World :=
  let w := { w with handlers := aremove x.cid w.handlers }
  let w := w.setTask t { x with phase := .finished, resolution := some .timedOut }
  w.emit (.publishWill t x.cid)

/-- `remote()` between `mqtt_connect` and `RemoteLink::new`:
    ```
    let previous = will_handlers.lock().unwrap().remove(&client_id);
    if let Some(sender) = previous {
        sender.try_send(if clean_session { Fire } else { Cancel }).ok();
    }
    will_handlers.lock().unwrap().insert(client_id, will_tx);
    ```
    Returns the index of the new task. -/
def World.handlerStep (w : World) (cid : String) (clean : Bool) (delay : Nat) : World × Nat :=
  let t := w.tasks.length
  let fresh : Task := { cid := cid, clean := clean, delay := delay, phase := .running }
  let sig : Signal := if clean then .fire else .cancel
  let w := match alookup cid w.handlers with
    | none => w
    | some o =>
      let w := { w with handlers := aremove cid w.handlers }
      match w.task? o with
      | none => w     -- unreachable: handlers only name existing tasks
      | some old =>
        if old.receiverAlive && old.inbox.isNone then
          -- delivered into the channel; a task already in its will wait is woken and handles it
          -- when it next runs (`World.wake`), i.e. after this task's `RemoteLink::new`, whose
          -- `link_rx.recv()` blocks the thread
          w.setTask o { old with inbox := some sig }
        else
          -- `try_send` fails (`Disconnected`: that task has ended — e.g. it panicked inside its
          -- link — without removing its handler): ignored, there is nobody to signal
          w
  ({ w with tasks := w.tasks ++ [fresh], handlers := ainsert cid t w.handlers }, t)

/-- `RemoteLink::new`: `Event::Connect` to the router; `ok` = the router answered with a CONNACK.
    On failure `remote()` removes its handler again and returns. -/
def World.linkStep (w : World) (t : Nat) (ok : Bool) : World :=
  match w.task? t with
  | none => w
  | some x =>
    if x.phase ≠ .running then w else
    let w := w.emit (.connect t x.cid)
    if ok then w.setTask t { x with linked := true }
    else
      let w := { w with handlers := aremove x.cid w.handlers }
      w.setTask t { x with phase := .finished }

/-- `link.start()` returned with `cause`: `Event::Disconnect` unless the router closed the link,
    then the will wait begins -/
def World.endLink (w : World) (t : Nat) (cause : Cause) : World :=
  match w.task? t with
  | none => w
  | some x =>
    if x.phase ≠ .running || !x.linked then w else
    let w := if cause.sendDisconnect then w.emit (.disconnect t) else w
    let x := { x with endedAt := some w.now, cause := some cause }
    match x.inbox with
    | some s => w.resolveSignal t x s
    | none =>
      if x.delay = 0 then w.resolveTimeout t x
      else w.setTask t { x with phase := .waiting (w.now + x.delay * 1000) }

/-- the task panics inside `link.start()` (e.g. the encoder hit `unreachable!()`): nothing is sent,
    the receiver is dropped, the handler stays -/
def World.panicLink (w : World) (t : Nat) : World :=
  match w.task? t with
  | none => w
  | some x => if x.phase ≠ .running then w else w.setTask t { x with phase := .panicked }

def World.expire (w : World) : Nat → World
  | 0 => w
  | n + 1 =>
    let w := w.expire n
    match w.task? n with
    | some x =>
      (match x.phase with
       | .waiting d => if d ≤ w.now then w.resolveTimeout n x else w
       | _ => w)
    | none => w

/-- virtual time passes: every will wait whose deadline is reached times out (in task order) -/
def World.advance (w : World) (ms : Nat) : World :=
  let w := { w with now := w.now + ms }
  w.expire w.tasks.length

/-- tasks suspended in their will wait that have a signal in the channel run -/
def World.wake (w : World) : Nat → World
  | 0 => w
  | n + 1 =>
    let w := w.wake n
    match w.task? n with
    | some x =>
      (match x.phase, x.inbox with
       | .waiting _, some s => w.resolveSignal n x s
       | _, _ => w)
    | none => w

inductive Op
  | admitted (cid : String) (clean : Bool) (delay : Nat) (linkOk : Bool)
  | ended (t : Nat) (cause : Cause)
  | taskPanic (t : Nat)
  | advance (ms : Nat)
  deriving Repr

def World.step (w : World) : Op → World
  | .admitted cid clean delay linkOk =>
    let (w, t) := w.handlerStep cid clean delay
    let w := w.linkStep t linkOk
    w.wake w.tasks.length
  | .ended t cause => w.endLink t cause
  | .taskPanic t => w.panicLink t
  | .advance ms => w.advance ms

def World.run (w : World) (ops : List Op) : World := ops.foldl World.step w

/-- events task `t` sent after its link ended -/
def World.publishedWill (w : World) (t : Nat) : Nat :=
  (w.log.filter (fun e => match e with | .publishWill t' _ => t' == t | _ => false)).length

def World.sentDisconnect (w : World) (t : Nat) : Nat :=
  (w.log.filter (fun e => match e with | .disconnect t' => t' == t | _ => false)).length

/-! ### the decision of one task, stated outright -/

/-- what the will wait of `remote()` finds: a signal from a newer connection with the same client
    id, or the expiry of the delay -/
def publishWillDecision : Resolution → Bool
  | .signalled .fire => true
  | .signalled .cancel => false
  | .timedOut => true

end ServerWill
