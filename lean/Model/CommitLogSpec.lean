/-
C13 specification of the commit log, written independently of `readv`'s control flow.

The abstract object is the whole history `hist : List α` of appended entries; the entry at list
index `i` has absolute offset `i`. A log state represents a history (`Rep l hist`) when it is
well-formed (`WF`) and its segments hold exactly the suffix `hist.drop l.firstAbs` (the retained
entries). Reads are specified as `take`/`drop` of the retained entries, each tagged with the
segment that holds it and its absolute offset (`tagged`). `Issued` is the set of cursors the
log has ever handed out. Import-free apart from the model's data types.
-/
import Model.CommitLog
namespace CommitLog
variable {α : Type}

/-- all entries of a list of segments, oldest first -/
def flat : List (Seg α) → List α
  | [] => []
  | s :: r => s.data ++ flat r

/-- neighbouring segments carry contiguous absolute offsets -/
def Contig : List (Seg α) → Prop
  | [] => True
  | [_] => True
  | a :: b :: r => a.next = b.abs ∧ Contig (b :: r)

/-- absolute offset of the oldest retained entry -/
def Log.firstAbs (l : Log α) : Nat :=
  match l.segments.head? with
  | some s => s.abs
  | none => 0

/-- absolute offset the next appended entry will get (= number of entries ever appended) -/
def Log.nextAbs (l : Log α) : Nat :=
  match l.segments.getLast? with
  | some s => s.next
  | none => 0

/-- the retained entries -/
def retained (l : Log α) : List α := flat l.segments

/-- the entries of segment number `i`, each with its tag `(i, absolute offset)` -/
def tagSeg (i : Nat) (s : Seg α) : List (Entry α) :=
  (s.data.zipIdx s.abs).map fun p => (p.1, (i, p.2))

/-- the entries of consecutive segments numbered `i, i+1, …` with their tags -/
def tagSegs : Nat → List (Seg α) → List (Entry α)
  | _, [] => []
  | i, s :: r => tagSeg i s ++ tagSegs (i + 1) r

/-- the retained entries with their own tags, in append order -/
def tagged (l : Log α) : List (Entry α) := tagSegs l.head l.segments

/-- Well-formedness (the invariant of every reachable log). -/
structure WF (l : Log α) : Prop where
  /-- there is always an active segment -/
  ne : l.segments ≠ []
  /-- `segments.len() = tail - head + 1` -/
  count : l.head + l.segments.length = l.tail + 1
  /-- retention bound -/
  bound : l.segments.length ≤ l.maxMemSegments
  sizePos : 1 ≤ l.maxSegmentSize
  contig : Contig l.segments
  /-- only the active segment may be below the size limit -/
  full : ∀ s ∈ l.segments.dropLast, l.maxSegmentSize ≤ s.totalSize
  /-- a segment without entries has no bytes -/
  emptySize : ∀ s ∈ l.segments, s.data = [] → s.totalSize = 0
  /-- a freshly opened segment receives its first entry in the same `append` -/
  activeNe : 0 < l.tail → ∀ a, l.segments.getLast? = some a → a.data ≠ []

/-- `l` is a state of the log whose complete append history is `hist` -/
structure Rep (l : Log α) (hist : List α) : Prop where
  wf : WF l
  le : l.firstAbs ≤ hist.length
  ret : retained l = hist.drop l.firstAbs

/-- Cursors the log has issued: the segment exists or existed (`≤ tail`); if it is still
    retained the offset lies between the segment's first offset and its next offset (entry tags,
    the tail at some moment, append results and continuations all have this shape); cursors into
    discarded segments are stale. -/
def Issued (l : Log α) (c : Cursor) : Prop :=
  c.1 ≤ l.tail ∧
  (c.1 < l.head ∨ ∃ s, l.segments[c.1 - l.head]? = some s ∧ s.abs ≤ c.2 ∧ c.2 ≤ s.next)

/-- the absolute offset an issued cursor stands for: a stale cursor resumes at the oldest
    retained entry -/
def cursorAbs (l : Log α) (c : Cursor) : Nat :=
  if c.1 < l.head then l.firstAbs else c.2

/-- what `readv c n` must put into `out` -/
def expectedRead (l : Log α) (c : Cursor) (n : Nat) : List (Entry α) :=
  ((tagged l).drop (cursorAbs l c - l.firstAbs)).take n

/-- What an arbitrary (possibly fabricated) cursor value is read as: `none` = nothing is read;
    `some c'` = exactly like the issued cursor `c'`. -/
def effective (l : Log α) (c : Cursor) : Option Cursor :=
  if c.1 > l.tail then none
  else if c.1 < l.head then some c
  else
    match l.segments[c.1 - l.head]? with
    | none => none
    | some g =>
      if c.2 < g.abs then some (c.1, g.abs)
      else if c.2 ≤ g.next then some c
      else if c.1 < l.tail then some (c.1 + 1, g.next)
      else none

/-- segment `s` is retained and holds absolute offset `o` -/
def Holds (l : Log α) (s o : Nat) : Prop :=
  l.head ≤ s ∧ ∃ g, l.segments[s - l.head]? = some g ∧ g.abs ≤ o ∧ o < g.next

/-- a log reached from `new` by appends only (reads do not change the log) -/
def Reached (maxSegmentSize maxMemSegments : Nat) (xs : List (α × Nat)) (l : Log α) : Prop :=
  ∃ l0, Log.new maxSegmentSize maxMemSegments = .ok l0 ∧ Log.appends l0 xs = .ok l

/-! the totalised copy used by the router model (`namespace CLog`), read as a log of this model -/

def segC (s : CLog.Seg α) : Seg α := { data := s.data, totalSize := s.size, abs := s.abs }

def logC (l : CLog.Log α) : Log α :=
  { head := l.head, tail := l.tail, maxSegmentSize := l.maxSize, maxMemSegments := l.maxSegs,
    segments := l.segs.map segC }

def sposC : CLog.SPos → SegPos
  | .next o => .next o
  | .done o => .done o

def posC : CLog.Pos → Position
  | .next s e => .next s e
  | .done s e => .done s e

end CommitLog
