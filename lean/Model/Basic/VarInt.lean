/-
The MQTT "variable byte integer" (remaining length) as the code implements it. The functions
`length`, `write_remaining_length`, `len_len` exist in four textually identical copies:
  rumqttc/src/mqttbytes/mod.rs (+ v4/mod.rs for len_len), rumqttc/src/v5/mqttbytes/v5/mod.rs,
  rumqttd/src/protocol/v4/mod.rs, rumqttd/src/protocol/v5/mod.rs.
The only literals that tools/extract.py regenerates per copy are the encoder's limit
(`REMAINING_LIMIT_*`) and the `len_len` thresholds (`LEN_LEN_THRESHOLDS_*`); they are parameters
here and instantiated with `Generated.*` in the theorems.
Import-free: compiled into the native driver.
-/
namespace VarInt

/-- result of `length(stream)`:
    `Ok((len_len, len))` | `Err(InsufficientBytes(n))` | `Err(MalformedRemainingLength)` -/
inductive LenResult where
  | ok (lenLen len : Nat)
  | insufficient (n : Nat)
  | malformed
deriving DecidableEq, Repr

/-- the `for byte in stream` loop of `length` with its loop state `(len, len_len, shift)`.
    `(byte & 0x7F) << shift` is `(byte % 128) * 2 ^ shift`; `done = (byte & 0x80) == 0` is
    `byte < 128`; after `shift += 7` the loop fails with `MalformedRemainingLength` if
    `shift > 21`; an exhausted iterator with `!done` is `InsufficientBytes(1)`.
    (`usize` cannot overflow: at most four 7-bit groups are ever added.) -/
def lengthLoop : List UInt8 → Nat → Nat → Nat → LenResult
  | [], _, _, _ => .insufficient 1
  | b :: bs, len, lenLen, shift =>
    if b.toNat < 128 then .ok (lenLen + 1) (len + b.toNat % 128 * 2 ^ shift)
    else if shift + 7 > 21 then .malformed
    else lengthLoop bs (len + b.toNat % 128 * 2 ^ shift) (lenLen + 1) (shift + 7)

/-- `length(stream)` -/
def length (bs : List UInt8) : LenResult := lengthLoop bs 0 0 0

/-- the `while !done` loop of `write_remaining_length`:
    `byte = x % 128; x /= 128; if x > 0 { byte |= 128 }; put_u8(byte); done = x == 0`.
    `fuel` bounds the number of iterations. -/
def encodeFuel : Nat → Nat → List UInt8
  | 0, _ => []
  | f + 1, x =>
    if x / 128 > 0 then UInt8.ofNat (x % 128 + 128) :: encodeFuel f (x / 128)
    else [UInt8.ofNat (x % 128)]

/-- the bytes the loop emits for `len : usize`. A 64-bit `usize` has at most ten 7-bit groups, so
    ten iterations are exact for every value the Rust function can be called with. -/
def encodeDigits (n : Nat) : List UInt8 := encodeFuel 10 n

/-- `write_remaining_length(stream, len)`: `Err(PayloadTooLong)` (= `none`) if `len > limit`
    (limit is the literal 268_435_455 in the source, regenerated as `REMAINING_LIMIT_*`),
    otherwise the emitted bytes; the returned count is their number. -/
def writeRemainingLength (limit n : Nat) : Option (List UInt8) :=
  if n > limit then none else some (encodeDigits n)

/-- `len_len(len)`: `if len >= A {4} else if len >= B {3} else if len >= C {2} else {1}` with the
    thresholds given as `[C, B, A]` (the shape tools/extract.py emits). -/
def lenLen : List Nat → Nat → Nat
  | [c, b, a], n => if n ≥ a then 4 else if n ≥ b then 3 else if n ≥ c then 2 else 1
  | _, _ => 0

end VarInt
