/-
Byte strings and the bounds-checked big-endian readers that exist in every codec copy
(`read_u8`, `read_u16`, `read_u32`, `read_mqtt_bytes` in rumqttc/src/mqttbytes/mod.rs,
rumqttc/src/v5/mqttbytes/v5/mod.rs, rumqttd/src/protocol/{v4,v5}/mod.rs — textually identical).
A `Bytes` buffer is a `List UInt8`; `split_to(n)` is `(take n, drop n)`.
Import-free: compiled into the native driver.
-/
namespace Bytes

abbrev ByteList := List UInt8

/-- the error of the readers: `Error::MalformedPacket` / `Error::BoundaryCrossed(len)` -/
inductive ReadErr where
  | malformedPacket
  | boundaryCrossed (len : Nat)
deriving DecidableEq, Repr

/-- `read_u8`: `if stream.is_empty() { Err(MalformedPacket) } else { get_u8 }` -/
def readU8 : ByteList → Except ReadErr (Nat × ByteList)
  | [] => .error .malformedPacket
  | b :: r => .ok (b.toNat, r)

/-- `read_u16`: `if stream.len() < 2 { Err(MalformedPacket) } else { get_u16 }` (big endian) -/
def readU16 : ByteList → Except ReadErr (Nat × ByteList)
  | a :: b :: r => .ok (a.toNat * 256 + b.toNat, r)
  | _ => .error .malformedPacket

/-- `read_u32` (v5 copies): needs 4 bytes, big endian -/
def readU32 : ByteList → Except ReadErr (Nat × ByteList)
  | a :: b :: c :: d :: r =>
    .ok (((a.toNat * 256 + b.toNat) * 256 + c.toNat) * 256 + d.toNat, r)
  | _ => .error .malformedPacket

/-- `read_mqtt_bytes`: u16 length prefix, `BoundaryCrossed(len)` if the prefix promises more than
    is left in the frame, else `split_to(len)` -/
def readMqttBytes (s : ByteList) : Except ReadErr (ByteList × ByteList) :=
  match readU16 s with
  | .error e => .error e
  | .ok (len, r) =>
    if len > r.length then .error (.boundaryCrossed len) else .ok (r.take len, r.drop len)

/-- `put_u16` -/
def writeU16 (n : Nat) : ByteList := [UInt8.ofNat (n / 256 % 256), UInt8.ofNat (n % 256)]

/-- `write_mqtt_bytes` (the `as u16` cast truncates) -/
def writeMqttBytes (b : ByteList) : ByteList := writeU16 (b.length % 65536) ++ b

end Bytes
