/-
Model of the topic helpers that exist in three copies:
  rumqttc/src/mqttbytes/topic.rs, rumqttc/src/v5/mqttbytes/mod.rs, rumqttd/src/protocol/mod.rs
  (`has_wildcards`, `valid_topic`, `valid_filter`, `matches`).
Strings are `List Char`; `str::len()` is the UTF-8 byte length (`byteLen`).
Import-free: compiled into the native driver.
-/
namespace Topic

abbrev Str := List Char
abbrev Level := List Char

/-- `str::len()`: number of UTF-8 bytes. -/
def byteLen : Str → Nat
  | [] => 0
  | c :: cs => c.utf8Size + byteLen cs

/-- `str::split('/')`: never returns an empty list. -/
def splitLevels : Str → List Level
  | [] => [[]]
  | c :: cs =>
    if c = '/' then [] :: splitLevels cs
    else match splitLevels cs with
      | [] => [[c]]
      | l :: ls => (c :: l) :: ls

/-- `has_wildcards` -/
def hasWildcards (s : Str) : Bool := s.contains '+' || s.contains '#'

/-- `valid_topic` -/
def validTopic (s : Str) : Bool := !(s.contains '+' || s.contains '#')

/-- the check applied to the last level of a filter -/
def lastOk (last : Level) : Bool :=
  !(byteLen last != 1 && (last.contains '#' || last.contains '+'))

/-- the check applied to every level but the last -/
def innerOk (entry : Level) : Bool :=
  !(entry.contains '#') && !(decide (byteLen entry > 1) && entry.contains '+')

/-- client copies (`rev()` iterator: last entry first, then the remaining ones in reverse). -/
def validFilterC (f : Str) : Bool :=
  if f.isEmpty then false else
  match (splitLevels f).reverse with
  | [] => true   -- unreachable: split never returns an empty iterator (the code unwraps)
  | last :: remaining => if !lastOk last then false else remaining.all innerOk

/-- broker copy (`split_last`: remaining entries first, in order, then the last). -/
def validFilterB (f : Str) : Bool :=
  if f.isEmpty then false else
  let h := splitLevels f
  match h.getLast? with
  | none => true
  | some last => if !(h.dropLast.all innerOk) then false else lastOk last

/-- the `for f in filters` loop of `matches`, then the leftover-topic test. -/
def matchLoop : List Level → List Level → Bool
  | ts, [] => ts.isEmpty
  | ts, f :: fs =>
    if f = ['#'] then true else
    match ts with
    | [] => false
    | t :: ts' =>
      if t = ['#'] then false
      else if f = ['+'] then matchLoop ts' fs
      else if f ≠ t then false
      else matchLoop ts' fs

/-- `matches(topic, filter)` (after the `starts_with('$')` fix; before it, `topic[..1]` panicked
    when the first character was multi-byte). -/
def matchesImpl (t f : Str) : Bool :=
  if t.head? = some '$' then false else matchLoop (splitLevels t) (splitLevels f)

/-- the pre-fix guard, kept as an executable description of the repaired defect:
    `topic[..1]` is defined only if byte index 1 is a char boundary. -/
def preFixPanics (t : Str) : Bool :=
  match t with
  | [] => false
  | c :: _ => c.utf8Size != 1

end Topic
