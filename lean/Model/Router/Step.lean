/-
Executable model of the routing core: rumqttd/src/router/routing.rs (`events`,
`handle_new_connection`, `handle_disconnection`, `handle_device_payload`, `prepare_filter`,
`consume`, `forward_device_data`, `ack_device_data`, `append_to_commitlog`, `handle_last_will`,
`retrieve_shadow`), scheduler.rs, logs.rs (`DataLog`, `AckLog`), iobufs.rs (`Outgoing`),
waiters.rs, graveyard.rs, shared_subs.rs, connection.rs (`BrokerAliases`).

Granularity: one `Router::events(id, ev)` or one `Router::consume()` per step; link-side pushes
and drains are separate steps (DESIGN.md "Router preliminaries").
Every Rust operation that can panic is explicit: `Fail.panic`. Nondeterministic choices of the
real code (hash-map iteration order where observable, the Random strategy's draw) are oracle
inputs (`State.oracle`), checked for admissibility (`Fail.badChoice` otherwise).
Not modelled: meters, alerts, tracing, print_status, tenant prefix, message expiry.
-/
import Model.Router.Types

namespace Router

inductive Fail
  | panic (msg : String)
  | badChoice (msg : String)
deriving Repr, DecidableEq

abbrev M := Except Fail

inductive Choice
  | matches (idxs : List Nat)
  | retained (topics : List String)
  | random (n : Nat)
deriving Repr, DecidableEq

/-- ghost history (append-only): what the router did, in spec-level terms. It has no influence
    on the behaviour; monitors and theorems relate it to the observable outputs. -/
inductive Ghost
  | registered (id link : Nat) (clientId : String) (clean sessionPresent : Bool)
  | notRegistered (link : Nat)
  | removed (id : Nat) (clientId : String) (clean : Bool)
  | accepted (id : Option Nat) (p : Pub) (topic : String)
  | appended (idx : Nat) (abs : Nat) (p : Pub)
  | evicted (idx : Nat) (headAbs : Nat)
  | subscribed (id : Nat) (path : String) (qos idx : Nat) (cursor : Cursor) (group : Option String) (isNew : Bool)
  | unsubscribed (id : Nat) (path : String)
  | committed (id : Nat) (a : Ack)
  | clientAcked (id : Nat) (pkid : Nat)
  | restored (id : Nat) (requests : List DataRequest)
  | willSet (clientId : String)
  | willCleared (clientId : String)
  | willFired (clientId : String)
deriving Repr

structure RState extends State where
  oracle : List Choice := []
  ghost : List Ghost := []
  /-- the local `turn_moved` of `consume` / `handle_device_payload`: logs of the shared groups
      whose turn passed to another member during the current call; empty between steps -/
  turnMoved : List Nat := []

def RState.g (s : RState) (e : Ghost) : RState := { s with ghost := s.ghost ++ [e] }

def MAX_INFLIGHT : Nat := 100
def MAX_CHANNEL_CAPACITY : Nat := 200
def MAX_SCHEDULE_ITERATIONS : Nat := 100
def TOPIC_ALIAS_MAX : Nat := 4096

def utf8? (b : Bytes) : Option String := String.fromUTF8? (ByteArray.mk b.toArray)

def topicMatches (topic filter : String) : Bool := Topic.matchesImpl topic.toList filter.toList

/-- is `a` a permutation of `b` (as lists of Nat without duplicates expected) -/
def sameMembers [DecidableEq α] (a b : List α) : Bool :=
  a.all (fun x => a.count x == b.count x) && b.all (fun x => a.count x == b.count x)

/-! ### link-side buffers -/

def getLink (s : RState) (l : Nat) : LinkBuf := s.links[l]?.getD {}

def setLink (s : RState) (l : Nat) (b : LinkBuf) : RState :=
  { s with links := if l < s.links.length then s.links.set l b
                    else s.links ++ List.replicate (l - s.links.length) {} ++ [b] }

/-- `outgoing.handle.try_send(()).ok()` on the bounded(200) wake channel -/
def LinkBuf.wake (b : LinkBuf) : LinkBuf :=
  if b.tokens < MAX_CHANNEL_CAPACITY then { b with tokens := b.tokens + 1 } else b

def pushNotifs (s : RState) (l : Nat) (ns : List Notif) : RState :=
  let b := getLink s l
  setLink s l { b with obuf := b.obuf ++ ns }

def wakeLink (s : RState) (l : Nat) : RState := setLink s l (getLink s l).wake

/-! ### connections slab -/

def getConn (s : RState) (id : Nat) : Option Conn := s.conns.get? id

def setConn (s : RState) (id : Nat) (c : Conn) : RState := { s with conns := s.conns.set id c }

/-! ### scheduler -/

/-- `Scheduler::reschedule` (`trackers.get_mut(id).unwrap()`) -/
def reschedule (s : RState) (id : Nat) (r : SchedReason) : M RState :=
  match getConn s id with
  | none => .error (.panic "scheduler.reschedule: unwrap on missing tracker")
  | some c =>
    match c.tracker.tryReady r with
    | none => .error (.panic "try_ready: debug_assert status == Paused(Busy)")
    | some (t, woke) =>
      let s := setConn s id { c with tracker := t }
      .ok (if woke then { s with readyqueue := s.readyqueue ++ [id] } else s)

/-- `Scheduler::track` -/
def track (s : RState) (id : Nat) (r : DataRequest) : M RState :=
  match getConn s id with
  | none => .error (.panic "scheduler.track: unwrap on missing tracker")
  | some c => .ok (setConn s id { c with tracker := { c.tracker with requests := c.tracker.requests ++ [r] } })

/-- `check_tracker_duplicates(id).is_none()` -/
def trackerNoDup (t : Tracker) : Bool :=
  let fs := t.requests.map (·.filter)
  fs.all (fun f => fs.count f == 1)

/-! ### datalog -/

def DataLog.filterIdx? (d : DataLog) (filter : String) : Option Nat := alookup filter d.filterIndexes

/-- machine-readable tail of a `badChoice` message: how many recorded choices were still unread,
    whether the first of them is of the expected kind (and inadmissible) or of another kind / absent,
    and an admissible choice (tab-separated). Only the driver reads it, to keep the monitors going
    on the model's own choice after the disagreement has been reported. -/
def choiceHint (unread : Nat) (sameKind : Bool) (fix : List String) : String :=
  s!" ##hint {unread} {if sameKind then 1 else 0} " ++ "\t".intercalate fix

/-- `DataLog::matches`; always `Some` in the Rust -/
def dlMatches (s : RState) (topic : String) : M (RState × List Nat) :=
  match alookup topic s.datalog.publishFilters with
  | some v => .ok (s, v)
  | none =>
    let expected := (s.datalog.filterIndexes.filter (fun p => topicMatches topic p.1)).map (·.2)
    match s.oracle with
    | .matches v :: rest =>
      if sameMembers v expected then
        let d := s.datalog
        let d := if v.isEmpty then d else { d with publishFilters := d.publishFilters ++ [(topic, v)] }
        .ok ({ s with datalog := d, oracle := rest }, v)
      else .error (.badChoice (s!"matches order {v} is not a permutation of {expected}" ++ choiceHint s.oracle.length true ("matches" :: expected.map toString)))
    | _ => .error (.badChoice ("expected a matches choice" ++ choiceHint s.oracle.length false ("matches" :: expected.map toString)))

/-- `DataLog::next_native_offset` -/
def nextNativeOffset (s : RState) (filter : String) : RState × Nat × Cursor :=
  match s.datalog.filterIdx? filter with
  | some idx =>
    let cur := match s.datalog.native[idx]? with
      | some fd => fd.log.nextOffset
      | none => (0, 0)
    (s, idx, cur)
  | none =>
    let d := s.datalog
    let idx := d.native.length
    let fd : FilterData :=
      { filter, log := CLog.Log.new s.config.maxSegmentSize s.config.maxSegmentCount }
    let pf := d.publishFilters.map (fun p => if topicMatches p.1 filter then (p.1, p.2 ++ [idx]) else p)
    let d := { d with native := d.native ++ [fd], filterIndexes := d.filterIndexes ++ [(filter, idx)],
                      publishFilters := pf }
    ({ s with datalog := d }, idx, fd.log.nextOffset)

/-- `Storage::size` of `PublishData` -/
def pubSize (p : Pub) : Nat := 4 + p.topic.length + p.payload.length

/-- `Data::append`: append to the filter's log and move its parked waiters to `notifications` -/
def appendToFilter (s : RState) (idx : Nat) (p : Pub) : M RState :=
  match s.datalog.native[idx]? with
  | none => .error (.panic "datalog.native.get_mut(filter_idx).unwrap()")
  | some fd =>
    let (log, off) := fd.log.append p (pubSize p)
    let fd' := { fd with log := log, waiters := [] }
    let d := { s.datalog with native := s.datalog.native.set idx fd' }
    let s := { s with datalog := d, notifications := s.notifications ++ fd.waiters }
    let s := if log.head ≠ fd.log.head then s.g (.evicted idx ((log.segs.head?.map (·.abs)).getD 0)) else s
    .ok (s.g (.appended idx (off.2 - 1) p))

def appendToFilters (s : RState) : List Nat → Pub → M RState
  | [], _ => .ok s
  | i :: is, p => match appendToFilter s i p with
    | .error e => .error e
    | .ok s' => appendToFilters s' is p

/-- retained map update shared by `append_to_commitlog` and `append_will_message` -/
def updateRetained (s : RState) (topic : String) (p : Pub) : RState :=
  let d := s.datalog
  if p.retain && p.payload.isEmpty then { s with datalog := { d with retained := aremove topic d.retained } }
  else if p.retain then { s with datalog := { d with retained := ainsert topic p d.retained } }
  else s

/-- why `append_to_commitlog` failed (the connection is then closed, with or without a reason code) -/
inductive AppendErr
  | disconnect (reason : String)
  | other
deriving Repr, DecidableEq

/-- `append_to_commitlog` (the `dynamic_filters` branch is unreachable: `matches` never returns `None`) -/
def appendToCommitlog (s : RState) (id : Nat) (p : Pub) : M (RState × Option AppendErr) :=
  match getConn s id with
  | none => .error (.panic "connections.get_mut(id).unwrap()")
  | some c =>
    let alias := p.alias
    let p := { p with alias := none }
    if !p.subIds.isEmpty then .ok (s, some (.disconnect "MalformedPacket")) else
    -- validate_and_set_topic_alias
    let r : Except AppendErr (RState × Pub) :=
      match alias with
      | none => .ok (s, p)
      | some a =>
        if a = 0 || a > TOPIC_ALIAS_MAX then .error (.disconnect "TopicAliasInvalid")
        else if p.topic.isEmpty then
          match nlookup a c.topicAliases with
          | none => .error (.disconnect "ProtocolError")
          | some t => .ok (s, { p with topic := t.toUTF8.toList })
        else
          match utf8? p.topic with
          | none => .error .other
          | some t => .ok (setConn s id { c with topicAliases := ninsert a t c.topicAliases }, p)
    match r with
    | .error e => .ok (s, some e)
    | .ok (s, p) =>
      match utf8? p.topic with
      | none => .ok (s, some .other)
      | some topic =>
        let s := updateRetained s topic p
        let s := s.g (.accepted (some id) p topic)
        let p := { p with retain := false }
        match dlMatches s topic with
        | .error e => .error e
        | .ok (s, idxs) =>
          match appendToFilters s idxs p with
          | .error e => .error e
          | .ok s => .ok (s, none)

/-- `Waiters::remove(id)`: repeated `position` + `swap_remove_back` -/
def swapRemoveBack {α} (l : List α) (i : Nat) : List α :=
  match l.getLast? with
  | none => l
  | some last => if i + 1 = l.length then l.dropLast else (l.set i last).dropLast

def waitersRemove (fuel : Nat) (ws : List (Nat × DataRequest)) (id : Nat) (acc : List DataRequest) :
    List (Nat × DataRequest) × List DataRequest :=
  match fuel with
  | 0 => (ws, acc)
  | fuel + 1 =>
    match ws.findIdx? (fun w => w.1 == id) with
    | none => (ws, acc)
    | some i =>
      match ws[i]? with
      | none => (ws, acc)
      | some w => waitersRemove fuel (swapRemoveBack ws i) id (acc ++ [w.2])

/-- `DataLog::clean(id)` -/
def datalogClean (d : DataLog) (id : Nat) : DataLog × List DataRequest :=
  d.native.foldl (fun (acc : DataLog × List DataRequest) fd =>
      let (ws, rs) := waitersRemove (fd.waiters.length + 1) fd.waiters id []
      ({ acc.1 with native := acc.1.native ++ [{ fd with waiters := ws }] }, acc.2 ++ rs))
    ({ d with native := [] }, [])

/-- `$share/<group>/<path>` → `(group, path)` (`extract_group`) -/
def extractGroup (path : String) : Option (String × String) :=
  let p := path.toList
  let pre := "$share/".toList
  if pre.isPrefixOf p then
    let rest := p.drop pre.length
    match rest.idxOf? '/' with
    | none => none
    | some i => some (String.ofList rest, String.ofList (rest.drop (i + 1)))   -- group key = "<share name>/<filter>"
  else none

/-- `DataLog::remove_waiters_for_id(id, filter)`: the waiter of this connection whose request
    has this filter, in the log of the filter with the `$share/<group>/` prefix stripped -/
def removeWaiterFor (d : DataLog) (id : Nat) (filter : String) : DataLog :=
  let logFilter := match extractGroup filter with | some (_, p) => p | none => filter
  match d.filterIdx? logFilter with
  | none => d
  | some idx =>
    match d.native[idx]? with
    | none => d
    | some fd =>
      match fd.waiters.findIdx? (fun w => w.1 == id && w.2.filter == filter) with
      | none => d
      | some i => { d with native := d.native.set idx { fd with waiters := swapRemoveBack fd.waiters i } }

/-! ### shared groups -/

def SharedGroup.removeClient (g : SharedGroup) (c : String) : SharedGroup :=
  let cs := g.clients.filter (· ≠ c)
  { g with clients := cs, idx := if cs.isEmpty then g.idx else g.idx % cs.length }

def removeFromGroups (sh : List (String × SharedGroup)) (client : String) : List (String × SharedGroup) :=
  (sh.map (fun p => (p.1, p.2.removeClient client))).filter (fun p => !p.2.clients.isEmpty)

def SharedGroup.current (g : SharedGroup) : Option String := g.clients[g.idx]?

/-- `update_next_client` (`% 0` and `gen_range(0..0)` panic) -/
def updateNextClient (s : RState) (g : SharedGroup) : M (RState × SharedGroup) :=
  match g.strategy with
  | .sticky => .ok (s, g)
  | .roundRobin =>
    if g.clients.isEmpty then .error (.panic "update_next_client: remainder by zero")
    else .ok (s, { g with idx := (g.idx + 1) % g.clients.length })
  | .random =>
    if g.clients.isEmpty then .error (.panic "update_next_client: empty range")
    else match s.oracle with
      | .random n :: rest =>
        if n < g.clients.length then .ok ({ s with oracle := rest }, { g with idx := n })
        else .error (.badChoice ("random index out of range" ++ choiceHint s.oracle.length true ["random", "0"]))
      | _ => .error (.badChoice ("expected a random choice" ++ choiceHint s.oracle.length false ["random", "0"]))

/-! ### outgoing -/

def Outgoing.freeSlots (o : Outgoing) : Nat := MAX_INFLIGHT - o.inflight.length

/-- `push_forwards` for QoS > 0: number the publishes and record them in the inflight window -/
def numberForwards (o : Outgoing) (filterIdx : Nat) :
    List (Pub × Option Cursor) → List Notif → Outgoing × List Notif
  | [], acc => (o, acc)
  | (p, cur) :: rest, acc =>
    let pk := o.lastPkid + 1
    let o' := { o with inflight := o.inflight ++ [(pk, filterIdx, cur)],
                       lastPkid := if pk = MAX_INFLIGHT then 0 else pk }
    numberForwards o' filterIdx rest (acc ++ [Notif.forward { p with pkid := pk } cur])

/-- `register_ack`: the head is popped only if it is the acknowledged id -/
def Outgoing.registerAck (o : Outgoing) (pkid : Nat) : Outgoing × Bool :=
  match o.inflight with
  | [] => (o, false)
  | (h, _, _) :: rest => if h = pkid then ({ o with inflight := rest }, true) else (o, false)

def Outgoing.registerPubcomp (o : Outgoing) (pkid : Nat) : Outgoing × Bool :=
  match o.unackedPubrels with
  | [] => (o, false)
  | h :: rest => if h = pkid then ({ o with unackedPubrels := rest }, true) else (o, false)

/-- `forget_cursors`: the window entries of a filter index lose their cursor (the subscription
    has ended: they no longer define a resume point); ids and order stay -/
def Outgoing.forgetCursors (o : Outgoing) (fi : Nat) : Outgoing :=
  { o with inflight := o.inflight.map (fun e => if e.2.1 = fi then (e.1, e.2.1, none) else e) }

/-- the path whose log a subscription reads: `$share/<group>/<path>` reads the log of `<path>` -/
def logPath (f : String) : String := match extractGroup f with | some (_, p) => p | none => f

/-- the window after `filter` was unsubscribed (`subs`: the subscriptions that remain) -/
def unsubOut (d : DataLog) (subs : List String) (out : Outgoing) (filter : String) : Outgoing :=
  if subs.any (fun g => logPath g == logPath filter) then out else
  match d.filterIdx? (logPath filter) with
  | none => out
  | some fi => out.forgetCursors fi

/-- tuple order of `(u64, u64)`: `Ord::min` of two cursors -/
def cursorMin (a b : Cursor) : Cursor :=
  if a.1 < b.1 || (a.1 == b.1 && a.2 ≤ b.2) then a else b

/-- `retransmission_map`: the LEAST cursor per filter index among inflight entries that have one
    (usually the first one in window order, but entries handed back to a shared group are
    forwarded again behind later ones) -/
def retransmissionMap : List (Nat × Nat × Option Cursor) → List (Nat × Cursor) → List (Nat × Cursor)
  | [], acc => acc
  | (_, fi, some c) :: rest, acc =>
    match nlookup fi acc with
    | some least => retransmissionMap rest (acc.map (fun p => if p.1 = fi then (fi, cursorMin least c) else p))
    | none => retransmissionMap rest (acc ++ [(fi, c)])
  | (_, _, none) :: rest, acc => retransmissionMap rest acc

/-! ### broker topic aliases -/

def BrokerAliases.setNew (b : BrokerAliases) (filter : String) : BrokerAliases × Option Nat :=
  let (used, k) := b.used.insert ()
  if k > b.max then ({ b with used := used.remove k }, none)
  else ({ b with used := used, aliases := ainsert filter k b.aliases }, some k)

def BrokerAliases.removeAlias (b : BrokerAliases) (filter : String) : BrokerAliases :=
  match alookup filter b.aliases with
  | none => b
  | some a => { b with aliases := aremove filter b.aliases, used := b.used.remove a }

def BrokerAliases.new (max : Nat) : BrokerAliases :=
  { max, used := ({} : Slab Unit).insert () |>.1 }

/-! ### disconnection -/

/-- the request of a shared subscription continues where its group is when the member leaves
    (`group_cursors`, taken before the member is removed from its groups) -/
def atGroupCursor (sh : List (String × SharedGroup)) (r : DataRequest) : DataRequest :=
  match r.group.bind (fun g => alookup g sh) with
  | some grp => { r with cursor := grp.cursor }
  | none => r

/-- restore cursors of the saved tracker from the retransmission map -/
def rewindRequests (sh : List (String × SharedGroup)) (retx : List (Nat × Cursor)) :
    List DataRequest → List DataRequest → List (String × SharedGroup) × List DataRequest
  | [], acc => (sh, acc)
  | r :: rest, acc =>
    match nlookup r.filterIdx retx with
    | none => rewindRequests sh retx rest (acc ++ [r])
    | some c =>
      let r' := { r with cursor := c }
      match r.group with
      | none => rewindRequests sh retx rest (acc ++ [r'])
      | some g =>
        match alookup g sh with
        | none => rewindRequests sh retx rest (acc ++ [r'])   -- group already gone (last member)
        | some grp => rewindRequests (ainsert g { grp with cursor := c } sh) retx rest (acc ++ [r'])

/-- the logs of the groups whose cursor `rewindRequests` sets back (`rewound` in
    `handle_disconnection`): the members that remain may all be parked behind those entries -/
def rewoundLogs (sh : List (String × SharedGroup)) (retx : List (Nat × Cursor)) (reqs : List DataRequest) : List Nat :=
  reqs.filterMap (fun r =>
    match nlookup r.filterIdx retx, r.group.bind (fun g => alookup g sh) with
    | some _, some _ => some r.filterIdx
    | _, _ => none)

/-- the logs of the groups that stay when `client` leaves all groups and whose turn passes to
    another member by that (`handle_disconnection`; group key `<share>/<path>`) -/
def turnMovedLogs (d : DataLog) (sh : List (String × SharedGroup)) (client : String) : List Nat :=
  sh.flatMap (fun p =>
    let g' := p.2.removeClient client
    if !g'.clients.isEmpty && g'.current != p.2.current then
      match extractGroup ("$share/" ++ p.1) with
      | some (_, path) => (d.filterIdx? path).toList
      | none => []
    else [])

/-- wake the parked consumers (`while let Some((id, request)) = self.notifications.pop_front()`) -/
def drainNotifications (s : RState) : List (Nat × DataRequest) → M RState
  | [] => .ok s
  | (id, r) :: rest =>
    match track s id r with
    | .error e => .error e
    | .ok s =>
      match reschedule s id .freshData with
      | .error e => .error e
      | .ok s => drainNotifications s rest

/-- `wake_parked` after `logs.sort_unstable(); logs.dedup()`: the requests parked on each of these
    logs are tracked again and their connections rescheduled, as after an append -/
def wakeParkedSorted (s : RState) : List Nat → M RState
  | [] => .ok s
  | i :: rest =>
    match s.datalog.native[i]? with
    | none => wakeParkedSorted s rest
    | some fd =>
      let s1 : RState := { s with datalog := { s.datalog with native := s.datalog.native.set i { fd with waiters := [] } } }
      match drainNotifications s1 fd.waiters with
      | .error e => .error e
      | .ok s2 => wakeParkedSorted s2 rest

def wakeParked (s : RState) (logs : List Nat) : M RState :=
  wakeParkedSorted s (logs.mergeSort (fun a b => a ≤ b)).eraseDups

/-- end of a call that collected `turnMoved`: wake, and the local is gone -/
def wakeTurnMoved (s : RState) : M RState := wakeParked { s with turnMoved := [] } s.turnMoved

/-- `handle_disconnection(id, reason)` -/
def handleDisconnection (s : RState) (id : Nat) (reason : Option String) : M RState :=
  match getConn s id with
  | none => .ok s
  | some c =>
    let s := match reason with
      | none => s
      | some r => wakeLink (pushNotifs s c.link [Notif.disconnect r]) c.link
    let s := { s with conns := s.conns.remove id, connectionMap := aremove c.clientId s.connectionMap }
    let s := s.g (.removed id c.clientId c.clean)
    let (dl, inflightReqs) := datalogClean s.datalog id
    let s := { s with datalog := dl }
    let retx := retransmissionMap c.out.inflight []
    let movedLogs := turnMovedLogs s.datalog s.shared c.clientId
    let groupsBefore := s.shared
    let s := { s with shared := removeFromGroups s.shared c.clientId }
    let smap := s.subscriptionMap.map (fun (p : String × List Nat) =>
      if c.subscriptions.contains p.1 then (p.1, p.2.filter (· ≠ id)) else p)
    let s := { s with subscriptionMap := smap }
    if !c.clean then
      let saved0 := (c.tracker.requests ++ inflightReqs).map (atGroupCursor groupsBefore)
      let rewound := rewoundLogs s.shared retx saved0
      let (sh, reqs) := rewindRequests s.shared retx saved0 []
      let t : Tracker := { c.tracker with requests := reqs, status := .paused .busy }
      let saved : SessionState := { tracker := t, subscriptions := c.subscriptions, unackedPubrels := c.out.unackedPubrels }
      let s : RState := { s with shared := sh, graveyard := ainsert c.clientId (some saved) s.graveyard }
      -- the turn of some groups passed to another member, which may be parked; groups set
      -- back have entries to hand out again
      wakeParked s (movedLogs ++ rewound)
    else
      let s : RState := { s with graveyard := ainsert c.clientId none s.graveyard }
      wakeParked s movedLogs

/-! ### new connection -/

structure ConnectSpec where
  link : Nat
  clientId : String
  clean : Bool
  dynamicFilters : Bool
  aliasMax : Nat
  will : Option Will

def validClientId (c : String) : Bool := !("+$#/".toList.any (fun ch => c.toList.contains ch))

/-- `shared_subscriptions.entry(group).or_insert(SharedGroup::new(request.cursor, strategy)).add_client(client)`
    for every restored request of a shared subscription -/
def rejoinGroups (strategy : Strategy) (client : String) : List DataRequest → List (String × SharedGroup) → List (String × SharedGroup)
  | [], sh => sh
  | r :: rest, sh =>
    match r.group with
    | none => rejoinGroups strategy client rest sh
    | some g =>
      let grp := (alookup g sh).getD { cursor := r.cursor, strategy := strategy }
      rejoinGroups strategy client rest (ainsert g { grp with clients := grp.clients ++ [client] } sh)

/-- `subscription_map.entry(filter).or_default().insert(id)` -/
def subscriptionMapAdd (m : List (String × List Nat)) (filter : String) (id : Nat) : List (String × List Nat) :=
  match alookup filter m with
  | some ids => ainsert filter (if ids.contains id then ids else ids ++ [id]) m
  | none => m ++ [(filter, [id])]

/-- `handle_new_connection` -/
def handleNewConnection (s : RState) (spec : ConnectSpec) : M RState :=
  -- the link's buffers are created by the link before the event is sent
  let s := setLink s spec.link {}
  if !validClientId spec.clientId then .ok (s.g (.notRegistered spec.link)) else
  let r := match alookup spec.clientId s.connectionMap with
    | some old => handleDisconnection s old none
    | none => .ok s
  match r with
  | .error e => .error e
  | .ok s =>
    if s.conns.len ≥ s.config.maxConnections then .ok (s.g (.notRegistered spec.link)) else
    let saved := alookup spec.clientId s.graveyard
    let s := { s with graveyard := aremove spec.clientId s.graveyard }
    let session : Option SessionState := saved.bind id
    let previousSession := session.isSome
    let restored := if spec.clean then none else session
    let tracker : Tracker := match restored with
      | some ss => ss.tracker
      | none => { id := spec.clientId }
    let subs := match restored with | some ss => ss.subscriptions | none => []
    let pending := match restored with | some ss => ss.unackedPubrels | none => []
    let s := match spec.will with
      | some w => ({ s with lastWills := ainsert spec.clientId w s.lastWills }).g (.willSet spec.clientId)
      | none => s
    let conn : Conn :=
      { clientId := spec.clientId, link := spec.link, clean := spec.clean,
        dynamicFilters := spec.dynamicFilters, subscriptions := subs,
        brokerAliases := if spec.aliasMax > 0 then some (BrokerAliases.new spec.aliasMax) else none,
        out := { unackedPubrels := pending }, tracker := tracker }
    let (slab, id) := s.conns.insert conn
    -- the subscriptions of a resumed session are entered into `subscription_map` under the new id
    let s := { s with subscriptionMap := subs.foldl (fun m f => subscriptionMapAdd m f id) s.subscriptionMap }
    let s := { s with conns := slab, connectionMap := ainsert spec.clientId id s.connectionMap }
    -- a resumed session takes its place in the groups of its shared subscriptions again
    let s := { s with shared := rejoinGroups s.config.strategy spec.clientId tracker.requests s.shared }
    if !trackerNoDup tracker then .error (.panic "debug_assert check_tracker_duplicates (new connection)") else
    let acks := [Ack.connack id (!spec.clean && previousSession)] ++ pending.map Ack.pubrel
    let s := setConn s id { conn with acks := { committed := acks } }
    let s := s.g (.registered id spec.link spec.clientId spec.clean (!spec.clean && previousSession))
    let s := if restored.isSome then s.g (.restored id tracker.requests) else s
    let s := acks.foldl (fun s a => s.g (.committed id a)) s
    reschedule s id .init

/-! ### device payload -/

structure Flags where
  forceAck : Bool := false
  newData : Bool := false
  disconnect : Bool := false
  reason : Option String := none
  stop : Bool := false          -- `break` out of the packet loop

def commitAck (s : RState) (id : Nat) (a : Ack) : M RState :=
  match getConn s id with
  | none => .error (.panic "ackslog.get_mut(id).unwrap()")
  | some c => .ok ((setConn s id { c with acks := { c.acks with committed := c.acks.committed ++ [a] } }).g (.committed id a))

def validSubscription (path : String) : Bool :=
  !(path.toList.head? = some '$' && !("$share".toList.isPrefixOf path.toList))

/-- `prepare_filter` -/
def prepareFilter (s : RState) (id : Nat) (cursor : Cursor) (idx : Nat) (f : SubFilter)
    (group : Option String) (subId : Option Nat) : M RState :=
  let smap := match alookup f.path s.subscriptionMap with
    | some ids => ainsert f.path (if ids.contains id then ids else ids ++ [id]) s.subscriptionMap
    | none => s.subscriptionMap ++ [(f.path, [id])]
  let s := { s with subscriptionMap := smap }
  match getConn s id with
  | none => .error (.panic "connections.get_mut(id).unwrap()")
  | some c =>
    let s := match group with
      | none => s
      | some g =>
        let grp := (alookup g s.shared).getD { cursor := cursor, strategy := s.config.strategy }
        { s with shared := ainsert g { grp with clients := grp.clients ++ [c.clientId] } s.shared }
    let c := match subId with
      | some i => { c with subscriptionIds := ainsert f.path i c.subscriptionIds }
      | none => c
    if c.subscriptions.contains f.path then
      .ok ((setConn s id c).g (.subscribed id f.path f.qos idx cursor group false)) else
    let s := s.g (.subscribed id f.path f.qos idx cursor group true)
    let c := { c with subscriptions := c.subscriptions ++ [f.path] }
    let req : DataRequest :=
      { filter := f.path, filterIdx := idx, qos := f.qos, cursor := cursor,
        forwardRetained := group.isNone, group := group }
    let s := setConn s id c
    match track s id req with
    | .error e => .error e
    | .ok s =>
      match reschedule s id .newFilter with
      | .error e => .error e
      | .ok s =>
        match getConn s id with
        | none => .ok s
        | some c => if trackerNoDup c.tracker then .ok s
                    else .error (.panic "debug_assert check_tracker_duplicates (prepare_filter)")

/-- the `for f in &mut subscribe.filters` loop -/
def subscribeFilters (s : RState) (id : Nat) (subId : Option Nat) :
    List SubFilter → List Nat → Flags → M (RState × List Nat × Flags)
  | [], codes, fl => .ok (s, codes, fl)
  | f :: rest, codes, fl =>
    if !validSubscription f.path then .ok (s, codes, { fl with disconnect := true }) else
    let (group, filter) := match extractGroup f.path with
      | some (g, p) => (some g, p)
      | none => (none, f.path)
    if subId = some 0 then .ok (s, codes, { fl with disconnect := true, reason := some "ProtocolError" }) else
    let (s, idx, cursor) := nextNativeOffset s filter
    match prepareFilter s id cursor idx f group subId with
    | .error e => .error e
    | .ok s => subscribeFilters s id subId rest (codes ++ [f.qos]) fl

/-- the `for filter in &unsubscribe.filters` loop; returns one reason per filter -/
def unsubscribeFilters (s : RState) (id : Nat) : List String → List Bool → M (RState × List Bool)
  | [], rs => .ok (s, rs)
  | f :: rest, rs =>
    match alookup f s.subscriptionMap with
    | none => unsubscribeFilters s id rest (rs ++ [false])
    | some ids =>
      if !ids.contains id then unsubscribeFilters s id rest (rs ++ [false]) else
      let s := { s with subscriptionMap := ainsert f (ids.filter (· ≠ id)) s.subscriptionMap }
      match getConn s id with
      | none => .error (.panic "connections.get_mut(id).unwrap()")
      | some c =>
        if !c.subscriptions.contains f then unsubscribeFilters s id rest (rs ++ [false]) else
        let c := { c with subscriptions := c.subscriptions.filter (· ≠ f) }
        -- leave the group of this shared subscription only; drop the group if now empty
        let s := match extractGroup f with
          | none => s
          | some (gname, path) =>
            match alookup gname s.shared with
            | none => s
            | some g =>
              let g' := g.removeClient c.clientId
              if g'.clients.isEmpty then { s with shared := aremove gname s.shared }
              else
                -- the turn passed to another member: its log is remembered for the wake-up
                let moved := if g'.current != g.current then (s.datalog.filterIdx? path).toList else []
                { s with shared := ainsert gname g' s.shared, turnMoved := s.turnMoved ++ moved }
        let c := { c with brokerAliases := c.brokerAliases.map (fun b => BrokerAliases.removeAlias b f),
                          subscriptionIds := aremove f c.subscriptionIds }
        let c := { c with tracker := { c.tracker with requests := c.tracker.requests.filter (·.filter ≠ f) } }
        -- unacknowledged publishes of the ended subscription no longer define a resume point,
        -- unless the connection's other (plain / shared) subscription to the path still reads that log
        let c := { c with out := unsubOut s.datalog c.subscriptions c.out f }
        let s := setConn s id c
        let s := { s with datalog := removeWaiterFor s.datalog id f }
        let s := { s with notifications := s.notifications.filter (fun n => !(n.1 == id && n.2.filter == f)) }
        unsubscribeFilters (s.g (.unsubscribed id f)) id rest (rs ++ [true])

/-- one packet of the batch -/
def handlePacket (s : RState) (id : Nat) (clientId : String) (pkt : Packet) (fl : Flags) : M (RState × Flags) :=
  match pkt with
  | .publish p =>
    let pre : M (RState × Flags × Bool) :=
      if p.qos = 1 then
        match commitAck s id (.puback p.pkid) with
        | .error e => .error e
        | .ok s => .ok (s, { fl with forceAck := true }, false)
      else if p.qos = 2 then
        match getConn s id with
        | none => .error (.panic "ackslog.get_mut(id).unwrap()")
        | some c =>
          let acks := { committed := c.acks.committed ++ [Ack.pubrec p.pkid], recorded := c.acks.recorded ++ [p] }
          .ok ((setConn s id { c with acks := acks }).g (.committed id (.pubrec p.pkid)), { fl with forceAck := true }, true)
      else .ok (s, fl, false)
    match pre with
    | .error e => .error e
    | .ok (s, fl, true) => .ok (s, fl)
    | .ok (s, fl, false) =>
      match appendToCommitlog s id p with
      | .error e => .error e
      | .ok (s, none) => .ok (s, { fl with newData := true })
      | .ok (s, some (.disconnect r)) => .ok (s, { fl with disconnect := true, reason := some r, stop := true })
      | .ok (s, some .other) => .ok (s, { fl with disconnect := true, stop := true })
  | .subscribe pkid subId filters =>
    match subscribeFilters s id subId filters [] fl with
    | .error e => .error e
    | .ok (s, codes, fl) =>
      match commitAck s id (.suback pkid codes) with
      | .error e => .error e
      | .ok s => .ok (s, { fl with forceAck := true })
  | .unsubscribe pkid filters =>
    match getConn s id with
    | none => .error (.panic "connections.get_mut(id).unwrap()")
    | some _ =>
      match unsubscribeFilters s id filters [] with
      | .error e => .error e
      | .ok (s, reasons) =>
        match commitAck s id (.unsuback pkid reasons) with
        | .error e => .error e
        | .ok s => .ok (s, { fl with forceAck := true })
  | .puback pkid =>
    match getConn s id with
    | none => .error (.panic "obufs.get_mut(id).unwrap()")
    | some c =>
      let (o, ok) := c.out.registerAck pkid
      let s := setConn s id { c with out := o }
      if !ok then .ok (s, { fl with disconnect := true, stop := true }) else
      match reschedule (s.g (.clientAcked id pkid)) id .incomingAck with
      | .error e => .error e
      | .ok s => .ok (s, fl)
  | .pubrec pkid =>
    match getConn s id with
    | none => .error (.panic "obufs.get_mut(id).unwrap()")
    | some c =>
      let (o, ok) := c.out.registerAck pkid
      if !ok then .ok (setConn s id { c with out := o }, { fl with disconnect := true, stop := true }) else
      let o := { o with unackedPubrels := o.unackedPubrels ++ [pkid] }
      let c := { c with out := o, acks := { c.acks with committed := c.acks.committed ++ [Ack.pubrel pkid] } }
      match reschedule (((setConn s id c).g (.clientAcked id pkid)).g (.committed id (.pubrel pkid))) id .incomingAck with
      | .error e => .error e
      | .ok s => .ok (s, fl)
  | .pubrel pkid _ =>      -- with or without MQTT 5 properties
    match getConn s id with
    | none => .error (.panic "ackslog.get_mut(id).unwrap()")
    | some c =>
      let committed := c.acks.committed ++ [Ack.pubcomp pkid]
      match c.acks.recorded with
      | [] => .ok ((setConn s id { c with acks := { c.acks with committed := committed } }).g (.committed id (.pubcomp pkid)),
                   { fl with disconnect := true, stop := true })
      | p :: rest =>
        let s := (setConn s id { c with acks := { committed := committed, recorded := rest } }).g (.committed id (.pubcomp pkid))
        match appendToCommitlog s id p with
        | .error e => .error e
        | .ok (s, some _) => .ok (s, { fl with disconnect := true, stop := true })
        | .ok (s, none) =>
          match reschedule s id .incomingAck with
          | .error e => .error e
          | .ok s => .ok (s, { fl with newData := true })
  | .pubcomp pkid =>
    match getConn s id with
    | none => .error (.panic "obufs.get_mut(id).unwrap()")
    | some c =>
      let (o, ok) := c.out.registerPubcomp pkid
      let s := setConn s id { c with out := o }
      if !ok then .ok (s, { fl with disconnect := true, stop := true }) else .ok (s, fl)
  | .pingreq =>
    match commitAck s id .pingresp with
    | .error e => .error e
    | .ok s => .ok (s, { fl with forceAck := true })
  | .disconnect =>
    .ok (({ s with lastWills := aremove clientId s.lastWills }).g (.willCleared clientId),
         { fl with disconnect := true, stop := true })
  | .other => .ok (s, fl)

def handlePackets (s : RState) (id : Nat) (clientId : String) : List Packet → Flags → M (RState × Flags)
  | [], fl => .ok (s, fl)
  | p :: rest, fl =>
    match handlePacket s id clientId p fl with
    | .error e => .error e
    | .ok (s, fl) => if fl.stop then .ok (s, fl) else handlePackets s id clientId rest fl

/-- `handle_device_payload(id)` -/
def handleDevicePayload (s : RState) (id : Nat) : M RState :=
  match getConn s id with
  | none => .ok s
  | some c =>
    let lb := getLink s c.link
    let packets := lb.ibuf
    let s := setLink s c.link { lb with ibuf := [] }
    match handlePackets s id c.clientId packets {} with
    | .error e => .error e
    | .ok (s, fl) =>
      let r1 := if fl.forceAck then reschedule s id .freshData else .ok s
      match r1 with
      | .error e => .error e
      | .ok s =>
        let r2 := if fl.newData then drainNotifications { s with notifications := [] } s.notifications else .ok s
        match r2 with
        | .error e => .error e
        | .ok s =>
          -- the member that holds the turn of a group this client left may be parked
          match wakeTurnMoved s with
          | .error e => .error e
          | .ok s => if fl.disconnect then handleDisconnection s id fl.reason else .ok s

/-! ### consume -/

inductive ConsumeStatus | bufferFull | inflightFull | filterCaughtup | partialRead | skipRequest
deriving Repr, DecidableEq

/-- `read_retained_messages(filter)` in the iteration order the real hash map used -/
def readRetained (s : RState) (filter : String) : M (RState × List Pub) :=
  let expected := (s.datalog.retained.filter (fun p => topicMatches p.1 filter)).map (·.1)
  match s.oracle with
  | .retained order :: rest =>
    if sameMembers order expected then
      .ok ({ s with oracle := rest }, order.filterMap (fun t => alookup t s.datalog.retained))
    else .error (.badChoice (s!"retained order {order} is not a permutation of {expected}" ++ choiceHint s.oracle.length true ("retained" :: expected)))
  | _ => .error (.badChoice ("expected a retained choice" ++ choiceHint s.oracle.length false ("retained" :: expected)))

/-- the alias table `forward_device_data` consults for a subscription: broker aliases are keyed by
    the filter and an alias stands for exactly one topic, so only filters without wildcards get
    one (`protocol::has_wildcards(&request.filter)`) -/
def aliasesFor (c : Conn) (filter : String) : Option BrokerAliases :=
  if Topic.hasWildcards filter.toList then none else c.brokerAliases

/-- construct the `Forward`s of one sweep -/
def mkForward (qos : Nat) (alias : Option Nat) (aliasExisted : Bool) (subId : Option Nat) (p : Pub) : Pub :=
  let p := { p with qos := qos }
  let p := match alias with
    | some a => { p with alias := some a, hasProps := true }
    | none => p
  let p := if aliasExisted then { p with topic := [] } else p
  match subId with
  | some i => { p with subIds := p.subIds ++ [i], hasProps := true }
  | none => p

/-- `forward_device_data` -/
def forwardDeviceData (s : RState) (id : Nat) (req : DataRequest) : M (RState × DataRequest × ConsumeStatus) :=
  match getConn s id with
  | none => .error (.panic "connections[id]")
  | some c =>
    let grp : Option SharedGroup := req.group.bind (fun g => alookup g s.shared)
    let req := match grp with | some g => { req with cursor := g.cursor } | none => req
    let free := c.out.freeSlots
    if req.qos ≠ 0 && free = 0 then .ok (s, req, .inflightFull) else
    let slots := if req.qos ≠ 0 then free else s.config.maxOutgoingPacketCount
    let slots := match grp with
      | some g => if g.strategy = .roundRobin then 1 else slots
      | none => slots
    let r : M (RState × List (Pub × Option Cursor) × Nat) :=
      if req.forwardRetained then
        match readRetained s req.filter with
        | .error e => .error e
        | .ok (s, ps) =>
          let ps := ps.take slots
          .ok (s, ps.map (fun p => (p, none)), slots - ps.length)
      else .ok (s, [], slots)
    match r with
    | .error e => .error e
    | .ok (s, retainedPubs, slots) =>
      let req := { req with forwardRetained := false }
      match s.datalog.native[req.filterIdx]? with
      | none => .error (.panic "datalog.native.get(filter_idx).unwrap()")
      | some fd =>
        let (entries, pos) := fd.log.readv req.cursor slots
        let publishes := retainedPubs ++ entries.map (fun e => (e.1, some e.2))
        let (next, caughtup) := match pos with
          | .next _ e => (e, false)
          | .done _ e => (e, true)
        let skip := match grp with
          | some g => some c.clientId != g.current
          | none => false
        if skip then .ok (s, req, if caughtup then .filterCaughtup else .skipRequest) else
        let req := { req with cursor := next }
        if publishes.isEmpty then .ok (s, req, .filterCaughtup) else
        -- broker topic aliases are keyed by the *filter* (see `aliasesFor`)
        let aliases := aliasesFor c req.filter
        let existing := aliases.bind (fun b => alookup req.filter b.aliases)
        let (ba, alias) := match existing with
          | some a => (c.brokerAliases, some a)
          | none => match aliases with
            | none => (c.brokerAliases, none)
            | some b => let (b', a) := b.setNew req.filter; (some b', a)
        let subId := alookup req.filter c.subscriptionIds
        let fwds := publishes.map (fun pc => (mkForward req.qos alias existing.isSome subId pc.1, pc.2))
        let (out, notifs) :=
          if req.qos = 0 then (c.out, fwds.map (fun pc => Notif.forward pc.1 pc.2))
          else numberForwards c.out req.filterIdx fwds []
        let s := setConn s id { c with out := out, brokerAliases := ba }
        let s := pushNotifs s c.link notifs
        let len := (getLink s c.link).obuf.length
        -- the group's turn and cursor advance whenever publishes were pushed (also on BufferFull)
        let r : M RState :=
          match req.group, grp with
          | some gname, some _ =>
            match alookup gname s.shared with
            | none => .ok s
            | some g =>
              match updateNextClient s g with
              | .error e => .error e
              | .ok (s, g) => .ok { s with shared := ainsert gname { g with cursor := req.cursor } s.shared }
          | _, _ => .ok s
        match r with
        | .error e => .error e
        | .ok s =>
          if len ≥ MAX_CHANNEL_CAPACITY - 1 then
            .ok (wakeLink (pushNotifs s c.link [Notif.unschedule]) c.link, req, .bufferFull)
          else
            .ok (wakeLink s c.link, req, if caughtup then .filterCaughtup else .partialRead)

/-- `ack_device_data` -/
def ackDeviceData (s : RState) (id : Nat) : RState :=
  match getConn s id with
  | none => s
  | some c =>
    if c.acks.committed.isEmpty then s else
    let s := pushNotifs s c.link (c.acks.committed.map Notif.ack)
    let s := wakeLink s c.link
    setConn s id { c with acks := { c.acks with committed := [] } }

/-- `Scheduler::pause` after `poll` pushed `id` to the back of the ready queue -/
def pause (s : RState) (id : Nat) (r : PauseReason) : M RState :=
  if s.readyqueue.getLast? ≠ some id then .error (.panic "scheduler.pause: assert_eq readyqueue.pop_back") else
  match getConn s id with
  | none => .error (.panic "scheduler.pause: unwrap")
  | some c => .ok (setConn { s with readyqueue := s.readyqueue.dropLast } id
                    { c with tracker := { c.tracker with status := .paused r } })

def trackv (s : RState) (id : Nat) (rs : List DataRequest) : M RState :=
  match getConn s id with
  | none => .error (.panic "scheduler.trackv: unwrap")
  | some c => .ok (setConn s id { c with tracker := { c.tracker with requests := c.tracker.requests ++ rs } })

def park (s : RState) (id : Nat) (r : DataRequest) : M RState :=
  match s.datalog.native[r.filterIdx]? with
  | none => .error (.panic "datalog.park: unwrap")
  | some fd =>
    let native := s.datalog.native.set r.filterIdx { fd with waiters := fd.waiters ++ [(id, r)] }
    .ok { s with datalog := { s.datalog with native := native } }

/-- after a sweep (`s0` before, `s1` after): when the request belongs to a shared group whose
    turn passed to another member, the group's log is remembered for the wake-up at the end of
    `consume` -/
def noteTurn (s0 s1 : RState) (req : DataRequest) : RState :=
  match req.group.bind (fun g => alookup g s0.shared), req.group.bind (fun g => alookup g s1.shared) with
  | some g0, some g1 => if g1.current != g0.current then { s1 with turnMoved := s1.turnMoved ++ [req.filterIdx] } else s1
  | _, _ => s1

/-- the `for _ in 0..MAX_SCHEDULE_ITERATIONS` loop of `consume` -/
def consumeLoop (s : RState) (id : Nat) : Nat → List DataRequest → List DataRequest → M RState
  | 0, requests, skipped => trackv s id (requests ++ skipped)
  | fuel + 1, requests, skipped =>
    match requests with
    | [] =>
      let r := if skipped.isEmpty then pause s id .caughtup else .ok s
      match r with
      | .error e => .error e
      | .ok s => trackv s id skipped
    | req :: rest =>
      match forwardDeviceData s id req with
      | .error e => .error e
      | .ok (s1, req, st) =>
        let s := noteTurn s s1 req
        match st with
        | .bufferFull =>
          match pause s id .busy with
          | .error e => .error e
          | .ok s => trackv s id (rest ++ [req] ++ skipped)
        | .inflightFull =>
          match pause s id .inflightFull with
          | .error e => .error e
          | .ok s => trackv s id (rest ++ [req] ++ skipped)
        | .filterCaughtup =>
          match park s id req with
          | .error e => .error e
          | .ok s => consumeLoop s id fuel rest skipped
        | .partialRead => consumeLoop s id fuel (rest ++ [req]) skipped
        | .skipRequest => consumeLoop s id fuel rest (skipped ++ [req])

/-- `consume()`; the Bool is `is_some()` -/
def consume (s : RState) : M (RState × Bool) :=
  -- `Scheduler::poll`: ids of removed connections are skipped
  match s.readyqueue.dropWhile (fun id => (s.conns.get? id).isNone) with
  | [] => .ok ({ s with readyqueue := [] }, false)
  | id :: rq =>
    let s := { s with readyqueue := rq }
    match getConn s id with
    | none => .ok (s, false)           -- unreachable after dropWhile
    | some c =>
      let requests := c.tracker.requests
      let s := setConn s id { c with tracker := { c.tracker with requests := [] } }
      let s := { s with readyqueue := s.readyqueue ++ [id] }
      let s := ackDeviceData s id
      match consumeLoop s id MAX_SCHEDULE_ITERATIONS requests [] with
      | .error e => .error e
      | .ok s =>
        -- the member that now holds the turn of a group served in this round may be parked
        match wakeTurnMoved s with
        | .error e => .error e
        | .ok s => .ok (s, true)

/-! ### will, shadow -/

/-- `handle_last_will(client_id)` -/
def handleLastWill (s : RState) (clientId : String) : M RState :=
  match alookup clientId s.lastWills with
  | none => .ok s
  | some w =>
    let s := { s with lastWills := aremove clientId s.lastWills }
    let s := s.g (.willFired clientId)
    let p : Pub := { qos := w.qos, pkid := 0, retain := w.retain, dup := false, topic := w.topic, payload := w.payload }
    match utf8? p.topic with
    | none => .ok s
    | some topic =>
      let s := updateRetained s topic p
      let s := s.g (.accepted none p topic)
      let p := { p with retain := false }
      match dlMatches s topic with
      | .error e => .error e
      | .ok (s, idxs) =>
        match appendToFilters s idxs p with
        | .error e => .error e
        | .ok s => drainNotifications { s with notifications := [] } s.notifications

/-- `retrieve_shadow` (ignored for a missing id) -/
def handleShadow (s : RState) (id : Nat) (filter : String) : M RState :=
  match getConn s id with
  | none => .ok s
  | some c =>
    match (s.datalog.filterIdx? filter).bind (fun i => s.datalog.native[i]?) with
    | none => .ok s
    | some fd =>
      match fd.log.last with
      | none => .ok s
      | some p =>
        let s := pushNotifs s c.link [Notif.shadow p.topic p.payload]
        let s := if (getLink s c.link).obuf.length ≥ MAX_CHANNEL_CAPACITY - 1
                 then pushNotifs s c.link [Notif.unschedule] else s
        .ok (wakeLink s c.link)

/-! ### ops -/

inductive Event
  | deviceData | ready | disconnect
  | publishWill (clientId : String)
  | shadow (filter : String)
  | sendMeters | sendAlerts

inductive Op
  | connect (spec : ConnectSpec)
  | push (link : Nat) (p : Packet)
  | event (id : Nat) (e : Event)
  | consume
  | drain (link : Nat)

inductive Out
  | ok
  | len (n : Nat)
  | consumed (b : Bool)
  | drained (tok : Bool) (ns : List Notif)
  | nolink

def events (s : RState) (id : Nat) : Event → M RState
  | .deviceData => handleDevicePayload s id
  | .ready => if (getConn s id).isSome then reschedule s id .ready else .ok s
  | .disconnect => handleDisconnection s id none
  | .publishWill c => handleLastWill s c
  | .shadow f => handleShadow s id f
  | .sendMeters => .ok s
  | .sendAlerts => .ok s

def step (s : RState) : Op → M (RState × Out)
  | .connect spec =>
    match handleNewConnection s spec with
    | .error e => .error e
    | .ok s => .ok (s, .ok)
  | .push l p =>
    if l < s.links.length then
      let b := getLink s l
      let b := { b with ibuf := b.ibuf ++ [p] }
      .ok (setLink s l b, .len b.ibuf.length)
    else .ok (s, .nolink)
  | .event id e =>
    match events s id e with
    | .error e => .error e
    | .ok s => .ok (s, .ok)
  | .consume =>
    match consume s with
    | .error e => .error e
    | .ok (s, b) => .ok (s, .consumed b)
  | .drain l =>
    if l < s.links.length then
      let b := getLink s l
      if b.tokens > 0 then .ok (setLink s l { b with tokens := b.tokens - 1, obuf := [] }, .drained true b.obuf)
      else .ok (s, .drained false [])
    else .ok (s, .nolink)

def init (c : Config) : RState := { config := c }

end Router
