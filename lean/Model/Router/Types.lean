/-
Types of the router model (rumqttd/src/router/*): packets as far as the router looks at them,
notifications, data requests, trackers, per-connection buffers, slab with LIFO key reuse.
Import-free apart from other Model files.
-/
import Model.Topic
import Model.CommitLog

namespace Router

abbrev Bytes := List UInt8
abbrev Cursor := Nat × Nat

/-- association list with HashMap-like insert (replace) / remove / get -/
def alookup {β} (k : String) : List (String × β) → Option β
  | [] => none
  | (k', v) :: r => if k' = k then some v else alookup k r

def aremove {β} (k : String) (l : List (String × β)) : List (String × β) :=
  l.filter (fun p => p.1 ≠ k)

def ainsert {β} (k : String) (v : β) (l : List (String × β)) : List (String × β) :=
  if (alookup k l).isSome then l.map (fun p => if p.1 = k then (k, v) else p) else l ++ [(k, v)]

def nlookup {β} (k : Nat) : List (Nat × β) → Option β
  | [] => none
  | (k', v) :: r => if k' = k then some v else nlookup k r

def ninsert {β} (k : Nat) (v : β) (l : List (Nat × β)) : List (Nat × β) :=
  if (nlookup k l).isSome then l.map (fun p => if p.1 = k then (k, v) else p) else l ++ [(k, v)]

/-- `slab::Slab`: vacant slots form a LIFO free list; a fresh key is `entries.length`. -/
structure Slab (α : Type) where
  entries : List (Option α) := []
  free : List Nat := []

namespace Slab
variable {α : Type}
def get? (s : Slab α) (k : Nat) : Option α := (s.entries[k]?).bind id
def len (s : Slab α) : Nat := (s.entries.filter Option.isSome).length
def insert (s : Slab α) (a : α) : Slab α × Nat :=
  match s.free with
  | [] => ({ entries := s.entries ++ [some a], free := [] }, s.entries.length)
  | k :: r => ({ entries := s.entries.set k (some a), free := r }, k)
def set (s : Slab α) (k : Nat) (a : α) : Slab α := { s with entries := s.entries.set k (some a) }
/-- `remove` (the caller checks occupancy first; removing a vacant key panics in Rust) -/
def remove (s : Slab α) (k : Nat) : Slab α := { entries := s.entries.set k none, free := k :: s.free }
end Slab

/-- PUBLISH as the router sees it (`Publish` + the `PublishProperties` fields it touches) -/
structure Pub where
  qos : Nat
  pkid : Nat
  retain : Bool
  dup : Bool
  topic : Bytes
  payload : Bytes
  alias : Option Nat := none
  subIds : List Nat := []
  hasProps : Bool := false
deriving Repr, DecidableEq, Inhabited

structure SubFilter where
  path : String
  qos : Nat
deriving Repr, DecidableEq

inductive Packet
  | publish (p : Pub)
  | subscribe (pkid : Nat) (subId : Option Nat) (filters : List SubFilter)
  | unsubscribe (pkid : Nat) (filters : List String)
  | puback (pkid : Nat)
  | pubrec (pkid : Nat)
  | pubrel (pkid : Nat) (hasProps : Bool)
  | pubcomp (pkid : Nat)
  | pingreq
  | disconnect
  | other              -- CONNECT, CONNACK, SUBACK, UNSUBACK, PINGRESP: ignored with a warning
deriving Repr, DecidableEq

inductive Ack
  | connack (id : Nat) (sessionPresent : Bool)
  | puback (pkid : Nat)
  | pubrec (pkid : Nat)
  | pubrel (pkid : Nat)
  | pubcomp (pkid : Nat)
  | suback (pkid : Nat) (codes : List Nat)
  | unsuback (pkid : Nat) (reasons : List Bool)   -- true = Success, false = NoSubscriptionExisted
  | pingresp
deriving Repr, DecidableEq

inductive Notif
  | forward (p : Pub) (cursor : Option Cursor)
  | ack (a : Ack)
  | unschedule
  | disconnect (reason : String)
  | shadow (topic payload : Bytes)
deriving Repr, DecidableEq

structure DataRequest where
  filter : String
  filterIdx : Nat
  qos : Nat
  cursor : Cursor
  forwardRetained : Bool
  group : Option String
deriving Repr, DecidableEq

inductive PauseReason | caughtup | inflightFull | busy
deriving Repr, DecidableEq

inductive Status | ready | paused (r : PauseReason)
deriving Repr, DecidableEq

inductive SchedReason | init | newFilter | freshData | incomingAck | ready
deriving Repr, DecidableEq

structure Tracker where
  id : String
  requests : List DataRequest := []
  status : Status := .paused .busy
deriving Repr

/-- outcome of `Tracker::try_ready`: `none` = debug_assert failed (dev profile panic) -/
def Tracker.tryReady (t : Tracker) (r : SchedReason) : Option (Tracker × Bool) :=
  match t.status with
  | .ready => some (t, false)
  | .paused p =>
    match r with
    | .init => if p = .busy then some ({ t with status := .ready }, true) else none
    | .newFilter => if p = .caughtup then some ({ t with status := .ready }, true) else some (t, false)
    | .freshData => if p = .caughtup then some ({ t with status := .ready }, true) else some (t, false)
    | .incomingAck => if p ≠ .busy then some ({ t with status := .ready }, true) else some (t, false)
    | .ready => if p = .busy then some ({ t with status := .ready }, true) else some (t, false)

structure AckLog where
  committed : List Ack := []
  recorded : List Pub := []
deriving Repr

/-- router-side `Outgoing` (the shared `data_buffer` and the wake channel live in `LinkBuf`) -/
structure Outgoing where
  inflight : List (Nat × Nat × Option Cursor) := []   -- (pkid, filter_idx, cursor)
  unackedPubrels : List Nat := []
  lastPkid : Nat := 0
deriving Repr

structure BrokerAliases where
  aliases : List (String × Nat) := []
  used : Slab Unit := {}
  max : Nat

structure Will where
  topic : Bytes
  payload : Bytes
  qos : Nat
  retain : Bool
deriving Repr, DecidableEq

/-- `Connection` + the four other per-connection slab entries (the five slabs are asserted
    to hand out the same key, so the model keeps one slab of this record). -/
structure Conn where
  clientId : String
  link : Nat                       -- which link's shared buffers this connection writes to
  clean : Bool
  dynamicFilters : Bool
  subscriptions : List String := []
  topicAliases : List (Nat × String) := []
  brokerAliases : Option BrokerAliases := none
  subscriptionIds : List (String × Nat) := []
  out : Outgoing := {}
  acks : AckLog := {}
  tracker : Tracker

/-- link side of a connection: the two shared buffers and the bounded wake-up channel -/
structure LinkBuf where
  ibuf : List Packet := []
  obuf : List Notif := []
  tokens : Nat := 0
deriving Repr

inductive Strategy | roundRobin | random | sticky
deriving Repr, DecidableEq

structure SharedGroup where
  clients : List String := []
  idx : Nat := 0
  cursor : Cursor
  strategy : Strategy
deriving Repr

structure PubData where
  pub : Pub
deriving Repr

structure FilterData where
  filter : String
  log : CLog.Log Pub
  waiters : List (Nat × DataRequest) := []

structure DataLog where
  native : List FilterData := []          -- slab without removals: index = filter_idx
  filterIndexes : List (String × Nat) := []
  retained : List (String × Pub) := []
  publishFilters : List (String × List Nat) := []

structure SessionState where
  tracker : Tracker
  subscriptions : List String
  unackedPubrels : List Nat

structure Config where
  maxConnections : Nat
  maxSegmentSize : Nat
  maxSegmentCount : Nat
  maxOutgoingPacketCount : Nat
  strategy : Strategy
deriving Repr

structure State where
  config : Config
  conns : Slab Conn := {}
  links : List LinkBuf := []
  graveyard : List (String × Option SessionState) := []
  connectionMap : List (String × Nat) := []
  subscriptionMap : List (String × List Nat) := []
  datalog : DataLog := {}
  readyqueue : List Nat := []
  notifications : List (Nat × DataRequest) := []
  shared : List (String × SharedGroup) := []
  lastWills : List (String × Will) := []

end Router
