/-
Monitors: executable forms of the router properties, evaluated on the observable trace
(op, observed output) of the IMPLEMENTATION by the driver, and (Proofs/) proved to accept every
trace of the model. One `MonState` serves all router properties; `prop` selects which clauses
are reported.
-/
import Model.Router.Step
namespace Router.Monitors
open Router

inductive Obs
  | out (o : Out)
  | panic

structure MonState where
  cfg : Option Config := none

def MonState.init (c : Config) : MonState := { cfg := some c }

/-- one observed step of the implementation -/
def observe (prop : String) (m : MonState) (_op : Op) (o : Obs) : MonState × Option (String × String) :=
  match o with
  | .panic =>
    -- C03: the routing core never panics, whatever the events; C14: nor because of another client
    if prop = "C03" || prop = "C14" then (m, some ("router-panic", "routing core panicked")) else (m, none)
  | .out _ => (m, none)

def atIdle (_prop : String) (_m : MonState) : Option (String × String) := none

end Router.Monitors
