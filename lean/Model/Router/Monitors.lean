/-
Monitors: executable forms of the router properties, evaluated by the driver on the observable
trace (op, observed output) of the IMPLEMENTATION, together with the ghost history of the model
(spec-level events: registered / removed / accepted / appended / subscribed / committed …),
which is trustworthy as long as model and implementation have agreed on every output so far.
A monitor failure is a concrete violation of a property by the implementation (the replay is
the op list of the case). Proofs/ show that the model's own traces are accepted.

One `MonState` serves all router properties; failures carry a tag whose prefix names the
property (`c01-…`, `c06-…`, …); `./check Cxx` reports the tags relevant to Cxx.
-/
import Model.Router.Step
namespace Router.Monitors
open Router

inductive Obs
  | out (o : Out)
  | panic
  | hang        -- the call into the routing core did not return (the harness's watchdog ended the run)

/-- one subscription as the spec sees it -/
structure Sub where
  path : String
  qos : Nat
  idx : Nat
  group : Option String
  start : Nat                 -- abs offset in the filter log at which it took effect / resumes
  closedAt : Option Nat := none  -- closed (unsubscribed / connection removed): only entries < closedAt may still arrive
  closedT : Nat := 0             -- op counter when it was closed
  replayOpen : Bool := false  -- C15: new non-shared subscription whose retained replay may still arrive
  since : Nat := 0            -- op counter when it took effect
  replayed : List String := []   -- topics whose retained message was replayed through this subscription
  replayDue : Bool := true        -- completeness of the replay is required (not after a session resume)
  lossy : Bool := false          -- resumed QoS 0 subscription: forwards read but not drained before the
                                 -- disconnect are lost (at most once), so the first forward may skip ahead
  regrant : Option Nat := none   -- a later SUBSCRIBE to the same filter asked for (and its SUBACK granted, see
                                 -- `c06-suback-codes`) another QoS than the one this subscription delivers with
deriving Repr

/-- forwarded QoS>0 entry awaiting the client's acknowledgement (C08 resume point, C09 window) -/
structure Pending where
  pkid : Nat
  subIx : Option Nat          -- attributed subscription (index into `subs`) when unambiguous
  abs : Option Nat
deriving Repr

structure LinkMon where
  clientId : String := ""
  clean : Bool := true
  connId : Option Nat := none
  live : Bool := false                   -- registered and not removed
  expectConnack : Bool := false
  subs : List Sub := []
  /-- alternative attributions: one pointer per subscription (next abs offset to deliver) -/
  configs : List (List Nat) := [[]]
  ambiguous : Bool := false              -- attribution space exceeded the cap: C01 checks off for this link
  expectAcks : List Ack := []            -- committed by the router for this connection, not yet seen (C06)
  window : List Nat := []                -- pkids of QoS>0 forwards seen and not yet acknowledged by the link (C09)
  pendingAcks : List Pending := []
  mayConnack : Bool := true
  maxWindow : Nat := 0
  replays : List (String × Nat) := []    -- (topic, qos) of the retained-flagged forwards seen (C15)
  /-- replies owed to this link by the property text alone, derived from what the LINK pushed (not
      from the model's account): (kind, packet id); removed when the reply is seen (C06) -/
  owed : List (String × Nat) := []
  /-- filters of the UNSUBSCRIBE packets the link pushed, by packet id, each with: did the session
      hold an open subscription to it when the packet was pushed (and no earlier UNSUBSCRIBE of it
      was still unanswered)? Then the answer must be Success (C01: an UNSUBACK that says "no such
      subscription" for a filter the session holds means the unsubscribe was ignored) -/
  unsubReqs : List (Nat × List (String × Bool)) := []
  /-- requested QoS per filter of the SUBSCRIBE packets the link pushed, by packet id; `none`
      when one of its filters is not acceptable (then the connection is closed instead) -/
  subReqs : List (Nat × Option (List Nat)) := []
deriving Repr

structure Saved where
  clientId : String
  subs : List Sub
  fuzzy : Bool := false        -- resume points not determined uniquely by what the link saw
deriving Repr

structure GroupMon where
  name : String
  idx : Nat
  delivered : List Nat := []
  maybe : List Nat := []      -- entries forwarded to a member that is also subscribed through another matching subscription
  stableFrom : Nat := 0
  fuzzy : Bool := false
  /-- entries delivered through the group before it last became empty (no live member left): the
      router then drops the group, and a resumed persistent session re-creates it at its own
      saved cursor -/
  earlier : List Nat := []
  emptiedAt : List Nat := []   -- op counters at which the group was found without a live member
  /-- (lo, hi): a persistent member left with unacknowledged entries, the oldest at `lo`, when the
      group had delivered up to `hi`: the router sets the group's cursor back to `lo` -/
  rewinds : List (Nat × Nat) := []
deriving Repr

structure MonState where
  cfg : Option Config := none
  t : Nat := 0
  links : List LinkMon := []
  hist : List (List Pub) := []           -- per filter index: every entry ever appended (abs = position)
  sessions : List Saved := []            -- persistent sessions of disconnected clients
  groups : List GroupMon := []
  retainedHist : List (String × Nat × Option Pub) := []   -- (topic, time, value) most recent last
  liveCount : Nat := 0
  spun : Bool := false
  advClients : List String := []        -- client ids of deliberately misbehaving clients (C14): nothing is promised to them
  heads : List (Nat × Nat) := []         -- (filter idx, abs offset of the oldest retained entry) after each eviction

def MonState.init (c : Config) : MonState := { cfg := some c }

abbrev Fail := Option (String × String)

def getL (m : MonState) (l : Nat) : LinkMon := m.links[l]?.getD {}
def setL (m : MonState) (l : Nat) (x : LinkMon) : MonState :=
  { m with links := if l < m.links.length then m.links.set l x
                    else m.links ++ List.replicate (l - m.links.length) {} ++ [x] }

def linkOfConn (m : MonState) (id : Nat) : Option Nat :=
  m.links.findIdx? (fun x => x.live && x.connId == some id)

def histOf (m : MonState) (idx : Nat) : List Pub := m.hist[idx]?.getD []

/-- does forward `f` carry entry `e` (topic may have been cleared when a broker alias is reused) -/
def sameMessage (f e : Pub) : Bool :=
  f.payload == e.payload && (f.topic == e.topic || (f.topic.isEmpty && f.alias.isSome))

def listSet {α} (l : List α) (i : Nat) (a : α) : List α := l.set i a

/-- the granted-QoS verdict is reported only when the attribution itself has nothing to report; the monitor
    state is the one the attribution computed either way (so that no other monitor is disturbed) -/
def withRegrant (rf : Option (String × String)) (r : α × Option (String × String)) : α × Option (String × String) :=
  match r.2, rf with
  | none, some _ => (r.1, rf)
  | _, _ => r

/-- first position `a ≥ start`, `a < bound`, whose entry carries forward `f` (`l` = the history from `start` on) -/
def findFrom (l : List Pub) (start bound : Nat) (f : Pub) : Option Nat :=
  match l with
  | [] => none
  | e :: rest => if start ≥ bound then none else if sameMessage f e then some start else findFrom rest (start + 1) bound f

/-- candidates for one configuration: (new configuration, sub index, abs offset) -/
def candidates (m : MonState) (lm : LinkMon) (cfg : List Nat) (f : Pub) : List (List Nat × Nat × Nat) :=
  (lm.subs.zipIdx).flatMap fun (s, i) =>
    let ptr := cfg[i]?.getD s.start
    if s.qos != f.qos then [] else
    let h := histOf m s.idx
    let bound := match s.closedAt with | some u => u | none => h.length
    let tryAt (p : Nat) : List (List Nat × Nat × Nat) :=
      if p < bound then
        match h[p]? with
        | some e => if sameMessage f e then [(listSet cfg i (p + 1), i, p)] else []
        | none => []
      else []
    let later : List (List Nat × Nat × Nat) :=
      match findFrom (h.drop ptr) ptr bound f with
      | some a => [(listSet cfg i (a + 1), i, a)]
      | none => []
    match s.group with
    | none =>
      -- the next entry, or (permitted loss) the oldest retained entry after an eviction that
      -- overtook this subscriber's cursor; every alternative is kept (payloads need not be unique)
      let jumps := (m.heads.filter (fun hd => hd.1 == s.idx && hd.2 > ptr)).flatMap (fun hd => tryAt hd.2)
      let cs := tryAt ptr ++ jumps
      -- a resumed QoS 0 subscription lost what was read but not drained before the disconnect:
      -- its first forward may be any later entry (every one that carries this message)
      if s.lossy then
        let laterAll := (((h.zipIdx).drop ptr).filter (fun (e, a) => a < bound && sameMessage f e)).map
          (fun (_, a) => (listSet cfg i (a + 1), i, a))
        cs ++ laterAll.filter (fun c => !cs.contains c)
      else cs
    | some _ => later   -- shared: any later entry, in increasing order per member

def dedup {α} [BEq α] (l : List α) : List α := l.foldl (fun acc x => if acc.contains x then acc else acc ++ [x]) []

def CAP : Nat := 48

/-- retained value of `topic` at time `t` according to the history -/
def retainedValuesSince (m : MonState) (topic : String) (since : Nat) : List Pub :=
  -- values set at or after `since`, plus the value in force at `since`
  let evs := m.retainedHist.filter (fun e => e.1 == topic)
  let before := (evs.filter (fun e => e.2.1 < since)).getLast?
  let after := evs.filter (fun e => e.2.1 ≥ since)
  ((match before with | some (_, _, some p) => [p] | _ => []) ++ after.filterMap (fun e => e.2.2))

def currentRetained (m : MonState) (topic : String) : Option Pub :=
  match ((m.retainedHist.filter (fun e => e.1 == topic)).getLast?) with
  | some (_, _, v) => v
  | none => none

def showBytes (b : Bytes) : String := String.ofList (b.map (fun x => Char.ofNat x.toNat))

/-- for failure reports: each subscription with its pointer and the entry it expects next -/
def describeSubs (m : MonState) (lm : LinkMon) : String :=
  let cfg := lm.configs.head?.getD []
  " ".intercalate ((lm.subs.zipIdx).map fun (s, i) =>
    let ptr := cfg[i]?.getD s.start
    let h := histOf m s.idx
    let nxt := match h[ptr]? with | some e => showBytes e.payload | none => "-"
    s!"[{s.path} q{s.qos} idx{s.idx} ptr={ptr}/{h.length} next={nxt} closed={repr s.closedAt} cfgs={lm.configs.length}]")

/-- one forward observed on link `l` -/
def observeForward (m : MonState) (l : Nat) (f : Pub) : MonState × Fail :=
  let lm := getL m l
  -- C09: window bound and id uniqueness, from the link's point of view
  let (lm, f9) : LinkMon × Fail :=
    if f.qos = 0 then (lm, none) else
    if f.pkid = 0 then (lm, some ("c09-zero-pkid", "QoS>0 forward with packet id 0"))
    else if lm.window.contains f.pkid then
      (lm, some ("c09-duplicate-pkid", s!"packet id {f.pkid} is still unacknowledged on this connection"))
    else if lm.window.length + 1 > 100 then
      ({ lm with window := lm.window ++ [f.pkid] }, some ("c09-window-exceeded", s!"{lm.window.length + 1} unacknowledged QoS>0 publishes"))
    else ({ lm with window := lm.window ++ [f.pkid], maxWindow := max lm.maxWindow (lm.window.length + 1) }, none)
  if f9.isSome then (setL m l lm, f9) else
  if f.retain && f.payload.isEmpty then
    -- a retained message never has an empty payload (an empty retained publish clears the topic)
    (setL m l lm, some ("c15-retained-unexpected", "retained-flagged forward with an empty payload: an empty retained publish must clear the topic, not be stored or replayed"))
  else
  if f.retain then
    -- C15: a retained-flagged forward must be the replay of a new non-shared subscription
    match utf8? f.topic with
    | none => (setL m l lm, some ("c15-retained-unexpected", "retained-flagged forward with a non-UTF-8 topic"))
    | some topic =>
      -- attribution-free: at most one replay of `topic` per eligible subscription
      let eligible := lm.subs.filter fun s =>
        s.replayOpen && s.qos == f.qos && topicMatches topic s.path &&
          (retainedValuesSince m topic s.since).any (fun v => v.payload == f.payload)
      let seen := (lm.replays.filter (fun r => r.1 == topic && r.2 == f.qos)).length
      let lm := if f.qos = 0 then lm else { lm with pendingAcks := lm.pendingAcks ++ [{ pkid := f.pkid, subIx := none, abs := none }] }
      let lm := { lm with replays := lm.replays ++ [(topic, f.qos)] }
      if seen < eligible.length then (setL m l lm, none)
      else (setL m l lm, some ("c15-retained-unexpected",
        s!"retained-flagged forward on topic {topic} is not the replay of a new non-shared subscription with the retained value ({seen} replays seen, {eligible.length} eligible subscriptions)"))
  else
  if lm.ambiguous then
    let lm := if f.qos = 0 then lm else { lm with pendingAcks := lm.pendingAcks ++ [{ pkid := f.pkid, subIx := none, abs := none }] }
    (setL m l lm, none) else
  let cands := lm.configs.flatMap (fun cfg => candidates m lm cfg f)
  if cands.isEmpty then
    -- an entry this member already received through one of its shared subscriptions?
    let cfg0 := lm.configs.head?.getD []
    let again := (lm.subs.zipIdx).any fun (s, i) =>
      s.group.isSome && s.qos == f.qos &&
        (((histOf m s.idx).take (cfg0[i]?.getD s.start)).any (fun e => sameMessage f e))
    -- ... unless the group's cursor may have been set back for a reason the link's view cannot
    -- pin down (a persistent member left with unacknowledged forwards of ambiguous attribution)
    let fuzzyGroup := (lm.subs.zipIdx).any fun (s, i) =>
      s.group.isSome && s.qos == f.qos &&
        (((histOf m s.idx).take (cfg0[i]?.getD s.start)).any (fun e => sameMessage f e)) &&
        m.groups.any (fun gm => some gm.name == s.group && gm.idx == s.idx && gm.fuzzy)
    if again && fuzzyGroup then (setL m l lm, none) else
    if again then
      let rewound := (lm.subs.zipIdx).any fun (s, i) =>
        s.group.isSome && s.qos == f.qos &&
          (((histOf m s.idx).zipIdx.take (cfg0[i]?.getD s.start)).any (fun (e, k) => sameMessage f e &&
            m.groups.any (fun gm => some gm.name == s.group && gm.idx == s.idx && (gm.rewinds.any (fun r => r.1 ≤ k && k ≤ r.2) || !gm.rewinds.isEmpty))))
      let why := if rewound then " (forwarded again after the group's cursor was set back to the oldest unacknowledged entry of a persistent member that left)" else ""
      (setL m l lm, some ("c17-delivered-twice",
        s!"payload {showBytes f.payload} (qos {f.qos}, pkid {f.pkid}) was already forwarded to this member through its shared subscription{why}"))
    else
    (setL m l lm, some ("c01-unexpected-forward",
      s!"forward qos={f.qos} payload={String.ofList (f.payload.map (fun b => Char.ofNat b.toNat))} is not the next undelivered message of any subscription of this connection (no match, out of order, duplicate or gap); subscriptions: {describeSubs m lm}; positions: {lm.subs.map (fun s => ((histOf m s.idx).zipIdx.filterMap (fun (e, k) => if sameMessage f e then some k else none), (m.heads.filter (fun hd => hd.1 == s.idx)).map (fun hd => (hd.2, match (histOf m s.idx)[hd.2]? with | some e => showBytes e.payload | none => "?"))))}"))
  else
    let cfgs := dedup (cands.map (·.1))
    let picks := dedup (cands.map (fun c => (c.2.1, c.2.2)))
    let unique := picks.length == 1
    let (si, ab) := match picks.head? with | some p => (some p.1, some p.2) | none => (none, none)
    let lm := if f.qos = 0 then lm else
      { lm with pendingAcks := lm.pendingAcks ++
          [{ pkid := f.pkid, subIx := if unique then si else none, abs := if unique then ab else none }] }
    let lm := if cfgs.length > CAP then { lm with ambiguous := true, configs := cfgs.take 1 } else { lm with configs := cfgs }
    let lm := match si with
      | some i => if unique then { lm with subs := (lm.subs.zipIdx).map (fun (s, j) => if j == i then { s with lossy := false } else s) } else lm
      | none => lm
    let m := setL m l lm
    -- C01: delivered with the QoS the latest SUBACK for that filter granted
    let regrantFail : Fail := match (if unique then si else none) with
      | some i => (match lm.subs[i]? with
        | some s => (match s.regrant with
          | some q' => some ("granted-qos-c01", s!"forward qos={f.qos} pkid={f.pkid} payload={showBytes f.payload} came through subscription {s.path} which delivers with QoS {s.qos}, but the latest SUBSCRIBE to that filter was granted QoS {q'} (re-subscription with another QoS updates the SUBACK, not the tracked request)")
          | none => none)
        | none => none)
      | none => none
    withRegrant regrantFail <|
    -- C17: through a group every entry goes to at most one member, never twice
    if !unique then
      -- the forward belongs to one of several subscriptions: every candidate group may have delivered it
      let marks := picks.filterMap (fun (i', a') => match lm.subs[i']? with
        | some s' => s'.group.map (fun g' => (g', s'.idx, a'))
        | none => none)
      ({ m with groups := m.groups.map (fun gm =>
           match marks.find? (fun mk => mk.1 == gm.name && mk.2.1 == gm.idx) with
           | some mk => { gm with maybe := gm.maybe ++ [mk.2.2] }
           | none => gm) }, none)
    else
    match si, ab with
    | some i, some a =>
      match lm.subs[i]? with
      | some s =>
        -- the attribution is only as good as the pointers of the link's OTHER subscriptions: when
        -- another subscription of the same QoS also holds this message in its log, the forward may
        -- have come through that one (its pointer can lag after an earlier ambiguity): then the
        -- group delivery is only "maybe"
        let overlap := (lm.subs.zipIdx).any (fun (s', j) => j != i && s'.qos == f.qos && s'.closedAt.isNone &&
          (histOf m s'.idx).any (fun e => sameMessage f e))
        if overlap && s.group.isSome then
          ({ m with groups := m.groups.map (fun x => if some x.name == s.group && x.idx == s.idx then { x with maybe := x.maybe ++ [a] } else x) }, none)
        else
        match s.group with
        | some g =>
          match m.groups.find? (fun gm => gm.name == g && gm.idx == s.idx) with
          | some gm =>
            if f.payload.isEmpty then
              -- empty payloads are not unique: the entry is only known to be one of the empty ones
              ({ m with groups := m.groups.map (fun x => if x.name == g && x.idx == s.idx then
                  { x with maybe := x.maybe ++ ((histOf m s.idx).zipIdx.filterMap (fun (e, k) => if e.payload.isEmpty then some k else none)) } else x) }, none)
            else
            -- a QoS>0 forward read from the buffer of a persistent member whose connection has
            -- already ended: unacknowledged by construction, the router hands the entry out again
            -- (C08 over C17); it is neither the first nor a second delivery
            if !lm.live && !lm.clean && f.qos != 0 then (m, none) else
            -- a forward drained late through a subscription that ended before the group emptied
            -- belongs to the earlier epoch, whichever of the two deliveries is seen first
            let lateOfEarlierEpoch := s.closedAt.isSome && gm.emptiedAt.any (· ≥ s.closedT)
            if (gm.earlier.contains a || (lateOfEarlierEpoch && gm.delivered.contains a)) && !gm.fuzzy then
              (m, some ("c17-delivered-twice", s!"entry {a} (payload {showBytes f.payload}, qos {f.qos}, pkid {f.pkid}) of group {g} was already forwarded to a member before the group emptied; the group re-created by a resumed session starts at that session's saved cursor"))
            else
            if gm.delivered.contains a && !gm.fuzzy then
              let why := if !gm.rewinds.isEmpty
                then " (forwarded again after the group's cursor was set back to the oldest unacknowledged entry of a persistent member that left)" else ""
              (m, some ("c17-delivered-twice", s!"entry {a} (payload {showBytes f.payload}, qos {f.qos}, pkid {f.pkid}) of group {g} was already forwarded to a member{why}"))
            else
              ({ m with groups := m.groups.map (fun x => if x.name == g && x.idx == s.idx then { x with delivered := x.delivered ++ [a] } else x) }, none)
          | none => (m, none)
        | none => (m, none)
      | none => (m, none)
    | _, _ => (m, none)

/-- one ack notification observed on link `l` (C06: exactly the committed acks, in order) -/
def observeAck (m : MonState) (l : Nat) (a : Ack) : MonState × Fail :=
  let lm := getL m l
  if m.advClients.contains lm.clientId && lm.clientId != "" then
    (setL m l { lm with expectAcks := lm.expectAcks.drop 1 }, none) else
  match a with
  | .connack id sp =>
    -- C08 / C19: a CONNACK only for a registered session, with the right session-present flag
    match lm.expectAcks with
    | .connack id' sp' :: rest =>
      if id = id' && sp = sp' then (setL m l { lm with expectAcks := rest }, none)
      else (setL m l { lm with expectAcks := rest },
            some (if sp != sp' then "c08-session-present" else "c06-ack-mismatch",
                  s!"CONNACK id={id} session_present={sp}, expected id={id'} session_present={sp'}"))
    | _ => (m, some ("c19-unexpected-connack", "CONNACK on a link whose CONNECT must not create a session (or a second CONNACK)"))
  | _ =>
    match lm.expectAcks with
    | e :: rest =>
      if e == a then (setL m l { lm with expectAcks := rest }, none)
      else (setL m l { lm with expectAcks := rest }, some ("c06-ack-mismatch", s!"got {repr a}, the next reply owed to this client is {repr e}"))
    | [] => (m, some ("c06-ack-unexpected", s!"got {repr a} but no reply is owed to this client"))

def ackKey : Ack → Option (String × Nat)
  | .puback pk => some ("puback", pk)
  | .pubrec pk => some ("pubrec", pk)
  | .pubcomp pk => some ("pubcomp", pk)
  | .suback pk _ => some ("suback", pk)
  | .unsuback pk _ => some ("unsuback", pk)
  | .pingresp => some ("pingresp", 0)
  | _ => none

/-- link-side bookkeeping of a reply that arrived, and the one check on its content that does not
    go through the model: UNSUBACK "no subscription existed" for a filter the session holds -/
def noteReply (m : MonState) (l : Nat) (a : Ack) : MonState × Fail :=
  let lm := getL m l
  let lm := match ackKey a with
    | some k => { lm with owed := lm.owed.eraseP (· == k) }
    | none => lm
  match a with
  | .unsuback pk reasons =>
    let fs := (lm.unsubReqs.find? (·.1 == pk)).map (·.2) |>.getD []
    let lm := { lm with unsubReqs := lm.unsubReqs.filter (·.1 != pk) }
    let ignored := (fs.zip reasons).find? (fun (f, ok) => !ok && f.2)
    (setL m l lm, match ignored with
      | some ((f, _), _) => some ("c01-unsubscribe-ignored", s!"UNSUBACK {pk} reports that no subscription to {f} existed, but the session holds one and it stays in force")
      | none => none)
  | .suback pk codes =>
    -- the broker grants what was asked for: one return code per filter, in order
    let req := (lm.subReqs.find? (·.1 == pk)).bind (·.2)
    let lm := { lm with subReqs := lm.subReqs.filter (·.1 != pk) }
    (setL m l lm, match req with
      | some qs => if codes == qs then none else
          some ("c06-suback-codes", s!"SUBACK {pk} carries {codes}, the SUBSCRIBE asked for {qs} (one granted QoS per filter, in order)")
      | none => none)
  | _ => (setL m l lm, none)

def observeNotif (m : MonState) (l : Nat) (n : Notif) : MonState × Fail :=
  match n with
  | .forward p _ => observeForward m l p
  | .ack a =>
    let (m, f) := observeAck m l a
    let (m, f') := noteReply m l a
    (m, if f.isSome then f else f')
  | _ => (m, none)

def observeNotifs (m : MonState) (l : Nat) : List Notif → Fail → MonState × Fail
  | [], f => (m, f)
  | n :: rest, f =>
    let (m, f') := observeNotif m l n
    observeNotifs m l rest (if f.isSome then f else f')

/-- the link pushes an acknowledgement: the head of its window is released (in-order acks) -/
def linkPushes (m : MonState) (l : Nat) (p : Packet) : MonState :=
  let lm := getL m l
  match p with
  | .puback pk => setL m l { lm with window := lm.window.filter (· != pk) }
  | .pubrec pk => setL m l { lm with window := lm.window.filter (· != pk) }
  | .publish pb =>
    if pb.qos == 1 then setL m l { lm with owed := lm.owed ++ [("puback", pb.pkid)] }
    else if pb.qos == 2 then setL m l { lm with owed := lm.owed ++ [("pubrec", pb.pkid)] }
    else m
  | .pubrel pk _ => setL m l { lm with owed := lm.owed ++ [("pubcomp", pk)] }
  | .subscribe pk subId fs =>
    let ok := fs.all (fun f => validSubscription f.path) && subId != some 0
    setL m l { lm with owed := lm.owed ++ [("suback", pk)], subReqs := lm.subReqs ++ [(pk, if ok then some (fs.map (·.qos)) else none)] }
  | .unsubscribe pk fs =>
    let pendingUnsub (f : String) := lm.unsubReqs.any (fun r => r.2.any (fun x => x.1 == f && x.2))
    let marked := fs.foldl (fun (acc : List (String × Bool)) f =>
      acc ++ [(f, lm.subs.any (fun s => s.path == f && s.closedAt.isNone) && !pendingUnsub f && !acc.any (fun x => x.1 == f))]) []
    setL m l { lm with owed := lm.owed ++ [("unsuback", pk)], unsubReqs := lm.unsubReqs ++ [(pk, marked)] }
  | .pingreq => setL m l { lm with owed := lm.owed ++ [("pingresp", 0)] }
  | _ => m

/-! ### ghost events -/

def closeSubs (subs : List Sub) (m : MonState) : List Sub :=
  -- a replay produced before the subscription ended may still sit in the link's buffer
  subs.map (fun s => match s.closedAt with | some _ => s | none => { s with closedAt := some (histOf m s.idx).length, closedT := m.t })

/-- resume points of a persistent session: for every subscription, the oldest forwarded and
    unacknowledged QoS>0 entry if any, else where it stopped -/
def resumeSubs (lm : LinkMon) : List Sub :=
  let cfg := lm.configs.head?.getD []
  (lm.subs.zipIdx).filterMap fun (s, i) =>
    match s.closedAt with
    | some _ => none
    | none =>
      let ptr := cfg[i]?.getD s.start
      let unacked := lm.pendingAcks.filterMap (fun p => if p.subIx == some i then p.abs else none)
      let resume := match unacked.head? with | some a => min a ptr | none => ptr
      some { s with start := resume, replayDue := false, lossy := s.qos == 0 }

def touchGroups (m : MonState) (client : String) : MonState :=
  -- any membership-affecting event restarts the completeness window of every group
  let _ := client
  { m with groups := m.groups.map (fun g => { g with stableFrom := (histOf m g.idx).length }) }

def applyGhost (m : MonState) (g : Ghost) : MonState × Fail :=
  match g with
  | .registered id link clientId clean sp =>
    let lm : LinkMon := { clientId, clean, connId := some id, live := true }
    -- persistent session resumed: subscriptions continue at their resume points
    let (subs, sessions, fuzzy) :=
      if clean then ([], m.sessions.filter (·.clientId != clientId), false)
      else match m.sessions.find? (·.clientId == clientId) with
        | some sv => (sv.subs, m.sessions.filter (·.clientId != clientId), sv.fuzzy)
        | none => ([], m.sessions, false)
    let adv := m.advClients.contains clientId
    let lm := { lm with subs := subs, configs := [subs.map (·.start)], ambiguous := fuzzy || adv }
    let m := { m with sessions := sessions, liveCount := m.liveCount + 1 }
    let m := touchGroups m clientId
    let maxc := match m.cfg with | some c => c.maxConnections | none => 0
    let f : Fail := if m.liveCount > maxc then some ("c19-over-limit", s!"{m.liveCount} live connections, limit {maxc}") else none
    let dup := (m.links.zipIdx).any (fun (x, i) => i != link && x.live && x.clientId == clientId)
    let f := if f.isNone && dup then some ("c19-two-sessions", s!"two live connections for client id {clientId}") else f
    let _ := sp
    (setL m link lm, f)
  | .notRegistered link =>
    (setL m link { clientId := "", live := false, mayConnack := false }, none)
  | .removed id clientId clean =>
    match linkOfConn m id with
    | none => (m, none)
    | some l =>
      let lm := getL m l
      let openSubs := lm.subs.filter (·.closedAt.isNone)
      -- two subscriptions of this connection on one log, one of which may already have ended
      -- (its unacknowledged forwards stay in the window): recorded conflation finding, the resume
      -- points of such a session cannot be told from the link's view
      let sharedIdx := openSubs.any (fun s => (openSubs.filter (fun s' => s'.idx == s.idx)).length > 1 ||
        lm.subs.any (fun s' => s'.idx == s.idx && s'.path != s.path))
      let fuzzy := lm.ambiguous || lm.configs.length != 1 || lm.pendingAcks.any (fun p => p.subIx.isNone) || sharedIdx
      let m := if clean then { m with sessions := m.sessions.filter (·.clientId != clientId) }
               else { m with sessions := m.sessions.filter (·.clientId != clientId) ++ [{ clientId, subs := resumeSubs lm, fuzzy }] }
      -- C08 over C17: unacknowledged QoS>0 entries of a persistent member are handed out again
      let retract : List (String × Nat × Nat) := if clean then [] else lm.pendingAcks.filterMap (fun p =>
        match p.subIx, p.abs with
        | some i, some a => match lm.subs[i]? with
          | some s => s.group.map (fun g => (g, s.idx, a))
          | none => none
        | _, _ => none)
      let unknown := !clean && lm.pendingAcks.any (fun p => p.subIx.isNone)
      let m := { m with groups := m.groups.map (fun g =>
        let mine := lm.subs.any (fun s => s.group == some g.name && s.idx == g.idx)
        if !mine then g else
        -- the router sets the group's cursor back to the member's oldest unacknowledged QoS>0
        -- forward of this log, drained by the link or still in its buffer (the link's view
        -- cannot tell where that is): every entry that exists now may be handed out again
        -- (the window entry records the log, not the subscription: an unacknowledged forward of
        -- ANY of the member's QoS>0 subscriptions reading this log rewinds this group too)
        let qosMember := !clean && (lm.subs.any (fun s => s.idx == g.idx && s.closedAt.isNone && s.qos != 0) ||
          -- ... or of an ENDED subscription on this log whose forwards are still unacknowledged
          lm.pendingAcks.any (fun p => match p.subIx with
            | some i => (match lm.subs[i]? with | some s => s.idx == g.idx | none => true)
            | none => true))
        let g := if qosMember then { g with rewinds := g.rewinds ++ [(0, (histOf m g.idx).length)] } else g
        let g := { g with delivered := g.delivered.filter (fun a => !retract.any (fun r => r.1 == g.name && r.2.1 == g.idx && r.2.2 == a)) }
        if unknown then { g with fuzzy := true } else g) }
      -- replies already flushed to the link's buffer may still be drained afterwards
      let lm := { lm with live := false, subs := closeSubs lm.subs m }
      let m := touchGroups m clientId
      (setL { m with liveCount := m.liveCount - 1 } l lm, none)
  | .accepted _ p topic =>
    if p.retain then
      let v := if p.payload.isEmpty then none else some p
      ({ m with retainedHist := m.retainedHist ++ [(topic, m.t, v)] }, none)
    else (m, none)
  | .appended idx _ p =>
    let hist := if idx < m.hist.length then m.hist else m.hist ++ List.replicate (idx + 1 - m.hist.length) []
    ({ m with hist := hist.set idx ((hist[idx]?.getD []) ++ [p]) }, none)
  | .evicted idx headAbs =>
    -- permitted loss: a cursor behind the new head jumps to it at its next read
    ({ m with heads := m.heads ++ [(idx, headAbs)],
              groups := m.groups.map (fun g => if g.idx == idx then { g with fuzzy := true } else g) }, none)
  | .subscribed id path qos idx cursor group isNew =>
    match linkOfConn m id with
    | none => (m, none)
    | some l =>
      let lm := getL m l
      let m := match group with
        | some g => if m.groups.any (fun x => x.name == g && x.idx == idx) then touchGroups m lm.clientId
                    else touchGroups { m with groups := m.groups ++ [{ name := g, idx }] } lm.clientId
        | none => m
      if !isNew then
        -- C01 "the subscription's granted QoS": the latest SUBSCRIBE to a filter decides what was granted
        let subs := lm.subs.map (fun s => if s.path == path && s.group == group && s.closedAt.isNone
          then { s with regrant := if s.qos == qos then none else some qos } else s)
        (setL m l { lm with subs := subs }, none) else
      -- a member may be handed any entry the group has not delivered yet (the group's cursor,
      -- not the member's, decides), in increasing order per member
      let start := if group.isSome then 0 else cursor.2
      let s : Sub := { path, qos, idx, group, start, replayOpen := group.isNone, since := m.t }
      let lm := { lm with subs := lm.subs ++ [s], configs := lm.configs.map (· ++ [start]) }
      (setL m l lm, none)
  | .unsubscribed id path =>
    match linkOfConn m id with
    | none => (m, none)
    | some l =>
      let lm := getL m l
      let subs := lm.subs.map (fun s => if s.path == path && s.closedAt.isNone then { s with closedAt := some (histOf m s.idx).length, closedT := m.t } else s)
      (touchGroups (setL m l { lm with subs := subs }) lm.clientId, none)
  | .committed id a =>
    match linkOfConn m id with
    | none => (m, none)
    | some l => let lm := getL m l; (setL m l { lm with expectAcks := lm.expectAcks ++ [a] }, none)
  | .clientAcked id pkid =>
    match linkOfConn m id with
    | none => (m, none)
    | some l =>
      let lm := getL m l
      -- the router accepted an acknowledgement for a publish that still sits undrained in the
      -- link's buffer: a client that acknowledges what it has not read is not one the delivery
      -- promises are made to (what it "has received" is no longer what it read)
      if !lm.pendingAcks.any (·.pkid == pkid) then
        let m := { m with advClients := if m.advClients.contains lm.clientId || lm.clientId == "" then m.advClients else m.advClients ++ [lm.clientId] }
        (setL m l { lm with ambiguous := true }, none)
      else
      (setL m l { lm with pendingAcks := lm.pendingAcks.filter (·.pkid != pkid) }, none)
  | .restored id reqs =>
    -- C08: the session resumes at the oldest unacknowledged QoS>0 message of each subscription
    match linkOfConn m id with
    | none => (m, none)
    | some l =>
      let lm := getL m l
      if lm.ambiguous then (m, none) else
      let bad := lm.subs.find? (fun s => s.group.isNone && s.closedAt.isNone && s.qos != 0 &&
        (reqs.any (fun r => r.filter == s.path && r.cursor.2 != s.start &&
          -- a cursor behind the retained head is moved forward by the read itself
          !(r.cursor.2 < s.start && (histOf m s.idx).length ≥ s.start) &&
          -- entries the link never saw were evicted before the router read them: the window's
          -- oldest entry then sits at a position that was the head of the log after an eviction
          !(r.cursor.2 > s.start && m.heads.any (fun hd => hd.1 == s.idx && hd.2 == r.cursor.2)))))
      match bad with
      | some s => (m, some ("c08-resume-point", s!"subscription {s.path} resumes at a different point than the oldest unacknowledged message ({s.start})"))
      | none =>
        if lm.subs.any (fun s => s.closedAt.isNone && !reqs.any (fun r => r.filter == s.path)) then
          (m, some ("c08-subscription-lost", "a subscription of the persistent session has no data request after resume"))
        else (m, none)
  | .willSet _ => (m, none)
  | .willCleared _ => (m, none)
  | .willFired _ => (m, none)

/-- a group without a live member starts a new epoch: what it delivered so far is remembered apart -/
def noteEmptyGroups (m : MonState) : MonState :=
  { m with groups := m.groups.map (fun g =>
      let member := m.links.any (fun lm => lm.live && lm.subs.any (fun s => s.group == some g.name && s.idx == g.idx && s.closedAt.isNone))
      if member then g
      else if g.delivered.isEmpty then (if g.emptiedAt.getLast? == some m.t then g else { g with emptiedAt := g.emptiedAt ++ [m.t] })
      else { g with earlier := g.earlier ++ g.delivered, delivered := [], emptiedAt := g.emptiedAt ++ [m.t] }) }

def applyGhosts (m : MonState) : List Ghost → Fail → MonState × Fail
  | [], f => (m, f)
  | g :: rest, f =>
    let (m, f') := applyGhost m g
    applyGhosts (noteEmptyGroups m) rest (if f.isSome then f else f')

/-- `note adv <L>`: the client of link `l` misbehaves on purpose from now on -/
def markAdversary (m : MonState) (l : Nat) : MonState :=
  let lm := getL m l
  if lm.clientId == "" then m else
  setL { m with advClients := if m.advClients.contains lm.clientId then m.advClients else m.advClients ++ [lm.clientId] } l
    { lm with ambiguous := true }

/-- which tags count as a violation of which property -/
def relevant (prop tag : String) : Bool :=
  let pre (p : String) := tag.startsWith p
  if prop == "C01" then pre "c01-" || tag == "granted-qos-c01"
  else if prop == "C03" then pre "c03-" || tag == "router-panic" || tag == "router-halt"
  else if prop == "C06" then pre "c06-"
  else if prop == "C08" then pre "c08-" || pre "c01-"
  else if prop == "C09" then pre "c09-" || pre "c01-" || pre "c06-" || tag == "router-panic" || tag == "router-halt"
  else if prop == "C14" then pre "c14-" || pre "c01-" || pre "c06-" || tag == "router-panic" || tag == "router-halt"
  else if prop == "C15" then pre "c15-"
  else if prop == "C16" then pre "c16-" || pre "c01-"
  else if prop == "C17" then pre "c17-" || tag == "router-panic" || tag == "router-halt"
  else if prop == "C19" then pre "c19-" || tag == "c03-not-serving"
  else if prop == "C20" then pre "c20-" || pre "c01-"
  else true

def filt (prop : String) (f : Fail) : Fail :=
  match f with
  | some (t, d) => if relevant prop t then some (t, d) else none
  | none => none

/-- one step: the op, what the implementation showed, and the model's new ghost events -/
def observe (prop : String) (m : MonState) (op : Op) (o : Obs) (ghosts : List Ghost)
    (behalf : Option Nat := none) : MonState × Fail :=
  let m := { m with t := m.t + 1 }
  match o with
  | .panic => (m, filt prop (some ("router-panic", "the routing core panicked")))
  | .hang => (m, filt prop (some ("router-halt", "the routing core did not return from this call: it has stopped serving every connection")))
  | .out out =>
    -- link-side effects first (what the link did / saw), then what the router did
    let (m, f1) : MonState × Fail :=
      match op, out with
      | .drain l, .drained _ ns => observeNotifs m l ns none
      | .push l p, _ => (linkPushes m l p, none)
      | .connect _, _ =>
        -- the link's monitor state is replaced by the `registered` / `notRegistered` ghost event,
        -- after a possible `removed` event of the connection it takes over (which may be the
        -- previous connection of the very same link number)
        (m, none)
      | _, _ => (m, none)
    -- C14 (last sentence): a signal sent on behalf of a connection that has ended (link `behalf`)
    -- must not act on the connection that now owns the slot id
    let f0 : Fail := match op, behalf with
      | .event id .disconnect, some l =>
        match linkOfConn m id with
        | some owner =>
          if owner != l && ghosts.any (fun g => match g with | .removed id' _ _ => id' == id | _ => false) then
            some ("c14-stale-signal-acted", s!"Disconnect of the ended connection of link {l} removed the later connection of link {owner} that reuses slot id {id}")
          else none
        | none => none
      | _, _ => none
    let (m, f2) := applyGhosts m ghosts none
    (m, filt prop (if f0.isSome then f0 else if f1.isSome then f1 else f2))

/-- checks that need no state at all: evaluated on the implementation's outputs even after the
    model has stopped (a panic on both sides, or an oracle choice the model cannot follow) -/
def stateless (prop : String) (op : Op) (o : Obs) : Fail :=
  match op, o with
  | .drain _, .out (.drained _ ns) =>
    filt prop (ns.findSome? fun n => match n with
      | .forward p _ =>
        if p.retain && p.payload.isEmpty then
          some ("c15-retained-unexpected", "retained-flagged forward with an empty payload: an empty retained publish must clear the topic, not be stored or replayed")
        else if p.qos != 0 && p.pkid == 0 then some ("c09-zero-pkid", "QoS>0 forward with packet id 0")
        else none
      | _ => none)
  | _, .panic => filt prop (some ("router-panic", "the routing core panicked"))
  | _, .hang => filt prop (some ("router-halt", "the routing core did not return from this call: it has stopped serving every connection"))
  | _, _ => none

/-- checks at a point where the harness drove the router to idle and every client acknowledged -/
def atIdle (prop : String) (m : MonState) : Fail :=
  -- C06: nothing owed (checked for every live link, independently of the delivery checks below)
  let ackFails : List (String × String) := (m.links.zipIdx).filterMap fun (lm, l) =>
    if !lm.live || m.advClients.contains lm.clientId then none else
    if !lm.expectAcks.isEmpty then
      some ((match lm.expectAcks.head? with | some (.connack _ _) => "c03-not-serving" | _ => "c06-ack-missing"),
            s!"link {l}: {lm.expectAcks.length} replies still owed at idle, first {repr (lm.expectAcks.head?)}")
    else if !lm.owed.isEmpty && !lm.ambiguous then
      -- by the link's own account (what it sent, what came back), whatever the model committed
      some ("c06-request-unanswered", s!"link {l}: no reply to {repr (lm.owed.head?)} (and {lm.owed.length - 1} more) although the connection is still up and the broker is idle")
    else none
  let fails : List (String × String) := (m.links.zipIdx).filterMap fun (lm, l) =>
    if !lm.live || m.advClients.contains lm.clientId then none else
    if lm.ambiguous then none
    else
      -- C01: some attribution has every open non-shared subscription caught up
      let done (cfg : List Nat) : Bool := (lm.subs.zipIdx).all fun (s, i) =>
        s.closedAt.isSome || s.group.isSome || s.lossy || (cfg[i]?.getD s.start) ≥ (histOf m s.idx).length
      if !lm.configs.any done then
        some ("c01-undelivered-at-idle", s!"link {l} ({lm.clientId}): a subscription has undelivered matching messages although the broker is idle; subscriptions: {describeSubs m lm}")
      else
        -- C15: a new non-shared subscription got the retained message of every matching topic
        let topics := dedup (m.retainedHist.map (·.1))
        let maxOut := match m.cfg with | some c => c.maxOutgoingPacketCount | none => 0
        let dueFor (s : Sub) (t : String) : Bool :=
          s.replayOpen && s.replayDue && s.closedAt.isNone && topicMatches t s.path &&
          -- retained when the subscription took effect and never cleared since
          (match ((m.retainedHist.filter (fun e => e.1 == t && e.2.1 < s.since)).getLast?) with
           | some (_, _, some _) => true | _ => false) &&
          !(m.retainedHist.any (fun e => e.1 == t && e.2.1 ≥ s.since && e.2.2.isNone)) &&
          -- the replay is truncated to the free window: only demand completeness when even the
          -- largest possible replay set (every matching topic that ever had a retained message) fits
          (let upper := (topics.filter (fun t' => topicMatches t' s.path)).length
           if s.qos == 0 then upper ≤ maxOut else lm.maxWindow + upper ≤ 100)
        let miss := topics.findSome? fun t =>
          [0, 1, 2].findSome? fun q =>
            let demanded := (lm.subs.filter (fun s => s.qos == q && dueFor s t)).length
            let seen := (lm.replays.filter (fun r => r.1 == t && r.2 == q)).length
            if seen < demanded then some (s!"qos {q}: {seen} of {demanded}", t) else none
        match miss with
        | some (what, t) => some ("c15-replay-missing", s!"link {l}: the retained message of topic {t} was replayed to fewer new subscriptions than it is due ({what}); subs: {lm.subs.map (fun s => (s.path, s.qos, s.replayOpen, s.since))} maxWindow={lm.maxWindow}")
        | none => none
  let gfails : List (String × String) := m.groups.filterMap fun g =>
    if g.fuzzy then none else
    -- after the group's cursor was set back (recorded finding) entries are handed out a second
    -- time and out of order: which subscription of a member a forward belongs to can no longer be
    -- told from the link's view, so completeness of such a group is not judged
    if !g.rewinds.isEmpty then none else
    let members := m.links.filter (fun lm => lm.live && lm.subs.any (fun s => s.group == some g.name && s.idx == g.idx && s.closedAt.isNone))
    if members.isEmpty then none else
    -- a member whose attribution was abandoned (too many alternatives) hides its deliveries
    if m.links.any (fun lm => lm.ambiguous && lm.subs.any (fun s => s.group == some g.name && s.idx == g.idx)) then none else
    let h := histOf m g.idx
    -- entries evicted from the log (the oldest retained entry moved past them) cannot be handed out
    let evictedBelow := (m.heads.filter (fun hd => hd.1 == g.idx)).foldl (fun acc hd => max acc hd.2) 0
    let missing := (List.range h.length).filter (fun a => a ≥ g.stableFrom && a ≥ evictedBelow && !g.delivered.contains a && !g.maybe.contains a &&
      (match h[a]? with | some e => !e.payload.isEmpty | none => false))
    if missing.isEmpty then none
    else some ("c17-undelivered-at-idle", s!"group {g.name}: entries {missing.take 5} (payloads {(missing.take 5).map (fun a => match h[a]? with | some e => showBytes e.payload | none => "?")}) were forwarded to no member although the group stayed non-empty; delivered={g.delivered.length} maybe={g.maybe} stableFrom={g.stableFrom} log={h.length} members={members.map (fun lm => (lm.clientId, describeSubs m lm))}")
  filt prop ((ackFails ++ fails ++ gfails).find? (fun f => relevant prop f.1))

end Router.Monitors
