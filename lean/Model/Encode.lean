/-
C20 — what a remote link does with a notification:
  rumqttd/src/link/remote.rs  `RemoteLink::start`:  `notif.into()` (`None` → `unscheduled = true`),
                              `network.writev(packets)` → `Protocol::write` per packet
  rumqttd/src/router/mod.rs   `impl From<Notification> for MaybePacket`, `impl From<Ack> for Packet`
  rumqttd/src/protocol/{v4,v5}/mod.rs  `V4::write` / `V5::write`  (= `Codec.V4/V5.encode .broker`)

`DNotif` mirrors the Rust `Notification` enum field by field (so the pure sweep of the harness can
feed every form, also those the router never builds); `ofNotif` maps the router model's `Notif`
(which abstracts a publish's properties to `hasProps`/`alias`/`subIds`) to it, given the
pass-through properties `extra` of the stored publish. `Emittable` = the forms the router model
puts into a connection's buffer, with the value ranges of the Rust field types.
Import-free apart from Model files.
-/
import Model.Codec.V4
import Model.Codec.V5
import Model.Router.Step
import Model.Admission

namespace Encode
open Codec
open Admission (Version)

/-- `router::Ack` -/
inductive DAck
  | connAck (sessionPresent : Bool) (code : ConnCode) (props : Option Props)
  | pubAck (pkid : Nat) (reason : AckReason)
  | pubAckWithProperties (pkid : Nat) (reason : AckReason) (props : Props)
  | subAck (pkid : Nat) (codes : List SubCode)
  | subAckWithProperties (pkid : Nat) (codes : List SubCode) (props : Props)
  | pubRec (pkid : Nat) (reason : AckReason)
  | pubRecWithProperties (pkid : Nat) (reason : AckReason) (props : Props)
  | pubRel (pkid : Nat) (reason : RelReason)
  | pubRelWithProperties (pkid : Nat) (reason : RelReason) (props : Props)
  | pubComp (pkid : Nat) (reason : RelReason)
  | pubCompWithProperties (pkid : Nat) (reason : RelReason) (props : Props)
  | unsubAck (pkid : Nat) (reasons : List UnsubReason)
  | pingResp
  deriving DecidableEq, Repr

/-- `router::Notification` (`ReplicaData` / `ReplicaAcks` = `other`) -/
inductive DNotif
  | forward (dup : Bool) (qos : QoS) (retain : Bool) (topic : Bytes) (pkid : Nat) (payload : Bytes)
      (props : Option Props)
  | deviceAck (a : DAck)
  | shadow
  | unschedule
  | disconnect (reason : DiscReason) (props : Option Props)
  | other
  deriving DecidableEq, Repr

/-- `impl From<Ack> for Packet` -/
def DAck.toPacket : DAck → Packet
  | .connAck sp code props => .connack sp code props
  | .pubAck k r => .puback k r none
  | .pubAckWithProperties k r p => .puback k r (some p)
  | .subAck k cs => .suback k none cs
  | .subAckWithProperties k cs p => .suback k (some p) cs
  | .pubRec k r => .pubrec k r none
  | .pubRecWithProperties k r p => .pubrec k r (some p)
  | .pubRel k r => .pubrel k r none
  | .pubRelWithProperties k r p => .pubrel k r (some p)
  | .pubComp k r => .pubcomp k r none
  | .pubCompWithProperties k r p => .pubcomp k r (some p)
  | .unsubAck k rs => .unsuback k none rs
  | .pingResp => .pingresp

/-- `impl From<Notification> for MaybePacket`: `none` for `Unschedule` and for the notifications a
    remote link is not meant to see (`v => { error!(..); return None }`) -/
def DNotif.toPacket : DNotif → Option Packet
  | .forward dup qos retain topic pkid payload props =>
    some (.publish dup qos retain topic pkid payload props)
  | .deviceAck a => some a.toPacket
  | .unschedule => none
  | .disconnect reason props => some (.disconnect reason props)
  | .shadow => none
  | .other => none

/-- `Protocol::write` of the connection's listener -/
def protocolWrite (v : Version) (p : Packet) : Except Err Bytes :=
  match v with
  | .v4 => V4.encode .broker p
  | .v5 => V5.encode .broker p

/-- bytes a remote link writes for one notification (`[]` when there is no packet);
    `.error .panic` = the task panics, `.error _` = `writev` returns `Err` and the link ends -/
def write (v : Version) (n : DNotif) : Except Err Bytes :=
  match n.toPacket with
  | none => .ok []
  | some p => protocolWrite v p

def encodable (v : Version) (n : DNotif) : Bool :=
  match write v n with
  | .ok _ => true
  | .error _ => false

/-- does the link answer the batch with `Event::Ready` (`unscheduled = true`)? Every notification
    without a packet counts, not only `Unschedule`. -/
def wakesRouter (n : DNotif) : Bool := n.toPacket.isNone

/-! ### from the router model's notifications -/

def qosOf : Nat → QoS
  | 0 => .q0
  | 1 => .q1
  | _ => .q2

/-- the publish properties of a forward: the stored publish's pass-through properties `extra`
    (the publisher's, without its topic alias), then the broker's topic alias and the subscription
    identifiers; `none` when the stored publish had no properties and the router added none -/
def forwardProps (p : Router.Pub) (extra : Props) : Option Props :=
  if p.hasProps then
    some (V5.normalize V5.publishSpec
      (extra ++ (match p.alias with | some a => [⟨35, .u16 a⟩] | none => [])
             ++ p.subIds.map (fun i => ⟨11, .var i⟩)))
  else none

def subCodeOf : Nat → SubCode
  | 0 => .QoS0
  | 1 => .QoS1
  | _ => .QoS2

def discReasonOf (r : String) : DiscReason :=
  if r = "ProtocolError" then .ProtocolError
  else if r = "MalformedPacket" then .MalformedPacket
  else if r = "TopicAliasInvalid" then .TopicAliasInvalid
  else .UnspecifiedError

def ofAck : Router.Ack → DAck
  | .connack _ sp => .connAck sp .Success (some [⟨34, .u16 Router.TOPIC_ALIAS_MAX⟩])
  | .puback k => .pubAck k .Success
  | .pubrec k => .pubRec k .Success
  | .pubrel k => .pubRel k .Success
  | .pubcomp k => .pubComp k .Success
  | .suback k codes => .subAck k (codes.map subCodeOf)
  | .unsuback k rs => .unsubAck k (rs.map fun b => if b then .Success else .NoSubscriptionExisted)
  | .pingresp => .pingResp

def ofNotif (extra : Props) : Router.Notif → DNotif
  | .forward p _ => .forward p.dup (qosOf p.qos) p.retain p.topic p.pkid p.payload (forwardProps p extra)
  | .ack a => .deviceAck (ofAck a)
  | .unschedule => .unschedule
  | .disconnect r => .disconnect (discReasonOf r) none
  | .shadow _ _ => .shadow

/-- how an MQTT 5 client reads the topic of a received PUBLISH (MQTT 5 §3.3.2.3.4): an alias with
    a non-empty topic (re)defines the mapping, an alias with an empty topic is looked up.
    Returns the resolved topic (`none`: unknown alias) and the client's new table. -/
def resolveTopic (table : List (Nat × Bytes)) (topic : Bytes) (alias : Option Nat) :
    Option Bytes × List (Nat × Bytes) :=
  match alias with
  | none => (some topic, table)
  | some a =>
    if topic.isEmpty then (Router.nlookup a table, table)
    else (some topic, Router.ninsert a topic table)

/-- pass-through publish properties: payload format indicator, message expiry interval, response
    topic, correlation data, user properties, content type — well-formed values -/
def extraOk (extra : Props) : Bool :=
  extra.all (fun p => V5.propOk V5.publishSpec p && p.id != 35 && p.id != 11)
    && decide (V5.normalize V5.publishSpec extra = extra)

/-- value ranges the Rust types guarantee for a publish the router forwards (`u16` packet id and
    alias, `usize` subscription ids below the variable-byte limit as the decoder delivered them,
    a topic that came through a 16-bit length prefix) and that the frame fits the MQTT limit -/
def pubOk (p : Router.Pub) (extra : Props) : Bool :=
  decide (p.qos ≤ 2) && decide (p.pkid < 65536) && decide (p.qos ≠ 0 → p.pkid ≠ 0)
    && decide (p.topic.length ≤ 65535)
    && (match p.alias with | some a => decide (a < 65536) | none => true)
    && p.subIds.all (fun i => decide (i ≤ remainingLimit))
    && (p.hasProps || (p.alias.isNone && p.subIds.isEmpty && extra.isEmpty))
    && extraOk extra
    && decide (V5.publishLen (qosOf p.qos) p.topic p.pkid p.payload (forwardProps p extra) ≤ remainingLimit)

def ackOk : Router.Ack → Bool
  | .connack _ _ => true
  | .puback k | .pubrec k | .pubrel k | .pubcomp k => decide (k < 65536)
  | .suback k codes => decide (k < 65536) && decide (2 + codes.length + 1 ≤ remainingLimit)
  | .unsuback k rs => decide (k < 65536) && decide (2 + rs.length + 1 ≤ remainingLimit)
  | .pingresp => true

/-- The forms of notification the router model puts into the outgoing buffer of a connection that
    came through a listener of version `v`. Towards a `v4` connection no broker alias and no
    subscription identifier exists (`topic_alias_max` and subscription ids come from MQTT 5
    CONNECT / SUBSCRIBE properties only), but the stored publish may carry properties — it may
    have been published through a v5 listener. -/
def Emittable (v : Version) (extra : Props) : Router.Notif → Bool
  | .forward p _ =>
    pubOk p extra && (match v with | .v4 => p.alias.isNone && p.subIds.isEmpty | .v5 => true)
  | .ack a => ackOk a
  | .unschedule => true
  | .disconnect _ => true
  | .shadow _ _ => true

end Encode
