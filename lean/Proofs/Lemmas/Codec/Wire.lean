import Model.Codec.Wire

namespace Codec

@[simp] theorem u8_toNat (n : Nat) : (u8 n).toNat = n % 256 := by
  simp [u8]

theorem u8_toNat_lt (n : Nat) (h : n < 256) : (u8 n).toNat = n := by
  simp [u8]; omega

/-! ### fixed-width integers -/

@[simp] theorem encU8_length (n : Nat) : (encU8 n).length = 1 := rfl
@[simp] theorem encU16_length (n : Nat) : (encU16 n).length = 2 := rfl
@[simp] theorem encU32_length (n : Nat) : (encU32 n).length = 4 := rfl

theorem decU8_enc (n : Nat) (r : Bytes) (h : n < 256) : decU8 (u8 n :: r) = .ok (n, r) := by
  simp [decU8]; omega

theorem decU16_enc (n : Nat) (r : Bytes) (h : n < 65536) : decU16 (encU16 n ++ r) = .ok (n, r) := by
  simp [decU16, encU16]; omega

theorem decU32_enc (n : Nat) (r : Bytes) (h : n < 4294967296) :
    decU32 (encU32 n ++ r) = .ok (n, r) := by
  simp [decU32, encU32]; omega

/-! ### length-prefixed byte strings -/

@[simp] theorem encBytes16_length (s : Bytes) : (encBytes16 s).length = 2 + s.length := by
  simp [encBytes16]

theorem decBytes16_enc (s r : Bytes) (h : s.length ≤ 65535) :
    decBytes16 (encBytes16 s ++ r) = .ok (s, r) := by
  have h1 : s.length % 65536 = s.length := by omega
  simp [decBytes16, encBytes16, h1, List.append_assoc, decU16_enc _ _ (show s.length < 65536 by omega)]

theorem decStr16_enc (u : Bool) (s r : Bytes) (h : s.length ≤ 65535)
    (hu : u = true → validUtf8 s = true) :
    decStr16 u (encBytes16 s ++ r) = .ok (s, r) := by
  simp [decStr16, decBytes16_enc s r h]
  intro hu'; simp [hu hu']

/-! ### variable-byte integer -/

theorem encVarintLoop_lt128 (n : Nat) (h : n < 128) : encVarintLoop n = [u8 n] := by
  rw [encVarintLoop]
  have : ¬ (n / 128 > 0) := by omega
  simp [this]; congr 1; omega

theorem encVarintLoop_step (n : Nat) (h : 128 ≤ n) :
    encVarintLoop n = u8 (n % 128 + 128) :: encVarintLoop (n / 128) := by
  rw [encVarintLoop]
  have : n / 128 > 0 := by omega
  simp [this]

theorem encVarintLoop_length (n : Nat) (h : n ≤ remainingLimit) :
    (encVarintLoop n).length = lenLen n := by
  unfold remainingLimit at h
  unfold lenLen
  by_cases h1 : n < 128
  · rw [encVarintLoop_lt128 n h1]
    have : ¬ n ≥ 2097152 := by omega
    have : ¬ n ≥ 16384 := by omega
    have : ¬ n ≥ 128 := by omega
    simp [*]
  · rw [encVarintLoop_step n (by omega)]
    by_cases h2 : n / 128 < 128
    · rw [encVarintLoop_lt128 _ h2]
      have : ¬ n ≥ 2097152 := by omega
      have : ¬ n ≥ 16384 := by omega
      have : n ≥ 128 := by omega
      simp [*]
    · rw [encVarintLoop_step _ (by omega)]
      by_cases h3 : n / 128 / 128 < 128
      · rw [encVarintLoop_lt128 _ h3]
        have : ¬ n ≥ 2097152 := by omega
        have : n ≥ 16384 := by omega
        simp [*]
      · rw [encVarintLoop_step _ (by omega)]
        have h4 : n / 128 / 128 / 128 < 128 := by omega
        rw [encVarintLoop_lt128 _ h4]
        have : n ≥ 2097152 := by omega
        simp [*]

theorem lenLen_pos (n : Nat) : 1 ≤ lenLen n := by
  unfold lenLen; split <;> (try split) <;> (try split) <;> omega

theorem lenLen_le (n : Nat) : lenLen n ≤ 4 := by
  unfold lenLen; split <;> (try split) <;> (try split) <;> omega

theorem decVarint_enc (n : Nat) (r : Bytes) (h : n ≤ remainingLimit) :
    decVarint (encVarintLoop n ++ r) = .ok (n, lenLen n, r) := by
  unfold remainingLimit at h
  unfold lenLen
  by_cases h1 : n < 128
  · rw [encVarintLoop_lt128 n h1]
    have a : n % 256 = n := by omega
    have : ¬ n ≥ 2097152 := by omega
    have : ¬ n ≥ 16384 := by omega
    have : ¬ n ≥ 128 := by omega
    simp [decVarint, *]
  · rw [encVarintLoop_step n (by omega)]
    have a0 : (n % 128 + 128) % 256 = n % 128 + 128 := by omega
    have b0 : ¬ (n % 128 + 128 < 128) := by omega
    by_cases h2 : n / 128 < 128
    · rw [encVarintLoop_lt128 _ h2]
      have a1 : n / 128 % 256 = n / 128 := by omega
      have : ¬ n ≥ 2097152 := by omega
      have : ¬ n ≥ 16384 := by omega
      have : n ≥ 128 := by omega
      simp [decVarint, *]; omega
    · rw [encVarintLoop_step _ (by omega)]
      have a1 : (n / 128 % 128 + 128) % 256 = n / 128 % 128 + 128 := by omega
      have b1 : ¬ (n / 128 % 128 + 128 < 128) := by omega
      by_cases h3 : n / 128 / 128 < 128
      · rw [encVarintLoop_lt128 _ h3]
        have a2 : n / 128 / 128 % 256 = n / 128 / 128 := by omega
        have : ¬ n ≥ 2097152 := by omega
        have : n ≥ 16384 := by omega
        simp [decVarint, *]; omega
      · rw [encVarintLoop_step _ (by omega)]
        have a2 : (n / 128 / 128 % 128 + 128) % 256 = n / 128 / 128 % 128 + 128 := by omega
        have b2 : ¬ (n / 128 / 128 % 128 + 128 < 128) := by omega
        have h4 : n / 128 / 128 / 128 < 128 := by omega
        rw [encVarintLoop_lt128 _ h4]
        have a3 : n / 128 / 128 / 128 % 256 = n / 128 / 128 / 128 := by omega
        have : n ≥ 2097152 := by omega
        simp [decVarint, *]; omega

theorem encVarint_ok (n : Nat) (h : n ≤ remainingLimit) : encVarint n = .ok (encVarintLoop n) := by
  simp [encVarint]; omega

theorem encVarint_err (n : Nat) (h : n > remainingLimit) : encVarint n = .error .malformed := by
  simp [encVarint, h]

/-! ### frames -/

theorem frame_ok (b len : Nat) (body : Bytes) (h : len ≤ remainingLimit) :
    frame b len body = .ok (u8 b :: (encVarintLoop len ++ body)) := by
  simp [frame, encVarint_ok len h]

theorem frame_err (b len : Nat) (body : Bytes) (h : len > remainingLimit) :
    frame b len body = .error .malformed := by
  simp [frame, encVarint_err len h]

theorem frame_length (b len : Nat) (body out : Bytes) (h : frame b len body = .ok out) :
    out.length = 1 + lenLen len + body.length := by
  by_cases hl : len ≤ remainingLimit
  · rw [frame_ok b len body hl] at h
    cases h
    simp [encVarintLoop_length len hl]; omega
  · rw [frame_err b len body (by omega)] at h; cases h

theorem splitFrame_frame (max b : Nat) (body rest : Bytes) (hb : b < 256)
    (hl : body.length ≤ remainingLimit) (hm : body.length ≤ max) :
    splitFrame max (u8 b :: (encVarintLoop body.length ++ body) ++ rest)
      = .ok ⟨b, body.length, body, rest, 1 + lenLen body.length + body.length⟩ := by
  have hne : encVarintLoop body.length ++ body ++ rest ≠ [] := by
    have := encVarintLoop_length body.length hl
    have := lenLen_pos body.length
    intro h
    have h2 : (encVarintLoop body.length).length = 0 := by
      have h3 := congrArg List.length h
      simp only [List.length_append, List.length_nil] at h3
      omega
    omega
  have hdec := decVarint_enc body.length (body ++ rest) hl
  rw [← List.append_assoc] at hdec
  simp only [List.cons_append]
  cases hc : encVarintLoop body.length ++ body ++ rest with
  | nil => exact absurd hc hne
  | cons x xs =>
    unfold splitFrame
    simp only []
    rw [← hc, hdec]
    have : ¬ body.length > max := by omega
    simp [this, u8_toNat_lt b hb]
