import Model.Codec.V5
import Proofs.Lemmas.Codec.V4

namespace Codec.V5
open Codec
open Codec.V4 (Enc optLen optBytes optAll strOk mqttName loginLen loginFlags encLogin decLogin
  loginOk willFlags connectFlags publishByte1 encTopics decTopics
  strOk_len strOk_utf8 decStr16_ok isNone_eq)

/-! ### property values -/

theorem pvalLen_pos (v : PVal) : 1 ≤ pvalLen v := by
  cases v <;> simp [pvalLen] <;> first | omega | exact lenLen_pos _

theorem propOk_kind {spec p} (h : propOk spec p = true) : kindOf spec p.id = some p.val.kind := by
  simp [propOk] at h; exact h.1.1

theorem propOk_id {spec p} (h : propOk spec p = true) : p.id < 256 := by
  simp [propOk] at h; exact h.1.2

theorem encPVal_length (spec : PropSpec) (p : Property) (h : propOk spec p = true) :
    (encPVal p.val).length = pvalLen p.val := by
  obtain ⟨id, v⟩ := p
  simp only [propOk, Bool.and_eq_true] at h
  cases v <;> simp [encPVal, pvalLen]
  case pair a b => omega
  case var n =>
    have := h.2; simp at this
    exact encVarintLoop_length n this

theorem decPVal_enc (spec : PropSpec) (p : Property) (r : Bytes) (h : propOk spec p = true) :
    decPVal p.val.kind (encPVal p.val ++ r) = .ok (p.val, pvalLen p.val, r) := by
  obtain ⟨id, v⟩ := p
  simp only [propOk, Bool.and_eq_true] at h
  have h2 := h.2
  cases v <;> simp only [PVal.kind, decPVal, encPVal, pvalLen] at h2 ⊢
  case u8 x =>
    have : x < 256 := by simpa using h2
    simp [decU8_enc x r this]
  case u16 x =>
    have : x < 65536 := by simpa using h2
    simp [decU16_enc x r this]
  case u32 x =>
    have : x < 4294967296 := by simpa using h2
    simp [decU32_enc x r this]
  case str s => simp [decStr16_ok r h2]
  case bin b => simp [decBytes16_enc b r (strOk_len h2)]
  case pair a b =>
    simp only [Bool.and_eq_true] at h2
    simp [List.append_assoc, decStr16_ok _ h2.1, decStr16_ok _ h2.2]
  case var n =>
    have : n ≤ remainingLimit := by simpa using h2
    simp [decVarint_enc n r this]

theorem encPropList_length (spec : PropSpec) (ps : Props) (h : ps.all (propOk spec) = true) :
    (encPropList ps).length = propListLen ps := by
  induction ps with
  | nil => rfl
  | cons p ps ih =>
    simp only [List.all_cons, Bool.and_eq_true] at h
    simp [encPropList, encProperty, propListLen, encPVal_length spec p h.1, ih h.2]; omega

theorem propListLen_ge (ps : Props) : ps.length ≤ propListLen ps := by
  induction ps with
  | nil => simp [propListLen]
  | cons p ps ih => have := pvalLen_pos p.val; simp [propListLen]; omega

theorem varsFit_of_ok (spec : PropSpec) (ps : Props) (h : ps.all (propOk spec) = true) :
    varsFit ps = true := by
  induction ps with
  | nil => rfl
  | cons p ps ih =>
    simp only [List.all_cons, Bool.and_eq_true] at h
    obtain ⟨id, v⟩ := p
    have h1 := h.1
    simp only [propOk, Bool.and_eq_true] at h1
    cases v <;> simp [varsFit, ih h.2]
    simpa using h1.2

/-! ### the reader loop -/

theorem propLoop_enc (spec : PropSpec) (plen : Nat) (ps : Props) :
    ∀ (acc : Props) (cursor fuel : Nat) (r : Bytes), ps.all (propOk spec) = true →
      cursor + propListLen ps = plen → ps.length < fuel →
      propLoop spec plen fuel cursor (encPropList ps ++ r) acc = .ok (acc ++ ps, r) := by
  induction ps with
  | nil =>
    intro acc cursor fuel r _ hx hf
    cases fuel with
    | zero => simp at hf
    | succ fuel =>
      simp [propListLen] at hx
      have : ¬ cursor < plen := by omega
      simp [propLoop, this, encPropList]
  | cons p ps ih =>
    intro acc cursor fuel r hok hx hf
    simp only [List.all_cons, Bool.and_eq_true] at hok
    simp only [propListLen] at hx
    cases fuel with
    | zero => simp at hf
    | succ fuel =>
      have hid := propOk_id hok.1
      have hk := propOk_kind hok.1
      have hlt : cursor < plen := by have := pvalLen_pos p.val; omega
      simp only [propLoop, hlt, if_true, encPropList, encProperty, List.cons_append,
        u8_toNat_lt p.id hid, hk, List.append_assoc, decPVal_enc spec p _ hok.1]
      have := ih (acc ++ [p]) (cursor + 1 + pvalLen p.val) fuel r hok.2 (by omega)
        (by simp at hf; omega)
      simp only [List.append_assoc, List.singleton_append] at this
      exact this

theorem propListLen_pos_of_ne (ps : Props) (h : ps ≠ []) : 0 < propListLen ps := by
  cases ps with
  | nil => exact absurd rfl h
  | cons p ps => simp [propListLen]; omega

/-- writer then reader of one property block -/
theorem decProps_enc (spec : PropSpec) (o : Option Props) (r : Bytes) (h : propsOk spec o = true) :
    ∃ pb, encProps o = .ok pb ∧ pb.length = propsLen o ∧ decProps spec (pb ++ r) = .ok (o, r) := by
  cases o with
  | none =>
    refine ⟨[u8 0], rfl, rfl, ?_⟩
    simp [decProps, decVarint]
  | some ps =>
    simp only [propsOk, Bool.and_eq_true, decide_eq_true_eq] at h
    obtain ⟨⟨⟨hne, hall⟩, hnorm⟩, hlim⟩ := h
    have hne' : ps ≠ [] := by intro h; subst h; simp at hne
    have hpos := propListLen_pos_of_ne ps hne'
    have hvf := varsFit_of_ok spec ps hall
    have hlen := encPropList_length spec ps hall
    refine ⟨encVarintLoop (propListLen ps) ++ encPropList ps, ?_, ?_, ?_⟩
    · have : ¬ propListLen ps > remainingLimit := by omega
      simp [encProps, this, hvf]
    · simp [propsLen, encVarintLoop_length _ hlim, hlen]
    · have hfuel : ps.length < (encPropList ps ++ r).length + 1 := by
        have := propListLen_ge ps
        simp [hlen]; omega
      have h0 : propListLen ps ≠ 0 := by omega
      simp only [decProps, List.append_assoc, decVarint_enc _ _ hlim, h0, if_false]
      rw [propLoop_enc spec (propListLen ps) ps [] 0 _ r hall (by omega) hfuel]
      simp [hnorm]

theorem propsLen_pos (o : Option Props) : 1 ≤ propsLen o := by
  cases o with
  | none => simp [propsLen]
  | some ps => have := lenLen_pos (propListLen ps); simp [propsLen]; omega


/-! ### frames -/

structure PartsOk (k : Copy) (p : Packet) (e : Enc) : Prop where
  notDisc : ∀ r pr, p ≠ .disconnect r pr
  enc : encParts k p = .ok e
  len : e.body.length = e.len
  lim : e.len ≤ remainingLimit
  byte : e.byte1 < 256
  sz : sizeOfLen e.len = size k p
  dec : ∀ r c, decodeFrame k ⟨e.byte1, e.len, e.body, r, c⟩ = .packet p r

theorem encodeRet_parts (k : Copy) (p : Packet) (h : ∀ r pr, p ≠ .disconnect r pr) :
    encodeRet k p = (match encParts k p with
      | .error e => .error e
      | .ok e =>
        match encVarint e.len with
        | .error er => .error er
        | .ok l => .ok (u8 e.byte1 :: (l ++ e.body), 1 + l.length + e.len)) := by
  cases p <;> first | rfl | exact absurd rfl (h _ _)

theorem decode_encode_of_parts (k : Copy) (p : Packet) (e : Enc) (max : Nat) (r : Bytes)
    (he : PartsOk k p e) (hmax : e.len ≤ max) :
    ∃ out, encode k p = .ok out ∧ out.length = sizeOfLen e.len ∧
      writeReturn k p = .ok out.length ∧ decode k max (out ++ r) = .packet p r := by
  have hret := encodeRet_parts k p he.notDisc
  simp only [he.enc, encVarint_ok _ he.lim] at hret
  refine ⟨u8 e.byte1 :: (encVarintLoop e.len ++ e.body), ?_, ?_, ?_, ?_⟩
  · simp [encode, hret]
  · simp [sizeOfLen, encVarintLoop_length _ he.lim, he.len]; omega
  · simp [writeReturn, hret, he.len]; omega
  · have h := splitFrame_frame max e.byte1 e.body r he.byte (by rw [he.len]; exact he.lim)
      (by rw [he.len]; exact hmax)
    rw [he.len] at h
    simp only [decode, h]
    exact he.dec _ _

/-! ### pings -/

theorem ping_ok (k : Copy) :
    PartsOk k .pingreq ⟨0xC0, 0, []⟩ ∧ PartsOk k .pingresp ⟨0xD0, 0, []⟩ := by
  refine ⟨⟨(by intro _ _ h; cases h), rfl, rfl, (by decide : (0:Nat) ≤ remainingLimit),
      (by decide : (0xC0:Nat) < 256), (by simp [size, sizeOfLen, lenLen]), ?_⟩,
    ⟨(by intro _ _ h; cases h), rfl, rfl, (by decide : (0:Nat) ≤ remainingLimit),
      (by decide : (0xD0:Nat) < 256), (by simp [size, sizeOfLen, lenLen]), ?_⟩⟩ <;>
    intro r c <;> simp [decodeFrame]

/-! ### acks -/

theorem decAckWith_enc {ρ : Type} [BEq ρ] [LawfulBEq ρ] (ofByte : Nat → Option ρ) (toByte : ρ → Nat)
    (success : ρ) (mk : Nat → ρ → Option Props → Packet) (b pkid : Nat) (reason : ρ)
    (props : Option Props) (hp : pkid < 65536) (hb : toByte reason < 256)
    (hof : ofByte (toByte reason) = some reason) (hpr : propsOk ackSpec props = true) :
    ∃ e, encAck b pkid (reason == success) (toByte reason) props = .ok e ∧
      e.byte1 = b ∧ e.body.length = e.len ∧ 2 ≤ e.len ∧ e.len ≤ 3 + propsLen props ∧
      sizeOfLen e.len = (if (reason == success && props.isNone) then 4 else sizeOfLen (3 + propsLen props)) ∧
      decAckWith ofByte success mk e.len e.body = .ok (mk pkid reason props) := by
  by_cases hs : (reason == success && props.isNone) = true
  · simp only [Bool.and_eq_true, beq_iff_eq] at hs
    have := isNone_eq hs.2
    subst this
    have h1 := hs.1; subst h1
    refine ⟨⟨b, 2, encU16 pkid⟩, by simp [encAck], rfl, rfl, by simp, by simp; omega,
      (by simp [sizeOfLen, lenLen]), ?_⟩
    have hd := decU16_enc pkid [] hp
    simp only [List.append_nil] at hd
    simp [decAckWith, decAck, hd]
  · obtain ⟨pb, h1, h2, h3⟩ := decProps_enc ackSpec props [] hpr
    simp only [List.append_nil] at h3
    have hpl := propsLen_pos props
    refine ⟨⟨b, 3 + propsLen props, encU16 pkid ++ [u8 (toByte reason)] ++ pb⟩, ?_, rfl, ?_, ?_,
      by simp, (by simp only [hs]; simp), ?_⟩
    · simp [encAck, hs, h1]
    · simp [h2]; omega
    · simp only []; omega
    · have e1 : ¬ (3 + propsLen props = 2) := by omega
      have e2 : ¬ (3 + propsLen props < 4) := by omega
      have hm : toByte reason % 256 = toByte reason := by omega
      simp [decAckWith, decAck, List.append_assoc, decU16_enc _ _ hp, e1, e2, decU8, hm, h3, hof]


theorem ackReason_rt (r : AckReason) : ackReasonByte r < 256 ∧ ackReasonOfByte (ackReasonByte r) = some r := by
  cases r <;> decide

theorem relReason_rt (r : RelReason) : relReasonByte r < 256 ∧ relReasonOfByte (relReasonByte r) = some r := by
  cases r <;> decide

theorem puback_ok (k : Copy) (pkid : Nat) (reason : AckReason) (props : Option Props)
    (hp : pkid < 65536) (hpr : propsOk ackSpec props = true) (hl : 3 + propsLen props ≤ remainingLimit) :
    (∃ e, PartsOk k (.puback pkid reason props) e) ∧ (∃ e, PartsOk k (.pubrec pkid reason props) e) := by
  obtain ⟨h1, h2⟩ := ackReason_rt reason
  constructor
  · obtain ⟨e, he, hb, hlen, h2', hle, hsz, hdec⟩ := decAckWith_enc ackReasonOfByte ackReasonByte .Success
      .puback 0x40 pkid reason props hp h1 h2 hpr
    refine ⟨e, ⟨(by intro _ _ h; cases h), he, hlen, (by omega), (by rw [hb]; decide), (by rw [hsz]; simp [size]), ?_⟩⟩
    intro r c
    have h0 : e.len ≠ 0 := by omega
    simp [decodeFrame, hb, h0, decBody, hdec]
  · obtain ⟨e, he, hb, hlen, h2', hle, hsz, hdec⟩ := decAckWith_enc ackReasonOfByte ackReasonByte .Success
      .pubrec 0x50 pkid reason props hp h1 h2 hpr
    refine ⟨e, ⟨(by intro _ _ h; cases h), he, hlen, (by omega), (by rw [hb]; decide), (by rw [hsz]; simp [size]), ?_⟩⟩
    intro r c
    have h0 : e.len ≠ 0 := by omega
    simp [decodeFrame, hb, h0, decBody, hdec]

theorem pubrel_ok (k : Copy) (pkid : Nat) (reason : RelReason) (props : Option Props)
    (hp : pkid < 65536) (hpr : propsOk ackSpec props = true) (hl : 3 + propsLen props ≤ remainingLimit) :
    (∃ e, PartsOk k (.pubrel pkid reason props) e) ∧ (∃ e, PartsOk k (.pubcomp pkid reason props) e) := by
  obtain ⟨h1, h2⟩ := relReason_rt reason
  constructor
  · obtain ⟨e, he, hb, hlen, h2', hle, hsz, hdec⟩ := decAckWith_enc relReasonOfByte relReasonByte .Success
      .pubrel 0x62 pkid reason props hp h1 h2 hpr
    refine ⟨e, ⟨(by intro _ _ h; cases h), he, hlen, (by omega), (by rw [hb]; decide), (by rw [hsz]; simp [size]), ?_⟩⟩
    intro r c
    have h0 : e.len ≠ 0 := by omega
    simp [decodeFrame, hb, h0, decBody, hdec]
  · obtain ⟨e, he, hb, hlen, h2', hle, hsz, hdec⟩ := decAckWith_enc relReasonOfByte relReasonByte .Success
      .pubcomp 0x70 pkid reason props hp h1 h2 hpr
    refine ⟨e, ⟨(by intro _ _ h; cases h), he, hlen, (by omega), (by rw [hb]; decide), (by rw [hsz]; simp [size]), ?_⟩⟩
    intro r c
    have h0 : e.len ≠ 0 := by omega
    simp [decodeFrame, hb, h0, decBody, hdec]

/-! ### CONNACK -/

theorem connCode_rt (code : ConnCode) (c : Nat) (h : connCodeByte code = some c) :
    c < 256 ∧ connCodeOfByte c = some code := by
  cases code <;> simp [connCodeByte] at h <;> subst h <;> simp [connCodeOfByte]

theorem connack_ok (k : Copy) (sp : Bool) (code : ConnCode) (props : Option Props) (c : Nat)
    (hc : connCodeByte code = some c) (hpr : propsOk connackSpec props = true)
    (hl : 2 + propsLen props ≤ remainingLimit) :
    ∃ e, PartsOk k (.connack sp code props) e := by
  obtain ⟨hc1, hc2⟩ := connCode_rt code c hc
  obtain ⟨pb, h1, h2, h3⟩ := decProps_enc connackSpec props [] hpr
  simp only [List.append_nil] at h3
  refine ⟨⟨0x20, 2 + propsLen props, [u8 (boolBit sp), u8 c] ++ pb⟩,
    ⟨(by intro _ _ h; cases h), by simp [encParts, encConnAck, hc, h1], (by simp [h2]; omega), hl,
     (by decide : (0x20:Nat) < 256), (by simp [size]), ?_⟩⟩
  intro r cc
  have hm : c % 256 = c := by omega
  have h0 : 2 + propsLen props ≠ 0 := by omega
  cases sp <;> simp [decodeFrame, decBody, decConnAck, decU8, boolBit, hm, h3, hc2]

/-! ### PUBLISH -/

theorem publish_ok (k : Copy) (dup : Bool) (qos : QoS) (retain : Bool) (topic : Bytes) (pkid : Nat)
    (payload : Bytes) (props : Option Props) (hp : pkid < 65536) (hq : qos = .q0 ↔ pkid = 0)
    (ht : strOk false topic = true) (hpr : propsOk publishSpec props = true)
    (hl : publishLen qos topic pkid payload props ≤ remainingLimit) :
    ∃ e, PartsOk k (.publish dup qos retain topic pkid payload props) e := by
  obtain ⟨pb, h1, h2, h3⟩ := decProps_enc publishSpec props payload hpr
  have hne : ¬ (qos ≠ .q0 ∧ pkid = 0) := by
    intro ⟨a, b⟩; exact a (hq.mpr b)
  refine ⟨⟨publishByte1 dup qos retain, publishLen qos topic pkid payload props,
    encBytes16 topic ++ (if qos ≠ .q0 then encU16 pkid else []) ++ pb ++ payload⟩,
    ⟨(by intro _ _ h; cases h), by simp [encParts, encPublish, hne, h1], ?_, hl,
     V4.publishByte1_lt _ _ _, (by simp [size]), ?_⟩⟩
  · cases qos <;> simp_all [publishLen] <;> omega
  · intro r c
    have hlenpos : publishLen qos topic pkid payload props ≠ 0 := by simp [publishLen]
    have hty : publishByte1 dup qos retain / 16 = 3 := by
      cases dup <;> cases qos <;> cases retain <;> decide
    have hqq : qosOfNat (publishByte1 dup qos retain / 2 % 4) = some qos := by
      cases dup <;> cases qos <;> cases retain <;> decide
    have hdup : (publishByte1 dup qos retain / 8 % 2 ≠ 0) = (dup = true) := by
      cases dup <;> cases qos <;> cases retain <;> decide
    have hret : (publishByte1 dup qos retain % 2 ≠ 0) = (retain = true) := by
      cases dup <;> cases qos <;> cases retain <;> decide
    have htl := strOk_len ht
    simp only [decodeFrame, hty, hlenpos]
    simp only [decBody, decPublish, hqq]
    cases qos with
    | q0 =>
      have : pkid = 0 := hq.mp rfl
      subst this
      simp [List.append_assoc, decBytes16_enc _ _ htl, h3, hdup, hret]
    | q1 =>
      have hp0 : pkid ≠ 0 := fun h => by have := hq.mpr h; cases this
      simp [List.append_assoc, decBytes16_enc _ _ htl, decU16_enc _ _ hp, hp0, h3, hdup, hret]
    | q2 =>
      have hp0 : pkid ≠ 0 := fun h => by have := hq.mpr h; cases this
      simp [List.append_assoc, decBytes16_enc _ _ htl, decU16_enc _ _ hp, hp0, h3, hdup, hret]


/-! ### SUBSCRIBE -/

theorem encFilters_length (fs : List Filter) :
    (encFilters fs).length = (fs.map filterLen).sum := by
  induction fs with
  | nil => rfl
  | cons f fs ih => simp [encFilters, encFilter, filterLen, ih]; omega

def optsOf (qos : QoS) (nl pr : Bool) (rule : Rule) : Nat :=
  qos.toNat + (if nl then 4 else 0) + (if pr then 8 else 0) + ruleBits rule

theorem optsOf_dec (qos : QoS) (nl pr : Bool) (rule : Rule) :
    optsOf qos nl pr rule < 256 ∧ qosOfNat (optsOf qos nl pr rule % 4) = some qos ∧
    (optsOf qos nl pr rule / 4 % 2 ≠ 0) = (nl = true) ∧
    (optsOf qos nl pr rule / 8 % 2 ≠ 0) = (pr = true) ∧
    ruleOfNat (optsOf qos nl pr rule / 16 % 4) = some rule := by
  cases qos <;> cases nl <;> cases pr <;> cases rule <;> decide

theorem decFilter_enc (f : Filter) (r : Bytes) (h : filterOk f = true) :
    decFilter (encFilter f ++ r) = .ok (f, r) := by
  obtain ⟨path, qos, nl, pr, rule⟩ := f
  obtain ⟨h1, h2, h3, h4, h5⟩ := optsOf_dec qos nl pr rule
  have ho : filterOpts ⟨path, qos, nl, pr, rule⟩ = optsOf qos nl pr rule := rfl
  have hm : optsOf qos nl pr rule % 256 = optsOf qos nl pr rule := by omega
  simp only [filterOk] at h
  simp only [decFilter, encFilter, ho, List.append_assoc, decStr16_ok _ h, List.cons_append,
    List.nil_append, decU8, u8_toNat, hm, h5, h2, h3, h4]
  simp

theorem decFilters_enc (fs : List Filter) (h : fs.all filterOk = true) :
    ∀ fuel, (encFilters fs).length ≤ fuel → decFilters fuel (encFilters fs) = .ok fs := by
  induction fs with
  | nil => intro fuel _; cases fuel <;> simp [decFilters, encFilters]
  | cons f fs ih =>
    intro fuel hf
    simp only [List.all_cons, Bool.and_eq_true] at h
    have hlen : (encFilter f).length ≥ 3 := by simp [encFilter]
    have hlen2 : (encFilters (f :: fs)).length = (encFilter f).length + (encFilters fs).length := by
      simp [encFilters]
    cases fuel with
    | zero => omega
    | succ fuel =>
      have hne : (encFilters (f :: fs)).isEmpty = false := by
        cases hc : encFilters (f :: fs) with
        | nil => rw [hc] at hlen2; simp at hlen2; omega
        | cons _ _ => rfl
      simp only [decFilters, hne]
      simp only [encFilters, decFilter_enc f _ h.1]
      rw [ih h.2 fuel (by omega)]
      simp

theorem subscribe_ok (k : Copy) (pkid : Nat) (props : Option Props) (fs : List Filter)
    (hp : pkid < 65536) (hne : fs ≠ []) (hfs : fs.all filterOk = true)
    (hpr : propsOk subscribeSpec props = true) (hl : subscribeLen props fs ≤ remainingLimit) :
    ∃ e, PartsOk k (.subscribe pkid props fs) e := by
  obtain ⟨pb, h1, h2, h3⟩ := decProps_enc subscribeSpec props (encFilters fs) hpr
  refine ⟨⟨0x82, subscribeLen props fs, encU16 pkid ++ pb ++ encFilters fs⟩,
    ⟨(by intro _ _ h; cases h), by simp [encParts, encSubscribe, h1], ?_, hl,
     (by decide : (0x82:Nat) < 256), (by simp [size]), ?_⟩⟩
  · simp [subscribeLen, encFilters_length, h2]; omega
  · intro r c
    have h0 : subscribeLen props fs ≠ 0 := by simp [subscribeLen]
    have hemp : fs.isEmpty = false := by cases fs <;> simp_all
    simp [decodeFrame, h0, decBody, decSubscribe, List.append_assoc, decU16_enc _ _ hp, h3,
      decFilters_enc fs hfs _ (Nat.le_refl _), hemp]

/-! ### SUBACK -/

def codeOk (k : Copy) (c : SubCode) : Bool :=
  match subCodeByte k c with
  | some b => subCodeOfByte k b == some c
  | none => false

theorem subCodeByte_lt (k : Copy) (c : SubCode) (b : Nat) (h : subCodeByte k c = some b) : b < 256 := by
  cases k <;> cases c <;> simp [subCodeByte] at h <;>
    first
    | (subst h; decide)
    | (rename_i q; cases q <;> simp [QoS.toNat] at h <;> subst h <;> decide)

theorem codes_enc (k : Copy) (cs : List SubCode) (h : cs.all (codeOk k) = true) :
    ∃ bs, encCodes k cs = some bs ∧ bs.length = cs.length ∧ decCodes k bs = .ok cs := by
  induction cs with
  | nil => exact ⟨[], rfl, rfl, rfl⟩
  | cons c cs ih =>
    simp only [List.all_cons, Bool.and_eq_true] at h
    obtain ⟨bs, h1, h2, h3⟩ := ih h.2
    have hc := h.1
    simp only [codeOk] at hc
    cases hb : subCodeByte k c with
    | none => simp [hb] at hc
    | some b =>
      simp only [hb, beq_iff_eq] at hc
      have hlt := subCodeByte_lt k c b hb
      have hm : b % 256 = b := by omega
      refine ⟨u8 b :: bs, by simp [encCodes, hb, h1], by simp [h2], ?_⟩
      simp [decCodes, hm, hc, h3]

theorem suback_ok (k : Copy) (pkid : Nat) (props : Option Props) (cs : List SubCode)
    (hp : pkid < 65536) (hne : cs ≠ []) (hcs : cs.all (codeOk k) = true)
    (hpr : propsOk ackSpec props = true) (hl : 2 + cs.length + propsLen props ≤ remainingLimit) :
    ∃ e, PartsOk k (.suback pkid props cs) e := by
  obtain ⟨bs, hb1, hb2, hb3⟩ := codes_enc k cs hcs
  obtain ⟨pb, h1, h2, h3⟩ := decProps_enc ackSpec props bs hpr
  refine ⟨⟨0x90, 2 + cs.length + propsLen props, encU16 pkid ++ pb ++ bs⟩,
    ⟨(by intro _ _ h; cases h), by simp [encParts, encSubAck, hb1, h1], ?_, hl,
     (by decide : (0x90:Nat) < 256), (by simp [size]), ?_⟩⟩
  · simp [h2, hb2]; omega
  · intro r c
    have h0 : 2 + cs.length + propsLen props ≠ 0 := by omega
    have hbs : bs.isEmpty = false := by
      cases bs with
      | nil => cases cs <;> simp_all
      | cons _ _ => rfl
    simp [decodeFrame, h0, decBody, decSubAck, List.append_assoc, decU16_enc _ _ hp, h3, hbs, hb3]

/-! ### UNSUBSCRIBE / UNSUBACK -/

theorem unsubscribe_ok (k : Copy) (pkid : Nat) (props : Option Props) (ts : List Bytes)
    (hp : pkid < 65536) (hts : ts.all (strOk true) = true)
    (hpr : propsOk unsubscribeSpec props = true) (hl : unsubscribeLen props ts ≤ remainingLimit) :
    ∃ e, PartsOk k (.unsubscribe pkid props ts) e := by
  obtain ⟨pb, h1, h2, h3⟩ := decProps_enc unsubscribeSpec props (encTopics ts) hpr
  refine ⟨⟨0xA2, unsubscribeLen props ts, encU16 pkid ++ pb ++ encTopics ts⟩,
    ⟨(by intro _ _ h; cases h), by simp [encParts, encUnsubscribe, h1], ?_, hl,
     (by decide : (0xA2:Nat) < 256), (by simp [size]), ?_⟩⟩
  · simp [unsubscribeLen, V4.encTopics_length, h2]; omega
  · intro r c
    have h0 : unsubscribeLen props ts ≠ 0 := by simp [unsubscribeLen]
    simp [decodeFrame, h0, decBody, decUnsubscribe, List.append_assoc, decU16_enc _ _ hp, h3,
      V4.decTopics_enc ts hts _ (Nat.le_refl _)]

theorem unsubReason_rt (r : UnsubReason) :
    unsubReasonByte r < 256 ∧ unsubReasonOfByte (unsubReasonByte r) = some r := by
  cases r <;> decide

theorem decReasons_enc (rs : List UnsubReason) :
    decReasons (rs.map fun x => u8 (unsubReasonByte x)) = .ok rs := by
  induction rs with
  | nil => rfl
  | cons x rs ih =>
    obtain ⟨h1, h2⟩ := unsubReason_rt x
    have hm : unsubReasonByte x % 256 = unsubReasonByte x := by omega
    simp [decReasons, hm, h2, ih]

theorem unsuback_ok (k : Copy) (pkid : Nat) (props : Option Props) (rs : List UnsubReason)
    (hp : pkid < 65536) (hne : rs ≠ []) (hpr : propsOk ackSpec props = true)
    (hl : 2 + rs.length + propsLen props ≤ remainingLimit) :
    ∃ e, PartsOk k (.unsuback pkid props rs) e := by
  obtain ⟨pb, h1, h2, h3⟩ := decProps_enc ackSpec props (rs.map fun x => u8 (unsubReasonByte x)) hpr
  refine ⟨⟨0xB0, 2 + rs.length + propsLen props,
      encU16 pkid ++ pb ++ rs.map (fun x => u8 (unsubReasonByte x))⟩,
    ⟨(by intro _ _ h; cases h), by simp [encParts, encUnsubAck, h1], ?_, hl,
     (by decide : (0xB0:Nat) < 256), (by simp [size]), ?_⟩⟩
  · simp [h2]; omega
  · intro r c
    have h0 : 2 + rs.length + propsLen props ≠ 0 := by omega
    have hemp : (rs.map fun x => u8 (unsubReasonByte x)).isEmpty = false := by
      cases rs <;> simp_all
    simp only [decodeFrame]
    simp [h0, decBody, decUnsubAck, List.append_assoc, decU16_enc _ _ hp, h3, hemp,
      decReasons_enc rs]


/-! ### CONNECT -/

theorem decWill_enc (flags : Nat) (will : Option Will) (r : Bytes) (c L : Nat)
    (hf : flags = c * 2 + optLen willFlags will + L) (hc : c ≤ 1)
    (hL : ∃ a b, L = a * 128 + b * 64 ∧ a ≤ 1 ∧ b ≤ 1)
    (hw : optAll willOk will = true) :
    ∃ wb, encOptWill will = .ok wb ∧ wb.length = optLen willLen will ∧
      decWill flags (wb ++ r) = .ok (will, r) := by
  obtain ⟨a, b, hL, ha, hb⟩ := hL
  cases will with
  | none =>
    simp only [optLen] at hf
    have h1 : flags / 4 % 2 = 0 := by omega
    have h2 : ¬ flags / 8 % 8 ≠ 0 := by omega
    exact ⟨[], rfl, rfl, by simp [decWill, h1, h2]⟩
  | some w =>
    obtain ⟨q, ρ, hwf, hq, hq2, hρ, hret⟩ := V4.willFlags_cases w
    simp only [optLen, hwf] at hf
    have h1 : ¬ flags / 4 % 2 = 0 := by omega
    have h3 : flags / 8 % 4 = w.qos.toNat := by omega
    have h4 : (flags / 32 % 2 ≠ 0) = (w.retain = true) := by
      have : flags / 32 % 2 = ρ := by omega
      rw [this]; exact propext hret
    have hqq : qosOfNat w.qos.toNat = some w.qos := by cases w.qos <;> rfl
    simp only [optAll, willOk, Bool.and_eq_true] at hw
    obtain ⟨⟨ht, hm⟩, hp⟩ := hw
    obtain ⟨topic, msg, qos, retain, props⟩ := w
    simp only at hp ht hm h3 h4 hqq
    obtain ⟨pb, hp1, hp2, hp3⟩ := decProps_enc willSpec props (encBytes16 topic ++ (encBytes16 msg ++ r)) hp
    refine ⟨pb ++ encBytes16 topic ++ encBytes16 msg, by simp [encOptWill, encWill, hp1], ?_, ?_⟩
    · simp [optLen, willLen, hp2]; omega
    · simp [decWill, h1, List.append_assoc, hp3, decBytes16_enc _ _ (strOk_len ht),
        decBytes16_enc _ _ (strOk_len hm), h3, hqq, h4]

theorem connect_ok (k : Copy) (keepAlive : Nat) (clientId : Bytes) (clean : Bool)
    (props : Option Props) (will : Option Will) (login : Option Login)
    (hka : keepAlive < 65536) (hc : strOk true clientId = true)
    (hpr : propsOk connectSpec props = true)
    (hw : optAll willOk will = true) (hl : optAll loginOk login = true)
    (hlim : connectLen props clientId will login ≤ remainingLimit) :
    ∃ e, PartsOk k (.connect 5 keepAlive clientId clean props will login) e := by
  obtain ⟨c, W, L, hflags, hc1, hclean, hW, hL⟩ := V4.connectFlags_shape clean will login
  have hLs : ∃ a b, L = a * 128 + b * 64 ∧ a ≤ 1 ∧ b ≤ 1 := by
    subst hL
    cases login with
    | none => exact ⟨0, 0, rfl, by omega, by omega⟩
    | some l => obtain ⟨a, b, h, ha, hb, _, _⟩ := V4.loginFlags_cases l; exact ⟨a, b, h, ha, hb⟩
  have hWs : W = 0 ∨ ∃ q ρ, W = 4 + q * 8 + ρ * 32 ∧ q ≤ 2 ∧ ρ ≤ 1 := by
    subst hW
    cases will with
    | none => exact Or.inl rfl
    | some w => obtain ⟨q, ρ, h, _, hq, hρ, _⟩ := V4.willFlags_cases w; exact Or.inr ⟨q, ρ, h, hq, hρ⟩
  have hflt : connectFlags clean will login < 256 := by
    obtain ⟨a, b, hL', ha, hb⟩ := hLs
    rcases hWs with h | ⟨q, ρ, h, hq, hρ⟩ <;> omega
  have hfmod : connectFlags clean will login % 256 = connectFlags clean will login := by omega
  have hcl : (connectFlags clean will login / 2 % 2 ≠ 0) = (clean = true) := by
    have : connectFlags clean will login / 2 % 2 = c := by
      obtain ⟨a, b, hL', ha, hb⟩ := hLs
      rcases hWs with h | ⟨q, ρ, h, hq, hρ⟩ <;> omega
    rw [this]; exact propext hclean
  have hmq : strOk true mqttName = true := by decide
  obtain ⟨wb, hw1, hw2, hw3⟩ := decWill_enc (connectFlags clean will login) will
    (optBytes encLogin login) c L (by rw [hflags, hW]) hc1 hLs hw
  obtain ⟨pb, hp1, hp2, hp3⟩ := decProps_enc connectSpec props
    (encBytes16 clientId ++ (wb ++ optBytes encLogin login)) hpr
  have hdl := V4.decLogin_enc (connectFlags clean will login) login [] (c * 2 + W)
    (by rw [hflags, hL]) (by rcases hWs with h | ⟨q, ρ, h, hq, hρ⟩ <;> omega) hl
  simp only [List.append_nil] at hdl
  have hll : (optBytes encLogin login).length = optLen loginLen login := by
    cases login with
    | none => rfl
    | some l => simp only [optBytes, optLen, encLogin, loginLen]; split <;> split <;> simp <;> omega
  refine ⟨⟨0x10, connectLen props clientId will login,
      encBytes16 mqttName ++ [u8 5] ++ [u8 (connectFlags clean will login)] ++ encU16 keepAlive ++ pb
        ++ encBytes16 clientId ++ wb ++ optBytes encLogin login⟩,
    ⟨(by intro _ _ h; cases h), by simp [encParts, encConnect, hp1, hw1], ?_, hlim,
     (by decide : (0x10:Nat) < 256), (by simp [size]), ?_⟩⟩
  · simp [connectLen, hp2, hw2, hll, mqttName]; omega
  · intro r cc
    have hlen0 : connectLen props clientId will login ≠ 0 := by simp [connectLen]
    simp only [decodeFrame, hlen0]
    simp [decBody, decConnect, List.append_assoc, decStr16_ok _ hmq, decU8, hfmod,
      decU16_enc _ _ hka, hp3, decStr16_ok _ hc, hw3, hdl, hcl]

/-! ### DISCONNECT -/

theorem discReason_rt (r : DiscReason) :
    discReasonByte r < 256 ∧ discReasonOfByte (discReasonByte r) = some r := by
  cases r <;> decide

theorem disconnectLen_eq (reason : DiscReason) (props : Option Props) :
    disconnectLen reason props = 1 + propsLen props := by
  cases props with
  | none => simp [disconnectLen, propsLen]
  | some ps => simp [disconnectLen, propsLen]

/-- every DISCONNECT except the plain one: `E0, remaining length, reason, property block` -/
theorem disconnect_full_ok (k : Copy) (reason : DiscReason) (props : Option Props) (max : Nat)
    (r : Bytes) (hnp : disconnectPlain reason props = false)
    (hpr : propsOk disconnectSpec props = true)
    (hl : 1 + propsLen props ≤ remainingLimit) (hmax : 1 + propsLen props ≤ max) :
    ∃ out, encodeRet k (.disconnect reason props) = .ok (out, out.length) ∧
      out.length = disconnectSize reason props ∧
      decode k max (out ++ r) = .packet (.disconnect reason props) r := by
  obtain ⟨h1, h2⟩ := discReason_rt reason
  obtain ⟨pb, hp1, hp2, hp3⟩ := decProps_enc disconnectSpec props [] hpr
  simp only [List.append_nil] at hp3
  have hpl := propsLen_pos props
  have hlen := disconnectLen_eq reason props
  have hN0 : 1 + propsLen props ≠ 0 := by omega
  have hb' : pb.length + 1 = 1 + propsLen props := by omega
  generalize 1 + propsLen props = N at *
  have hbody : ([u8 (discReasonByte reason)] ++ pb).length = N := by simp; omega
  refine ⟨u8 0xE0 :: (encVarintLoop N ++ ([u8 (discReasonByte reason)] ++ pb)), ?_, ?_, ?_⟩
  · simp only [encodeRet, encDisconnect, hlen, hnp, encVarint_ok _ hl, hp1]
    simp [encVarintLoop_length _ hl]; omega
  · simp only [disconnectSize, hlen, hnp]
    simp [encVarintLoop_length _ hl]; omega
  · have h := splitFrame_frame max 0xE0 ([u8 (discReasonByte reason)] ++ pb) r (by decide)
      (by rw [hbody]; exact hl) (by rw [hbody]; exact hmax)
    rw [hbody] at h
    simp only [decode, h]
    have hm : discReasonByte reason % 256 = discReasonByte reason := by omega
    simp [decodeFrame, hN0, decBody, decDisconnect, decU8, hm, h2, hp3]

/-- the two-byte form `E0 00` -/
theorem disconnect_plain_ok (k : Copy) (max : Nat) (r : Bytes) :
    encodeRet k (.disconnect .NormalDisconnection none) = .ok ([u8 0xE0, u8 0], 2) ∧
      disconnectSize .NormalDisconnection none = 2 ∧
      decode k max ([u8 0xE0, u8 0] ++ r) = .packet (.disconnect .NormalDisconnection none) r := by
  refine ⟨by simp [encodeRet, encDisconnect, disconnectLen, disconnectPlain],
    by simp [disconnectSize, disconnectLen, disconnectPlain], ?_⟩
  cases k <;> simp [decode, splitFrame, decVarint, u8, decodeFrame]

/-! ### all packets -/

/-- what the property asks of one packet value of copy `k` -/
def RoundTrips (k : Copy) (p : Packet) : Prop :=
  ∃ out, encode k p = .ok out ∧ writeReturn k p = .ok out.length ∧ out.length = size k p ∧
    ∀ max r, out.length ≤ max → decode k max (out ++ r) = .packet p r

theorem roundTrips_of_parts (k : Copy) (p : Packet) (e : Enc) (he : PartsOk k p e) :
    RoundTrips k p := by
  obtain ⟨out, h1, h2, h3, _⟩ := decode_encode_of_parts k p e e.len [] he (Nat.le_refl _)
  refine ⟨out, h1, h3, by rw [h2, he.sz], ?_⟩
  intro max r hmax
  obtain ⟨out', h1', _, _, h4'⟩ := decode_encode_of_parts k p e max r he
    (by rw [h2] at hmax; simp [sizeOfLen] at hmax; omega)
  rw [h1] at h1'; cases h1'; exact h4'

theorem roundTrips (k : Copy) (p : Packet) (h : wf k p = true) : RoundTrips k p := by
  cases p with
  | connect level keepAlive clientId clean props will login =>
    simp only [wf, Bool.and_eq_true, decide_eq_true_eq, beq_iff_eq] at h
    obtain ⟨⟨⟨⟨⟨⟨h1, h2⟩, h3⟩, h4⟩, h5⟩, h6⟩, h7⟩ := h
    subst h1
    obtain ⟨e, he⟩ := connect_ok k keepAlive clientId clean props will login h2 h3 h4 h5 h6 h7
    exact roundTrips_of_parts k _ e he
  | connack sp code props =>
    simp only [wf, Bool.and_eq_true, decide_eq_true_eq] at h
    obtain ⟨⟨⟨h1, _⟩, h3⟩, h4⟩ := h
    cases hc : connCodeByte code with
    | none => simp [hc] at h1
    | some c =>
      obtain ⟨e, he⟩ := connack_ok k sp code props c hc h3 h4
      exact roundTrips_of_parts _ _ e he
  | publish dup qos retain topic pkid payload props =>
    simp only [wf, Bool.and_eq_true, decide_eq_true_eq] at h
    obtain ⟨⟨⟨⟨h1, h2⟩, h3⟩, h4⟩, h5⟩ := h
    obtain ⟨e, he⟩ := publish_ok k dup qos retain topic pkid payload props h1 h2 h3 h4 h5
    exact roundTrips_of_parts k _ e he
  | puback pkid reason props =>
    simp only [wf, Bool.and_eq_true, decide_eq_true_eq] at h
    obtain ⟨e, he⟩ := (puback_ok k pkid reason props h.1.1 h.1.2 h.2).1
    exact roundTrips_of_parts k _ e he
  | pubrec pkid reason props =>
    simp only [wf, Bool.and_eq_true, decide_eq_true_eq] at h
    obtain ⟨e, he⟩ := (puback_ok k pkid reason props h.1.1 h.1.2 h.2).2
    exact roundTrips_of_parts k _ e he
  | pubrel pkid reason props =>
    simp only [wf, Bool.and_eq_true, decide_eq_true_eq] at h
    obtain ⟨e, he⟩ := (pubrel_ok k pkid reason props h.1.1 h.1.2 h.2).1
    exact roundTrips_of_parts k _ e he
  | pubcomp pkid reason props =>
    simp only [wf, Bool.and_eq_true, decide_eq_true_eq] at h
    obtain ⟨e, he⟩ := (pubrel_ok k pkid reason props h.1.1 h.1.2 h.2).2
    exact roundTrips_of_parts k _ e he
  | subscribe pkid props fs =>
    simp only [wf, Bool.and_eq_true, decide_eq_true_eq] at h
    obtain ⟨⟨⟨⟨h1, h2⟩, h3⟩, h4⟩, h5⟩ := h
    have hne : fs ≠ [] := by intro h; subst h; simp at h2
    obtain ⟨e, he⟩ := subscribe_ok k pkid props fs h1 hne h3 h4 h5
    exact roundTrips_of_parts k _ e he
  | suback pkid props cs =>
    simp only [wf, Bool.and_eq_true, decide_eq_true_eq] at h
    obtain ⟨⟨⟨⟨h1, h2⟩, h3⟩, h4⟩, h5⟩ := h
    have hne : cs ≠ [] := by intro h; subst h; simp at h2
    obtain ⟨e, he⟩ := suback_ok k pkid props cs h1 hne h3 h4 h5
    exact roundTrips_of_parts k _ e he
  | unsubscribe pkid props ts =>
    simp only [wf, Bool.and_eq_true, decide_eq_true_eq] at h
    obtain ⟨⟨⟨h1, h2⟩, h3⟩, h4⟩ := h
    obtain ⟨e, he⟩ := unsubscribe_ok k pkid props ts h1 h2 h3 h4
    exact roundTrips_of_parts k _ e he
  | unsuback pkid props rs =>
    simp only [wf, Bool.and_eq_true, decide_eq_true_eq] at h
    obtain ⟨⟨⟨h1, h2⟩, h3⟩, h4⟩ := h
    have hne : rs ≠ [] := by intro h; subst h; simp at h2
    obtain ⟨e, he⟩ := unsuback_ok k pkid props rs h1 hne h3 h4
    exact roundTrips_of_parts _ _ e he
  | pingreq => exact roundTrips_of_parts k _ _ (ping_ok k).1
  | pingresp => exact roundTrips_of_parts k _ _ (ping_ok k).2
  | disconnect reason props =>
    simp only [wf, Bool.and_eq_true, decide_eq_true_eq] at h
    obtain ⟨h1, h2⟩ := h
    by_cases hp : disconnectPlain reason props = true
    · simp only [disconnectPlain, Bool.and_eq_true, beq_iff_eq] at hp
      obtain ⟨hr, hn⟩ := hp
      have := isNone_eq hn
      subst hr; subst this
      refine ⟨[u8 0xE0, u8 0], ?_, ?_, ?_, ?_⟩
      · simp [encode, (disconnect_plain_ok k 0 []).1]
      · simp [writeReturn, (disconnect_plain_ok k 0 []).1]
      · simp [size, (disconnect_plain_ok k 0 []).2.1]
      · intro max r _; exact (disconnect_plain_ok k max r).2.2
    · have hnp : disconnectPlain reason props = false := by simpa using hp
      obtain ⟨out, e1, e2, _⟩ := disconnect_full_ok k reason props (1 + propsLen props) [] hnp h1 h2
        (Nat.le_refl _)
      refine ⟨out, by simp [encode, e1], by simp [writeReturn, e1], by simp [size, e2], ?_⟩
      intro max r hmax
      have hle : 1 + propsLen props ≤ max := by
        have hsz : out.length = disconnectSize reason props := e2
        simp only [disconnectSize, disconnectLen_eq, hnp] at hsz
        simp at hsz; omega
      obtain ⟨out', e1', _, e3'⟩ := disconnect_full_ok k reason props max r hnp h1 h2 hle
      rw [e1] at e1'; cases e1'; exact e3'

/-! ### the two copies produce the same bytes for the same content -/

theorem subCodeByte_toBroker (c : SubCode) (h : codeOk .client c = true) :
    subCodeByte .client c = subCodeByte .broker (toBrokerCode c) := by
  cases c with
  | Success q => cases q <;> rfl
  | Failure => simp [codeOk, subCodeByte, subCodeOfByte] at h
  | QoS0 => simp [codeOk, subCodeByte] at h
  | QoS1 => simp [codeOk, subCodeByte] at h
  | QoS2 => simp [codeOk, subCodeByte] at h
  | _ => rfl

theorem subCodeByte_toClient (c : SubCode) (h : codeOk .broker c = true) :
    subCodeByte .broker c = subCodeByte .client (toClientCode c) := by
  cases c with
  | Success q => cases q <;> simp [codeOk, subCodeByte, subCodeOfByte, QoS.toNat] at h
  | Failure => simp [codeOk, subCodeByte, subCodeOfByte] at h
  | _ => rfl

theorem encCodes_toBroker (cs : List SubCode) (h : cs.all (codeOk .client) = true) :
    encCodes .client cs = encCodes .broker (cs.map toBrokerCode) := by
  induction cs with
  | nil => rfl
  | cons c cs ih =>
    simp only [List.all_cons, Bool.and_eq_true] at h
    simp [encCodes, subCodeByte_toBroker c h.1, ih h.2]

theorem encCodes_toClient (cs : List SubCode) (h : cs.all (codeOk .broker) = true) :
    encCodes .broker cs = encCodes .client (cs.map toClientCode) := by
  induction cs with
  | nil => rfl
  | cons c cs ih =>
    simp only [List.all_cons, Bool.and_eq_true] at h
    simp [encCodes, subCodeByte_toClient c h.1, ih h.2]

theorem wf_codes (k : Copy) (pkid : Nat) (props : Option Props) (cs : List SubCode)
    (h : wf k (.suback pkid props cs) = true) : cs.all (codeOk k) = true := by
  simp only [wf, Bool.and_eq_true] at h
  exact h.1.1.2

theorem encodeRet_toBroker (p : Packet) (h : wf .client p = true) :
    encodeRet .client p = encodeRet .broker (toBroker p) := by
  cases p
  case suback pkid props cs =>
    have := encCodes_toBroker cs (wf_codes _ pkid props cs h)
    simp [encodeRet, encParts, encSubAck, toBroker, this]
  all_goals rfl

theorem encodeRet_toClient (q : Packet) (h : wf .broker q = true) :
    encodeRet .broker q = encodeRet .client (toClient q) := by
  cases q
  case suback pkid props cs =>
    have := encCodes_toClient cs (wf_codes _ pkid props cs h)
    simp [encodeRet, encParts, encSubAck, toClient, this]
  all_goals rfl


/-! ### well-formedness is the same notion in both crates (up to the SubAck renaming) -/

theorem codeOk_toBroker (c : SubCode) (h : codeOk .client c = true) :
    codeOk .broker (toBrokerCode c) = true := by
  cases c with
  | Success q => cases q <;> decide
  | Failure => simp [codeOk, subCodeByte, subCodeOfByte] at h
  | QoS0 => simp [codeOk, subCodeByte] at h
  | QoS1 => simp [codeOk, subCodeByte] at h
  | QoS2 => simp [codeOk, subCodeByte] at h
  | _ => decide

theorem codeOk_toClient (c : SubCode) (h : codeOk .broker c = true) :
    codeOk .client (toClientCode c) = true := by
  cases c with
  | Success q => cases q <;> simp [codeOk, subCodeByte, subCodeOfByte, QoS.toNat] at h
  | Failure => simp [codeOk, subCodeByte, subCodeOfByte] at h
  | _ => decide

theorem wf_suback_iff (k : Copy) (pkid : Nat) (props : Option Props) (cs : List SubCode) :
    wf k (.suback pkid props cs) = (decide (pkid < 65536) && !cs.isEmpty && cs.all (codeOk k)
      && propsOk ackSpec props && decide (2 + cs.length + propsLen props ≤ remainingLimit)) := rfl

theorem wf_toBroker (p : Packet) (h : wf .client p = true) : wf .broker (toBroker p) = true := by
  cases p
  case connack sp code props =>
    simp only [toBroker, wf, Bool.and_eq_true, decide_eq_true_eq] at h ⊢
    refine ⟨⟨⟨h.1.1.1, ?_⟩, h.1.2⟩, h.2⟩
    cases code <;> simp [connCodeByte] at h ⊢
  case suback pkid props cs =>
    simp only [toBroker, wf_suback_iff, Bool.and_eq_true, decide_eq_true_eq] at h ⊢
    obtain ⟨⟨⟨⟨h1, h2⟩, h3⟩, h4⟩, h5⟩ := h
    refine ⟨⟨⟨⟨h1, by simpa using h2⟩, ?_⟩, h4⟩, by simpa using h5⟩
    simp only [List.all_eq_true] at h3 ⊢
    intro c hc
    obtain ⟨c0, hc0, rfl⟩ := List.mem_map.mp hc
    exact codeOk_toBroker c0 (h3 c0 hc0)
  all_goals exact h

theorem wf_toClient (p : Packet) (h : wf .broker p = true) : wf .client (toClient p) = true := by
  cases p
  case connack sp code props =>
    simp only [toClient, wf, Bool.and_eq_true, decide_eq_true_eq] at h ⊢
    exact ⟨⟨⟨h.1.1.1, trivial⟩, h.1.2⟩, h.2⟩
  case suback pkid props cs =>
    simp only [toClient, wf_suback_iff, Bool.and_eq_true, decide_eq_true_eq] at h ⊢
    obtain ⟨⟨⟨⟨h1, h2⟩, h3⟩, h4⟩, h5⟩ := h
    refine ⟨⟨⟨⟨h1, by simpa using h2⟩, ?_⟩, h4⟩, by simpa using h5⟩
    simp only [List.all_eq_true] at h3 ⊢
    intro c hc
    obtain ⟨c0, hc0, rfl⟩ := List.mem_map.mp hc
    exact codeOk_toClient c0 (h3 c0 hc0)
  all_goals exact h

end Codec.V5
