import Model.Codec.V4
import Proofs.Lemmas.Codec.Wire

namespace Codec.V4
open Codec

/-- assembling a frame and splitting it again -/
theorem decode_encode_of_parts (k : Copy) (p : Packet) (e : Enc) (max : Nat) (r : Bytes)
    (he : encParts k p = .ok e) (hlen : e.body.length = e.len) (hlim : e.len ≤ remainingLimit)
    (hmax : e.len ≤ max) (hb : e.byte1 < 256)
    (hdec : ∀ c, decodeFrame k ⟨e.byte1, e.len, e.body, r, c⟩ = .packet p r) :
    ∃ out, encode k p = .ok out ∧ out.length = sizeOfLen e.len ∧
      writeReturn k p = .ok out.length ∧ decode k max (out ++ r) = .packet p r := by
  refine ⟨u8 e.byte1 :: (encVarintLoop e.len ++ e.body), ?_, ?_, ?_, ?_⟩
  · simp [encode, he, frame_ok _ _ _ hlim]
  · simp [sizeOfLen, encVarintLoop_length _ hlim, hlen]; omega
  · simp [writeReturn, he, encVarint_ok _ hlim, hlen]; omega
  · have h := splitFrame_frame max e.byte1 e.body r hb (by omega) (by omega)
    rw [hlen] at h
    simp only [decode, h]
    exact hdec _


/-- everything the round-trip needs to know about the parts the writer produces -/
structure PartsOk (k : Copy) (p : Packet) (e : Enc) : Prop where
  enc : encParts k p = .ok e
  len : e.body.length = e.len
  lim : e.len ≤ remainingLimit
  byte : e.byte1 < 256
  dec : ∀ r c, decodeFrame k ⟨e.byte1, e.len, e.body, r, c⟩ = .packet p r

theorem strOk_len {u s} (h : strOk u s = true) : s.length ≤ 65535 := by
  simp [strOk] at h; exact h.1

theorem strOk_utf8 {u s} (h : strOk u s = true) : u = true → validUtf8 s = true := by
  simp [strOk] at h; intro hu; subst hu; simpa using h.2

theorem decStr16_ok {u s} (r : Bytes) (h : strOk u s = true) :
    decStr16 u (encBytes16 s ++ r) = .ok (s, r) :=
  decStr16_enc u s r (strOk_len h) (strOk_utf8 h)

/-! ### acks, pings, disconnect -/

theorem ack_ok (k : Copy) (pkid : Nat) (h : pkid < 65536) :
    PartsOk k (.puback pkid .Success none) (encAck 0x40 pkid) ∧
    PartsOk k (.pubrec pkid .Success none) (encAck 0x50 pkid) ∧
    PartsOk k (.pubrel pkid .Success none) (encAck 0x62 pkid) ∧
    PartsOk k (.pubcomp pkid .Success none) (encAck 0x70 pkid) ∧
    PartsOk k (.unsuback pkid none []) (encAck 0xB0 pkid) := by
  have hd := decU16_enc pkid [] h
  simp only [List.append_nil] at hd
  have hl : (2 : Nat) ≤ remainingLimit := by decide
  refine ⟨⟨rfl, rfl, hl, by simp [encAck], ?_⟩, ⟨rfl, rfl, hl, by simp [encAck], ?_⟩,
    ⟨rfl, rfl, hl, by simp [encAck], ?_⟩, ⟨rfl, rfl, hl, by simp [encAck], ?_⟩,
    ⟨rfl, rfl, hl, by simp [encAck], ?_⟩⟩ <;> intro r c <;>
    simp [decodeFrame, encAck, decBody, decAckPkid, decUnsubAck, hd]

theorem fixed_ok (k : Copy) :
    PartsOk k .pingreq ⟨0xC0, 0, []⟩ ∧ PartsOk k .pingresp ⟨0xD0, 0, []⟩ ∧
    PartsOk k (.disconnect .NormalDisconnection none) ⟨0xE0, 0, []⟩ := by
  refine ⟨⟨rfl, rfl, by decide, by decide, ?_⟩, ⟨rfl, rfl, by decide, by decide, ?_⟩,
    ⟨rfl, rfl, by decide, by decide, ?_⟩⟩ <;> intro r c <;> simp [decodeFrame]


/-! ### CONNACK -/

theorem connCode_roundtrip (k : Copy) (code : ConnCode) (c : Nat)
    (h : connCodeByte k code = some c) : c < 256 ∧ connCodeOfByte k c = some code := by
  cases k <;> cases code <;> simp [connCodeByte] at h <;> subst h <;> simp [connCodeOfByte]

theorem connack_ok (k : Copy) (sp : Bool) (code : ConnCode) (c : Nat)
    (h : connCodeByte k code = some c) :
    PartsOk k (.connack sp code none) ⟨0x20, 2, [u8 (boolBit sp), u8 c]⟩ := by
  obtain ⟨hc, hdec⟩ := connCode_roundtrip k code c h
  refine ⟨by simp [encParts, encConnAck, h], rfl, (by decide : (2:Nat) ≤ remainingLimit), (by decide : (0x20:Nat) < 256), ?_⟩
  intro r cc
  have h1 : c % 256 = c := by omega
  cases sp <;> simp [decodeFrame, decBody, decConnAck, decU8, boolBit, h1, hdec]

/-! ### PUBLISH -/

theorem publishByte1_lt (dup : Bool) (qos : QoS) (retain : Bool) :
    publishByte1 dup qos retain < 256 := by
  cases dup <;> cases qos <;> cases retain <;> decide

theorem publish_ok (k : Copy) (dup : Bool) (qos : QoS) (retain : Bool) (topic : Bytes) (pkid : Nat)
    (payload : Bytes) (hp : pkid < 65536) (hq : qos = .q0 ↔ pkid = 0)
    (ht : strOk (k == .client) topic = true)
    (hl : publishLen k qos topic pkid payload ≤ remainingLimit) :
    PartsOk k (.publish dup qos retain topic pkid payload none)
      ⟨publishByte1 dup qos retain, publishLen k qos topic pkid payload,
       encBytes16 topic ++ (if qos ≠ .q0 then encU16 pkid else []) ++ payload⟩ := by
  have hne : ¬ (qos ≠ .q0 ∧ pkid = 0) := by
    intro ⟨a, b⟩; exact a (hq.mpr b)
  refine ⟨by simp [encParts, encPublish, hne], ?_, hl, publishByte1_lt _ _ _, ?_⟩
  · cases k <;> cases qos <;> simp_all [publishLen] <;> omega
  · intro r c
    have hlenpos : publishLen k qos topic pkid payload ≠ 0 := by
      cases k <;> simp [publishLen] <;> split <;> omega
    have hty : publishByte1 dup qos retain / 16 = 3 := by
      cases dup <;> cases qos <;> cases retain <;> decide
    have hqq : qosOfNat (publishByte1 dup qos retain / 2 % 4) = some qos := by
      cases dup <;> cases qos <;> cases retain <;> decide
    have hdup : (publishByte1 dup qos retain / 8 % 2 ≠ 0) = (dup = true) := by
      cases dup <;> cases qos <;> cases retain <;> decide
    have hret : (publishByte1 dup qos retain % 2 ≠ 0) = (retain = true) := by
      cases dup <;> cases qos <;> cases retain <;> decide
    simp only [decodeFrame, hty, hlenpos]
    simp only [decBody, decPublish, hqq]
    cases qos with
    | q0 =>
      have : pkid = 0 := hq.mp rfl
      subst this
      simp [decStr16_ok _ ht, hdup, hret]
    | q1 =>
      have hp0 : pkid ≠ 0 := fun h => by have := hq.mpr h; cases this
      simp [List.append_assoc, decStr16_ok _ ht, decU16_enc _ _ hp, hp0, hdup, hret]
    | q2 =>
      have hp0 : pkid ≠ 0 := fun h => by have := hq.mpr h; cases this
      simp [List.append_assoc, decStr16_ok _ ht, decU16_enc _ _ hp, hp0, hdup, hret]


/-! ### SUBSCRIBE -/

def filterOk (f : Filter) : Bool :=
  strOk true f.path && !f.nolocal && !f.preserveRetain && f.rule == .OnEverySubscribe

theorem encFilters_length (fs : List Filter) :
    (encFilters fs).length = (fs.map filterLen).sum := by
  induction fs with
  | nil => rfl
  | cons f fs ih => simp [encFilters, encFilter, filterLen, ih]; omega

theorem decFilter_enc (f : Filter) (r : Bytes) (h : filterOk f = true) :
    decFilter (encFilter f ++ r) = .ok (f, r) := by
  obtain ⟨path, qos, nl, pr, rule⟩ := f
  simp [filterOk] at h
  obtain ⟨⟨⟨h1, h2⟩, h3⟩, h4⟩ := h
  subst h2 h3 h4
  have hq : qosOfNat (qos.toNat % 4) = some qos := by cases qos <;> decide
  simp [decFilter, encFilter, List.append_assoc, decStr16_ok _ h1, decU8, hq]

theorem decFilters_enc (fs : List Filter) (h : fs.all filterOk = true) :
    ∀ fuel, (encFilters fs).length ≤ fuel → decFilters fuel (encFilters fs) = .ok fs := by
  induction fs with
  | nil => intro fuel _; cases fuel <;> simp [decFilters, encFilters]
  | cons f fs ih =>
    intro fuel hf
    simp only [List.all_cons, Bool.and_eq_true] at h
    have hlen : (encFilter f).length ≥ 3 := by simp [encFilter]
    have hlen2 : (encFilters (f :: fs)).length = (encFilter f).length + (encFilters fs).length := by
      simp [encFilters]
    cases fuel with
    | zero => omega
    | succ fuel =>
      have hne : (encFilters (f :: fs)).isEmpty = false := by
        cases hc : encFilters (f :: fs) with
        | nil => rw [hc] at hlen2; simp at hlen2; omega
        | cons _ _ => rfl
      simp only [decFilters, hne]
      simp only [encFilters, decFilter_enc f _ h.1]
      rw [ih h.2 fuel (by omega)]
      simp

theorem subscribe_ok (k : Copy) (pkid : Nat) (fs : List Filter) (hp : pkid < 65536)
    (hne : fs ≠ []) (hfs : fs.all filterOk = true) (hl : subscribeLen fs ≤ remainingLimit) :
    PartsOk k (.subscribe pkid none fs) (encSubscribe pkid fs) := by
  refine ⟨rfl, ?_, hl, by simp [encSubscribe], ?_⟩
  · simp [encSubscribe, subscribeLen, encFilters_length]
  · intro r c
    have h0 : subscribeLen fs ≠ 0 := by simp [subscribeLen]
    have hemp : fs.isEmpty = false := by cases fs <;> simp_all
    simp [decodeFrame, encSubscribe, h0, decBody, decSubscribe, decU16_enc _ _ hp,
      decFilters_enc fs hfs _ (Nat.le_refl _), hemp]

/-! ### SUBACK -/

def codeOk : SubCode → Bool
  | .Success _ => true
  | .Failure => true
  | _ => false

theorem codes_enc (k : Copy) (cs : List SubCode) (h : cs.all codeOk = true) :
    ∃ bs, encCodes k cs = some bs ∧ bs.length = cs.length ∧ decCodes bs = .ok cs := by
  induction cs with
  | nil => exact ⟨[], rfl, rfl, rfl⟩
  | cons c cs ih =>
    simp only [List.all_cons, Bool.and_eq_true] at h
    obtain ⟨bs, h1, h2, h3⟩ := ih h.2
    cases c <;> simp [codeOk] at h
    · rename_i q
      refine ⟨u8 q.toNat :: bs, by simp [encCodes, subCodeByte, h1], by simp [h2], ?_⟩
      have : subCodeOfByte (q.toNat % 256) = some (.Success q) := by cases q <;> decide
      simp [decCodes, this, h3]
    · refine ⟨u8 0x80 :: bs, by simp [encCodes, subCodeByte, h1], by simp [h2], ?_⟩
      simp [decCodes, subCodeOfByte, h3]

theorem suback_ok (k : Copy) (pkid : Nat) (cs : List SubCode) (hp : pkid < 65536)
    (hne : cs ≠ []) (hcs : cs.all codeOk = true) (hl : 2 + cs.length ≤ remainingLimit) :
    ∃ e, PartsOk k (.suback pkid none cs) e ∧ e.len = 2 + cs.length := by
  obtain ⟨bs, h1, h2, h3⟩ := codes_enc k cs hcs
  refine ⟨⟨0x90, 2 + cs.length, encU16 pkid ++ bs⟩, ⟨?_, ?_, hl, (by decide : (0x90:Nat) < 256), ?_⟩, rfl⟩
  · simp [encParts, encSubAck, h1]
  · simp [h2]
  · intro r c
    have hbs : bs.isEmpty = false := by
      cases bs with
      | nil => cases cs <;> simp_all
      | cons _ _ => rfl
    simp [decodeFrame, decBody, decSubAck, decU16_enc _ _ hp, hbs, h3]

/-! ### UNSUBSCRIBE -/

theorem encTopics_length (ts : List Bytes) :
    (encTopics ts).length = (ts.map fun t => t.length + 2).sum := by
  induction ts with
  | nil => rfl
  | cons t ts ih => simp [encTopics, ih]; omega

theorem decTopics_enc (ts : List Bytes) (h : ts.all (strOk true) = true) :
    ∀ fuel, (encTopics ts).length ≤ fuel → decTopics fuel (encTopics ts) = .ok ts := by
  induction ts with
  | nil => intro fuel _; cases fuel <;> simp [decTopics, encTopics]
  | cons t ts ih =>
    intro fuel hf
    simp only [List.all_cons, Bool.and_eq_true] at h
    cases fuel with
    | zero => simp [encTopics] at hf
    | succ fuel =>
      have hne : (encTopics (t :: ts)).isEmpty = false := by
        cases hc : encTopics (t :: ts) with
        | nil => simp [encTopics, encBytes16, encU16] at hc
        | cons _ _ => rfl
      simp only [decTopics, hne]
      simp only [encTopics, decStr16_ok _ h.1]
      rw [ih h.2 fuel (by simp [encTopics] at hf; omega)]
      simp

theorem unsubscribe_ok (k : Copy) (pkid : Nat) (ts : List Bytes) (hp : pkid < 65536)
    (hts : ts.all (strOk true) = true) (hl : unsubscribeLen ts ≤ remainingLimit) :
    PartsOk k (.unsubscribe pkid none ts) (encUnsubscribe pkid ts) := by
  refine ⟨rfl, ?_, hl, by simp [encUnsubscribe], ?_⟩
  · simp [encUnsubscribe, unsubscribeLen, encTopics_length]
  · intro r c
    have h0 : unsubscribeLen ts ≠ 0 := by simp [unsubscribeLen]
    simp [decodeFrame, encUnsubscribe, h0, decBody, decUnsubscribe, decU16_enc _ _ hp,
      decTopics_enc ts hts _ (Nat.le_refl _)]


/-! ### CONNECT -/

theorem willFlags_cases (w : Will) :
    ∃ q ρ, willFlags w = 4 + q * 8 + ρ * 32 ∧ q = w.qos.toNat ∧ q ≤ 2 ∧ ρ ≤ 1 ∧
      (ρ ≠ 0 ↔ w.retain = true) := by
  refine ⟨w.qos.toNat, if w.retain then 1 else 0, ?_, rfl, ?_, ?_, ?_⟩
  · simp [willFlags]; split <;> omega
  · cases w.qos <;> simp [QoS.toNat]
  · split <;> omega
  · cases w.retain <;> simp

theorem loginFlags_cases (l : Login) :
    ∃ a b, loginFlags l = a * 128 + b * 64 ∧ a ≤ 1 ∧ b ≤ 1 ∧
      (a = 0 ↔ l.username.isEmpty = true) ∧ (b = 0 ↔ l.password.isEmpty = true) := by
  refine ⟨if l.username.isEmpty then 0 else 1, if l.password.isEmpty then 0 else 1, ?_, ?_, ?_, ?_, ?_⟩
  · simp [loginFlags]; split <;> split <;> omega
  · split <;> omega
  · split <;> omega
  · cases l.username.isEmpty <;> simp
  · cases l.password.isEmpty <;> simp

/-- the flags byte as a number: clean·2 + W + L with W the will part and L the login part -/
theorem connectFlags_shape (clean : Bool) (will : Option Will) (login : Option Login) :
    ∃ c W L, connectFlags clean will login = c * 2 + W + L ∧ c ≤ 1 ∧ (c ≠ 0 ↔ clean = true) ∧
      W = optLen willFlags will ∧ L = optLen loginFlags login := by
  refine ⟨if clean then 1 else 0, _, _, ?_, ?_, ?_, rfl, rfl⟩
  · simp [connectFlags]; split <;> omega
  · split <;> omega
  · cases clean <;> simp

theorem decWill_enc (k : Copy) (flags : Nat) (will : Option Will) (r : Bytes) (c L : Nat)
    (hf : flags = c * 2 + optLen willFlags will + L) (hc : c ≤ 1)
    (hL : ∃ a b, L = a * 128 + b * 64 ∧ a ≤ 1 ∧ b ≤ 1)
    (hw : optAll (willOk k) will = true) :
    decWill k flags (optBytes encWill will ++ r) = .ok (will, r) := by
  obtain ⟨a, b, hL, ha, hb⟩ := hL
  cases will with
  | none =>
    simp only [optLen] at hf
    have h1 : flags / 4 % 2 = 0 := by omega
    have h2 : ¬ flags / 8 % 8 ≠ 0 := by omega
    simp [decWill, h1, h2, optBytes]
  | some w =>
    obtain ⟨q, ρ, hwf, hq, hq2, hρ, hret⟩ := willFlags_cases w
    simp only [optLen, hwf] at hf
    have h1 : ¬ flags / 4 % 2 = 0 := by omega
    have h3 : flags / 8 % 4 = w.qos.toNat := by omega
    have h4 : (flags / 32 % 2 ≠ 0) = (w.retain = true) := by
      have : flags / 32 % 2 = ρ := by omega
      rw [this]; exact propext hret
    have hqq : qosOfNat w.qos.toNat = some w.qos := by cases w.qos <;> rfl
    simp only [optAll, willOk, Bool.and_eq_true] at hw
    obtain ⟨⟨ht, hm⟩, hp⟩ := hw
    have hp' : w.props = none := by simpa using hp
    obtain ⟨topic, msg, qos, retain, props⟩ := w
    simp only at hp' ht hm h3 h4 hqq
    subst hp'
    simp [decWill, h1, optBytes, encWill, List.append_assoc, decStr16_ok _ ht,
      decBytes16_enc _ _ (strOk_len hm), h3, hqq, h4]

theorem decLogin_enc (flags : Nat) (login : Option Login) (r : Bytes) (low : Nat)
    (hf : flags = low + optLen loginFlags login) (hlow : low < 64)
    (hl : optAll loginOk login = true) :
    decLogin flags (optBytes encLogin login ++ r) = .ok (login, r) := by
  cases login with
  | none =>
    simp only [optLen] at hf
    have h1 : flags / 128 % 2 = 0 := by omega
    have h2 : flags / 64 % 2 = 0 := by omega
    simp [decLogin, h1, h2, optBytes]
  | some l =>
    obtain ⟨a, b, hlf, ha, hb, hau, hbp⟩ := loginFlags_cases l
    simp only [optLen, hlf] at hf
    have h1 : flags / 128 % 2 = a := by omega
    have h2 : flags / 64 % 2 = b := by omega
    simp only [optAll, loginOk, Bool.and_eq_true] at hl
    obtain ⟨⟨hu, hp⟩, hne⟩ := hl
    obtain ⟨user, pass⟩ := l
    simp only at hu hp hne hau hbp
    simp only [decLogin, h1, h2, optBytes, encLogin]
    cases hue : user.isEmpty <;> cases hpe : pass.isEmpty
    · have ha1 : ¬ a = 0 := by rw [hau]; simp [hue]
      have hb1 : ¬ b = 0 := by rw [hbp]; simp [hpe]
      simp [ha1, hb1, List.append_assoc, decStr16_ok _ hu, decStr16_ok _ hp, hue, hpe]
    · have ha1 : ¬ a = 0 := by rw [hau]; simp [hue]
      have hb1 : b = 0 := by rw [hbp]; exact hpe
      have : pass = [] := by simpa using hpe
      subst this
      simp [ha1, hb1, decStr16_ok _ hu, hue]
    · have ha1 : a = 0 := by rw [hau]; exact hue
      have hb1 : ¬ b = 0 := by rw [hbp]; simp [hpe]
      have : user = [] := by simpa using hue
      subst this
      simp [ha1, hb1, decStr16_ok _ hp, hpe]
    · simp [hue, hpe] at hne

theorem connectLen_le (clientId : Bytes) (will : Option Will) (login : Option Login) (k : Copy)
    (hc : strOk true clientId = true) (hw : optAll (willOk k) will = true)
    (hl : optAll loginOk login = true) : connectLen clientId will login ≤ remainingLimit := by
  have h1 := strOk_len hc
  have h2 : optLen willLen will ≤ 2 + 65535 + 2 + 65535 := by
    cases will with
    | none => simp [optLen]
    | some w =>
      simp only [optAll, willOk, Bool.and_eq_true] at hw
      have := strOk_len hw.1.1; have := strOk_len hw.1.2
      simp [optLen, willLen]; omega
  have h3 : optLen loginLen login ≤ 2 + 65535 + 2 + 65535 := by
    cases login with
    | none => simp [optLen]
    | some l =>
      simp only [optAll, loginOk, Bool.and_eq_true] at hl
      have := strOk_len hl.1.1; have := strOk_len hl.1.2
      simp only [optLen, loginLen]; split <;> split <;> omega
  simp only [connectLen, remainingLimit]; omega

theorem connect_body_length (k : Copy) (level keepAlive : Nat) (clientId : Bytes) (clean : Bool)
    (will : Option Will) (login : Option Login) :
    (encConnect k level keepAlive clientId clean will login).body.length
      = connectLen clientId will login := by
  have hw : (optBytes encWill will).length = optLen willLen will := by
    cases will <;> simp [optBytes, optLen, encWill, willLen]; omega
  have hl : (optBytes encLogin login).length = optLen loginLen login := by
    cases login with
    | none => rfl
    | some l => simp only [optBytes, optLen, encLogin, loginLen]; split <;> split <;> simp <;> omega
  simp [encConnect, connectLen, hw, hl, mqttName]; omega

theorem connect_ok (k : Copy) (level keepAlive : Nat) (clientId : Bytes) (clean : Bool)
    (will : Option Will) (login : Option Login) (hlev : levelOk k level = true)
    (hka : keepAlive < 65536) (hc : strOk true clientId = true)
    (hw : optAll (willOk k) will = true) (hl : optAll loginOk login = true) :
    PartsOk k (.connect level keepAlive clientId clean none will login)
      (encConnect k level keepAlive clientId clean will login) := by
  have hwp : willHasProps will = false := by
    cases will with
    | none => rfl
    | some w =>
      simp only [optAll, willOk, Bool.and_eq_true] at hw
      have := hw.2; cases hp : w.props <;> simp_all [willHasProps]
  refine ⟨by simp [encParts, hwp], connect_body_length .., connectLen_le _ _ _ k hc hw hl,
    by simp [encConnect], ?_⟩
  intro r cc
  obtain ⟨c, W, L, hflags, hc1, hclean, hW, hL⟩ := connectFlags_shape clean will login
  have hLs : ∃ a b, L = a * 128 + b * 64 ∧ a ≤ 1 ∧ b ≤ 1 := by
    subst hL
    cases login with
    | none => exact ⟨0, 0, rfl, by omega, by omega⟩
    | some l => obtain ⟨a, b, h, ha, hb, _, _⟩ := loginFlags_cases l; exact ⟨a, b, h, ha, hb⟩
  have hWs : W = 0 ∨ ∃ q ρ, W = 4 + q * 8 + ρ * 32 ∧ q ≤ 2 ∧ ρ ≤ 1 := by
    subst hW
    cases will with
    | none => exact Or.inl rfl
    | some w => obtain ⟨q, ρ, h, _, hq, hρ, _⟩ := willFlags_cases w; exact Or.inr ⟨q, ρ, h, hq, hρ⟩
  have hflt : connectFlags clean will login < 256 := by
    obtain ⟨a, b, hL', ha, hb⟩ := hLs
    rcases hWs with h | ⟨q, ρ, h, hq, hρ⟩ <;> omega
  have hfmod : connectFlags clean will login % 256 = connectFlags clean will login := by omega
  have hlevb : levelByte k level = level := by
    cases k <;> simp [levelByte, levelOk] at hlev ⊢; omega
  have hlevlt : level < 256 := by
    cases k <;> simp [levelOk] at hlev <;> omega
  have hlevmod : level % 256 = level := by omega
  have hlen0 : connectLen clientId will login ≠ 0 := by simp [connectLen]
  have hcl : (connectFlags clean will login / 2 % 2 ≠ 0) = (clean = true) := by
    have : connectFlags clean will login / 2 % 2 = c := by
      obtain ⟨a, b, hL', ha, hb⟩ := hLs
      rcases hWs with h | ⟨q, ρ, h, hq, hρ⟩ <;> omega
    rw [this]; exact propext hclean
  have hmq : strOk true mqttName = true := by decide
  have hdw := decWill_enc k (connectFlags clean will login) will (optBytes encLogin login)
    c L (by rw [hflags, hW]) hc1 hLs hw
  have hdl := decLogin_enc (connectFlags clean will login) login [] (c * 2 + W)
    (by rw [hflags, hL]) (by rcases hWs with h | ⟨q, ρ, h, hq, hρ⟩ <;> omega) hl
  simp only [decodeFrame, encConnect, hlen0]
  simp [decBody, decConnect, List.append_assoc, decStr16_ok _ hmq, decU8, hlevb, hlevmod, hlev,
    hfmod, decU16_enc _ _ hka, decStr16_ok _ hc, hdw, hcl]
  simp only [List.append_nil] at hdl
  simp [hdl]


/-! ### all packets -/

theorem isNone_eq {α} {o : Option α} (h : o.isNone = true) : o = none := by
  cases o <;> simp_all

theorem parts_ok (k : Copy) (p : Packet) (h : wf k p = true) : ∃ e, PartsOk k p e := by
  cases p with
  | connect level keepAlive clientId clean props will login =>
    simp only [wf, Bool.and_eq_true, decide_eq_true_eq] at h
    obtain ⟨⟨⟨⟨⟨h1, h2⟩, h3⟩, h4⟩, h5⟩, h6⟩ := h
    have := isNone_eq h4; subst this
    exact ⟨_, connect_ok k level keepAlive clientId clean will login h1 h2 h3 h5 h6⟩
  | connack sp code props =>
    simp only [wf, Bool.and_eq_true] at h
    have := isNone_eq h.1; subst this
    cases hc : connCodeByte k code with
    | none => simp [hc] at h
    | some c => exact ⟨_, connack_ok k sp code c hc⟩
  | publish dup qos retain topic pkid payload props =>
    simp only [wf, Bool.and_eq_true, decide_eq_true_eq] at h
    obtain ⟨⟨⟨⟨h1, h2⟩, h3⟩, h4⟩, h5⟩ := h
    have := isNone_eq h1; subst this
    exact ⟨_, publish_ok k dup qos retain topic pkid payload h2 h3 h4 h5⟩
  | puback pkid reason props =>
    simp only [wf, Bool.and_eq_true, decide_eq_true_eq, beq_iff_eq] at h
    obtain ⟨⟨h1, h2⟩, h3⟩ := h
    have := isNone_eq h3; subst this; subst h2
    exact ⟨_, (ack_ok k pkid h1).1⟩
  | pubrec pkid reason props =>
    simp only [wf, Bool.and_eq_true, decide_eq_true_eq, beq_iff_eq] at h
    obtain ⟨⟨h1, h2⟩, h3⟩ := h
    have := isNone_eq h3; subst this; subst h2
    exact ⟨_, (ack_ok k pkid h1).2.1⟩
  | pubrel pkid reason props =>
    simp only [wf, Bool.and_eq_true, decide_eq_true_eq, beq_iff_eq] at h
    obtain ⟨⟨h1, h2⟩, h3⟩ := h
    have := isNone_eq h3; subst this; subst h2
    exact ⟨_, (ack_ok k pkid h1).2.2.1⟩
  | pubcomp pkid reason props =>
    simp only [wf, Bool.and_eq_true, decide_eq_true_eq, beq_iff_eq] at h
    obtain ⟨⟨h1, h2⟩, h3⟩ := h
    have := isNone_eq h3; subst this; subst h2
    exact ⟨_, (ack_ok k pkid h1).2.2.2.1⟩
  | subscribe pkid props fs =>
    simp only [wf, Bool.and_eq_true, decide_eq_true_eq] at h
    obtain ⟨⟨⟨⟨h1, h2⟩, h3⟩, h4⟩, h5⟩ := h
    have := isNone_eq h2; subst this
    have hne : fs ≠ [] := by intro h; subst h; simp at h3
    have h4' : fs.all filterOk = true := by
      simp only [List.all_eq_true] at h4 ⊢
      intro f hf; simpa [filterOk, Bool.and_assoc] using h4 f hf
    exact ⟨_, subscribe_ok k pkid fs h1 hne h4' h5⟩
  | suback pkid props cs =>
    simp only [wf, Bool.and_eq_true, decide_eq_true_eq] at h
    obtain ⟨⟨⟨⟨h1, h2⟩, h3⟩, h4⟩, h5⟩ := h
    have := isNone_eq h2; subst this
    have hne : cs ≠ [] := by intro h; subst h; simp at h3
    have h4' : cs.all codeOk = true := by
      simp only [List.all_eq_true] at h4 ⊢
      intro c hc; have := h4 c hc; cases c <;> simp_all [codeOk]
    obtain ⟨e, he, _⟩ := suback_ok k pkid cs h1 hne h4' h5
    exact ⟨e, he⟩
  | unsubscribe pkid props ts =>
    simp only [wf, Bool.and_eq_true, decide_eq_true_eq] at h
    obtain ⟨⟨⟨h1, h2⟩, h3⟩, h4⟩ := h
    have := isNone_eq h2; subst this
    exact ⟨_, unsubscribe_ok k pkid ts h1 h3 h4⟩
  | unsuback pkid props reasons =>
    simp only [wf, Bool.and_eq_true, decide_eq_true_eq] at h
    obtain ⟨⟨h1, h2⟩, h3⟩ := h
    have := isNone_eq h2; subst this
    have : reasons = [] := by simpa using h3
    subst this
    exact ⟨_, (ack_ok k pkid h1).2.2.2.2⟩
  | pingreq => exact ⟨_, (fixed_ok k).1⟩
  | pingresp => exact ⟨_, (fixed_ok k).2.1⟩
  | disconnect reason props =>
    simp only [wf, Bool.and_eq_true, beq_iff_eq] at h
    have := isNone_eq h.2; subst this
    have := h.1; subst this
    exact ⟨_, (fixed_ok k).2.2⟩

/-- the client's `size()` equals `1 + len_len(len) + len` of the parts that `write` produces -/
theorem size_eq (k : Copy) (p : Packet) (e : Enc) (h : wf k p = true)
    (he : encParts k p = .ok e) : size k p = sizeOfLen e.len := by
  cases p <;> simp only [encParts, wf, Bool.and_eq_true, decide_eq_true_eq] at he h
  case connect level keepAlive clientId clean props will login =>
    have hp := isNone_eq h.1.1.2
    have : willHasProps will = false := by
      cases will with
      | none => rfl
      | some w => have := h.1.2; simp [optAll, willOk] at this; simp [willHasProps, this.2]
    simp [hp, this] at he; subst he; simp [size]
  case connack sp code props =>
    cases hc : connCodeByte k code <;> simp [encConnAck, hc] at he
    subst he; simp [size]
  case publish dup qos retain topic pkid payload props =>
    have hp := isNone_eq h.1.1.1.1
    have hne : ¬ (qos ≠ .q0 ∧ pkid = 0) := by
      intro ⟨a, b⟩; exact a (h.1.1.2.mpr b)
    simp [hp, encPublish, hne] at he; subst he; simp [size]
  case puback => have hp := isNone_eq h.2; simp [hp] at he; subst he; simp [size, encAck]
  case pubrec => have hp := isNone_eq h.2; simp [hp] at he; subst he; simp [size, encAck]
  case pubrel => have hp := isNone_eq h.2; simp [hp] at he; subst he; simp [size, encAck]
  case pubcomp => have hp := isNone_eq h.2; simp [hp] at he; subst he; simp [size, encAck]
  case subscribe =>
    have hp := isNone_eq h.1.1.1.2; simp [hp] at he; subst he; simp [size, encSubscribe]
  case suback pkid props cs =>
    have hp := isNone_eq h.1.1.1.2
    cases hc : encCodes k cs <;> simp [hp, encSubAck, hc] at he
    subst he; simp [size]
  case unsubscribe =>
    have hp := isNone_eq h.1.1.2; simp [hp] at he; subst he; simp [size, encUnsubscribe]
  case unsuback => have hp := isNone_eq h.1.2; simp [hp] at he; subst he; simp [size, encAck]
  case pingreq => cases he; simp [size, sizeOfLen, lenLen]
  case pingresp => cases he; simp [size, sizeOfLen, lenLen]
  case disconnect =>
    have hp := isNone_eq h.2; simp [hp] at he; subst he; simp [size, sizeOfLen, lenLen]


/-! ### the two copies produce the same bytes for the same content -/

theorem toBroker_not_connack (p : Packet) (h : ∀ sp code props, p ≠ .connack sp code props) :
    toBroker p = p := by
  cases p <;> first | rfl | exact absurd rfl (h _ _ _)

theorem toClient_not_connack (p : Packet) (h : ∀ sp code props, p ≠ .connack sp code props) :
    toClient p = p := by
  cases p <;> first | rfl | exact absurd rfl (h _ _ _)

theorem encCodes_copy (cs : List SubCode) (h : cs.all codeOk = true) :
    encCodes .client cs = encCodes .broker cs := by
  induction cs with
  | nil => rfl
  | cons c cs ih =>
    simp only [List.all_cons, Bool.and_eq_true] at h
    have ih' := ih h.2
    have h1 := h.1
    cases c <;> simp [codeOk] at h1 <;> simp [encCodes, subCodeByte, ih']

theorem publishLen_copy (qos : QoS) (topic : Bytes) (pkid : Nat) (payload : Bytes)
    (h : qos = .q0 ↔ pkid = 0) :
    publishLen .client qos topic pkid payload = publishLen .broker qos topic pkid payload := by
  cases qos <;> simp_all [publishLen]

/-- for content that is well-formed in both crates the two writers emit the same parts -/
theorem encParts_copy (p : Packet) (hc : wf .client p = true) (hb : wf .broker (toBroker p) = true) :
    encParts .client p = encParts .broker (toBroker p) := by
  cases p
  case connack sp code props =>
    simp only [wf, Bool.and_eq_true] at hc
    cases code <;> simp [connCodeByte] at hc <;> simp [toBroker, encParts, encConnAck, connCodeByte]
  case connect level keepAlive clientId clean props will login =>
    simp only [toBroker, wf, Bool.and_eq_true, decide_eq_true_eq] at hb
    have hl : level = 4 := by simpa [levelOk] using hb.1.1.1.1.1
    subst hl
    simp [toBroker, encParts, encConnect, levelByte]
  case publish dup qos retain topic pkid payload props =>
    simp only [wf, Bool.and_eq_true, decide_eq_true_eq] at hc
    have hpn : props = none := by
      cases props with
      | none => rfl
      | some _ => simp at hc
    subst hpn
    simp [toBroker, encParts, encPublish, publishLen_copy qos topic pkid payload hc.1.1.2]
  case suback pkid props cs =>
    simp only [wf, Bool.and_eq_true, decide_eq_true_eq] at hc
    have h4' : cs.all codeOk = true := by
      have h4 := hc.1.2
      simp only [List.all_eq_true] at h4 ⊢
      intro c hc; have := h4 c hc; cases c <;> simp_all [codeOk]
    simp [toBroker, encParts, encSubAck, encCodes_copy cs h4']
  all_goals rfl

theorem toClient_toBroker (p : Packet) (h : wf .client p = true) : toClient (toBroker p) = p := by
  cases p
  case connack sp code props =>
    simp only [wf, Bool.and_eq_true] at h
    cases code <;> simp [connCodeByte] at h <;> rfl
  all_goals rfl

theorem toBroker_toClient (q : Packet) (h : wf .broker q = true) : toBroker (toClient q) = q := by
  cases q
  case connack sp code props =>
    simp only [wf, Bool.and_eq_true] at h
    cases code <;> simp [connCodeByte] at h <;> rfl
  all_goals rfl

end Codec.V4
