/-
C11 (state part): order of `clean()` in the MQTT 3.1.1 client.
Every stored publish carries the stamp of the moment it was (last) put on the wire; `clean()` sorts
by that stamp. The wire view `unacked` is in send order and its stamps increase (`UnackedOK`), so
the two lists coincide — whatever the order in which acknowledgements arrived.
-/
import Proofs.Lemmas.ClientMonC10
namespace Client
open Client.Spec

/-! ### two lists sorted by the same strict order with the same elements are equal -/

theorem sorted_unique {α} (R : α → α → Prop) (irr : ∀ x, ¬ R x x) (tr : ∀ x y z, R x y → R y z → R x z)
    (l1 l2 : List α) (h1 : l1.Pairwise R) (h2 : l2.Pairwise R) (hm : ∀ x, x ∈ l1 ↔ x ∈ l2) : l1 = l2 := by
  induction l1 generalizing l2 with
  | nil =>
    cases l2 with
    | nil => rfl
    | cons b l2 => exact absurd ((hm b).mpr (by simp)) (by simp)
  | cons a l1 ih =>
    cases l2 with
    | nil => exact absurd ((hm a).mp (by simp)) (by simp)
    | cons b l2 =>
      have p1 := List.pairwise_cons.mp h1
      have p2 := List.pairwise_cons.mp h2
      have hab : a = b := by
        have ha := (hm a).mp (by simp)
        have hb := (hm b).mpr (by simp)
        rcases List.mem_cons.mp ha with ha | ha
        · exact ha
        · rcases List.mem_cons.mp hb with hb | hb
          · exact hb.symm
          · exact absurd (tr _ _ _ (p1.1 b hb) (p2.1 a ha)) (irr a)
      subst hab
      congr 1
      apply ih l2 p1.2 p2.2
      intro x
      constructor
      · intro hx
        have := (hm x).mp (List.mem_cons_of_mem _ hx)
        rcases List.mem_cons.mp this with h | h
        · subst h; exact absurd (p1.1 x hx) (irr x)
        · exact h
      · intro hx
        have := (hm x).mpr (List.mem_cons_of_mem _ hx)
        rcases List.mem_cons.mp this with h | h
        · subst h; exact absurd (p2.1 x hx) (irr x)
        · exact h

/-! ### `sort_by_key` -/

theorem insertStamp_sorted (x : Nat × Pub) (l : List (Nat × Pub)) (h : l.Pairwise (fun a b => a.1 ≤ b.1)) :
    (insertStamp x l).Pairwise (fun a b => a.1 ≤ b.1) := by
  induction l with
  | nil => simp [insertStamp]
  | cons y ys ih =>
    have p := List.pairwise_cons.mp h
    unfold insertStamp
    split
    · rename_i hxy
      refine List.pairwise_cons.mpr ⟨?_, h⟩
      intro b hb
      rcases List.mem_cons.mp hb with rfl | hb
      · exact hxy
      · exact Nat.le_trans hxy (p.1 b hb)
    · rename_i hxy
      refine List.pairwise_cons.mpr ⟨?_, ih p.2⟩
      intro b hb
      have := (insertStamp_perm x ys).subset hb
      rcases List.mem_cons.mp this with rfl | hb'
      · omega
      · exact p.1 b hb'

theorem sortStamped_sorted (l : List (Nat × Pub)) : (sortStamped l).Pairwise (fun a b => a.1 ≤ b.1) := by
  unfold sortStamped
  induction l with
  | nil => simp
  | cons x l ih => exact insertStamp_sorted x _ ih

theorem mem_stamped (pubs : List (Option Pub)) (ord : List Nat) (st : Nat) (p : Pub) :
    (st, p) ∈ stamped pubs ord ↔ ∃ i : Nat, pubs[i]? = some (some p) ∧ ord[i]? = some st := by
  unfold stamped
  rw [List.mem_filterMap]
  constructor
  · rintro ⟨⟨o, n⟩, hmem, hf⟩
    obtain ⟨i, hi⟩ := List.mem_iff_getElem?.mp hmem
    rw [List.getElem?_zip_eq_some] at hi
    cases o with
    | none => simp at hf
    | some q =>
      simp only [Option.map_some, Option.some.injEq, Prod.mk.injEq] at hf
      obtain ⟨rfl, rfl⟩ := hf
      exact ⟨i, hi.1, hi.2⟩
  · rintro ⟨i, h1, h2⟩
    refine ⟨(some p, st), ?_, by simp⟩
    exact List.mem_iff_getElem?.mpr ⟨i, by rw [List.getElem?_zip_eq_some]; exact ⟨h1, h2⟩⟩

theorem lt_inj_of_pairwise {α} (f : α → Nat) (l : List α) (h : l.Pairwise (fun a b => f a < f b)) :
    ∀ a ∈ l, ∀ b ∈ l, f a = f b → a = b := by
  induction l with
  | nil => intro a ha; simp at ha
  | cons x l ih =>
    have p := List.pairwise_cons.mp h
    intro a ha b hb hab
    rcases List.mem_cons.mp ha with ha1 | ha2
    · rcases List.mem_cons.mp hb with hb1 | hb2
      · rw [ha1, hb1]
      · have := p.1 b hb2; rw [ha1] at hab; omega
    · rcases List.mem_cons.mp hb with hb1 | hb2
      · have := p.1 a ha2; rw [hb1] at hab; omega
      · exact ih p.2 a ha2 b hb2 hab

/-- the tags of a list of stored publishes follow their ids -/
theorem tags_follow_ids (U : List (Nat × Nat)) (hnd : (U.map (·.1)).Nodup) (R : List Request)
    (hR : ∀ r ∈ R, ∃ p, r = Request.publish p ∧ alookup U p.pkid = some p.tag) (hids : pubIds R = U.map (·.1)) :
    pubTags R = U.map (·.2) := by
  have hlook : ∀ (W : List (Nat × Nat)), (W.map (·.1)).Nodup → ∀ v ∈ W, alookup W v.1 = some v.2 := by
    intro W
    induction W with
    | nil => intro _ v h; simp at h
    | cons b W ihW =>
      obtain ⟨b1, b2⟩ := b
      intro hndW v hvW
      simp only [List.map_cons, List.nodup_cons] at hndW
      rcases List.mem_cons.mp hvW with rfl | hvW'
      · simp [alookup]
      · simp only [alookup]
        have : b1 ≠ v.1 := by intro he; exact hndW.1 (by rw [he]; exact List.mem_map_of_mem hvW')
        simp only [this, if_false]
        exact ihW hndW.2 v hvW'
  have key : ∀ (R : List Request) (V : List (Nat × Nat)),
      (∀ r ∈ R, ∃ p, r = Request.publish p ∧ alookup U p.pkid = some p.tag) → V.map (·.1) = pubIds R →
      (∀ v ∈ V, alookup U v.1 = some v.2) → pubTags R = V.map (·.2) := by
    intro R
    induction R with
    | nil => intro V _ hV _; cases V <;> simp_all [pubIds, pubTags]
    | cons r R ih =>
      intro V hR hV hVl
      obtain ⟨p, rfl, hp⟩ := hR r (by simp)
      have hcons : pubIds (.publish p :: R) = p.pkid :: pubIds R := by simp [pubIds]
      cases V with
      | nil => simp [pubIds] at hV
      | cons v V =>
        rw [hcons] at hV
        simp only [List.map_cons, List.cons.injEq] at hV
        have hv := hVl v (by simp)
        rw [hV.1, hp] at hv
        simp only [pubTags, List.filterMap_cons, List.map_cons]
        have := ih V (fun r hr => hR r (List.mem_cons_of_mem _ hr)) hV.2 (fun v hv => hVl v (List.mem_cons_of_mem _ hv))
        simp only [pubTags] at this
        rw [this]; simp at hv; rw [hv]
  exact key R U hR hids.symm (hlook U hnd)

/-- the claim: `clean()` of the MQTT 3.1.1 client lists the unacknowledged publishes in the order
    in which they were put on the wire -/
theorem cleanPubs_order {s : State} (hs : SInv s) (hv : s.ver = .v4) {U : List (Nat × Nat)} (hU : UnackedOK U s) :
    pubIds (cleanPubs s) = U.map (·.1) ∧ pubTags (cleanPubs s) = U.map (·.2) := by
  -- what `clean()` computes
  have hcp : cleanPubs s = (sortStamped (stamped s.outgoingPub s.outgoingOrder)).map (fun x => Request.publish x.2) := by
    unfold cleanPubs; rw [hv]
  have hidsL : pubIds (cleanPubs s) = (sortStamped (stamped s.outgoingPub s.outgoingOrder)).map (fun x => x.2.pkid) := by
    rw [hcp]; unfold pubIds; rw [List.filterMap_map]
    induction sortStamped (stamped s.outgoingPub s.outgoingOrder) with
    | nil => rfl
    | cons a l ih => simp [ih]
  -- every element carries the stamp of the slot of its id
  have hel : ∀ x ∈ sortStamped (stamped s.outgoingPub s.outgoingOrder), x.1 = ordAt s x.2.pkid := by
    intro x hx
    have hx' := (sortStamped_perm _).subset hx
    obtain ⟨st, p⟩ := x
    obtain ⟨i, h1, h2⟩ := (mem_stamped _ _ st p).mp hx'
    have := (hs.slotId i p h1).1
    simp only [ordAt, this, h2, Option.getD_some]
  have hle : (pubIds (cleanPubs s)).Pairwise (fun i j => ordAt s i ≤ ordAt s j) := by
    rw [hidsL, List.pairwise_map]
    apply (sortStamped_sorted _).imp_of_mem
    intro a b ha hb hab
    rw [← hel a ha, ← hel b hb]; exact hab
  -- stamps of distinct stored ids differ
  have hinj := lt_inj_of_pairwise (fun e : Nat × Nat => ordAt s e.1) U hU.stamps
  have hne : ∀ i j, occAt s i = true → occAt s j = true → i ≠ j → ordAt s i ≠ ordAt s j := by
    intro i j hi hj hij heq
    obtain ⟨a, ha, rfl⟩ := List.mem_map.mp ((mem_keys_iff_occ hU i).mpr hi)
    obtain ⟨b, hb, rfl⟩ := List.mem_map.mp ((mem_keys_iff_occ hU j).mpr hj)
    exact hij (by rw [hinj a ha b hb heq])
  have hlt : (pubIds (cleanPubs s)).Pairwise (fun i j => ordAt s i < ordAt s j) := by
    apply (hle.and (pubIds_cleanPubs_nodup hs)).imp_of_mem
    intro i j hi hj hij
    have := hne i j ((mem_pubIds_cleanPubs s hs i).mp hi) ((mem_pubIds_cleanPubs s hs j).mp hj) hij.2
    omega
  have hUlt : (U.map (·.1)).Pairwise (fun i j => ordAt s i < ordAt s j) := by
    rw [List.pairwise_map]; exact hU.stamps
  have hids : pubIds (cleanPubs s) = U.map (·.1) := by
    apply sorted_unique (fun i j => ordAt s i < ordAt s j) (fun x => Nat.lt_irrefl _) (fun x y z => Nat.lt_trans) _ _ hlt hUlt
    intro x
    rw [mem_pubIds_cleanPubs s hs x, mem_keys_iff_occ hU x]
  refine ⟨hids, tags_follow_ids U hU.nd (cleanPubs s) ?_ hids⟩
  intro r hr
  obtain ⟨p, rfl, hp⟩ := (mem_cleanPubs hs r).mp hr
  obtain ⟨j, hj⟩ := List.mem_iff_getElem?.mp hp
  have := (hs.slotId j p hj).1
  refine ⟨p, rfl, ?_⟩
  rw [hU.look, this]; simp [slotTag, hj]

theorem filter_three {α} (f : α → Bool) (A B C : List α) (hA : ∀ r ∈ A, f r = true) (hB : ∀ r ∈ B, f r = false)
    (hC : ∀ r ∈ C, f r = false) : (A ++ B ++ C).filter f = A := by
  rw [List.filter_append, List.filter_append, List.filter_eq_self.mpr hA, List.filter_eq_nil_iff.mpr (by simpa using hB),
    List.filter_eq_nil_iff.mpr (by simpa using hC)]
  simp

/-- the publishes of `clean()` that have been on the wire are the stored ones (the publish parked
    on a collision comes back unnumbered) -/
theorem sentPubs_cleanRequests {s : State} {pd : List Request} (h0 : Inv0 ⟨s, pd⟩) :
    sentPubs (cleanRequests s) = cleanPubs s := by
  have hs := h0.sinv
  unfold sentPubs cleanRequests
  apply filter_three
  · intro r hr
    obtain ⟨p, rfl, hp⟩ := (mem_cleanPubs hs r).mp hr
    obtain ⟨j, hj⟩ := List.mem_iff_getElem?.mp hp
    have h1 := (h0.slotLe j p hj).1
    have h2 := (hs.slotId j p hj).1
    simp only [bne_iff_ne, ne_eq]; omega
  · intro r hr
    obtain ⟨i, _, rfl⟩ := List.mem_map.mp hr
    rfl
  · intro r hr
    unfold cleanParked at hr
    cases hc : s.collision with
    | none => rw [hc] at hr; simp at hr
    | some c => rw [hc] at hr; simp at hr; subst hr; rfl

end Client
