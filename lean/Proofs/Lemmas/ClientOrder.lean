/-
C11 (state part): order of `clean()` in the MQTT 3.1.1 client.
`idAt m a j` = the j-th packet id handed out after id `a` (ids run 1..m cyclically); under in-order
acks the unacknowledged ids are `idAt m last_puback 1 .. k`, and the rotation `clean()` performs at
`last_puback + 1` lists exactly that sequence.
-/
import Proofs.Lemmas.ClientMonC10
namespace Client
open Client.Spec

/-- j-th id after `a` (1 ≤ j ≤ m + 1, a ≤ m) -/
def idAt (m a j : Nat) : Nat :=
  if a + j ≤ m then a + j else if a + j ≤ 2 * m then a + j - m else a + j - 2 * m

/-- position of slot `i` in the rotation `drop (a+1) T ++ take (a+1) T` of a table of length `m+1` -/
def posOf (m a i : Nat) : Nat := if a < i then i - a - 1 else i + m - a

theorem posOf_idAt (m a j : Nat) (ha : a ≤ m) (hj1 : 1 ≤ j) (hj : j ≤ m) :
    posOf m a (idAt m a j) = if a + j ≤ m then j - 1 else j := by
  unfold posOf idAt
  split <;> split <;> (try split) <;> omega

theorem idAt_range (m a j : Nat) (ha : a ≤ m) (hj1 : 1 ≤ j) (hj : j ≤ m) : 1 ≤ idAt m a j ∧ idAt m a j ≤ m := by
  unfold idAt
  split <;> (try split) <;> omega

theorem idAt_shift (m a j : Nat) (ha : a ≤ m) (hm : 1 ≤ m) (hj : j ≤ m) (hj1 : 1 ≤ j) :
    idAt m (idAt m a 1) j = idAt m a (j + 1) := by
  unfold idAt
  repeat' split
  all_goals omega

theorem idAt_succ (m a j : Nat) (ha : a ≤ m) (hm : 1 ≤ m) (hj1 : 1 ≤ j) (hj : j ≤ m) :
    idAt m a (j + 1) = if idAt m a j = m then 1 else idAt m a j + 1 := by
  unfold idAt
  repeat' split
  all_goals omega

/-! ### two lists sorted by the same strict order with the same elements are equal -/

theorem sorted_unique {α} (R : α → α → Prop) (irr : ∀ x, ¬ R x x) (tr : ∀ x y z, R x y → R y z → R x z)
    (l1 l2 : List α) (h1 : l1.Pairwise R) (h2 : l2.Pairwise R) (hm : ∀ x, x ∈ l1 ↔ x ∈ l2) : l1 = l2 := by
  induction l1 generalizing l2 with
  | nil =>
    cases l2 with
    | nil => rfl
    | cons b l2 => exact absurd ((hm b).mpr (by simp)) (by simp)
  | cons a l1 ih =>
    cases l2 with
    | nil => exact absurd ((hm a).mp (by simp)) (by simp)
    | cons b l2 =>
      have p1 := List.pairwise_cons.mp h1
      have p2 := List.pairwise_cons.mp h2
      have hab : a = b := by
        have ha := (hm a).mp (by simp)
        have hb := (hm b).mpr (by simp)
        rcases List.mem_cons.mp ha with ha | ha
        · exact ha
        · rcases List.mem_cons.mp hb with hb | hb
          · exact hb.symm
          · exact absurd (tr _ _ _ (p1.1 b hb) (p2.1 a ha)) (irr a)
      subst hab
      congr 1
      apply ih l2 p1.2 p2.2
      intro x
      constructor
      · intro hx
        have := (hm x).mp (List.mem_cons_of_mem _ hx)
        rcases List.mem_cons.mp this with h | h
        · subst h; exact absurd (p1.1 x hx) (irr x)
        · exact h
      · intro hx
        have := (hm x).mpr (List.mem_cons_of_mem _ hx)
        rcases List.mem_cons.mp this with h | h
        · subst h; exact absurd (p2.1 x hx) (irr x)
        · exact h

/-! ### `clean()` lists the stored ids in rotation order -/

theorem slotIds_drop_sorted (T : List (Option Pub)) (k : Nat)
    (h : ∀ (i : Nat) (p : Pub), T[i]? = some (some p) → p.pkid = i) :
    (slotIds (T.drop k)).Pairwise (· < ·) ∧ ∀ x ∈ slotIds (T.drop k), k ≤ x ∧ x < T.length := by
  have hs := slotIds_sorted (T.drop k) k (by
    intro i p hp
    rw [List.getElem?_drop] at hp
    exact h _ p hp)
  refine ⟨hs.1, fun x hx => ⟨hs.2 x hx, ?_⟩⟩
  obtain ⟨p, hp, hpx⟩ := (mem_slotIds _ _).mp hx
  obtain ⟨j, hj⟩ := List.mem_iff_getElem?.mp hp
  rw [List.getElem?_drop] at hj
  have := h _ p hj
  have := getElem?_lt_of_some hj
  omega

theorem slotIds_take_sorted (T : List (Option Pub)) (k : Nat)
    (h : ∀ (i : Nat) (p : Pub), T[i]? = some (some p) → p.pkid = i) :
    (slotIds (T.take k)).Pairwise (· < ·) ∧ ∀ x ∈ slotIds (T.take k), x < k := by
  have hs := slotIds_sorted (T.take k) 0 (by
    intro i p hp
    rw [List.getElem?_take] at hp
    split at hp
    · simpa using h _ p hp
    · simp at hp)
  refine ⟨hs.1, fun x hx => ?_⟩
  obtain ⟨p, hp, hpx⟩ := (mem_slotIds _ _).mp hx
  obtain ⟨j, hj⟩ := List.mem_iff_getElem?.mp hp
  rw [List.getElem?_take] at hj
  split at hj
  · have := h _ p hj; omega
  · simp at hj

/-- the ids `clean()` returns (v4) are ordered by their position in the rotation -/
theorem cleanPubs_sorted {s : State} (hs : SInv s) (hv : s.ver = .v4) (m : Nat) (hm : s.outgoingPub.length = m + 1) :
    (pubIds (cleanPubs s)).Pairwise (fun x y => posOf m s.lastPuback x < posOf m s.lastPuback y) := by
  have hid : ∀ (i : Nat) (p : Pub), s.outgoingPub[i]? = some (some p) → p.pkid = i := fun i p hp => (hs.slotId i p hp).1
  have hlp : s.lastPuback ≤ m := by have := hs.lastPuback; have := hs.lenPub; omega
  unfold cleanPubs
  rw [hv]
  simp only
  rw [pubIds_pubRequests, slotIds_append, List.pairwise_append]
  obtain ⟨d1, d2⟩ := slotIds_drop_sorted s.outgoingPub (s.lastPuback + 1) hid
  obtain ⟨t1, t2⟩ := slotIds_take_sorted s.outgoingPub (s.lastPuback + 1) hid
  refine ⟨?_, ?_, ?_⟩
  · apply (List.pairwise_iff_forall_sublist.mpr ?_)
    intro a b hab
    have hlt := List.pairwise_iff_forall_sublist.mp d1 hab
    have ha := d2 a (hab.subset (by simp))
    have hb := d2 b (hab.subset (by simp))
    unfold posOf; split <;> split <;> omega
  · apply (List.pairwise_iff_forall_sublist.mpr ?_)
    intro a b hab
    have hlt := List.pairwise_iff_forall_sublist.mp t1 hab
    have ha := t2 a (hab.subset (by simp))
    have hb := t2 b (hab.subset (by simp))
    unfold posOf; split <;> split <;> omega
  · intro a ha b hb
    have ha' := d2 a ha
    have hb' := t2 b hb
    unfold posOf; split <;> split <;> omega


/-! ### the order invariant -/

def idSeq (m a k : Nat) : List Nat := (List.range k).map (fun j => idAt m a (j + 1))

theorem idSeq_succ (m a k : Nat) : idSeq m a (k + 1) = idSeq m a k ++ [idAt m a (k + 1)] := by
  simp [idSeq, List.range_succ]

theorem idSeq_tail (m a k : Nat) (ha : a ≤ m) (hm : 1 ≤ m) (hk : k + 1 ≤ m) :
    (idSeq m a (k + 1)).tail = idSeq m (idAt m a 1) k := by
  unfold idSeq
  rw [List.range_succ_eq_map, List.map_cons, List.tail_cons, List.map_map]
  apply List.map_congr_left
  intro j hj
  have hj' : j < k := List.mem_range.mp hj
  simp only [Function.comp]
  exact (idAt_shift m a (j + 1) ha hm (by omega) (by omega)).symm

theorem idSeq_head (m a k : Nat) : (idSeq m a (k + 1)).head? = some (idAt m a 1) := by
  simp [idSeq, List.range_succ_eq_map]

theorem mem_idSeq (m a k x : Nat) : x ∈ idSeq m a k ↔ ∃ j, j < k ∧ x = idAt m a (j + 1) := by
  simp [idSeq, eq_comm]

theorem idAt_inj (m a i j : Nat) (ha : a ≤ m) (hi1 : 1 ≤ i) (hi : i ≤ m) (hj1 : 1 ≤ j) (hj : j ≤ m)
    (h : idAt m a i = idAt m a j) : i = j := by
  unfold idAt at h
  repeat' split at h
  all_goals omega

theorem idSeq_sorted (m a k : Nat) (ha : a ≤ m) (hk : k ≤ m) :
    (idSeq m a k).Pairwise (fun x y => posOf m a x < posOf m a y) := by
  unfold idSeq
  rw [List.pairwise_map]
  apply List.Pairwise.imp_of_mem (R := (· < ·))
  · intro i j hi hj hij
    have hi' := List.mem_range.mp hi
    have hj' := List.mem_range.mp hj
    rw [posOf_idAt m a (i + 1) ha (by omega) (by omega), posOf_idAt m a (j + 1) ha (by omega) (by omega)]
    split <;> split <;> omega
  · exact List.pairwise_lt_range

/-- order invariant of the v4 client under in-order acks (`U` = ghost `unacked`) -/
structure OInv (l : LState) (U : List (Nat × Nat)) : Prop where
  seq : U.map (·.1) ++ pubIds l.pending = idSeq l.st.maxInflight l.st.lastPuback (U.length + (pubIds l.pending).length)
  klen : U.length + (pubIds l.pending).length ≤ l.st.maxInflight
  lpLe : l.st.lastPuback ≤ l.st.maxInflight
  nxt : nextPkidVal l.st = idAt l.st.maxInflight l.st.lastPuback (U.length + (pubIds l.pending).length + 1)
  relEmpty : relCount l.st.outgoingRel = 0
  cnt : l.st.inflight = occ l.st.outgoingPub
  nocol : l.st.collision = none
  pendPubs : ∀ r ∈ l.pending, ∃ p, r = Request.publish p
  maxEq : l.st.outgoingPub.length = l.st.maxInflight + 1

theorem OInv.new (max : Nat) (m : Bool) (h1 : 1 ≤ max) : OInv (LState.new .v4 max m) [] := by
  refine ⟨by simp [LState.new, idSeq, pubIds], by simp [LState.new, pubIds], by simp [LState.new, State.new], ?_,
    by simp [LState.new, State.new, relCount_replicate], by simp [LState.new, State.new, occ_replicate],
    rfl, by intro r hr; simp [LState.new] at hr, by simp [LState.new, State.new]⟩
  have : idAt max 0 1 = 1 := by unfold idAt; split <;> (try split) <;> omega
  simp [LState.new, State.new, nextPkidVal, pubIds, this]

/-- the claim: under the invariant `clean()` lists the unacknowledged publishes in send order -/
theorem OInv.order {l : LState} {U : List (Nat × Nat)} (ho : OInv l U) (hv : l.st.ver = .v4) (hs : SInv l.st)
    (hU : UnackedOK U l.st) :
    pubIds (cleanPubs l.st) = U.map (·.1) ∧ pubTags (cleanPubs l.st) = U.map (·.2) := by
  have hsorted := cleanPubs_sorted hs hv l.st.maxInflight ho.maxEq
  have hkeys : U.map (·.1) = idSeq l.st.maxInflight l.st.lastPuback U.length := by
    have h := congrArg (List.take U.length) ho.seq
    rw [List.take_left' (by simp)] at h
    rw [h]
    unfold idSeq
    rw [← List.map_take, List.take_range, Nat.min_eq_left (by omega)]
  have hU_sorted : (U.map (·.1)).Pairwise (fun x y => posOf l.st.maxInflight l.st.lastPuback x < posOf l.st.maxInflight l.st.lastPuback y) := by
    rw [hkeys]; exact idSeq_sorted _ _ _ ho.lpLe (by have := ho.klen; omega)
  have hids : pubIds (cleanPubs l.st) = U.map (·.1) := by
    apply sorted_unique (fun x y => posOf l.st.maxInflight l.st.lastPuback x < posOf l.st.maxInflight l.st.lastPuback y)
      (fun x => Nat.lt_irrefl _) (fun x y z => Nat.lt_trans) _ _ hsorted hU_sorted
    intro x
    rw [mem_pubIds_cleanPubs l.st hs x, mem_keys_iff_occ hU x]
  refine ⟨hids, ?_⟩
  -- tags follow ids: both lists are images of the same stored publishes
  have key : ∀ (R : List Request) (V : List (Nat × Nat)),
      (∀ r ∈ R, ∃ p, r = Request.publish p ∧ alookup U p.pkid = some p.tag) → V.map (·.1) = pubIds R →
      (∀ v ∈ V, alookup U v.1 = some v.2) → pubTags R = V.map (·.2) := by
    intro R
    induction R with
    | nil => intro V _ hV _; cases V <;> simp_all [pubIds, pubTags]
    | cons r R ih =>
      intro V hR hV hVl
      obtain ⟨p, rfl, hp⟩ := hR r (by simp)
      cases V with
      | nil => simp [pubIds] at hV
      | cons v V =>
        simp only [pubIds_cons_publish, List.map_cons, List.cons.injEq] at hV
        have hv := hVl v (by simp)
        rw [hV.1, hp] at hv
        simp only [pubTags, List.filterMap_cons, List.map_cons]
        have := ih V (fun r hr => hR r (List.mem_cons_of_mem _ hr)) hV.2 (fun v hv => hVl v (List.mem_cons_of_mem _ hv))
        simp only [pubTags] at this
        rw [this]; simp at hv; rw [hv]
  apply key (cleanPubs l.st) U
  · intro r hr
    obtain ⟨p, rfl, hp⟩ := (mem_cleanPubs l.st r).mp hr
    obtain ⟨j, hj⟩ := List.mem_iff_getElem?.mp hp
    have := (hs.slotId j p hj).1
    refine ⟨p, rfl, ?_⟩
    rw [hU.look, this]; simp [slotTag, hj]
  · exact hids.symm
  · intro v hv
    have hnd := hU.nd
    clear hids hkeys hU_sorted hsorted
    induction U with
    | nil => simp at hv
    | cons a U ih' =>
      obtain ⟨a1, a2⟩ := a
      simp only [List.map_cons, List.nodup_cons] at hnd
      rcases List.mem_cons.mp hv with rfl | hv'
      · simp [alookup]
      · simp only [alookup]
        have hne : a1 ≠ v.1 := by
          intro he; exact hnd.1 (by rw [he]; exact List.mem_map_of_mem hv')
        simp only [hne, if_false]
        -- recursive call on the tail does not need the table coupling
        have : ∀ (W : List (Nat × Nat)), (W.map (·.1)).Nodup → v ∈ W → alookup W v.1 = some v.2 := by
          intro W
          induction W with
          | nil => intro _ h; simp at h
          | cons b W ihW =>
            obtain ⟨b1, b2⟩ := b
            intro hndW hvW
            simp only [List.map_cons, List.nodup_cons] at hndW
            rcases List.mem_cons.mp hvW with rfl | hvW'
            · simp [alookup]
            · simp only [alookup]
              have : b1 ≠ v.1 := by intro he; exact hndW.1 (by rw [he]; exact List.mem_map_of_mem hvW')
              simp only [this, if_false]
              exact ihW hndW.2 hvW'
        exact this U hnd.2 hv'


/-! ### the ghost's in-order flag -/

theorem stepOut_inOrder (g : Ghost) (r : Request) (o : Outcome) :
    (g.stepOut r o).inOrder = match r with
      | .publish p => g.inOrder && decide (p.qos ≤ 1)
      | .pubrel _ => false
      | _ => g.inOrder := by
  unfold Ghost.stepOut
  cases r <;> simp only <;> (repeat' split) <;> simp_all

def headIs (U : List (Nat × Nat)) (i : Nat) : Bool :=
  match U with
  | (j, _) :: _ => decide (j = i)
  | [] => false

theorem released_inOrder (g : Ghost) (p : Incoming) (o : Outcome) :
    ((g.stepIn p).released o).inOrder = match p with
      | .puback i _ => (match alookup g.unacked i with
          | some _ => g.inOrder && headIs g.unacked i
          | none => false)
      | .pubrec _ _ => false
      | .pubcomp _ _ => false
      | _ => g.inOrder := by
  have h1 : ∀ g' : Ghost, (g'.released o).inOrder = g'.inOrder := by
    intro g'; unfold Ghost.released; (repeat' split) <;> rfl
  rw [h1]
  unfold Ghost.stepIn headIs
  cases p <;> simp only <;> (repeat' split) <;> simp_all

theorem OInv.congr {s s' : State} {pd : List Request} {U : List (Nat × Nat)} (h : OInv ⟨s, pd⟩ U)
    (hc : s'.core = s.core) (hm : s'.maxInflight = s.maxInflight) : OInv ⟨s', pd⟩ U := by
  obtain ⟨e1, e2, e3, e4, e5⟩ := core_eqs hc
  have e6 : s'.lastPkid = s.lastPkid := congrArg Core.lastPkid hc
  obtain ⟨a1, a2, a3, a4, a5, a6, a7, a8, a9⟩ := h
  simp only at *
  exact ⟨by rw [hm, e5]; exact a1, by rw [hm]; exact a2, by rw [hm, e5]; exact a3,
    by rw [hm, e5]; unfold nextPkidVal at *; rw [e6]; exact a4, by rw [e2]; exact a5, by rw [e3, e1]; exact a6,
    by rw [e4]; exact a7, a8, by rw [e1, hm]; exact a9⟩

theorem maxInflight_v4 (s : State) (hv : s.ver = .v4) (p : Incoming) : (handleIncoming s p).1.maxInflight = s.maxInflight := by
  rw [handleIncoming_maxInflight, hv]

theorem user_maxInflight (s : State) (u : UserReq) : (handleOutgoing s u.toRequest).1.maxInflight = s.maxInflight :=
  (user_frame s u).2.2.1

/-- the invariant is kept by every step that keeps the ghost's in-order flag, as long as no
    SUBSCRIBE/UNSUBSCRIBE consumes an id (#19) and no pending publish is dropped (#23) -/
theorem OInv.lstep {l : LState} {g : Ghost} (hv : l.st.ver = .v4) (hb : B1 l g) (ho : OInv l g.unacked)
    (op : LOp) (hn1 : ¬ subConsumesId l op) (hn2 : ¬ dropsPending l op) :
    match (lstep l op).2 with
    | none => OInv (lstep l op).1 g.unacked
    | some o => (g.core o).inOrder = true → OInv (lstep l op).1 (g.core o).unacked := by
  obtain ⟨s, pd⟩ := l
  have h0 := hb.b0.inv0
  have hU := hb.g1.unacked
  have hgp := hb.b0.g0.pend
  simp only at hv h0 hU hgp hn1 hn2
  unfold Client.lstep
  cases op with
  | user u =>
    by_cases hc : (pd.isEmpty && selectEnabled s pd) = true
    · simp only [lop?, hc, if_true]
      have hpd : pd = [] := by
        simp only [Bool.and_eq_true, List.isEmpty_iff] at hc; exact hc.1
      subst hpd
      have hgt : selectEnabled s [] = true := by simpa using hc
      have hout : (sstepObs s (.out u.toRequest)).outcome = (handleOutgoing s u.toRequest).2 := rfl
      simp only [core_out, lpending, sstepSt, hout, stepOut_unacked, stepOut_inOrder]
      intro hio
      by_cases hu : ∃ q t, u = .publish q t
      · obtain ⟨q, t, rfl⟩ := hu
        simp only [UserReq.toRequest] at hio ⊢
        by_cases hq : q = 0
        · subst hq
          rw [eff_publish_qos0]
          simp only [unackedAfterOut, relPub, if_true]
          exact ho.congr rfl rfl
        · obtain ⟨hp, hv1, hv2, hv3⟩ := h0.nextPkid
          rw [eff_publish_fresh s q t hq hp]
          have hn := h0.nextPkidSt
          have hcore := nextPkidSt_core s
          have e1 : (nextPkidSt s).outgoingPub = s.outgoingPub := congrArg Core.pub hcore
          have e2 : (nextPkidSt s).inflight = s.inflight := congrArg Core.inf hcore
          have hup := h0.upLe; have hml := h0.maxLe; have hmp := h0.maxPos
          have hgate : s.inflight < s.maxInflight := by simp [selectEnabled] at hgt; exact hgt.1
          simp only at hup hml hmp
          have hmx : (nextPkidSt s).maxInflight = s.maxInflight := (nextPkidSt_frame s).2.1
          obtain ⟨a1, a2, a3, a4, a5, a6, a7, a8, a9⟩ := ho
          simp only [pubIds, List.filterMap_nil, List.length_nil, Nat.add_zero, List.append_nil] at a1 a2 a3 a4 a5 a6 a7 a9
          have hk : g.unacked.length < s.maxInflight := by rw [hU.len, ← a6]; exact hgate
          -- the slot of the next id is free
          have hfree : s.outgoingPub[nextPkidVal s]? = some none := by
            rcases h0.slot_cases (nextPkidVal s) hv2 with hs | ⟨x, hs⟩
            · exact hs
            · exfalso
              have hmem : nextPkidVal s ∈ g.unacked.map (·.1) := (mem_keys_iff_occ hU _).mpr ((occAt_iff s _).mpr ⟨x, hs⟩)
              rw [a1, mem_idSeq] at hmem
              obtain ⟨j, hj, hje⟩ := hmem
              rw [a4] at hje
              have := idAt_inj _ _ _ _ a3 (by omega) (by omega) (by omega) (by omega) hje
              omega
          rw [eff_publishWithId_store _ _ rfl (by rw [e1]; exact hfree) (by rw [e2]; omega)]
          simp only [unackedAfterOut, relPub, hq, if_false]
          have hlt := getElem?_lt_of_some hfree
          refine ⟨?_, ?_, ?_, ?_, ?_, ?_, ?_, ?_, ?_⟩
          all_goals simp only [drainEvents, State.pushOut, State.pushEv, pubIds, List.filterMap_nil, List.length_nil,
            Nat.add_zero, List.append_nil, List.length_append, List.length_singleton, List.map_append, List.map_cons, List.map_nil]
          · rw [hmx, idSeq_succ, a1, a4]
            have : (nextPkidSt s).lastPuback = s.lastPuback := congrArg Core.lastPuback hcore
            rw [this]
          · rw [hmx]; omega
          · have : (nextPkidSt s).lastPuback = s.lastPuback := congrArg Core.lastPuback hcore
            rw [hmx, this]; exact a3
          · have hlp : (nextPkidSt s).lastPuback = s.lastPuback := congrArg Core.lastPuback hcore
            rw [hmx, hlp, idAt_succ _ _ _ a3 hmp (by omega) (by omega), ← a4]
            unfold nextPkidVal nextPkidSt
            by_cases hw : s.lastPkid + 1 = s.maxInflight <;> simp [hw]
          · have : (nextPkidSt s).outgoingRel = s.outgoingRel := congrArg Core.rel hcore
            rw [this]; exact a5
          · rw [e2, e1, occ_set_some _ _ _ hfree, a6]
          · have : (nextPkidSt s).collision = s.collision := congrArg Core.col hcore
            rw [this]; exact a7
          · intro r hr; simp at hr
          · rw [e1, hmx, List.length_set]; exact a9
      · have hu' : ∀ q t, u ≠ .publish q t := fun q t h => hu ⟨q, t, h⟩
        have hup : unackedAfterOut g.unacked u.toRequest (handleOutgoing s u.toRequest).2 = g.unacked := by
          cases u <;> first | rfl | exact absurd rfl (hu' _ _)
        rw [hup]
        -- SUBSCRIBE / UNSUBSCRIBE that consume an id are excluded; the rest leaves everything alone
        cases u with
        | publish q t => exact absurd rfl (hu' q t)
        | subscribe n =>
          by_cases hn0 : n = 0
          · subst hn0
            simp only [UserReq.toRequest, handleOutgoing, outgoingSubscribe, if_true]
            exact ho.congr rfl rfl
          · exact absurd ⟨hn0, rfl, hgt⟩ hn1
        | unsubscribe => exact absurd ⟨rfl, hgt⟩ hn1
        | disconnect => exact ho.congr rfl rfl
        | puback i => exact ho.congr rfl rfl
        | pubrec i => exact ho.congr rfl rfl
    · simp only [lop?, hc]
      exact ho
  | pend =>
    cases pd with
    | nil => exact ho
    | cons r rest =>
      simp only [lop?]
      have hout : (sstepObs s (.out r)).outcome = (handleOutgoing s r).2 := rfl
      simp only [core_out, lpending, sstepSt, hout, stepOut_unacked, stepOut_inOrder, List.tail_cons]
      obtain ⟨p, rfl⟩ := ho.pendPubs r (by simp)
      intro hio
      obtain ⟨hq, hp1, hp2, ha, hslot, hinf, hne⟩ := h0.pend_publish
      rw [eff_publish_replay s p hq (by omega), eff_publishWithId_store s p ha hslot hinf]
      simp only [unackedAfterOut, relPub, hq, if_false]
      obtain ⟨a1, a2, a3, a4, a5, a6, a7, a8, a9⟩ := ho
      simp only [pubIds_cons_publish, List.length_cons] at a1 a2 a3 a4 a5 a6 a7 a9
      refine ⟨?_, ?_, ?_, ?_, ?_, ?_, ?_, ?_, ?_⟩
      all_goals simp only [drainEvents, State.pushOut, State.pushEv, List.length_append, List.length_singleton,
        List.map_append, List.map_cons, List.map_nil]
      · rw [List.append_assoc, List.singleton_append, a1]; congr 1; omega
      · omega
      · exact a3
      · unfold nextPkidVal at *; simp only; rw [a4]; congr 1; omega
      · exact a5
      · rw [occ_set_some _ _ _ hslot, a6]
      · exact a7
      · intro r hr; exact a8 r (List.mem_cons_of_mem _ hr)
      · rw [List.length_set]; exact a9
  | ping =>
    simp only [lop?]
    have hout : (sstepObs s (.out .pingreq)).outcome = (handleOutgoing s .pingreq).2 := rfl
    simp only [core_out, lpending, sstepSt, hout, stepOut_unacked, stepOut_inOrder, unackedAfterOut]
    intro _
    exact ho.congr (by rw [core_drain, ping_core]) (by simp [drainEvents, (ping_frame s).2.2.2.1])
  | inc p =>
    simp only [lop?]
    have hout : (sstepObs s (.inc p)).outcome = (handleIncoming s p).2 := rfl
    simp only [core_inc, lpending, sstepSt, hout, released_unacked, released_inOrder]
    have hmx := maxInflight_v4 s hv p
    have hs0 := h0.sinv.pushEv (.incoming p)
    simp only at hs0
    by_cases hack : ∃ i r, p = .puback i r
    · obtain ⟨i, r, rfl⟩ := hack
      simp only [unackedAfterIn, ackedId]
      intro hio
      -- in-order flag kept: the ack is for the head of `unacked`
      cases hU' : g.unacked with
      | nil => rw [hU'] at hio; simp [alookup] at hio
      | cons e U' =>
        obtain ⟨j, t⟩ := e
        rw [hU'] at hio
        have hji : j = i := by
          by_cases h : j = i
          · exact h
          · exfalso
            simp only [alookup, headIs, h, if_false, decide_false, Bool.and_false] at hio
            split at hio <;> simp at hio
        subst hji
        obtain ⟨a1, a2, a3, a4, a5, a6, a7, a8, a9⟩ := ho
        rw [hU'] at a1 a2 a4 hU
        simp only [List.map_cons, List.length_cons, List.cons_append] at a1 a2 a3 a4 a5 a6 a7 a9
        have hslot : ∃ x, s.outgoingPub[j]? = some (some x) := by
          have := hU.look j
          simp only [alookup, if_true] at this
          unfold slotTag at this
          cases hs : s.outgoingPub[j]? with
          | none => rw [hs] at this; simp at this
          | some v =>
            cases v with
            | none => rw [hs] at this; simp at this
            | some x => exact ⟨x, rfl⟩
        obtain ⟨x, hx⟩ := hslot
        have hk1 : U'.length + 1 + (pubIds pd).length = (U'.length + (pubIds pd).length) + 1 := by omega
        rw [hk1] at a1 a4
        have hhead : j = idAt s.maxInflight s.lastPuback 1 := by
          have := congrArg List.head? a1
          rw [idSeq_head] at this
          simpa using this
        have htail := congrArg List.tail a1
        rw [List.tail_cons, idSeq_tail _ _ _ a3 h0.maxPos (by omega)] at htail
        rw [handleIncoming_puback]
        have he := handlePuback_eff hs0 j r
        have hlk : (handlePuback (s.pushEv (.incoming (.puback j r))) j r).1.lastPkid = s.lastPkid :=
          (incoming_frame s (.puback j r)).2.2.2
        have hmx' : (handlePuback (s.pushEv (.incoming (.puback j r))) j r).1.maxInflight = s.maxInflight := hmx
        generalize handlePuback (s.pushEv (.incoming (.puback j r))) j r = res at he hlk hmx'
        cases he with
        | oob s' h1 hc => exact absurd hx (by rw [show s.outgoingPub[j]? = none from h1]; simp)
        | empty s' h1 hc => exact absurd hx (by rw [show s.outgoingPub[j]? = some none from h1]; simp)
        | released s' x' c h1 hv' hcol hci hc => exact absurd (show s.collision = some c from hcol) (by rw [a7]; simp)
        | freed s' x' h1 hnn hc =>
          have e1 : s'.outgoingPub = s.outgoingPub.set j none := congrArg Core.pub hc
          have e2 : s'.outgoingRel = s.outgoingRel := congrArg Core.rel hc
          have e3 : s'.inflight = s.inflight - 1 := congrArg Core.inf hc
          have e4 : s'.collision = s.collision := congrArg Core.col hc
          have e5 : s'.lastPuback = j := by
            have : s'.lastPuback = (if s.ver = Version.v4 then j else s.lastPuback) := congrArg Core.lastPuback hc
            rw [this, if_pos hv]
          simp only [relPub, aerase, if_true]
          have hocc := occ_set_none _ _ _ hx
          have hopos := occ_pos_of_slot _ _ _ hx
          refine ⟨?_, ?_, ?_, ?_, ?_, ?_, ?_, ?_, ?_⟩
          all_goals simp only [drainEvents]
          · rw [hmx', e5, hhead]; exact htail
          · rw [hmx']; omega
          · rw [hmx', e5, hhead]; exact (idAt_range _ _ 1 a3 (by omega) h0.maxPos).2
          · unfold nextPkidVal at a4 ⊢
            simp only
            rw [hlk, hmx', e5, a4, hhead]
            exact (idAt_shift _ _ _ a3 h0.maxPos (by omega) (by omega)).symm
          · rw [e2]; exact a5
          · rw [e3, e1, a6]; omega
          · rw [e4]; exact a7
          · exact a8
          · rw [e1, hmx', List.length_set]; exact a9
    · by_cases hrec : ∃ i r, p = .pubrec i r
      · obtain ⟨i, r, rfl⟩ := hrec; intro hio; simp at hio
      · by_cases hcomp : ∃ i r, p = .pubcomp i r
        · obtain ⟨i, r, rfl⟩ := hcomp; intro hio; simp at hio
        · have hoe := otherIncoming_eff s p (fun i r h => hack ⟨i, r, h⟩) (fun i r h => hrec ⟨i, r, h⟩)
            (fun i r h => hcomp ⟨i, r, h⟩)
          have hid : ackedId p = none := by
            cases p <;> first | rfl | exact absurd ⟨_, _, rfl⟩ hack | exact absurd ⟨_, _, rfl⟩ hrec
          simp only [unackedAfterIn, hid]
          rw [relPub_not_publish _ _ hoe.2.1]
          intro _
          exact ho.congr (by rw [core_drain, hoe.1]) (by simp [drainEvents, hmx])
  | fail =>
    simp only [lop?]
    have hp := h0.sinv.cleanPanics
    have hst : sstepSt s .clean = cleanState s := by simp [sstepSt, hp]
    have hob : (sstepObs s .clean).cleaned = cleanRequests s := by simp [sstepObs, hp, mkObs]
    simp only [core_clean g s hp, lpending, hst, hob, Bool.and_eq_true, List.isEmpty_iff]
    intro hio
    have hpd : pd = [] := by rw [← hgp]; exact hio.2
    subst hpd
    obtain ⟨oids, _⟩ := ho.order hv h0.sinv hU
    obtain ⟨a1, a2, a3, a4, a5, a6, a7, a8, a9⟩ := ho
    simp only [pubIds, List.filterMap_nil, List.length_nil, Nat.add_zero, List.append_nil] at a1 a2 a3 a4 a5 a6 a7 a9
    have hrel : relOnes s = [] := by
      have := length_relOnesFrom s.outgoingRel 0
      rw [a5] at this
      exact List.eq_nil_of_length_eq_zero this
    have hcl : cleanRequests s = cleanPubs s := by simp [cleanRequests, hrel]
    have hids : pubIds (cleanPubs s) = g.unacked.map (·.1) := oids
    have hlen : (pubIds (cleanPubs s)).length = g.unacked.length := by rw [hids]; simp
    refine ⟨?_, ?_, ?_, ?_, ?_, ?_, ?_, ?_, ?_⟩
    all_goals simp only [List.nil_append, hcl, List.map_nil, List.length_nil, Nat.zero_add]
    · rw [hlen, hids]; exact a1
    · rw [hlen]; exact a2
    · exact a3
    · rw [hlen]; exact a4
    · simp [cleanState, relCount_map_false]
    · simp [cleanState, occ_map_none]
    · exact a7
    · intro r hr
      obtain ⟨p, hp', _⟩ := (mem_cleanPubs s r).mp hr
      exact ⟨p, hp'⟩
    · simp only [cleanState, List.length_map]; exact a9
  | newSession =>
    simp only [lop?, core_drop, lpending, sstepSt]
    intro _
    have hpi : pubIds pd = [] := Classical.not_not.mp hn2
    have hpd : pd = [] := by
      cases pd with
      | nil => rfl
      | cons r rest =>
        obtain ⟨p, rfl⟩ := ho.pendPubs r (by simp)
        simp [pubIds] at hpi
    subst hpd
    exact ho

end Client
