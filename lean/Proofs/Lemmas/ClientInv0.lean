/-
`Inv0`: the invariant of the loop's use of the state machine (`lstep`) that needs no ghost state:
id counter below the limit, window, ids in range, well-formed `pending`.
Holds along every run that avoids `unsafeConnack` (#17; vacuous for v4).
-/
import Proofs.Lemmas.ClientClean
import Proofs.Lemmas.ClientC10
namespace Client
open Client.Spec

/-- a request `clean()` may have returned -/
def PendOK (s : State) : Request → Prop
  | .publish p => p.qos ≠ 0 ∧ 1 ≤ p.pkid ∧ p.pkid ≤ s.maxInflight ∧ p.alias = none
  | .pubrel i => 1 ≤ i ∧ i ≤ s.maxInflight
  | _ => False

structure Inv0 (l : LState) : Prop where
  sinv : SInv l.st
  maxPos : 1 ≤ l.st.maxInflight
  maxLe : l.st.maxInflight ≤ l.st.upperLimit
  upLe : l.st.upperLimit ≤ u16Max
  lastPkid : l.st.lastPkid < l.st.maxInflight
  window : l.st.inflight + l.pending.length ≤ l.st.maxInflight
  slotLe : ∀ (i : Nat) (p : Pub), l.st.outgoingPub[i]? = some (some p) → 1 ≤ i ∧ i ≤ l.st.maxInflight ∧ p.alias = none
  relLe : ∀ i : Nat, relContains l.st i = true → 1 ≤ i ∧ i ≤ l.st.maxInflight
  colLe : ∀ c : Pub, l.st.collision = some c → 1 ≤ c.pkid ∧ c.pkid ≤ l.st.maxInflight ∧ c.alias = none
  pendWF : ∀ r ∈ l.pending, PendOK l.st r
  pendNodup : (pubIds l.pending).Nodup
  pendFree : ∀ p : Pub, .publish p ∈ l.pending → l.st.outgoingPub[p.pkid]? = some none

theorem Inv0.new (ver : Version) (max : Nat) (m : Bool) (h1 : 1 ≤ max) (h2 : max ≤ u16Max) :
    Inv0 (LState.new ver max m) := by
  refine ⟨SInv.new _ _ _, h1, Nat.le_refl _, h2, h1, by simp [LState.new, State.new], ?_, ?_, ?_, ?_, ?_, ?_⟩
  · intro i p h; simp [LState.new, State.new, List.getElem?_replicate] at h
  · intro i h; rw [relContains_eq] at h; simp [LState.new, State.new, List.getElem?_replicate] at h
  · intro c h; simp [LState.new, State.new] at h
  · intro r h; simp [LState.new] at h
  · simp [LState.new, pubIds]
  · intro p h; simp [LState.new] at h

/-! the part of `Inv0` about the state alone, closed under changes that leave the relevant fields -/

/-- fields `Inv0` reads besides `events` -/
def Frame0 (s s' : State) : Prop :=
  SFrame s s' ∧ s'.maxInflight = s.maxInflight ∧ s'.lastPkid = s.lastPkid

theorem Inv0.congr {s s' : State} {pd : List Request} (h : Inv0 ⟨s, pd⟩) (f : Frame0 s s') :
    Inv0 ⟨s', pd⟩ := by
  obtain ⟨⟨f1, f2, f3, f4, f5, f6⟩, f7, f8⟩ := f
  obtain ⟨a1, a3, a4, a5, a6, a7, a8, a9, a10, a11, a12, a13⟩ := h
  refine ⟨a1.congr ⟨f1, f2, f3, f4, f5, f6⟩, ?_, ?_, ?_, ?_, ?_, ?_, ?_, ?_, ?_, a12, ?_⟩
  all_goals simp only at *
  · rw [f7]; exact a3
  · rw [f7, f3]; exact a4
  · rw [f3]; exact a5
  · rw [f7, f8]; exact a6
  · rw [f7, f5]; exact a7
  · rw [f7, f1]; exact a8
  · intro i hi; rw [f7]; apply a9; unfold relContains at *; rw [← f2]; exact hi
  · rw [f7, f4]; exact a10
  · intro r hr
    have := a11 r hr
    cases r <;> simp_all [PendOK]
  · rw [f1]; exact a13

theorem drain_frame0 (s : State) : Frame0 s (drainEvents s) :=
  ⟨⟨rfl, rfl, rfl, rfl, rfl, rfl⟩, rfl, rfl⟩

theorem pushOut_frame0 (s : State) (o : Outgoing) : Frame0 s (s.pushOut o) :=
  ⟨⟨rfl, rfl, rfl, rfl, rfl, rfl⟩, rfl, rfl⟩

theorem Frame0.trans {a b c : State} (h1 : Frame0 a b) (h2 : Frame0 b c) : Frame0 a c := by
  obtain ⟨⟨f1, f2, f3, f4, f5, f6⟩, f7, f8⟩ := h1
  obtain ⟨⟨g1, g2, g3, g4, g5, g6⟩, g7, g8⟩ := h2
  exact ⟨⟨g1.trans f1, g2.trans f2, g3.trans f3, g4.trans f4, g5.trans f5, g6.trans f6⟩, g7.trans f7, g8.trans f8⟩

theorem Frame0.refl (a : State) : Frame0 a a := ⟨⟨rfl, rfl, rfl, rfl, rfl, rfl⟩, rfl, rfl⟩


theorem nextPkidSt_frame (s : State) : SFrame s (nextPkidSt s) ∧ (nextPkidSt s).maxInflight = s.maxInflight ∧
    (nextPkidSt s).events = s.events := by
  unfold nextPkidSt SFrame; split <;> simp

theorem Inv0.nextPkid {s : State} {pd : List Request} (h : Inv0 ⟨s, pd⟩) :
    nextPkidPanics s = false ∧ 1 ≤ nextPkidVal s ∧ nextPkidVal s ≤ s.maxInflight ∧ (nextPkidSt s).lastPkid < s.maxInflight := by
  have h1 := h.lastPkid; have h2 := h.maxLe; have h3 := h.upLe; have h4 := h.maxPos
  simp only at h1 h2 h3 h4
  refine ⟨by simp [nextPkidPanics, u16Max] at *; omega, by simp [nextPkidVal], by simp [nextPkidVal]; omega, ?_⟩
  unfold nextPkidSt; split <;> simp <;> omega

/-- advancing the id counter keeps `Inv0` -/
theorem Inv0.nextPkidSt {s : State} {pd : List Request} (h : Inv0 ⟨s, pd⟩) : Inv0 ⟨nextPkidSt s, pd⟩ := by
  obtain ⟨⟨f1, f2, f3, f4, f5, f6⟩, f7, f8⟩ := nextPkidSt_frame s
  have hl := h.nextPkid.2.2.2
  obtain ⟨a1, a3, a4, a5, a6, a7, a8, a9, a10, a11, a12, a13⟩ := h
  refine ⟨a1.congr ⟨f1, f2, f3, f4, f5, f6⟩, ?_, ?_, ?_, ?_, ?_, ?_, ?_, ?_, ?_, a12, ?_⟩
  all_goals simp only at *
  · rw [f7]; exact a3
  · rw [f7, f3]; exact a4
  · rw [f3]; exact a5
  · rw [f7]; exact hl
  · rw [f7, f5]; exact a7
  · rw [f7, f1]; exact a8
  · intro i hi; rw [f7]; apply a9; unfold relContains at *; rw [← f2]; exact hi
  · rw [f7, f4]; exact a10
  · intro r hr
    have := a11 r hr
    cases r <;> simp_all [PendOK]
  · rw [f1]; exact a13

/-- storing publish `p` in the empty slot `p.pkid` while one request leaves `pending` or the gate is open -/
theorem Inv0.store {s : State} {pd pd' : List Request} (h : Inv0 ⟨s, pd⟩) (p : Pub)
    (hq : p.qos ≠ 0) (h1 : 1 ≤ p.pkid) (h2 : p.pkid ≤ s.maxInflight) (ha : p.alias = none)
    (hslot : s.outgoingPub[p.pkid]? = some none)
    (hw : s.inflight + 1 + pd'.length ≤ s.maxInflight)
    (hsub : ∀ r ∈ pd', r ∈ pd) (hnd : (pubIds pd').Nodup)
    (hfree : ∀ q : Pub, .publish q ∈ pd' → q.pkid ≠ p.pkid) :
    Inv0 ⟨{ s with outgoingPub := s.outgoingPub.set p.pkid (some p), inflight := s.inflight + 1 }, pd'⟩ := by
  obtain ⟨a1, a3, a4, a5, a6, a7, a8, a9, a10, a11, a12, a13⟩ := h
  simp only at *
  refine ⟨?_, a3, a4, a5, a6, hw, ?_, a9, a10, ?_, hnd, ?_⟩
  · obtain ⟨b1, b2, b3, b4, b5, b6⟩ := a1
    refine ⟨by simpa using b1, b2, ?_, b4, ?_, b6⟩
    · intro i q hi
      simp only [List.getElem?_set] at hi
      split at hi
      · split at hi
        · simp at hi; subst hi; rename_i h1 _; exact ⟨h1, hq⟩
        · simp at hi
      · exact b3 i q hi
    · simp only [occ_set_some _ _ _ hslot]; omega
  · intro i q hi
    simp only [List.getElem?_set] at hi
    split at hi
    · split at hi
      · simp at hi; subst hi; rename_i h1 _; subst h1; exact ⟨h1, h2, ha⟩
      · simp at hi
    · exact a8 i q hi
  · intro r hr
    have := a11 r (hsub r hr)
    cases r <;> simp_all [PendOK]
  · intro q hq'
    have := a13 q (hsub _ hq')
    simp only [List.getElem?_set]
    rw [if_neg (Ne.symm (hfree q hq'))]
    exact this


theorem getElem?_lt_of_some {α} {l : List α} {i : Nat} {a : α} (h : l[i]? = some a) : i < l.length := by
  rcases Nat.lt_or_ge i l.length with h' | h'
  · exact h'
  · simp [List.getElem?_eq_none h'] at h

theorem relContains_set (s : State) (i j : Nat) (b : Bool) (hi : i < s.outgoingRel.length) :
    (s.outgoingRel.set i b)[j]?.getD false = if i = j then b else relContains s j := by
  unfold relContains
  simp only [List.getElem?_set]
  split
  · simp
  · rfl

/-- parking a publish on a collision -/
theorem Inv0.park {s : State} {pd pd' : List Request} (h : Inv0 ⟨s, pd⟩) (p : Pub)
    (hq : p.qos ≠ 0) (h1 : 1 ≤ p.pkid) (h2 : p.pkid ≤ s.maxInflight) (ha : p.alias = none)
    (hlen : pd'.length ≤ pd.length) (hsub : ∀ r ∈ pd', r ∈ pd) (hnd : (pubIds pd').Nodup) :
    Inv0 ⟨{ s with collision := some p }, pd'⟩ := by
  obtain ⟨a1, a3, a4, a5, a6, a7, a8, a9, a10, a11, a12, a13⟩ := h
  simp only at *
  refine ⟨?_, a3, a4, a5, a6, by (try simp only); omega, a8, a9, ?_, ?_, hnd, ?_⟩
  · obtain ⟨b1, b2, b3, b4, b5, b6⟩ := a1
    exact ⟨b1, b2, b3, by intro c hc; simp at hc; subst hc; exact hq, b5, b6⟩
  · intro c hc; simp at hc; subst hc; exact ⟨h1, h2, ha⟩
  · intro r hr
    have := a11 r (hsub r hr)
    cases r <;> simp_all [PendOK]
  · intro q hq'; exact a13 q (hsub _ hq')

/-- an acknowledgement frees slot `i` -/
theorem Inv0.free {s : State} {pd : List Request} (h : Inv0 ⟨s, pd⟩) (i : Nat) (x : Pub)
    (hslot : s.outgoingPub[i]? = some (some x)) (dec : Bool) :
    Inv0 ⟨{ s with outgoingPub := s.outgoingPub.set i none, inflight := if dec then s.inflight - 1 else s.inflight }, pd⟩ := by
  have hlt := getElem?_lt_of_some hslot
  have hocc := occ_set_none _ _ _ hslot
  obtain ⟨a1, a3, a4, a5, a6, a7, a8, a9, a10, a11, a12, a13⟩ := h
  simp only at *
  refine ⟨?_, a3, a4, a5, a6, by (try simp only); split <;> omega, ?_, a9, a10, ?_, a12, ?_⟩
  · obtain ⟨b1, b2, b3, b4, b5, b6⟩ := a1
    refine ⟨by simpa using b1, b2, ?_, b4, ?_, b6⟩
    · intro j q hj
      simp only [List.getElem?_set] at hj
      split at hj
      · first | (split at hj <;> simp at hj) | simp at hj
      · exact b3 j q hj
    · simp only; split <;> omega
  · intro j q hj
    simp only [List.getElem?_set] at hj
    split at hj
    · first | (split at hj <;> simp at hj) | simp at hj
    · exact a8 j q hj
  · intro r hr
    have := a11 r hr
    cases r <;> simp_all [PendOK]
  · intro q hq'
    have := a13 q hq'
    simp only [List.getElem?_set]
    split
    · simp
    · exact this

/-- PUBREC: the slot is freed and the release bit set, counter untouched -/
theorem Inv0.moveToRel {s : State} {pd : List Request} (h : Inv0 ⟨s, pd⟩) (i : Nat) (x : Pub)
    (hslot : s.outgoingPub[i]? = some (some x)) :
    Inv0 ⟨{ s with outgoingPub := s.outgoingPub.set i none, outgoingRel := s.outgoingRel.set i true }, pd⟩ := by
  have hlt := getElem?_lt_of_some hslot
  have hocc := occ_set_none _ _ _ hslot
  have hi := h.slotLe i x hslot
  obtain ⟨a1, a3, a4, a5, a6, a7, a8, a9, a10, a11, a12, a13⟩ := h
  simp only at *
  have hrl : i < s.outgoingRel.length := by have := a1.lenPub; have := a1.lenRel; omega
  refine ⟨?_, a3, a4, a5, a6, a7, ?_, ?_, a10, ?_, a12, ?_⟩
  · obtain ⟨b1, b2, b3, b4, b5, b6⟩ := a1
    refine ⟨by simpa using b1, by simpa using b2, ?_, b4, ?_, b6⟩
    · intro j q hj
      simp only [List.getElem?_set] at hj
      split at hj
      · first | (split at hj <;> simp at hj) | simp at hj
      · exact b3 j q hj
    · simp only
      cases hb : s.outgoingRel[i]? with
      | none => simp at hb; omega
      | some v =>
        cases v with
        | true => rw [relCount_set_true_same _ _ hb]; omega
        | false => rw [relCount_set_true _ _ hb]; omega
  · intro j q hj
    simp only [List.getElem?_set] at hj
    split at hj
    · first | (split at hj <;> simp at hj) | simp at hj
    · exact a8 j q hj
  · intro j hj
    unfold relContains at hj
    simp only at hj
    rw [relContains_set s i j true hrl] at hj
    split at hj
    · rename_i hij; subst hij; exact ⟨hi.1, hi.2.1⟩
    · exact a9 j hj
  · intro r hr
    have := a11 r hr
    cases r <;> simp_all [PendOK]
  · intro q hq'
    have := a13 q hq'
    simp only [List.getElem?_set]
    split
    · simp
    · exact this

/-- a retransmitted PUBREL sets the release bit and counts -/
theorem Inv0.relSetInc {s : State} {pd pd' : List Request} (h : Inv0 ⟨s, pd⟩) (i : Nat)
    (h1 : 1 ≤ i) (h2 : i ≤ s.maxInflight)
    (hw : s.inflight + 1 + pd'.length ≤ s.maxInflight)
    (hsub : ∀ r ∈ pd', r ∈ pd) (hnd : (pubIds pd').Nodup) :
    Inv0 ⟨{ s with outgoingRel := s.outgoingRel.set i true, inflight := s.inflight + 1 }, pd'⟩ := by
  obtain ⟨a1, a3, a4, a5, a6, a7, a8, a9, a10, a11, a12, a13⟩ := h
  simp only at *
  have hrl : i < s.outgoingRel.length := by have := a1.lenRel; omega
  refine ⟨?_, a3, a4, a5, a6, hw, a8, ?_, a10, ?_, hnd, ?_⟩
  · obtain ⟨b1, b2, b3, b4, b5, b6⟩ := a1
    refine ⟨b1, by simpa using b2, b3, b4, ?_, b6⟩
    simp only
    cases hb : s.outgoingRel[i]? with
    | none => simp at hb; omega
    | some v =>
      cases v with
      | true => rw [relCount_set_true_same _ _ hb]; omega
      | false => rw [relCount_set_true _ _ hb]; omega
  · intro j hj
    unfold relContains at hj
    simp only at hj
    rw [relContains_set s i j true hrl] at hj
    split at hj
    · rename_i hij; subst hij; exact ⟨h1, h2⟩
    · exact a9 j hj
  · intro r hr
    have := a11 r (hsub r hr)
    cases r <;> simp_all [PendOK]
  · intro q hq'; exact a13 q (hsub _ hq')

/-- PUBCOMP clears the release bit -/
theorem Inv0.relClear {s : State} {pd : List Request} (h : Inv0 ⟨s, pd⟩) (i : Nat)
    (hbit : relContains s i = true) (dec : Bool) :
    Inv0 ⟨{ s with outgoingRel := s.outgoingRel.set i false, inflight := if dec then s.inflight - 1 else s.inflight }, pd⟩ := by
  have hb := (relContains_eq s i).mp hbit
  have hrl := getElem?_lt_of_some hb
  have hcnt := relCount_set_false _ _ hb
  obtain ⟨a1, a3, a4, a5, a6, a7, a8, a9, a10, a11, a12, a13⟩ := h
  simp only at *
  refine ⟨?_, a3, a4, a5, a6, by (try simp only); split <;> omega, a8, ?_, a10, ?_, a12, a13⟩
  · obtain ⟨b1, b2, b3, b4, b5, b6⟩ := a1
    refine ⟨b1, by simpa using b2, b3, b4, ?_, b6⟩
    simp only; split <;> omega
  · intro j hj
    unfold relContains at hj
    simp only at hj
    rw [relContains_set s i j false hrl] at hj
    split at hj
    · simp at hj
    · exact a9 j hj
  · intro r hr
    have := a11 r hr
    cases r <;> simp_all [PendOK]

/-- the parked publish is taken out of the collision slot -/
theorem Inv0.clearCol {s : State} {pd : List Request} (h : Inv0 ⟨s, pd⟩) (n : Nat) :
    Inv0 ⟨{ s with collision := none, collisionPingCount := n }, pd⟩ := by
  obtain ⟨a1, a3, a4, a5, a6, a7, a8, a9, a10, a11, a12, a13⟩ := h
  simp only at *
  refine ⟨?_, a3, a4, a5, a6, a7, a8, a9, by simp, ?_, a12, a13⟩
  · obtain ⟨b1, b2, b3, b4, b5, b6⟩ := a1
    exact ⟨b1, b2, b3, by simp, b5, b6⟩
  · intro r hr
    have := a11 r hr
    cases r <;> simp_all [PendOK]

theorem Inv0.setLastPuback {s : State} {pd : List Request} (h : Inv0 ⟨s, pd⟩) (i : Nat) (hi : i ≤ s.upperLimit) :
    Inv0 ⟨{ s with lastPuback := i }, pd⟩ := by
  obtain ⟨a1, a3, a4, a5, a6, a7, a8, a9, a10, a11, a12, a13⟩ := h
  simp only at *
  refine ⟨?_, a3, a4, a5, a6, a7, a8, a9, a10, ?_, a12, a13⟩
  · obtain ⟨b1, b2, b3, b4, b5, b6⟩ := a1
    exact ⟨b1, b2, b3, b4, b5, hi⟩
  · intro r hr
    have := a11 r hr
    cases r <;> simp_all [PendOK]


/-! ### effect equations of the outgoing handlers (used by every invariant) -/

theorem eff_publishTail (s : State) (p : Pub) (ha : p.alias = none) :
    publishTail s p = (s.pushOut (.publish p.pkid), .ok (some (.publish p))) := by
  unfold publishTail; rw [ha]; cases s.ver <;> rfl

theorem eff_publishWithId_store (s : State) (p : Pub) (ha : p.alias = none)
    (hslot : s.outgoingPub[p.pkid]? = some none) (hinf : s.inflight < u16Max) :
    publishWithId s p =
      ({ s with outgoingPub := s.outgoingPub.set p.pkid (some p), inflight := s.inflight + 1 }.pushOut (.publish p.pkid),
        .ok (some (.publish p))) := by
  unfold publishWithId
  rw [hslot]
  simp only
  rw [if_neg (by omega), eff_publishTail _ _ ha]

theorem eff_publishWithId_park (s : State) (p x : Pub) (hslot : s.outgoingPub[p.pkid]? = some (some x)) :
    publishWithId s p = ({ s with collision := some p }.pushOut (.awaitAck p.pkid), .ok none) := by
  unfold publishWithId; rw [hslot]

theorem eff_publish_fresh (s : State) (q t : Nat) (hq : q ≠ 0) (hp : nextPkidPanics s = false) :
    handleOutgoing s (.publish { qos := q, pkid := 0, tag := t }) =
      publishWithId (nextPkidSt s) { qos := q, pkid := nextPkidVal s, tag := t } := by
  simp [handleOutgoing, outgoingPublish, hq, hp]

theorem eff_publish_qos0 (s : State) (t : Nat) :
    handleOutgoing s (.publish { qos := 0, pkid := 0, tag := t }) =
      (s.pushOut (.publish 0), .ok (some (.publish { qos := 0, pkid := 0, tag := t }))) := by
  simp [handleOutgoing, outgoingPublish, eff_publishTail]

theorem eff_publish_replay (s : State) (p : Pub) (hq : p.qos ≠ 0) (hid : p.pkid ≠ 0) :
    handleOutgoing s (.publish p) = publishWithId s p := by
  simp [handleOutgoing, outgoingPublish, hq, hid]

theorem eff_pubrel_replay (s : State) (i : Nat) (hi : i ≠ 0) (hlt : i < s.outgoingRel.length) (hinf : s.inflight < u16Max) :
    handleOutgoing s (.pubrel i) =
      ({ s with outgoingRel := s.outgoingRel.set i true, inflight := s.inflight + 1 }.pushOut (.pubrel i),
        .ok (some (.pubrel i))) := by
  simp [handleOutgoing, outgoingPubrel, pubrelWithId, hi, hlt]
  omega

/-! ### `Inv0` is preserved by every loop operation -/

theorem Inv0.pushOut {s : State} {pd : List Request} (h : Inv0 ⟨s, pd⟩) (o : Outgoing) : Inv0 ⟨s.pushOut o, pd⟩ :=
  h.congr (pushOut_frame0 s o)

theorem Inv0.drain {s : State} {pd : List Request} (h : Inv0 ⟨s, pd⟩) : Inv0 ⟨drainEvents s, pd⟩ :=
  h.congr (drain_frame0 s)

theorem Inv0.slot_cases {s : State} {pd : List Request} (h : Inv0 ⟨s, pd⟩) (i : Nat) (hi : i ≤ s.maxInflight) :
    s.outgoingPub[i]? = some none ∨ ∃ x, s.outgoingPub[i]? = some (some x) := by
  have h1 := h.sinv.lenPub; have h2 := h.maxLe
  simp only at h1 h2
  have hlt : i < s.outgoingPub.length := by omega
  rw [List.getElem?_eq_getElem hlt]
  cases s.outgoingPub[i] with
  | none => exact Or.inl rfl
  | some x => exact Or.inr ⟨x, rfl⟩

/-- a user request taken through the open gate -/
theorem Inv0.user {s : State} (h : Inv0 ⟨s, []⟩) (u : UserReq) (hg : selectEnabled s [] = true) :
    Inv0 ⟨(handleOutgoing s u.toRequest).1, []⟩ := by
  have hgate : s.inflight < s.maxInflight ∧ s.collision = none := by
    simp [selectEnabled] at hg
    exact ⟨hg.1, by cases hc : s.collision <;> simp_all⟩
  obtain ⟨hp, hv1, hv2, hv3⟩ := h.nextPkid
  have hup := h.upLe; have hml := h.maxLe
  simp only at hup hml
  cases u with
  | publish q t =>
    simp only [UserReq.toRequest]
    by_cases hq : q = 0
    · subst hq; rw [eff_publish_qos0]; exact h.pushOut _
    · rw [eff_publish_fresh s q t hq hp]
      have h1 := h.nextPkidSt
      obtain ⟨⟨f1, f2, f3, f4, f5, f6⟩, f7, f8⟩ := nextPkidSt_frame s
      rcases h1.slot_cases (nextPkidVal s) (by rw [f7]; exact hv2) with hs | ⟨x, hs⟩
      · rw [eff_publishWithId_store _ _ rfl hs (by rw [f5]; omega)]
        apply Inv0.pushOut
        exact h1.store _ hq hv1 (by rw [f7]; exact hv2) rfl hs (by simp; rw [f5, f7]; omega) (by simp) (by simp [pubIds]) (by simp)
      · rw [eff_publishWithId_park _ _ x hs]
        apply Inv0.pushOut
        exact h1.park _ hq hv1 (by rw [f7]; exact hv2) rfl (Nat.le_refl _) (by simp) (by simp [pubIds])
  | subscribe n =>
    simp only [UserReq.toRequest, handleOutgoing, outgoingSubscribe]
    split
    · exact h
    · rw [hp]; exact h.nextPkidSt.pushOut _
  | unsubscribe =>
    simp only [UserReq.toRequest, handleOutgoing, outgoingUnsubscribe]
    rw [hp]; exact h.nextPkidSt.pushOut _
  | disconnect => exact h.pushOut _
  | puback i => exact h.pushOut _
  | pubrec i => exact h.pushOut _


theorem pubIds_cons_publish (p : Pub) (l : List Request) : pubIds (.publish p :: l) = p.pkid :: pubIds l := by
  simp [pubIds]

theorem pubIds_cons_pubrel (i : Nat) (l : List Request) : pubIds (.pubrel i :: l) = pubIds l := by
  simp [pubIds]

/-- facts about the head of `pending` that every invariant needs -/
theorem Inv0.pend_publish {s : State} {p : Pub} {rest : List Request} (h : Inv0 ⟨s, .publish p :: rest⟩) :
    p.qos ≠ 0 ∧ 1 ≤ p.pkid ∧ p.pkid ≤ s.maxInflight ∧ p.alias = none ∧ s.outgoingPub[p.pkid]? = some none ∧
    s.inflight < u16Max ∧ (∀ q : Pub, .publish q ∈ rest → q.pkid ≠ p.pkid) := by
  have h1 := h.pendWF (.publish p) (by simp)
  have h2 := h.pendFree p (by simp)
  have h3 := h.window; have h4 := h.maxLe; have h5 := h.upLe
  have h6 := h.pendNodup
  simp only [PendOK, List.length_cons, pubIds_cons_publish, List.nodup_cons] at h1 h2 h3 h4 h5 h6
  refine ⟨h1.1, h1.2.1, h1.2.2.1, h1.2.2.2, h2, by omega, ?_⟩
  intro q hq heq
  exact h6.1 ((mem_pubIds _ _).mpr ⟨q, hq, heq⟩)

theorem Inv0.pend_pubrel {s : State} {i : Nat} {rest : List Request} (h : Inv0 ⟨s, .pubrel i :: rest⟩) :
    1 ≤ i ∧ i ≤ s.maxInflight ∧ i < s.outgoingRel.length ∧ s.inflight < u16Max := by
  have h1 := h.pendWF (.pubrel i) (by simp)
  have h3 := h.window; have h4 := h.maxLe; have h5 := h.upLe; have h6 := h.sinv.lenRel
  simp only [PendOK, List.length_cons] at h1 h3 h4 h5 h6
  exact ⟨h1.1, h1.2, by omega, by omega⟩

theorem Inv0.pend {s : State} {r : Request} {rest : List Request} (h : Inv0 ⟨s, r :: rest⟩) :
    Inv0 ⟨(handleOutgoing s r).1, rest⟩ := by
  have hnd : (pubIds rest).Nodup := by
    have := h.pendNodup
    cases r <;> simp_all [pubIds]
  have hw := h.window
  simp only [List.length_cons] at hw
  cases r with
  | publish p =>
    obtain ⟨hq, h1, h2, ha, hslot, hinf, hne⟩ := h.pend_publish
    rw [eff_publish_replay s p hq (by omega), eff_publishWithId_store s p ha hslot hinf]
    apply Inv0.pushOut
    exact h.store p hq h1 h2 ha hslot (by omega) (fun r hr => List.mem_cons_of_mem _ hr) hnd hne
  | pubrel i =>
    obtain ⟨h1, h2, hlt, hinf⟩ := h.pend_pubrel
    rw [eff_pubrel_replay s i (by omega) hlt hinf]
    apply Inv0.pushOut
    exact h.relSetInc i h1 h2 (by omega) (fun r hr => List.mem_cons_of_mem _ hr) hnd
  | subscribe n => exact absurd (h.pendWF (.subscribe n) (by simp)) (by simp [PendOK])
  | unsubscribe => exact absurd (h.pendWF .unsubscribe (by simp)) (by simp [PendOK])
  | pingreq => exact absurd (h.pendWF .pingreq (by simp)) (by simp [PendOK])
  | disconnect => exact absurd (h.pendWF .disconnect (by simp)) (by simp [PendOK])
  | puback j => exact absurd (h.pendWF (.puback j) (by simp)) (by simp [PendOK])
  | pubrec j => exact absurd (h.pendWF (.pubrec j) (by simp)) (by simp [PendOK])
  | other => exact absurd (h.pendWF .other (by simp)) (by simp [PendOK])

theorem outgoingPing_frame0 (s : State) : Frame0 s (outgoingPing s).1 := by
  refine ⟨outgoingPing_frame s, ?_, ?_⟩
  all_goals (unfold outgoingPing; simp only; split <;> split <;> (try split) <;> simp [State.pushOut, State.pushEv])

theorem Inv0.ping {s : State} {pd : List Request} (h : Inv0 ⟨s, pd⟩) : Inv0 ⟨(handleOutgoing s .pingreq).1, pd⟩ :=
  h.congr (outgoingPing_frame0 s)

theorem Inv0.pushEv {s : State} {pd : List Request} (h : Inv0 ⟨s, pd⟩) (e : Event) : Inv0 ⟨s.pushEv e, pd⟩ :=
  h.congr ⟨⟨rfl, rfl, rfl, rfl, rfl, rfl⟩, rfl, rfl⟩

theorem Inv0.pubackCollision {s : State} {pd : List Request} (h : Inv0 ⟨s, pd⟩) (i : Nat)
    (hs : s.outgoingPub[i]? = some none) (hw : s.inflight + 1 + pd.length ≤ s.maxInflight)
    (hfree : ∀ q : Pub, .publish q ∈ pd → q.pkid ≠ i) :
    Inv0 ⟨(pubackCollision s i).1, pd⟩ := by
  unfold Client.pubackCollision
  split
  · rename_i c hc
    split
    · rename_i hci
      obtain ⟨c1, c2, c3⟩ := h.colLe c hc
      have hq := h.sinv.colQos c hc
      have h1 := (h.clearCol 0).store c hq c1 c2 c3 (by rw [hci]; exact hs) hw (fun r hr => hr) h.pendNodup
        (by intro q hq'; rw [hci]; exact hfree q hq')
      exact h1.pushOut _
    · exact h
  · exact h

theorem Inv0.handlePuback {s : State} {pd : List Request} (h : Inv0 ⟨s, pd⟩) (i r : Nat) :
    Inv0 ⟨(handlePuback s i r).1, pd⟩ := by
  unfold Client.handlePuback
  split
  · exact h
  · rename_i slot hslot
    have hi : i ≤ s.upperLimit := by
      have := h.sinv.lenPub; have := getElem?_lt_of_some hslot; simp only at *; omega
    have h1 : Inv0 ⟨(if s.ver = Version.v4 then { s with lastPuback := i } else s), pd⟩ := by
      split
      · exact h.setLastPuback i hi
      · exact h
    have hf : (if s.ver = Version.v4 then { s with lastPuback := i } else s).outgoingPub = s.outgoingPub ∧
        (if s.ver = Version.v4 then { s with lastPuback := i } else s).inflight = s.inflight ∧
        (if s.ver = Version.v4 then { s with lastPuback := i } else s).maxInflight = s.maxInflight := by
      split <;> simp
    generalize (if s.ver = Version.v4 then { s with lastPuback := i } else s) = s1 at h1 hf
    obtain ⟨hf1, hf2, hf3⟩ := hf
    simp only
    split
    · exact h1
    · rename_i x
      split
      · exact h1
      · rename_i hinf
        have hslot1 : s1.outgoingPub[i]? = some (some x) := by rw [hf1]; exact hslot
        have h2 := h1.free i x hslot1 true
        simp only [if_true] at h2
        split
        · exact h2
        · have hlt := getElem?_lt_of_some hslot1
          have hw := h1.window
          simp only at hw
          apply h2.pubackCollision
          · simp [hlt]
          · simp only; omega
          · intro q hq heq
            have := h1.pendFree q hq
            simp only at this
            rw [heq, hslot1] at this
            simp at this

theorem Inv0.handlePubrec {s : State} {pd : List Request} (h : Inv0 ⟨s, pd⟩) (i r : Nat) :
    Inv0 ⟨(handlePubrec s i r).1, pd⟩ := by
  unfold Client.handlePubrec
  split
  · exact h
  · exact h
  · rename_i x hslot
    simp only
    split
    · have := h.free i x hslot false
      simpa using this
    · have hlt : i < s.outgoingRel.length := by
        have := h.sinv.lenPub; have := h.sinv.lenRel; have := getElem?_lt_of_some hslot; simp only at *; omega
      simp only [hlt]
      exact (h.moveToRel i x hslot).pushOut _

theorem Inv0.handlePubrel {s : State} {pd : List Request} (h : Inv0 ⟨s, pd⟩) (i r : Nat) :
    Inv0 ⟨(handlePubrel s i r).1, pd⟩ := by
  unfold Client.handlePubrel
  have h1 : Inv0 ⟨{ s with incomingPub := s.incomingPub.filter (· != i) }, pd⟩ :=
    h.congr ⟨⟨rfl, rfl, rfl, rfl, rfl, rfl⟩, rfl, rfl⟩
  split
  · simp only
    split
    · exact h1
    · exact h1.pushOut _
  · exact h

theorem Inv0.handlePubcompV4 {s : State} {pd : List Request} (h : Inv0 ⟨s, pd⟩) (i : Nat) :
    Inv0 ⟨(handlePubcompV4 s i).1, pd⟩ := by
  unfold Client.handlePubcompV4
  split
  · rename_i hc
    split
    · have := h.relClear i hc false
      simpa using this
    · have h1 := h.relClear i hc true
      simp only [if_true] at h1
      simp only
      split
      · split
        · exact (h1.clearCol 0).pushOut _
        · exact h1
      · exact h1
  · exact h

theorem Inv0.pubcompTakeCollision {s : State} {pd : List Request} (h : Inv0 ⟨s, pd⟩) (i : Nat) :
    Inv0 ⟨Client.pubcompTakeCollision s i, pd⟩ := by
  unfold Client.pubcompTakeCollision
  split
  · split
    · exact (h.clearCol 0).pushOut _
    · exact h
  · exact h

theorem Inv0.handlePubcompV5 {s : State} {pd : List Request} (h : Inv0 ⟨s, pd⟩) (i r : Nat) :
    Inv0 ⟨(handlePubcompV5 s i r).1, pd⟩ := by
  unfold Client.handlePubcompV5
  have h1 := h.pubcompTakeCollision i
  generalize Client.pubcompTakeCollision s i = s1 at h1
  simp only
  split
  · rename_i hc
    split
    · have := h1.relClear i hc false
      simpa using this
    · split
      · have := h1.relClear i hc false
        simpa using this
      · have := h1.relClear i hc true
        simpa using this
  · exact h1

theorem publishAlias_frame0 (s : State) (p : InPub) : Frame0 s (publishAlias s p) := by
  refine ⟨publishAlias_frame s p, ?_, ?_⟩
  all_goals (unfold publishAlias; split <;> (try split) <;> (try split) <;> (try split) <;> simp [State.pushOut, State.pushEv])

theorem Inv0.handlePublish {s : State} {pd : List Request} (h : Inv0 ⟨s, pd⟩) (p : InPub) :
    Inv0 ⟨(handlePublish s p).1, pd⟩ := by
  unfold Client.handlePublish
  have h1 := h.congr (publishAlias_frame0 s p)
  generalize Client.publishAlias s p = s1 at h1
  simp only
  split
  · exact h1
  · split
    · split
      · exact h1.pushOut _
      · exact h1
    · have h2 : Inv0 ⟨(if s1.incomingPub.contains p.pkid = true then s1 else { s1 with incomingPub := p.pkid :: s1.incomingPub }), pd⟩ := by
        split
        · exact h1
        · exact h1.congr ⟨⟨rfl, rfl, rfl, rfl, rfl, rfl⟩, rfl, rfl⟩
      generalize (if s1.incomingPub.contains p.pkid = true then s1 else { s1 with incomingPub := p.pkid :: s1.incomingPub }) = s2 at h2
      split
      · exact h2.pushOut _
      · exact h2


theorem occ_zero_slot (l : List (Option Pub)) (h : occ l = 0) (i : Nat) (p : Pub) : l[i]? ≠ some (some p) := by
  intro hp; have := occ_pos_of_slot l i p hp; omega

theorem relCount_zero_bit (l : List Bool) (h : relCount l = 0) (i : Nat) : l[i]? ≠ some true := by
  intro hp; have := relCount_pos_of_bit l i hp; omega

/-- a CONNACK that is not `unsafeConnack` -/
theorem Inv0.handleConnack {s : State} {pd : List Request} (h : Inv0 ⟨s, pd⟩) (ok : Bool) (rm am : Option Nat)
    (hsafe : ∀ m, ok = true → rm = some m →
      s.lastPkid < min m s.upperLimit ∧
        (s.maxInflight ≤ min m s.upperLimit ∨ (s.inflight = 0 ∧ pd = [] ∧ s.collision = none))) :
    Inv0 ⟨(handleConnack s ok rm am).1, pd⟩ := by
  unfold Client.handleConnack
  split
  · exact h
  · rename_i hok
    have hok' : ok = true := by simpa using hok
    cases rm with
    | none =>
      cases am with
      | none => exact h
      | some a => exact h.congr ⟨⟨rfl, rfl, rfl, rfl, rfl, rfl⟩, rfl, rfl⟩
    | some m =>
      have key : ∀ s1 : State, Inv0 ⟨s1, pd⟩ → Frame0 s s1 →
          Inv0 ⟨{ s1 with maxInflight := min m s1.upperLimit }, pd⟩ := by
        intro s1 h1 hf
        obtain ⟨⟨f1, f2, f3, f4, f5, f6⟩, f7, f8⟩ := hf
        obtain ⟨hs1, hs2⟩ := hsafe m hok' rfl
        rw [← f3, ← f8] at hs1
        obtain ⟨a1, a3, a4, a5, a6, a7, a8, a9, a10, a11, a12, a13⟩ := h1
        simp only at *
        have hml : min m s1.upperLimit ≤ s1.upperLimit := Nat.min_le_right _ _
        rcases hs2 with hge | ⟨hz, hpd, hcol⟩
        · rw [← f3, ← f7] at hge
          refine ⟨a1.congr ⟨rfl, rfl, rfl, rfl, rfl, rfl⟩, by (try simp only); omega, hml, a5, hs1, by (try simp only); omega, ?_, ?_, ?_, ?_, a12, a13⟩
          · intro i p hp; have := a8 i p hp; exact ⟨this.1, by (try simp only); omega, this.2.2⟩
          · intro i hi; have := a9 i hi; exact ⟨this.1, by (try simp only); omega⟩
          · intro c hc; have := a10 c hc; exact ⟨this.1, by (try simp only); omega, this.2.2⟩
          · intro r hr
            have := a11 r hr
            cases r <;> simp_all [PendOK] <;> omega
        · rw [← f5] at hz; rw [← f4] at hcol
          have hc := a1.counter
          have ho : occ s1.outgoingPub = 0 := by omega
          have hr : relCount s1.outgoingRel = 0 := by omega
          subst hpd
          refine ⟨a1.congr ⟨rfl, rfl, rfl, rfl, rfl, rfl⟩, by (try simp only); omega, hml, a5, hs1, by simp; omega, ?_, ?_, ?_, ?_, a12, a13⟩
          · intro i p hp; exact absurd hp (occ_zero_slot _ ho i p)
          · intro i hi; exact absurd ((relContains_eq _ i).mp hi) (relCount_zero_bit _ hr i)
          · intro c hc'; rw [hcol] at hc'; simp at hc'
          · intro r hr'; simp at hr'
      cases am with
      | none => exact key s h (Frame0.refl s)
      | some a => exact key _ (h.congr ⟨⟨rfl, rfl, rfl, rfl, rfl, rfl⟩, rfl, rfl⟩) ⟨⟨rfl, rfl, rfl, rfl, rfl, rfl⟩, rfl, rfl⟩

theorem Inv0.handleIncoming {s : State} {pd : List Request} (h : Inv0 ⟨s, pd⟩) (p : Incoming)
    (hn : ¬ unsafeConnack ⟨s, pd⟩ (.inc p)) : Inv0 ⟨(handleIncoming s p).1, pd⟩ := by
  unfold Client.handleIncoming
  have h0 := h.pushEv (.incoming p)
  have hf : Frame0 s (s.pushEv (.incoming p)) := ⟨⟨rfl, rfl, rfl, rfl, rfl, rfl⟩, rfl, rfl⟩
  have hver : (s.pushEv (.incoming p)).ver = s.ver := rfl
  generalize s.pushEv (.incoming p) = s0 at h0 hf hver
  simp only
  cases p with
  | pingresp => exact h0.congr ⟨⟨rfl, rfl, rfl, rfl, rfl, rfl⟩, rfl, rfl⟩
  | publish q => exact h0.handlePublish q
  | suback _ => exact h0
  | unsuback _ => exact h0
  | puback i r => exact h0.handlePuback i r
  | pubrec i r => exact h0.handlePubrec i r
  | pubrel i r => exact h0.handlePubrel i r
  | pubcomp i r =>
    simp only [Client.handlePubcomp]
    split
    · exact h0.handlePubcompV4 i
    · exact h0.handlePubcompV5 i r
  | connack ok sp rm am =>
    simp only
    split
    · exact h0
    · rename_i hv
      apply h0.handleConnack
      intro m hok hrm
      subst hok; subst hrm
      obtain ⟨⟨f1, f2, f3, f4, f5, f6⟩, f7, f8⟩ := hf
      simp only [unsafeConnack] at hn
      rw [hver] at hv
      have := Classical.not_not.mp (fun h' => hn ⟨hv, h'⟩)
      rw [f3, f8, f7, f5, f4]
      exact this
  | disconnect _ => simp only; split <;> exact h0
  | connect => exact h0
  | subscribe => exact h0
  | unsubscribe => exact h0
  | pingreq => exact h0
  | auth => exact h0

/-- a connection failure: `EventLoop::clean` -/
theorem Inv0.fail {s : State} {pd : List Request} (h : Inv0 ⟨s, pd⟩) :
    Inv0 ⟨cleanState s, pd ++ cleanRequests s⟩ := by
  have hlen := length_cleanRequests s
  have hmem := mem_cleanRequests s
  have hnd := pubIds_cleanPubs_nodup h.sinv
  have hsinv := h.sinv
  obtain ⟨a1, a3, a4, a5, a6, a7, a8, a9, a10, a11, a12, a13⟩ := h
  simp only at *
  have hc := a1.counter
  refine ⟨a1.cleanState, a3, a4, a5, a6, ?_, ?_, ?_, a10, ?_, ?_, ?_⟩
  · simp [cleanState, hlen]; omega
  · intro i p hp; simp [cleanState, List.getElem?_map] at hp
  · intro i hi; rw [relContains_eq] at hi; simp [cleanState, List.getElem?_map] at hi
  · intro r hr
    rcases List.mem_append.mp hr with hr | hr
    · have := a11 r hr
      cases r <;> simp_all [PendOK, cleanState]
    · rcases (hmem r).mp hr with ⟨p, rfl, hp⟩ | ⟨i, rfl, hi⟩
      · obtain ⟨j, hj⟩ := List.mem_iff_getElem?.mp hp
        have g1 := a8 j p hj
        have g2 := hsinv.slotId j p hj
        simp only [PendOK, cleanState]
        exact ⟨g2.2, by omega, by omega, g1.2.2⟩
      · have := a9 i hi
        simpa [PendOK, cleanState] using this
  · rw [pubIds_append, pubIds_cleanRequests, List.nodup_append]
    refine ⟨a12, hnd, ?_⟩
    intro a ha b hb hab
    subst hab
    obtain ⟨p, hp, hpa⟩ := (mem_pubIds _ _).mp ha
    obtain ⟨q, hq, hqa⟩ := (mem_pubIds _ _).mp hb
    obtain ⟨q', hq', hq''⟩ := (mem_cleanPubs s _).mp hq
    cases hq'
    obtain ⟨j, hj⟩ := List.mem_iff_getElem?.mp hq''
    have hj' := (hsinv.slotId j q hj).1
    have := a13 p hp
    rw [hpa, ← hqa, hj', hj] at this
    simp at this
  · intro p hp
    have hle : p.pkid ≤ s.maxInflight := by
      rcases List.mem_append.mp hp with hp | hp
      · have := a11 _ hp; simp only [PendOK] at this; exact this.2.2.1
      · rcases (hmem _).mp hp with ⟨q, hq, hq'⟩ | ⟨i, hi, _⟩
        · cases hq
          obtain ⟨j, hj⟩ := List.mem_iff_getElem?.mp hq'
          have := a8 j p hj
          have := hsinv.slotId j p hj
          omega
        · exact absurd hi (by simp)
    have hl := hsinv.lenPub
    have : p.pkid < s.outgoingPub.length := by omega
    simp [cleanState, List.getElem?_map, List.getElem?_eq_getElem this]

theorem Inv0.newSession {s : State} {pd : List Request} (h : Inv0 ⟨s, pd⟩) : Inv0 ⟨s, []⟩ := by
  obtain ⟨a1, a3, a4, a5, a6, a7, a8, a9, a10, a11, a12, a13⟩ := h
  simp only at *
  exact ⟨a1, a3, a4, a5, a6, by simp; omega, a8, a9, a10, by simp, by simp [pubIds], by simp⟩

/-- `Inv0` is an invariant of the loop as long as no CONNACK lowers the limit under what is in use -/
theorem Inv0.lstep {l : LState} (h : Inv0 l) (op : LOp) (hn : ¬ unsafeConnack l op) : Inv0 (lstep l op).1 := by
  obtain ⟨s, pd⟩ := l
  unfold Client.lstep
  cases op with
  | user u =>
    by_cases hc : (pd.isEmpty && selectEnabled s pd) = true
    · simp only [lop?, hc, if_true]
      simp only [Bool.and_eq_true, List.isEmpty_iff] at hc
      obtain ⟨hpd, hg⟩ := hc
      subst hpd
      simp only [lpending, sstepSt]
      exact (h.user u hg).drain
    · simp only [lop?, hc]
      exact h
  | pend =>
    cases pd with
    | nil => exact h
    | cons r rest =>
      simp only [lop?, lpending, sstepSt, List.tail_cons]
      exact h.pend.drain
  | ping => simp only [lop?, lpending, sstepSt]; exact h.ping.drain
  | inc p => simp only [lop?, lpending, sstepSt]; exact (h.handleIncoming p hn).drain
  | fail =>
    simp only [lop?, lpending, sstepSt, sstepObs]
    rw [h.sinv.cleanPanics]
    simp only [Bool.false_eq_true, if_false, mkObs]
    exact h.fail
  | newSession => simp only [lop?, lpending, sstepSt]; exact h.newSession

theorem Inv0.lrun {l : LState} (h : Inv0 l) (ops : List LOp) (hn : Avoids unsafeConnack l ops) :
    Inv0 (lrun l ops) := by
  induction ops generalizing l with
  | nil => exact h
  | cons op ops ih =>
    simp only [Client.lrun, List.foldl_cons]
    exact ih (h.lstep op hn.1) hn.2

end Client
