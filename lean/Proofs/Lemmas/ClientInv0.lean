/-
`Inv0`: the invariant of the loop's use of the state machine (`lstep`) that holds on EVERY run of
the MQTT 3.1.1 client and on every MQTT 5 run in which no CONNACK lowers the limit under what is
in use (`unsafeConnack`): id counter, window (counter + `pending` + parked publish ≤ limit), ids
in range, well-formed `pending`. No assumption on the order of failures and replays.
-/
import Proofs.Lemmas.ClientClean
import Proofs.Lemmas.ClientC10
namespace Client
open Client.Spec

/-- a request `clean()` may have returned: a stored publish (numbered), a pending release, or the
    publish that was parked on a collision (unnumbered) -/
def PendOK (s : State) : Request → Prop
  | .publish p => p.qos ≠ 0 ∧ p.pkid ≤ s.maxInflight ∧ p.alias = none
  | .pubrel i => 1 ≤ i ∧ i ≤ s.maxInflight
  | _ => False

def colCount (s : State) : Nat := if s.collision.isSome then 1 else 0

structure Inv0 (l : LState) : Prop where
  sinv : SInv l.st
  maxPos : 1 ≤ l.st.maxInflight
  maxLe : l.st.maxInflight ≤ l.st.upperLimit
  upLe : l.st.upperLimit ≤ u16Max
  pk : nextPkidBase l.st < l.st.maxInflight
  window : l.st.inflight + l.pending.length + colCount l.st ≤ l.st.maxInflight
  slotLe : ∀ (i : Nat) (p : Pub), l.st.outgoingPub[i]? = some (some p) → 1 ≤ i ∧ i ≤ l.st.maxInflight ∧ p.alias = none
  relLe : ∀ i : Nat, relContains l.st i = true → 1 ≤ i ∧ i ≤ l.st.maxInflight
  colLe : ∀ c : Pub, l.st.collision = some c → 1 ≤ c.pkid ∧ c.pkid ≤ l.st.maxInflight ∧ c.alias = none
  pendWF : ∀ r ∈ l.pending, PendOK l.st r

theorem Inv0.new (ver : Version) (max : Nat) (m : Bool) (h1 : 1 ≤ max) (h2 : max ≤ u16Max) :
    Inv0 (LState.new ver max m) := by
  refine ⟨SInv.new _ _ _, h1, Nat.le_refl _, h2, ?_, by simp [LState.new, State.new, colCount], ?_, ?_, ?_, ?_⟩
  · cases ver <;> simp [LState.new, State.new, nextPkidBase] <;> omega
  · intro i p h; simp [LState.new, State.new, List.getElem?_replicate] at h
  · intro i h; rw [relContains_eq] at h; simp [LState.new, State.new, List.getElem?_replicate] at h
  · intro c h; simp [LState.new, State.new] at h
  · intro r h; simp [LState.new] at h

/-- fields `Inv0` reads -/
def Frame0 (s s' : State) : Prop :=
  SFrame s s' ∧ s'.maxInflight = s.maxInflight ∧ s'.lastPkid = s.lastPkid ∧ s'.ver = s.ver

theorem nextPkidBase_congr {s s' : State} (h1 : s'.maxInflight = s.maxInflight) (h2 : s'.lastPkid = s.lastPkid)
    (h3 : s'.ver = s.ver) : nextPkidBase s' = nextPkidBase s := by
  unfold nextPkidBase; rw [h1, h2, h3]

theorem colCount_congr {s s' : State} (h : s'.collision = s.collision) : colCount s' = colCount s := by
  unfold colCount; rw [h]

theorem pendOK_congr {s s' : State} (h : s'.maxInflight = s.maxInflight) (r : Request) (hr : PendOK s r) : PendOK s' r := by
  cases r <;> simp_all [PendOK]

theorem Inv0.congr {s s' : State} {pd : List Request} (h : Inv0 ⟨s, pd⟩) (f : Frame0 s s') : Inv0 ⟨s', pd⟩ := by
  obtain ⟨⟨f1, f2, f3, f4, f5, f6⟩, f7, f8, f9⟩ := f
  obtain ⟨a1, a3, a4, a5, a6, a7, a8, a9, a10, a11⟩ := h
  refine ⟨a1.congr ⟨f1, f2, f3, f4, f5, f6⟩, ?_, ?_, ?_, ?_, ?_, ?_, ?_, ?_, ?_⟩
  all_goals simp only at *
  · rw [f7]; exact a3
  · rw [f7, f3]; exact a4
  · rw [f3]; exact a5
  · rw [nextPkidBase_congr f7 f8 f9, f7]; exact a6
  · rw [f7, f5, colCount_congr f4]; exact a7
  · rw [f7, f1]; exact a8
  · intro i hi; rw [f7]; apply a9; unfold relContains at *; rw [← f2]; exact hi
  · rw [f7, f4]; exact a10
  · intro r hr; exact pendOK_congr f7 r (a11 r hr)

theorem drain_frame0 (s : State) : Frame0 s (drainEvents s) :=
  ⟨⟨rfl, rfl, rfl, rfl, rfl, rfl⟩, rfl, rfl, rfl⟩

theorem pushOut_frame0 (s : State) (o : Outgoing) : Frame0 s (s.pushOut o) :=
  ⟨⟨rfl, rfl, rfl, rfl, rfl, rfl⟩, rfl, rfl, rfl⟩

theorem Frame0.refl (a : State) : Frame0 a a := ⟨⟨rfl, rfl, rfl, rfl, rfl, rfl⟩, rfl, rfl, rfl⟩

theorem nextPkidSt_frame (s : State) : SFrame s (nextPkidSt s) ∧ (nextPkidSt s).maxInflight = s.maxInflight ∧
    (nextPkidSt s).events = s.events ∧ (nextPkidSt s).ver = s.ver := by
  unfold nextPkidSt SFrame; split <;> simp

theorem nextPkidBase_nextPkidSt (s : State) (hm : 1 ≤ s.maxInflight) (hb : nextPkidBase s < s.maxInflight) :
    nextPkidBase (nextPkidSt s) < s.maxInflight := by
  cases hv : s.ver with
  | v4 =>
    by_cases hw : nextPkidBase s + 1 = s.maxInflight
    · have : nextPkidSt s = { s with lastPkid := 0 } := by simp [nextPkidSt, nextPkidWraps, nextPkidVal, hv, hw]
      rw [this]; simp [nextPkidBase, hv]; omega
    · have : nextPkidSt s = { s with lastPkid := nextPkidBase s + 1 } := by simp [nextPkidSt, nextPkidWraps, nextPkidVal, hv, hw]
      rw [this]; simp only [nextPkidBase, hv] at hb hw ⊢; omega
  | v5 =>
    by_cases hw : nextPkidBase s + 1 ≥ s.maxInflight
    · have : nextPkidSt s = { s with lastPkid := 0 } := by simp [nextPkidSt, nextPkidWraps, nextPkidVal, hv, hw]
      rw [this]; simp only [nextPkidBase, hv]; split <;> omega
    · have : nextPkidSt s = { s with lastPkid := nextPkidBase s + 1 } := by simp [nextPkidSt, nextPkidWraps, nextPkidVal, hv, hw]
      rw [this]
      have hb' : nextPkidBase s + 1 < s.maxInflight := by omega
      generalize nextPkidBase s = b at *
      simp only [nextPkidBase, hv]; split <;> omega

theorem Inv0.nextPkid {s : State} {pd : List Request} (h : Inv0 ⟨s, pd⟩) :
    nextPkidPanics s = false ∧ 1 ≤ nextPkidVal s ∧ nextPkidVal s ≤ s.maxInflight ∧
    nextPkidBase (nextPkidSt s) < s.maxInflight := by
  have h1 := h.pk; have h2 := h.maxLe; have h3 := h.upLe; have h4 := h.maxPos
  simp only at h1 h2 h3 h4
  refine ⟨by simp [nextPkidPanics]; omega, by simp [nextPkidVal], by simp [nextPkidVal]; omega,
    nextPkidBase_nextPkidSt s h4 h1⟩

/-- advancing the id counter keeps `Inv0` -/
theorem Inv0.nextPkidSt {s : State} {pd : List Request} (h : Inv0 ⟨s, pd⟩) : Inv0 ⟨nextPkidSt s, pd⟩ := by
  obtain ⟨⟨f1, f2, f3, f4, f5, f6⟩, f7, f8, f9⟩ := nextPkidSt_frame s
  have hl := h.nextPkid.2.2.2
  obtain ⟨a1, a3, a4, a5, a6, a7, a8, a9, a10, a11⟩ := h
  refine ⟨a1.congr ⟨f1, f2, f3, f4, f5, f6⟩, ?_, ?_, ?_, ?_, ?_, ?_, ?_, ?_, ?_⟩
  all_goals simp only at *
  · rw [f7]; exact a3
  · rw [f7, f3]; exact a4
  · rw [f3]; exact a5
  · rw [f7]; exact hl
  · rw [f7, f5, colCount_congr f4]; exact a7
  · rw [f7, f1]; exact a8
  · intro i hi; rw [f7]; apply a9; unfold relContains at *; rw [← f2]; exact hi
  · rw [f7, f4]; exact a10
  · intro r hr; exact pendOK_congr f7 r (a11 r hr)

theorem relContains_set (s : State) (i j : Nat) (b : Bool) (hi : i < s.outgoingRel.length) :
    (s.outgoingRel.set i b)[j]?.getD false = if i = j then b else relContains s j := by
  unfold relContains
  simp only [List.getElem?_set]
  split
  · simp [hi]
  · rfl

theorem storePub_frame (s : State) (p : Pub) :
    (storePub s p).outgoingRel = s.outgoingRel ∧ (storePub s p).collision = s.collision ∧
    (storePub s p).maxInflight = s.maxInflight ∧ (storePub s p).upperLimit = s.upperLimit ∧
    (storePub s p).lastPkid = s.lastPkid ∧ (storePub s p).ver = s.ver ∧ (storePub s p).inflight = s.inflight + 1 ∧
    (storePub s p).outgoingPub = s.outgoingPub.set p.pkid (some p) := ⟨rfl, rfl, rfl, rfl, rfl, rfl, rfl, rfl⟩

theorem occ_set_le (l : List (Option Pub)) (i : Nat) (p : Pub) : occ (l.set i (some p)) ≤ occ l + 1 := by
  cases hsl : l[i]? with
  | none => rw [List.set_eq_of_length_le (by simpa using hsl)]; omega
  | some v =>
    cases v with
    | none => rw [occ_set_some _ _ _ hsl]; omega
    | some y => rw [occ_set_same _ _ y p hsl]; omega

/-- storing over whatever the slot holds keeps the structural facts -/
theorem SInv.storePubAny {s : State} (h : SInv s) (p : Pub) (hq : p.qos ≠ 0) : SInv (Client.storePub s p) := by
  obtain ⟨a, b, c, d, e', f⟩ := h
  refine ⟨by simpa [Client.storePub] using a, b, by simpa [Client.storePub] using c, ?_, e', ?_⟩
  · intro i q hi
    simp only [Client.storePub, List.getElem?_set] at hi
    split at hi
    · split at hi
      · simp at hi; subst hi; rename_i h1 _; exact ⟨h1, hq⟩
      · simp at hi
    · exact d i q hi
  · have := occ_set_le s.outgoingPub p.pkid p
    simp only [Client.storePub]; omega

/-- storing publish `p` in slot `p.pkid`; `pd'` is what is left of `pending` -/
theorem Inv0.store {s : State} {pd pd' : List Request} (h : Inv0 ⟨s, pd⟩) (p : Pub)
    (hq : p.qos ≠ 0) (h1 : 1 ≤ p.pkid) (h2 : p.pkid ≤ s.maxInflight) (ha : p.alias = none)
    (hw : s.inflight + 1 + pd'.length + colCount s ≤ s.maxInflight)
    (hsub : ∀ r ∈ pd', r ∈ pd) : Inv0 ⟨storePub s p, pd'⟩ := by
  have hs := h.sinv.storePubAny p hq
  obtain ⟨a1, a3, a4, a5, a6, a7, a8, a9, a10, a11⟩ := h
  simp only at *
  refine ⟨hs, a3, a4, a5, a6, ?_, ?_, a9, a10, ?_⟩
  · show s.inflight + 1 + pd'.length + colCount s ≤ s.maxInflight
    exact hw
  · intro i q hi
    simp only [Client.storePub, List.getElem?_set] at hi
    split at hi
    · split at hi
      · simp at hi; subst hi; rename_i h1' _; subst h1'; exact ⟨h1, h2, ha⟩
      · simp at hi
    · exact a8 i q hi
  · intro r hr; exact pendOK_congr rfl r (a11 r (hsub r hr))

/-- parking a publish on a collision -/
theorem Inv0.park {s : State} {pd pd' : List Request} (h : Inv0 ⟨s, pd⟩) (p : Pub)
    (hq : p.qos ≠ 0) (h1 : 1 ≤ p.pkid) (h2 : p.pkid ≤ s.maxInflight) (ha : p.alias = none)
    (hw : s.inflight + pd'.length + 1 ≤ s.maxInflight) (hsub : ∀ r ∈ pd', r ∈ pd) :
    Inv0 ⟨{ s with collision := some p }, pd'⟩ := by
  obtain ⟨a1, a3, a4, a5, a6, a7, a8, a9, a10, a11⟩ := h
  simp only at *
  refine ⟨?_, a3, a4, a5, a6, by simp [colCount]; omega, a8, a9, ?_, ?_⟩
  · obtain ⟨b1, b2, b3, b4, b5, b6⟩ := a1
    exact ⟨b1, b2, b3, b4, by intro c hc; simp at hc; subst hc; exact hq, b6⟩
  · intro c hc; simp at hc; subst hc; exact ⟨h1, h2, ha⟩
  · intro r hr; exact pendOK_congr rfl r (a11 r (hsub r hr))

/-- an acknowledgement frees slot `i` -/
theorem Inv0.free {s : State} {pd : List Request} (h : Inv0 ⟨s, pd⟩) (i : Nat) (x : Pub)
    (hslot : s.outgoingPub[i]? = some (some x)) (dec : Bool) :
    Inv0 ⟨{ s with outgoingPub := s.outgoingPub.set i none, inflight := if dec then s.inflight - 1 else s.inflight }, pd⟩ := by
  have hs := h.sinv.freeSlot i x hslot dec
  obtain ⟨a1, a3, a4, a5, a6, a7, a8, a9, a10, a11⟩ := h
  simp only at *
  refine ⟨hs, a3, a4, a5, a6, by simp only [colCount] at *; split <;> omega, ?_, a9, a10, ?_⟩
  · intro j q hj
    simp only [List.getElem?_set] at hj
    split at hj
    · first | (split at hj <;> simp at hj) | simp at hj
    · exact a8 j q hj
  · intro r hr; exact pendOK_congr rfl r (a11 r hr)

/-- PUBREC: the slot is freed and the release bit set, counter untouched -/
theorem Inv0.moveToRel {s : State} {pd : List Request} (h : Inv0 ⟨s, pd⟩) (i : Nat) (x : Pub)
    (hslot : s.outgoingPub[i]? = some (some x)) :
    Inv0 ⟨{ s with outgoingPub := s.outgoingPub.set i none, outgoingRel := s.outgoingRel.set i true }, pd⟩ := by
  have hlt := getElem?_lt_of_some hslot
  have hocc := occ_set_none _ _ _ hslot
  have hi := h.slotLe i x hslot
  obtain ⟨a1, a3, a4, a5, a6, a7, a8, a9, a10, a11⟩ := h
  simp only at *
  have hrl : i < s.outgoingRel.length := by have := a1.lenPub; have := a1.lenRel; omega
  refine ⟨?_, a3, a4, a5, a6, a7, ?_, ?_, a10, ?_⟩
  · obtain ⟨b1, b2, b3, b4, b5, b6⟩ := a1
    refine ⟨by simpa using b1, by simpa using b2, b3, ?_, b5, ?_⟩
    · intro j q hj
      simp only [List.getElem?_set] at hj
      split at hj
      · first | (split at hj <;> simp at hj) | simp at hj
      · exact b4 j q hj
    · simp only
      cases hb : s.outgoingRel[i]? with
      | none => simp at hb; omega
      | some v =>
        cases v with
        | true => rw [relCount_set_true_same _ _ hb]; omega
        | false => rw [relCount_set_true _ _ hb]; omega
  · intro j q hj
    simp only [List.getElem?_set] at hj
    split at hj
    · first | (split at hj <;> simp at hj) | simp at hj
    · exact a8 j q hj
  · intro j hj
    unfold relContains at hj
    simp only at hj
    rw [relContains_set s i j true hrl] at hj
    split at hj
    · rename_i hij; subst hij; exact ⟨hi.1, hi.2.1⟩
    · exact a9 j hj
  · intro r hr; exact pendOK_congr rfl r (a11 r hr)

/-- a retransmitted PUBREL sets the release bit and counts -/
theorem Inv0.relSetInc {s : State} {pd pd' : List Request} (h : Inv0 ⟨s, pd⟩) (i : Nat)
    (h1 : 1 ≤ i) (h2 : i ≤ s.maxInflight)
    (hw : s.inflight + 1 + pd'.length + colCount s ≤ s.maxInflight)
    (hsub : ∀ r ∈ pd', r ∈ pd) :
    Inv0 ⟨{ s with outgoingRel := s.outgoingRel.set i true, inflight := s.inflight + 1 }, pd'⟩ := by
  obtain ⟨a1, a3, a4, a5, a6, a7, a8, a9, a10, a11⟩ := h
  simp only at *
  have hrl : i < s.outgoingRel.length := by have := a1.lenRel; omega
  refine ⟨?_, a3, a4, a5, a6, by simp only [colCount] at *; omega, a8, ?_, a10, ?_⟩
  · obtain ⟨b1, b2, b3, b4, b5, b6⟩ := a1
    refine ⟨b1, by simpa using b2, b3, b4, b5, ?_⟩
    simp only
    cases hb : s.outgoingRel[i]? with
    | none => simp at hb; omega
    | some v =>
      cases v with
      | true => rw [relCount_set_true_same _ _ hb]; omega
      | false => rw [relCount_set_true _ _ hb]; omega
  · intro j hj
    unfold relContains at hj
    simp only at hj
    rw [relContains_set s i j true hrl] at hj
    split at hj
    · rename_i hij; subst hij; exact ⟨h1, h2⟩
    · exact a9 j hj
  · intro r hr; exact pendOK_congr rfl r (a11 r (hsub r hr))

/-- PUBCOMP clears the release bit and counts down -/
theorem Inv0.relClear {s : State} {pd : List Request} (h : Inv0 ⟨s, pd⟩) (i : Nat)
    (hbit : relContains s i = true) :
    Inv0 ⟨{ s with outgoingRel := s.outgoingRel.set i false, inflight := s.inflight - 1 }, pd⟩ := by
  have hb := (relContains_eq s i).mp hbit
  have hrl := getElem?_lt_of_some hb
  have hcnt := relCount_set_false _ _ hb
  obtain ⟨a1, a3, a4, a5, a6, a7, a8, a9, a10, a11⟩ := h
  simp only at *
  refine ⟨?_, a3, a4, a5, a6, by simp only [colCount] at *; omega, a8, ?_, a10, ?_⟩
  · obtain ⟨b1, b2, b3, b4, b5, b6⟩ := a1
    exact ⟨b1, by simpa using b2, b3, b4, b5, by simp only; omega⟩
  · intro j hj
    unfold relContains at hj
    simp only at hj
    rw [relContains_set s i j false hrl] at hj
    split at hj
    · simp at hj
    · exact a9 j hj
  · intro r hr; exact pendOK_congr rfl r (a11 r hr)

/-- `pending` loses elements -/
theorem Inv0.shrink {s : State} {pd pd' : List Request} (h : Inv0 ⟨s, pd⟩) (hl : pd'.length ≤ pd.length)
    (hsub : ∀ r ∈ pd', r ∈ pd) : Inv0 ⟨s, pd'⟩ := by
  obtain ⟨a1, a3, a4, a5, a6, a7, a8, a9, a10, a11⟩ := h
  simp only at *
  exact ⟨a1, a3, a4, a5, a6, by show s.inflight + pd'.length + colCount s ≤ s.maxInflight; omega, a8, a9, a10, fun r hr => a11 r (hsub r hr)⟩

theorem Inv0.clearCol {s : State} {pd : List Request} (h : Inv0 ⟨s, pd⟩) :
    Inv0 ⟨{ s with collision := none, collisionPingCount := 0 }, pd⟩ := by
  obtain ⟨a1, a3, a4, a5, a6, a7, a8, a9, a10, a11⟩ := h
  simp only at *
  refine ⟨?_, a3, a4, a5, a6, by simp only [colCount] at *; simp; split at a7 <;> omega, a8, a9, by simp, ?_⟩
  · obtain ⟨b1, b2, b3, b4, b5, b6⟩ := a1
    exact ⟨b1, b2, b3, b4, by simp, b6⟩
  · intro r hr; exact pendOK_congr rfl r (a11 r hr)

/-! ### effect equations -/

theorem aliasTooLarge_none (s : State) (p : Pub) (ha : p.alias = none) : aliasTooLarge s p = false := by
  unfold aliasTooLarge; rw [ha]; cases s.ver <;> rfl

theorem eff_publish_fresh (s : State) (p : Pub) (ha : p.alias = none) (hq : p.qos ≠ 0) (hid : p.pkid = 0)
    (hp : nextPkidPanics s = false) :
    handleOutgoing s (.publish p) = publishWithId (nextPkidSt s) { p with pkid := nextPkidVal s } := by
  simp [handleOutgoing, outgoingPublish, aliasTooLarge_none s p ha, hq, hid, hp]

theorem eff_publish_qos0 (s : State) (t : Nat) :
    handleOutgoing s (.publish { qos := 0, pkid := 0, tag := t }) =
      (s.pushOut (.publish 0), .ok (some (.publish { qos := 0, pkid := 0, tag := t }))) := by
  simp [handleOutgoing, outgoingPublish, publishTail, aliasTooLarge]

theorem eff_publish_replay (s : State) (p : Pub) (ha : p.alias = none) (hq : p.qos ≠ 0) (hid : p.pkid ≠ 0) :
    handleOutgoing s (.publish p) = publishWithId s p := by
  simp [handleOutgoing, outgoingPublish, aliasTooLarge_none s p ha, hq, hid]

theorem eff_publishWithId_store (s : State) (p : Pub) (hslot : s.outgoingPub[p.pkid]? = some none)
    (hrel : relContains s p.pkid = false) (hinf : s.inflight < u16Max) :
    publishWithId s p = ((storePub s p).pushOut (.publish p.pkid), .ok (some (.publish p))) := by
  unfold publishWithId
  rw [hslot]
  simp only [hrel, Option.isSome_none, Bool.or_self, Bool.false_eq_true, if_false, publishTail]
  rw [if_neg (by omega)]

theorem eff_publishWithId_park (s : State) (p : Pub) (slot : Option Pub) (hslot : s.outgoingPub[p.pkid]? = some slot)
    (hbusy : slot.isSome = true ∨ relContains s p.pkid = true) :
    publishWithId s p = ({ s with collision := some p }.pushOut (.awaitAck p.pkid), .ok none) := by
  unfold publishWithId; rw [hslot]
  simp only
  rw [if_pos (by rcases hbusy with h | h <;> simp [h])]

theorem eff_pubrel_replay (s : State) (i : Nat) (hi : i ≠ 0) (hlt : i < s.outgoingRel.length) (hinf : s.inflight < u16Max) :
    handleOutgoing s (.pubrel i) =
      ({ s with outgoingRel := s.outgoingRel.set i true, inflight := s.inflight + 1 }.pushOut (.pubrel i),
        .ok (some (.pubrel i))) := by
  simp [handleOutgoing, outgoingPubrel, pubrelWithId, hi, hlt]
  omega

/-! ### `Inv0` is preserved by every loop operation -/

theorem Inv0.pushOut {s : State} {pd : List Request} (h : Inv0 ⟨s, pd⟩) (o : Outgoing) : Inv0 ⟨s.pushOut o, pd⟩ :=
  h.congr (pushOut_frame0 s o)

theorem Inv0.drain {s : State} {pd : List Request} (h : Inv0 ⟨s, pd⟩) : Inv0 ⟨drainEvents s, pd⟩ :=
  h.congr (drain_frame0 s)

theorem Inv0.pushEv {s : State} {pd : List Request} (h : Inv0 ⟨s, pd⟩) (e : Event) : Inv0 ⟨s.pushEv e, pd⟩ :=
  h.congr ⟨⟨rfl, rfl, rfl, rfl, rfl, rfl⟩, rfl, rfl, rfl⟩

theorem Inv0.slot_some {s : State} {pd : List Request} (h : Inv0 ⟨s, pd⟩) (i : Nat) (hi : i ≤ s.maxInflight) :
    ∃ slot, s.outgoingPub[i]? = some slot := by
  have h1 := h.sinv.lenPub; have h2 := h.maxLe
  simp only at h1 h2
  have hlt : i < s.outgoingPub.length := by omega
  exact ⟨_, List.getElem?_eq_getElem hlt⟩

/-- `outgoing_publish` once the id is fixed: stored, parked, or (never, see the no-panic theorem)
    refused -/
theorem Inv0.publishWithId {s : State} {pd pd' : List Request} (h : Inv0 ⟨s, pd⟩) (p : Pub)
    (hq : p.qos ≠ 0) (h1 : 1 ≤ p.pkid) (h2 : p.pkid ≤ s.maxInflight) (ha : p.alias = none)
    (hw : s.inflight + pd'.length + 1 + colCount s ≤ s.maxInflight) (hl : pd'.length ≤ pd.length)
    (hsub : ∀ r ∈ pd', r ∈ pd) : Inv0 ⟨(publishWithId s p).1, pd'⟩ := by
  unfold Client.publishWithId
  obtain ⟨slot, hslot⟩ := h.slot_some p.pkid h2
  rw [hslot]
  simp only
  split
  · exact (h.park p hq h1 h2 ha (by omega) hsub).pushOut _
  · split
    · exact h.shrink hl hsub
    · exact (h.store p hq h1 h2 ha (by omega) hsub).pushOut _

/-- a request with a fresh id: user request through the open gate, or the replay of the unnumbered
    publish -/
theorem Inv0.publishFresh {s : State} {pd pd' : List Request} (h : Inv0 ⟨s, pd⟩) (p : Pub)
    (hq : p.qos ≠ 0) (hid : p.pkid = 0) (ha : p.alias = none)
    (hw : s.inflight + pd'.length + 1 + colCount s ≤ s.maxInflight) (hl : pd'.length ≤ pd.length)
    (hsub : ∀ r ∈ pd', r ∈ pd) : Inv0 ⟨(handleOutgoing s (.publish p)).1, pd'⟩ := by
  obtain ⟨hp, hv1, hv2, _⟩ := h.nextPkid
  rw [eff_publish_fresh s p ha hq hid hp]
  have h1 := h.nextPkidSt
  obtain ⟨⟨f1, f2, f3, f4, f5, f6⟩, f7, f8, f9⟩ := nextPkidSt_frame s
  exact h1.publishWithId _ hq hv1 (by rw [f7]; exact hv2) ha (by rw [f5, f7, colCount_congr f4]; exact hw) hl hsub

/-- what the open gate says -/
theorem gate_open {s : State} (hg : selectEnabled s [] = true) : s.inflight < s.maxInflight ∧ s.collision = none := by
  simp only [selectEnabled, pendingReady, windowOpen, List.isEmpty_nil, Bool.true_and, Bool.false_or,
    Bool.and_eq_true, Bool.not_eq_true', decide_eq_false_iff_not, ge_iff_le, Nat.not_le] at hg
  exact ⟨hg.1, by cases hc : s.collision <;> simp_all⟩

/-- a user request taken through the open gate -/
theorem Inv0.user {s : State} (h : Inv0 ⟨s, []⟩) (u : UserReq) (hg : selectEnabled s [] = true) :
    Inv0 ⟨(handleOutgoing s u.toRequest).1, []⟩ := by
  have hgate := gate_open hg
  obtain ⟨hp, hv1, hv2, hv3⟩ := h.nextPkid
  cases u with
  | publish q t =>
    simp only [UserReq.toRequest]
    by_cases hq : q = 0
    · subst hq; rw [eff_publish_qos0]; exact h.pushOut _
    · exact h.publishFresh _ hq rfl rfl (by simp [colCount, hgate.2]; omega) (Nat.le_refl _) (fun r hr => hr)
  | subscribe n =>
    simp only [UserReq.toRequest, handleOutgoing, outgoingSubscribe]
    split
    · exact h
    · rw [hp]; exact h.nextPkidSt.pushOut _
  | unsubscribe =>
    simp only [UserReq.toRequest, handleOutgoing, outgoingUnsubscribe]
    rw [hp]; exact h.nextPkidSt.pushOut _
  | disconnect => exact h.pushOut _
  | puback i => exact h.pushOut _
  | pubrec i => exact h.pushOut _

/-- the head of `pending` is replayed -/
theorem Inv0.pend {s : State} {r : Request} {rest : List Request} (h : Inv0 ⟨s, r :: rest⟩) :
    Inv0 ⟨(handleOutgoing s r).1, rest⟩ := by
  have hw := h.window
  simp only [List.length_cons] at hw
  have hsub : ∀ x ∈ rest, x ∈ r :: rest := fun x hx => List.mem_cons_of_mem _ hx
  have hl : rest.length ≤ (r :: rest).length := by simp
  cases r with
  | publish p =>
    have h1 := h.pendWF (.publish p) (by simp)
    simp only [PendOK] at h1
    obtain ⟨hq, h2, ha⟩ := h1
    by_cases hid : p.pkid = 0
    · exact h.publishFresh p hq hid ha (by omega) hl hsub
    · rw [eff_publish_replay s p ha hq hid]
      exact h.publishWithId p hq (by omega) h2 ha (by omega) hl hsub
  | pubrel i =>
    have h1 := h.pendWF (.pubrel i) (by simp)
    simp only [PendOK] at h1
    have hlen := h.sinv.lenRel; have hml := h.maxLe
    simp only at hlen hml
    simp only [handleOutgoing, outgoingPubrel, pubrelWithId]
    rw [if_neg (by omega), if_pos (by omega)]
    split
    · exact h.shrink hl hsub
    · exact (h.relSetInc i h1.1 h1.2 (by omega) hsub).pushOut _
  | subscribe n => exact absurd (h.pendWF (.subscribe n) (by simp)) (by simp [PendOK])
  | unsubscribe => exact absurd (h.pendWF .unsubscribe (by simp)) (by simp [PendOK])
  | pingreq => exact absurd (h.pendWF .pingreq (by simp)) (by simp [PendOK])
  | disconnect => exact absurd (h.pendWF .disconnect (by simp)) (by simp [PendOK])
  | puback j => exact absurd (h.pendWF (.puback j) (by simp)) (by simp [PendOK])
  | pubrec j => exact absurd (h.pendWF (.pubrec j) (by simp)) (by simp [PendOK])
  | other => exact absurd (h.pendWF .other (by simp)) (by simp [PendOK])

theorem outgoingPing_frame0 (s : State) : Frame0 s (outgoingPing s).1 := by
  refine ⟨outgoingPing_frame s, ?_, ?_, ?_⟩
  all_goals (unfold outgoingPing; simp only; split <;> split <;> (try split) <;> simp [State.pushOut, State.pushEv])

theorem Inv0.ping {s : State} {pd : List Request} (h : Inv0 ⟨s, pd⟩) : Inv0 ⟨(handleOutgoing s .pingreq).1, pd⟩ :=
  h.congr (outgoingPing_frame0 s)

/-- an id has just been freed: the publish parked on it is stored -/
theorem Inv0.release {s : State} {pd : List Request} (h : Inv0 ⟨s, pd⟩) (i : Nat)
    (hw : s.inflight + 1 + pd.length + colCount s ≤ s.maxInflight) : Inv0 ⟨(release s i).1, pd⟩ := by
  unfold Client.release
  split
  · rename_i c hc
    split
    · obtain ⟨c1, c2, c3⟩ := h.colLe c hc
      have hq := h.sinv.colQos c hc
      have hk : colCount s = 1 := by simp [colCount, hc]
      have h1 := h.clearCol.store c hq c1 c2 c3 (pd' := pd) (by simp [colCount]; omega) (fun r hr => hr)
      exact h1.pushOut _
    · exact h
  · exact h

theorem Inv0.handlePuback {s : State} {pd : List Request} (h : Inv0 ⟨s, pd⟩) (i : Nat) :
    Inv0 ⟨(handlePuback s i).1, pd⟩ := by
  unfold Client.handlePuback
  split
  · exact h
  · exact h
  · rename_i x hslot
    split
    · exact h
    · have h2 := h.free i x hslot true
      simp only [if_true] at h2
      have hw := h.window
      simp only at hw
      exact h2.release i (by simp only [colCount] at *; omega)

theorem Inv0.handlePubrec {s : State} {pd : List Request} (h : Inv0 ⟨s, pd⟩) (i r : Nat) :
    Inv0 ⟨(handlePubrec s i r).1, pd⟩ := by
  unfold Client.handlePubrec
  split
  · exact h
  · exact h
  · rename_i x hslot
    simp only
    split
    · split
      · have := h.free i x hslot false
        simpa using this
      · have h2 := h.free i x hslot true
        simp only [if_true] at h2
        have hw := h.window
        simp only at hw
        exact h2.release i (by simp only [colCount] at *; omega)
    · have hlt : i < s.outgoingRel.length := by
        have := h.sinv.lenPub; have := h.sinv.lenRel; have := getElem?_lt_of_some hslot; simp only at *; omega
      simp only [hlt]
      exact (h.moveToRel i x hslot).pushOut _

theorem Inv0.handlePubrel {s : State} {pd : List Request} (h : Inv0 ⟨s, pd⟩) (i : Nat) :
    Inv0 ⟨(handlePubrel s i).1, pd⟩ := by
  unfold Client.handlePubrel
  split
  · have h1 : Inv0 ⟨{ s with incomingPub := s.incomingPub.filter (· != i) }, pd⟩ :=
      h.congr ⟨⟨rfl, rfl, rfl, rfl, rfl, rfl⟩, rfl, rfl, rfl⟩
    exact h1.pushOut _
  · exact h

theorem Inv0.handlePubcomp {s : State} {pd : List Request} (h : Inv0 ⟨s, pd⟩) (i : Nat) :
    Inv0 ⟨(handlePubcomp s i).1, pd⟩ := by
  unfold Client.handlePubcomp
  split
  · rename_i hc
    have h1 := h.relClear i hc
    split
    · rename_i hz
      rw [show s.inflight - 1 = s.inflight by omega] at h1
      exact h1
    · have hw := h.window
      simp only at hw
      exact h1.release i (by simp only [colCount] at *; omega)
  · exact h

theorem publishAlias_frame0 {s s1 : State} {p : InPub} (h : publishAlias s p = some s1) : Frame0 s s1 := by
  refine ⟨publishAlias_frame h, ?_, ?_, ?_⟩
  all_goals
    unfold publishAlias at h
    split at h
    · cases h; rfl
    · split at h
      · cases h; rfl
      · split at h
        · cases h; split <;> rfl
        · split at h
          · cases h; rfl
          · cases h

theorem Inv0.handlePublish {s : State} {pd : List Request} (h : Inv0 ⟨s, pd⟩) (p : InPub) :
    Inv0 ⟨(handlePublish s p).1, pd⟩ := by
  unfold Client.handlePublish
  split
  · exact h.pushOut _
  · rename_i s1 hal
    have h1 := h.congr (publishAlias_frame0 hal)
    simp only
    split
    · exact h1
    · split
      · split
        · exact h1.pushOut _
        · exact h1
      · have h2 : Inv0 ⟨(if s1.incomingPub.contains p.pkid = true then s1 else { s1 with incomingPub := p.pkid :: s1.incomingPub }), pd⟩ := by
          split
          · exact h1
          · exact h1.congr ⟨⟨rfl, rfl, rfl, rfl, rfl, rfl⟩, rfl, rfl, rfl⟩
        generalize (if s1.incomingPub.contains p.pkid = true then s1 else { s1 with incomingPub := p.pkid :: s1.incomingPub }) = s2 at h2
        split
        · exact h2.pushOut _
        · exact h2

theorem occ_zero_slot (l : List (Option Pub)) (h : occ l = 0) (i : Nat) (p : Pub) : l[i]? ≠ some (some p) := by
  intro hp; have := occ_pos_of_slot l i p hp; omega

theorem relCount_zero_bit (l : List Bool) (h : relCount l = 0) (i : Nat) : l[i]? ≠ some true := by
  intro hp; have := relCount_pos_of_bit l i hp; omega

/-- a v5 CONNACK that is not `unsafeConnack` -/
theorem Inv0.handleConnack {s : State} {pd : List Request} (h : Inv0 ⟨s, pd⟩) (hv : s.ver = .v5)
    (ok : Bool) (rm am : Option Nat)
    (hsafe : ∀ m, ok = true → rm = some m →
      1 ≤ min m s.upperLimit ∧
        (s.maxInflight ≤ min m s.upperLimit ∨ (s.inflight = 0 ∧ pd = [] ∧ s.collision = none))) :
    Inv0 ⟨(handleConnack s ok rm am).1, pd⟩ := by
  unfold Client.handleConnack
  split
  · exact h
  · rename_i hok
    have hok' : ok = true := by simpa using hok
    cases rm with
    | none =>
      cases am with
      | none => exact h
      | some a => exact h.congr ⟨⟨rfl, rfl, rfl, rfl, rfl, rfl⟩, rfl, rfl, rfl⟩
    | some m =>
      have key : ∀ s1 : State, Inv0 ⟨s1, pd⟩ → Frame0 s s1 →
          Inv0 ⟨{ s1 with maxInflight := min m s1.upperLimit }, pd⟩ := by
        intro s1 h1 hf
        obtain ⟨⟨f1, f2, f3, f4, f5, f6⟩, f7, f8, f9⟩ := hf
        obtain ⟨hs1, hs2⟩ := hsafe m hok' rfl
        rw [← f3] at hs1
        have hv1 : s1.ver = .v5 := by rw [f9]; exact hv
        obtain ⟨a1, a3, a4, a5, a6, a7, a8, a9, a10, a11⟩ := h1
        simp only at *
        have hml : min m s1.upperLimit ≤ s1.upperLimit := Nat.min_le_right _ _
        have hpk : nextPkidBase { s1 with maxInflight := min m s1.upperLimit } < min m s1.upperLimit := by
          simp only [nextPkidBase, hv1]; split <;> omega
        rcases hs2 with hge | ⟨hz, hpd, hcol⟩
        · rw [← f3, ← f7] at hge
          refine ⟨a1.congr ⟨rfl, rfl, rfl, rfl, rfl, rfl⟩, hs1, hml, a5, hpk, ?_, ?_, ?_, ?_, ?_⟩
          · have : colCount { s1 with maxInflight := min m s1.upperLimit } = colCount s1 := rfl
            rw [this]; (try simp only); omega
          · intro i p hp; have := a8 i p hp; exact ⟨this.1, by (try simp only); omega, this.2.2⟩
          · intro i hi; have := a9 i hi; exact ⟨this.1, by (try simp only); omega⟩
          · intro c hc; have := a10 c hc; exact ⟨this.1, by (try simp only); omega, this.2.2⟩
          · intro r hr
            have := a11 r hr
            cases r <;> simp_all [PendOK] <;> omega
        · rw [← f5] at hz; rw [← f4] at hcol
          have hc := a1.counter
          have ho : occ s1.outgoingPub = 0 := by omega
          have hr : relCount s1.outgoingRel = 0 := by omega
          subst hpd
          refine ⟨a1.congr ⟨rfl, rfl, rfl, rfl, rfl, rfl⟩, hs1, hml, a5, hpk, ?_, ?_, ?_, ?_, ?_⟩
          · simp [colCount, hcol]; omega
          · intro i p hp; exact absurd hp (occ_zero_slot _ ho i p)
          · intro i hi; exact absurd ((relContains_eq _ i).mp hi) (relCount_zero_bit _ hr i)
          · intro c hc'; rw [hcol] at hc'; simp at hc'
          · intro r hr'; simp at hr'
      cases am with
      | none => exact key s h (Frame0.refl s)
      | some a => exact key _ (h.congr ⟨⟨rfl, rfl, rfl, rfl, rfl, rfl⟩, rfl, rfl, rfl⟩) ⟨⟨rfl, rfl, rfl, rfl, rfl, rfl⟩, rfl, rfl, rfl⟩

theorem Inv0.handleIncoming {s : State} {pd : List Request} (h : Inv0 ⟨s, pd⟩) (p : Incoming)
    (hn : ¬ unsafeConnack ⟨s, pd⟩ (.inc p)) : Inv0 ⟨(handleIncoming s p).1, pd⟩ := by
  unfold Client.handleIncoming
  have h0 := h.pushEv (.incoming p)
  have hf : Frame0 s (s.pushEv (.incoming p)) := ⟨⟨rfl, rfl, rfl, rfl, rfl, rfl⟩, rfl, rfl, rfl⟩
  generalize s.pushEv (.incoming p) = s0 at h0 hf
  simp only
  cases p with
  | pingresp => exact h0.congr ⟨⟨rfl, rfl, rfl, rfl, rfl, rfl⟩, rfl, rfl, rfl⟩
  | publish q => exact h0.handlePublish q
  | suback _ => exact h0
  | unsuback _ => exact h0
  | puback i r => exact h0.handlePuback i
  | pubrec i r => exact h0.handlePubrec i r
  | pubrel i r => exact h0.handlePubrel i
  | pubcomp i r => exact h0.handlePubcomp i
  | connack ok sp rm am =>
    simp only
    split
    · exact h0
    · rename_i hv
      apply h0.handleConnack hv
      intro m hok hrm
      subst hok; subst hrm
      obtain ⟨⟨f1, f2, f3, f4, f5, f6⟩, f7, f8, f9⟩ := hf
      simp only [unsafeConnack] at hn
      rw [f9] at hv
      have := Classical.not_not.mp (fun h' => hn ⟨hv, h'⟩)
      rw [f3, f7, f5, f4]
      exact this
  | disconnect _ => simp only; split <;> exact h0
  | connect => exact h0
  | subscribe => exact h0
  | unsubscribe => exact h0
  | pingreq => exact h0
  | auth => exact h0

/-- a connection failure: `EventLoop::clean` -/
theorem Inv0.fail {s : State} {pd : List Request} (h : Inv0 ⟨s, pd⟩) :
    Inv0 ⟨cleanState s, cleanRequests s ++ pd⟩ := by
  have hlen := length_cleanRequests h.sinv
  have hmem := mem_cleanRequests h.sinv
  have hsinv := h.sinv
  obtain ⟨a1, a3, a4, a5, a6, a7, a8, a9, a10, a11⟩ := h
  simp only at *
  have hc := a1.counter
  refine ⟨a1.cleanState, a3, a4, a5, a6, ?_, ?_, ?_, ?_, ?_⟩
  · simp only [colCount] at a7
    simp [cleanState, hlen, colCount]; omega
  · intro i p hp; simp [cleanState, List.getElem?_map] at hp
  · intro i hi; rw [relContains_eq] at hi; simp [cleanState, List.getElem?_map] at hi
  · intro c hc'; simp [cleanState] at hc'
  · intro r hr
    rcases (List.mem_append.mp hr).symm with hr | hr
    · have := a11 r hr
      cases r <;> simp_all [PendOK, cleanState]
    · rcases (hmem r).mp hr with ⟨p, rfl, hp⟩ | ⟨i, rfl, hi⟩ | ⟨c, hcol, rfl⟩
      · obtain ⟨j, hj⟩ := List.mem_iff_getElem?.mp hp
        have g1 := a8 j p hj
        have g2 := hsinv.slotId j p hj
        simp only [PendOK, cleanState]
        exact ⟨g2.2, by omega, g1.2.2⟩
      · have := a9 i hi
        simpa [PendOK, cleanState] using this
      · have g1 := a10 c hcol
        have g2 := hsinv.colQos c hcol
        simp only [PendOK, cleanState]
        exact ⟨g2, by omega, g1.2.2⟩

theorem Inv0.newSession {s : State} {pd : List Request} (h : Inv0 ⟨s, pd⟩) : Inv0 ⟨s, []⟩ :=
  h.shrink (by simp) (by simp)

/-- `Inv0` is an invariant of the loop as long as no CONNACK lowers the limit under what is in use -/
theorem Inv0.lstep {l : LState} (h : Inv0 l) (op : LOp) (hn : ¬ unsafeConnack l op) : Inv0 (lstep l op).1 := by
  obtain ⟨s, pd⟩ := l
  unfold Client.lstep
  cases op with
  | user u =>
    by_cases hc : (pd.isEmpty && selectEnabled s pd) = true
    · simp only [lop?, hc, if_true]
      simp only [Bool.and_eq_true, List.isEmpty_iff] at hc
      obtain ⟨hpd, hg⟩ := hc
      subst hpd
      simp only [lpending, sstepSt]
      exact (h.user u hg).drain
    · simp only [lop?, hc]
      exact h
  | pend =>
    cases pd with
    | nil => exact h
    | cons r rest =>
      by_cases hr : pendingReady s (r :: rest) = true
      · simp only [lop?, hr, if_true, lpending, sstepSt, List.tail_cons]
        exact h.pend.drain
      · simp only [lop?, hr]
        exact h
  | ping => simp only [lop?, lpending, sstepSt]; exact h.ping.drain
  | inc p => simp only [lop?, lpending, sstepSt]; exact (h.handleIncoming p hn).drain
  | fail =>
    simp only [lop?, lpending, sstepSt, sstepObs]
    rw [h.sinv.cleanPanics]
    simp only [Bool.false_eq_true, if_false, mkObs]
    exact h.fail
  | newSession => simp only [lop?, lpending, sstepSt]; exact h.newSession

theorem Inv0.lrun {l : LState} (h : Inv0 l) (ops : List LOp) (hn : Avoids unsafeConnack l ops) :
    Inv0 (lrun l ops) := by
  induction ops generalizing l with
  | nil => exact h
  | cons op ops ih =>
    simp only [Client.lrun, List.foldl_cons]
    exact ih (h.lstep op hn.1) hn.2

end Client
