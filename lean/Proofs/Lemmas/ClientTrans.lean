/-
`LTrans`: one loop operation described by its effect on the tables, the counter, the send stamps,
the collision slot, the id counter and `pending` — the case analysis of `lstep` done once, under
`Inv0`.
-/
import Proofs.Lemmas.ClientEffects
namespace Client
open Client.Spec

/-- the id is in use: a publish is stored under it or its release is pending -/
def busyId (s : State) (i : Nat) : Prop :=
  (∃ x, s.outgoingPub[i]? = some (some x)) ∨ relContains s i = true

/-- the id counter has advanced -/
def Core.bump (c : Core) (s : State) : Core := { c with lastPkid := (nextPkidSt s).lastPkid }

inductive LTrans (s : State) (pd : List Request) : LOp → State → List Request → Prop
  /-- branch disabled / nothing to do -/
  | skip (op : LOp) : LTrans s pd op s pd
  /-- tables, counter, collision slot and id counter untouched -/
  | quiet (op : LOp) (s' : State) (hc : s'.core = s.core) : LTrans s pd op s' pd
  /-- SUBSCRIBE / UNSUBSCRIBE consumed a packet id -/
  | nextId (u : UserReq) (s' : State) (hpd : pd = []) (hg : selectEnabled s [] = true)
      (hu : (∃ n, n ≠ 0 ∧ u = .subscribe n) ∨ u = .unsubscribe)
      (hc : s'.core = s.core.bump s) : LTrans s pd (.user u) s' pd
  | storeFresh (q t : Nat) (s' : State) (hpd : pd = []) (hg : selectEnabled s [] = true) (hq : q ≠ 0)
      (hslot : s.outgoingPub[nextPkidVal s]? = some none) (hrel : relContains s (nextPkidVal s) = false)
      (hc : s'.core = (s.core.bump s).store ⟨q, nextPkidVal s, t, none⟩) :
      LTrans s pd (.user (.publish q t)) s' []
  | parkFresh (q t : Nat) (s' : State) (hpd : pd = []) (hg : selectEnabled s [] = true) (hq : q ≠ 0)
      (hbusy : busyId s (nextPkidVal s))
      (hc : s'.core = { s.core.bump s with col := some ⟨q, nextPkidVal s, t, none⟩ }) :
      LTrans s pd (.user (.publish q t)) s' []
  /-- a numbered publish of `pending` is stored again under its id -/
  | replayPub (p : Pub) (rest : List Request) (s' : State) (hpd : pd = .publish p :: rest) (hid : p.pkid ≠ 0)
      (hslot : s.outgoingPub[p.pkid]? = some none) (hrel : relContains s p.pkid = false)
      (hc : s'.core = s.core.store p) :
      LTrans s pd .pend s' rest
  /-- … or finds its id in use (only after `failBeforeParkedReplayed`) -/
  | replayPark (p : Pub) (rest : List Request) (s' : State) (hpd : pd = .publish p :: rest) (hid : p.pkid ≠ 0)
      (hbusy : busyId s p.pkid)
      (hc : s'.core = { s.core with col := some p }) :
      LTrans s pd .pend s' rest
  /-- the unnumbered publish of `pending` (parked when the connection failed) gets a fresh id -/
  | replayFresh (p : Pub) (rest : List Request) (s' : State) (hpd : pd = .publish p :: rest) (hid : p.pkid = 0)
      (hslot : s.outgoingPub[nextPkidVal s]? = some none) (hrel : relContains s (nextPkidVal s) = false)
      (hc : s'.core = (s.core.bump s).store { p with pkid := nextPkidVal s }) :
      LTrans s pd .pend s' rest
  | replayFreshPark (p : Pub) (rest : List Request) (s' : State) (hpd : pd = .publish p :: rest) (hid : p.pkid = 0)
      (hbusy : busyId s (nextPkidVal s))
      (hc : s'.core = { s.core.bump s with col := some { p with pkid := nextPkidVal s } }) :
      LTrans s pd .pend s' rest
  | replayRel (i : Nat) (rest : List Request) (s' : State) (hpd : pd = .pubrel i :: rest)
      (hi : i < s.outgoingRel.length)
      (hc : s'.core = { s.core with rel := s.outgoingRel.set i true, inf := s.inflight + 1 }) :
      LTrans s pd .pend s' rest
  | puback (i r : Nat) (s' : State) (o : Outcome) (he : PubackEff s i (s', o)) : LTrans s pd (.inc (.puback i r)) s' pd
  | pubrec (i r : Nat) (s' : State) (o : Outcome) (he : PubrecEff s i r (s', o)) : LTrans s pd (.inc (.pubrec i r)) s' pd
  | pubcomp (i r : Nat) (s' : State) (o : Outcome) (he : PubcompEff s i (s', o)) : LTrans s pd (.inc (.pubcomp i r)) s' pd
  | fail : LTrans s pd .fail (cleanState s) (cleanRequests s ++ pd)
  | newSession : LTrans s pd .newSession s []

/-- `outgoing_publish` once the id is fixed, under `Inv0`: the publish is stored or parked -/
theorem publishWithId_cases {s : State} {pd : List Request} (h0 : Inv0 ⟨s, pd⟩) (p : Pub)
    (h2 : p.pkid ≤ s.maxInflight) (hinf : s.inflight < u16Max) :
    (s.outgoingPub[p.pkid]? = some none ∧ relContains s p.pkid = false ∧
      publishWithId s p = ((storePub s p).pushOut (.publish p.pkid), .ok (some (.publish p)))) ∨
    (busyId s p.pkid ∧
      publishWithId s p = ({ s with collision := some p }.pushOut (.awaitAck p.pkid), .ok none)) := by
  obtain ⟨slot, hslot⟩ := h0.slot_some p.pkid h2
  cases slot with
  | none =>
    rcases Bool.eq_false_or_eq_true (relContains s p.pkid) with hr | hr
    · exact Or.inr ⟨Or.inr hr, eff_publishWithId_park s p none hslot (Or.inr hr)⟩
    · exact Or.inl ⟨hslot, hr, eff_publishWithId_store s p hslot hr hinf⟩
  | some x => exact Or.inr ⟨Or.inl ⟨x, hslot⟩, eff_publishWithId_park s p (some x) hslot (Or.inl rfl)⟩

theorem busyId_congr {s s' : State} (h : s'.core = s.core) (i : Nat) : busyId s' i ↔ busyId s i := by
  obtain ⟨e1, e2, _⟩ := core_eqs h
  unfold busyId relContains; rw [e1, e2]

theorem busyId_nextPkidSt (s : State) (i : Nat) : busyId (nextPkidSt s) i ↔ busyId s i := by
  have h := nextPkidSt_core s
  have e1 : (nextPkidSt s).outgoingPub = s.outgoingPub := congrArg Core.pub h
  have e2 : (nextPkidSt s).outgoingRel = s.outgoingRel := congrArg Core.rel h
  unfold busyId relContains; rw [e1, e2]

theorem lstep_trans {s : State} {pd : List Request} (h0 : Inv0 ⟨s, pd⟩) (op : LOp) :
    LTrans s pd op (lstep ⟨s, pd⟩ op).1.st (lstep ⟨s, pd⟩ op).1.pending := by
  have hfresh : ∀ (p : Pub) (pd' : List Request), p.qos ≠ 0 → p.pkid = 0 → p.alias = none →
      s.inflight + pd'.length + 1 + colCount s ≤ s.maxInflight →
      (s.outgoingPub[nextPkidVal s]? = some none ∧ relContains s (nextPkidVal s) = false ∧
        (drainEvents (handleOutgoing s (.publish p)).1).core = (s.core.bump s).store { p with pkid := nextPkidVal s }) ∨
      (busyId s (nextPkidVal s) ∧
        (drainEvents (handleOutgoing s (.publish p)).1).core =
          { s.core.bump s with col := some { p with pkid := nextPkidVal s } }) := by
    intro p pd' hq hid ha hw
    obtain ⟨hp, hv1, hv2, hv3⟩ := h0.nextPkid
    rw [eff_publish_fresh s p ha hq hid hp]
    have hn := h0.nextPkidSt
    have hcore := nextPkidSt_core s
    have e1 : (nextPkidSt s).outgoingPub = s.outgoingPub := congrArg Core.pub hcore
    have e2 : (nextPkidSt s).inflight = s.inflight := congrArg Core.inf hcore
    have e3 : (nextPkidSt s).outgoingRel = s.outgoingRel := congrArg Core.rel hcore
    have hmx : (nextPkidSt s).maxInflight = s.maxInflight := (nextPkidSt_frame s).2.1
    have hup := h0.upLe; have hml := h0.maxLe
    simp only at hup hml
    rcases publishWithId_cases hn { p with pkid := nextPkidVal s } (by rw [hmx]; exact hv2) (by rw [e2]; omega) with
      ⟨hs, hr, heq⟩ | ⟨hb, heq⟩
    · refine Or.inl ⟨by rw [← e1]; exact hs, by unfold relContains at hr ⊢; rw [← e3]; exact hr, ?_⟩
      rw [heq, core_drain, core_pushOut, storePub_core, hcore]; rfl
    · refine Or.inr ⟨(busyId_nextPkidSt s _).mp hb, ?_⟩
      rw [heq, core_drain, core_pushOut]
      simp only [State.core, Core.bump]
      have h3 := congrArg Core.rel hcore; have h5 := congrArg Core.ord hcore; have h6 := congrArg Core.cnt hcore
      simp only [State.core] at h3 h5 h6
      simp [e1, e2, h3, h5, h6]
  unfold Client.lstep
  cases op with
  | user u =>
    by_cases hc : (pd.isEmpty && selectEnabled s pd) = true
    · simp only [lop?, hc, if_true]
      have hpd : pd = [] := by
        simp only [Bool.and_eq_true, List.isEmpty_iff] at hc; exact hc.1
      subst hpd
      have hgt : selectEnabled s [] = true := by simpa using hc
      simp only [lpending, sstepSt]
      by_cases hu : ∃ q t, u = .publish q t
      · obtain ⟨q, t, rfl⟩ := hu
        simp only [UserReq.toRequest]
        by_cases hq : q = 0
        · subst hq; rw [eff_publish_qos0]; exact .quiet _ _ rfl
        · have hgate := gate_open hgt
          rcases hfresh ⟨q, 0, t, none⟩ [] hq rfl rfl (by simp [colCount, hgate.2]; omega) with ⟨hs, hr, heq⟩ | ⟨hb, heq⟩
          · exact .storeFresh q t _ rfl hgt hq hs hr heq
          · exact .parkFresh q t _ rfl hgt hq hb heq
      · have hu' : ∀ q t, u ≠ .publish q t := fun q t h => hu ⟨q, t, h⟩
        cases u with
        | publish q t => exact absurd rfl (hu' q t)
        | subscribe n =>
          by_cases hn0 : n = 0
          · subst hn0
            simp only [UserReq.toRequest, handleOutgoing, outgoingSubscribe, if_true]
            exact .quiet _ _ rfl
          · obtain ⟨hp, _⟩ := h0.nextPkid
            simp only [UserReq.toRequest, handleOutgoing, outgoingSubscribe, hn0, if_false, hp, Bool.false_eq_true]
            exact .nextId _ _ rfl hgt (Or.inl ⟨n, hn0, rfl⟩) (by rw [core_drain, core_pushOut, nextPkidSt_core]; rfl)
        | unsubscribe =>
          obtain ⟨hp, _⟩ := h0.nextPkid
          simp only [UserReq.toRequest, handleOutgoing, outgoingUnsubscribe, hp, Bool.false_eq_true, if_false]
          exact .nextId _ _ rfl hgt (Or.inr rfl) (by rw [core_drain, core_pushOut, nextPkidSt_core]; rfl)
        | disconnect => exact .quiet _ _ rfl
        | puback i => exact .quiet _ _ rfl
        | pubrec i => exact .quiet _ _ rfl
    · simp only [lop?, hc]
      exact .skip _
  | pend =>
    cases pd with
    | nil => exact .skip _
    | cons r rest =>
      by_cases hrd : pendingReady s (r :: rest) = true
      case neg => simp only [lop?, hrd]; exact .skip _
      simp only [lop?, hrd, if_true, lpending, sstepSt, List.tail_cons]
      have hw := h0.window; have hml := h0.maxLe; have hul := h0.upLe
      simp only [List.length_cons] at hw hml hul
      cases r with
      | publish p =>
        have h1 := h0.pendWF (.publish p) (by simp)
        simp only [PendOK] at h1
        obtain ⟨hq, h2, ha⟩ := h1
        by_cases hid : p.pkid = 0
        · rcases hfresh p rest hq hid ha (by omega) with ⟨hs, hr, heq⟩ | ⟨hb, heq⟩
          · exact .replayFresh p rest _ rfl hid hs hr heq
          · exact .replayFreshPark p rest _ rfl hid hb heq
        · rw [eff_publish_replay s p ha hq hid]
          rcases publishWithId_cases h0 p h2 (by omega) with ⟨hs, hr, heq⟩ | ⟨hb, heq⟩
          · rw [heq]; exact .replayPub p rest _ rfl hid hs hr (by rw [core_drain, core_pushOut, storePub_core])
          · rw [heq]; exact .replayPark p rest _ rfl hid hb rfl
      | pubrel i =>
        have h1 := h0.pendWF (.pubrel i) (by simp)
        simp only [PendOK] at h1
        have hlen := h0.sinv.lenRel
        simp only at hlen
        have hlt : i < s.outgoingRel.length := by omega
        rw [eff_pubrel_replay s i (by omega) hlt (by omega)]
        exact .replayRel i rest _ rfl hlt rfl
      | subscribe n => exact absurd (h0.pendWF (.subscribe n) (by simp)) (by simp [PendOK])
      | unsubscribe => exact absurd (h0.pendWF .unsubscribe (by simp)) (by simp [PendOK])
      | pingreq => exact absurd (h0.pendWF .pingreq (by simp)) (by simp [PendOK])
      | disconnect => exact absurd (h0.pendWF .disconnect (by simp)) (by simp [PendOK])
      | puback j => exact absurd (h0.pendWF (.puback j) (by simp)) (by simp [PendOK])
      | pubrec j => exact absurd (h0.pendWF (.pubrec j) (by simp)) (by simp [PendOK])
      | other => exact absurd (h0.pendWF .other (by simp)) (by simp [PendOK])
  | ping =>
    simp only [lop?, lpending, sstepSt]
    exact .quiet _ _ (by rw [core_drain, ping_core])
  | inc p =>
    simp only [lop?, lpending, sstepSt]
    have hs0 := h0.sinv.pushEv (.incoming p)
    simp only at hs0
    by_cases hack : ∃ i r, p = .puback i r
    · obtain ⟨i, r, rfl⟩ := hack
      rw [handleIncoming_puback]
      exact .puback i r _ _ ((handlePuback_eff hs0 i).transfer rfl)
    · by_cases hrec : ∃ i r, p = .pubrec i r
      · obtain ⟨i, r, rfl⟩ := hrec
        rw [handleIncoming_pubrec]
        exact .pubrec i r _ _ ((handlePubrec_eff hs0 i r).transfer rfl rfl)
      · by_cases hcomp : ∃ i r, p = .pubcomp i r
        · obtain ⟨i, r, rfl⟩ := hcomp
          rw [handleIncoming_pubcomp]
          exact .pubcomp i r _ _ ((handlePubcomp_eff hs0 i).transfer rfl)
        · have ho := otherIncoming_eff s p (fun i r h => hack ⟨i, r, h⟩) (fun i r h => hrec ⟨i, r, h⟩)
            (fun i r h => hcomp ⟨i, r, h⟩)
          exact .quiet _ _ (by rw [core_drain, ho.1])
  | fail =>
    simp only [lop?, lpending, sstepSt, sstepObs]
    rw [h0.sinv.cleanPanics]
    simp only [Bool.false_eq_true, if_false, mkObs]
    exact .fail
  | newSession =>
    simp only [lop?, lpending, sstepSt]
    exact .newSession

end Client
