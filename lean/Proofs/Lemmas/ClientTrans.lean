/-
`LTrans`: one loop operation described by its effect on the tables, the counter, the collision
slot, the id counter and `pending` — the case analysis of `lstep` done once, under `Inv0`.
-/
import Proofs.Lemmas.ClientGhost1
namespace Client
open Client.Spec

theorem PubackEff.transfer {s s0 : State} {i r : Nat} {res : State × Outcome} (h : PubackEff s0 i r res)
    (hc : s0.core = s.core) (hv : s0.ver = s.ver) : PubackEff s i r (drainEvents res.1, res.2) := by
  obtain ⟨e1, e2, e3, e4, e5⟩ := core_eqs hc
  have e6 : s0.lastPkid = s.lastPkid := congrArg Core.lastPkid hc
  cases h with
  | oob s' h hc' => exact .oob _ (by rw [← e1]; exact h) (by rw [core_drain, hc', hc])
  | empty s' h hc' =>
    exact .empty _ (by rw [← e1]; exact h) (by rw [core_drain, hc', hc, hv, e5])
  | freed s' x h hn hc' =>
    refine .freed _ x (by rw [← e1]; exact h) ?_ (by rw [core_drain, hc', hc, hv, e1, e3, e5])
    rw [← hv, ← e4]; exact hn
  | released s' x c h hv' hcol hci hc' =>
    exact .released _ x c (by rw [← e1]; exact h) (by rw [← hv]; exact hv') (by rw [← e4]; exact hcol) hci
      (by rw [core_drain, hc', hc, hv, e1, e3, e5])

theorem PubrecEff.transfer {s s0 : State} {i r : Nat} {res : State × Outcome} (h : PubrecEff s0 i r res)
    (hc : s0.core = s.core) (hv : s0.ver = s.ver) : PubrecEff s i r (drainEvents res.1, res.2) := by
  obtain ⟨e1, e2, e3, e4, e5⟩ := core_eqs hc
  cases h with
  | unsol s' h hc' => exact .unsol _ (by rw [← e1]; exact h) (by rw [core_drain, hc', hc])
  | failed s' x h hv' hc' =>
    exact .failed _ x (by rw [← e1]; exact h) (by rw [← hv]; exact hv') (by rw [core_drain, hc', hc, e1])
  | moved s' x h hv' hi hc' =>
    exact .moved _ x (by rw [← e1]; exact h) (by rw [← hv]; exact hv') (by rw [← e2]; exact hi)
      (by rw [core_drain, hc', hc, e1, e2])

theorem PubcompGen.transfer {s s0 : State} {i r : Nat} {res : State × Outcome} (h : PubcompGen s0 i r res)
    (hc : s0.core = s.core) (hv : s0.ver = s.ver) : PubcompGen s i r (drainEvents res.1, res.2) := by
  obtain ⟨e1, e2, e3, e4, e5⟩ := core_eqs hc
  have hrc : ∀ j, relContains s0 j = relContains s j := by intro j; unfold relContains; rw [e2]
  cases h with
  | unsol s' o h hp hr hi hcol hl =>
    refine .unsol _ _ (by rw [← hrc]; exact h) (hp.trans e1) (hr.trans e2) (hi.trans e3) ?_ (hl.trans e5)
    rcases hcol with h' | h'
    · exact Or.inl (h'.trans e4)
    · exact Or.inr ⟨by rw [← hv]; exact h'.1, h'.2⟩
  | done s' o h dec hdec hp hr hi hcol hl =>
    refine .done _ _ (by rw [← hrc]; exact h) dec (by rw [← hv]; exact hdec) (hp.trans e1) (by simp [drainEvents, hr, e2])
      (by simp [drainEvents, hi, e3]) ?_ (hl.trans e5)
    rcases hcol with h' | h'
    · exact Or.inl ⟨h'.1.trans e4, by rw [← e4]; exact h'.2⟩
    · exact Or.inr h'

inductive LTrans (s : State) (pd : List Request) : LOp → State → List Request → Prop
  /-- branch disabled / nothing to do -/
  | skip (op : LOp) : LTrans s pd op s pd
  /-- tables, counter, collision slot and id counter untouched -/
  | quiet (op : LOp) (s' : State) (hc : s'.core = s.core) : LTrans s pd op s' pd
  /-- SUBSCRIBE / UNSUBSCRIBE consumed a packet id -/
  | nextId (u : UserReq) (s' : State) (hpd : pd = []) (hg : selectEnabled s [] = true)
      (hu : (∃ n, n ≠ 0 ∧ u = .subscribe n) ∨ u = .unsubscribe)
      (hc : s'.core = { s.core with lastPkid := (nextPkidSt s).lastPkid }) : LTrans s pd (.user u) s' pd
  | storeFresh (q t : Nat) (s' : State) (hpd : pd = []) (hg : selectEnabled s [] = true) (hq : q ≠ 0)
      (hslot : s.outgoingPub[nextPkidVal s]? = some none)
      (hc : s'.core = { s.core with pub := s.outgoingPub.set (nextPkidVal s) (some ⟨q, nextPkidVal s, t, none⟩),
                                    inf := s.inflight + 1, lastPkid := (nextPkidSt s).lastPkid }) :
      LTrans s pd (.user (.publish q t)) s' []
  | park (q t : Nat) (s' : State) (x : Pub) (hpd : pd = []) (hg : selectEnabled s [] = true) (hq : q ≠ 0)
      (hslot : s.outgoingPub[nextPkidVal s]? = some (some x))
      (hc : s'.core = { s.core with col := some ⟨q, nextPkidVal s, t, none⟩, lastPkid := (nextPkidSt s).lastPkid }) :
      LTrans s pd (.user (.publish q t)) s' []
  | replayPub (p : Pub) (rest : List Request) (s' : State) (hpd : pd = .publish p :: rest)
      (hslot : s.outgoingPub[p.pkid]? = some none)
      (hc : s'.core = { s.core with pub := s.outgoingPub.set p.pkid (some p), inf := s.inflight + 1 }) :
      LTrans s pd .pend s' rest
  | replayRel (i : Nat) (rest : List Request) (s' : State) (hpd : pd = .pubrel i :: rest)
      (hi : i < s.outgoingRel.length)
      (hc : s'.core = { s.core with rel := s.outgoingRel.set i true, inf := s.inflight + 1 }) :
      LTrans s pd .pend s' rest
  | puback (i r : Nat) (s' : State) (o : Outcome) (he : PubackEff s i r (s', o)) : LTrans s pd (.inc (.puback i r)) s' pd
  | pubrec (i r : Nat) (s' : State) (o : Outcome) (he : PubrecEff s i r (s', o)) : LTrans s pd (.inc (.pubrec i r)) s' pd
  | pubcomp (i r : Nat) (s' : State) (o : Outcome) (he : PubcompGen s i r (s', o)) : LTrans s pd (.inc (.pubcomp i r)) s' pd
  | fail : LTrans s pd .fail (cleanState s) (pd ++ cleanRequests s)
  | newSession : LTrans s pd .newSession s []

theorem lstep_trans {s : State} {pd : List Request} (h0 : Inv0 ⟨s, pd⟩) (op : LOp) :
    LTrans s pd op (lstep ⟨s, pd⟩ op).1.st (lstep ⟨s, pd⟩ op).1.pending := by
  unfold Client.lstep
  cases op with
  | user u =>
    by_cases hc : (pd.isEmpty && selectEnabled s pd) = true
    · simp only [lop?, hc, if_true]
      have hpd : pd = [] := by
        simp only [Bool.and_eq_true, List.isEmpty_iff] at hc; exact hc.1
      subst hpd
      have hgt : selectEnabled s [] = true := by simpa using hc
      simp only [lpending, sstepSt]
      by_cases hu : ∃ q t, u = .publish q t
      · obtain ⟨q, t, rfl⟩ := hu
        simp only [UserReq.toRequest]
        by_cases hq : q = 0
        · subst hq; rw [eff_publish_qos0]; exact .quiet _ _ rfl
        · obtain ⟨hp, hv1, hv2, hv3⟩ := h0.nextPkid
          rw [eff_publish_fresh s q t hq hp]
          have hn := h0.nextPkidSt
          have hcore := nextPkidSt_core s
          have e1 : (nextPkidSt s).outgoingPub = s.outgoingPub := congrArg Core.pub hcore
          have e2 : (nextPkidSt s).inflight = s.inflight := congrArg Core.inf hcore
          have hup := h0.upLe; have hml := h0.maxLe
          have hgate : s.inflight < s.maxInflight := by simp [selectEnabled] at hgt; exact hgt.1
          simp only at hup hml
          have hmx : (nextPkidSt s).maxInflight = s.maxInflight := (nextPkidSt_frame s).2.1
          rcases hn.slot_cases (nextPkidVal s) (by rw [hmx]; exact hv2) with hs | ⟨x, hs⟩
          · rw [eff_publishWithId_store _ _ rfl hs (by rw [e2]; omega)]
            refine .storeFresh q t _ rfl hgt hq (by rw [← e1]; exact hs) ?_
            rw [core_drain, core_pushOut]
            simp only [State.core, hcore, e1, e2]
            have := congrArg Core.rel hcore; have h4 := congrArg Core.col hcore; have h5 := congrArg Core.lastPuback hcore
            simp only [State.core] at this h4 h5
            simp [this, h4, h5]
          · rw [eff_publishWithId_park _ _ x hs]
            refine .park q t _ x rfl hgt hq (by rw [← e1]; exact hs) ?_
            rw [core_drain, core_pushOut]
            have h3 := congrArg Core.rel hcore; have h5 := congrArg Core.lastPuback hcore
            simp only [State.core] at h3 h5
            simp [State.core, e1, e2, h3, h5]
      · have hu' : ∀ q t, u ≠ .publish q t := fun q t h => hu ⟨q, t, h⟩
        cases u with
        | publish q t => exact absurd rfl (hu' q t)
        | subscribe n =>
          by_cases hn0 : n = 0
          · subst hn0
            simp only [UserReq.toRequest, handleOutgoing, outgoingSubscribe, if_true]
            exact .quiet _ _ rfl
          · obtain ⟨hp, _⟩ := h0.nextPkid
            simp only [UserReq.toRequest, handleOutgoing, outgoingSubscribe, hn0, if_false, hp, Bool.false_eq_true]
            exact .nextId _ _ rfl hgt (Or.inl ⟨n, hn0, rfl⟩) (by rw [core_drain, core_pushOut, nextPkidSt_core])
        | unsubscribe =>
          obtain ⟨hp, _⟩ := h0.nextPkid
          simp only [UserReq.toRequest, handleOutgoing, outgoingUnsubscribe, hp, Bool.false_eq_true, if_false]
          exact .nextId _ _ rfl hgt (Or.inr rfl) (by rw [core_drain, core_pushOut, nextPkidSt_core])
        | disconnect => exact .quiet _ _ rfl
        | puback i => exact .quiet _ _ rfl
        | pubrec i => exact .quiet _ _ rfl
    · simp only [lop?, hc]
      exact .skip _
  | pend =>
    cases pd with
    | nil => exact .skip _
    | cons r rest =>
      simp only [lop?, lpending, sstepSt, List.tail_cons]
      cases r with
      | publish p =>
        obtain ⟨hq, hp1, hp2, ha, hslot, hinf, hne⟩ := h0.pend_publish
        rw [eff_publish_replay s p hq (by omega), eff_publishWithId_store s p ha hslot hinf]
        exact .replayPub p rest _ rfl hslot rfl
      | pubrel i =>
        obtain ⟨hi1, hi2, hlt, hinf⟩ := h0.pend_pubrel
        rw [eff_pubrel_replay s i (by omega) hlt hinf]
        exact .replayRel i rest _ rfl hlt rfl
      | subscribe n => exact absurd (h0.pendWF (.subscribe n) (by simp)) (by simp [PendOK])
      | unsubscribe => exact absurd (h0.pendWF .unsubscribe (by simp)) (by simp [PendOK])
      | pingreq => exact absurd (h0.pendWF .pingreq (by simp)) (by simp [PendOK])
      | disconnect => exact absurd (h0.pendWF .disconnect (by simp)) (by simp [PendOK])
      | puback j => exact absurd (h0.pendWF (.puback j) (by simp)) (by simp [PendOK])
      | pubrec j => exact absurd (h0.pendWF (.pubrec j) (by simp)) (by simp [PendOK])
      | other => exact absurd (h0.pendWF .other (by simp)) (by simp [PendOK])
  | ping =>
    simp only [lop?, lpending, sstepSt]
    exact .quiet _ _ (by rw [core_drain, ping_core])
  | inc p =>
    simp only [lop?, lpending, sstepSt]
    have hs0 := h0.sinv.pushEv (.incoming p)
    simp only at hs0
    by_cases hack : ∃ i r, p = .puback i r
    · obtain ⟨i, r, rfl⟩ := hack
      rw [handleIncoming_puback]
      exact .puback i r _ _ ((handlePuback_eff hs0 i r).transfer rfl rfl)
    · by_cases hrec : ∃ i r, p = .pubrec i r
      · obtain ⟨i, r, rfl⟩ := hrec
        rw [handleIncoming_pubrec]
        exact .pubrec i r _ _ ((handlePubrec_eff hs0 i r).transfer rfl rfl)
      · by_cases hcomp : ∃ i r, p = .pubcomp i r
        · obtain ⟨i, r, rfl⟩ := hcomp
          rw [handleIncoming_pubcomp]
          exact .pubcomp i r _ _ ((handlePubcomp_gen hs0 i r).transfer rfl rfl)
        · have ho := otherIncoming_eff s p (fun i r h => hack ⟨i, r, h⟩) (fun i r h => hrec ⟨i, r, h⟩)
            (fun i r h => hcomp ⟨i, r, h⟩)
          exact .quiet _ _ (by rw [core_drain, ho.1])
  | fail =>
    simp only [lop?, lpending, sstepSt, sstepObs]
    rw [h0.sinv.cleanPanics]
    simp only [Bool.false_eq_true, if_false, mkObs]
    exact .fail
  | newSession =>
    simp only [lop?, lpending, sstepSt]
    exact .newSession

end Client
