/-
Coupling of the wire view `unacked` with `outgoing_pub` (`UnackedOK`): every publish on the wire
is recorded in the slot of its id and vice versa, and every accepted publish is acknowledged or
held (`kept`). Proved along runs on which `Inv2` holds.
-/
import Proofs.Lemmas.ClientInv234
namespace Client
open Client.Spec

/-! ### association lists -/

theorem alookup_append (U : List (Nat × Nat)) (k v j : Nat) :
    alookup (U ++ [(k, v)]) j = match alookup U j with
      | some x => some x
      | none => if k = j then some v else none := by
  induction U with
  | nil => simp [alookup]
  | cons a U ih =>
    obtain ⟨a1, a2⟩ := a
    simp only [List.cons_append, alookup]
    split
    · rfl
    · exact ih

theorem alookup_none_iff (U : List (Nat × Nat)) (j : Nat) : alookup U j = none ↔ j ∉ U.map (·.1) := by
  induction U with
  | nil => simp [alookup]
  | cons a U ih =>
    obtain ⟨a1, a2⟩ := a
    simp only [alookup, List.map_cons, List.mem_cons]
    split
    · rename_i h; simp [h]
    · rename_i h
      rw [ih]
      constructor
      · intro h1 h2; rcases h2 with h2 | h2
        · exact h h2.symm
        · exact h1 h2
      · intro h1 h2; exact h1 (Or.inr h2)

theorem alookup_aerase (U : List (Nat × Nat)) (i j : Nat) (hnd : (U.map (·.1)).Nodup) :
    alookup (aerase U i) j = if i = j then none else alookup U j := by
  induction U with
  | nil => simp [alookup, aerase]
  | cons a U ih =>
    obtain ⟨a1, a2⟩ := a
    have hnd' := List.nodup_cons.mp hnd
    simp only [aerase]
    split
    · rename_i h
      subst h
      split
      · rename_i h2; subst h2
        exact (alookup_none_iff U a1).mpr hnd'.1
      · rename_i h2
        simp [alookup, h2]
    · rename_i h
      simp only [alookup]
      split
      · rename_i h2; subst h2
        simp [Ne.symm h]
      · exact ih hnd'.2

theorem keys_aerase (U : List (Nat × Nat)) (i : Nat) : ∀ k, k ∈ (aerase U i).map (·.1) → k ∈ U.map (·.1) := by
  induction U with
  | nil => simp [aerase]
  | cons a U ih =>
    obtain ⟨a1, a2⟩ := a
    intro k hk
    simp only [aerase] at hk
    split at hk
    · simp only [List.map_cons, List.mem_cons]; exact Or.inr hk
    · simp only [List.map_cons, List.mem_cons] at hk ⊢
      rcases hk with hk | hk
      · exact Or.inl hk
      · exact Or.inr (ih k hk)

theorem nodup_aerase (U : List (Nat × Nat)) (i : Nat) (hnd : (U.map (·.1)).Nodup) : ((aerase U i).map (·.1)).Nodup := by
  induction U with
  | nil => simp [aerase]
  | cons a U ih =>
    obtain ⟨a1, a2⟩ := a
    have hnd' := List.nodup_cons.mp hnd
    simp only [aerase]
    split
    · exact hnd'.2
    · simp only [List.map_cons, List.nodup_cons]
      exact ⟨fun h => hnd'.1 (keys_aerase U i a1 h), ih hnd'.2⟩

theorem length_aerase (U : List (Nat × Nat)) (i : Nat) (h : alookup U i ≠ none) :
    (aerase U i).length + 1 = U.length := by
  induction U with
  | nil => simp [alookup] at h
  | cons a U ih =>
    obtain ⟨a1, a2⟩ := a
    simp only [aerase]
    split
    · simp
    · rename_i hne
      simp only [alookup, hne, if_false] at h
      simp [ih h]

theorem aerase_absent (U : List (Nat × Nat)) (i : Nat) (h : alookup U i = none) : aerase U i = U := by
  induction U with
  | nil => rfl
  | cons a U ih =>
    obtain ⟨a1, a2⟩ := a
    simp only [alookup] at h
    split at h
    · simp at h
    · rename_i hne
      simp [aerase, hne, ih h]

/-! ### `unacked` ↔ `outgoing_pub` -/

theorem slotTag_congr {s s' : State} (h : s'.outgoingPub = s.outgoingPub) (i : Nat) : slotTag s' i = slotTag s i := by
  unfold slotTag; rw [h]

/-- send stamp recorded for id `i` -/
def ordAt (s : State) (i : Nat) : Nat := s.outgoingOrder[i]?.getD 0

theorem ordAt_congr {s s' : State} (h : s'.outgoingOrder = s.outgoingOrder) (i : Nat) : ordAt s' i = ordAt s i := by
  unfold ordAt; rw [h]

theorem ordAt_set {s s' : State} {k c : Nat} (h : s'.outgoingOrder = s.outgoingOrder.set k c) (j : Nat) :
    ordAt s' j = if k = j ∧ k < s.outgoingOrder.length then c else ordAt s j := by
  unfold ordAt
  rw [h, List.getElem?_set]
  by_cases hkj : k = j
  · subst hkj
    by_cases hlt : k < s.outgoingOrder.length
    · simp [hlt]
    · simp [hlt]
  · simp [hkj]

theorem aerase_sublist (U : List (Nat × Nat)) (i : Nat) : (aerase U i).Sublist U := by
  induction U with
  | nil => simp [aerase]
  | cons a U ih =>
    obtain ⟨a1, a2⟩ := a
    simp only [aerase]
    split
    · exact List.sublist_cons_self _ _
    · exact ih.cons₂ _

/-- the wire view `U` (send order) and the publish table agree, and the send stamps of the table
    follow the order of `U` -/
structure UnackedOK (U : List (Nat × Nat)) (s : State) : Prop where
  look : ∀ i : Nat, alookup U i = slotTag s i
  nd : (U.map (·.1)).Nodup
  len : U.length = occ s.outgoingPub
  stamps : U.Pairwise (fun a b => ordAt s a.1 < ordAt s b.1)
  below : ∀ e ∈ U, ordAt s e.1 < s.outgoingCount

theorem UnackedOK.congr {U : List (Nat × Nat)} {s s' : State} (h : UnackedOK U s) (he : s'.outgoingPub = s.outgoingPub)
    (ho : s'.outgoingOrder = s.outgoingOrder := by rfl) (hc : s'.outgoingCount = s.outgoingCount := by rfl) :
    UnackedOK U s' :=
  ⟨fun i => by rw [slotTag_congr he]; exact h.look i, h.nd, by rw [he]; exact h.len,
    h.stamps.imp (by intro a b hab; rw [ordAt_congr ho, ordAt_congr ho]; exact hab),
    fun e he' => by rw [ordAt_congr ho, hc]; exact h.below e he'⟩

theorem slotTag_set (s s' : State) (i : Nat) (v : Option Pub) (he : s'.outgoingPub = s.outgoingPub.set i v)
    (hi : i < s.outgoingPub.length) (j : Nat) :
    slotTag s' j = if i = j then v.map (·.tag) else slotTag s j := by
  unfold slotTag
  rw [he, List.getElem?_set]
  by_cases hij : i = j
  · simp only [hij, if_true]
    subst hij
    simp only [hi, if_true]
    cases v <;> rfl
  · simp only [hij, if_false]

/-- a publish goes to the wire and into the empty slot of its id -/
theorem UnackedOK.store {U : List (Nat × Nat)} {s s' : State} (h : UnackedOK U s) (p : Pub)
    (hslot : s.outgoingPub[p.pkid]? = some none) (hlo : p.pkid < s.outgoingOrder.length)
    (he : s'.outgoingPub = s.outgoingPub.set p.pkid (some p))
    (ho : s'.outgoingOrder = s.outgoingOrder.set p.pkid s.outgoingCount := by rfl)
    (hc : s'.outgoingCount = s.outgoingCount + 1 := by rfl) :
    UnackedOK (U ++ [(p.pkid, p.tag)]) s' := by
  have hi := getElem?_lt_of_some hslot
  have hnone : alookup U p.pkid = none := by rw [h.look]; simp [slotTag, hslot]
  have hnk : ∀ e ∈ U, e.1 ≠ p.pkid := by
    intro e he' heq
    exact (alookup_none_iff U _).mp hnone (by rw [← heq]; exact List.mem_map_of_mem he')
  have hold : ∀ e ∈ U, ordAt s' e.1 = ordAt s e.1 := by
    intro e he'
    rw [ordAt_set ho]
    have := hnk e he'
    simp [Ne.symm this]
  have hnew : ordAt s' p.pkid = s.outgoingCount := by rw [ordAt_set ho]; simp [hlo]
  refine ⟨?_, ?_, ?_, ?_, ?_⟩
  · intro j
    rw [alookup_append, slotTag_set s s' p.pkid (some p) he hi j, h.look j]
    by_cases hj : p.pkid = j
    · subst hj
      simp [slotTag, hslot]
    · simp only [hj, if_false]
      cases slotTag s j <;> rfl
  · rw [List.map_append, List.nodup_append]
    refine ⟨h.nd, by simp, ?_⟩
    intro a ha b hb hab
    simp at hb; subst hb; subst hab
    exact (alookup_none_iff U _).mp hnone ha
  · rw [he, occ_set_some _ _ _ hslot, List.length_append, h.len]; rfl
  · rw [List.pairwise_append]
    refine ⟨?_, by simp, ?_⟩
    · apply h.stamps.imp_of_mem
      intro a b ha hb hab
      rw [hold a ha, hold b hb]; exact hab
    · intro a ha b hb
      simp only [List.mem_singleton] at hb
      subst hb
      rw [hold a ha, hnew]
      exact h.below a ha
  · intro e he'
    rcases List.mem_append.mp he' with he' | he'
    · rw [hold e he', hc]; have := h.below e he'; omega
    · simp only [List.mem_singleton] at he'
      subst he'
      rw [hnew, hc]; omega

/-- an acknowledgement frees the slot and ends the wire entry -/
theorem UnackedOK.free {U : List (Nat × Nat)} {s s' : State} (h : UnackedOK U s) (i : Nat) (x : Pub)
    (hslot : s.outgoingPub[i]? = some (some x))
    (he : s'.outgoingPub = s.outgoingPub.set i none)
    (ho : s'.outgoingOrder = s.outgoingOrder := by rfl) (hc : s'.outgoingCount = s.outgoingCount := by rfl) :
    UnackedOK (aerase U i) s' ∧ alookup U i = some x.tag := by
  have hi := getElem?_lt_of_some hslot
  have hsome : alookup U i = some x.tag := by rw [h.look]; simp [slotTag, hslot]
  have hsub := aerase_sublist U i
  refine ⟨⟨?_, nodup_aerase U i h.nd, ?_, ?_, ?_⟩, hsome⟩
  · intro j
    rw [alookup_aerase U i j h.nd, slotTag_set s s' i none he hi j, h.look j]
    rfl
  · have h1 := length_aerase U i (by rw [hsome]; simp)
    have h2 := occ_set_none _ _ _ hslot
    rw [he]; have := h.len; omega
  · apply (h.stamps.sublist hsub).imp
    intro a b hab; rw [ordAt_congr ho, ordAt_congr ho]; exact hab
  · intro e he'
    rw [ordAt_congr ho, hc]; exact h.below e (hsub.subset he')

theorem UnackedOK.absent {U : List (Nat × Nat)} {s : State} (h : UnackedOK U s) (i : Nat)
    (hslot : s.outgoingPub[i]? = none ∨ s.outgoingPub[i]? = some none) : alookup U i = none := by
  rw [h.look]; unfold slotTag
  rcases hslot with h' | h' <;> rw [h']

theorem UnackedOK.clean (s : State) : UnackedOK [] (cleanState s) := by
  refine ⟨?_, by simp, by simp [cleanState, occ_map_none], by simp, by simp⟩
  intro i
  simp only [alookup, slotTag, cleanState, List.getElem?_map]
  cases s.outgoingPub[i]? <;> rfl

theorem UnackedOK.new (ver : Version) (max : Nat) (m : Bool) : UnackedOK [] (State.new ver max m) := by
  refine ⟨?_, by simp, by simp [State.new, occ_replicate], by simp, by simp⟩
  intro i
  simp only [alookup, slotTag, State.new, List.getElem?_replicate]
  by_cases h : i < max + 1 <;> simp [h]


/-! ### projections of the ghost step: `unacked`, `accepted`, `done` -/

def relPub (U : List (Nat × Nat)) (o : Outcome) : List (Nat × Nat) :=
  match o with
  | .ok (some (.publish q)) => if q.qos = 0 then U else U ++ [(q.pkid, q.tag)]
  | _ => U

def unackedAfterOut (U : List (Nat × Nat)) (r : Request) (o : Outcome) : List (Nat × Nat) :=
  match r with
  | .publish _ => relPub U o
  | _ => U

theorem stepOut_unacked (g : Ghost) (r : Request) (o : Outcome) :
    (g.stepOut r o).unacked = unackedAfterOut g.unacked r o := by
  unfold Ghost.stepOut unackedAfterOut relPub
  cases r <;> simp only <;> (repeat' split) <;> simp_all

def ackedId : Incoming → Option Nat
  | .puback i _ => some i
  | .pubrec i _ => some i
  | _ => none

def unackedAfterIn (U : List (Nat × Nat)) (p : Incoming) : List (Nat × Nat) :=
  match ackedId p with
  | some i => aerase U i
  | none => U

def doneAfterIn (D : List Nat) (U : List (Nat × Nat)) (p : Incoming) : List Nat :=
  match ackedId p with
  | some i => (match alookup U i with
      | some t => t :: D
      | none => D)
  | none => D

theorem released_unacked (g : Ghost) (p : Incoming) (o : Outcome) :
    ((g.stepIn p).released o).unacked = relPub (unackedAfterIn g.unacked p) o := by
  have h1 : ∀ g' : Ghost, (g'.released o).unacked = relPub g'.unacked o := by
    intro g'; unfold Ghost.released relPub; (repeat' split) <;> simp_all
  rw [h1]
  congr 1
  unfold Ghost.stepIn unackedAfterIn ackedId
  cases p <;> simp only <;> (repeat' split) <;> simp_all [aerase_absent]

theorem released_done (g : Ghost) (p : Incoming) (o : Outcome) :
    ((g.stepIn p).released o).done = doneAfterIn g.done g.unacked p ∧
    ((g.stepIn p).released o).accepted = g.accepted := by
  have h1 : ∀ g' : Ghost, (g'.released o).done = g'.done ∧ (g'.released o).accepted = g'.accepted := by
    intro g'; unfold Ghost.released; (repeat' split) <;> simp
  rw [(h1 _).1, (h1 _).2]
  unfold Ghost.stepIn doneAfterIn ackedId
  cases p <;> simp only <;> (repeat' split) <;> simp_all

def acceptedAfterOut (A : List Nat) (r : Request) (o : Outcome) : List Nat :=
  match r, o with
  | .publish p, .ok (some (.publish q)) => if q.qos = 0 then A else if p.pkid == 0 then q.tag :: A else A
  | .publish p, .ok none => if p.qos = 0 then A else if p.pkid == 0 then p.tag :: A else A
  | _, _ => A

theorem stepOut_accepted (g : Ghost) (r : Request) (o : Outcome) :
    (g.stepOut r o).accepted = acceptedAfterOut g.accepted r o ∧ (g.stepOut r o).done = g.done := by
  unfold Ghost.stepOut acceptedAfterOut
  cases r <;> simp only <;> (repeat' split) <;> simp_all

/-! ### what the state holds for retransmission -/

/-- tag `t` is held: in a slot of `outgoing_pub`, in the collision slot, or in `pending` -/
def Held (l : LState) (t : Nat) : Prop :=
  (∃ (i : Nat) (p : Pub), l.st.outgoingPub[i]? = some (some p) ∧ p.tag = t) ∨
  (∃ c : Pub, l.st.collision = some c ∧ c.tag = t) ∨
  (∃ p : Pub, .publish p ∈ l.pending ∧ p.tag = t)

structure GInv1 (l : LState) (g : Ghost) : Prop where
  unacked : UnackedOK g.unacked l.st
  kept : ∀ t ∈ g.accepted, t ∈ g.done ∨ Held l t

theorem GInv1.new (ver : Version) (max : Nat) (m : Bool) : GInv1 (LState.new ver max m) (Ghost.init ver max m) :=
  ⟨UnackedOK.new ver max m, by intro t ht; simp [Ghost.init] at ht⟩

theorem Held.mono {l l' : LState} {t : Nat} (h : Held l t)
    (h1 : ∀ (i : Nat) (p : Pub), l.st.outgoingPub[i]? = some (some p) → p.tag = t → Held l' t)
    (h2 : ∀ c : Pub, l.st.collision = some c → c.tag = t → Held l' t)
    (h3 : ∀ p : Pub, .publish p ∈ l.pending → p.tag = t → Held l' t) : Held l' t := by
  rcases h with ⟨i, p, hp, ht⟩ | ⟨c, hc, ht⟩ | ⟨p, hp, ht⟩
  · exact h1 i p hp ht
  · exact h2 c hc ht
  · exact h3 p hp ht

theorem Held.congr {l l' : LState} {t : Nat} (h : Held l t) (e1 : l'.st.outgoingPub = l.st.outgoingPub)
    (e2 : l'.st.collision = l.st.collision) (e3 : ∀ p : Pub, .publish p ∈ l.pending → .publish p ∈ l'.pending) :
    Held l' t := by
  rcases h with ⟨i, p, hp, ht⟩ | ⟨c, hc, ht⟩ | ⟨p, hp, ht⟩
  · exact Or.inl ⟨i, p, by rw [e1]; exact hp, ht⟩
  · exact Or.inr (Or.inl ⟨c, by rw [e2]; exact hc, ht⟩)
  · exact Or.inr (Or.inr ⟨p, e3 p hp, ht⟩)


theorem relPub_not_publish (U : List (Nat × Nat)) (o : Outcome) (h : ∀ q, o ≠ .ok (some (.publish q))) : relPub U o = U := by
  unfold relPub
  split
  · rename_i q; exact absurd rfl (h q)
  · rfl

theorem acceptedAfterOut_other (A : List Nat) (r : Request) (o : Outcome)
    (h1 : ∀ q, o ≠ .ok (some (.publish q))) (h2 : o ≠ .ok none) : acceptedAfterOut A r o = A := by
  unfold acceptedAfterOut
  split
  · rename_i q; exact absurd rfl (h1 q)
  · exact absurd rfl h2
  · rfl

/-- what every invariant needs about a publish that is stored or parked by `publishWithId`:
    `s1` is the state the id was taken in (`s` or `nextPkidSt s`), `p0` the request, `p` the publish
    with its id -/
theorem GInv1.publishWithId {s1 : State} {pd pd' : List Request} {U : List (Nat × Nat)} {A D : List Nat}
    (h0 : Inv0 ⟨s1, pd⟩) (hU : UnackedOK U s1) (p : Pub) (hq : p.qos ≠ 0)
    (h2 : p.pkid ≤ s1.maxInflight) (hinf : s1.inflight < u16Max)
    (hpark : busyId s1 p.pkid → s1.collision = none)
    (hK : ∀ t ∈ A, t ∈ D ∨ Held ⟨s1, pd'⟩ t ∨ t = p.tag) :
    UnackedOK (relPub U (publishWithId s1 p).2) (publishWithId s1 p).1 ∧
    (∀ t ∈ A, t ∈ D ∨ Held ⟨(publishWithId s1 p).1, pd'⟩ t) ∧
    Held ⟨(publishWithId s1 p).1, pd'⟩ p.tag ∧
    ((publishWithId s1 p).2 = .ok (some (.publish p)) ∨ (publishWithId s1 p).2 = .ok none) := by
  rcases publishWithId_cases h0 p h2 hinf with ⟨hs, hr, heq⟩ | ⟨hb, heq⟩
  · rw [heq]
    have hlt := getElem?_lt_of_some hs
    have hnew : Held ⟨(storePub s1 p).pushOut (.publish p.pkid), pd'⟩ p.tag := by
      refine Or.inl ⟨p.pkid, p, ?_, rfl⟩
      simp [storePub, State.pushOut, State.pushEv, hlt]
    refine ⟨?_, ?_, hnew, Or.inl rfl⟩
    · simp only [relPub, hq, if_false]
      have hlo : p.pkid < s1.outgoingOrder.length := by
        have := h0.sinv.lenOrd; have := h0.sinv.lenPub; simp only at *; omega
      exact hU.store (s' := (storePub s1 p).pushOut (.publish p.pkid)) p hs hlo rfl rfl rfl
    · intro t ht
      rcases hK t ht with h | h | h
      · exact Or.inl h
      · refine Or.inr (h.mono ?_ ?_ ?_)
        · intro i x hx hxt
          refine Or.inl ⟨i, x, ?_, hxt⟩
          simp only [storePub, State.pushOut, State.pushEv, List.getElem?_set]
          split
          · rename_i hi; subst hi; rw [hs] at hx; simp at hx
          · exact hx
        · intro c hc hct; exact Or.inr (Or.inl ⟨c, hc, hct⟩)
        · intro x hx hxt; exact Or.inr (Or.inr ⟨x, hx, hxt⟩)
      · rw [h]; exact Or.inr hnew
  · rw [heq]
    have hcol := hpark hb
    have hnew : Held ⟨{ s1 with collision := some p }.pushOut (.awaitAck p.pkid), pd'⟩ p.tag :=
      Or.inr (Or.inl ⟨p, rfl, rfl⟩)
    refine ⟨?_, ?_, hnew, Or.inr rfl⟩
    · simp only [relPub]
      exact hU.congr rfl
    · intro t ht
      rcases hK t ht with h | h | h
      · exact Or.inl h
      · refine Or.inr (h.mono ?_ ?_ ?_)
        · intro i x hx hxt; exact Or.inl ⟨i, x, hx, hxt⟩
        · intro c hc; simp only at hc; rw [hcol] at hc; cases hc
        · intro x hx hxt; exact Or.inr (Or.inr ⟨x, hx, hxt⟩)
      · rw [h]; exact Or.inr hnew

/-- a publish that gets a fresh id (user request through the open gate, or the unnumbered publish
    at the head of `pending`) -/
theorem GInv1.publishFresh {s : State} {pd pd' : List Request} {U : List (Nat × Nat)} {A D : List Nat}
    (h0 : Inv0 ⟨s, pd⟩) (hU : UnackedOK U s) (p : Pub) (hq : p.qos ≠ 0) (hid : p.pkid = 0) (ha : p.alias = none)
    (hw : s.inflight + pd'.length + 1 + colCount s ≤ s.maxInflight)
    (hpark : s.collision = none)
    (hK : ∀ t ∈ A, t ∈ D ∨ Held ⟨s, pd'⟩ t ∨ t = p.tag) :
    UnackedOK (relPub U (handleOutgoing s (.publish p)).2) (handleOutgoing s (.publish p)).1 ∧
    (∀ t ∈ A, t ∈ D ∨ Held ⟨(handleOutgoing s (.publish p)).1, pd'⟩ t) ∧
    Held ⟨(handleOutgoing s (.publish p)).1, pd'⟩ p.tag ∧
    ((∃ q, (handleOutgoing s (.publish p)).2 = .ok (some (.publish q)) ∧ q.qos = p.qos ∧ q.tag = p.tag) ∨
      (handleOutgoing s (.publish p)).2 = .ok none) := by
  obtain ⟨hp, hv1, hv2, hv3⟩ := h0.nextPkid
  rw [eff_publish_fresh s p ha hq hid hp]
  have hn := h0.nextPkidSt
  have hcore := nextPkidSt_core s
  have e1 : (nextPkidSt s).outgoingPub = s.outgoingPub := congrArg Core.pub hcore
  have e2 : (nextPkidSt s).inflight = s.inflight := congrArg Core.inf hcore
  have e3 : (nextPkidSt s).collision = s.collision := congrArg Core.col hcore
  have hmx : (nextPkidSt s).maxInflight = s.maxInflight := (nextPkidSt_frame s).2.1
  have hup := h0.upLe; have hml := h0.maxLe
  simp only at hup hml
  have hK' : ∀ t ∈ A, t ∈ D ∨ Held ⟨nextPkidSt s, pd'⟩ t ∨ t = p.tag := by
    intro t ht
    rcases hK t ht with h | h | h
    · exact Or.inl h
    · exact Or.inr (Or.inl (h.congr e1 e3 (fun _ hx => hx)))
    · exact Or.inr (Or.inr h)
  obtain ⟨k1, k2, k3, k4⟩ := GInv1.publishWithId (pd' := pd') hn
    (hU.congr e1 (congrArg Core.ord hcore) (congrArg Core.cnt hcore)) { p with pkid := nextPkidVal s } hq
    (by rw [hmx]; exact hv2) (by rw [e2]; omega) (fun _ => by rw [e3]; exact hpark) hK'
  refine ⟨k1, k2, k3, ?_⟩
  rcases k4 with h | h
  · exact Or.inl ⟨_, h, rfl, rfl⟩
  · exact Or.inr h

/-- a user request taken through the open gate -/
theorem GInv1.user {s : State} {g : Ghost} (h0 : Inv0 ⟨s, []⟩) (h1 : GInv1 ⟨s, []⟩ g) (u : UserReq)
    (hg : selectEnabled s [] = true) :
    UnackedOK (unackedAfterOut g.unacked u.toRequest (handleOutgoing s u.toRequest).2) (handleOutgoing s u.toRequest).1 ∧
    ∀ t ∈ acceptedAfterOut g.accepted u.toRequest (handleOutgoing s u.toRequest).2,
      t ∈ g.done ∨ Held ⟨(handleOutgoing s u.toRequest).1, []⟩ t := by
  have hgate := gate_open hg
  obtain ⟨hU, hK⟩ := h1
  by_cases hu : ∃ q t, u = .publish q t
  · obtain ⟨q, t, rfl⟩ := hu
    simp only [UserReq.toRequest]
    by_cases hq : q = 0
    · subst hq
      rw [eff_publish_qos0]
      refine ⟨by simp only [unackedAfterOut, relPub, if_true]; exact hU.congr rfl, ?_⟩
      intro t' ht'
      simp only [acceptedAfterOut, if_true] at ht'
      rcases hK t' ht' with h | h
      · exact Or.inl h
      · exact Or.inr (h.congr rfl rfl (fun _ hp => hp))
    · obtain ⟨k1, k2, k3, k4⟩ := GInv1.publishFresh (pd' := []) (A := t :: g.accepted) (D := g.done) h0 hU
        ⟨q, 0, t, none⟩ hq rfl rfl (by simp [colCount, hgate.2]; omega) hgate.2
        (by
          intro t' ht'
          rcases List.mem_cons.mp ht' with rfl | ht'
          · exact Or.inr (Or.inr rfl)
          · rcases hK t' ht' with h | h
            · exact Or.inl h
            · exact Or.inr (Or.inl h))
      refine ⟨k1, ?_⟩
      intro t' ht'
      apply k2
      rcases k4 with ⟨q', hq', hq1, hq2⟩ | hq'
      · rw [hq'] at ht'
        simp only [acceptedAfterOut] at ht'
        simp only at hq1 hq2
        rw [hq1, hq2] at ht'
        simpa [hq] using ht'
      · rw [hq'] at ht'
        simpa [acceptedAfterOut, hq] using ht'
  · have hu' : ∀ q t, u ≠ .publish q t := fun q t h => hu ⟨q, t, h⟩
    obtain ⟨c1, c2, c3⟩ := user_nonpublish_core s u hu'
    have e1 : (handleOutgoing s u.toRequest).1.outgoingPub = s.outgoingPub := congrArg Core.pub c1
    have e3 : (handleOutgoing s u.toRequest).1.collision = s.collision := congrArg Core.col c1
    have hup : unackedAfterOut g.unacked u.toRequest (handleOutgoing s u.toRequest).2 = g.unacked := by
      cases u <;> first | rfl | exact absurd rfl (hu' _ _)
    rw [hup, acceptedAfterOut_other _ _ _ c2 c3]
    refine ⟨hU.congr e1 (congrArg Core.ord c1) (congrArg Core.cnt c1), ?_⟩
    intro t' ht'
    rcases hK t' ht' with h | h
    · exact Or.inl h
    · exact Or.inr (h.congr e1 e3 (fun _ hp => hp))

/-- the head of `pending` is replayed -/
theorem GInv1.pend {s : State} {g : Ghost} {r : Request} {rest : List Request} (h0 : Inv0 ⟨s, r :: rest⟩)
    (h2 : Inv2 ⟨s, r :: rest⟩) (h1 : GInv1 ⟨s, r :: rest⟩ g) :
    UnackedOK (unackedAfterOut g.unacked r (handleOutgoing s r).2) (handleOutgoing s r).1 ∧
    ∀ t ∈ acceptedAfterOut g.accepted r (handleOutgoing s r).2, t ∈ g.done ∨ Held ⟨(handleOutgoing s r).1, rest⟩ t := by
  obtain ⟨hU, hK⟩ := h1
  have hw := h0.window; have hml := h0.maxLe; have hul := h0.upLe
  simp only [List.length_cons] at hw hml hul
  cases r with
  | publish p =>
    have hwf := h0.pendWF (.publish p) (by simp)
    simp only [PendOK] at hwf
    obtain ⟨hq, hp2, ha⟩ := hwf
    -- what was held is still held, the head of `pending` apart
    have hK' : ∀ t ∈ g.accepted, t ∈ g.done ∨ Held ⟨s, rest⟩ t ∨ t = p.tag := by
      intro t ht
      rcases hK t ht with h | ⟨i, x, hx, hxt⟩ | ⟨c, hc, hct⟩ | ⟨x, hx, hxt⟩
      · exact Or.inl h
      · exact Or.inr (Or.inl (Or.inl ⟨i, x, hx, hxt⟩))
      · exact Or.inr (Or.inl (Or.inr (Or.inl ⟨c, hc, hct⟩)))
      · rcases List.mem_cons.mp hx with hx | hx
        · cases hx; exact Or.inr (Or.inr hxt.symm)
        · exact Or.inr (Or.inl (Or.inr (Or.inr ⟨x, hx, hxt⟩)))
    by_cases hid : p.pkid = 0
    · obtain ⟨k1, k2, k3, k4⟩ := GInv1.publishFresh (pd' := rest) (A := p.tag :: g.accepted) (D := g.done) h0 hU
        p hq hid ha (by omega) h2.col_none
        (by
          intro t' ht'
          rcases List.mem_cons.mp ht' with rfl | ht'
          · exact Or.inr (Or.inr rfl)
          · exact hK' t' ht')
      refine ⟨by simpa [unackedAfterOut] using k1, ?_⟩
      intro t' ht'
      apply k2
      rcases k4 with ⟨q', hq', hq1, hq2⟩ | hq'
      · rw [hq'] at ht'
        simp only [acceptedAfterOut] at ht'
        rw [hq1, hq2] at ht'
        simpa [hq, hid] using ht'
      · rw [hq'] at ht'
        simpa [acceptedAfterOut, hq, hid] using ht'
    · rw [eff_publish_replay s p ha hq hid]
      obtain ⟨k1, k2, k3, k4⟩ := GInv1.publishWithId (pd' := rest) (A := g.accepted) (D := g.done) h0 hU p hq hp2 (by omega)
        (fun hb => absurd hb h2.head_free) hK'
      refine ⟨by simpa [unackedAfterOut] using k1, ?_⟩
      intro t' ht'
      apply k2
      have hid' : (p.pkid == 0) = false := by simpa using hid
      rcases k4 with hq' | hq'
      · rw [hq'] at ht'
        simpa [acceptedAfterOut, hq, hid'] using ht'
      · rw [hq'] at ht'
        simpa [acceptedAfterOut, hq, hid'] using ht'
  | pubrel i =>
    have hwf := h0.pendWF (.pubrel i) (by simp)
    simp only [PendOK] at hwf
    have hlen := h0.sinv.lenRel
    simp only at hlen
    rw [eff_pubrel_replay s i (by omega) (by omega) (by omega)]
    refine ⟨hU.congr rfl, ?_⟩
    intro t ht
    simp only [acceptedAfterOut] at ht
    rcases hK t ht with h | h
    · exact Or.inl h
    · refine Or.inr (h.congr rfl rfl ?_)
      intro x hx
      rcases List.mem_cons.mp hx with hx | hx
      · cases hx
      · exact hx
  | subscribe n => exact absurd (h0.pendWF (.subscribe n) (by simp)) (by simp [PendOK])
  | unsubscribe => exact absurd (h0.pendWF .unsubscribe (by simp)) (by simp [PendOK])
  | pingreq => exact absurd (h0.pendWF .pingreq (by simp)) (by simp [PendOK])
  | disconnect => exact absurd (h0.pendWF .disconnect (by simp)) (by simp [PendOK])
  | puback j => exact absurd (h0.pendWF (.puback j) (by simp)) (by simp [PendOK])
  | pubrec j => exact absurd (h0.pendWF (.pubrec j) (by simp)) (by simp [PendOK])
  | other => exact absurd (h0.pendWF .other (by simp)) (by simp [PendOK])

/-- an id has just been freed in `s2` (whose parked publish is that of `s0`): a publish parked on
    it is stored and goes to the wire -/
theorem GInv1.release {s0 s2 : State} {pd : List Request} {U : List (Nat × Nat)} {A D : List Nat} {i : Nat}
    (hcol : s2.collision = s0.collision) (hU : UnackedOK U s2) (hK : ∀ t ∈ A, t ∈ D ∨ Held ⟨s2, pd⟩ t)
    (hfree : s2.outgoingPub[i]? = some none) (hlo : i < s2.outgoingOrder.length)
    (hq : ∀ c, s0.collision = some c → c.qos ≠ 0)
    {res : State × Outcome} (he : ReleaseEff s0 i s2.core res) :
    UnackedOK (relPub U res.2) res.1 ∧ ∀ t ∈ A, t ∈ D ∨ Held ⟨res.1, pd⟩ t := by
  cases he with
  | plain s' hn hc =>
    obtain ⟨e1, e2, e3, e4, e5, e6⟩ := core_eqs hc
    refine ⟨by simpa [relPub] using hU.congr e1 e5 e6, ?_⟩
    intro t ht
    rcases hK t ht with h | h
    · exact Or.inl h
    · exact Or.inr (h.congr e1 e4 (fun _ hp => hp))
  | released s' c hc' hci hc =>
    subst hci
    have e1 : s'.outgoingPub = s2.outgoingPub.set c.pkid (some c) := congrArg Core.pub hc
    have hlt := getElem?_lt_of_some hfree
    refine ⟨by simpa [relPub, hq c hc'] using hU.store c hfree hlo e1 (congrArg Core.ord hc) (congrArg Core.cnt hc), ?_⟩
    intro t ht
    rcases hK t ht with h | ⟨j, y, hy, hyt⟩ | ⟨c', hc'', hct⟩ | h3
    · exact Or.inl h
    · refine Or.inr (Or.inl ⟨j, y, ?_, hyt⟩)
      simp only [e1, List.getElem?_set]
      split
      · rename_i hj; subst hj; rw [hfree] at hy; simp at hy
      · exact hy
    · simp only at hc''
      rw [hcol, hc'] at hc''; cases hc''
      refine Or.inr (Or.inl ⟨c.pkid, c, ?_, hct⟩)
      simp [e1, hlt]
    · exact Or.inr (Or.inr (Or.inr h3))

/-- slot `i` of `s0` is freed by an acknowledgement (PUBACK, or a refused PUBREC) -/
theorem GInv1.acked {s0 : State} {pd : List Request} {U : List (Nat × Nat)} {A D : List Nat} {i : Nat} {x : Pub}
    (hs0 : SInv s0) (hU0 : UnackedOK U s0) (hK0 : ∀ t ∈ A, t ∈ D ∨ Held ⟨s0, pd⟩ t)
    (hx : s0.outgoingPub[i]? = some (some x)) {res : State × Outcome}
    (he : ReleaseEff s0 i { s0.core with pub := s0.outgoingPub.set i none, inf := s0.inflight - 1 } res) :
    alookup U i = some x.tag ∧ UnackedOK (relPub (aerase U i) res.2) res.1 ∧
    ∀ t ∈ A, t ∈ x.tag :: D ∨ Held ⟨res.1, pd⟩ t := by
  have hlt := getElem?_lt_of_some hx
  let s2 : State := { s0 with outgoingPub := s0.outgoingPub.set i none, inflight := s0.inflight - 1 }
  obtain ⟨hf, hl⟩ := hU0.free (s' := s2) i x hx rfl
  have hK2 : ∀ t ∈ A, t ∈ x.tag :: D ∨ Held ⟨s2, pd⟩ t := by
    intro t ht
    rcases hK0 t ht with h' | ⟨j, y, hy, hyt⟩ | ⟨c', hc', hct⟩ | h3
    · exact Or.inl (List.mem_cons_of_mem _ h')
    · by_cases hij : i = j
      · subst hij; rw [hx] at hy; cases hy
        exact Or.inl (by rw [hyt]; exact List.mem_cons_self)
      · refine Or.inr (Or.inl ⟨j, y, ?_, hyt⟩)
        simp only [s2, List.getElem?_set, hij, if_false]; exact hy
    · exact Or.inr (Or.inr (Or.inl ⟨c', hc', hct⟩))
    · exact Or.inr (Or.inr (Or.inr h3))
  have hlo : i < s2.outgoingOrder.length := by
    have := hs0.lenOrd; have := hs0.lenPub; simp only [s2]; omega
  have := GInv1.release (s0 := s0) (s2 := s2) (pd := pd) (i := i) rfl hf hK2 (by simp [s2, hlt]) hlo hs0.colQos he
  exact ⟨hl, this.1, this.2⟩

/-- an incoming packet -/
theorem GInv1.incoming {s : State} {pd : List Request} {g : Ghost} (h0 : Inv0 ⟨s, pd⟩) (h2 : Inv2 ⟨s, pd⟩)
    (h1 : GInv1 ⟨s, pd⟩ g) (p : Incoming) :
    UnackedOK (relPub (unackedAfterIn g.unacked p) (handleIncoming s p).2) (handleIncoming s p).1 ∧
    ∀ t ∈ g.accepted, t ∈ doneAfterIn g.done g.unacked p ∨ Held ⟨(handleIncoming s p).1, pd⟩ t := by
  obtain ⟨hU, hK⟩ := h1
  have hs0 := h0.sinv.pushEv (.incoming p)
  have hU0 : UnackedOK g.unacked (s.pushEv (.incoming p)) := hU.congr rfl
  have hK0 : ∀ t ∈ g.accepted, t ∈ g.done ∨ Held ⟨s.pushEv (.incoming p), pd⟩ t := by
    intro t ht
    rcases hK t ht with h | h
    · exact Or.inl h
    · exact Or.inr (h.congr rfl rfl (fun _ hp => hp))
  have hdisj : ∀ i, relContains (s.pushEv (.incoming p)) i = true → occAt (s.pushEv (.incoming p)) i = false := by
    intro i hi
    cases ho : occAt (s.pushEv (.incoming p)) i with
    | false => rfl
    | true =>
      have := h2.disj i ho
      have hi' : relContains s i = true := hi
      rw [hi'] at this; cases this
  simp only at hs0
  by_cases hack : ∃ i r, p = .puback i r
  · obtain ⟨i, r, rfl⟩ := hack
    rw [handleIncoming_puback]
    generalize s.pushEv (.incoming (.puback i r)) = s0 at hs0 hU0 hK0
    simp only [unackedAfterIn, doneAfterIn, ackedId]
    have he := handlePuback_eff hs0 i
    generalize handlePuback s0 i = res at he ⊢
    cases he with
    | unsol s' h hc =>
      obtain ⟨e1, e2, e3, e4, e5, e6⟩ := core_eqs hc
      have hab := hU0.absent i h
      rw [aerase_absent _ _ hab, hab]
      refine ⟨by simpa [relPub] using hU0.congr e1 e5 e6, ?_⟩
      intro t ht
      rcases hK0 t ht with h' | h'
      · exact Or.inl h'
      · exact Or.inr (h'.congr e1 e4 (fun _ hp => hp))
    | acked x _ hx he =>
      obtain ⟨k1, k2, k3⟩ := GInv1.acked hs0 hU0 hK0 hx he
      rw [k1]; exact ⟨k2, k3⟩
  · by_cases hrec : ∃ i r, p = .pubrec i r
    · obtain ⟨i, r, rfl⟩ := hrec
      rw [handleIncoming_pubrec]
      generalize s.pushEv (.incoming (.pubrec i r)) = s0 at hs0 hU0 hK0
      simp only [unackedAfterIn, doneAfterIn, ackedId]
      have he := handlePubrec_eff hs0 i r
      generalize handlePubrec s0 i r = res at he ⊢
      cases he with
      | unsol s' h hc =>
        obtain ⟨e1, e2, e3, e4, e5, e6⟩ := core_eqs hc
        have hab := hU0.absent i h
        rw [aerase_absent _ _ hab, hab]
        refine ⟨by simpa [relPub] using hU0.congr e1 e5 e6, ?_⟩
        intro t ht
        rcases hK0 t ht with h' | h'
        · exact Or.inl h'
        · exact Or.inr (h'.congr e1 e4 (fun _ hp => hp))
      | failed x _ hx hv he =>
        obtain ⟨k1, k2, k3⟩ := GInv1.acked hs0 hU0 hK0 hx he
        rw [k1]; exact ⟨k2, k3⟩
      | moved s' x h hv hi hc =>
        have e1 : s'.outgoingPub = s0.outgoingPub.set i none := congrArg Core.pub hc
        have e4 : s'.collision = s0.collision := congrArg Core.col hc
        obtain ⟨hf, hl⟩ := hU0.free i x h e1 (congrArg Core.ord hc) (congrArg Core.cnt hc)
        rw [hl]
        refine ⟨by simpa [relPub] using hf, ?_⟩
        intro t ht
        rcases hK0 t ht with h' | h'
        · exact Or.inl (List.mem_cons_of_mem _ h')
        · rcases h' with ⟨j, y, hy, hyt⟩ | ⟨c', hc', hct⟩ | h3
          · by_cases hij : i = j
            · subst hij; rw [h] at hy; cases hy
              exact Or.inl (by rw [hyt]; exact List.mem_cons_self)
            · refine Or.inr (Or.inl ⟨j, y, ?_, hyt⟩)
              simp only [e1, List.getElem?_set, hij, if_false]; exact hy
          · exact Or.inr (Or.inr (Or.inl ⟨c', by rw [e4]; exact hc', hct⟩))
          · exact Or.inr (Or.inr (Or.inr h3))
    · by_cases hcomp : ∃ i r, p = .pubcomp i r
      · obtain ⟨i, r, rfl⟩ := hcomp
        rw [handleIncoming_pubcomp]
        generalize s.pushEv (.incoming (.pubcomp i r)) = s0 at hs0 hU0 hK0 hdisj
        simp only [unackedAfterIn, doneAfterIn, ackedId]
        have he := handlePubcomp_eff hs0 i
        generalize handlePubcomp s0 i = res at he ⊢
        cases he with
        | unsol s' h hc =>
          obtain ⟨e1, e2, e3, e4, e5, e6⟩ := core_eqs hc
          refine ⟨by simpa [relPub] using hU0.congr e1 e5 e6, ?_⟩
          intro t ht
          rcases hK0 t ht with h' | h'
          · exact Or.inl h'
          · exact Or.inr (h'.congr e1 e4 (fun _ hp => hp))
        | done _ hx he =>
          -- the id awaited its PUBCOMP, so no publish is stored under it
          have hbit := (relContains_eq s0 i).mp hx
          have hfree : s0.outgoingPub[i]? = some none := by
            have hlt := getElem?_lt_of_some hbit
            have hl1 := hs0.lenPub; have hl2 := hs0.lenRel
            rcases (occAt_false_iff s0 i).mp (hdisj i hx) with h' | h'
            · rw [List.getElem?_eq_none_iff] at h'; omega
            · exact h'
          let s2 : State := { s0 with outgoingRel := s0.outgoingRel.set i false, inflight := s0.inflight - 1 }
          have hK2 : ∀ t ∈ g.accepted, t ∈ g.done ∨ Held ⟨s2, pd⟩ t := by
            intro t ht
            rcases hK0 t ht with h' | h'
            · exact Or.inl h'
            · exact Or.inr (h'.congr rfl rfl (fun _ hp => hp))
          have hlo : i < s2.outgoingOrder.length := by
            have := hs0.lenOrd; have := hs0.lenRel; have := getElem?_lt_of_some hbit; simp only [s2]; omega
          exact GInv1.release (s0 := s0) (s2 := s2) (pd := pd) (i := i) rfl (hU0.congr rfl) hK2 hfree hlo hs0.colQos he
      · have ho := otherIncoming_eff s p (fun i r h => hack ⟨i, r, h⟩) (fun i r h => hrec ⟨i, r, h⟩)
          (fun i r h => hcomp ⟨i, r, h⟩)
        obtain ⟨e1, e2, e3, e4, e5, e6⟩ := core_eqs ho.1
        have hid : ackedId p = none := by
          cases p <;> first | rfl | exact absurd ⟨_, _, rfl⟩ hack | exact absurd ⟨_, _, rfl⟩ hrec
        simp only [unackedAfterIn, doneAfterIn, hid]
        rw [relPub_not_publish _ _ ho.2.1]
        refine ⟨hU.congr e1 e5 e6, ?_⟩
        intro t ht
        rcases hK t ht with h' | h'
        · exact Or.inl h'
        · exact Or.inr (h'.congr e1 e4 (fun _ hp => hp))

theorem Held.fail {s : State} {pd : List Request} {t : Nat} (hs : SInv s) (h : Held ⟨s, pd⟩ t) :
    Held ⟨cleanState s, cleanRequests s ++ pd⟩ t := by
  rcases h with ⟨i, p, hp, ht⟩ | ⟨c, hc, ht⟩ | ⟨p, hp, ht⟩
  · refine Or.inr (Or.inr ⟨p, ?_, ht⟩)
    apply List.mem_append_left
    exact (mem_cleanRequests hs _).mpr (Or.inl ⟨p, rfl, List.mem_iff_getElem?.mpr ⟨i, hp⟩⟩)
  · refine Or.inr (Or.inr ⟨{ c with pkid := 0 }, ?_, ht⟩)
    apply List.mem_append_left
    exact (mem_cleanRequests hs _).mpr (Or.inr (Or.inr ⟨c, hc, rfl⟩))
  · exact Or.inr (Or.inr ⟨p, List.mem_append_right _ hp, ht⟩)

theorem Held.pending_tag {s : State} {pd : List Request} {t : Nat} (h : Held ⟨s, pd⟩ t) :
    t ∈ pubTags pd ∨ Held ⟨s, []⟩ t := by
  rcases h with ⟨i, p, hp, ht⟩ | ⟨c, hc, ht⟩ | ⟨p, hp, ht⟩
  · exact Or.inr (Or.inl ⟨i, p, hp, ht⟩)
  · exact Or.inr (Or.inr (Or.inl ⟨c, hc, ht⟩))
  · exact Or.inl ((mem_pubTags _ _).mpr ⟨p, hp, ht⟩)

/-- the ghost stays coupled to the tables -/
theorem GInv1.lstep {l : LState} {g : Ghost} (h0 : Inv0 l) (h2 : Inv2 l) (hg0 : GInv0 l g) (h1 : GInv1 l g) (op : LOp) :
    match (lstep l op).2 with
    | none => GInv1 (lstep l op).1 g
    | some o => GInv1 (lstep l op).1 (g.core o) := by
  obtain ⟨s, pd⟩ := l
  unfold Client.lstep
  cases op with
  | user u =>
    by_cases hc : (pd.isEmpty && selectEnabled s pd) = true
    · simp only [lop?, hc, if_true]
      have hpd : pd = [] := by
        simp only [Bool.and_eq_true, List.isEmpty_iff] at hc; exact hc.1
      subst hpd
      have hgt : selectEnabled s [] = true := by simpa using hc
      obtain ⟨k1, k2⟩ := h1.user h0 u hgt
      have hout : (sstepObs s (.out u.toRequest)).outcome = (handleOutgoing s u.toRequest).2 := by simp [sstepObs, mkObs]
      refine ⟨?_, ?_⟩
      · simp only [core_out, lpending, sstepSt, hout, stepOut_unacked]
        exact k1.congr rfl
      · simp only [core_out, lpending, sstepSt, hout, (stepOut_accepted _ _ _).1, (stepOut_accepted _ _ _).2]
        intro t ht
        rcases k2 t ht with h | h
        · exact Or.inl h
        · exact Or.inr (h.congr rfl rfl (fun _ hp => hp))
    · simp only [lop?, hc]
      exact h1
  | pend =>
    cases pd with
    | nil => exact h1
    | cons r rest =>
      by_cases hrd : pendingReady s (r :: rest) = true
      case neg => simp only [lop?, hrd]; exact h1
      simp only [lop?, hrd, if_true]
      obtain ⟨k1, k2⟩ := h1.pend h0 h2
      have hout : (sstepObs s (.out r)).outcome = (handleOutgoing s r).2 := by simp [sstepObs, mkObs]
      refine ⟨?_, ?_⟩
      · simp only [core_out, lpending, sstepSt, hout, stepOut_unacked]
        exact k1.congr rfl
      · simp only [core_out, lpending, sstepSt, hout, (stepOut_accepted _ _ _).1, (stepOut_accepted _ _ _).2, List.tail_cons]
        intro t ht
        rcases k2 t ht with h | h
        · exact Or.inl h
        · exact Or.inr (h.congr rfl rfl (fun _ hp => hp))
  | ping =>
    simp only [lop?]
    have hc := ping_core s
    obtain ⟨e1, e2, e3, e4, e5, e6⟩ := core_eqs hc
    obtain ⟨o1, o2⟩ := ping_outcome s ⟨0, 0, 0, none⟩
    have hout : (sstepObs s (.out .pingreq)).outcome = (handleOutgoing s .pingreq).2 := by simp [sstepObs, mkObs]
    obtain ⟨hU, hK⟩ := h1
    refine ⟨?_, ?_⟩
    · simp only [core_out, lpending, sstepSt, hout, stepOut_unacked, unackedAfterOut]
      exact hU.congr (by simp [drainEvents, e1]) (by simp [drainEvents, e5]) (by simp [drainEvents, e6])
    · simp only [core_out, lpending, sstepSt, hout, (stepOut_accepted _ _ _).1, (stepOut_accepted _ _ _).2]
      have : acceptedAfterOut g.accepted .pingreq (handleOutgoing s .pingreq).2 = g.accepted := by
        unfold acceptedAfterOut; rfl
      rw [this]
      intro t ht
      rcases hK t ht with h | h
      · exact Or.inl h
      · exact Or.inr (h.congr (by simp [drainEvents, e1]) (by simp [drainEvents, e4]) (fun _ hp => hp))
  | inc p =>
    simp only [lop?]
    obtain ⟨k1, k2⟩ := h1.incoming h0 h2 p
    have hout : (sstepObs s (.inc p)).outcome = (handleIncoming s p).2 := by simp [sstepObs, mkObs]
    refine ⟨?_, ?_⟩
    · simp only [core_inc, lpending, sstepSt, hout, released_unacked]
      exact k1.congr rfl
    · simp only [core_inc, lpending, sstepSt, hout, (released_done _ _ _).1, (released_done _ _ _).2]
      intro t ht
      rcases k2 t ht with h | h
      · exact Or.inl h
      · exact Or.inr (h.congr rfl rfl (fun _ hp => hp))
  | fail =>
    simp only [lop?]
    have hp := h0.sinv.cleanPanics
    have hst : sstepSt s .clean = cleanState s := by simp [sstepSt, hp]
    have hob : (sstepObs s .clean).cleaned = cleanRequests s := by simp [sstepObs, hp, mkObs]
    obtain ⟨hU, hK⟩ := h1
    refine ⟨?_, ?_⟩
    · simp only [core_clean g s hp, lpending, hst]
      exact UnackedOK.clean s
    · simp only [core_clean g s hp, lpending, hst, hob]
      intro t ht
      rcases hK t ht with h | h
      · exact Or.inl h
      · exact Or.inr (h.fail h0.sinv)
  | newSession =>
    simp only [lop?]
    obtain ⟨hU, hK⟩ := h1
    refine ⟨?_, ?_⟩
    · simp only [core_drop, lpending, sstepSt]; exact hU
    · simp only [core_drop, lpending, sstepSt]
      intro t ht
      rcases hK t ht with h | h
      · exact Or.inl (List.mem_append_right _ h)
      · rcases h.pending_tag with h' | h'
        · rw [hg0.pend]; exact Or.inl (List.mem_append_left _ h')
        · exact Or.inr h'

end Client
