/-
Coupling of the wire view `unacked` with `outgoing_pub` (`UnackedOK`): every publish on the wire
is recorded in the slot of its id and vice versa. Holds as long as no parked publish is released by
a PUBCOMP (#4 / #13), the one place where the code writes a publish without recording it.
-/
import Proofs.Lemmas.ClientEffects
namespace Client
open Client.Spec

/-! ### association lists -/

theorem alookup_append (U : List (Nat × Nat)) (k v j : Nat) :
    alookup (U ++ [(k, v)]) j = match alookup U j with
      | some x => some x
      | none => if k = j then some v else none := by
  induction U with
  | nil => simp [alookup]
  | cons a U ih =>
    obtain ⟨a1, a2⟩ := a
    simp only [List.cons_append, alookup]
    split
    · rfl
    · exact ih

theorem alookup_none_iff (U : List (Nat × Nat)) (j : Nat) : alookup U j = none ↔ j ∉ U.map (·.1) := by
  induction U with
  | nil => simp [alookup]
  | cons a U ih =>
    obtain ⟨a1, a2⟩ := a
    simp only [alookup, List.map_cons, List.mem_cons]
    split
    · rename_i h; simp [h]
    · rename_i h
      rw [ih]
      constructor
      · intro h1 h2; rcases h2 with h2 | h2
        · exact h h2.symm
        · exact h1 h2
      · intro h1 h2; exact h1 (Or.inr h2)

theorem alookup_aerase (U : List (Nat × Nat)) (i j : Nat) (hnd : (U.map (·.1)).Nodup) :
    alookup (aerase U i) j = if i = j then none else alookup U j := by
  induction U with
  | nil => simp [alookup, aerase]
  | cons a U ih =>
    obtain ⟨a1, a2⟩ := a
    have hnd' := List.nodup_cons.mp hnd
    simp only [aerase]
    split
    · rename_i h
      subst h
      split
      · rename_i h2; subst h2
        exact (alookup_none_iff U a1).mpr hnd'.1
      · rename_i h2
        simp [alookup, h2]
    · rename_i h
      simp only [alookup]
      split
      · rename_i h2; subst h2
        simp [Ne.symm h]
      · exact ih hnd'.2

theorem keys_aerase (U : List (Nat × Nat)) (i : Nat) : ∀ k, k ∈ (aerase U i).map (·.1) → k ∈ U.map (·.1) := by
  induction U with
  | nil => simp [aerase]
  | cons a U ih =>
    obtain ⟨a1, a2⟩ := a
    intro k hk
    simp only [aerase] at hk
    split at hk
    · simp only [List.map_cons, List.mem_cons]; exact Or.inr hk
    · simp only [List.map_cons, List.mem_cons] at hk ⊢
      rcases hk with hk | hk
      · exact Or.inl hk
      · exact Or.inr (ih k hk)

theorem nodup_aerase (U : List (Nat × Nat)) (i : Nat) (hnd : (U.map (·.1)).Nodup) : ((aerase U i).map (·.1)).Nodup := by
  induction U with
  | nil => simp [aerase]
  | cons a U ih =>
    obtain ⟨a1, a2⟩ := a
    have hnd' := List.nodup_cons.mp hnd
    simp only [aerase]
    split
    · exact hnd'.2
    · simp only [List.map_cons, List.nodup_cons]
      exact ⟨fun h => hnd'.1 (keys_aerase U i a1 h), ih hnd'.2⟩

theorem length_aerase (U : List (Nat × Nat)) (i : Nat) (h : alookup U i ≠ none) :
    (aerase U i).length + 1 = U.length := by
  induction U with
  | nil => simp [alookup] at h
  | cons a U ih =>
    obtain ⟨a1, a2⟩ := a
    simp only [aerase]
    split
    · simp
    · rename_i hne
      simp only [alookup, hne, if_false] at h
      simp [ih h]

theorem aerase_absent (U : List (Nat × Nat)) (i : Nat) (h : alookup U i = none) : aerase U i = U := by
  induction U with
  | nil => rfl
  | cons a U ih =>
    obtain ⟨a1, a2⟩ := a
    simp only [alookup] at h
    split at h
    · simp at h
    · rename_i hne
      simp [aerase, hne, ih h]

/-! ### `unacked` ↔ `outgoing_pub` -/

theorem slotTag_congr {s s' : State} (h : s'.outgoingPub = s.outgoingPub) (i : Nat) : slotTag s' i = slotTag s i := by
  unfold slotTag; rw [h]

structure UnackedOK (U : List (Nat × Nat)) (s : State) : Prop where
  look : ∀ i : Nat, alookup U i = slotTag s i
  nd : (U.map (·.1)).Nodup
  len : U.length = occ s.outgoingPub

theorem UnackedOK.congr {U : List (Nat × Nat)} {s s' : State} (h : UnackedOK U s) (he : s'.outgoingPub = s.outgoingPub) :
    UnackedOK U s' :=
  ⟨fun i => by rw [slotTag_congr he]; exact h.look i, h.nd, by rw [he]; exact h.len⟩

theorem slotTag_set (s s' : State) (i : Nat) (v : Option Pub) (he : s'.outgoingPub = s.outgoingPub.set i v)
    (hi : i < s.outgoingPub.length) (j : Nat) :
    slotTag s' j = if i = j then v.map (·.tag) else slotTag s j := by
  unfold slotTag
  rw [he, List.getElem?_set]
  by_cases hij : i = j
  · simp only [hij, if_true]
    subst hij
    simp only [hi, if_true]
    cases v <;> rfl
  · simp only [hij, if_false]

/-- a publish goes to the wire and into the empty slot of its id -/
theorem UnackedOK.store {U : List (Nat × Nat)} {s s' : State} (h : UnackedOK U s) (p : Pub)
    (hslot : s.outgoingPub[p.pkid]? = some none)
    (he : s'.outgoingPub = s.outgoingPub.set p.pkid (some p)) :
    UnackedOK (U ++ [(p.pkid, p.tag)]) s' := by
  have hi := getElem?_lt_of_some hslot
  have hnone : alookup U p.pkid = none := by rw [h.look]; simp [slotTag, hslot]
  refine ⟨?_, ?_, ?_⟩
  · intro j
    rw [alookup_append, slotTag_set s s' p.pkid (some p) he hi j, h.look j]
    by_cases hj : p.pkid = j
    · subst hj
      simp [slotTag, hslot]
    · simp only [hj, if_false]
      cases slotTag s j <;> rfl
  · rw [List.map_append, List.nodup_append]
    refine ⟨h.nd, by simp, ?_⟩
    intro a ha b hb hab
    simp at hb; subst hb; subst hab
    exact (alookup_none_iff U _).mp hnone ha
  · rw [he, occ_set_some _ _ _ hslot, List.length_append, h.len]; rfl

/-- an acknowledgement frees the slot and ends the wire entry -/
theorem UnackedOK.free {U : List (Nat × Nat)} {s s' : State} (h : UnackedOK U s) (i : Nat) (x : Pub)
    (hslot : s.outgoingPub[i]? = some (some x))
    (he : s'.outgoingPub = s.outgoingPub.set i none) :
    UnackedOK (aerase U i) s' ∧ alookup U i = some x.tag := by
  have hi := getElem?_lt_of_some hslot
  have hsome : alookup U i = some x.tag := by rw [h.look]; simp [slotTag, hslot]
  refine ⟨⟨?_, nodup_aerase U i h.nd, ?_⟩, hsome⟩
  · intro j
    rw [alookup_aerase U i j h.nd, slotTag_set s s' i none he hi j, h.look j]
    rfl
  · have h1 := length_aerase U i (by rw [hsome]; simp)
    have h2 := occ_set_none _ _ _ hslot
    rw [he]; have := h.len; omega

theorem UnackedOK.absent {U : List (Nat × Nat)} {s : State} (h : UnackedOK U s) (i : Nat)
    (hslot : s.outgoingPub[i]? = none ∨ s.outgoingPub[i]? = some none) : alookup U i = none := by
  rw [h.look]; unfold slotTag
  rcases hslot with h' | h' <;> rw [h']

theorem UnackedOK.clean (s : State) : UnackedOK [] (cleanState s) := by
  refine ⟨?_, by simp, by simp [cleanState, occ_map_none]⟩
  intro i
  simp only [alookup, slotTag, cleanState, List.getElem?_map]
  cases s.outgoingPub[i]? <;> rfl

theorem UnackedOK.new (ver : Version) (max : Nat) (m : Bool) : UnackedOK [] (State.new ver max m) := by
  refine ⟨?_, by simp, by simp [State.new, occ_replicate]⟩
  intro i
  simp only [alookup, slotTag, State.new, List.getElem?_replicate]
  by_cases h : i < max + 1 <;> simp [h]


/-! ### projections of the ghost step: `unacked`, `accepted`, `done` -/

def relPub (U : List (Nat × Nat)) (o : Outcome) : List (Nat × Nat) :=
  match o with
  | .ok (some (.publish q)) => if q.qos = 0 then U else U ++ [(q.pkid, q.tag)]
  | _ => U

def unackedAfterOut (U : List (Nat × Nat)) (r : Request) (o : Outcome) : List (Nat × Nat) :=
  match r with
  | .publish _ => relPub U o
  | _ => U

theorem stepOut_unacked (g : Ghost) (r : Request) (o : Outcome) :
    (g.stepOut r o).unacked = unackedAfterOut g.unacked r o := by
  unfold Ghost.stepOut unackedAfterOut relPub
  cases r <;> simp only <;> (repeat' split) <;> simp_all

def ackedId : Incoming → Option Nat
  | .puback i _ => some i
  | .pubrec i _ => some i
  | _ => none

def unackedAfterIn (U : List (Nat × Nat)) (p : Incoming) : List (Nat × Nat) :=
  match ackedId p with
  | some i => aerase U i
  | none => U

def doneAfterIn (D : List Nat) (U : List (Nat × Nat)) (p : Incoming) : List Nat :=
  match ackedId p with
  | some i => (match alookup U i with
      | some t => t :: D
      | none => D)
  | none => D

theorem released_unacked (g : Ghost) (p : Incoming) (o : Outcome) :
    ((g.stepIn p).released o).unacked = relPub (unackedAfterIn g.unacked p) o := by
  have h1 : ∀ g' : Ghost, (g'.released o).unacked = relPub g'.unacked o := by
    intro g'; unfold Ghost.released relPub; (repeat' split) <;> simp_all
  rw [h1]
  congr 1
  unfold Ghost.stepIn unackedAfterIn ackedId
  cases p <;> simp only <;> (repeat' split) <;> simp_all [aerase_absent]

theorem released_done (g : Ghost) (p : Incoming) (o : Outcome) :
    ((g.stepIn p).released o).done = doneAfterIn g.done g.unacked p ∧
    ((g.stepIn p).released o).accepted = g.accepted := by
  have h1 : ∀ g' : Ghost, (g'.released o).done = g'.done ∧ (g'.released o).accepted = g'.accepted := by
    intro g'; unfold Ghost.released; (repeat' split) <;> simp
  rw [(h1 _).1, (h1 _).2]
  unfold Ghost.stepIn doneAfterIn ackedId
  cases p <;> simp only <;> (repeat' split) <;> simp_all

def acceptedAfterOut (A : List Nat) (r : Request) (o : Outcome) : List Nat :=
  match r, o with
  | .publish p, .ok (some (.publish q)) => if q.qos = 0 then A else if p.pkid == 0 then q.tag :: A else A
  | .publish p, .ok none => if p.qos = 0 then A else if p.pkid == 0 then p.tag :: A else A
  | _, _ => A

theorem stepOut_accepted (g : Ghost) (r : Request) (o : Outcome) :
    (g.stepOut r o).accepted = acceptedAfterOut g.accepted r o ∧ (g.stepOut r o).done = g.done := by
  unfold Ghost.stepOut acceptedAfterOut
  cases r <;> simp only <;> (repeat' split) <;> simp_all

/-! ### what the state holds for retransmission -/

/-- tag `t` is held: in a slot of `outgoing_pub`, in the collision slot, or in `pending` -/
def Held (l : LState) (t : Nat) : Prop :=
  (∃ (i : Nat) (p : Pub), l.st.outgoingPub[i]? = some (some p) ∧ p.tag = t) ∨
  (∃ c : Pub, l.st.collision = some c ∧ c.tag = t) ∨
  (∃ p : Pub, .publish p ∈ l.pending ∧ p.tag = t)

structure GInv1 (l : LState) (g : Ghost) : Prop where
  unacked : UnackedOK g.unacked l.st
  kept : ∀ t ∈ g.accepted, t ∈ g.done ∨ Held l t

theorem GInv1.new (ver : Version) (max : Nat) (m : Bool) : GInv1 (LState.new ver max m) (Ghost.init ver max m) :=
  ⟨UnackedOK.new ver max m, by intro t ht; simp [Ghost.init] at ht⟩

theorem GInv1.of_core {l : LState} {g : Ghost} {o : Obs} (h : GInv1 l (g.core o)) : GInv1 l (g.step o) :=
  ⟨h.unacked, h.kept⟩

theorem Held.mono {l l' : LState} {t : Nat} (h : Held l t)
    (h1 : ∀ (i : Nat) (p : Pub), l.st.outgoingPub[i]? = some (some p) → p.tag = t → Held l' t)
    (h2 : ∀ c : Pub, l.st.collision = some c → c.tag = t → Held l' t)
    (h3 : ∀ p : Pub, .publish p ∈ l.pending → p.tag = t → Held l' t) : Held l' t := by
  rcases h with ⟨i, p, hp, ht⟩ | ⟨c, hc, ht⟩ | ⟨p, hp, ht⟩
  · exact h1 i p hp ht
  · exact h2 c hc ht
  · exact h3 p hp ht

theorem Held.congr {l l' : LState} {t : Nat} (h : Held l t) (e1 : l'.st.outgoingPub = l.st.outgoingPub)
    (e2 : l'.st.collision = l.st.collision) (e3 : ∀ p : Pub, .publish p ∈ l.pending → .publish p ∈ l'.pending) :
    Held l' t := by
  rcases h with ⟨i, p, hp, ht⟩ | ⟨c, hc, ht⟩ | ⟨p, hp, ht⟩
  · exact Or.inl ⟨i, p, by rw [e1]; exact hp, ht⟩
  · exact Or.inr (Or.inl ⟨c, by rw [e2]; exact hc, ht⟩)
  · exact Or.inr (Or.inr ⟨p, e3 p hp, ht⟩)


theorem nextPkidSt_core (s : State) : (nextPkidSt s).core = { s.core with lastPkid := (nextPkidSt s).lastPkid } := by
  unfold nextPkidSt; split <;> rfl

theorem user_nonpublish_core (s : State) (u : UserReq) (hu : ∀ q t, u ≠ .publish q t) :
    (handleOutgoing s u.toRequest).1.core = { s.core with lastPkid := (handleOutgoing s u.toRequest).1.lastPkid } ∧
    (∀ q, (handleOutgoing s u.toRequest).2 ≠ .ok (some (.publish q))) ∧ (handleOutgoing s u.toRequest).2 ≠ .ok none := by
  cases u with
  | publish q t => exact absurd rfl (hu q t)
  | subscribe n =>
    simp only [UserReq.toRequest, handleOutgoing, outgoingSubscribe]
    split
    · exact ⟨rfl, by simp, by simp⟩
    · split
      · exact ⟨rfl, by simp, by simp⟩
      · exact ⟨by rw [core_pushOut, nextPkidSt_core]; rfl, by simp, by simp⟩
  | unsubscribe =>
    simp only [UserReq.toRequest, handleOutgoing, outgoingUnsubscribe]
    split
    · exact ⟨rfl, by simp, by simp⟩
    · exact ⟨by rw [core_pushOut, nextPkidSt_core]; rfl, by simp, by simp⟩
  | disconnect => exact ⟨rfl, by simp [UserReq.toRequest, handleOutgoing, outgoingDisconnect], by simp [UserReq.toRequest, handleOutgoing, outgoingDisconnect]⟩
  | puback i => exact ⟨rfl, by simp [UserReq.toRequest, handleOutgoing, outgoingPuback], by simp [UserReq.toRequest, handleOutgoing, outgoingPuback]⟩
  | pubrec i => exact ⟨rfl, by simp [UserReq.toRequest, handleOutgoing, outgoingPubrec], by simp [UserReq.toRequest, handleOutgoing, outgoingPubrec]⟩

theorem relPub_not_publish (U : List (Nat × Nat)) (o : Outcome) (h : ∀ q, o ≠ .ok (some (.publish q))) : relPub U o = U := by
  unfold relPub
  split
  · rename_i q; exact absurd rfl (h q)
  · rfl

theorem acceptedAfterOut_other (A : List Nat) (r : Request) (o : Outcome)
    (h1 : ∀ q, o ≠ .ok (some (.publish q))) (h2 : o ≠ .ok none) : acceptedAfterOut A r o = A := by
  unfold acceptedAfterOut
  split
  · rename_i q; exact absurd rfl (h1 q)
  · exact absurd rfl h2
  · rfl

theorem ping_core (s : State) : (handleOutgoing s .pingreq).1.core = s.core := by
  obtain ⟨f1, f2, f3, f4, f5, f6, f7, f8, f9, f10, f11⟩ := ping_frame s
  simp [State.core, f1, f2, f8, f9, f10, f11]

/-- a user request taken through the open gate -/
theorem GInv1.user {s : State} {g : Ghost} (h0 : Inv0 ⟨s, []⟩) (h1 : GInv1 ⟨s, []⟩ g) (u : UserReq)
    (hg : selectEnabled s [] = true) :
    UnackedOK (unackedAfterOut g.unacked u.toRequest (handleOutgoing s u.toRequest).2) (handleOutgoing s u.toRequest).1 ∧
    ∀ t ∈ acceptedAfterOut g.accepted u.toRequest (handleOutgoing s u.toRequest).2,
      t ∈ g.done ∨ Held ⟨(handleOutgoing s u.toRequest).1, []⟩ t := by
  have hcol : s.collision = none := by
    simp [selectEnabled] at hg
    cases hc : s.collision <;> simp_all
  obtain ⟨hU, hK⟩ := h1
  by_cases hu : ∃ q t, u = .publish q t
  · obtain ⟨q, t, rfl⟩ := hu
    simp only [UserReq.toRequest]
    by_cases hq : q = 0
    · subst hq
      rw [eff_publish_qos0]
      refine ⟨by simp only [unackedAfterOut, relPub, if_true]; exact hU.congr rfl, ?_⟩
      intro t' ht'
      simp only [acceptedAfterOut, if_true] at ht'
      rcases hK t' ht' with h | h
      · exact Or.inl h
      · exact Or.inr (h.congr rfl rfl (fun _ hp => hp))
    · obtain ⟨hp, hv1, hv2, hv3⟩ := h0.nextPkid
      rw [eff_publish_fresh s q t hq hp]
      have hn := h0.nextPkidSt
      have hcore := nextPkidSt_core s
      have e1 : (nextPkidSt s).outgoingPub = s.outgoingPub := congrArg Core.pub hcore
      have e2 : (nextPkidSt s).inflight = s.inflight := congrArg Core.inf hcore
      have e3 : (nextPkidSt s).collision = s.collision := congrArg Core.col hcore
      have hup := h0.upLe; have hml := h0.maxLe
      have hgate : s.inflight < s.maxInflight := by simp [selectEnabled] at hg; exact hg.1
      simp only at hup hml
      have hmx : (nextPkidSt s).maxInflight = s.maxInflight := (nextPkidSt_frame s).2.1
      rcases hn.slot_cases (nextPkidVal s) (by rw [hmx]; exact hv2) with hs | ⟨x, hs⟩
      · rw [eff_publishWithId_store _ _ rfl hs (by rw [e2]; omega)]
        constructor
        · simp only [unackedAfterOut, relPub, hq, if_false]
          exact (hU.congr (s' := nextPkidSt s) e1).store ⟨q, nextPkidVal s, t, none⟩ hs rfl
        · intro t' ht'
          simp only [acceptedAfterOut, hq, if_false, beq_self_eq_true, if_true, List.mem_cons] at ht'
          have hlt := getElem?_lt_of_some hs
          rcases ht' with rfl | ht'
          · refine Or.inr (Or.inl ⟨nextPkidVal s, ⟨q, nextPkidVal s, t', none⟩, ?_, rfl⟩)
            simp [State.pushOut, State.pushEv, hlt]
          · rcases hK t' ht' with h | h
            · exact Or.inl h
            · refine Or.inr (h.mono ?_ ?_ ?_)
              · intro i p hp ht
                refine Or.inl ⟨i, p, ?_, ht⟩
                simp only [State.pushOut, State.pushEv, List.getElem?_set]
                rw [e1]
                split
                · rename_i hi; subst hi; rw [e1] at hs; rw [hs] at hp; simp at hp
                · exact hp
              · intro c hc; rw [hcol] at hc; simp at hc
              · intro p hp; simp at hp
      · rw [eff_publishWithId_park _ _ x hs]
        constructor
        · simp only [unackedAfterOut, relPub]
          exact hU.congr e1
        · intro t' ht'
          simp only [acceptedAfterOut, hq, if_false, beq_self_eq_true, if_true, List.mem_cons] at ht'
          rcases ht' with rfl | ht'
          · exact Or.inr (Or.inr (Or.inl ⟨⟨q, nextPkidVal s, t', none⟩, rfl, rfl⟩))
          · rcases hK t' ht' with h | h
            · exact Or.inl h
            · refine Or.inr (h.mono ?_ ?_ ?_)
              · intro i p hp ht
                exact Or.inl ⟨i, p, by simpa [State.pushOut, State.pushEv, e1] using hp, ht⟩
              · intro c hc; rw [hcol] at hc; simp at hc
              · intro p hp; simp at hp
  · have hu' : ∀ q t, u ≠ .publish q t := fun q t h => hu ⟨q, t, h⟩
    obtain ⟨c1, c2, c3⟩ := user_nonpublish_core s u hu'
    have e1 : (handleOutgoing s u.toRequest).1.outgoingPub = s.outgoingPub := congrArg Core.pub c1
    have e3 : (handleOutgoing s u.toRequest).1.collision = s.collision := congrArg Core.col c1
    have hup : unackedAfterOut g.unacked u.toRequest (handleOutgoing s u.toRequest).2 = g.unacked := by
      cases u <;> first | rfl | exact absurd rfl (hu' _ _)
    rw [hup, acceptedAfterOut_other _ _ _ c2 c3]
    refine ⟨hU.congr e1, ?_⟩
    intro t' ht'
    rcases hK t' ht' with h | h
    · exact Or.inl h
    · exact Or.inr (h.congr e1 e3 (fun _ hp => hp))


/-- the head of `pending` is replayed -/
theorem GInv1.pend {s : State} {g : Ghost} {r : Request} {rest : List Request} (h0 : Inv0 ⟨s, r :: rest⟩)
    (h1 : GInv1 ⟨s, r :: rest⟩ g) :
    UnackedOK (unackedAfterOut g.unacked r (handleOutgoing s r).2) (handleOutgoing s r).1 ∧
    ∀ t ∈ acceptedAfterOut g.accepted r (handleOutgoing s r).2, t ∈ g.done ∨ Held ⟨(handleOutgoing s r).1, rest⟩ t := by
  obtain ⟨hU, hK⟩ := h1
  cases r with
  | publish p =>
    obtain ⟨hq, hp1, hp2, ha, hslot, hinf, hne⟩ := h0.pend_publish
    rw [eff_publish_replay s p hq (by omega), eff_publishWithId_store s p ha hslot hinf]
    have hlt := getElem?_lt_of_some hslot
    constructor
    · simp only [unackedAfterOut, relPub, hq, if_false]
      exact hU.store p hslot rfl
    · intro t ht
      have hid : (p.pkid == 0) = false := by simp; omega
      simp only [acceptedAfterOut, hq, if_false, hid] at ht
      rcases hK t ht with h | h
      · exact Or.inl h
      · refine Or.inr (h.mono ?_ ?_ ?_)
        · intro i x hx hxt
          refine Or.inl ⟨i, x, ?_, hxt⟩
          simp only [State.pushOut, State.pushEv, List.getElem?_set]
          split
          · rename_i hi; subst hi; rw [hslot] at hx; simp at hx
          · exact hx
        · intro c hc hct; exact Or.inr (Or.inl ⟨c, hc, hct⟩)
        · intro x hx hxt
          rcases List.mem_cons.mp hx with hx | hx
          · cases hx
            refine Or.inl ⟨p.pkid, p, ?_, hxt⟩
            simp [State.pushOut, State.pushEv, hlt]
          · exact Or.inr (Or.inr ⟨x, hx, hxt⟩)
  | pubrel i =>
    obtain ⟨hi1, hi2, hlt, hinf⟩ := h0.pend_pubrel
    rw [eff_pubrel_replay s i (by omega) hlt hinf]
    refine ⟨hU.congr rfl, ?_⟩
    intro t ht
    simp only [acceptedAfterOut] at ht
    rcases hK t ht with h | h
    · exact Or.inl h
    · refine Or.inr (h.congr rfl rfl ?_)
      intro x hx
      rcases List.mem_cons.mp hx with hx | hx
      · cases hx
      · exact hx
  | subscribe n => exact absurd (h0.pendWF (.subscribe n) (by simp)) (by simp [PendOK])
  | unsubscribe => exact absurd (h0.pendWF .unsubscribe (by simp)) (by simp [PendOK])
  | pingreq => exact absurd (h0.pendWF .pingreq (by simp)) (by simp [PendOK])
  | disconnect => exact absurd (h0.pendWF .disconnect (by simp)) (by simp [PendOK])
  | puback j => exact absurd (h0.pendWF (.puback j) (by simp)) (by simp [PendOK])
  | pubrec j => exact absurd (h0.pendWF (.pubrec j) (by simp)) (by simp [PendOK])
  | other => exact absurd (h0.pendWF .other (by simp)) (by simp [PendOK])

theorem core_eqs {s s' : State} (h : s'.core = s.core) :
    s'.outgoingPub = s.outgoingPub ∧ s'.outgoingRel = s.outgoingRel ∧ s'.inflight = s.inflight ∧
    s'.collision = s.collision ∧ s'.lastPuback = s.lastPuback :=
  ⟨congrArg Core.pub h, congrArg Core.rel h, congrArg Core.inf h, congrArg Core.col h, congrArg Core.lastPuback h⟩

/-- an incoming packet, provided it is not a PUBCOMP for the id of the parked publish -/
theorem GInv1.incoming {s : State} {pd : List Request} {g : Ghost} (h0 : Inv0 ⟨s, pd⟩) (h1 : GInv1 ⟨s, pd⟩ g)
    (p : Incoming) (hn : ¬ pubcompOnCollision ⟨s, pd⟩ (.inc p)) :
    UnackedOK (relPub (unackedAfterIn g.unacked p) (handleIncoming s p).2) (handleIncoming s p).1 ∧
    ∀ t ∈ g.accepted, t ∈ doneAfterIn g.done g.unacked p ∨ Held ⟨(handleIncoming s p).1, pd⟩ t := by
  obtain ⟨hU, hK⟩ := h1
  have hs0 := h0.sinv.pushEv (.incoming p)
  have hU0 : UnackedOK g.unacked (s.pushEv (.incoming p)) := hU.congr rfl
  have hK0 : ∀ t ∈ g.accepted, t ∈ g.done ∨ Held ⟨s.pushEv (.incoming p), pd⟩ t := by
    intro t ht
    rcases hK t ht with h | h
    · exact Or.inl h
    · exact Or.inr (h.congr rfl rfl (fun _ hp => hp))
  simp only at hs0
  by_cases hack : ∃ i r, p = .puback i r
  · obtain ⟨i, r, rfl⟩ := hack
    rw [handleIncoming_puback]
    generalize s.pushEv (.incoming (.puback i r)) = s0 at hs0 hU0 hK0
    simp only [unackedAfterIn, doneAfterIn, ackedId]
    have he := handlePuback_eff hs0 i r
    generalize handlePuback s0 i r = res at he ⊢
    cases he with
    | oob s' h hc =>
      obtain ⟨e1, e2, e3, e4, e5⟩ := core_eqs hc
      have hab := hU0.absent i (Or.inl h)
      rw [aerase_absent _ _ hab, hab]
      refine ⟨by simpa [relPub] using hU0.congr e1, ?_⟩
      intro t ht
      rcases hK0 t ht with h' | h'
      · exact Or.inl h'
      · exact Or.inr (h'.congr e1 e4 (fun _ hp => hp))
    | empty s' h hc =>
      have e1 : s'.outgoingPub = s0.outgoingPub := congrArg Core.pub hc
      have e4 : s'.collision = s0.collision := congrArg Core.col hc
      have hab := hU0.absent i (Or.inr h)
      rw [aerase_absent _ _ hab, hab]
      refine ⟨by simpa [relPub] using hU0.congr e1, ?_⟩
      intro t ht
      rcases hK0 t ht with h' | h'
      · exact Or.inl h'
      · exact Or.inr (h'.congr e1 e4 (fun _ hp => hp))
    | freed s' x h _ hc =>
      have e1 : s'.outgoingPub = s0.outgoingPub.set i none := congrArg Core.pub hc
      have e4 : s'.collision = s0.collision := congrArg Core.col hc
      obtain ⟨hf, hl⟩ := hU0.free i x h e1
      rw [hl]
      refine ⟨by simpa [relPub] using hf, ?_⟩
      intro t ht
      rcases hK0 t ht with h' | h'
      · exact Or.inl (List.mem_cons_of_mem _ h')
      · refine h'.elim ?_ (fun h'' => Or.inr (Or.inr (h''.elim (fun ⟨c, hc', hct⟩ => Or.inl ⟨c, by rw [e4]; exact hc', hct⟩)
            (fun h3 => Or.inr h3))))
        rintro ⟨j, y, hy, hyt⟩
        by_cases hij : i = j
        · subst hij; rw [h] at hy; cases hy
          exact Or.inl (by rw [hyt]; exact List.mem_cons_self)
        · refine Or.inr (Or.inl ⟨j, y, ?_, hyt⟩)
          simp only [e1, List.getElem?_set, hij, if_false]; exact hy
    | released s' x c h hv hcol hci hc =>
      have e1 : s'.outgoingPub = (s0.outgoingPub.set i none).set i (some c) := congrArg Core.pub hc
      have hlt := getElem?_lt_of_some h
      have hcq := hs0.colQos c hcol
      let s2 : State := { s0 with outgoingPub := s0.outgoingPub.set i none }
      obtain ⟨hf, hl⟩ := hU0.free (s' := s2) i x h rfl
      have hst := hf.store (s' := s') c (by simp [s2, hci, hlt]) (by rw [e1, hci])
      rw [hl]
      refine ⟨by simpa [relPub, hcq, hci] using hst, ?_⟩
      intro t ht
      rcases hK0 t ht with h' | h'
      · exact Or.inl (List.mem_cons_of_mem _ h')
      · rcases h' with ⟨j, y, hy, hyt⟩ | ⟨c', hc', hct⟩ | h3
        · by_cases hij : i = j
          · subst hij; rw [h] at hy; cases hy
            exact Or.inl (by rw [hyt]; exact List.mem_cons_self)
          · refine Or.inr (Or.inl ⟨j, y, ?_, hyt⟩)
            simp only [e1, List.getElem?_set, hij, if_false]; exact hy
        · simp only at hc'
          rw [hcol] at hc'; cases hc'
          refine Or.inr (Or.inl ⟨i, c, ?_, hct⟩)
          simp [e1, hlt]
        · exact Or.inr (Or.inr (Or.inr h3))
  · by_cases hrec : ∃ i r, p = .pubrec i r
    · obtain ⟨i, r, rfl⟩ := hrec
      rw [handleIncoming_pubrec]
      generalize s.pushEv (.incoming (.pubrec i r)) = s0 at hs0 hU0 hK0
      simp only [unackedAfterIn, doneAfterIn, ackedId]
      have key : ∀ (s' : State) (x : Pub), s0.outgoingPub[i]? = some (some x) →
          s'.outgoingPub = s0.outgoingPub.set i none → s'.collision = s0.collision →
          UnackedOK (aerase g.unacked i) s' ∧ alookup g.unacked i = some x.tag ∧
          ∀ t ∈ g.accepted, t ∈ x.tag :: g.done ∨ Held ⟨s', pd⟩ t := by
        intro s' x h e1 e4
        obtain ⟨hf, hl⟩ := hU0.free i x h e1
        refine ⟨hf, hl, ?_⟩
        intro t ht
        rcases hK0 t ht with h' | h'
        · exact Or.inl (List.mem_cons_of_mem _ h')
        · rcases h' with ⟨j, y, hy, hyt⟩ | ⟨c', hc', hct⟩ | h3
          · by_cases hij : i = j
            · subst hij; rw [h] at hy; cases hy
              exact Or.inl (by rw [hyt]; exact List.mem_cons_self)
            · refine Or.inr (Or.inl ⟨j, y, ?_, hyt⟩)
              simp only [e1, List.getElem?_set, hij, if_false]; exact hy
          · exact Or.inr (Or.inr (Or.inl ⟨c', by rw [e4]; exact hc', hct⟩))
          · exact Or.inr (Or.inr (Or.inr h3))
      have he := handlePubrec_eff hs0 i r
      generalize handlePubrec s0 i r = res at he ⊢
      cases he with
      | unsol s' h hc =>
        obtain ⟨e1, e2, e3, e4, e5⟩ := core_eqs hc
        have hab := hU0.absent i h
        rw [aerase_absent _ _ hab, hab]
        refine ⟨by simpa [relPub] using hU0.congr e1, ?_⟩
        intro t ht
        rcases hK0 t ht with h' | h'
        · exact Or.inl h'
        · exact Or.inr (h'.congr e1 e4 (fun _ hp => hp))
      | failed s' x h hv hc =>
        obtain ⟨k1, k2, k3⟩ := key s' x h (congrArg Core.pub hc) (congrArg Core.col hc)
        rw [k2]; exact ⟨by simpa [relPub] using k1, k3⟩
      | moved s' x h hv hi hc =>
        obtain ⟨k1, k2, k3⟩ := key s' x h (congrArg Core.pub hc) (congrArg Core.col hc)
        rw [k2]; exact ⟨by simpa [relPub] using k1, k3⟩
    · by_cases hcomp : ∃ i r, p = .pubcomp i r
      · obtain ⟨i, r, rfl⟩ := hcomp
        rw [handleIncoming_pubcomp]
        have hn' : ∀ c, (s.pushEv (.incoming (.pubcomp i r))).collision = some c → c.pkid ≠ i := by
          intro c hc hci
          exact hn ⟨c, hc, hci⟩
        generalize s.pushEv (.incoming (.pubcomp i r)) = s0 at hs0 hU0 hK0 hn'
        simp only [unackedAfterIn, doneAfterIn, ackedId]
        have fin : ∀ s' : State, s'.outgoingPub = s0.outgoingPub → s'.collision = s0.collision →
            UnackedOK g.unacked s' ∧ ∀ t ∈ g.accepted, t ∈ g.done ∨ Held ⟨s', pd⟩ t := by
          intro s' e1 e4
          refine ⟨hU0.congr e1, ?_⟩
          intro t ht
          rcases hK0 t ht with h' | h'
          · exact Or.inl h'
          · exact Or.inr (h'.congr e1 e4 (fun _ hp => hp))
        have he := handlePubcomp_eff hs0 i r hn'
        generalize handlePubcomp s0 i r = res at he ⊢
        cases he with
        | unsol s' h hc =>
          obtain ⟨k1, k2⟩ := fin s' (congrArg Core.pub hc) (congrArg Core.col hc)
          exact ⟨by simpa [relPub] using k1, k2⟩
        | done s' h dec hdec hc =>
          obtain ⟨k1, k2⟩ := fin s' (congrArg Core.pub hc) (congrArg Core.col hc)
          exact ⟨by simpa [relPub] using k1, k2⟩
      · have ho := otherIncoming_eff s p (fun i r h => hack ⟨i, r, h⟩) (fun i r h => hrec ⟨i, r, h⟩)
          (fun i r h => hcomp ⟨i, r, h⟩)
        obtain ⟨e1, e2, e3, e4, e5⟩ := core_eqs ho.1
        have hid : ackedId p = none := by
          cases p <;> first | rfl | exact absurd ⟨_, _, rfl⟩ hack | exact absurd ⟨_, _, rfl⟩ hrec
        simp only [unackedAfterIn, doneAfterIn, hid]
        rw [relPub_not_publish _ _ ho.2.1]
        refine ⟨hU.congr e1, ?_⟩
        intro t ht
        rcases hK t ht with h' | h'
        · exact Or.inl h'
        · exact Or.inr (h'.congr e1 e4 (fun _ hp => hp))


theorem Held.fail {s : State} {pd : List Request} {t : Nat} (h : Held ⟨s, pd⟩ t) :
    Held ⟨cleanState s, pd ++ cleanRequests s⟩ t := by
  rcases h with ⟨i, p, hp, ht⟩ | ⟨c, hc, ht⟩ | ⟨p, hp, ht⟩
  · refine Or.inr (Or.inr ⟨p, ?_, ht⟩)
    apply List.mem_append_right
    exact (mem_cleanRequests s _).mpr (Or.inl ⟨p, rfl, List.mem_iff_getElem?.mpr ⟨i, hp⟩⟩)
  · exact Or.inr (Or.inl ⟨c, hc, ht⟩)
  · exact Or.inr (Or.inr ⟨p, List.mem_append_left _ hp, ht⟩)

theorem Held.pending_tag {s : State} {pd : List Request} {t : Nat} (h : Held ⟨s, pd⟩ t) :
    t ∈ pubTags pd ∨ Held ⟨s, []⟩ t := by
  rcases h with ⟨i, p, hp, ht⟩ | ⟨c, hc, ht⟩ | ⟨p, hp, ht⟩
  · exact Or.inr (Or.inl ⟨i, p, hp, ht⟩)
  · exact Or.inr (Or.inr (Or.inl ⟨c, hc, ht⟩))
  · exact Or.inl ((mem_pubTags _ _).mpr ⟨p, hp, ht⟩)

/-- the ghost stays coupled to the tables along every step that is not a PUBCOMP for the id of a
    parked publish -/
theorem GInv1.lstep {l : LState} {g : Ghost} (h0 : Inv0 l) (hg0 : GInv0 l g) (h1 : GInv1 l g) (op : LOp)
    (hn : ¬ pubcompOnCollision l op) :
    match (lstep l op).2 with
    | none => GInv1 (lstep l op).1 g
    | some o => GInv1 (lstep l op).1 (g.core o) := by
  obtain ⟨s, pd⟩ := l
  unfold Client.lstep
  cases op with
  | user u =>
    by_cases hc : (pd.isEmpty && selectEnabled s pd) = true
    · simp only [lop?, hc, if_true]
      have hpd : pd = [] := by
        simp only [Bool.and_eq_true, List.isEmpty_iff] at hc; exact hc.1
      subst hpd
      have hgt : selectEnabled s [] = true := by simpa using hc
      obtain ⟨k1, k2⟩ := h1.user h0 u hgt
      have hout : (sstepObs s (.out u.toRequest)).outcome = (handleOutgoing s u.toRequest).2 := by simp [sstepObs, mkObs]
      refine ⟨?_, ?_⟩
      · simp only [core_out, lpending, sstepSt, hout, stepOut_unacked]
        exact k1.congr rfl
      · simp only [core_out, lpending, sstepSt, hout, (stepOut_accepted _ _ _).1, (stepOut_accepted _ _ _).2]
        intro t ht
        rcases k2 t ht with h | h
        · exact Or.inl h
        · exact Or.inr (h.congr rfl rfl (fun _ hp => hp))
    · simp only [lop?, hc]
      exact h1
  | pend =>
    cases pd with
    | nil => exact h1
    | cons r rest =>
      simp only [lop?]
      obtain ⟨k1, k2⟩ := h1.pend h0
      have hout : (sstepObs s (.out r)).outcome = (handleOutgoing s r).2 := by simp [sstepObs, mkObs]
      refine ⟨?_, ?_⟩
      · simp only [core_out, lpending, sstepSt, hout, stepOut_unacked]
        exact k1.congr rfl
      · simp only [core_out, lpending, sstepSt, hout, (stepOut_accepted _ _ _).1, (stepOut_accepted _ _ _).2, List.tail_cons]
        intro t ht
        rcases k2 t ht with h | h
        · exact Or.inl h
        · exact Or.inr (h.congr rfl rfl (fun _ hp => hp))
  | ping =>
    simp only [lop?]
    have hc := ping_core s
    obtain ⟨e1, e2, e3, e4, e5⟩ := core_eqs hc
    obtain ⟨o1, o2⟩ := ping_outcome s ⟨0, 0, 0, none⟩
    have hout : (sstepObs s (.out .pingreq)).outcome = (handleOutgoing s .pingreq).2 := by simp [sstepObs, mkObs]
    obtain ⟨hU, hK⟩ := h1
    refine ⟨?_, ?_⟩
    · simp only [core_out, lpending, sstepSt, hout, stepOut_unacked, unackedAfterOut]
      exact hU.congr (by simp [drainEvents, e1])
    · simp only [core_out, lpending, sstepSt, hout, (stepOut_accepted _ _ _).1, (stepOut_accepted _ _ _).2]
      have : acceptedAfterOut g.accepted .pingreq (handleOutgoing s .pingreq).2 = g.accepted := by
        unfold acceptedAfterOut; rfl
      rw [this]
      intro t ht
      rcases hK t ht with h | h
      · exact Or.inl h
      · exact Or.inr (h.congr (by simp [drainEvents, e1]) (by simp [drainEvents, e4]) (fun _ hp => hp))
  | inc p =>
    simp only [lop?]
    obtain ⟨k1, k2⟩ := h1.incoming h0 p hn
    have hout : (sstepObs s (.inc p)).outcome = (handleIncoming s p).2 := by simp [sstepObs, mkObs]
    refine ⟨?_, ?_⟩
    · simp only [core_inc, lpending, sstepSt, hout, released_unacked]
      exact k1.congr rfl
    · simp only [core_inc, lpending, sstepSt, hout, (released_done _ _ _).1, (released_done _ _ _).2]
      intro t ht
      rcases k2 t ht with h | h
      · exact Or.inl h
      · exact Or.inr (h.congr rfl rfl (fun _ hp => hp))
  | fail =>
    simp only [lop?]
    have hp := h0.sinv.cleanPanics
    have hst : sstepSt s .clean = cleanState s := by simp [sstepSt, hp]
    have hob : (sstepObs s .clean).cleaned = cleanRequests s := by simp [sstepObs, hp, mkObs]
    obtain ⟨hU, hK⟩ := h1
    refine ⟨?_, ?_⟩
    · simp only [core_clean g s hp, lpending, hst]
      exact UnackedOK.clean s
    · simp only [core_clean g s hp, lpending, hst, hob]
      intro t ht
      rcases hK t ht with h | h
      · exact Or.inl h
      · exact Or.inr h.fail
  | newSession =>
    simp only [lop?]
    obtain ⟨hU, hK⟩ := h1
    refine ⟨?_, ?_⟩
    · simp only [core_drop, lpending, sstepSt]; exact hU
    · simp only [core_drop, lpending, sstepSt]
      intro t ht
      rcases hK t ht with h | h
      · exact Or.inl (List.mem_append_right _ h)
      · rcases h.pending_tag with h' | h'
        · rw [hg0.pend]; exact Or.inl (List.mem_append_left _ h')
        · exact Or.inr h'

end Client
