/-
`GInv0`: coupling between the ghost wire view computed from observations and the model state that
needs no exclusion of any corner case: `pending`, the observed views, the limit, the gate flag,
the set of PUBRELs in flight (`rels` ↔ `outgoing_rel`), the incoming QoS 2 ids.
-/
import Proofs.Lemmas.ClientFrames
namespace Client
open Client.Spec

structure GInv0 (l : LState) (g : Ghost) : Prop where
  pend : g.pending = l.pending
  view : g.pView = cleanRequests l.st
  col : g.pCol = l.st.collision
  inf : g.pInf = l.st.inflight
  lim : g.limit = l.st.maxInflight
  up : g.upper = l.st.upperLimit
  ver : g.ver = l.st.ver
  man : g.manual = l.st.manualAcks
  gated : g.gated = true
  rels : ∀ i : Nat, i ∈ g.rels ↔ relContains l.st i = true
  relsNd : g.rels.Nodup
  relsLen : g.rels.length = relCount l.st.outgoingRel
  q2 : ∀ i : Nat, i ∈ g.inQos2 ↔ i ∈ l.st.incomingPub

theorem GInv0.new (ver : Version) (max : Nat) (m : Bool) :
    GInv0 (LState.new ver max m) (Ghost.init ver max m) := by
  refine ⟨rfl, ?_, rfl, rfl, rfl, rfl, rfl, rfl, rfl, ?_, by simp [Ghost.init], ?_, by simp [Ghost.init, LState.new, State.new]⟩
  · simp only [Ghost.init, LState.new]
    cases hl : cleanRequests (State.new ver max m) with
    | nil => rfl
    | cons r rest =>
      have : r ∈ cleanRequests (State.new ver max m) := by rw [hl]; simp
      rw [mem_cleanRequests] at this
      rcases this with ⟨p, _, hp⟩ | ⟨i, _, hi⟩
      · simp [State.new] at hp
      · rw [relContains_eq] at hi; simp [State.new, List.getElem?_replicate] at hi
  · intro i
    simp only [Ghost.init, LState.new, List.not_mem_nil, false_iff]
    intro hi; rw [relContains_eq] at hi; simp [State.new, List.getElem?_replicate] at hi
  · simp [Ghost.init, LState.new, State.new, relCount_replicate]

/-! ### the PUBRELs in flight -/

theorem mem_addRel (l : List Nat) (i j : Nat) : j ∈ addRel l i ↔ j = i ∨ j ∈ l := by
  unfold addRel
  split
  · rename_i h
    have : i ∈ l := by simpa using h
    constructor
    · intro hj; exact Or.inr hj
    · rintro (rfl | hj)
      · exact this
      · exact hj
  · simp [or_comm]

theorem nodup_addRel (l : List Nat) (i : Nat) (h : l.Nodup) : (addRel l i).Nodup := by
  unfold addRel
  split
  · exact h
  · rename_i hc
    have : i ∉ l := by simpa using hc
    rw [List.nodup_append]
    exact ⟨h, by simp, by intro a ha b hb; simp at hb; subst hb; intro hab; subst hab; exact this ha⟩

theorem length_addRel (l : List Nat) (i : Nat) :
    (addRel l i).length = if i ∈ l then l.length else l.length + 1 := by
  unfold addRel
  by_cases h : i ∈ l <;> simp [h]

theorem length_filter_ne (l : List Nat) (i : Nat) (h : l.Nodup) :
    (l.filter (· != i)).length = if i ∈ l then l.length - 1 else l.length := by
  induction l with
  | nil => simp
  | cons a l ih =>
    have hnd := List.nodup_cons.mp h
    have ih' := ih hnd.2
    by_cases ha : a = i
    · subst ha
      have : a ∉ l := hnd.1
      simp [this] at ih' ⊢
      exact ih'
    · have hne : (a != i) = true := by simpa using ha
      simp only [List.filter_cons, hne, if_true, List.length_cons, List.mem_cons]
      have : (i = a) = False := by simp; exact fun h => ha h.symm
      by_cases hi : i ∈ l
      · simp [hi] at ih' ⊢
        have : 0 < l.length := List.length_pos_of_mem hi
        omega
      · simp [hi, this] at ih' ⊢
        exact ih'

theorem relContains_of_set {s s' : State} {i : Nat} {b : Bool} (he : s'.outgoingRel = s.outgoingRel.set i b)
    (hi : i < s.outgoingRel.length) (j : Nat) : relContains s' j = if i = j then b else relContains s j := by
  have := relContains_set s i j b hi
  unfold relContains at *
  rw [he]; exact this

/-- coupling of the set of release bits with a duplicate-free list of ids -/
structure RelsOK (R : List Nat) (s : State) : Prop where
  mem : ∀ i : Nat, i ∈ R ↔ relContains s i = true
  nd : R.Nodup
  len : R.length = relCount s.outgoingRel

theorem RelsOK.congr {R : List Nat} {s s' : State} (h : RelsOK R s) (he : s'.outgoingRel = s.outgoingRel) :
    RelsOK R s' := by
  refine ⟨?_, h.nd, by rw [he]; exact h.len⟩
  intro i; rw [h.mem i]; unfold relContains; rw [he]

theorem RelsOK.set_true {R : List Nat} {s s' : State} (h : RelsOK R s) (i : Nat) (hi : i < s.outgoingRel.length)
    (he : s'.outgoingRel = s.outgoingRel.set i true) : RelsOK (addRel R i) s' := by
  refine ⟨?_, nodup_addRel _ _ h.nd, ?_⟩
  · intro j
    rw [mem_addRel, h.mem j, relContains_of_set he hi j]
    by_cases hij : i = j
    · subst hij; simp
    · simp only [hij, if_false]
      constructor
      · rintro (h' | h')
        · exact absurd h'.symm hij
        · exact h'
      · intro h'; exact Or.inr h'
  · rw [length_addRel, he]
    by_cases hm : i ∈ R
    · have := (relContains_eq s i).mp ((h.mem i).mp hm)
      simp [hm, relCount_set_true_same _ _ this, h.len]
    · have hb : relContains s i = false := by
        cases hc : relContains s i with
        | false => rfl
        | true => exact absurd ((h.mem i).mpr hc) hm
      have := relContains_false_of_lt s i hi hb
      simp [hm, relCount_set_true _ _ this, h.len]

theorem RelsOK.set_false {R : List Nat} {s s' : State} (h : RelsOK R s) (i : Nat) (hb : relContains s i = true)
    (he : s'.outgoingRel = s.outgoingRel.set i false) : RelsOK (R.filter (· != i)) s' := by
  have hbit := (relContains_eq s i).mp hb
  have hi := getElem?_lt_of_some hbit
  refine ⟨?_, h.nd.filter _, ?_⟩
  · intro j
    simp only [List.mem_filter, h.mem j]
    rw [relContains_of_set he hi j]
    by_cases hij : i = j
    · subst hij; simp
    · simp only [hij, if_false]
      constructor
      · intro h'; exact h'.1
      · intro h'; exact ⟨h', by simp; exact fun h'' => hij h''.symm⟩
  · rw [length_filter_ne _ _ h.nd, he]
    have := relCount_set_false _ _ hbit
    have hm := (h.mem i).mpr hb
    simp [hm, h.len]; omega

theorem RelsOK.filter_absent {R : List Nat} {s : State} (h : RelsOK R s) (i : Nat) (hb : relContains s i = false) :
    R.filter (· != i) = R := by
  apply List.filter_eq_self.mpr
  intro a ha
  have := (h.mem a).mp ha
  simp; intro hai; subst hai; rw [hb] at this; simp at this

theorem RelsOK.clean (s : State) : RelsOK [] (cleanState s) := by
  refine ⟨?_, List.nodup_nil, by simp [cleanState, relCount_map_false]⟩
  intro i
  simp only [List.not_mem_nil, false_iff]
  intro hi; rw [relContains_eq] at hi; simp [cleanState, List.getElem?_map] at hi

/-- what the ghost does to `rels` on an `in` op -/
def relsAfterIn (R : List Nat) (p : Incoming) (o : Outcome) : List Nat :=
  let R1 := match p with
    | .pubcomp i _ => R.filter (· != i)
    | _ => R
  match o with
  | .ok (some (.pubrel j)) => addRel R1 j
  | _ => R1

theorem released_rels (g : Ghost) (p : Incoming) (o : Outcome) :
    ((g.stepIn p).released o).rels = relsAfterIn g.rels p o := by
  unfold Ghost.released relsAfterIn Ghost.stepIn
  cases p <;> cases o <;> (try rfl)
  all_goals (rename_i pk; cases pk <;> (try rfl))
  all_goals (rename_i pk; cases pk <;> (try rfl))
  all_goals (try (simp only; split <;> rfl))
  all_goals (try (simp only; split <;> split <;> rfl))


theorem relsAfterIn_other (R : List Nat) (p : Incoming) (o : Outcome)
    (hp : ∀ i r, p ≠ .pubcomp i r) (ho : ∀ j, o ≠ .ok (some (.pubrel j))) : relsAfterIn R p o = R := by
  unfold relsAfterIn
  cases p <;> simp_all
  all_goals (split <;> simp_all)

theorem RelsOK.handlePuback {R : List Nat} {s : State} (h : RelsOK R s) (i r : Nat) :
    RelsOK R (handlePuback s i r).1 ∧ ∀ j, (handlePuback s i r).2 ≠ .ok (some (.pubrel j)) := by
  unfold Client.handlePuback
  split
  · exact ⟨h, by simp⟩
  · have h1 : RelsOK R (if s.ver = Version.v4 then { s with lastPuback := i } else s) := by
      split
      · exact h.congr rfl
      · exact h
    generalize (if s.ver = Version.v4 then { s with lastPuback := i } else s) = s1 at h1
    simp only
    split
    · exact ⟨h1, by simp⟩
    · split
      · exact ⟨h1, by simp⟩
      · split
        · exact ⟨h1.congr rfl, by simp⟩
        · unfold pubackCollision
          split
          · split
            · exact ⟨h1.congr rfl, by simp⟩
            · exact ⟨h1.congr rfl, by simp⟩
          · exact ⟨h1.congr rfl, by simp⟩

theorem RelsOK.handlePubrec {R : List Nat} {s : State} (h : RelsOK R s) (hs : SInv s) (i r : Nat) :
    RelsOK (relsAfterIn R (.pubrec i r) (handlePubrec s i r).2) (handlePubrec s i r).1 := by
  unfold Client.handlePubrec
  split
  · simpa [relsAfterIn] using h
  · simpa [relsAfterIn] using h
  · rename_i x hslot
    have hlt : i < s.outgoingRel.length := by
      have := hs.lenPub; have := hs.lenRel; have := getElem?_lt_of_some hslot; omega
    simp only
    split
    · simpa [relsAfterIn] using h.congr (s' := { s with outgoingPub := s.outgoingPub.set i none }) rfl
    · simp only [relsAfterIn]
      exact h.set_true i hlt rfl

theorem RelsOK.handlePubcomp {R : List Nat} {s : State} (h : RelsOK R s) (i r : Nat) :
    RelsOK (relsAfterIn R (.pubcomp i r) (handlePubcomp s i r).2) (handlePubcomp s i r).1 := by
  have key : ∀ o : Outcome, (∀ j, o ≠ .ok (some (.pubrel j))) →
      relsAfterIn R (.pubcomp i r) o = R.filter (· != i) := by
    intro o ho
    unfold relsAfterIn
    cases o with
    | ok x =>
      cases x with
      | none => rfl
      | some pk => cases pk <;> first | rfl | exact absurd rfl (ho _)
    | err e => rfl
    | panic => rfl
  unfold Client.handlePubcomp
  split
  · unfold handlePubcompV4
    split
    · rename_i hc
      split
      · rw [key _ (by simp)]; exact h.set_false i hc rfl
      · simp only
        split
        · split
          · rw [key _ (by simp)]; exact h.set_false i hc rfl
          · rw [key _ (by simp)]; exact h.set_false i hc rfl
        · rw [key _ (by simp)]; exact h.set_false i hc rfl
    · rename_i hc
      rw [key _ (by simp), h.filter_absent i (by simpa using hc)]; exact h
  · unfold handlePubcompV5
    have h1 : RelsOK R (pubcompTakeCollision s i) := h.congr (pubcompTakeCollision_fields s i).2.2.2.2.2.1
    have hk : ∀ j, (pubcompTaken s i : Option Packet) ≠ some (.pubrel j) := by
      intro j; unfold pubcompTaken; split <;> (try split) <;> simp
    generalize pubcompTakeCollision s i = s1 at h1
    simp only
    split
    · rename_i hc
      split
      · rw [key _ (by simp)]; exact h1.set_false i hc rfl
      · split
        · rw [key _ (by simp)]; exact h1.set_false i hc rfl
        · rw [key _ (by intro j hj; simp at hj; exact hk j hj)]; exact h1.set_false i hc rfl
    · rename_i hc
      rw [key _ (by simp), h1.filter_absent i (by simpa using hc)]; exact h1

theorem handlePublish_outcome (s : State) (p : InPub) :
    (∀ j, (handlePublish s p).2 ≠ .ok (some (.pubrel j))) ∧ (∀ q, (handlePublish s p).2 ≠ .ok (some (.publish q))) := by
  unfold handlePublish
  simp only [outgoingPuback, outgoingPubrec]
  (repeat' split) <;> simp

theorem handlePubrel_fields (s : State) (i r : Nat) :
    (handlePubrel s i r).1.outgoingRel = s.outgoingRel ∧ (handlePubrel s i r).1.outgoingPub = s.outgoingPub ∧
    (handlePubrel s i r).1.inflight = s.inflight ∧ (handlePubrel s i r).1.collision = s.collision ∧
    (handlePubrel s i r).1.maxInflight = s.maxInflight ∧ (handlePubrel s i r).1.lastPuback = s.lastPuback ∧
    (∀ j, (handlePubrel s i r).2 ≠ .ok (some (.pubrel j))) ∧ (∀ q, (handlePubrel s i r).2 ≠ .ok (some (.publish q))) := by
  unfold handlePubrel
  (repeat' split) <;> simp [State.pushOut, State.pushEv]

theorem handleConnack_fields (s : State) (ok : Bool) (rm am : Option Nat) :
    (handleConnack s ok rm am).1.outgoingRel = s.outgoingRel ∧ (handleConnack s ok rm am).1.outgoingPub = s.outgoingPub ∧
    (handleConnack s ok rm am).1.inflight = s.inflight ∧ (handleConnack s ok rm am).1.collision = s.collision ∧
    (handleConnack s ok rm am).1.incomingPub = s.incomingPub ∧ (handleConnack s ok rm am).1.lastPuback = s.lastPuback ∧
    (∀ j, (handleConnack s ok rm am).2 ≠ .ok (some (.pubrel j))) ∧ (∀ q, (handleConnack s ok rm am).2 ≠ .ok (some (.publish q))) := by
  unfold handleConnack
  split
  · simp
  · cases rm <;> cases am <;> simp

/-- the release bits follow the ghost's `rels` through every incoming packet -/
theorem RelsOK.handleIncoming {R : List Nat} {s : State} (h : RelsOK R s) (hs : SInv s) (p : Incoming) :
    RelsOK (relsAfterIn R p (handleIncoming s p).2) (handleIncoming s p).1 := by
  unfold Client.handleIncoming
  have h0 : RelsOK R (s.pushEv (.incoming p)) := h.congr rfl
  have hs0 := hs.pushEv (.incoming p)
  generalize s.pushEv (.incoming p) = s0 at h0 hs0
  simp only
  cases p with
  | pubrec i r => exact h0.handlePubrec hs0 i r
  | pubcomp i r => exact h0.handlePubcomp i r
  | puback i r =>
    have := h0.handlePuback i r
    rw [relsAfterIn_other _ _ _ (by simp) this.2]; exact this.1
  | publish q =>
    rw [relsAfterIn_other _ _ _ (by simp) (handlePublish_outcome s0 q).1]
    exact h0.congr (handlePublish_fields s0 q).2.2.2.2.1
  | pubrel i r =>
    have := handlePubrel_fields s0 i r
    rw [relsAfterIn_other _ _ _ (by simp) this.2.2.2.2.2.2.1]
    exact h0.congr this.1
  | connack ok sp rm am =>
    simp only
    split
    · rw [relsAfterIn_other _ _ _ (by simp) (by simp)]; exact h0
    · have := handleConnack_fields s0 ok rm am
      rw [relsAfterIn_other _ _ _ (by simp) this.2.2.2.2.2.2.1]
      exact h0.congr this.1
  | pingresp => rw [relsAfterIn_other _ _ _ (by simp) (by simp)]; exact h0.congr rfl
  | suback _ => rw [relsAfterIn_other _ _ _ (by simp) (by simp)]; exact h0
  | unsuback _ => rw [relsAfterIn_other _ _ _ (by simp) (by simp)]; exact h0
  | disconnect _ => simp only; split <;> (rw [relsAfterIn_other _ _ _ (by simp) (by simp)]; exact h0)
  | connect => rw [relsAfterIn_other _ _ _ (by simp) (by simp)]; exact h0
  | subscribe => rw [relsAfterIn_other _ _ _ (by simp) (by simp)]; exact h0
  | unsubscribe => rw [relsAfterIn_other _ _ _ (by simp) (by simp)]; exact h0
  | pingreq => rw [relsAfterIn_other _ _ _ (by simp) (by simp)]; exact h0
  | auth => rw [relsAfterIn_other _ _ _ (by simp) (by simp)]; exact h0


/-! ### incoming QoS 2 ids -/

def q2After (Q : List Nat) : Incoming → List Nat
  | .publish q => if q.qos = 0 || q.qos = 1 then Q else addRel Q q.pkid
  | .pubrel i _ => Q.filter (· != i)
  | _ => Q

theorem stepIn_inQos2 (g : Ghost) (p : Incoming) (o : Outcome) :
    ((g.stepIn p).released o).inQos2 = q2After g.inQos2 p := by
  have h1 : ∀ g' : Ghost, (g'.released o).inQos2 = g'.inQos2 := by
    intro g'; unfold Ghost.released; (repeat' split) <;> rfl
  rw [h1]
  unfold Ghost.stepIn q2After
  cases p <;> (try rfl)
  all_goals (simp only; (repeat' split) <;> rfl)

theorem handlePuback_incomingPub (s : State) (i r : Nat) :
    (handlePuback s i r).1.incomingPub = s.incomingPub ∧ (handlePuback s i r).1.maxInflight = s.maxInflight := by
  unfold handlePuback
  split
  · exact ⟨rfl, rfl⟩
  · have h1 : (if s.ver = Version.v4 then { s with lastPuback := i } else s).incomingPub = s.incomingPub ∧
        (if s.ver = Version.v4 then { s with lastPuback := i } else s).maxInflight = s.maxInflight := by
      split <;> exact ⟨rfl, rfl⟩
    generalize (if s.ver = Version.v4 then { s with lastPuback := i } else s) = s1 at h1
    simp only
    split
    · exact h1
    · split
      · exact h1
      · split
        · exact h1
        · unfold pubackCollision
          split
          · split
            · exact h1
            · exact h1
          · exact h1

theorem handlePubrec_incomingPub (s : State) (i r : Nat) :
    (handlePubrec s i r).1.incomingPub = s.incomingPub ∧ (handlePubrec s i r).1.maxInflight = s.maxInflight := by
  unfold handlePubrec
  split
  · exact ⟨rfl, rfl⟩
  · exact ⟨rfl, rfl⟩
  · simp only
    split
    · exact ⟨rfl, rfl⟩
    · split <;> exact ⟨rfl, rfl⟩

theorem handlePublish_incomingPub (s : State) (q : InPub) (i : Nat) :
    i ∈ (handlePublish s q).1.incomingPub ↔
      (if q.qos = 0 ∨ q.qos = 1 then i ∈ s.incomingPub else (i = q.pkid ∨ i ∈ s.incomingPub)) := by
  have hf := (publishAlias_fields s q).2.2.2.2.1
  unfold handlePublish
  simp only [outgoingPuback, outgoingPubrec]
  generalize publishAlias s q = s1 at hf ⊢
  by_cases hq0 : q.qos = 0
  · simp [hq0, hf]
  · by_cases hq1 : q.qos = 1
    · cases hm : s1.manualAcks <;> simp [hq1, hm, State.pushOut, State.pushEv, hf]
    · by_cases hc : s1.incomingPub.contains q.pkid = true
      · have hm : q.pkid ∈ s.incomingPub := by rw [← hf]; simpa using hc
        have hor : (i = q.pkid ∨ i ∈ s.incomingPub) ↔ i ∈ s.incomingPub := by
          constructor
          · rintro (rfl | h') <;> assumption
          · intro h'; exact Or.inr h'
        cases hma : s1.manualAcks <;> simp [hq0, hq1, hm, hma, State.pushOut, State.pushEv, hf, hor]
      · have hm : q.pkid ∉ s.incomingPub := by rw [← hf]; simpa using hc
        cases hma : s1.manualAcks <;> simp [hq0, hq1, hm, State.pushOut, State.pushEv, hf]

theorem q2_handleIncoming (Q : List Nat) (s : State) (p : Incoming) (h : ∀ i : Nat, i ∈ Q ↔ i ∈ s.incomingPub) :
    ∀ i : Nat, i ∈ q2After Q p ↔ i ∈ (handleIncoming s p).1.incomingPub := by
  unfold handleIncoming
  have h0 : ∀ i : Nat, i ∈ Q ↔ i ∈ (s.pushEv (.incoming p)).incomingPub := h
  generalize s.pushEv (.incoming p) = s0 at h0
  simp only
  cases p with
  | publish q =>
    intro i
    rw [handlePublish_incomingPub s0 q i]
    unfold q2After
    by_cases hq : q.qos = 0 ∨ q.qos = 1
    · have : (decide (q.qos = 0) || decide (q.qos = 1)) = true := by simpa using hq
      simp only [this, if_true, hq]; exact h0 i
    · have : (decide (q.qos = 0) || decide (q.qos = 1)) = false := by simpa using hq
      simp only [this, hq, if_false, Bool.false_eq_true]
      rw [mem_addRel, h0 i]
  | pubrel j r =>
    intro i
    unfold handlePubrel q2After
    by_cases hc : s0.incomingPub.contains j = true
    · simp only [hc, if_true]
      split <;> simp [State.pushOut, State.pushEv, List.mem_filter, h0]
    · simp only [hc]
      have : j ∉ s0.incomingPub := by simpa using hc
      simp only [List.mem_filter, h0 i]
      constructor
      · intro h'; exact h'.1
      · intro h'; exact ⟨h', by simp; intro hij; subst hij; exact this h'⟩
  | puback j r => intro i; rw [(handlePuback_incomingPub s0 j r).1]; exact h0 i
  | pubrec j r => intro i; rw [(handlePubrec_incomingPub s0 j r).1]; exact h0 i
  | pubcomp j r => intro i; rw [(handlePubcomp_fields s0 j r).2.2.2.2.1]; exact h0 i
  | connack ok sp rm am =>
    intro i
    simp only
    split
    · exact h0 i
    · rw [(handleConnack_fields s0 ok rm am).2.2.2.2.1]; exact h0 i
  | pingresp => exact h0
  | suback _ => exact h0
  | unsuback _ => exact h0
  | disconnect _ => intro i; simp only; split <;> exact h0 i
  | connect => exact h0
  | subscribe => exact h0
  | unsubscribe => exact h0
  | pingreq => exact h0
  | auth => exact h0


/-! ### projections of the ghost step -/

theorem stepOut_pending (g : Ghost) (r : Request) (o : Outcome) :
    (g.stepOut r o).pending =
      match r with
      | .publish p => if p.pkid == 0 then g.pending else eraseFirst g.pending (.publish p)
      | .pubrel i => eraseFirst g.pending (.pubrel i)
      | _ => g.pending := by
  unfold Ghost.stepOut
  cases r <;> simp only <;> (repeat' split) <;> rfl

theorem stepOut_static (g : Ghost) (r : Request) (o : Outcome) :
    (g.stepOut r o).limit = g.limit ∧ (g.stepOut r o).upper = g.upper ∧ (g.stepOut r o).ver = g.ver ∧
    (g.stepOut r o).manual = g.manual ∧ (g.stepOut r o).inQos2 = g.inQos2 ∧
    (g.stepOut r o).gated = (g.gated && (g.loopOwn r || (isUserRequest r && g.gateOpen))) := by
  unfold Ghost.stepOut
  cases r <;> simp only <;> (repeat' split) <;> simp

theorem stepOut_rels (g : Ghost) (r : Request) (o : Outcome) :
    (g.stepOut r o).rels =
      match r, o with
      | .pubrel _, .ok (some (.pubrel j)) => addRel g.rels j
      | _, _ => g.rels := by
  unfold Ghost.stepOut
  cases r <;> simp only <;> (repeat' split) <;> simp_all

theorem released_static (g : Ghost) (o : Outcome) :
    (g.released o).limit = g.limit ∧ (g.released o).upper = g.upper ∧ (g.released o).ver = g.ver ∧
    (g.released o).manual = g.manual ∧ (g.released o).pending = g.pending ∧ (g.released o).gated = g.gated := by
  unfold Ghost.released
  (repeat' split) <;> simp

theorem stepIn_static (g : Ghost) (p : Incoming) :
    (g.stepIn p).upper = g.upper ∧ (g.stepIn p).ver = g.ver ∧
    (g.stepIn p).manual = g.manual ∧ (g.stepIn p).pending = g.pending ∧ (g.stepIn p).gated = g.gated := by
  unfold Ghost.stepIn
  cases p <;> simp only <;> (repeat' split) <;> simp

theorem stepIn_limit (g : Ghost) (p : Incoming) :
    (g.stepIn p).limit =
      match g.ver, p with
      | .v5, .connack true _ (some m) _ => min m g.upper
      | _, _ => g.limit := by
  unfold Ghost.stepIn
  cases p <;> simp only <;> (repeat' split) <;> simp_all

theorem eraseFirst_head (r : Request) (l : List Request) : eraseFirst (r :: l) r = l := by
  simp [eraseFirst]

theorem sstepObs_view (s : State) (op : SOp) :
    (sstepObs s op).view = cleanRequests (sstepSt s op) ∧ (sstepObs s op).col = (sstepSt s op).collision ∧
    (sstepObs s op).inf = (sstepSt s op).inflight := by
  unfold sstepObs sstepSt
  cases op <;> simp only [mkObs] <;> (try split) <;> simp


theorem handleIncoming_maxInflight (s : State) (p : Incoming) :
    (handleIncoming s p).1.maxInflight =
      match s.ver, p with
      | .v5, .connack true _ (some m) _ => min m s.upperLimit
      | _, _ => s.maxInflight := by
  unfold handleIncoming
  simp only
  cases p with
  | connack ok sp rm am =>
    cases hv : s.ver with
    | v4 => simp [State.pushEv, hv]
    | v5 =>
      simp only [State.pushEv, hv, handleConnack]
      cases ok <;> cases rm <;> cases am <;> simp
  | publish q =>
    rw [(handlePublish_fields _ q).2.2.2.2.2.2.1]
    cases s.ver <;> rfl
  | puback i r => rw [(handlePuback_incomingPub _ i r).2]; cases s.ver <;> rfl
  | pubrec i r => rw [(handlePubrec_incomingPub _ i r).2]; cases s.ver <;> rfl
  | pubrel i r => rw [(handlePubrel_fields _ i r).2.2.2.2.1]; cases s.ver <;> rfl
  | pubcomp i r => rw [(handlePubcomp_fields _ i r).2.2.2.2.2.2.1]; cases s.ver <;> rfl
  | disconnect _ => simp only; cases hv : s.ver <;> simp [State.pushEv, hv]
  | pingresp => cases s.ver <;> rfl
  | suback _ => cases s.ver <;> rfl
  | unsuback _ => cases s.ver <;> rfl
  | connect => cases s.ver <;> rfl
  | subscribe => cases s.ver <;> rfl
  | unsubscribe => cases s.ver <;> rfl
  | pingreq => cases s.ver <;> rfl
  | auth => cases s.ver <;> rfl

theorem sstepObs_op (s : State) (op : SOp) : (sstepObs s op).op = op := by
  unfold sstepObs
  cases op <;> simp only [mkObs] <;> (try split) <;> rfl

theorem core_out (g : Ghost) (s : State) (r : Request) :
    g.core (sstepObs s (.out r)) =
      { g.stepOut r (sstepObs s (.out r)).outcome with
        pView := (sstepObs s (.out r)).view, pCol := (sstepObs s (.out r)).col, pInf := (sstepObs s (.out r)).inf } := by
  unfold Ghost.core; rw [sstepObs_op]

theorem core_inc (g : Ghost) (s : State) (p : Incoming) :
    g.core (sstepObs s (.inc p)) =
      { (g.stepIn p).released (sstepObs s (.inc p)).outcome with
        pView := (sstepObs s (.inc p)).view, pCol := (sstepObs s (.inc p)).col, pInf := (sstepObs s (.inc p)).inf } := by
  unfold Ghost.core; rw [sstepObs_op]

theorem core_clean (g : Ghost) (s : State) (h : cleanPanics s = false) :
    g.core (sstepObs s .clean) =
      { g with pending := g.pending ++ cleanRequests s, unacked := [], rels := [], inQos2 := [],
               inOrder := g.inOrder && g.pending.isEmpty,
               pView := (sstepObs s .clean).view, pCol := (sstepObs s .clean).col, pInf := (sstepObs s .clean).inf } := by
  unfold Ghost.core; rw [sstepObs_op]
  simp [sstepObs, h, mkObs]

theorem core_drop (g : Ghost) (s : State) :
    g.core (sstepObs s .drop) =
      { g with done := pubTags g.pending ++ g.done, pending := [],
               pView := (sstepObs s .drop).view, pCol := (sstepObs s .drop).col, pInf := (sstepObs s .drop).inf } := by
  unfold Ghost.core; rw [sstepObs_op]

/-- `GInv0` does not look at the diagnostics -/
theorem GInv0.of_core {l : LState} {g : Ghost} {o : Obs} (h : GInv0 l (g.core o)) : GInv0 l (g.step o) := by
  obtain ⟨a1, a2, a3, a4, a5, a6, a7, a8, a9, a10, a11, a12, a13⟩ := h
  exact ⟨a1, a2, a3, a4, a5, a6, a7, a8, a9, a10, a11, a12, a13⟩

theorem GInv0.relsOK {l : LState} {g : Ghost} (h : GInv0 l g) : RelsOK g.rels l.st := ⟨h.rels, h.relsNd, h.relsLen⟩

theorem GInv0.gateOpen {l : LState} {g : Ghost} (h : GInv0 l g) :
    g.gateOpen = (l.pending.isEmpty && selectEnabled l.st l.pending) := by
  unfold Ghost.gateOpen selectEnabled
  rw [h.pend, h.inf, h.lim, h.col]
  cases hp : l.pending.isEmpty <;> cases hc : l.st.collision.isSome <;>
    by_cases hi : l.st.inflight < l.st.maxInflight <;> simp_all <;> omega

/-- one operation of the loop keeps the ghost coupled -/
theorem GInv0.lstep {l : LState} {g : Ghost} (h0 : Inv0 l) (hg : GInv0 l g) (op : LOp) :
    match (lstep l op).2 with
    | none => GInv0 (lstep l op).1 g
    | some o => GInv0 (lstep l op).1 (g.core o) := by
  obtain ⟨s, pd⟩ := l
  have hgate := hg.gateOpen
  have hR := hg.relsOK
  obtain ⟨g1, g2, g3, g4, g5, g6, g7, g8, g9, g10, g11, g12, g13⟩ := hg
  simp only at *
  unfold Client.lstep
  cases op with
  | user u =>
    by_cases hc : (pd.isEmpty && selectEnabled s pd) = true
    · simp only [lop?, hc, if_true]
      have hpd : pd = [] := by
        simp only [Bool.and_eq_true, List.isEmpty_iff] at hc; exact hc.1
      subst hpd
      obtain ⟨f1, f2, f3, f4, f5, f6, f7⟩ := user_frame s u
      obtain ⟨v1, v2, v3⟩ := sstepObs_view s (.out u.toRequest)
      obtain ⟨t1, t2, t3, t4, t5, t6⟩ := stepOut_static g u.toRequest (sstepObs s (.out u.toRequest)).outcome
      have hrels : (g.stepOut u.toRequest (sstepObs s (.out u.toRequest)).outcome).rels = g.rels := by
        rw [stepOut_rels]; cases u <;> rfl
      have hpend : (g.stepOut u.toRequest (sstepObs s (.out u.toRequest)).outcome).pending = [] := by
        rw [stepOut_pending, g1]; cases u <;> rfl
      have hR' : RelsOK g.rels (sstepSt s (.out u.toRequest)) := hR.congr (by simp [sstepSt, drainEvents, f1])
      refine ⟨?_, v1, v2, v3, ?_, ?_, ?_, ?_, ?_, ?_, ?_, ?_, ?_⟩
      all_goals simp only [core_out, lpending, sstepSt, drainEvents]
      · exact hpend
      · rw [t1, g5, f3]
      · rw [t2, g6, f4]
      · rw [t3, g7, f5]
      · rw [t4, g8, f6]
      · rw [t6, g9, hgate, hc]; cases u <;> simp [UserReq.toRequest, isUserRequest]
      · rw [hrels]; exact hR'.mem
      · rw [hrels]; exact hR'.nd
      · rw [hrels]; exact hR'.len
      · rw [t5, f2]; exact g13
    · simp only [lop?, hc]
      exact ⟨g1, g2, g3, g4, g5, g6, g7, g8, g9, g10, g11, g12, g13⟩
  | pend =>
    cases pd with
    | nil => exact ⟨g1, g2, g3, g4, g5, g6, g7, g8, g9, g10, g11, g12, g13⟩
    | cons r rest =>
      simp only [lop?]
      obtain ⟨v1, v2, v3⟩ := sstepObs_view s (.out r)
      obtain ⟨t1, t2, t3, t4, t5, t6⟩ := stepOut_static g r (sstepObs s (.out r)).outcome
      cases r with
      | publish p =>
        obtain ⟨hq, h1, h2, ha, hslot, hinf, hne⟩ := h0.pend_publish
        have heff := eff_publish_replay s p hq (by omega)
        have heff2 := eff_publishWithId_store s p ha hslot hinf
        have hst : sstepSt s (.out (.publish p)) =
            drainEvents ({ s with outgoingPub := s.outgoingPub.set p.pkid (some p), inflight := s.inflight + 1 }.pushOut (.publish p.pkid)) := by
          simp only [sstepSt, heff, heff2]
        have hrels : (g.stepOut (.publish p) (sstepObs s (.out (.publish p))).outcome).rels = g.rels := by
          rw [stepOut_rels]
        have hR' : RelsOK g.rels (sstepSt s (.out (.publish p))) := hR.congr (by rw [hst]; rfl)
        refine ⟨?_, v1, v2, v3, ?_, ?_, ?_, ?_, ?_, ?_, ?_, ?_, ?_⟩
        all_goals simp only [core_out, lpending, List.tail_cons]
        · rw [stepOut_pending, g1]
          have : (p.pkid == 0) = false := by simp; omega
          simp [this, eraseFirst_head]
        · rw [t1, g5, hst]; rfl
        · rw [t2, g6, hst]; rfl
        · rw [t3, g7, hst]; rfl
        · rw [t4, g8, hst]; rfl
        · rw [t6, g9]
          have : g.loopOwn (.publish p) = true := by
            simp only [Ghost.loopOwn, g1]
            have : (p.pkid != 0) = true := by simp; omega
            simp [this]
          simp [this]
        · rw [hrels]; exact hR'.mem
        · rw [hrels]; exact hR'.nd
        · rw [hrels]; exact hR'.len
        · rw [t5, hst]; exact g13
      | pubrel i =>
        obtain ⟨h1, h2, hlt, hinf⟩ := h0.pend_pubrel
        have heff := eff_pubrel_replay s i (by omega) hlt hinf
        have hst : sstepSt s (.out (.pubrel i)) =
            drainEvents ({ s with outgoingRel := s.outgoingRel.set i true, inflight := s.inflight + 1 }.pushOut (.pubrel i)) := by
          simp only [sstepSt, heff]
        have hout : (sstepObs s (.out (.pubrel i))).outcome = .ok (some (.pubrel i)) := by
          simp only [sstepObs, mkObs, heff]
        have hrels : (g.stepOut (.pubrel i) (sstepObs s (.out (.pubrel i))).outcome).rels = addRel g.rels i := by
          rw [stepOut_rels, hout]
        have hR' : RelsOK (addRel g.rels i) (sstepSt s (.out (.pubrel i))) := hR.set_true i hlt (by rw [hst]; rfl)
        refine ⟨?_, v1, v2, v3, ?_, ?_, ?_, ?_, ?_, ?_, ?_, ?_, ?_⟩
        all_goals simp only [core_out, lpending, List.tail_cons]
        · rw [stepOut_pending, g1]; simp [eraseFirst_head]
        · rw [t1, g5, hst]; rfl
        · rw [t2, g6, hst]; rfl
        · rw [t3, g7, hst]; rfl
        · rw [t4, g8, hst]; rfl
        · rw [t6, g9]
          have : g.loopOwn (.pubrel i) = true := by simp [Ghost.loopOwn, g1]
          simp [this]
        · rw [hrels]; exact hR'.mem
        · rw [hrels]; exact hR'.nd
        · rw [hrels]; exact hR'.len
        · rw [t5, hst]; exact g13
      | subscribe n => exact absurd (h0.pendWF (.subscribe n) (by simp)) (by simp [PendOK])
      | unsubscribe => exact absurd (h0.pendWF .unsubscribe (by simp)) (by simp [PendOK])
      | pingreq => exact absurd (h0.pendWF .pingreq (by simp)) (by simp [PendOK])
      | disconnect => exact absurd (h0.pendWF .disconnect (by simp)) (by simp [PendOK])
      | puback j => exact absurd (h0.pendWF (.puback j) (by simp)) (by simp [PendOK])
      | pubrec j => exact absurd (h0.pendWF (.pubrec j) (by simp)) (by simp [PendOK])
      | other => exact absurd (h0.pendWF .other (by simp)) (by simp [PendOK])
  | ping =>
    simp only [lop?]
    obtain ⟨f1, f2, f3, f4, f5, f6, f7, f8, f9, f10, f11⟩ := ping_frame s
    obtain ⟨v1, v2, v3⟩ := sstepObs_view s (.out .pingreq)
    obtain ⟨t1, t2, t3, t4, t5, t6⟩ := stepOut_static g .pingreq (sstepObs s (.out .pingreq)).outcome
    have hrels : (g.stepOut .pingreq (sstepObs s (.out .pingreq)).outcome).rels = g.rels := by rw [stepOut_rels]
    have hR' : RelsOK g.rels (sstepSt s (.out .pingreq)) := hR.congr (by simp [sstepSt, drainEvents, f1])
    refine ⟨?_, v1, v2, v3, ?_, ?_, ?_, ?_, ?_, ?_, ?_, ?_, ?_⟩
    all_goals simp only [core_out, lpending, sstepSt, drainEvents]
    · rw [stepOut_pending, g1]
    · rw [t1, g5, f4]
    · rw [t2, g6, f5]
    · rw [t3, g7, f6]
    · rw [t4, g8, f7]
    · rw [t6, g9]; simp [Ghost.loopOwn]
    · rw [hrels]; exact hR'.mem
    · rw [hrels]; exact hR'.nd
    · rw [hrels]; exact hR'.len
    · rw [t5, f3]; exact g13
  | inc p =>
    simp only [lop?]
    obtain ⟨f1, f2, f3, f4⟩ := incoming_frame s p
    obtain ⟨v1, v2, v3⟩ := sstepObs_view s (.inc p)
    have hout : (sstepObs s (.inc p)).outcome = (handleIncoming s p).2 := by simp [sstepObs, mkObs]
    obtain ⟨r1, r2, r3, r4, r5, r6⟩ := released_static (g.stepIn p) (handleIncoming s p).2
    obtain ⟨i1, i2, i3, i4, i5⟩ := stepIn_static g p
    have hR' := hR.handleIncoming h0.sinv p
    have hq := q2_handleIncoming g.inQos2 s p g13
    refine ⟨?_, v1, v2, v3, ?_, ?_, ?_, ?_, ?_, ?_, ?_, ?_, ?_⟩
    all_goals simp only [core_inc, lpending, sstepSt, drainEvents, hout]
    · rw [r5, i4, g1]
    · rw [r1, stepIn_limit, handleIncoming_maxInflight, g7, g6, g5]
    · rw [r2, i1, g6, f1]
    · rw [r3, i2, g7, f2]
    · rw [r4, i3, g8, f3]
    · rw [r6, i5, g9]
    · rw [released_rels]; exact hR'.mem
    · rw [released_rels]; exact hR'.nd
    · rw [released_rels]; exact hR'.len
    · rw [stepIn_inQos2]; exact hq
  | fail =>
    simp only [lop?]
    obtain ⟨v1, v2, v3⟩ := sstepObs_view s .clean
    have hp := h0.sinv.cleanPanics
    have hst : sstepSt s .clean = cleanState s := by simp [sstepSt, hp]
    have hob : (sstepObs s .clean).outcome = .ok none ∧ (sstepObs s .clean).cleaned = cleanRequests s := by
      simp [sstepObs, hp, mkObs]
    have hR' := RelsOK.clean s
    refine ⟨?_, v1, v2, v3, ?_, ?_, ?_, ?_, ?_, ?_, ?_, ?_, ?_⟩
    all_goals simp only [core_clean g s hp, lpending, hob.2, hst]
    · rw [g1]
    · exact g5
    · exact g6
    · exact g7
    · exact g8
    · exact g9
    · exact hR'.mem
    · exact hR'.nd
    · exact hR'.len
    · simp [cleanState]
  | newSession =>
    simp only [lop?]
    obtain ⟨v1, v2, v3⟩ := sstepObs_view s .drop
    refine ⟨?_, v1, v2, v3, ?_, ?_, ?_, ?_, ?_, ?_, ?_, ?_, ?_⟩
    all_goals simp only [core_drop, lpending, sstepSt]
    · exact g5
    · exact g6
    · exact g7
    · exact g8
    · exact g9
    · exact g10
    · exact g11
    · exact g12
    · exact g13

end Client
