/-
`GInv0`: coupling between the ghost wire view computed from observations and the model state that
needs no exclusion of any corner case: `pending`, the observed views, the limit, the gate flag,
the set of PUBRELs in flight (`rels` ↔ `outgoing_rel`), the incoming QoS 2 ids.
-/
import Proofs.Lemmas.ClientFrames
namespace Client
open Client.Spec

structure GInv0 (l : LState) (g : Ghost) : Prop where
  pend : g.pending = l.pending
  view : g.pView = cleanRequests l.st
  col : g.pCol = l.st.collision
  inf : g.pInf = l.st.inflight
  lim : g.limit = l.st.maxInflight
  up : g.upper = l.st.upperLimit
  ver : g.ver = l.st.ver
  man : g.manual = l.st.manualAcks
  gated : g.gated = true
  rels : ∀ i : Nat, i ∈ g.rels ↔ relContains l.st i = true
  relsNd : g.rels.Nodup
  relsLen : g.rels.length = relCount l.st.outgoingRel
  q2 : ∀ i : Nat, i ∈ g.inQos2 ↔ i ∈ l.st.incomingPub
  al : ∀ a : Nat, a ∈ g.aliases ↔ a ∈ l.st.aliases

theorem GInv0.new (ver : Version) (max : Nat) (m : Bool) :
    GInv0 (LState.new ver max m) (Ghost.init ver max m) := by
  refine ⟨rfl, ?_, rfl, rfl, rfl, rfl, rfl, rfl, rfl, ?_, by simp [Ghost.init], ?_, by simp [Ghost.init, LState.new, State.new],
    by simp [Ghost.init, LState.new, State.new]⟩
  · simp only [Ghost.init, LState.new]
    cases hl : cleanRequests (State.new ver max m) with
    | nil => rfl
    | cons r rest =>
      have : r ∈ cleanRequests (State.new ver max m) := by rw [hl]; simp
      rw [mem_cleanRequests (SInv.new ver max m)] at this
      rcases this with ⟨p, _, hp⟩ | ⟨i, _, hi⟩ | ⟨c, hc, _⟩
      · simp [State.new] at hp
      · rw [relContains_eq] at hi; simp [State.new, List.getElem?_replicate] at hi
      · simp [State.new] at hc
  · intro i
    simp only [Ghost.init, LState.new, List.not_mem_nil, false_iff]
    intro hi; rw [relContains_eq] at hi; simp [State.new, List.getElem?_replicate] at hi
  · simp [Ghost.init, LState.new, State.new, relCount_replicate]

/-! ### the PUBRELs in flight -/

theorem mem_addRel (l : List Nat) (i j : Nat) : j ∈ addRel l i ↔ j = i ∨ j ∈ l := by
  unfold addRel
  split
  · rename_i h
    have : i ∈ l := by simpa using h
    constructor
    · intro hj; exact Or.inr hj
    · rintro (rfl | hj)
      · exact this
      · exact hj
  · simp [or_comm]

theorem nodup_addRel (l : List Nat) (i : Nat) (h : l.Nodup) : (addRel l i).Nodup := by
  unfold addRel
  split
  · exact h
  · rename_i hc
    have : i ∉ l := by simpa using hc
    rw [List.nodup_append]
    exact ⟨h, by simp, by intro a ha b hb; simp at hb; subst hb; intro hab; subst hab; exact this ha⟩

theorem length_addRel (l : List Nat) (i : Nat) :
    (addRel l i).length = if i ∈ l then l.length else l.length + 1 := by
  unfold addRel
  by_cases h : i ∈ l <;> simp [h]

theorem length_filter_ne (l : List Nat) (i : Nat) (h : l.Nodup) :
    (l.filter (· != i)).length = if i ∈ l then l.length - 1 else l.length := by
  induction l with
  | nil => simp
  | cons a l ih =>
    have hnd := List.nodup_cons.mp h
    have ih' := ih hnd.2
    by_cases ha : a = i
    · subst ha
      have : a ∉ l := hnd.1
      simp [this] at ih' ⊢
      exact ih'
    · have hne : (a != i) = true := by simpa using ha
      simp only [List.filter_cons, hne, if_true, List.length_cons, List.mem_cons]
      have : (i = a) = False := by simp; exact fun h => ha h.symm
      by_cases hi : i ∈ l
      · simp [hi] at ih' ⊢
        have : 0 < l.length := List.length_pos_of_mem hi
        omega
      · simp [hi, this] at ih' ⊢
        exact ih'

theorem relContains_of_set {s s' : State} {i : Nat} {b : Bool} (he : s'.outgoingRel = s.outgoingRel.set i b)
    (hi : i < s.outgoingRel.length) (j : Nat) : relContains s' j = if i = j then b else relContains s j := by
  have := relContains_set s i j b hi
  unfold relContains at *
  rw [he]; exact this

/-- coupling of the set of release bits with a duplicate-free list of ids -/
structure RelsOK (R : List Nat) (s : State) : Prop where
  mem : ∀ i : Nat, i ∈ R ↔ relContains s i = true
  nd : R.Nodup
  len : R.length = relCount s.outgoingRel

theorem RelsOK.congr {R : List Nat} {s s' : State} (h : RelsOK R s) (he : s'.outgoingRel = s.outgoingRel) :
    RelsOK R s' := by
  refine ⟨?_, h.nd, by rw [he]; exact h.len⟩
  intro i; rw [h.mem i]; unfold relContains; rw [he]

theorem RelsOK.set_true {R : List Nat} {s s' : State} (h : RelsOK R s) (i : Nat) (hi : i < s.outgoingRel.length)
    (he : s'.outgoingRel = s.outgoingRel.set i true) : RelsOK (addRel R i) s' := by
  refine ⟨?_, nodup_addRel _ _ h.nd, ?_⟩
  · intro j
    rw [mem_addRel, h.mem j, relContains_of_set he hi j]
    by_cases hij : i = j
    · subst hij; simp
    · simp only [hij, if_false]
      constructor
      · rintro (h' | h')
        · exact absurd h'.symm hij
        · exact h'
      · intro h'; exact Or.inr h'
  · rw [length_addRel, he]
    by_cases hm : i ∈ R
    · have := (relContains_eq s i).mp ((h.mem i).mp hm)
      simp [hm, relCount_set_true_same _ _ this, h.len]
    · have hb : relContains s i = false := by
        cases hc : relContains s i with
        | false => rfl
        | true => exact absurd ((h.mem i).mpr hc) hm
      have := relContains_false_of_lt s i hi hb
      simp [hm, relCount_set_true _ _ this, h.len]

theorem RelsOK.set_false {R : List Nat} {s s' : State} (h : RelsOK R s) (i : Nat) (hb : relContains s i = true)
    (he : s'.outgoingRel = s.outgoingRel.set i false) : RelsOK (R.filter (· != i)) s' := by
  have hbit := (relContains_eq s i).mp hb
  have hi := getElem?_lt_of_some hbit
  refine ⟨?_, h.nd.filter _, ?_⟩
  · intro j
    simp only [List.mem_filter, h.mem j]
    rw [relContains_of_set he hi j]
    by_cases hij : i = j
    · subst hij; simp
    · simp only [hij, if_false]
      constructor
      · intro h'; exact h'.1
      · intro h'; exact ⟨h', by simp; exact fun h'' => hij h''.symm⟩
  · rw [length_filter_ne _ _ h.nd, he]
    have := relCount_set_false _ _ hbit
    have hm := (h.mem i).mpr hb
    simp [hm, h.len]; omega

theorem RelsOK.filter_absent {R : List Nat} {s : State} (h : RelsOK R s) (i : Nat) (hb : relContains s i = false) :
    R.filter (· != i) = R := by
  apply List.filter_eq_self.mpr
  intro a ha
  have := (h.mem a).mp ha
  simp; intro hai; subst hai; rw [hb] at this; simp at this

theorem RelsOK.clean (s : State) : RelsOK [] (cleanState s) := by
  refine ⟨?_, List.nodup_nil, by simp [cleanState, relCount_map_false]⟩
  intro i
  simp only [List.not_mem_nil, false_iff]
  intro hi; rw [relContains_eq] at hi; simp [cleanState, List.getElem?_map] at hi

/-- what the ghost does to `rels` on an `in` op -/
def relsAfterIn (R : List Nat) (p : Incoming) (o : Outcome) : List Nat :=
  let R1 := match p with
    | .pubcomp i _ => R.filter (· != i)
    | _ => R
  match o with
  | .ok (some (.pubrel j)) => addRel R1 j
  | _ => R1

theorem released_rels (g : Ghost) (p : Incoming) (o : Outcome) :
    ((g.stepIn p).released o).rels = relsAfterIn g.rels p o := by
  have hrel : ∀ g' : Ghost, (g'.released o).rels =
      match o with
      | .ok (some (.pubrel j)) => addRel g'.rels j
      | _ => g'.rels := by
    intro g'; unfold Ghost.released; (repeat' split) <;> simp_all
  have hin : (g.stepIn p).rels =
      match p with
      | .pubcomp i _ => g.rels.filter (· != i)
      | _ => g.rels := by
    unfold Ghost.stepIn
    cases p <;> simp only <;> (repeat' split) <;> rfl
  rw [hrel, hin]
  unfold relsAfterIn
  cases p <;> rfl

theorem relsAfterIn_other (R : List Nat) (p : Incoming) (o : Outcome)
    (hp : ∀ i r, p ≠ .pubcomp i r) (ho : ∀ j, o ≠ .ok (some (.pubrel j))) : relsAfterIn R p o = R := by
  unfold relsAfterIn
  cases p <;> simp_all
  all_goals (split <;> simp_all)

theorem RelsOK.handlePuback {R : List Nat} {s : State} (h : RelsOK R s) (i : Nat) :
    RelsOK R (handlePuback s i).1 ∧ ∀ j, (handlePuback s i).2 ≠ .ok (some (.pubrel j)) := by
  obtain ⟨_, _, _, _, _, _, a7, _, a9⟩ := handlePuback_fields s i
  exact ⟨h.congr a7, a9⟩

theorem RelsOK.handlePubrec {R : List Nat} {s : State} (h : RelsOK R s) (hs : SInv s) (i r : Nat) :
    RelsOK (relsAfterIn R (.pubrec i r) (handlePubrec s i r).2) (handlePubrec s i r).1 := by
  unfold Client.handlePubrec
  split
  · simpa [relsAfterIn] using h
  · simpa [relsAfterIn] using h
  · rename_i x hslot
    have hlt : i < s.outgoingRel.length := by
      have := hs.lenPub; have := hs.lenRel; have := getElem?_lt_of_some hslot; omega
    simp only
    split
    · split
      · simpa [relsAfterIn] using h.congr (s' := { s with outgoingPub := s.outgoingPub.set i none }) rfl
      · obtain ⟨_, _, _, _, _, _, a7, _, a9⟩ := release_fields
          { s with outgoingPub := s.outgoingPub.set i none, inflight := s.inflight - 1 } i
        rw [relsAfterIn_other _ _ _ (by simp) a9]
        exact h.congr a7
    · simp only [relsAfterIn, hlt, if_true]
      exact h.set_true i hlt rfl

theorem RelsOK.handlePubcomp {R : List Nat} {s : State} (h : RelsOK R s) (i r : Nat) :
    RelsOK (relsAfterIn R (.pubcomp i r) (handlePubcomp s i).2) (handlePubcomp s i).1 := by
  have key : ∀ o : Outcome, (∀ j, o ≠ .ok (some (.pubrel j))) →
      relsAfterIn R (.pubcomp i r) o = R.filter (· != i) := by
    intro o ho
    unfold relsAfterIn
    cases o with
    | ok x =>
      cases x with
      | none => rfl
      | some pk => cases pk <;> first | rfl | exact absurd rfl (ho _)
    | err e => rfl
    | panic => rfl
  unfold Client.handlePubcomp
  split
  · rename_i hc
    split
    · rw [key _ (by simp)]; exact h.set_false i hc rfl
    · obtain ⟨_, _, _, _, _, _, a7, _, a9⟩ := release_fields
        { s with outgoingRel := s.outgoingRel.set i false, inflight := s.inflight - 1 } i
      rw [key _ a9]
      exact h.set_false i hc a7
  · rename_i hc
    rw [key _ (by simp), h.filter_absent i (by simpa using hc)]; exact h

theorem handlePublish_outcome (s : State) (p : InPub) :
    (∀ j, (handlePublish s p).2 ≠ .ok (some (.pubrel j))) ∧ (∀ q, (handlePublish s p).2 ≠ .ok (some (.publish q))) := by
  unfold handlePublish
  simp only [outgoingPuback, outgoingPubrec, outgoingDisconnect]
  (repeat' split) <;> simp

theorem handlePubrel_fields (s : State) (i : Nat) :
    (handlePubrel s i).1.outgoingRel = s.outgoingRel ∧ (handlePubrel s i).1.outgoingPub = s.outgoingPub ∧
    (handlePubrel s i).1.inflight = s.inflight ∧ (handlePubrel s i).1.collision = s.collision ∧
    (handlePubrel s i).1.maxInflight = s.maxInflight ∧ (handlePubrel s i).1.aliases = s.aliases ∧
    (handlePubrel s i).1.outgoingOrder = s.outgoingOrder ∧ (handlePubrel s i).1.outgoingCount = s.outgoingCount ∧
    (∀ j, (handlePubrel s i).2 ≠ .ok (some (.pubrel j))) ∧ (∀ q, (handlePubrel s i).2 ≠ .ok (some (.publish q))) := by
  unfold handlePubrel
  (repeat' split) <;> simp [State.pushOut, State.pushEv]

theorem handleConnack_fields (s : State) (ok : Bool) (rm am : Option Nat) :
    (handleConnack s ok rm am).1.outgoingRel = s.outgoingRel ∧ (handleConnack s ok rm am).1.outgoingPub = s.outgoingPub ∧
    (handleConnack s ok rm am).1.inflight = s.inflight ∧ (handleConnack s ok rm am).1.collision = s.collision ∧
    (handleConnack s ok rm am).1.incomingPub = s.incomingPub ∧ (handleConnack s ok rm am).1.aliases = s.aliases ∧
    (handleConnack s ok rm am).1.outgoingOrder = s.outgoingOrder ∧ (handleConnack s ok rm am).1.outgoingCount = s.outgoingCount ∧
    (∀ j, (handleConnack s ok rm am).2 ≠ .ok (some (.pubrel j))) ∧ (∀ q, (handleConnack s ok rm am).2 ≠ .ok (some (.publish q))) := by
  unfold handleConnack
  split
  · simp
  · cases rm <;> cases am <;> simp

/-- the release bits follow the ghost's `rels` through every incoming packet -/
theorem RelsOK.handleIncoming {R : List Nat} {s : State} (h : RelsOK R s) (hs : SInv s) (p : Incoming) :
    RelsOK (relsAfterIn R p (handleIncoming s p).2) (handleIncoming s p).1 := by
  unfold Client.handleIncoming
  have h0 : RelsOK R (s.pushEv (.incoming p)) := h.congr rfl
  have hs0 := hs.pushEv (.incoming p)
  generalize s.pushEv (.incoming p) = s0 at h0 hs0
  simp only
  cases p with
  | pubrec i r => exact h0.handlePubrec hs0 i r
  | pubcomp i r => exact h0.handlePubcomp i r
  | puback i r =>
    have := h0.handlePuback i
    rw [relsAfterIn_other _ _ _ (by simp) this.2]; exact this.1
  | publish q =>
    rw [relsAfterIn_other _ _ _ (by simp) (handlePublish_outcome s0 q).1]
    exact h0.congr (handlePublish_fields s0 q).2.2.2.2.1
  | pubrel i r =>
    have := handlePubrel_fields s0 i
    rw [relsAfterIn_other _ _ _ (by simp) this.2.2.2.2.2.2.2.2.1]
    exact h0.congr this.1
  | connack ok sp rm am =>
    simp only
    split
    · rw [relsAfterIn_other _ _ _ (by simp) (by simp)]; exact h0
    · have := handleConnack_fields s0 ok rm am
      rw [relsAfterIn_other _ _ _ (by simp) this.2.2.2.2.2.2.2.2.1]
      exact h0.congr this.1
  | pingresp => rw [relsAfterIn_other _ _ _ (by simp) (by simp)]; exact h0.congr rfl
  | suback _ => rw [relsAfterIn_other _ _ _ (by simp) (by simp)]; exact h0
  | unsuback _ => rw [relsAfterIn_other _ _ _ (by simp) (by simp)]; exact h0
  | disconnect _ => simp only; split <;> (rw [relsAfterIn_other _ _ _ (by simp) (by simp)]; exact h0)
  | connect => rw [relsAfterIn_other _ _ _ (by simp) (by simp)]; exact h0
  | subscribe => rw [relsAfterIn_other _ _ _ (by simp) (by simp)]; exact h0
  | unsubscribe => rw [relsAfterIn_other _ _ _ (by simp) (by simp)]; exact h0
  | pingreq => rw [relsAfterIn_other _ _ _ (by simp) (by simp)]; exact h0
  | auth => rw [relsAfterIn_other _ _ _ (by simp) (by simp)]; exact h0

/-! ### topic aliases of incoming publishes (v5) -/

/-- the ghost and the state agree on which publish is a protocol error -/
theorem protocolError_iff (g : Ghost) (s : State) (q : InPub) (hv : g.ver = s.ver)
    (ha : ∀ a : Nat, a ∈ g.aliases ↔ a ∈ s.aliases) :
    protocolError g q = true ↔ publishAlias s q = none := by
  unfold protocolError publishAlias
  rw [hv]
  cases s.ver with
  | v4 => simp
  | v5 =>
    cases hal : q.alias with
    | none => simp
    | some a =>
      have hc : g.aliases.contains a = s.aliases.contains a := by
        cases h1 : s.aliases.contains a with
        | true => simpa using (ha a).mpr (by simpa using h1)
        | false =>
          cases h2 : g.aliases.contains a with
          | false => rfl
          | true => have := (ha a).mp (by simpa using h2); simp at h1; exact absurd this h1
      simp only [hc]
      cases q.topicEmpty <;> cases s.aliases.contains a <;> simp

def aliasesAfter (g : Ghost) : Incoming → List Nat
  | .publish q =>
    if protocolError g q then g.aliases else
    (match g.ver, q.alias with
     | .v5, some a => if q.topicEmpty then g.aliases else addRel g.aliases a
     | _, _ => g.aliases)
  | _ => g.aliases

theorem stepIn_aliases (g : Ghost) (p : Incoming) (o : Outcome) :
    ((g.stepIn p).released o).aliases = aliasesAfter g p := by
  have h1 : ∀ g' : Ghost, (g'.released o).aliases = g'.aliases := by
    intro g'; unfold Ghost.released; (repeat' split) <;> rfl
  rw [h1]
  unfold Ghost.stepIn aliasesAfter
  cases p <;> (try rfl)
  all_goals (simp only; (repeat' split) <;> simp_all)

theorem publishAlias_aliases {s s1 : State} {q : InPub} (h : publishAlias s q = some s1) (a : Nat) :
    a ∈ s1.aliases ↔
      (match s.ver, q.alias with
       | .v5, some b => if q.topicEmpty then a ∈ s.aliases else (a = b ∨ a ∈ s.aliases)
       | _, _ => a ∈ s.aliases) := by
  unfold publishAlias at h
  cases hv : s.ver with
  | v4 => rw [hv] at h; simp only at h; cases h; rfl
  | v5 =>
    rw [hv] at h; simp only at h
    cases hal : q.alias with
    | none => rw [hal] at h; simp only at h; cases h; rfl
    | some b =>
      rw [hal] at h; simp only at h
      cases ht : q.topicEmpty with
      | true =>
        simp only [ht, Bool.not_true, Bool.false_eq_true, if_false] at h
        split at h
        · cases h; simp
        · cases h
      | false =>
        simp only [ht, Bool.not_false, if_true] at h
        cases h
        simp only [Bool.false_eq_true, if_false]
        by_cases hc : s.aliases.contains b = true
        · have : b ∈ s.aliases := by simpa using hc
          simp only [hc, if_true]
          constructor
          · intro h'; exact Or.inr h'
          · rintro (rfl | h') <;> assumption
        · have hnb : b ∉ s.aliases := by simpa using hc
          simp [hnb]

theorem handlePublish_aliases (s : State) (q : InPub) :
    (handlePublish s q).1.aliases = match publishAlias s q with | some s1 => s1.aliases | none => s.aliases := by
  unfold handlePublish
  cases publishAlias s q with
  | none => simp [outgoingDisconnect, State.pushOut, State.pushEv]
  | some s1 =>
    simp only [outgoingPuback, outgoingPubrec]
    (repeat' split) <;> simp_all [State.pushOut, State.pushEv]

theorem al_handleIncoming (g : Ghost) (s : State) (p : Incoming) (hv : g.ver = s.ver)
    (h : ∀ a : Nat, a ∈ g.aliases ↔ a ∈ s.aliases) :
    ∀ a : Nat, a ∈ aliasesAfter g p ↔ a ∈ (handleIncoming s p).1.aliases := by
  unfold handleIncoming
  have h0 : ∀ a : Nat, a ∈ g.aliases ↔ a ∈ (s.pushEv (.incoming p)).aliases := h
  have hv0 : g.ver = (s.pushEv (.incoming p)).ver := hv
  generalize s.pushEv (.incoming p) = s0 at h0 hv0
  simp only
  cases p with
  | publish q =>
    intro a
    rw [handlePublish_aliases]
    unfold aliasesAfter
    have hpe := protocolError_iff g s0 q hv0 h0
    cases hal : publishAlias s0 q with
    | none => simp only [hpe.mpr hal, if_true]; exact h0 a
    | some s1 =>
      have : protocolError g q = false := by
        cases hp : protocolError g q with
        | false => rfl
        | true => rw [hpe.mp hp] at hal; cases hal
      simp only [this, Bool.false_eq_true, if_false]
      rw [publishAlias_aliases hal a, hv0]
      cases s0.ver with
      | v4 => exact h0 a
      | v5 =>
        cases q.alias with
        | none => exact h0 a
        | some b =>
          simp only
          split
          · exact h0 a
          · rw [mem_addRel, h0 a]
  | puback i r => intro a; rw [(handlePuback_fields s0 i).2.2.2.2.2.2.2.1]; exact h0 a
  | pubrec i r => intro a; rw [(handlePubrec_fields s0 i r).2.2.2.2.2.2]; exact h0 a
  | pubrel i r => intro a; rw [(handlePubrel_fields s0 i).2.2.2.2.2.1]; exact h0 a
  | pubcomp i r => intro a; rw [(handlePubcomp_fields s0 i).2.2.2.2.2.2.1]; exact h0 a
  | connack ok sp rm am =>
    intro a
    simp only
    split
    · exact h0 a
    · rw [(handleConnack_fields s0 ok rm am).2.2.2.2.2.1]; exact h0 a
  | pingresp => exact h0
  | suback _ => exact h0
  | unsuback _ => exact h0
  | disconnect _ => intro i; simp only; split <;> exact h0 i
  | connect => exact h0
  | subscribe => exact h0
  | unsubscribe => exact h0
  | pingreq => exact h0
  | auth => exact h0

/-! ### incoming QoS 2 ids -/

def q2After (g : Ghost) : Incoming → List Nat
  | .publish q => if protocolError g q then g.inQos2 else if q.qos = 0 || q.qos = 1 then g.inQos2 else addRel g.inQos2 q.pkid
  | .pubrel i _ => g.inQos2.filter (· != i)
  | _ => g.inQos2

theorem stepIn_inQos2 (g : Ghost) (p : Incoming) (o : Outcome) :
    ((g.stepIn p).released o).inQos2 = q2After g p := by
  have h1 : ∀ g' : Ghost, (g'.released o).inQos2 = g'.inQos2 := by
    intro g'; unfold Ghost.released; (repeat' split) <;> rfl
  rw [h1]
  unfold Ghost.stepIn q2After
  cases p <;> (try rfl)
  all_goals (simp only; (repeat' split) <;> simp_all)

theorem handlePublish_incomingPub (s : State) (q : InPub) (i : Nat) :
    i ∈ (handlePublish s q).1.incomingPub ↔
      (if publishAlias s q = none then i ∈ s.incomingPub
       else if q.qos = 0 ∨ q.qos = 1 then i ∈ s.incomingPub else (i = q.pkid ∨ i ∈ s.incomingPub)) := by
  unfold handlePublish
  cases hal : publishAlias s q with
  | none => simp [outgoingDisconnect, State.pushOut, State.pushEv]
  | some s1 =>
    have hf := (publishAlias_fields hal).2.2.2.2.1
    simp only [outgoingPuback, outgoingPubrec, reduceCtorEq, if_false]
    by_cases hq0 : q.qos = 0
    · simp [hq0, hf]
    · by_cases hq1 : q.qos = 1
      · cases hm : s1.manualAcks <;> simp [hq1, hm, State.pushOut, State.pushEv, hf]
      · by_cases hc : s1.incomingPub.contains q.pkid = true
        · have hm : q.pkid ∈ s.incomingPub := by rw [← hf]; simpa using hc
          have hor : (i = q.pkid ∨ i ∈ s.incomingPub) ↔ i ∈ s.incomingPub := by
            constructor
            · rintro (rfl | h') <;> assumption
            · intro h'; exact Or.inr h'
          cases hma : s1.manualAcks <;> simp [hq0, hq1, hm, hma, State.pushOut, State.pushEv, hf, hor]
        · have hm : q.pkid ∉ s.incomingPub := by rw [← hf]; simpa using hc
          cases hma : s1.manualAcks <;> simp [hq0, hq1, hm, State.pushOut, State.pushEv, hf]

theorem q2_handleIncoming (g : Ghost) (s : State) (p : Incoming) (hv : g.ver = s.ver)
    (ha : ∀ a : Nat, a ∈ g.aliases ↔ a ∈ s.aliases) (h : ∀ i : Nat, i ∈ g.inQos2 ↔ i ∈ s.incomingPub) :
    ∀ i : Nat, i ∈ q2After g p ↔ i ∈ (handleIncoming s p).1.incomingPub := by
  unfold handleIncoming
  have h0 : ∀ i : Nat, i ∈ g.inQos2 ↔ i ∈ (s.pushEv (.incoming p)).incomingPub := h
  have ha0 : ∀ a : Nat, a ∈ g.aliases ↔ a ∈ (s.pushEv (.incoming p)).aliases := ha
  have hv0 : g.ver = (s.pushEv (.incoming p)).ver := hv
  generalize s.pushEv (.incoming p) = s0 at h0 ha0 hv0
  simp only
  cases p with
  | publish q =>
    intro i
    rw [handlePublish_incomingPub s0 q i]
    unfold q2After
    have hpe := protocolError_iff g s0 q hv0 ha0
    by_cases hp : protocolError g q = true
    · simp only [hp, if_true, hpe.mp hp]; exact h0 i
    · have hn : ¬ publishAlias s0 q = none := fun h' => hp (hpe.mpr h')
      simp only [hp, hn, if_false]
      by_cases hq : q.qos = 0 ∨ q.qos = 1
      · have : (decide (q.qos = 0) || decide (q.qos = 1)) = true := by simpa using hq
        simp only [this, if_true, hq]; exact h0 i
      · have : (decide (q.qos = 0) || decide (q.qos = 1)) = false := by simpa using hq
        simp only [this, hq, if_false, Bool.false_eq_true]
        rw [mem_addRel, h0 i]
  | pubrel j r =>
    intro i
    unfold handlePubrel q2After
    by_cases hc : s0.incomingPub.contains j = true
    · simp only [hc, if_true]
      simp [State.pushOut, State.pushEv, List.mem_filter, h0]
    · simp only [hc]
      have : j ∉ s0.incomingPub := by simpa using hc
      simp only [List.mem_filter, h0 i]
      constructor
      · intro h'; exact h'.1
      · intro h'; exact ⟨h', by simp; intro hij; subst hij; exact this h'⟩
  | puback j r => intro i; rw [(handlePuback_fields s0 j).2.2.2.2.1]; exact h0 i
  | pubrec j r => intro i; rw [(handlePubrec_fields s0 j r).2.2.2.2.1]; exact h0 i
  | pubcomp j r => intro i; rw [(handlePubcomp_fields s0 j).2.2.2.2.1]; exact h0 i
  | connack ok sp rm am =>
    intro i
    simp only
    split
    · exact h0 i
    · rw [(handleConnack_fields s0 ok rm am).2.2.2.2.1]; exact h0 i
  | pingresp => exact h0
  | suback _ => exact h0
  | unsuback _ => exact h0
  | disconnect _ => intro i; simp only; split <;> exact h0 i
  | connect => exact h0
  | subscribe => exact h0
  | unsubscribe => exact h0
  | pingreq => exact h0
  | auth => exact h0

/-! ### projections of the ghost step -/

theorem stepOut_pending (g : Ghost) (r : Request) (o : Outcome) :
    (g.stepOut r o).pending =
      match r with
      | .publish p => eraseFirst g.pending (.publish p)
      | .pubrel i => eraseFirst g.pending (.pubrel i)
      | _ => g.pending := by
  unfold Ghost.stepOut
  cases r <;> simp only <;> (repeat' split) <;> rfl

theorem stepOut_static (g : Ghost) (r : Request) (o : Outcome) :
    (g.stepOut r o).limit = g.limit ∧ (g.stepOut r o).upper = g.upper ∧ (g.stepOut r o).ver = g.ver ∧
    (g.stepOut r o).manual = g.manual ∧ (g.stepOut r o).inQos2 = g.inQos2 ∧
    (g.stepOut r o).gated = (g.gated && (g.loopOwn r || (isUserRequest r && g.gateOpen))) ∧
    (g.stepOut r o).aliases = g.aliases := by
  unfold Ghost.stepOut
  cases r <;> simp only <;> (repeat' split) <;> simp

theorem stepOut_rels (g : Ghost) (r : Request) (o : Outcome) :
    (g.stepOut r o).rels =
      match r, o with
      | .pubrel _, .ok (some (.pubrel j)) => addRel g.rels j
      | _, _ => g.rels := by
  unfold Ghost.stepOut
  cases r <;> simp only <;> (repeat' split) <;> simp_all

theorem released_static (g : Ghost) (o : Outcome) :
    (g.released o).limit = g.limit ∧ (g.released o).upper = g.upper ∧ (g.released o).ver = g.ver ∧
    (g.released o).manual = g.manual ∧ (g.released o).pending = g.pending ∧ (g.released o).gated = g.gated := by
  unfold Ghost.released
  (repeat' split) <;> simp

theorem stepIn_static (g : Ghost) (p : Incoming) :
    (g.stepIn p).upper = g.upper ∧ (g.stepIn p).ver = g.ver ∧
    (g.stepIn p).manual = g.manual ∧ (g.stepIn p).pending = g.pending ∧ (g.stepIn p).gated = g.gated := by
  unfold Ghost.stepIn
  cases p <;> simp only <;> (repeat' split) <;> simp

theorem stepIn_limit (g : Ghost) (p : Incoming) :
    (g.stepIn p).limit =
      match g.ver, p with
      | .v5, .connack true _ (some m) _ => min m g.upper
      | _, _ => g.limit := by
  unfold Ghost.stepIn
  cases p <;> simp only <;> (repeat' split) <;> simp_all

theorem eraseFirst_head (r : Request) (l : List Request) : eraseFirst (r :: l) r = l := by
  simp [eraseFirst]

theorem sstepObs_view (s : State) (op : SOp) :
    (sstepObs s op).view = cleanRequests (sstepSt s op) ∧ (sstepObs s op).col = (sstepSt s op).collision ∧
    (sstepObs s op).inf = (sstepSt s op).inflight := by
  unfold sstepObs sstepSt
  cases op <;> simp only [mkObs] <;> (try split) <;> simp

theorem handleIncoming_maxInflight (s : State) (p : Incoming) :
    (handleIncoming s p).1.maxInflight =
      match s.ver, p with
      | .v5, .connack true _ (some m) _ => min m s.upperLimit
      | _, _ => s.maxInflight := by
  unfold handleIncoming
  simp only
  cases p with
  | connack ok sp rm am =>
    cases hv : s.ver with
    | v4 => simp [State.pushEv, hv]
    | v5 =>
      simp only [State.pushEv, hv, handleConnack]
      cases ok <;> cases rm <;> cases am <;> simp
  | publish q =>
    rw [(handlePublish_fields _ q).2.2.2.2.2.2.1]
    cases s.ver <;> rfl
  | puback i r => rw [(handlePuback_fields _ i).2.2.2.2.2.1]; cases s.ver <;> rfl
  | pubrec i r => rw [(handlePubrec_fields _ i r).2.2.2.2.2.1]; cases s.ver <;> rfl
  | pubrel i r => rw [(handlePubrel_fields _ i).2.2.2.2.1]; cases s.ver <;> rfl
  | pubcomp i r => rw [(handlePubcomp_fields _ i).2.2.2.2.2.1]; cases s.ver <;> rfl
  | disconnect _ => simp only; cases hv : s.ver <;> simp [State.pushEv, hv]
  | pingresp => cases s.ver <;> rfl
  | suback _ => cases s.ver <;> rfl
  | unsuback _ => cases s.ver <;> rfl
  | connect => cases s.ver <;> rfl
  | subscribe => cases s.ver <;> rfl
  | unsubscribe => cases s.ver <;> rfl
  | pingreq => cases s.ver <;> rfl
  | auth => cases s.ver <;> rfl

theorem sstepObs_op (s : State) (op : SOp) : (sstepObs s op).op = op := by
  unfold sstepObs
  cases op <;> simp only [mkObs] <;> (try split) <;> rfl

theorem core_out (g : Ghost) (s : State) (r : Request) :
    g.core (sstepObs s (.out r)) =
      { g.stepOut r (sstepObs s (.out r)).outcome with
        pView := (sstepObs s (.out r)).view, pCol := (sstepObs s (.out r)).col, pInf := (sstepObs s (.out r)).inf } := by
  unfold Ghost.core; rw [sstepObs_op]

theorem core_inc (g : Ghost) (s : State) (p : Incoming) :
    g.core (sstepObs s (.inc p)) =
      { (g.stepIn p).released (sstepObs s (.inc p)).outcome with
        pView := (sstepObs s (.inc p)).view, pCol := (sstepObs s (.inc p)).col, pInf := (sstepObs s (.inc p)).inf } := by
  unfold Ghost.core; rw [sstepObs_op]

theorem core_clean (g : Ghost) (s : State) (h : cleanPanics s = false) :
    g.core (sstepObs s .clean) =
      { g with pending := cleanRequests s ++ g.pending, unacked := [], rels := [], inQos2 := [],
               pView := (sstepObs s .clean).view, pCol := (sstepObs s .clean).col, pInf := (sstepObs s .clean).inf } := by
  unfold Ghost.core; rw [sstepObs_op]
  simp [sstepObs, h, mkObs]

theorem core_drop (g : Ghost) (s : State) :
    g.core (sstepObs s .drop) =
      { g with done := pubTags g.pending ++ g.done, pending := [],
               pView := (sstepObs s .drop).view, pCol := (sstepObs s .drop).col, pInf := (sstepObs s .drop).inf } := by
  unfold Ghost.core; rw [sstepObs_op]

theorem GInv0.relsOK {l : LState} {g : Ghost} (h : GInv0 l g) : RelsOK g.rels l.st := ⟨h.rels, h.relsNd, h.relsLen⟩

theorem GInv0.windowOpen {l : LState} {g : Ghost} (h : GInv0 l g) : g.windowOpen = windowOpen l.st := by
  unfold Ghost.windowOpen Client.windowOpen
  rw [h.inf, h.lim, h.col]
  cases hc : l.st.collision.isSome <;>
    by_cases hi : l.st.inflight < l.st.maxInflight <;> simp_all <;> omega

theorem GInv0.gateOpen {l : LState} {g : Ghost} (h : GInv0 l g) :
    g.gateOpen = (l.pending.isEmpty && selectEnabled l.st l.pending) := by
  unfold Ghost.gateOpen selectEnabled
  rw [h.pend, h.windowOpen]
  cases hp : l.pending with
  | nil => simp [pendingReady]
  | cons r rest => simp

/-- fields a (re)played publish leaves alone -/
theorem outgoingPublish_fields (s : State) (p : Pub) :
    (handleOutgoing s (.publish p)).1.outgoingRel = s.outgoingRel ∧
    (handleOutgoing s (.publish p)).1.incomingPub = s.incomingPub ∧
    (handleOutgoing s (.publish p)).1.maxInflight = s.maxInflight ∧
    (handleOutgoing s (.publish p)).1.upperLimit = s.upperLimit ∧
    (handleOutgoing s (.publish p)).1.ver = s.ver ∧
    (handleOutgoing s (.publish p)).1.manualAcks = s.manualAcks ∧
    (handleOutgoing s (.publish p)).1.aliases = s.aliases := by
  simp only [handleOutgoing, outgoingPublish]
  split
  · simp
  · split
    · simp [publishTail, State.pushOut, State.pushEv]
    · split
      · split
        · simp
        · obtain ⟨a1, a2, a3, a4, a5, a6, a7, _⟩ := publishWithId_fields (nextPkidSt s) { p with pkid := nextPkidVal s }
          obtain ⟨b1, b2, b3, b4, b5, b6, b7⟩ := nextPkidSt_fields s
          exact ⟨a1.trans b1, a2.trans b2, a3.trans b3, a4.trans b4, a5.trans b5, a6.trans b6, a7.trans b7⟩
      · obtain ⟨a1, a2, a3, a4, a5, a6, a7, _⟩ := publishWithId_fields s p
        exact ⟨a1, a2, a3, a4, a5, a6, a7⟩

/-- one operation of the loop keeps the ghost coupled -/
theorem GInv0.lstep {l : LState} {g : Ghost} (h0 : Inv0 l) (hg : GInv0 l g) (op : LOp) :
    match (lstep l op).2 with
    | none => GInv0 (lstep l op).1 g
    | some o => GInv0 (lstep l op).1 (g.core o) := by
  obtain ⟨s, pd⟩ := l
  have hgate := hg.gateOpen
  have hR := hg.relsOK
  obtain ⟨g1, g2, g3, g4, g5, g6, g7, g8, g9, g10, g11, g12, g13, g14⟩ := hg
  simp only at *
  unfold Client.lstep
  cases op with
  | user u =>
    by_cases hc : (pd.isEmpty && selectEnabled s pd) = true
    · simp only [lop?, hc, if_true]
      have hpd : pd = [] := by
        simp only [Bool.and_eq_true, List.isEmpty_iff] at hc; exact hc.1
      subst hpd
      obtain ⟨f1, f2, f3, f4, f5, f6, f7⟩ := user_frame s u
      obtain ⟨v1, v2, v3⟩ := sstepObs_view s (.out u.toRequest)
      obtain ⟨t1, t2, t3, t4, t5, t6, t7⟩ := stepOut_static g u.toRequest (sstepObs s (.out u.toRequest)).outcome
      have hrels : (g.stepOut u.toRequest (sstepObs s (.out u.toRequest)).outcome).rels = g.rels := by
        rw [stepOut_rels]; cases u <;> rfl
      have hpend : (g.stepOut u.toRequest (sstepObs s (.out u.toRequest)).outcome).pending = [] := by
        rw [stepOut_pending, g1]; cases u <;> rfl
      have hR' : RelsOK g.rels (sstepSt s (.out u.toRequest)) := hR.congr (by simp [sstepSt, drainEvents, f1])
      refine ⟨?_, v1, v2, v3, ?_, ?_, ?_, ?_, ?_, ?_, ?_, ?_, ?_, ?_⟩
      all_goals simp only [core_out, lpending, sstepSt, drainEvents]
      · exact hpend
      · rw [t1, g5, f3]
      · rw [t2, g6, f4]
      · rw [t3, g7, f5]
      · rw [t4, g8, f6]
      · rw [t6, g9, hgate, hc]; cases u <;> simp [UserReq.toRequest, isUserRequest]
      · rw [hrels]; exact hR'.mem
      · rw [hrels]; exact hR'.nd
      · rw [hrels]; exact hR'.len
      · rw [t5, f2]; exact g13
      · rw [t7, f7]; exact g14
    · simp only [lop?, hc]
      exact ⟨g1, g2, g3, g4, g5, g6, g7, g8, g9, g10, g11, g12, g13, g14⟩
  | pend =>
    cases pd with
    | nil => exact ⟨g1, g2, g3, g4, g5, g6, g7, g8, g9, g10, g11, g12, g13, g14⟩
    | cons r rest =>
      by_cases hrd : pendingReady s (r :: rest) = true
      case neg =>
        simp only [lop?, hrd]
        exact ⟨g1, g2, g3, g4, g5, g6, g7, g8, g9, g10, g11, g12, g13, g14⟩
      simp only [lop?, hrd, if_true]
      have hwin : g.windowOpen = Client.windowOpen s := by
        unfold Ghost.windowOpen Client.windowOpen
        rw [g4, g5, g3]
        cases hc : s.collision.isSome <;> by_cases hi : s.inflight < s.maxInflight <;> simp_all <;> omega
      obtain ⟨v1, v2, v3⟩ := sstepObs_view s (.out r)
      obtain ⟨t1, t2, t3, t4, t5, t6, t7⟩ := stepOut_static g r (sstepObs s (.out r)).outcome
      cases r with
      | publish p =>
        obtain ⟨f1, f2, f3, f4, f5, f6, f7⟩ := outgoingPublish_fields s p
        have hrels : (g.stepOut (.publish p) (sstepObs s (.out (.publish p))).outcome).rels = g.rels := by
          rw [stepOut_rels]
        have hR' : RelsOK g.rels (sstepSt s (.out (.publish p))) := hR.congr (by simp [sstepSt, drainEvents, f1])
        refine ⟨?_, v1, v2, v3, ?_, ?_, ?_, ?_, ?_, ?_, ?_, ?_, ?_, ?_⟩
        all_goals simp only [core_out, lpending, List.tail_cons, sstepSt, drainEvents]
        · rw [stepOut_pending, g1]; simp [eraseFirst_head]
        · rw [t1, g5, f3]
        · rw [t2, g6, f4]
        · rw [t3, g7, f5]
        · rw [t4, g8, f6]
        · rw [t6, g9]
          have : g.loopOwn (.publish p) = true := by
            simp only [pendingReady] at hrd
            simp only [Ghost.loopOwn, g1, List.head?_cons, beq_self_eq_true, Bool.true_and, hwin]
            exact hrd
          simp [this]
        · rw [hrels]; exact hR'.mem
        · rw [hrels]; exact hR'.nd
        · rw [hrels]; exact hR'.len
        · rw [t5, f2]; exact g13
        · rw [t7, f7]; exact g14
      | pubrel i =>
        have h1 := h0.pendWF (.pubrel i) (by simp)
        simp only [PendOK] at h1
        have hw := h0.window; have hml := h0.maxLe; have hul := h0.upLe; have hlen := h0.sinv.lenRel
        simp only [List.length_cons] at hw hml hul hlen
        have hlt : i < s.outgoingRel.length := by omega
        have heff := eff_pubrel_replay s i (by omega) hlt (by omega)
        have hst : sstepSt s (.out (.pubrel i)) =
            drainEvents ({ s with outgoingRel := s.outgoingRel.set i true, inflight := s.inflight + 1 }.pushOut (.pubrel i)) := by
          simp only [sstepSt, heff]
        have hout : (sstepObs s (.out (.pubrel i))).outcome = .ok (some (.pubrel i)) := by
          simp only [sstepObs, mkObs, heff]
        have hrels : (g.stepOut (.pubrel i) (sstepObs s (.out (.pubrel i))).outcome).rels = addRel g.rels i := by
          rw [stepOut_rels, hout]
        have hR' : RelsOK (addRel g.rels i) (sstepSt s (.out (.pubrel i))) := hR.set_true i hlt (by rw [hst]; rfl)
        refine ⟨?_, v1, v2, v3, ?_, ?_, ?_, ?_, ?_, ?_, ?_, ?_, ?_, ?_⟩
        all_goals simp only [core_out, lpending, List.tail_cons]
        · rw [stepOut_pending, g1]; simp [eraseFirst_head]
        · rw [t1, g5, hst]; rfl
        · rw [t2, g6, hst]; rfl
        · rw [t3, g7, hst]; rfl
        · rw [t4, g8, hst]; rfl
        · rw [t6, g9]
          have : g.loopOwn (.pubrel i) = true := by simp [Ghost.loopOwn, g1]
          simp [this]
        · rw [hrels]; exact hR'.mem
        · rw [hrels]; exact hR'.nd
        · rw [hrels]; exact hR'.len
        · rw [t5, hst]; exact g13
        · rw [t7, hst]; exact g14
      | subscribe n => exact absurd (h0.pendWF (.subscribe n) (by simp)) (by simp [PendOK])
      | unsubscribe => exact absurd (h0.pendWF .unsubscribe (by simp)) (by simp [PendOK])
      | pingreq => exact absurd (h0.pendWF .pingreq (by simp)) (by simp [PendOK])
      | disconnect => exact absurd (h0.pendWF .disconnect (by simp)) (by simp [PendOK])
      | puback j => exact absurd (h0.pendWF (.puback j) (by simp)) (by simp [PendOK])
      | pubrec j => exact absurd (h0.pendWF (.pubrec j) (by simp)) (by simp [PendOK])
      | other => exact absurd (h0.pendWF .other (by simp)) (by simp [PendOK])
  | ping =>
    simp only [lop?]
    obtain ⟨f1, f2, f3, f4, f5, f6, f7, f8, f9, f10, f11, f12, f13⟩ := ping_frame s
    obtain ⟨v1, v2, v3⟩ := sstepObs_view s (.out .pingreq)
    obtain ⟨t1, t2, t3, t4, t5, t6, t7⟩ := stepOut_static g .pingreq (sstepObs s (.out .pingreq)).outcome
    have hrels : (g.stepOut .pingreq (sstepObs s (.out .pingreq)).outcome).rels = g.rels := by rw [stepOut_rels]
    have hR' : RelsOK g.rels (sstepSt s (.out .pingreq)) := hR.congr (by simp [sstepSt, drainEvents, f1])
    refine ⟨?_, v1, v2, v3, ?_, ?_, ?_, ?_, ?_, ?_, ?_, ?_, ?_, ?_⟩
    all_goals simp only [core_out, lpending, sstepSt, drainEvents]
    · rw [stepOut_pending, g1]
    · rw [t1, g5, f4]
    · rw [t2, g6, f5]
    · rw [t3, g7, f6]
    · rw [t4, g8, f7]
    · rw [t6, g9]; simp [Ghost.loopOwn]
    · rw [hrels]; exact hR'.mem
    · rw [hrels]; exact hR'.nd
    · rw [hrels]; exact hR'.len
    · rw [t5, f3]; exact g13
    · rw [t7, f10]; exact g14
  | inc p =>
    simp only [lop?]
    obtain ⟨f1, f2, f3, f4⟩ := incoming_frame s p
    obtain ⟨v1, v2, v3⟩ := sstepObs_view s (.inc p)
    have hout : (sstepObs s (.inc p)).outcome = (handleIncoming s p).2 := by simp [sstepObs, mkObs]
    obtain ⟨r1, r2, r3, r4, r5, r6⟩ := released_static (g.stepIn p) (handleIncoming s p).2
    obtain ⟨i1, i2, i3, i4, i5⟩ := stepIn_static g p
    have hR' := hR.handleIncoming h0.sinv p
    have hq := q2_handleIncoming g s p g7 g14 g13
    have hal := al_handleIncoming g s p g7 g14
    refine ⟨?_, v1, v2, v3, ?_, ?_, ?_, ?_, ?_, ?_, ?_, ?_, ?_, ?_⟩
    all_goals simp only [core_inc, lpending, sstepSt, drainEvents, hout]
    · rw [r5, i4, g1]
    · rw [r1, stepIn_limit, handleIncoming_maxInflight, g7, g6, g5]
    · rw [r2, i1, g6, f1]
    · rw [r3, i2, g7, f2]
    · rw [r4, i3, g8, f3]
    · rw [r6, i5, g9]
    · rw [released_rels]; exact hR'.mem
    · rw [released_rels]; exact hR'.nd
    · rw [released_rels]; exact hR'.len
    · rw [stepIn_inQos2]; exact hq
    · rw [stepIn_aliases]; exact hal
  | fail =>
    simp only [lop?]
    obtain ⟨v1, v2, v3⟩ := sstepObs_view s .clean
    have hp := h0.sinv.cleanPanics
    have hst : sstepSt s .clean = cleanState s := by simp [sstepSt, hp]
    have hob : (sstepObs s .clean).outcome = .ok none ∧ (sstepObs s .clean).cleaned = cleanRequests s := by
      simp [sstepObs, hp, mkObs]
    have hR' := RelsOK.clean s
    refine ⟨?_, v1, v2, v3, ?_, ?_, ?_, ?_, ?_, ?_, ?_, ?_, ?_, ?_⟩
    all_goals simp only [core_clean g s hp, lpending, hob.2, hst]
    · rw [g1]
    · exact g5
    · exact g6
    · exact g7
    · exact g8
    · exact g9
    · exact hR'.mem
    · exact hR'.nd
    · exact hR'.len
    · simp [cleanState]
    · exact g14
  | newSession =>
    simp only [lop?]
    obtain ⟨v1, v2, v3⟩ := sstepObs_view s .drop
    refine ⟨?_, v1, v2, v3, ?_, ?_, ?_, ?_, ?_, ?_, ?_, ?_, ?_, ?_⟩
    all_goals simp only [core_drop, lpending, sstepSt]
    · exact g5
    · exact g6
    · exact g7
    · exact g8
    · exact g9
    · exact g10
    · exact g11
    · exact g12
    · exact g13
    · exact g14

end Client
