import Model.CommitLog
import Model.CommitLogSpec

namespace CommitLog
variable {α : Type}

/-! ### lists -/

theorem zip_range'_eq_zipIdx : ∀ (l : List α) (a m : Nat), l.length ≤ m →
    l.zip (List.range' a m) = l.zipIdx a
  | [], _, _, _ => by simp
  | x :: xs, a, 0, h => by simp at h
  | x :: xs, a, m + 1, h => by
    simp only [List.range'_succ, List.zip_cons_cons, List.zipIdx_cons]
    rw [zip_range'_eq_zipIdx xs (a + 1) m (by simpa using h)]

theorem drop_zipIdx' : ∀ (l : List α) (a k : Nat), (l.zipIdx a).drop k = (l.drop k).zipIdx (a + k)
  | [], _, _ => by simp
  | x :: xs, a, 0 => by simp
  | x :: xs, a, k + 1 => by
    simp only [List.zipIdx_cons, List.drop_succ_cons]
    rw [drop_zipIdx' xs (a + 1) k]; congr 1; omega

theorem take_zipIdx' : ∀ (l : List α) (a k : Nat), (l.zipIdx a).take k = (l.take k).zipIdx a
  | [], _, _ => by simp
  | x :: xs, a, 0 => by simp
  | x :: xs, a, k + 1 => by
    simp only [List.zipIdx_cons, List.take_succ_cons]
    rw [take_zipIdx' xs (a + 1) k]

theorem drop_take_append_left (A B : List α) (k n : Nat) (hk : k ≤ A.length) :
    ((A ++ B).drop k).take n = (A.drop k).take n ++ B.take (n - (A.length - k)) := by
  rw [List.drop_append, List.take_append]
  have : k - A.length = 0 := by omega
  simp [this]

/-! ### segments -/

@[simp] theorem length_tagSeg (i : Nat) (s : Seg α) : (tagSeg i s).length = s.len := by
  simp [tagSeg, Seg.len]

theorem Seg.slice_eq (s : Seg α) (cur : Cursor) (idx limit : Nat) (hc : cur.2 = s.abs + idx)
    (h1 : idx ≤ limit) :
    s.slice cur idx limit = ((tagSeg cur.1 s).drop idx).take (limit - idx) := by
  unfold Seg.slice tagSeg
  rw [zip_range'_eq_zipIdx _ _ _ (by simp; omega)]
  rw [← List.map_drop, ← List.map_take, drop_zipIdx', take_zipIdx', hc]

/-- `Segment::readv` for a cursor at or after the segment's first offset. -/
theorem Seg.readv_spec (s : Seg α) (cur : Cursor) (len : Nat) (h : s.abs ≤ cur.2)
    (hU : s.len + len < U64) :
    s.readv cur len = .ok (((tagSeg cur.1 s).drop (cur.2 - s.abs)).take len,
      if cur.2 - s.abs + len < s.len then .next (cur.2 + len) else .done s.next) := by
  unfold Seg.readv
  have h0 : ¬ cur.2 < s.abs := by omega
  simp only [h0, if_false]
  by_cases h1 : cur.2 - s.abs ≥ s.len
  · have h2 : ¬ cur.2 - s.abs + len < s.len := by omega
    simp only [h1, if_true, h2, if_false]
    rw [List.drop_eq_nil_of_le (by simp; omega)]; simp
  · have h2 : ¬ cur.2 - s.abs + len ≥ U64 := by omega
    simp only [h1, if_false, h2]
    by_cases h3 : cur.2 - s.abs + len ≥ s.len
    · have h4 : ¬ s.len < cur.2 - s.abs := by omega
      have h5 : ¬ cur.2 - s.abs + len < s.len := by omega
      simp only [h3, if_true, h4, if_false, h5]
      rw [Seg.slice_eq s cur _ _ (by omega) (by omega)]
      congr 2
      rw [List.take_of_length_le (by simp), List.take_of_length_le (by simp; omega)]
    · have h4 : ¬ (cur.2 - s.abs + len < cur.2 - s.abs ∨ s.len < cur.2 - s.abs + len) := by omega
      have h5 : cur.2 - s.abs + len < s.len := by omega
      simp only [h3, if_false, h4, h5, if_true]
      rw [Seg.slice_eq s cur _ _ (by omega) (by omega)]
      congr 2
      · congr 1; omega
      · congr 1; omega

/-! ### segment lists -/

@[simp] theorem flat_nil : flat ([] : List (Seg α)) = [] := rfl
@[simp] theorem flat_cons (s : Seg α) (r : List (Seg α)) : flat (s :: r) = s.data ++ flat r := rfl
@[simp] theorem tagSegs_nil (i : Nat) : tagSegs i ([] : List (Seg α)) = [] := rfl
@[simp] theorem tagSegs_cons (i : Nat) (s : Seg α) (r : List (Seg α)) :
    tagSegs i (s :: r) = tagSeg i s ++ tagSegs (i + 1) r := rfl

theorem flat_append (a b : List (Seg α)) : flat (a ++ b) = flat a ++ flat b := by
  induction a with
  | nil => simp
  | cons x xs ih => simp [ih]

theorem tagSegs_append (i : Nat) (a b : List (Seg α)) :
    tagSegs i (a ++ b) = tagSegs i a ++ tagSegs (i + a.length) b := by
  induction a generalizing i with
  | nil => simp
  | cons x xs ih => simp [ih, Nat.add_assoc, Nat.add_comm 1]

@[simp] theorem length_tagSegs (i : Nat) (segs : List (Seg α)) :
    (tagSegs i segs).length = (flat segs).length := by
  induction segs generalizing i with
  | nil => simp
  | cons x xs ih => simp [ih, Seg.len]

theorem Contig.tail {a : Seg α} {r : List (Seg α)} (h : Contig (a :: r)) : Contig r := by
  cases r with
  | nil => trivial
  | cons b r => exact h.2

theorem Contig.head_next {a b : Seg α} {r : List (Seg α)} (h : Contig (a :: b :: r)) :
    a.next = b.abs := h.1

theorem Contig.drop {segs : List (Seg α)} (h : Contig segs) (k : Nat) : Contig (segs.drop k) := by
  induction k generalizing segs with
  | zero => simpa using h
  | succ k ih =>
    cases segs with
    | nil => simp; trivial
    | cons a r => simpa using ih h.tail

/-- the position after the last entry of a contiguous non-empty segment list -/
theorem Contig.abs_add_length {a : Seg α} {r : List (Seg α)} (h : Contig (a :: r)) :
    ∀ g, (a :: r).getLast? = some g → a.abs + (flat (a :: r)).length = g.next := by
  induction r generalizing a with
  | nil => intro g hg; simp at hg; subst hg; simp [Seg.next, Seg.len]
  | cons b r ih =>
    intro g hg
    have hg' : (b :: r).getLast? = some g := by simpa [List.getLast?_cons_cons] using hg
    have := ih h.tail g hg'
    have h1 := h.head_next
    simp only [flat_cons, List.length_append] at this ⊢
    simp only [Seg.next, Seg.len] at h1
    omega

/-- absolute offset of the first entry of segment number `k` -/
theorem Contig.abs_drop {segs : List (Seg α)} (h : Contig segs) :
    ∀ (k : Nat) (f g : Seg α) (rest : List (Seg α)), segs.head? = some f →
      segs.drop k = g :: rest → f.abs + (flat (segs.take k)).length = g.abs := by
  induction segs with
  | nil => intro k f g rest hf; simp at hf
  | cons a r ih =>
    intro k f g rest hf hd
    simp at hf; subst hf
    cases k with
    | zero => simp at hd; simp [hd.1]
    | succ k =>
      simp only [List.drop_succ_cons] at hd
      cases r with
      | nil => simp at hd
      | cons b r =>
        have := ih h.tail k b g rest rfl hd
        have h1 := h.head_next
        simp only [List.take_succ_cons, flat_cons, List.length_append]
        simp only [Seg.next, Seg.len] at h1
        omega

/-! ### the read loop -/

theorem decLen_spec (len nxt c2 : Nat) (h1 : c2 ≤ nxt) (h2 : nxt - c2 ≤ len) :
    decLen len nxt c2 = .ok (len - (nxt - c2)) := by
  unfold decLen
  have : ¬ len < nxt - c2 := by omega
  simp [h1, this]

theorem decLen_beyond (len nxt c2 : Nat) (h1 : nxt < c2) : decLen len nxt c2 = .ok len := by
  unfold decLen
  have : ¬ nxt ≥ c2 := by omega
  simp [this]

theorem readActive_spec (start : Cursor) (curr : Seg α) (cur : Cursor) (len : Nat) (out : List (Entry α))
    (h1 : curr.abs ≤ cur.2) (h2 : cur.2 ≤ curr.next) (hU : curr.len + len < U64) :
    readActive start curr cur len out =
      .ok (out ++ ((tagSeg cur.1 curr).drop (cur.2 - curr.abs)).take len,
        if cur.2 - curr.abs + len < curr.len then .next start (cur.1, cur.2 + len)
        else .done start (cur.1, curr.next)) := by
  unfold readActive
  by_cases h : curr.next ≤ cur.2
  · have : ¬ cur.2 - curr.abs + len < curr.len := by simp only [Seg.next] at h; omega
    have e : (cur.1, curr.next) = cur := by
      have : cur.2 = curr.next := by omega
      rw [← this]
    simp only [h, if_true, this, if_false]
    rw [List.drop_eq_nil_of_le (by simp [Seg.next] at h ⊢; omega)]
    simp [e]
  · simp only [h, if_false]
    rw [Seg.readv_spec curr cur len h1 hU]
    by_cases hlt : cur.2 - curr.abs + len < curr.len
    · simp only [hlt, if_true]
    · simp only [hlt, if_false]


/-- what `walk` returns: position facts used by all later theorems -/
structure WalkPost (start : Cursor) (segs : List (Seg α)) (cur : Cursor) (k0 len : Nat)
    (pos : Position) : Prop where
  start_eq : pos.start = start
  end_off : pos.end_.2 = cur.2 + min len ((flat segs).length - k0)
  end_seg : ∃ j g, segs[j]? = some g ∧ pos.end_.1 = cur.1 + j ∧ g.abs ≤ pos.end_.2 ∧ pos.end_.2 ≤ g.next
  done_iff : pos.isDone = true ↔ (flat segs).length - k0 ≤ len

theorem walk_spec (l : Log α) (start : Cursor) :
    ∀ (rest : List (Seg α)) (idx : Nat) (curr : Seg α) (cur : Cursor) (len : Nat)
      (out : List (Entry α)),
      l.segments.drop idx = curr :: rest →
      Contig (curr :: rest) →
      curr.abs ≤ cur.2 → cur.2 ≤ curr.next →
      (∀ g ∈ curr :: rest, g.len + len < U64) →
      (∀ g ∈ rest, g.data ≠ []) →
      ∃ pos, l.walk start rest.length idx curr cur len out
          = .ok (out ++ ((tagSegs cur.1 (curr :: rest)).drop (cur.2 - curr.abs)).take len, pos)
        ∧ WalkPost start (curr :: rest) cur (cur.2 - curr.abs) len pos := by
  intro rest
  induction rest with
  | nil =>
    intro idx curr cur len out hd hc h1 h2 hU hne
    simp only [List.length_nil, Log.walk]
    rw [readActive_spec start curr cur len out h1 h2 (hU curr (by simp))]
    simp only [Seg.next, Seg.len] at h2
    by_cases hlt : cur.2 - curr.abs + len < curr.len
    · simp only [hlt, if_true]
      simp only [Seg.len] at hlt
      refine ⟨.next start (cur.1, cur.2 + len), by simp, rfl, ?_, ⟨0, curr, by simp, by simp [Position.end_], ?_, ?_⟩, ?_⟩
      · simp [Position.end_]; omega
      · simp [Position.end_]; omega
      · simp [Position.end_, Seg.next, Seg.len]; omega
      · simp [Position.isDone]; omega
    · simp only [hlt, if_false]
      simp only [Seg.len] at hlt
      refine ⟨.done start (cur.1, curr.next), by simp, rfl, ?_, ⟨0, curr, by simp, by simp [Position.end_], ?_, ?_⟩, ?_⟩
      · simp [Position.end_, Seg.next, Seg.len]; omega
      · simp [Position.end_, Seg.next, Seg.len]
      · simp [Position.end_]
      · simp [Position.isDone]; omega
  | cons r rs ih =>
    intro idx curr cur len out hd hc h1 h2 hU hne
    have hcn : curr.next = r.abs := hc.head_next
    have hr : r.data ≠ [] := hne r (by simp)
    have hrl : 0 < r.data.length := by
      cases hrd : r.data with
      | nil => exact absurd hrd hr
      | cons a b => simp
    simp only [List.length_cons, Log.walk]
    rw [Seg.readv_spec curr cur len h1 (hU curr (by simp))]
    simp only [Seg.next, Seg.len] at h2 hcn
    by_cases hlt : cur.2 - curr.abs + len < curr.len
    · simp only [hlt, if_true]
      simp only [Seg.len] at hlt
      refine ⟨.next start (cur.1, cur.2 + len), ?_, rfl, ?_, ⟨0, curr, by simp, by simp [Position.end_], ?_, ?_⟩, ?_⟩
      · simp only [tagSegs_cons]
        rw [drop_take_append_left _ _ _ _ (by simp [Seg.len]; omega)]
        have : len - (curr.len - (cur.2 - curr.abs)) = 0 := by simp [Seg.len]; omega
        simp [this]
      · simp [Position.end_]; omega
      · simp [Position.end_]; omega
      · simp [Position.end_, Seg.next, Seg.len]; omega
      · simp [Position.isDone]; omega
    · simp only [hlt, if_false]
      simp only [Seg.len] at hlt
      rw [decLen_spec _ _ _ (by simp [Seg.next, Seg.len]; omega) (by simp [Seg.next, Seg.len]; omega)]
      simp only []
      have hentries : ∀ (tl : List (Entry α)),
          tl = (tagSegs (cur.1 + 1) (r :: rs)).take (len - (curr.next - cur.2)) →
          out ++ ((tagSeg cur.1 curr).drop (cur.2 - curr.abs)).take len ++ tl =
          out ++ ((tagSegs cur.1 (curr :: r :: rs)).drop (cur.2 - curr.abs)).take len := by
        intro tl htl
        rw [tagSegs_cons cur.1 curr, drop_take_append_left _ _ _ _ (by simp [Seg.len]; omega), htl]
        have : len - ((tagSeg cur.1 curr).length - (cur.2 - curr.abs)) = len - (curr.next - cur.2) := by
          simp [Seg.next, Seg.len]; omega
        rw [this, List.append_assoc]
      by_cases hz : len - (curr.next - cur.2) = 0
      · simp only [hz, if_true]
        refine ⟨.next start (cur.1 + 1, curr.next), ?_, rfl, ?_, ⟨1, r, by simp, by simp [Position.end_], ?_, ?_⟩, ?_⟩
        · rw [← hentries [] (by simp [hz])]; simp
        · simp [Position.end_, Seg.next, Seg.len] at hz ⊢; omega
        · simp [Position.end_, Seg.next, Seg.len]; omega
        · simp [Position.end_, Seg.next, Seg.len]; omega
        · simp [Position.isDone, Seg.next, Seg.len] at hz ⊢; omega
      · simp only [hz, if_false]
        have hidx : l.segments[idx + 1]? = some r := by
          have := congrArg (fun x => x[1]?) hd
          simpa [List.getElem?_drop] using this
        have hd' : l.segments.drop (idx + 1) = r :: rs := by
          have := congrArg (List.drop 1) hd
          simpa [List.drop_drop, Nat.add_comm] using this
        simp only [hidx]
        obtain ⟨pos, hw, hp⟩ := ih (idx + 1) r (cur.1 + 1, curr.next) (len - (curr.next - cur.2))
          (out ++ ((tagSeg cur.1 curr).drop (cur.2 - curr.abs)).take len) hd' hc.tail
          (by simp [Seg.next, Seg.len]; omega) (by simp [Seg.next, Seg.len]; omega)
          (fun g hg => by have := hU g (by simp [hg]); omega)
          (fun g hg => hne g (by simp [hg]))
        refine ⟨pos, ?_, ?_⟩
        · rw [hw]
          have e0 : curr.next - r.abs = 0 := by simp [Seg.next, Seg.len]; omega
          simp only [e0, List.drop_zero]
          rw [hentries _ rfl]
        · have e0 : curr.next - r.abs = 0 := by simp [Seg.next, Seg.len]; omega
          simp only [e0] at hp
          obtain ⟨p1, p2, ⟨j, g, pj, pe, pa, pb⟩, p4⟩ := hp
          simp only [Seg.next, Seg.len] at hz p2 p4
          refine ⟨p1, ?_, ⟨j + 1, g, by simpa using pj, by simp at pe; omega, pa, pb⟩, ?_⟩
          · simp only [flat_cons, List.length_append] at p2 ⊢; simp at p2; omega
          · simp only [flat_cons, List.length_append] at p4 ⊢; rw [p4]; omega


theorem Contig.next_le_last {segs : List (Seg α)} (h : Contig segs) :
    ∀ g ∈ segs, ∀ z, segs.getLast? = some z → g.next ≤ z.next := by
  induction segs with
  | nil => intro g hg; simp at hg
  | cons a r ih =>
    intro g hg z hz
    cases r with
    | nil => simp at hg hz; subst hg; subst hz; exact Nat.le_refl _
    | cons b r =>
      have hz' : (b :: r).getLast? = some z := by simpa [List.getLast?_cons_cons] using hz
      rcases List.mem_cons.mp hg with e | hm
      · subst e
        have h1 := h.head_next
        have h2 := ih h.tail b (by simp) z hz'
        simp only [Seg.next] at h1 h2 ⊢; omega
      · exact ih h.tail g hm z hz'

theorem Log.firstAbs_eq {l : Log α} {f : Seg α} (h : l.segments.head? = some f) : l.firstAbs = f.abs := by
  simp [Log.firstAbs, h]

theorem Log.nextAbs_eq {l : Log α} {z : Seg α} (h : l.segments.getLast? = some z) : l.nextAbs = z.next := by
  simp [Log.nextAbs, h]

theorem WF.exists_head {l : Log α} (hw : WF l) : ∃ f, l.segments.head? = some f := by
  cases h : l.segments with
  | nil => exact absurd h hw.ne
  | cons a r => exact ⟨a, rfl⟩

theorem WF.exists_last {l : Log α} (hw : WF l) : ∃ z, l.segments.getLast? = some z := by
  refine ⟨l.segments.getLast hw.ne, ?_⟩
  exact List.getLast?_eq_some_getLast hw.ne

/-- total number of retained entries -/
theorem WF.first_add_length {l : Log α} (hw : WF l) :
    l.firstAbs + (flat l.segments).length = l.nextAbs := by
  obtain ⟨z, hz⟩ := hw.exists_last
  cases h : l.segments with
  | nil => exact absurd h hw.ne
  | cons a r =>
    have hc := hw.contig
    rw [h] at hc hz
    rw [Log.firstAbs_eq (f := a) (by simp [h]), Log.nextAbs_eq (z := z) (by simp [h, hz])]
    exact hc.abs_add_length z hz

theorem WF.next_le {l : Log α} (hw : WF l) (g : Seg α) (hg : g ∈ l.segments) : g.next ≤ l.nextAbs := by
  obtain ⟨z, hz⟩ := hw.exists_last
  rw [Log.nextAbs_eq hz]
  exact hw.contig.next_le_last g hg z hz

/-- every segment of a log with at least two segments holds at least one entry -/
theorem WF.all_ne {l : Log α} (hw : WF l) (h2 : 2 ≤ l.segments.length) :
    ∀ g ∈ l.segments, g.data ≠ [] := by
  intro g hg hd
  obtain ⟨z, hz⟩ := hw.exists_last
  obtain ⟨ys, hys⟩ := List.getLast?_eq_some_iff.mp hz
  rw [hys] at hg
  rcases List.mem_append.mp hg with hm | hm
  · have : g ∈ l.segments.dropLast := by rw [hys]; simpa using hm
    have h1 := hw.full g this
    have h3 := hw.emptySize g (by rw [hys]; exact hg) hd
    have := hw.sizePos
    omega
  · simp at hm; subst hm
    exact hw.activeNe (by have := hw.count; omega) g hz hd

/-- reading from a position inside retained segment `c.1` -/
theorem walk_at (l : Log α) (hw : WF l) (start c : Cursor) (n : Nat) (g : Seg α)
    (hc1 : l.head ≤ c.1) (hg : l.segments[c.1 - l.head]? = some g)
    (h1 : g.abs ≤ c.2) (h2 : c.2 ≤ g.next) (hU : l.nextAbs + n < U64) :
    ∃ pos, l.walk start (l.tail - c.1) (c.1 - l.head) g c n []
        = .ok (((tagged l).drop (c.2 - l.firstAbs)).take n, pos)
      ∧ pos.start = start
      ∧ pos.end_.2 = c.2 + min n (l.nextAbs - c.2)
      ∧ Issued l pos.end_ ∧ l.head ≤ pos.end_.1
      ∧ (pos.isDone = true ↔ l.nextAbs - c.2 ≤ n) := by
  obtain ⟨hlt, hge⟩ := List.getElem?_eq_some_iff.mp hg
  have hd : l.segments.drop (c.1 - l.head) = g :: l.segments.drop (c.1 - l.head + 1) := by
    rw [List.drop_eq_getElem_cons hlt, hge]
  have hcount := hw.count
  have hlen : (l.segments.drop (c.1 - l.head + 1)).length = l.tail - c.1 := by
    simp; omega
  obtain ⟨f, hf⟩ := hw.exists_head
  obtain ⟨z, hz⟩ := hw.exists_last
  have hcs : Contig (g :: l.segments.drop (c.1 - l.head + 1)) := by
    rw [← hd]; exact hw.contig.drop _
  have hzs : (g :: l.segments.drop (c.1 - l.head + 1)).getLast? = some z := by
    rw [← hd, List.getLast?_drop]
    have : ¬ l.segments.length ≤ c.1 - l.head := by omega
    simp [this, hz]
  have hsum := hcs.abs_add_length z hzs
  have habs := hw.contig.abs_drop (c.1 - l.head) f g _ hf hd
  have hne : ∀ g' ∈ l.segments.drop (c.1 - l.head + 1), g'.data ≠ [] := by
    intro g' hg'
    have hm : g' ∈ l.segments := List.mem_of_mem_drop hg'
    have h2' : 2 ≤ l.segments.length := by
      have : 0 < (l.segments.drop (c.1 - l.head + 1)).length := List.length_pos_of_mem hg'
      simp at this; omega
    exact hw.all_ne h2' g' hm
  have hU' : ∀ g' ∈ g :: l.segments.drop (c.1 - l.head + 1), g'.len + n < U64 := by
    intro g' hg'
    have hm : g' ∈ l.segments := by rw [← hd] at hg'; exact List.mem_of_mem_drop hg'
    have := hw.next_le g' hm
    simp only [Seg.next] at this; omega
  obtain ⟨pos, hwk, hp⟩ := walk_spec l start _ (c.1 - l.head) g c n [] hd hcs h1 h2 hU' hne
  rw [hlen] at hwk
  obtain ⟨p1, p2, ⟨j, g', pj, pe, pa, pb⟩, p4⟩ := hp
  have hfa := Log.firstAbs_eq hf
  have hna := Log.nextAbs_eq hz
  -- the entries
  have htag : (tagged l).drop (c.2 - l.firstAbs) =
      (tagSegs c.1 (g :: l.segments.drop (c.1 - l.head + 1))).drop (c.2 - g.abs) := by
    have e1 : tagged l = tagSegs l.head (l.segments.take (c.1 - l.head)) ++
        tagSegs c.1 (g :: l.segments.drop (c.1 - l.head + 1)) := by
      unfold tagged
      conv => lhs; rw [← List.take_append_drop (c.1 - l.head) l.segments]
      rw [tagSegs_append, hd, List.length_take]
      congr 2; omega
    rw [e1]
    have e2 : c.2 - l.firstAbs = (tagSegs l.head (l.segments.take (c.1 - l.head))).length + (c.2 - g.abs) := by
      simp; omega
    rw [e2, List.drop_length_add_append]
  refine ⟨pos, ?_, p1, ?_, ?_, ?_, ?_⟩
  · rw [hwk, htag]; simp
  · rw [p2]; omega
  · refine ⟨?_, Or.inr ⟨g', ?_, pa, pb⟩⟩
    · have : (l.segments.drop (c.1 - l.head))[j]? = some g' := by rw [hd]; exact pj
      rw [List.getElem?_drop] at this
      have := (List.getElem?_eq_some_iff.mp this).1
      omega
    · have : (l.segments.drop (c.1 - l.head))[j]? = some g' := by rw [hd]; exact pj
      rw [List.getElem?_drop] at this
      rw [← this]; congr 1; omega
  · omega
  · rw [p4]; omega


/-- an issued cursor stands for a position between the oldest retained entry and the tail -/
theorem Issued.abs_bounds {l : Log α} (hw : WF l) {c : Cursor} (hi : Issued l c) :
    l.firstAbs ≤ cursorAbs l c ∧ cursorAbs l c ≤ l.nextAbs := by
  have hsum := hw.first_add_length
  unfold cursorAbs
  by_cases hs : c.1 < l.head
  · simp only [hs, if_true]; omega
  · simp only [hs, if_false]
    rcases hi.2 with hlt | ⟨g, hg, h1, h2⟩
    · exact absurd hlt hs
    · obtain ⟨f, hf⟩ := hw.exists_head
      obtain ⟨hlt, hge⟩ := List.getElem?_eq_some_iff.mp hg
      have hd : l.segments.drop (c.1 - l.head) = g :: l.segments.drop (c.1 - l.head + 1) := by
        rw [List.drop_eq_getElem_cons hlt, hge]
      have habs := hw.contig.abs_drop (c.1 - l.head) f g _ hf hd
      have hn := hw.next_le g (List.mem_of_getElem? hg)
      rw [Log.firstAbs_eq hf]
      omega

theorem expectedRead_length (l : Log α) (hw : WF l) (c : Cursor) (n : Nat) (hi : Issued l c) :
    (expectedRead l c n).length = min n (l.nextAbs - cursorAbs l c) := by
  have := hw.first_add_length
  have := hi.abs_bounds hw
  unfold expectedRead tagged
  simp only [List.length_take, List.length_drop, length_tagSegs]
  omega

/-- the full result of `readv` from an issued cursor -/
theorem readv_issued (l : Log α) (hw : WF l) (c : Cursor) (n : Nat) (hi : Issued l c)
    (hU : l.nextAbs + n < U64) :
    ∃ pos, l.readv c n = .ok (expectedRead l c n, pos)
      ∧ pos.start = (if c.1 < l.head then (l.head, l.firstAbs) else c)
      ∧ pos.end_.2 = cursorAbs l c + min n (l.nextAbs - cursorAbs l c)
      ∧ Issued l pos.end_ ∧ l.head ≤ pos.end_.1
      ∧ (pos.isDone = true ↔ l.nextAbs - cursorAbs l c ≤ n) := by
  obtain ⟨ht, hor⟩ := hi
  obtain ⟨f, hf⟩ := hw.exists_head
  have hfa := Log.firstAbs_eq hf
  unfold Log.readv
  have h0 : ¬ c.1 > l.tail := by omega
  simp only [h0, if_false]
  by_cases hs : c.1 < l.head
  · -- stale cursor: jump to the oldest retained entry
    have hf0 : l.segments[l.head - l.head]? = some f := by
      rw [Nat.sub_self, ← List.head?_eq_getElem?]; exact hf
    have hf1 : l.segments[0]? = some f := by rw [← List.head?_eq_getElem?]; exact hf
    simp only [Log.headJump, hs, if_true, hf, Nat.lt_irrefl, if_false, Nat.sub_self, hf1, offsetJump]
    obtain ⟨pos, hwk, p1, p2, p3, p4, p5⟩ :=
      walk_at l hw (l.head, f.abs) (l.head, f.abs) n f (Nat.le_refl _) hf0 (Nat.le_refl _)
        (by simp [Seg.next]) hU
    simp only [Nat.sub_self] at hwk
    refine ⟨pos, ?_, ?_, ?_, p3, p4, ?_⟩
    · rw [hwk]; simp [expectedRead, cursorAbs, hs, hfa]
    · rw [p1]; simp [hfa]
    · rw [p2]; simp [cursorAbs, hs, hfa]
    · rw [p5]; simp [cursorAbs, hs, hfa]
  · rcases hor with hlt | ⟨g, hg, h1, h2⟩
    · exact absurd hlt hs
    · simp only [Log.headJump, hs, if_false, hg, offsetJump]
      have hj : ¬ g.abs > c.2 := by omega
      simp only [hj, if_false]
      obtain ⟨pos, hwk, p1, p2, p3, p4, p5⟩ :=
        walk_at l hw c c n g (by omega) hg h1 h2 hU
      refine ⟨pos, ?_, ?_, ?_, p3, p4, ?_⟩
      · rw [hwk]; simp [expectedRead, cursorAbs, hs]
      · rw [p1]
      · rw [p2]; simp [cursorAbs, hs]
      · rw [p5]; simp [cursorAbs, hs]


/-- `readv` for an arbitrary cursor value: never a panic, and what is read is what the
    effective issued cursor reads. -/
theorem readv_any (l : Log α) (hw : WF l) (c : Cursor) (n : Nat) (hU : l.nextAbs + n < U64) :
    ∃ pos, l.readv c n =
        .ok ((match effective l c with | none => [] | some c' => expectedRead l c' n), pos)
      ∧ (∀ c', effective l c = some c' → Issued l c') := by
  by_cases ht : c.1 > l.tail
  · refine ⟨.done c c, ?_, ?_⟩
    · simp [Log.readv, effective, ht]
    · simp [effective, ht]
  by_cases hs : c.1 < l.head
  · have hi : Issued l c := ⟨by omega, Or.inl hs⟩
    obtain ⟨pos, hr, _⟩ := readv_issued l hw c n hi hU
    refine ⟨pos, ?_, ?_⟩
    · simp [effective, ht, hs, hr]
    · intro c' hc'; simp [effective, ht, hs] at hc'; subst hc'; exact hi
  have hcount := hw.count
  have hlt : c.1 - l.head < l.segments.length := by omega
  have hg : l.segments[c.1 - l.head]? = some l.segments[c.1 - l.head] := List.getElem?_eq_getElem hlt
  generalize l.segments[c.1 - l.head] = g at hg
  by_cases h1 : c.2 < g.abs
  · -- offset jump
    have hi : Issued l (c.1, g.abs) := ⟨by simp; omega, Or.inr ⟨g, hg, Nat.le_refl _, by simp [Seg.next]⟩⟩
    obtain ⟨pos, hwk, p1, p2, p3, p4, p5⟩ :=
      walk_at l hw (c.1, g.abs) (c.1, g.abs) n g (by simp; omega) hg (Nat.le_refl _) (by simp [Seg.next]) hU
    refine ⟨pos, ?_, ?_⟩
    · have hj : g.abs > c.2 := h1
      simp only [Log.readv, ht, if_false, Log.headJump, hs, hg, offsetJump, hj, if_true]
      simp only [effective, ht, hs, if_false, hg, h1, if_true]
      rw [hwk]; simp [expectedRead, cursorAbs, hs]
    · intro c' hc'; simp [effective, ht, hs, hg, h1] at hc'; subst hc'; exact hi
  by_cases h2 : c.2 ≤ g.next
  · have hi : Issued l c := ⟨by omega, Or.inr ⟨g, hg, by omega, h2⟩⟩
    obtain ⟨pos, hr, _⟩ := readv_issued l hw c n hi hU
    refine ⟨pos, ?_, ?_⟩
    · simp [effective, ht, hs, hg, h1, h2, hr]
    · intro c' hc'; simp [effective, ht, hs, hg, h1, h2] at hc'; subst hc'; exact hi
  have hj : ¬ g.abs > c.2 := by omega
  by_cases h3 : c.1 < l.tail
  · -- beyond the end of a closed segment: continue at the next segment
    have hlt' : c.1 - l.head + 1 < l.segments.length := by omega
    have hr : l.segments[c.1 - l.head + 1]? = some l.segments[c.1 - l.head + 1] :=
      List.getElem?_eq_getElem hlt'
    generalize l.segments[c.1 - l.head + 1] = r at hr
    have hgr : g.next = r.abs := by
      have hd : l.segments.drop (c.1 - l.head) = g :: r :: l.segments.drop (c.1 - l.head + 2) := by
        obtain ⟨a1, a2⟩ := List.getElem?_eq_some_iff.mp hg
        obtain ⟨b1, b2⟩ := List.getElem?_eq_some_iff.mp hr
        rw [List.drop_eq_getElem_cons a1, List.drop_eq_getElem_cons b1, a2, b2]
      have := hw.contig.drop (c.1 - l.head)
      rw [hd] at this
      exact this.head_next
    have hr' : l.segments[(c.1 + 1) - l.head]? = some r := by
      rw [← hr]; congr 1; omega
    have hi : Issued l (c.1 + 1, g.next) :=
      ⟨by simp; omega, Or.inr ⟨r, hr', by simp [hgr], by rw [hgr]; exact Nat.le_add_right _ _⟩⟩
    have hiss : ∀ c', effective l c = some c' → Issued l c' := by
      intro c' hc'; simp [effective, ht, hs, hg, h1, h2, h3] at hc'; subst hc'; exact hi
    suffices hx : ∃ pos, l.readv c n = .ok ((match effective l c with | none => [] | some c' => expectedRead l c' n), pos) by
      obtain ⟨pos, hp⟩ := hx; exact ⟨pos, hp, hiss⟩
    simp only [effective, ht, hs, if_false, hg, h1, h2, h3, if_true]
    simp only [Log.readv, ht, if_false, Log.headJump, hs, hg, offsetJump, hj]
    have hfuel : l.tail - c.1 = (l.tail - (c.1 + 1)) + 1 := by omega
    rw [hfuel, Log.walk]
    rw [Seg.readv_spec g c n (by omega) (by have := hw.next_le g (List.mem_of_getElem? hg); simp only [Seg.next] at this; omega)]
    have hb : ¬ c.2 - g.abs + n < g.len := by simp only [Seg.next] at h2; omega
    simp only [hb, if_false]
    rw [decLen_beyond _ _ _ (by omega)]
    simp only []
    have hdrop : ((tagSeg c.1 g).drop (c.2 - g.abs)).take n = [] := by
      rw [List.drop_eq_nil_of_le (by simp; simp only [Seg.next] at h2; omega)]; simp
    rw [hdrop]
    by_cases hn : n = 0
    · subst hn
      exact ⟨.next c (c.1 + 1, g.next), by simp [expectedRead]⟩
    · simp only [hn, if_false, hr]
      obtain ⟨pos, hwk, p1, p2, p3, p4, p5⟩ :=
        walk_at l hw c (c.1 + 1, g.next) n r (by simp; omega) hr' (by simp [hgr]) (by rw [hgr]; exact Nat.le_add_right _ _) hU
      have hidx : c.1 + 1 - l.head = c.1 - l.head + 1 := by omega
      simp only [hidx] at hwk
      refine ⟨pos, ?_⟩
      simp only [List.append_nil]
      rw [hwk]
      have : ¬ c.1 + 1 < l.head := by omega
      simp [expectedRead, cursorAbs, this]
  · -- beyond the end of the active segment
    refine ⟨.done c c, ?_, ?_⟩
    · simp only [effective, ht, hs, if_false, hg, h1, h2, h3]
      simp only [Log.readv, ht, if_false, Log.headJump, hs, hg, offsetJump, hj]
      have hfuel : l.tail - c.1 = 0 := by omega
      rw [hfuel, Log.walk, readActive]
      have : g.next ≤ c.2 := by omega
      simp [this]
    · simp [effective, ht, hs, hg, h1, h2, h3]

/-- C13 no-panic clause on the model: any cursor value, any count that does not overflow `u64` -/
theorem readv_no_panic (l : Log α) (hw : WF l) (c : Cursor) (n : Nat) (hU : l.nextAbs + n < U64) :
    ∃ r, l.readv c n = .ok r := by
  obtain ⟨pos, h, _⟩ := readv_any l hw c n hU
  exact ⟨_, h⟩


/-! ### append -/

theorem Contig.append_one {X : List (Seg α)} {a : Seg α} (h : Contig X)
    (hl : ∀ z, X.getLast? = some z → z.next = a.abs) : Contig (X ++ [a]) := by
  induction X with
  | nil => trivial
  | cons b X ih =>
    cases X with
    | nil => exact ⟨hl b rfl, trivial⟩
    | cons c X =>
      refine ⟨h.head_next, ih h.tail ?_⟩
      intro z hz; exact hl z (by simpa [List.getLast?_cons_cons] using hz)

theorem Contig.replace_last {X : List (Seg α)} {a a' : Seg α} (h : Contig (X ++ [a]))
    (ha : a'.abs = a.abs) : Contig (X ++ [a']) := by
  induction X with
  | nil => trivial
  | cons b X ih =>
    cases X with
    | nil =>
      have := h.head_next
      exact ⟨by rw [ha]; exact this, trivial⟩
    | cons c X => exact ⟨h.head_next, ih h.tail⟩

/-- the invariant between `apply_retention` and `push` (the new active segment may be empty) -/
structure WF0 (l : Log α) : Prop where
  ne : l.segments ≠ []
  count : l.head + l.segments.length = l.tail + 1
  bound : l.segments.length ≤ l.maxMemSegments
  sizePos : 1 ≤ l.maxSegmentSize
  contig : Contig l.segments
  full : ∀ s ∈ l.segments.dropLast, l.maxSegmentSize ≤ s.totalSize
  emptySize : ∀ s ∈ l.segments, s.data = [] → s.totalSize = 0

theorem WF.toWF0 {l : Log α} (h : WF l) : WF0 l :=
  ⟨h.ne, h.count, h.bound, h.sizePos, h.contig, h.full, h.emptySize⟩

/-- segments of `l` that are still retained in `l'` keep their first offset and only grow -/
def SegMono (l l' : Log α) : Prop :=
  l.tail ≤ l'.tail ∧ l.head ≤ l'.head ∧
  ∀ s g, l.head ≤ s → l.segments[s - l.head]? = some g →
    s < l'.head ∨ ∃ g', l'.segments[s - l'.head]? = some g' ∧ g'.abs = g.abs ∧ g.next ≤ g'.next

theorem SegMono.refl (l : Log α) : SegMono l l :=
  ⟨Nat.le_refl _, Nat.le_refl _, fun _ g _ hg => Or.inr ⟨g, hg, rfl, Nat.le_refl _⟩⟩

theorem SegMono.trans {a b c : Log α} (h1 : SegMono a b) (h2 : SegMono b c) : SegMono a c := by
  refine ⟨Nat.le_trans h1.1 h2.1, Nat.le_trans h1.2.1 h2.2.1, ?_⟩
  intro s g hs hg
  rcases h1.2.2 s g hs hg with h | ⟨g', hg', e1, e2⟩
  · left; have := h2.2.1; omega
  · by_cases hb : s < b.head
    · left; have := h2.2.1; omega
    · rcases h2.2.2 s g' (by omega) hg' with h | ⟨g'', hg'', e3, e4⟩
      · left; exact h
      · right; exact ⟨g'', hg'', by rw [e3, e1], Nat.le_trans e2 e4⟩

/-- what `apply_retention` does to a well-formed log -/
theorem applyRetention_spec (l : Log α) (hw : WF l) :
    ∃ l1, l.applyRetention = .ok l1 ∧ WF0 l1 ∧ SegMono l l1 ∧ l1.nextAbs = l.nextAbs ∧
      l1.maxMemSegments = l.maxMemSegments ∧ l1.maxSegmentSize = l.maxSegmentSize ∧
      ((l1 = l) ∨
       (l1.head = l.head ∧ l1.tail = l.tail + 1 ∧ l.segments.length < l.maxMemSegments ∧
          l1.segments = l.segments ++ [Seg.withOffset l.nextAbs]) ∨
       (l1.head = l.head + 1 ∧ l1.tail = l.tail + 1 ∧ l.segments.length = l.maxMemSegments ∧
          l1.segments = l.segments.drop 1 ++ [Seg.withOffset l.nextAbs])) := by
  obtain ⟨z, hz⟩ := hw.exists_last
  obtain ⟨ys, hys⟩ := List.getLast?_eq_some_iff.mp hz
  have hna := Log.nextAbs_eq hz
  have hallne : ∀ g ∈ ys, l.maxSegmentSize ≤ g.totalSize := by
    intro g hg; exact hw.full g (by rw [hys]; simpa using hg)
  have hallfull : l.maxSegmentSize ≤ z.totalSize → ∀ g ∈ l.segments, l.maxSegmentSize ≤ g.totalSize := by
    intro hfull g hg
    rw [hys] at hg
    rcases List.mem_append.mp hg with hm | hm
    · exact hallne g hm
    · simp at hm; subst hm; exact hfull
  unfold Log.applyRetention Log.activeSegment
  simp only [hz]
  by_cases hfull : z.totalSize ≥ l.maxSegmentSize
  · simp only [hfull, if_true]
    by_cases hcnt : l.segments.length ≥ l.maxMemSegments
    · -- evict the oldest segment, open a new one
      simp only [hcnt, if_true]
      have hb := hw.bound
      have hlen : l.segments.length = l.maxMemSegments := by omega
      refine ⟨_, rfl, ?_, ?_, ?_, rfl, rfl, Or.inr (Or.inr ⟨rfl, rfl, hlen, by rw [hna]⟩)⟩
      · have hlast : ∀ z', (l.segments.drop 1).getLast? = some z' → z'.next = z.next := by
          intro z' hz'
          rw [List.getLast?_drop] at hz'
          split at hz'
          · simp at hz'
          · rw [hz] at hz'; simp at hz'; rw [hz']
        refine ⟨by simp, ?_, ?_, hw.sizePos, ?_, ?_, ?_⟩
        · have := hw.count; have := List.length_pos_iff.mpr hw.ne
          simp; omega
        · simp; have := List.length_pos_iff.mpr hw.ne; omega
        · exact (hw.contig.drop 1).append_one (fun z' hz' => by rw [hlast z' hz']; rfl)
        · intro s hs
          simp only [List.dropLast_concat] at hs
          exact hallfull hfull s (List.mem_of_mem_drop hs)
        · intro s hs hd
          rcases List.mem_append.mp hs with hm | hm
          · exact hw.emptySize s (List.mem_of_mem_drop hm) hd
          · simp at hm; subst hm; rfl
      · refine ⟨by simp, by simp, ?_⟩
        intro s g hs hg
        by_cases hs0 : s < l.head + 1
        · left; exact hs0
        · right
          refine ⟨g, ?_, rfl, Nat.le_refl _⟩
          simp only []
          have hlt := (List.getElem?_eq_some_iff.mp hg).1
          rw [List.getElem?_append_left (by simp; omega), List.getElem?_drop, ← hg]
          congr 1; omega
      · simp [Log.nextAbs, hz, Seg.withOffset, Seg.next, Seg.len]
    · -- open a new segment
      simp only [hcnt, if_false]
      refine ⟨_, rfl, ?_, ?_, ?_, rfl, rfl, Or.inr (Or.inl ⟨rfl, rfl, by omega, by rw [hna]⟩)⟩
      · refine ⟨by simp, ?_, ?_, hw.sizePos, ?_, ?_, ?_⟩
        · have := hw.count; simp; omega
        · simp; omega
        · exact hw.contig.append_one (fun z' hz' => by rw [hz] at hz'; simp at hz'; rw [← hz']; rfl)
        · intro s hs
          simp only [List.dropLast_concat] at hs
          rw [hys] at hs
          rcases List.mem_append.mp hs with hm | hm
          · exact hallne s hm
          · simp at hm; subst hm; exact hfull
        · intro s hs hd
          rcases List.mem_append.mp hs with hm | hm
          · exact hw.emptySize s hm hd
          · simp at hm; subst hm; rfl
      · refine ⟨by simp, by simp, ?_⟩
        intro s g hs hg
        right
        refine ⟨g, ?_, rfl, Nat.le_refl _⟩
        have hlt := (List.getElem?_eq_some_iff.mp hg).1
        simp only []
        rw [List.getElem?_append_left hlt]; exact hg
      · simp [Log.nextAbs, hz, Seg.withOffset, Seg.next, Seg.len]
  · simp only [hfull, if_false]
    exact ⟨l, rfl, hw.toWF0, SegMono.refl l, rfl, rfl, rfl, Or.inl rfl⟩

/-- what `push` on the active segment does -/
theorem pushActive_spec (l1 : Log α) (h0 : WF0 l1) (x : α) (sz : Nat) :
    ∃ l2, l1.pushActive x sz = .ok l2 ∧ WF l2 ∧ SegMono l1 l2 ∧ l2.nextAbs = l1.nextAbs + 1 ∧
      l2.head = l1.head ∧ l2.tail = l1.tail ∧
      l2.maxMemSegments = l1.maxMemSegments ∧ l2.maxSegmentSize = l1.maxSegmentSize ∧
      retained l2 = retained l1 ++ [x] ∧ l2.firstAbs = l1.firstAbs := by
  obtain ⟨z, hz⟩ : ∃ z, l1.segments.getLast? = some z :=
    ⟨l1.segments.getLast h0.ne, List.getLast?_eq_some_getLast h0.ne⟩
  obtain ⟨ys, hys⟩ := List.getLast?_eq_some_iff.mp hz
  unfold Log.pushActive
  simp only [hz]
  refine ⟨_, rfl, ?_, ?_, ?_, rfl, rfl, rfl, rfl, ?_, ?_⟩
  · have hseg : l1.segments.dropLast ++ [z.push x sz] = ys ++ [z.push x sz] := by
      rw [hys, List.dropLast_concat]
    refine ⟨by simp, ?_, ?_, h0.sizePos, ?_, ?_, ?_, ?_⟩
    · have := h0.count; simp only [hseg]; rw [hys] at this; simpa using this
    · have := h0.bound; simp only [hseg]; rw [hys] at this; simpa using this
    · simp only [hseg]
      have := h0.contig; rw [hys] at this
      exact this.replace_last rfl
    · intro s hs
      simp only [hseg, List.dropLast_concat] at hs
      exact h0.full s (by rw [hys, List.dropLast_concat]; exact hs)
    · intro s hs hd
      simp only [hseg] at hs
      rcases List.mem_append.mp hs with hm | hm
      · exact h0.emptySize s (by rw [hys]; simp [hm]) hd
      · simp at hm; subst hm; simp [Seg.push] at hd
    · intro _ a ha
      simp only [List.getLast?_concat] at ha
      cases ha
      simp [Seg.push]
  · refine ⟨Nat.le_refl _, Nat.le_refl _, ?_⟩
    intro s g hs hg
    right
    simp only []
    rw [hys, List.dropLast_concat]
    rw [hys] at hg
    by_cases hlt : s - l1.head < ys.length
    · rw [List.getElem?_append_left hlt] at hg ⊢
      exact ⟨g, hg, rfl, Nat.le_refl _⟩
    · rw [List.getElem?_append_right (by omega)] at hg ⊢
      have hi : s - l1.head - ys.length = 0 := by
        have := (List.getElem?_eq_some_iff.mp hg).1
        simp at this; omega
      rw [hi] at hg ⊢
      simp at hg; subst hg
      exact ⟨_, rfl, rfl, by simp [Seg.push, Seg.next, Seg.len]⟩
  · simp [Log.nextAbs, hz, Seg.push, Seg.next, Seg.len]; omega
  · unfold retained
    simp only []
    rw [hys, List.dropLast_concat, flat_append, flat_append]
    simp [Seg.push]
  · unfold Log.firstAbs
    simp only []
    rw [hys, List.dropLast_concat]
    cases ys with
    | nil => simp [Seg.push]
    | cons a r => simp

/-- `append` on a well-formed log: no panic, well-formed again, returns the new tail cursor,
    old segments keep their offsets, and retention removes at most the whole oldest segment -/
theorem append_spec (l : Log α) (hw : WF l) (x : α) (sz : Nat) :
    ∃ l', l.append x sz = .ok (l', (l'.tail, l'.nextAbs)) ∧ WF l' ∧ SegMono l l' ∧
      l'.nextAbs = l.nextAbs + 1 ∧
      l'.maxMemSegments = l.maxMemSegments ∧ l'.maxSegmentSize = l.maxSegmentSize ∧
      ((l'.head = l.head ∧ retained l' = retained l ++ [x] ∧ l'.firstAbs = l.firstAbs) ∨
       (l'.head = l.head + 1 ∧ l.segments.length = l.maxMemSegments ∧
         ∃ a rest, l.segments = a :: rest ∧ retained l' = flat rest ++ [x] ∧
           l'.firstAbs = a.next)) := by
  obtain ⟨l1, h1, hw0, hm1, hn1, hc1, hs1, hcase⟩ := applyRetention_spec l hw
  obtain ⟨l2, h2, hw2, hm2, hn2, hh2, ht2, hc2, hs2, hr2, hf2⟩ := pushActive_spec l1 hw0 x sz
  obtain ⟨z2, hz2⟩ := hw2.exists_last
  have hno : l2.nextOffset = .ok (l2.tail, l2.nextAbs) := by
    simp [Log.nextOffset, Log.activeSegment, hz2, Log.nextAbs]
  refine ⟨l2, ?_, hw2, hm1.trans hm2, by omega, by omega, by omega, ?_⟩
  · simp [Log.append, h1, h2, hno]
  · rcases hcase with e | ⟨e1, e2, e3, e4⟩ | ⟨e1, e2, e3, e4⟩
    · subst e; exact Or.inl ⟨hh2, hr2, hf2⟩
    · left
      refine ⟨by omega, ?_, ?_⟩
      · rw [hr2]; unfold retained; rw [e4, flat_append]; simp [Seg.withOffset]
      · rw [hf2]; unfold Log.firstAbs; rw [e4]
        cases h : l.segments with
        | nil => exact absurd h hw.ne
        | cons a r => simp
    · right
      cases h : l.segments with
      | nil => exact absurd h hw.ne
      | cons a r =>
        refine ⟨by omega, by rw [← h]; exact e3, a, r, rfl, ?_, ?_⟩
        · rw [hr2]; unfold retained; rw [e4, h, flat_append]; simp [Seg.withOffset]
        · rw [hf2]; unfold Log.firstAbs; rw [e4, h]
          cases r with
          | nil =>
            have : l.nextAbs = a.next := Log.nextAbs_eq (by simp [h])
            simp [Seg.withOffset, this]
          | cons b r' =>
            have hc := hw.contig; rw [h] at hc
            simp [hc.head_next]


/-! ### histories -/

theorem Rep.nextAbs_eq {l : Log α} {hist : List α} (h : Rep l hist) : l.nextAbs = hist.length := by
  have h1 := h.wf.first_add_length
  have h2 := congrArg List.length h.ret
  have h3 := h.le
  unfold retained at h2
  simp at h2
  omega

theorem new_rep {ms mm : Nat} {l : Log α} (h : Log.new ms mm = .ok l) :
    Rep l [] ∧ l.maxMemSegments = mm ∧ l.maxSegmentSize = ms ∧ 1024 ≤ ms ∧ 1 ≤ mm ∧
      l.head = 0 ∧ l.tail = 0 := by
  unfold Log.new at h
  split at h
  · cases h
  · split at h
    · cases h
    · cases h
      refine ⟨⟨⟨by simp, by simp, by simp; omega, by simp; omega, trivial, by simp,
        by simp [Seg.new], by simp⟩, by simp [Log.firstAbs, Seg.new], by simp [retained, Seg.new, Log.firstAbs]⟩,
        rfl, rfl, by omega, by omega, rfl, rfl⟩

theorem append_rep (l : Log α) (hist : List α) (h : Rep l hist) (x : α) (sz : Nat) :
    ∃ l', l.append x sz = .ok (l', (l'.tail, hist.length + 1)) ∧ Rep l' (hist ++ [x]) ∧ SegMono l l' ∧
      l'.maxMemSegments = l.maxMemSegments ∧ l'.maxSegmentSize = l.maxSegmentSize := by
  obtain ⟨l', ha, hw', hm, hn, hc, hs, hcase⟩ := append_spec l h.wf x sz
  have hna := h.nextAbs_eq
  have hfl := h.wf.first_add_length
  refine ⟨l', by rw [ha, hn, hna], ?_, hm, hc, hs⟩
  rcases hcase with ⟨_, hr, hf⟩ | ⟨_, _, a, rest, hseg, hr, hf⟩
  · refine ⟨hw', by rw [hf]; simp; have := h.le; omega, ?_⟩
    rw [hr, hf, h.ret, List.drop_append_of_le_length h.le]
  · have hfa : l.firstAbs = a.abs := Log.firstAbs_eq (by simp [hseg])
    have hle : a.next ≤ hist.length := by
      have := h.wf.next_le a (by simp [hseg]); omega
    refine ⟨hw', by rw [hf]; simp; omega, ?_⟩
    rw [hr, hf, List.drop_append_of_le_length hle]
    congr 1
    have hret := h.ret
    unfold retained at hret
    rw [hseg, flat_cons] at hret
    have : hist.drop a.next = (hist.drop l.firstAbs).drop a.data.length := by
      rw [List.drop_drop, hfa]; rfl
    rw [this, ← hret]; simp

theorem appends_rep (xs : List (α × Nat)) : ∀ (l : Log α) (hist : List α), Rep l hist →
    ∃ l', l.appends xs = .ok l' ∧ Rep l' (hist ++ xs.map (·.1)) ∧ SegMono l l' ∧
      l'.maxMemSegments = l.maxMemSegments ∧ l'.maxSegmentSize = l.maxSegmentSize := by
  induction xs with
  | nil => intro l hist h; exact ⟨l, rfl, by simpa using h, SegMono.refl l, rfl, rfl⟩
  | cons p ps ih =>
    intro l hist h
    obtain ⟨l1, h1, hr1, hm1, hc1, hs1⟩ := append_rep l hist h p.1 p.2
    obtain ⟨l2, h2, hr2, hm2, hc2, hs2⟩ := ih l1 _ hr1
    refine ⟨l2, by simp [Log.appends, h1, h2], by simpa using hr2, hm1.trans hm2, by omega, by omega⟩

/-! ### issued cursors -/

theorem issued_of_segMono {l l' : Log α} (hm : SegMono l l') {c : Cursor} (hi : Issued l c) :
    Issued l' c := by
  obtain ⟨h1, h2, h3⟩ := hm
  refine ⟨Nat.le_trans hi.1 h1, ?_⟩
  rcases hi.2 with hlt | ⟨g, hg, ha, hb⟩
  · left; omega
  · by_cases hs : c.1 < l.head
    · left; omega
    · rcases h3 c.1 g (by omega) hg with h | ⟨g', hg', e1, e2⟩
      · left; exact h
      · right; exact ⟨g', hg', by omega, by omega⟩

/-- the tail cursor `next_offset()` is issued -/
theorem issued_tail {l : Log α} (hw : WF l) : Issued l (l.tail, l.nextAbs) := by
  obtain ⟨z, hz⟩ := hw.exists_last
  refine ⟨Nat.le_refl _, Or.inr ⟨z, ?_, ?_, ?_⟩⟩
  · have := hw.count
    rw [List.getLast?_eq_getElem?] at hz
    rw [← hz]; congr 1; simp; omega
  · simp [Log.nextAbs_eq hz, Seg.next]
  · simp [Log.nextAbs_eq hz]

/-- the tag of every retained entry is issued (and not stale) -/
theorem issued_of_holds {l : Log α} {s o : Nat} (hw : WF l) (h : Holds l s o) : Issued l (s, o) := by
  obtain ⟨h1, g, hg, ha, hb⟩ := h
  refine ⟨?_, Or.inr ⟨g, hg, ha, by simp; omega⟩⟩
  have := (List.getElem?_eq_some_iff.mp hg).1
  have := hw.count
  simp; omega

/-- every tag in `tagSegs` names the segment that holds the offset -/
theorem mem_tagSegs {i : Nat} {segs : List (Seg α)} {e : Entry α} (h : e ∈ tagSegs i segs) :
    ∃ j g, segs[j]? = some g ∧ e.2.1 = i + j ∧ g.abs ≤ e.2.2 ∧ e.2.2 < g.next ∧
      g.data[e.2.2 - g.abs]? = some e.1 := by
  induction segs generalizing i with
  | nil => simp at h
  | cons a r ih =>
    rw [tagSegs_cons] at h
    rcases List.mem_append.mp h with hm | hm
    · refine ⟨0, a, by simp, ?_⟩
      unfold tagSeg at hm
      obtain ⟨p, hp, rfl⟩ := List.mem_map.mp hm
      obtain ⟨k, hk⟩ := List.mem_iff_getElem?.mp hp
      rw [List.getElem?_zipIdx] at hk
      cases hd : a.data[k]? with
      | none => simp [hd] at hk
      | some v =>
        simp [hd] at hk
        subst hk
        have := (List.getElem?_eq_some_iff.mp hd).1
        simp [Seg.next, Seg.len, hd]; omega
    · obtain ⟨j, g, hj, e1, e2, e3, e4⟩ := ih hm
      exact ⟨j + 1, g, by simpa using hj, by omega, e2, e3, e4⟩

theorem holds_of_mem_tagged {l : Log α} {e : Entry α} (h : e ∈ tagged l) :
    Holds l e.2.1 e.2.2 ∧ ∃ g, l.segments[e.2.1 - l.head]? = some g ∧ g.data[e.2.2 - g.abs]? = some e.1 := by
  obtain ⟨j, g, hj, e1, e2, e3, e4⟩ := mem_tagSegs h
  have hidx : e.2.1 - l.head = j := by omega
  exact ⟨⟨by omega, g, by rw [hidx]; exact hj, e2, e3⟩, g, by rw [hidx]; exact hj, e4⟩


/-! ### what the tagged entries are -/

theorem tagSeg_values (i : Nat) (s : Seg α) : (tagSeg i s).map (·.1) = s.data := by
  unfold tagSeg
  rw [List.map_map]
  have : ((fun (x : Entry α) => x.1) ∘ fun (p : α × Nat) => (p.1, (i, p.2))) = Prod.fst := rfl
  rw [this, List.zipIdx_map_fst]

theorem tagSeg_offsets (i : Nat) (s : Seg α) : (tagSeg i s).map (·.2.2) = List.range' s.abs s.len := by
  unfold tagSeg
  rw [List.map_map]
  have : ((fun (x : Entry α) => x.2.2) ∘ fun (p : α × Nat) => (p.1, (i, p.2))) = Prod.snd := rfl
  rw [this, List.zipIdx_map_snd]; rfl

theorem tagSegs_values (i : Nat) (segs : List (Seg α)) : (tagSegs i segs).map (·.1) = flat segs := by
  induction segs generalizing i with
  | nil => simp
  | cons a r ih => simp [tagSeg_values, ih]

theorem tagSegs_offsets (i : Nat) (a : Seg α) (r : List (Seg α)) (h : Contig (a :: r)) :
    (tagSegs i (a :: r)).map (·.2.2) = List.range' a.abs (flat (a :: r)).length := by
  induction r generalizing i a with
  | nil => simp [tagSeg_offsets, Seg.len]
  | cons b r ih =>
    rw [tagSegs_cons, List.map_append, ih (i + 1) b h.tail, tagSeg_offsets, flat_cons, List.length_append]
    have := h.head_next
    simp only [Seg.next] at this
    rw [← this, ← List.range'_append]
    simp [Seg.len]

theorem tagged_values (l : Log α) : (tagged l).map (·.1) = retained l := tagSegs_values _ _

theorem tagged_offsets (l : Log α) (hw : WF l) :
    (tagged l).map (·.2.2) = List.range' l.firstAbs (retained l).length := by
  unfold tagged retained
  cases h : l.segments with
  | nil => exact absurd h hw.ne
  | cons a r =>
    have hc := hw.contig; rw [h] at hc
    rw [tagSegs_offsets _ a r hc, Log.firstAbs_eq (f := a) (by simp [h])]

/-- the values read from an issued cursor are the history from that position on -/
theorem expectedRead_values (l : Log α) (hist : List α) (h : Rep l hist) (c : Cursor) (n : Nat)
    (hi : Issued l c) :
    (expectedRead l c n).map (·.1) = (hist.drop (cursorAbs l c)).take n := by
  have hb := hi.abs_bounds h.wf
  unfold expectedRead
  rw [List.map_take, List.map_drop, tagged_values, h.ret, List.drop_drop]
  congr 2; omega

/-- the offsets of the entries read are consecutive, starting at the cursor's position -/
theorem expectedRead_offsets (l : Log α) (hw : WF l) (c : Cursor) (n : Nat) (hi : Issued l c) :
    (expectedRead l c n).map (·.2.2) = List.range' (cursorAbs l c) (expectedRead l c n).length := by
  have hb := hi.abs_bounds hw
  have hlen := expectedRead_length l hw c n hi
  have hsum := hw.first_add_length
  rw [hlen]
  unfold expectedRead
  rw [List.map_take, List.map_drop, tagged_offsets l hw, List.drop_range']
  unfold retained
  by_cases hle : n ≤ (flat l.segments).length - (cursorAbs l c - l.firstAbs)
  · rw [List.take_range'_of_length_ge hle]
    congr 1
    · omega
    · omega
  · rw [List.take_range'_of_length_le (by omega)]
    congr 1
    · omega
    · omega

/-- every entry read carries the tag of the retained segment that holds it, and its own offset
    in the history -/
theorem expectedRead_tags (l : Log α) (hist : List α) (h : Rep l hist) (c : Cursor) (n : Nat)
    (e : Entry α) (he : e ∈ expectedRead l c n) :
    Holds l e.2.1 e.2.2 ∧ hist[e.2.2]? = some e.1 := by
  have hm : e ∈ tagged l := List.mem_of_mem_drop (List.mem_of_mem_take he)
  refine ⟨(holds_of_mem_tagged hm).1, ?_⟩
  obtain ⟨k, hk⟩ := List.mem_iff_getElem?.mp hm
  have h1 : ((tagged l).map (·.1))[k]? = some e.1 := by simp [hk]
  have h2 : ((tagged l).map (·.2.2))[k]? = some e.2.2 := by simp [hk]
  rw [tagged_values, h.ret, List.getElem?_drop] at h1
  rw [tagged_offsets l h.wf] at h2
  have hklt : k < (retained l).length := by
    have := (List.getElem?_eq_some_iff.mp hk).1
    have e2 := congrArg List.length (tagged_values l)
    simp at e2; omega
  rw [List.getElem?_range' hklt] at h2
  simp at h2
  rw [← h2, ← h1]

/-- a stale cursor resumes at the oldest retained entry, which exists -/
theorem stale_head (l : Log α) (hw : WF l) (c : Cursor) (n : Nat) (hs : c.1 < l.head) (hn : 0 < n) :
    ∃ x, (expectedRead l c n).head? = some (x, (l.head, l.firstAbs)) := by
  obtain ⟨f, hf⟩ := hw.exists_head
  have hcount := hw.count
  have hfne : f.data ≠ [] := by
    by_cases h2 : 2 ≤ l.segments.length
    · exact hw.all_ne h2 f (List.mem_of_mem_head? hf)
    · obtain ⟨z, hz⟩ := hw.exists_last
      have : f = z := by
        cases hl : l.segments with
        | nil => exact absurd hl hw.ne
        | cons a r =>
          cases r with
          | nil => simp [hl] at hf hz; rw [← hf, ← hz]
          | cons b r => simp [hl] at h2
      subst this
      exact hw.activeNe (by have := List.length_pos_iff.mpr hw.ne; omega) f hz
  unfold expectedRead cursorAbs tagged
  simp only [hs, if_true, Nat.sub_self, List.drop_zero]
  rw [List.head?_take]
  have hn' : ¬ n = 0 := by omega
  simp only [hn', if_false]
  cases hl : l.segments with
  | nil => exact absurd hl hw.ne
  | cons a r =>
    simp [hl] at hf; subst hf
    rw [Log.firstAbs_eq (f := a) (by simp [hl])]
    cases hd : a.data with
    | nil => exact absurd hd hfne
    | cons x xs => exact ⟨x, by simp [tagSeg, hd]⟩


end CommitLog
