/-
Structural invariant `SInv`: holds after ANY sequence of requests, incoming packets and `clean`s.
-/
import Proofs.Lemmas.ClientBasic
namespace Client
open Client.Spec

structure SInv (s : State) : Prop where
  lenPub : s.outgoingPub.length = s.upperLimit + 1
  lenRel : s.outgoingRel.length = s.upperLimit + 1
  slotId : ∀ (i : Nat) (p : Pub), s.outgoingPub[i]? = some (some p) → p.pkid = i ∧ p.qos ≠ 0
  colQos : ∀ c : Pub, s.collision = some c → c.qos ≠ 0
  counter : occ s.outgoingPub + relCount s.outgoingRel ≤ s.inflight
  lastPuback : s.lastPuback ≤ s.upperLimit

@[simp] theorem pushEv_fields (s : State) (e : Event) :
    (s.pushEv e).ver = s.ver ∧ (s.pushEv e).outgoingPub = s.outgoingPub ∧ (s.pushEv e).outgoingRel = s.outgoingRel ∧
    (s.pushEv e).inflight = s.inflight ∧ (s.pushEv e).collision = s.collision ∧ (s.pushEv e).upperLimit = s.upperLimit ∧
    (s.pushEv e).lastPuback = s.lastPuback ∧ (s.pushEv e).lastPkid = s.lastPkid ∧ (s.pushEv e).maxInflight = s.maxInflight ∧
    (s.pushEv e).incomingPub = s.incomingPub ∧ (s.pushEv e).manualAcks = s.manualAcks ∧
    (s.pushEv e).awaitPingresp = s.awaitPingresp ∧ (s.pushEv e).events = s.events ++ [e] := by
  simp [State.pushEv]

theorem SInv.pushEv {s : State} (h : SInv s) (e : Event) : SInv (s.pushEv e) := by
  obtain ⟨a, b, c, d, e', f⟩ := h
  exact ⟨a, b, c, d, e', f⟩

theorem SInv.pushOut {s : State} (h : SInv s) (o : Outgoing) : SInv (s.pushOut o) := h.pushEv _

theorem SInv.new (ver : Version) (max : Nat) (m : Bool) : SInv (State.new ver max m) := by
  refine ⟨by simp [State.new], by simp [State.new], ?_, by simp [State.new], ?_, by simp [State.new]⟩
  · intro i p h
    simp [State.new, List.getElem?_replicate] at h
  · simp [State.new, occ_replicate, relCount_replicate]

theorem SInv.nextPkidSt {s : State} (h : SInv s) : SInv (nextPkidSt s) := by
  obtain ⟨a, b, c, d, e', f⟩ := h
  unfold Client.nextPkidSt
  split <;> exact ⟨a, b, c, d, e', f⟩

theorem SInv.publishTail {s : State} (h : SInv s) (p : Pub) : SInv (publishTail s p).1 := by
  unfold Client.publishTail
  split
  · split
    · exact h
    · exact h.pushOut _
  · exact h.pushOut _

theorem SInv.publishWithId {s : State} (h : SInv s) (p : Pub) (hq : p.qos ≠ 0) : SInv (publishWithId s p).1 := by
  unfold Client.publishWithId
  split
  · exact h
  · apply SInv.pushOut
    obtain ⟨a, b, c, d, e', f⟩ := h
    exact ⟨a, b, c, by intro c hc; simp at hc; subst hc; exact hq, e', f⟩
  · rename_i hslot
    split
    · exact h
    · apply SInv.publishTail
      obtain ⟨a, b, c, d, e', f⟩ := h
      refine ⟨by simpa using a, b, ?_, d, ?_, f⟩
      · intro i q hi
        simp only [List.getElem?_set] at hi
        split at hi
        · split at hi
          · simp at hi; subst hi; rename_i h1 _; exact ⟨h1, hq⟩
          · simp at hi
        · exact c i q hi
      · simp only [occ_set_some _ _ _ hslot]; omega


/-- the fields `SInv` talks about -/
def SFrame (s s' : State) : Prop :=
  s'.outgoingPub = s.outgoingPub ∧ s'.outgoingRel = s.outgoingRel ∧ s'.upperLimit = s.upperLimit ∧
  s'.collision = s.collision ∧ s'.inflight = s.inflight ∧ s'.lastPuback = s.lastPuback

theorem SInv.congr {s s' : State} (h : SInv s) (f : SFrame s s') : SInv s' := by
  obtain ⟨a, b, c, d, e', g⟩ := h
  obtain ⟨f1, f2, f3, f4, f5, f6⟩ := f
  exact ⟨by rw [f1, f3]; exact a, by rw [f2, f3]; exact b, by rw [f1]; exact c, by rw [f4]; exact d,
    by rw [f1, f2, f5]; exact e', by rw [f6, f3]; exact g⟩

theorem outgoingPing_frame (s : State) : SFrame s (outgoingPing s).1 := by
  unfold Client.outgoingPing SFrame
  simp only
  split <;> split <;> (try split) <;> simp [State.pushOut, State.pushEv]

theorem SInv.outgoingPublish {s : State} (h : SInv s) (p : Pub) : SInv (outgoingPublish s p).1 := by
  unfold Client.outgoingPublish
  split
  · exact h.publishTail p
  · rename_i hq
    split
    · split
      · exact h
      · exact h.nextPkidSt.publishWithId _ hq
    · exact h.publishWithId _ hq

theorem SInv.pubrelWithId {s : State} (h : SInv s) (i : Nat) : SInv (pubrelWithId s i).1 := by
  unfold Client.pubrelWithId
  split
  · rename_i hi
    split
    · exact h
    · apply SInv.pushOut
      obtain ⟨a, b, c, d, e', f⟩ := h
      refine ⟨a, by simpa using b, c, d, ?_, f⟩
      simp only
      cases hb : s.outgoingRel[i]? with
      | none => simp at hb; omega
      | some v =>
        cases v with
        | true => rw [relCount_set_true_same _ _ hb]; omega
        | false => rw [relCount_set_true _ _ hb]; omega
  · exact h

theorem SInv.handleOutgoing {s : State} (h : SInv s) (r : Request) : SInv (handleOutgoing s r).1 := by
  unfold Client.handleOutgoing
  cases r with
  | publish p => exact h.outgoingPublish p
  | pubrel i =>
    simp only [Client.outgoingPubrel]
    split
    · split
      · exact h
      · exact h.nextPkidSt.pubrelWithId _
    · exact h.pubrelWithId _
  | subscribe n =>
    simp only [Client.outgoingSubscribe]
    split
    · exact h
    · split
      · exact h
      · exact h.nextPkidSt.pushOut _
  | unsubscribe =>
    simp only [Client.outgoingUnsubscribe]
    split
    · exact h
    · exact h.nextPkidSt.pushOut _
  | pingreq => exact h.congr (outgoingPing_frame s)
  | disconnect => exact h.pushOut _
  | puback i => exact h.pushOut _
  | pubrec i => exact h.pushOut _
  | other => exact h

theorem SInv.pubackCollision {s : State} (h : SInv s) (i : Nat) (hs : s.outgoingPub[i]? = some none) :
    SInv (pubackCollision s i).1 := by
  unfold Client.pubackCollision
  split
  · rename_i c hc
    split
    · rename_i hci
      apply SInv.pushOut
      obtain ⟨a, b, c', d, e', f⟩ := h
      refine ⟨by simpa using a, b, ?_, by simp, ?_, f⟩
      · intro j q hj
        simp only [List.getElem?_set] at hj
        split at hj
        · split at hj
          · simp at hj; subst hj; rename_i h1 _; exact ⟨h1, d c hc⟩
          · simp at hj
        · exact c' j q hj
      · simp only
        rw [hci, occ_set_some _ _ _ hs]; omega
    · exact h
  · exact h

theorem SInv.handlePuback {s : State} (h : SInv s) (i r : Nat) : SInv (handlePuback s i r).1 := by
  unfold Client.handlePuback
  split
  · exact h
  · rename_i slot hslot
    have hi : i ≤ s.upperLimit := by
      have := h.lenPub
      have : i < s.outgoingPub.length := by
        rcases Nat.lt_or_ge i s.outgoingPub.length with h' | h'
        · exact h'
        · simp [List.getElem?_eq_none h'] at hslot
      omega
    have h1 : SInv (if s.ver = Version.v4 then { s with lastPuback := i } else s) := by
      split
      · obtain ⟨a, b, c, d, e', f⟩ := h; exact ⟨a, b, c, d, e', hi⟩
      · exact h
    have hf : (if s.ver = Version.v4 then { s with lastPuback := i } else s).outgoingPub = s.outgoingPub ∧
        (if s.ver = Version.v4 then { s with lastPuback := i } else s).inflight = s.inflight := by
      split <;> simp
    generalize (if s.ver = Version.v4 then { s with lastPuback := i } else s) = s1 at h1 hf
    obtain ⟨hf1, hf2⟩ := hf
    simp only
    split
    · exact h1
    · rename_i p
      split
      · exact h1
      · rename_i hinf
        have hslot1 : s1.outgoingPub[i]? = some (some p) := by rw [hf1]; exact hslot
        have h2 : SInv { s1 with outgoingPub := s1.outgoingPub.set i none, inflight := s1.inflight - 1 } := by
          obtain ⟨a, b, c, d, e', f⟩ := h1
          refine ⟨by simpa using a, b, ?_, d, ?_, f⟩
          · intro j q hj
            simp only [List.getElem?_set] at hj
            split at hj
            · first | (split at hj <;> simp at hj) | simp at hj
            · exact c j q hj
          · have := occ_set_none _ _ _ hslot1
            simp only; omega
        split
        · exact h2
        · apply SInv.pubackCollision h2
          simp only [List.getElem?_set]
          have : i < s1.outgoingPub.length := by
            rcases Nat.lt_or_ge i s1.outgoingPub.length with h' | h'
            · exact h'
            · simp [List.getElem?_eq_none h'] at hslot1
          simp [this]

theorem SInv.handlePubrec {s : State} (h : SInv s) (i r : Nat) : SInv (handlePubrec s i r).1 := by
  unfold Client.handlePubrec
  split
  · exact h
  · exact h
  · rename_i p hslot
    have hlt : i < s.outgoingPub.length := by
      rcases Nat.lt_or_ge i s.outgoingPub.length with h' | h'
      · exact h'
      · simp [List.getElem?_eq_none h'] at hslot
    have hocc := occ_set_none _ _ _ hslot
    have h1 : SInv { s with outgoingPub := s.outgoingPub.set i none } := by
      obtain ⟨a, b, c, d, e', f⟩ := h
      refine ⟨by simpa using a, b, ?_, d, by simp only; omega, f⟩
      intro j q hj
      simp only [List.getElem?_set] at hj
      split at hj
      · first | (split at hj <;> simp at hj) | simp at hj
      · exact c j q hj
    simp only
    split
    · exact h1
    · split
      · rename_i hrl
        have hrl' : i < s.outgoingRel.length := hrl
        have hc0 := h.counter
        apply SInv.pushOut
        obtain ⟨a, b, c, d, e', f⟩ := h1
        refine ⟨a, by simpa using b, c, d, ?_, f⟩
        simp only at e' ⊢
        cases hb : s.outgoingRel[i]? with
        | none =>
          simp at hb; omega
        | some v =>
          cases v with
          | true => rw [relCount_set_true_same _ _ hb]; omega
          | false => rw [relCount_set_true _ _ hb]; omega
      · exact h1

theorem SInv.handlePubrel {s : State} (h : SInv s) (i r : Nat) : SInv (handlePubrel s i r).1 := by
  unfold Client.handlePubrel
  have h1 : SInv { s with incomingPub := s.incomingPub.filter (· != i) } := by
    obtain ⟨a, b, c, d, e', f⟩ := h; exact ⟨a, b, c, d, e', f⟩
  split
  · simp only
    split
    · exact h1
    · exact h1.pushOut _
  · exact h

theorem SInv.handlePubcompV4 {s : State} (h : SInv s) (i : Nat) : SInv (handlePubcompV4 s i).1 := by
  unfold Client.handlePubcompV4
  split
  · rename_i hc
    have hb := (relContains_eq s i).mp hc
    have hcnt := relCount_set_false _ _ hb
    split
    · obtain ⟨a, b, c, d, e', f⟩ := h
      exact ⟨a, by simpa using b, c, d, by simp only; omega, f⟩
    · have h1 : SInv { s with outgoingRel := s.outgoingRel.set i false, inflight := s.inflight - 1 } := by
        obtain ⟨a, b, c, d, e', f⟩ := h
        exact ⟨a, by simpa using b, c, d, by simp only; omega, f⟩
      simp only
      split
      · split
        · apply SInv.pushOut
          obtain ⟨a, b, c, d, e', f⟩ := h1
          exact ⟨a, b, c, by simp, e', f⟩
        · exact h1
      · exact h1
  · exact h

theorem SInv.pubcompTakeCollision {s : State} (h : SInv s) (i : Nat) : SInv (pubcompTakeCollision s i) := by
  unfold Client.pubcompTakeCollision
  split
  · split
    · apply SInv.pushOut
      obtain ⟨a, b, c, d, e', f⟩ := h
      exact ⟨a, b, c, by simp, e', f⟩
    · exact h
  · exact h

theorem SInv.handlePubcompV5 {s : State} (h : SInv s) (i r : Nat) : SInv (handlePubcompV5 s i r).1 := by
  unfold Client.handlePubcompV5
  have h1 := h.pubcompTakeCollision i
  generalize Client.pubcompTakeCollision s i = s1 at h1
  simp only
  split
  · rename_i hc
    have hb := (relContains_eq s1 i).mp hc
    have hcnt := relCount_set_false _ _ hb
    have h2 : SInv { s1 with outgoingRel := s1.outgoingRel.set i false } := by
      obtain ⟨a, b, c, d, e', f⟩ := h1
      exact ⟨a, by simpa using b, c, d, by simp only; omega, f⟩
    split
    · exact h2
    · split
      · exact h2
      · obtain ⟨a, b, c, d, e', f⟩ := h1
        exact ⟨a, by simpa using b, c, d, by simp only; omega, f⟩
  · exact h1

theorem publishAlias_frame (s : State) (p : InPub) : SFrame s (publishAlias s p) := by
  unfold Client.publishAlias SFrame
  split
  · simp
  · split
    · simp
    · split
      · split <;> simp
      · split <;> simp [State.pushOut, State.pushEv]

theorem SInv.handlePublish {s : State} (h : SInv s) (p : InPub) : SInv (handlePublish s p).1 := by
  unfold Client.handlePublish
  have h1 := h.congr (publishAlias_frame s p)
  generalize Client.publishAlias s p = s1 at h1
  simp only
  split
  · exact h1
  · split
    · split
      · exact h1.pushOut _
      · exact h1
    · have h2 : SInv (if s1.incomingPub.contains p.pkid = true then s1 else { s1 with incomingPub := p.pkid :: s1.incomingPub }) := by
        split
        · exact h1
        · obtain ⟨a, b, c, d, e', f⟩ := h1; exact ⟨a, b, c, d, e', f⟩
      generalize (if s1.incomingPub.contains p.pkid = true then s1 else { s1 with incomingPub := p.pkid :: s1.incomingPub }) = s2 at h2
      split
      · exact h2.pushOut _
      · exact h2

theorem handleConnack_frame (s : State) (ok : Bool) (rm am : Option Nat) : SFrame s (handleConnack s ok rm am).1 := by
  unfold Client.handleConnack SFrame
  split
  · simp
  · cases rm <;> cases am <;> simp

theorem SInv.handleIncoming {s : State} (h : SInv s) (p : Incoming) : SInv (handleIncoming s p).1 := by
  unfold Client.handleIncoming
  have h0 := h.pushEv (.incoming p)
  generalize s.pushEv (.incoming p) = s0 at h0
  simp only
  cases p with
  | pingresp => obtain ⟨a, b, c, d, e', f⟩ := h0; exact ⟨a, b, c, d, e', f⟩
  | publish q => exact h0.handlePublish q
  | suback _ => exact h0
  | unsuback _ => exact h0
  | puback i r => exact h0.handlePuback i r
  | pubrec i r => exact h0.handlePubrec i r
  | pubrel i r => exact h0.handlePubrel i r
  | pubcomp i r =>
    simp only [Client.handlePubcomp]
    split
    · exact h0.handlePubcompV4 i
    · exact h0.handlePubcompV5 i r
  | connack ok sp rm am =>
    simp only
    split
    · exact h0
    · exact h0.congr (handleConnack_frame s0 ok rm am)
  | disconnect _ => simp only; split <;> exact h0
  | connect => exact h0
  | subscribe => exact h0
  | unsubscribe => exact h0
  | pingreq => exact h0
  | auth => exact h0

theorem SInv.cleanState {s : State} (h : SInv s) : SInv (cleanState s) := by
  obtain ⟨a, b, c, d, e', f⟩ := h
  refine ⟨by simpa [Client.cleanState] using a, by simpa [Client.cleanState] using b, ?_, d, ?_, f⟩
  · intro i p hp
    simp [Client.cleanState, List.getElem?_map] at hp
  · simp [Client.cleanState, occ_map_none, relCount_map_false]

theorem SInv.drainEvents {s : State} (h : SInv s) : SInv (drainEvents s) := by
  obtain ⟨a, b, c, d, e', f⟩ := h; exact ⟨a, b, c, d, e', f⟩

theorem SInv.sstepSt {s : State} (h : SInv s) (op : SOp) : SInv (sstepSt s op) := by
  unfold Client.sstepSt
  cases op with
  | out r => exact (h.handleOutgoing r).drainEvents
  | inc p => exact (h.handleIncoming p).drainEvents
  | clean => simp only; split; exact h; exact h.cleanState
  | drop => exact h
  | inflight => exact h

theorem SInv.cleanPanics {s : State} (h : SInv s) : cleanPanics s = false := by
  unfold Client.cleanPanics
  split
  · have := h.lenPub; have := h.lastPuback; simp; omega
  · rfl

end Client
